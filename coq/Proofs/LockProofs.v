(* Proofs/LockProofs.v -- C13: invariants of the lock protocol model. *)
From Coq Require Import List ZArith Bool Arith Lia.
From DV Require Import Model.Lock.
Import ListNotations.

(* ---- get / upd --------------------------------------------------------------- *)
Lemma L_upd_length c x l : length (upd c x l) = length l.
Proof. revert c. induction l as [|y l IH]; intros [|c]; cbn; auto. Qed.

Lemma L_get_upd i c x l :
  get i (upd c x l) = if (i =? c) && (c <? length l) then x else get i l.
Proof.
  unfold get. revert i c. induction l as [|y l IH]; intros i c.
  - cbn [upd length]. destruct c; rewrite andb_false_r; reflexivity.
  - destruct c as [|c]; cbn [upd].
    + destruct i as [|i]; cbn; reflexivity.
    + destruct i as [|i]; [reflexivity|]. cbn [nth]. rewrite IH. cbn [length].
      change (S i =? S c) with (i =? c). change (S c <? S (length l)) with (c <? length l). reflexivity.
Qed.

Lemma L_get_out i l : length l <= i -> get i l = fresh.
Proof. intros H. unfold get. apply nth_overflow, H. Qed.

Lemma L_has_range i l : has (get i l) = true -> i < length l.
Proof.
  intros H. destruct (Nat.lt_ge_cases i (length l)) as [|G]; [assumption|].
  rewrite (L_get_out _ _ G) in H. discriminate.
Qed.

Lemma L_get_repeat i n : get i (repeat fresh n) = fresh.
Proof.
  unfold get. revert i. induction n as [|n IH]; intros [|i]; cbn; auto.
Qed.

(* ---- the invariant ------------------------------------------------------------ *)
Definition Inv (st : lstate) : Prop :=
  (forall i j, has (get i (conns st)) = true -> has (get j (conns st)) = true -> i = j)
  /\ (lock st = true <-> exists i, has (get i (conns st)) = true)
  /\ (forall i, lost (get i (conns st)) = true -> has (get i (conns st)) = false).

Lemma L_inv_init n : Inv (linit n).
Proof.
  unfold Inv, linit. cbn [lock conns]. repeat split.
  - intros i j H. rewrite L_get_repeat in H. discriminate.
  - discriminate.
  - intros [i H]. rewrite L_get_repeat in H. discriminate.
  - intros i _. rewrite L_get_repeat. reflexivity.
Qed.

(* an update of connection c that does not change its has flag *)
Lemma L_inv_same lk cs c k :
  Inv (mkL lk cs) -> has k = has (get c cs) -> (lost k = true -> has k = false) ->
  Inv (mkL lk (upd c k cs)).
Proof.
  intros (U & Lk & Lo) Hh Hl. cbn [lock conns] in *.
  assert (E : forall i, has (get i (upd c k cs)) = has (get i cs)).
  { intros i. rewrite L_get_upd. destruct ((i =? c) && (c <? length cs)) eqn:B; [|reflexivity].
    apply andb_true_iff in B as [B _]. apply Nat.eqb_eq in B. subst i. exact Hh. }
  unfold Inv. cbn [lock conns]. repeat split.
  - intros i j. rewrite !E. apply U.
  - intros H. destruct (proj1 Lk H) as [i Hi]. exists i. rewrite E. exact Hi.
  - intros [i Hi]. rewrite E in Hi. apply Lk. exists i. exact Hi.
  - intros i. rewrite L_get_upd. destruct ((i =? c) && (c <? length cs)) eqn:B.
    + exact Hl.
    + apply Lo.
Qed.

(* the lock is free and connection c takes it *)
Lemma L_inv_grant cs c k :
  Inv (mkL false cs) -> c < length cs -> has k = true -> lost k = false ->
  Inv (mkL true (upd c k cs)).
Proof.
  intros (U & Lk & Lo) Hc Hh Hl. cbn [lock conns] in *.
  assert (N : forall i, has (get i cs) = false).
  { intros i. destruct (has (get i cs)) eqn:E; [|reflexivity].
    assert (false = true) by (apply Lk; exists i; exact E). discriminate. }
  assert (E : forall i, has (get i (upd c k cs)) = true -> i = c).
  { intros i. rewrite L_get_upd. destruct ((i =? c) && (c <? length cs)) eqn:B.
    - intros _. apply andb_true_iff in B as [B _]. apply Nat.eqb_eq in B. exact B.
    - rewrite N. discriminate. }
  unfold Inv. cbn [lock conns]. repeat split.
  - intros i j Hi Hj. rewrite (E i Hi), (E j Hj). reflexivity.
  - intros _. exists c. rewrite L_get_upd, Nat.eqb_refl. apply Nat.ltb_lt in Hc. rewrite Hc. exact Hh.
  - intros i. rewrite L_get_upd. destruct ((i =? c) && (c <? length cs)) eqn:B.
    + rewrite Hl. discriminate.
    + apply Lo.
Qed.

(* the holder c gives the lock up *)
Lemma L_inv_free lk cs c k :
  Inv (mkL lk cs) -> has (get c cs) = true -> has k = false ->
  Inv (mkL false (upd c k cs)).
Proof.
  intros (U & Lk & Lo) Hc Hh. cbn [lock conns] in *.
  pose proof (L_has_range _ _ Hc) as Hr. apply Nat.ltb_lt in Hr.
  assert (N : forall i, has (get i (upd c k cs)) = false).
  { intros i. rewrite L_get_upd. destruct (i =? c) eqn:B; cbn [andb].
    - rewrite Hr. exact Hh.
    - destruct (has (get i cs)) eqn:E; [|reflexivity].
      apply Nat.eqb_neq in B. exfalso. apply B. apply U; assumption. }
  unfold Inv. cbn [lock conns]. repeat split.
  - intros i j Hi. rewrite N in Hi. discriminate.
  - discriminate.
  - intros [i Hi]. rewrite N in Hi. discriminate.
  - intros i _. apply N.
Qed.

Lemma L_inv_lock_false lk cs : Inv (mkL lk cs) -> (forall i, has (get i cs) = false) -> lk = false.
Proof.
  intros (_ & Lk & _) N. cbn [lock conns] in *. destruct lk; [|reflexivity].
  destruct (proj1 Lk eq_refl) as [i Hi]. rewrite N in Hi. discriminate.
Qed.

Lemma L_inv_do_acquire c st : Inv st -> c < length (conns st) -> Inv (fst (do_acquire c st)).
Proof.
  intros I Hc. unfold do_acquire. destruct st as [lk cs]. cbn [lock conns] in *.
  destruct (stopped (get c cs)); [exact I|].
  destruct (lost (get c cs)) eqn:Lo; [exact I|].
  destruct lk; [exact I|]. cbn [fst].
  apply L_inv_grant; [exact I|exact Hc|reflexivity|reflexivity].
Qed.

Lemma L_inv_do_drop c st : Inv st -> Inv (do_drop c st).
Proof.
  intros I. unfold do_drop. destruct st as [lk cs]. cbn [lock conns] in *.
  destruct (has (get c cs)) eqn:H.
  - eapply L_inv_free; [exact I|exact H|reflexivity].
  - apply L_inv_same; [exact I| cbn [has]; rewrite H; reflexivity | reflexivity].
Qed.

Theorem L_inv_step st e : Inv st -> Inv (fst (step st e)).
Proof.
  intros I. destruct st as [lk cs]. destruct e as [c|c|c|c|c]; unfold step; cbn [lock conns].
  - (* Acquire *)
    destruct (c <? length cs) eqn:R; cbn [negb orb]; [|exact I].
    destruct (closed (get c cs)); cbn [orb]; [exact I|].
    destruct (lost (get c cs)) eqn:Lo; [exact I|].
    destruct (running (get c cs)); cbn [fst].
    + apply L_inv_do_drop, I.
    + apply L_inv_do_acquire.
      * apply L_inv_same; [exact I|reflexivity|]. cbn [lost has]. discriminate.
      * cbn [conns]. rewrite L_upd_length. apply Nat.ltb_lt, R.
  - (* Poll *)
    destruct (running (get c cs)) eqn:Ru; [|exact I].
    destruct (Nat.lt_ge_cases c (length cs)) as [Hc|Hc].
    + apply L_inv_do_acquire; assumption.
    + rewrite (L_get_out _ _ Hc) in Ru. discriminate.
  - (* Release *)
    destruct (c <? length cs) eqn:R; cbn [negb orb]; [|exact I].
    destruct (closed (get c cs)); cbn [orb]; [exact I|].
    destruct (lost (get c cs)) eqn:Lo; [exact I|].
    destruct (has (get c cs)) eqn:H; cbn [fst].
    + eapply L_inv_free; [exact I|exact H|reflexivity].
    + apply L_inv_same; [exact I| cbn [has]; rewrite H; reflexivity | reflexivity].
  - (* Drop *)
    destruct (c <? length cs) eqn:R; cbn [negb orb]; [|exact I].
    destruct (lost (get c cs)); [exact I|]. cbn [fst]. apply L_inv_do_drop, I.
  - (* Timer *)
    destruct (timers (get c cs)) as [|t]; [exact I|].
    destruct I as (U & Lk & Lo).
    destruct (running (get c cs)); cbn [fst];
    (apply L_inv_same; [exact (conj U (conj Lk Lo))|reflexivity|cbn [lost has]; apply Lo]).
Qed.

Theorem L_inv_run evs : forall st, Inv st -> Inv (fst (run st evs)).
Proof.
  induction evs as [|e r IH]; intros st I; cbn [run]; [exact I|].
  pose proof (L_inv_step st e I) as I1. destruct (step st e) as [s1 o1]. cbn [fst] in I1.
  specialize (IH s1 I1). destruct (run s1 r) as [s2 o2]. exact IH.
Qed.

(* ---- what a client is told ----------------------------------------------------- *)
Lemma L_do_acquire_out c st x :
  In x (snd (do_acquire c st)) ->
  (x = ToldBusy c /\ lock st = true /\ fst (do_acquire c st) = st)
  \/ (x = ToldYours c /\ lock st = false /\ lost (get c (conns st)) = false
      /\ lock (fst (do_acquire c st)) = true
      /\ (c < length (conns st) -> has (get c (conns (fst (do_acquire c st)))) = true)).
Proof.
  unfold do_acquire. destruct (stopped (get c (conns st))); [intros []|].
  destruct (lost (get c (conns st))) eqn:Lo; [intros []|].
  destruct (lock st) eqn:Lk; cbn [snd fst In].
  - intros [<-|[]]. left. auto.
  - intros [<-|[]]. right. repeat split; try reflexivity.
    intros Hc. cbn [conns]. rewrite L_get_upd, Nat.eqb_refl. apply Nat.ltb_lt in Hc. rewrite Hc. reflexivity.
Qed.

Lemma L_range_running c l : running (get c l) = true -> c < length l.
Proof.
  intros H. destruct (Nat.lt_ge_cases c (length l)) as [|G]; [assumption|].
  rewrite (L_get_out _ _ G) in H. discriminate.
Qed.

(* "the lock is yours" is said only in the step that gives c the lock *)
Theorem L_told_truth st e c :
  Inv st -> In (ToldYours c) (snd (step st e)) ->
  has (get c (conns st)) = false /\ has (get c (conns (fst (step st e)))) = true
  /\ lock (fst (step st e)) = true /\ (e = Acquire c \/ e = Poll c).
Proof.
  intros I. assert (NH : lock st = false -> has (get c (conns st)) = false).
  { intros Lk. destruct I as (_ & Lkk & _). destruct (has (get c (conns st))) eqn:E; [|reflexivity].
    rewrite <- Lk. symmetry. apply Lkk. exists c. exact E. }
  destruct e as [d|d|d|d|d]; unfold step.
  - destruct (d <? length (conns st)) eqn:R; cbn [negb orb]; [|intros []].
    destruct (closed (get d (conns st))); cbn [orb]; [intros []|].
    destruct (lost (get d (conns st))); [intros []|].
    destruct (running (get d (conns st))) eqn:Ru; cbn [snd fst].
    + intros [H|[]]. discriminate.
    + set (st1 := mkL _ _). intros H.
      destruct (L_do_acquire_out d st1 _ H) as [(E & _)|(E & Lk & _ & Lk' & Hh)]; [discriminate|].
      injection E as <-. subst st1. cbn [lock conns] in *. split; [apply NH, Lk|].
      split; [apply Hh; rewrite L_upd_length; apply Nat.ltb_lt, R|]. split; [exact Lk'|left; reflexivity].
  - destruct (running (get d (conns st))) eqn:Ru; [|intros []].
    intros H. destruct (L_do_acquire_out d st _ H) as [(E & _)|(E & Lk & _ & Lk' & Hh)]; [discriminate|].
    injection E as <-. split; [apply NH, Lk|]. split; [apply Hh, L_range_running, Ru|].
    split; [exact Lk'|right; reflexivity].
  - destruct (negb _ || _ || _); [intros []|].
    destruct (has (get d (conns st))); cbn [snd In]; intros [H|[H|[]]]; discriminate.
  - destruct (negb _ || _); intros [].
  - destruct (timers (get d (conns st))); [intros []|].
    destruct (running (get d (conns st))); cbn [snd In]; [intros []|intros [H|[]]; discriminate].
Qed.

(* another connection's event never touches c's record *)
Lemma L_step_other st e c :
  (forall d, (e = Acquire d \/ e = Poll d \/ e = Release d \/ e = Drop d \/ e = Timer d) -> d <> c) ->
  get c (conns (fst (step st e))) = get c (conns st).
Proof.
  intros Hd.
  assert (G : forall d k, d <> c -> get c (upd d k (conns st)) = get c (conns st)).
  { intros d k Hn. rewrite L_get_upd. apply Nat.eqb_neq in Hn. rewrite Nat.eqb_sym in Hn.
    rewrite Hn. reflexivity. }
  assert (DA : forall d s, d <> c -> get c (conns (fst (do_acquire d s))) = get c (conns s)).
  { intros d s Hn. unfold do_acquire. destruct (stopped _); [reflexivity|]. destruct (lost _); [reflexivity|].
    destruct (lock s); [reflexivity|]. cbn [fst conns]. rewrite L_get_upd.
    apply Nat.eqb_neq in Hn. rewrite Nat.eqb_sym in Hn. rewrite Hn. reflexivity. }
  destruct e as [d|d|d|d|d]; assert (Hn : d <> c) by (apply Hd; auto 6); unfold step.
  - destruct (negb _ || _ || _); [reflexivity|]. destruct (running _); cbn [fst].
    + unfold do_drop. cbn [conns]. apply (G d _ Hn).
    + rewrite DA by exact Hn. cbn [conns]. apply (G d _ Hn).
  - destruct (running _); [apply DA, Hn|reflexivity].
  - destruct (negb _ || _ || _); [reflexivity|]. destruct (has _); cbn [fst conns]; apply (G d _ Hn).
  - destruct (negb _ || _); [reflexivity|]. cbn [fst]. unfold do_drop. cbn [conns]. apply (G d _ Hn).
  - destruct (timers _); [reflexivity|]. destruct (running _); cbn [fst conns]; apply (G d _ Hn).
Qed.

(* c keeps the lock until its own release, its own disconnect (or its own
   protocol error, which disconnects it) *)
Theorem L_keeps st e c :
  has (get c (conns st)) = true -> has (get c (conns (fst (step st e)))) = false ->
  e = Release c \/ e = Drop c \/ e = Acquire c.
Proof.
  intros H0 H1.
  assert (X : forall d, (e = Acquire d \/ e = Poll d \/ e = Release d \/ e = Drop d \/ e = Timer d) ->
                        d <> c -> False).
  { intros d He Hn. rewrite L_step_other in H1; [cbn [fst] in H1; congruence|].
    intros d' He'. destruct e; destruct He as [E|[E|[E|[E|E]]]]; try discriminate; injection E as ->;
    destruct He' as [E|[E|[E|[E|E]]]]; try discriminate; injection E as <-; exact Hn. }
  destruct e as [d|d|d|d|d]; destruct (Nat.eq_dec d c) as [->|Hn];
  try (exfalso; eapply X; [eauto 6|exact Hn]); auto.
  - (* Poll c never clears has *)
    exfalso. unfold step in H1. destruct (running (get c (conns st))); [|cbn [fst] in H1; congruence].
    unfold do_acquire in H1. destruct (stopped _); [cbn [fst] in H1; congruence|].
    destruct (lost _); [cbn [fst] in H1; congruence|]. destruct (lock st); [cbn [fst] in H1; congruence|].
    cbn [fst conns] in H1. rewrite L_get_upd, Nat.eqb_refl in H1. cbn [andb] in H1.
    destruct (c <? length (conns st)); [discriminate|cbn [fst] in H1; congruence].
  - (* Timer c does not touch has *)
    exfalso. unfold step in H1. destruct (timers (get c (conns st))); [cbn [fst] in H1; congruence|].
    destruct (running _); cbn [fst conns] in H1; rewrite L_get_upd, Nat.eqb_refl in H1; cbn [andb] in H1;
    (destruct (c <? length (conns st)); cbn [has] in H1; cbn [fst] in H1; congruence).
Qed.

(* a holder whose connection drops releases the lock *)
Theorem L_crash_release st c :
  Inv st -> has (get c (conns st)) = true ->
  lock (fst (step st (Drop c))) = false /\ has (get c (conns (fst (step st (Drop c))))) = false.
Proof.
  intros (U & Lk & Lo) H. pose proof (L_has_range _ _ H) as R. apply Nat.ltb_lt in R.
  unfold step. rewrite R. cbn [negb orb].
  destruct (lost (get c (conns st))) eqn:L; [rewrite (Lo c L) in H; discriminate|].
  cbn [fst]. unfold do_drop. rewrite H. cbn [lock conns]. split; [reflexivity|].
  rewrite L_get_upd, Nat.eqb_refl, R. reflexivity.
Qed.

Definition target (e : event) : nat :=
  match e with Acquire d | Poll d | Release d | Drop d | Timer d => d end.
Definition owner (x : lout) : nat :=
  match x with ToldYours c | ToldBusy c | Released c _ | Closed c | Crashed c => c end.

(* every output of a step concerns the connection the event is about *)
Lemma L_out_owner st e x : In x (snd (step st e)) -> owner x = target e.
Proof.
  assert (OUT : forall d s, In x (snd (do_acquire d s)) -> owner x = d).
  { intros d s Hx. destruct (L_do_acquire_out d s x Hx) as [(E & _)|(E & _)]; subst x; reflexivity. }
  destruct e as [d|d|d|d|d]; unfold step; cbn [target].
  - destruct (negb _ || _ || _); [intros []|]. destruct (running _); cbn [snd].
    + intros [<-|[]]. reflexivity.
    + apply OUT.
  - destruct (running _); [apply OUT|intros []].
  - destruct (negb _ || _ || _); [intros []|]. destruct (has _); cbn [snd In];
    intros [<-|[<-|[]]]; reflexivity.
  - destruct (negb _ || _); intros [].
  - destruct (timers _); [intros []|]. destruct (running _); cbn [snd In]; [intros []|].
    intros [<-|[]]. reflexivity.
Qed.

Lemma L_step_other' st e c : target e <> c ->
  get c (conns (fst (step st e))) = get c (conns st).
Proof.
  intros Hn. apply L_step_other. intros d He.
  destruct e; destruct He as [E|[E|[E|[E|E]]]]; try discriminate; injection E as <-; exact Hn.
Qed.

(* a dropped connection stays dropped, is told nothing and takes nothing *)
Lemma L_lost_step st e c :
  lost (get c (conns st)) = true ->
  lost (get c (conns (fst (step st e)))) = true
  /\ ~ In (ToldYours c) (snd (step st e)) /\ ~ In (ToldBusy c) (snd (step st e))
  /\ has (get c (conns (fst (step st e)))) = has (get c (conns st)).
Proof.
  intros L.
  destruct (Nat.eq_dec (target e) c) as [T|T].
  - assert (DA : do_acquire c st = (st, [])).
    { unfold do_acquire. rewrite L. destruct (stopped _); reflexivity. }
    destruct e as [d|d|d|d|d]; cbn [target] in T; subst d; unfold step.
    + rewrite L, orb_true_r. cbn [fst snd In]. rewrite L. tauto.
    + destruct (running _); [rewrite DA|]; cbn [fst snd In]; rewrite L; tauto.
    + rewrite L, orb_true_r. cbn [fst snd In]. rewrite L. tauto.
    + rewrite L, orb_true_r. cbn [fst snd In]. rewrite L. tauto.
    + destruct (timers (get c (conns st))) eqn:Ti; [cbn [fst snd In]; rewrite L; tauto|].
      destruct (running (get c (conns st))); cbn [fst snd conns In]; rewrite L_get_upd, Nat.eqb_refl;
      cbn [andb]; destruct (c <? length (conns st)); cbn [lost has]; rewrite ?L;
      (split; [reflexivity|]; split; [|split; [|reflexivity]]); intros H;
      repeat (destruct H as [H|H]; try discriminate); try contradiction.
  - rewrite (L_step_other' st e c T). rewrite L. split; [reflexivity|].
    split; [|split; [|reflexivity]]; intros H; apply L_out_owner in H; cbn [owner] in H; congruence.
Qed.

Theorem L_lost_forever evs : forall st c,
  lost (get c (conns st)) = true ->
  lost (get c (conns (fst (run st evs)))) = true
  /\ ~ In (ToldYours c) (snd (run st evs)) /\ ~ In (ToldBusy c) (snd (run st evs))
  /\ has (get c (conns (fst (run st evs)))) = has (get c (conns st)).
Proof.
  induction evs as [|e r IH]; intros st c L; cbn [run].
  - cbn [fst snd In]. auto.
  - destruct (L_lost_step st e c L) as (L1 & NY & NB & H1).
    destruct (step st e) as [s1 o1]. cbn [fst snd] in *.
    destruct (IH s1 c L1) as (L2 & NY2 & NB2 & H2).
    destruct (run s1 r) as [s2 o2]. cbn [fst snd] in *.
    split; [exact L2|]. split; [|split; [|rewrite H2; exact H1]];
    intros H; apply in_app_or in H as [H|H]; auto.
Qed.

(* the lock is free and c waits: c's next poll grants it *)
Theorem L_granted st c :
  lock st = false -> waiting (get c (conns st)) = true ->
  snd (step st (Poll c)) = [ToldYours c]
  /\ lock (fst (step st (Poll c))) = true
  /\ has (get c (conns (fst (step st (Poll c))))) = true.
Proof.
  intros Lk W. unfold waiting in W.
  apply andb_true_iff in W as [W Lo]. apply andb_true_iff in W as [Ru St].
  apply negb_true_iff in Lo. apply negb_true_iff in St.
  unfold step. rewrite Ru. unfold do_acquire. rewrite St, Lo, Lk. cbn [fst snd lock conns].
  split; [reflexivity|]. split; [reflexivity|].
  pose proof (L_range_running _ _ Ru) as R. apply Nat.ltb_lt in R.
  rewrite L_get_upd, Nat.eqb_refl, R. reflexivity.
Qed.

(* a held lock is always freed by its holder's release or disconnect *)
Theorem L_holder_frees st :
  Inv st -> lock st = true ->
  exists h, has (get h (conns st)) = true
    /\ lock (fst (step st (Drop h))) = false
    /\ (closed (get h (conns st)) = false -> lock (fst (step st (Release h))) = false).
Proof.
  intros I Lk. destruct I as (U & Lkk & Lo). destruct (proj1 Lkk Lk) as [h Hh].
  exists h. split; [exact Hh|]. split; [apply (L_crash_release st h (conj U (conj Lkk Lo)) Hh)|].
  intros Cl. pose proof (L_has_range _ _ Hh) as R. apply Nat.ltb_lt in R.
  unfold step. rewrite R, Cl. cbn [negb orb].
  destruct (lost (get h (conns st))) eqn:L; [rewrite (Lo h L) in Hh; discriminate|].
  rewrite Hh. reflexivity.
Qed.

(* ---- closing and reopening the database between lock events changes
   nothing: a history with Reopen events behaves as the history without ---- *)
Theorem L_xrun_erase xs : forall st, xrun st xs = run st (erase xs).
Proof.
  induction xs as [|x r IH]; intros st; cbn [xrun erase run]; [reflexivity|].
  destruct x as [e|]; cbn [xstep erase run].
  - destruct (step st e) as [s1 o1]. rewrite IH. reflexivity.
  - rewrite IH. destruct (run st (erase r)) as [s2 o2]. reflexivity.
Qed.
