(* Proofs/LogSendProofs.v -- C14, sender side of the log channel
   (Model/LogSend.v) and its composition with the receiver (Model/Frame.v):
   what a LogSink makes of the bytes of one connection; the shape of the bytes
   the handler writes; conservation of records; the stuck state. *)
From Coq Require Import List ZArith Bool Lia Arith.
From DV Require Import Model.Frame Model.LogSend Proofs.FrameProofs.
Import ListNotations.
Open Scope Z_scope.

(* ======================================================================== *)
(* 1. the receiver on a stream of whole frames followed by a frame cut short *)
(* ======================================================================== *)
Definition LS_small (m : list Z) : Prop := Z.of_nat (length m) < 4294967296.

(* nothing, or the beginning of a frame that is not complete *)
Definition LS_torn (t : list Z) : Prop :=
  t = [] \/ exists m suf, LS_small m /\ suf <> [] /\ frame m = t ++ suf.

Lemma LS_app_split (a b c d : list Z) :
  a ++ b = c ++ d -> (length c <= length a)%nat -> exists x, a = c ++ x /\ d = x ++ b.
Proof.
  revert a. induction c as [|y c IH]; intros a H L; cbn [app] in *.
  - exists a. auto.
  - destruct a as [|z a]; cbn [length] in L; [lia|]. cbn [app] in H.
    injection H as -> H. destruct (IH a H ltac:(lia)) as (x & -> & ->). exists x. auto.
Qed.

Lemma LS_frame_length m : length (frame m) = (4 + length m)%nat.
Proof. unfold frame. rewrite app_length. reflexivity. Qed.

Lemma LS_run_torn t : LS_torn t -> snd (run (mkF t None)) = [].
Proof.
  intros [->|(m & suf & Hm & Hs & E)].
  - rewrite F_run_stop; reflexivity.
  - destruct (Nat.lt_ge_cases (length t) 4) as [L|L].
    + rewrite F_run_stop; [reflexivity|]. unfold iter, need. cbn [fbuf flen].
      destruct (_ <=? _) eqn:Q; [|reflexivity]. apply Z.leb_le in Q. change (Z.of_nat hlen) with 4 in Q. lia.
    + unfold frame in E. symmetry in E.
      destruct (LS_app_split t suf (enc32 (Z.of_nat (length m))) m E ltac:(cbn; lia)) as (t' & -> & ->).
      assert (E1 : iter (mkF (enc32 (Z.of_nat (length (t' ++ suf))) ++ t') None)
                   = Some (mkF t' (Some (Z.of_nat (length (t' ++ suf)))), [])).
      { unfold iter, need. cbn [fbuf flen].
        assert (Q : Z.of_nat hlen <=? Z.of_nat (length (enc32 (Z.of_nat (length (t' ++ suf))) ++ t')) = true).
        { apply Z.leb_le. rewrite app_length, F_enc32_length. change (Z.of_nat hlen) with 4. lia. }
        rewrite Q, F_firstn_enc32, F_skipn_enc32, F_be32_enc32; [reflexivity|].
        unfold LS_small in Hm. lia. }
      assert (E2 : iter (mkF t' (Some (Z.of_nat (length (t' ++ suf))))) = None).
      { unfold iter, need. cbn [fbuf flen]. destruct (_ <=? _) eqn:Q; [|reflexivity].
        apply Z.leb_le in Q. rewrite app_length in Q. destruct suf; [contradiction|cbn [length] in Q; lia]. }
      rewrite (F_run_step _ _ _ E1), (F_run_stop _ E2). reflexivity.
Qed.

Lemma LS_run_frames ms rest : Forall LS_small ms ->
  run (mkF (concat (map frame ms) ++ rest) None)
  = (fst (run (mkF rest None)), ms ++ snd (run (mkF rest None))).
Proof.
  intros H. induction H as [|m ms Hm _ IH]; cbn [map concat app].
  - destruct (run (mkF rest None)); reflexivity.
  - rewrite <- app_assoc, F_run_frame by exact Hm. rewrite IH. reflexivity.
Qed.

Lemma LS_emit_plain ps : emit ls_chan ps = map Deliver ps.
Proof. apply F_emit_plain. intros p _. split; reflexivity. Qed.

(* whatever the chunking: whole frames followed by a torn one deliver exactly
   the whole ones, in order; the connection stays open, nothing else happens *)
Theorem LS_sink_stream chunks ms t :
  Forall LS_small ms -> LS_torn t -> concat chunks = concat (map frame ms) ++ t ->
  ls_sink chunks = map Deliver ms.
Proof.
  intros Hs Ht E. unfold ls_sink.
  assert (W : whole ls_chan finit (concat chunks) = map Deliver ms).
  { unfold whole. rewrite F_feed_run, E. unfold app_buf, finit. cbn [fbuf flen app].
    rewrite LS_run_frames by exact Hs. cbn [snd]. rewrite LS_run_torn by exact Ht.
    rewrite app_nil_r. apply LS_emit_plain. }
  change cinit with (mkC finit true).
  rewrite (F_conn_state ls_chan chunks finit F_finit_finished); rewrite W; [reflexivity|].
  apply F_quiet_map_deliver.
Qed.

(* a prefix of such a stream is such a stream, of a prefix of the frames *)
Lemma LS_torn_prefix t pre suf : LS_torn t -> t = pre ++ suf -> LS_torn pre.
Proof.
  intros [->|(m & s0 & Hm & Hs & E)] H.
  - symmetry in H. apply app_eq_nil in H. left. apply H.
  - right. exists m, (suf ++ s0). split; [exact Hm|]. split.
    + destruct suf; cbn; [exact Hs|discriminate].
    + rewrite E, H, app_assoc. reflexivity.
Qed.

Lemma LS_stream_prefix ms : forall t pre suf,
  Forall LS_small ms -> LS_torn t -> concat (map frame ms) ++ t = pre ++ suf ->
  exists ms1 ms2 t', ms = ms1 ++ ms2 /\ LS_torn t' /\ pre = concat (map frame ms1) ++ t'.
Proof.
  induction ms as [|m ms IH]; intros t pre suf Hs Ht E; cbn [map concat app] in E.
  - exists [], [], pre. split; [reflexivity|]. split; [|reflexivity]. eapply LS_torn_prefix; eauto.
  - inversion Hs as [|? ? Hm Hs']; subst. rewrite <- app_assoc in E.
    destruct (Nat.lt_ge_cases (length pre) (length (frame m))) as [L|L].
    + destruct (LS_app_split _ _ _ _ E ltac:(lia)) as (x & Ex & _).
      exists [], (m :: ms), pre. split; [reflexivity|]. split; [|reflexivity].
      right. exists m, x. split; [exact Hm|]. split; [|exact Ex].
      intros ->. rewrite app_nil_r in Ex. rewrite Ex in L. lia.
    + symmetry in E. destruct (LS_app_split _ _ _ _ E L) as (x & -> & Ex).
      destruct (IH t x suf Hs' Ht Ex) as (ms1 & ms2 & t' & -> & Ht' & ->).
      exists (m :: ms1), ms2, t'. split; [reflexivity|]. split; [exact Ht'|].
      cbn [map concat]. rewrite app_assoc. reflexivity.
Qed.

(* ======================================================================== *)
(* 2. the sender                                                             *)
(* ======================================================================== *)
Section Sender.
Variable pk : Z -> list Z.
Hypothesis pk_small : forall r, LS_small (pk r).

Definition LS_frames (ids : list Z) : list Z := concat (map frame (map pk ids)).

Lemma LS_frames_app a b : LS_frames (a ++ b) = LS_frames a ++ LS_frames b.
Proof. unfold LS_frames. rewrite !map_app, concat_app. reflexivity. Qed.

Lemma LS_small_all ids : Forall LS_small (map pk ids).
Proof. apply Forall_forall. intros m Hm. apply in_map_iff in Hm. destruct Hm as (r & <- & _). apply pk_small. Qed.

(* a connection that is up carries whole frames only; one that is over may end
   in a frame cut short *)
Definition LS_wire_up (w : ls_wire) : Prop := ls_wbytes w = LS_frames (ls_wids w).
Definition LS_wire_ok (w : ls_wire) : Prop :=
  exists t, LS_torn t /\ ls_wbytes w = LS_frames (ls_wids w) ++ t.
Definition LS_inv (s : ls_st) : Prop :=
  (forall w, ls_sock s = Some w -> LS_wire_up w) /\ Forall LS_wire_ok (ls_closed s).

Lemma LS_up_ok w : LS_wire_up w -> LS_wire_ok w.
Proof. intros H. exists []. split; [left; reflexivity|]. rewrite app_nil_r. exact H. Qed.

Ltac ls_ifs H :=
  repeat match type of H with
         | context [if ?c then _ else _] => destruct c eqn:?
         | context [match ?c with Some _ => _ | None => _ end] => destruct c eqn:?
         end.

Lemma LS_createSocket_spec s s' e : ls_createSocket s = (s', e) ->
  ls_closed s' = ls_closed s /\ ls_dropped s' = ls_dropped s /\ ls_local s' = ls_local s
  /\ ls_sends s' = ls_sends s
  /\ (ls_sock s' = ls_sock s \/ ls_sock s' = Some (mkLW [] [])).
Proof.
  unfold ls_createSocket. cbv zeta. intros H.
  destruct (match ls_rtime _ with Some rt => _ | None => true end);
  [destruct (ls_res _ =? 0); [|destruct (ls_res _ =? 1)]|];
  injection H as <- <-; cbn; auto 10.
Qed.

Lemma LS_createSocket_inv s s' e : LS_inv s -> ls_createSocket s = (s', e) -> LS_inv s'.
Proof.
  intros [Hu Hc] H. destruct (LS_createSocket_spec _ _ _ H) as (Ec & _ & _ & _ & Es).
  split; [|rewrite Ec; exact Hc]. intros w Hw. destruct Es as [Es|Es]; rewrite Es in Hw.
  - apply Hu, Hw.
  - injection Hw as <-. reflexivity.
Qed.

(* the part of SocketHandler.send after "if self.sock is None: createSocket()" *)
Definition LS_send_tail (s1 : ls_st) (r : Z) : ls_st :=
  match ls_sock s1 with
  | Some w =>
      let b := ls_makePickle pk r in
      let j := hd (-1) (ls_sends s1) in
      let s2 := ls_set_sends s1 (tl (ls_sends s1)) in
      if j <? 0 then ls_set_sock s2 (Some (mkLW (ls_wids w ++ [r]) (ls_wbytes w ++ b)))
      else
        let got := firstn (Z.to_nat (Z.min j (Z.of_nat (length b) - 1))) b in
        ls_drop (ls_set_closed (ls_set_sock s2 None) (mkLW (ls_wids w) (ls_wbytes w ++ got) :: ls_closed s2)) r
  | None => ls_drop s1 r
  end.

Lemma LS_send_unfold s r :
  ls_send pk s r =
  match ls_sock s with
  | Some _ => LS_send_tail s r
  | None => if snd (ls_createSocket s) then ls_drop (fst (ls_createSocket s)) r
            else LS_send_tail (fst (ls_createSocket s)) r
  end.
Proof.
  unfold ls_send, LS_send_tail. destruct (ls_sock s) eqn:E.
  - rewrite E. reflexivity.
  - destruct (ls_createSocket s) as [s1 [|]]; reflexivity.
Qed.

Lemma LS_drop_inv s r : LS_inv s -> LS_inv (ls_drop s r).
Proof. intros H. exact H. Qed.

Lemma LS_send_tail_inv s r : LS_inv s -> LS_inv (LS_send_tail s r).
Proof.
  intros H. unfold LS_send_tail. destruct (ls_sock s) as [w|] eqn:E; [|exact H].
  destruct H as [Hu Hc]. specialize (Hu w E). cbv zeta. destruct (_ <? 0).
  - split; [|exact Hc]. intros w' Hw'. cbn [ls_sock ls_set_sock ls_set_sends] in Hw'.
    injection Hw' as <-. unfold LS_wire_up in *. cbn [ls_wids ls_wbytes].
    rewrite LS_frames_app, Hu. unfold LS_frames, ls_makePickle. cbn [map concat]. rewrite app_nil_r. reflexivity.
  - split; [cbn; discriminate|]. cbn [ls_closed ls_drop ls_set_dropped ls_set_closed]. constructor; [|exact Hc].
    set (b := ls_makePickle pk r). set (k := Z.to_nat (Z.min _ _)).
    exists (firstn k b). split; [|cbn [ls_wids ls_wbytes]; rewrite Hu; reflexivity].
    right. exists (pk r), (skipn k b). split; [apply pk_small|]. split.
    + assert (L : (k < length b)%nat).
      { subst k b. unfold ls_makePickle. rewrite LS_frame_length. lia. }
      intros Hn. pose proof (skipn_length k b) as HL. rewrite Hn in HL. cbn [length] in HL. lia.
    + symmetry. apply firstn_skipn.
Qed.

Lemma LS_send_inv s r : LS_inv s -> LS_inv (ls_send pk s r).
Proof.
  intros H. rewrite LS_send_unfold. destruct (ls_sock s) eqn:E.
  - apply LS_send_tail_inv, H.
  - destruct (ls_createSocket s) as [s1 e] eqn:C. cbn [fst snd].
    pose proof (LS_createSocket_inv _ _ _ H C) as H1.
    destruct e; [apply LS_drop_inv, H1|apply LS_send_tail_inv, H1].
Qed.

Lemma LS_flush_inv f : forall s, LS_inv s -> LS_inv (ls_flush pk f s).
Proof.
  induction f as [|f IH]; intros s H; cbn [ls_flush]; [exact H|].
  destruct (ls_q s) as [|r rest]; [exact H|]. apply IH, LS_send_inv. exact H.
Qed.

Lemma LS_emit_inv wi s r : LS_inv s -> LS_inv (ls_emit pk wi s r).
Proof.
  intros H. unfold ls_emit. destruct wi; [exact H|]. destruct (ls_shaking s); [exact H|].
  apply LS_send_inv, LS_flush_inv, H.
Qed.

Lemma LS_close_inv s : LS_inv s -> LS_inv (ls_close s).
Proof.
  intros [Hu Hc]. unfold ls_close. destruct (ls_sock s) as [w|] eqn:E; [|split; [rewrite E|]; assumption].
  split; [cbn; discriminate|]. cbn. constructor; [|exact Hc]. apply LS_up_ok, Hu. reflexivity.
Qed.

Lemma LS_step_inv wi s e : LS_inv s -> LS_inv (ls_step pk wi s e).
Proof.
  intros H. destruct e; cbn [ls_step]; [apply LS_emit_inv|apply LS_close_inv]; exact H.
Qed.

Lemma LS_run_inv wi evs : forall s, LS_inv s -> LS_inv (ls_run pk wi s evs).
Proof.
  unfold ls_run. induction evs as [|e evs IH]; intros s H; cbn [fold_left]; [exact H|].
  apply IH, LS_step_inv, H.
Qed.

Lemma LS_init_inv ticks env sends : LS_inv (ls_init ticks env sends).
Proof. split; [cbn; discriminate|constructor]. Qed.

(* every connection of a reachable state: whole frames of the records in
   ls_wids, then possibly a torn frame -- never on the connection that is up *)
Theorem LS_wires_shape wi ticks env sends evs :
  let s := ls_run pk wi (ls_init ticks env sends) evs in
  Forall LS_wire_ok (ls_wires s) /\ (forall w, ls_sock s = Some w -> LS_wire_up w).
Proof.
  cbv zeta. destruct (LS_run_inv wi evs _ (LS_init_inv ticks env sends)) as [Hu Hc].
  split; [|exact Hu]. unfold ls_wires. apply Forall_app. split.
  - apply Forall_forall. intros w Hw. apply in_rev in Hw. rewrite Forall_forall in Hc. apply Hc, Hw.
  - destruct (ls_sock _) as [w|] eqn:E; constructor; [|constructor]. apply LS_up_ok, Hu. reflexivity.
Qed.

(* ---- sender o receiver ---------------------------------------------------- *)
(* the connection that is up: all its bytes, any fragmentation -> exactly the
   records written to it, in order *)
Theorem LS_roundtrip_up wi ticks env sends evs w chunks :
  ls_sock (ls_run pk wi (ls_init ticks env sends) evs) = Some w ->
  concat chunks = ls_wbytes w ->
  ls_sink chunks = map Deliver (map pk (ls_wids w)).
Proof.
  intros Hw E. destruct (LS_wires_shape wi ticks env sends evs) as [_ Hu]. cbv zeta in Hu.
  apply (LS_sink_stream chunks (map pk (ls_wids w)) []); [apply LS_small_all|left; reflexivity|].
  rewrite E, (Hu w Hw), app_nil_r. reflexivity.
Qed.

(* any connection, up or lost: the bytes that arrived are a prefix [pre] of what
   was written; any fragmentation -> a prefix of the records written to it, each
   whole, in order; a partial record is never delivered *)
Theorem LS_roundtrip_lost wi ticks env sends evs w pre suf chunks :
  In w (ls_wires (ls_run pk wi (ls_init ticks env sends) evs)) ->
  ls_wbytes w = pre ++ suf -> concat chunks = pre ->
  exists ids1 ids2, ls_wids w = ids1 ++ ids2 /\ ls_sink chunks = map Deliver (map pk ids1).
Proof.
  intros Hw Eb Ec. destruct (LS_wires_shape wi ticks env sends evs) as [Hok _]. cbv zeta in Hok.
  rewrite Forall_forall in Hok. destruct (Hok w Hw) as (t & Ht & Hb).
  rewrite Hb in Eb.
  destruct (LS_stream_prefix _ t pre suf (LS_small_all _) Ht Eb) as (ms1 & ms2 & t' & Em & Ht' & Ep).
  apply map_eq_app in Em. destruct Em as (ids1 & ids2 & Ei & <- & <-).
  exists ids1, ids2. split; [exact Ei|].
  apply (LS_sink_stream chunks (map pk ids1) t'); [apply LS_small_all|exact Ht'|].
  rewrite Ec, Ep. reflexivity.
Qed.

End Sender.

(* ======================================================================== *)
(* 3. conservation: every record is in exactly one place                     *)
(* ======================================================================== *)
Definition LS_cnt (x : Z) (l : list Z) : Z := Z.of_nat (count_occ Z.eq_dec l x).

Lemma LS_cnt_app x a b : LS_cnt x (a ++ b) = LS_cnt x a + LS_cnt x b.
Proof. unfold LS_cnt. rewrite count_occ_app. lia. Qed.
Lemma LS_cnt_nil x : LS_cnt x [] = 0.
Proof. reflexivity. Qed.
Lemma LS_cnt_cons x r l : LS_cnt x (r :: l) = LS_cnt x [r] + LS_cnt x l.
Proof. change (r :: l) with ([r] ++ l). apply LS_cnt_app. Qed.
Lemma LS_cnt_nonneg x l : 0 <= LS_cnt x l.
Proof. unfold LS_cnt. lia. Qed.
Global Opaque LS_cnt.

Lemma LS_nodup_cnt l : NoDup l <-> forall x, LS_cnt x l <= 1.
Proof.
  rewrite (NoDup_count_occ Z.eq_dec). Transparent LS_cnt. unfold LS_cnt. Opaque LS_cnt.
  split; intros H x; specialize (H x); lia.
Qed.

(* the records security.connect will still log *)
Definition LS_future (e : list ls_attempt) : list Z := concat (map ls_logged e).
(* the records whose whole frame was accepted by some connection *)
Definition LS_onwire (s : ls_st) : list Z :=
  concat (map ls_wids (ls_closed s)) ++ match ls_sock s with Some w => ls_wids w | None => [] end.
(* where a record can be *)
Definition LS_U (x : Z) (s : ls_st) : Z :=
  LS_cnt x (LS_onwire s) + LS_cnt x (ls_dropped s) + LS_cnt x (ls_q s) + LS_cnt x (ls_local s)
  + LS_cnt x (LS_future (ls_env s)).

Definition LS_ev_ids (e : ls_ev) : list Z := match e with LEmit _ r => [r] | LClose _ => [] end.

Lemma LS_future_step e : LS_future e = ls_logged_hd e ++ LS_future (tl e).
Proof. destruct e; reflexivity. Qed.

Lemma LS_createSocket_U x s : ls_sock s = None ->
  LS_U x (fst (ls_createSocket s)) = LS_U x s.
Proof.
  intros E. unfold ls_createSocket. cbv zeta.
  destruct (match ls_rtime _ with Some rt => _ | None => true end);
  [destruct (ls_res _ =? 0); [|destruct (ls_res _ =? 1)]|];
  unfold LS_U, LS_onwire; cbn [fst ls_sock ls_closed ls_dropped ls_q ls_local ls_env
    ls_set_retry ls_set_sock ls_set_shaking ls_set_env ls_set_q ls_set_clock ls_wids];
  rewrite ?E, (LS_future_step (ls_env s)), ?LS_cnt_app, ?LS_cnt_nil; lia.
Qed.

Section Conservation.
Variable pk : Z -> list Z.

Lemma LS_send_tail_U x s r : LS_U x (LS_send_tail pk s r) = LS_U x s + LS_cnt x [r].
Proof.
  unfold LS_send_tail. destruct (ls_sock s) as [w|] eqn:E; cbv zeta; [destruct (_ <? 0)|];
  unfold LS_U, LS_onwire;
  cbn [ls_sock ls_closed ls_dropped ls_q ls_local ls_env ls_drop ls_set_dropped ls_set_closed
       ls_set_sock ls_set_sends ls_wids map concat];
  rewrite ?E, ?LS_cnt_app, ?LS_cnt_nil; lia.
Qed.

Lemma LS_drop_U x s r : LS_U x (ls_drop s r) = LS_U x s + LS_cnt x [r].
Proof.
  unfold LS_U, LS_onwire. cbn [ls_sock ls_closed ls_dropped ls_q ls_local ls_env ls_drop ls_set_dropped].
  rewrite ?LS_cnt_app. lia.
Qed.

Lemma LS_send_U x s r : LS_U x (ls_send pk s r) = LS_U x s + LS_cnt x [r].
Proof.
  rewrite LS_send_unfold. destruct (ls_sock s) eqn:E.
  - apply LS_send_tail_U.
  - pose proof (LS_createSocket_U x s E) as H. destruct (ls_createSocket s) as [s1 e]. cbn [fst snd] in *.
    destruct e; [rewrite LS_drop_U|rewrite LS_send_tail_U]; lia.
Qed.

Lemma LS_set_q_U x s rest r : ls_q s = r :: rest -> LS_U x (ls_set_q s rest) + LS_cnt x [r] = LS_U x s.
Proof.
  intros E. unfold LS_U, LS_onwire. cbn [ls_sock ls_closed ls_dropped ls_q ls_local ls_env ls_set_q].
  rewrite E, (LS_cnt_cons x r rest). lia.
Qed.

Lemma LS_flush_U x f : forall s, LS_U x (ls_flush pk f s) = LS_U x s.
Proof.
  induction f as [|f IH]; intros s; cbn [ls_flush]; [reflexivity|].
  destruct (ls_q s) as [|r rest] eqn:E; [reflexivity|].
  rewrite IH, LS_send_U. apply LS_set_q_U, E.
Qed.

Lemma LS_emit_U x wi s r : LS_U x (ls_emit pk wi s r) = LS_U x s + LS_cnt x [r].
Proof.
  unfold ls_emit. destruct wi; [|destruct (ls_shaking s)].
  - unfold LS_U, LS_onwire. cbn [ls_sock ls_closed ls_dropped ls_q ls_local ls_env ls_set_local].
    rewrite ?LS_cnt_app. lia.
  - unfold LS_U, LS_onwire. cbn [ls_sock ls_closed ls_dropped ls_q ls_local ls_env ls_set_q].
    rewrite ?LS_cnt_app. lia.
  - rewrite LS_send_U, LS_flush_U. reflexivity.
Qed.

Lemma LS_close_U x s : LS_U x (ls_close s) = LS_U x s.
Proof.
  unfold ls_close. destruct (ls_sock s) as [w|] eqn:E; [|reflexivity].
  unfold LS_U, LS_onwire.
  cbn [ls_sock ls_closed ls_dropped ls_q ls_local ls_env ls_set_closed ls_set_sock map concat].
  rewrite ?E, ?LS_cnt_app, ?LS_cnt_nil. lia.
Qed.

Lemma LS_step_U x wi s e : LS_U x (ls_step pk wi s e) = LS_U x s + LS_cnt x (LS_ev_ids e).
Proof.
  destruct e; cbn [ls_step LS_ev_ids].
  - rewrite LS_emit_U. reflexivity.
  - rewrite LS_close_U, LS_cnt_nil. change (LS_U x (ls_at s t)) with (LS_U x s). lia.
Qed.

Lemma LS_run_U x wi evs : forall s,
  LS_U x (ls_run pk wi s evs) = LS_U x s + LS_cnt x (flat_map LS_ev_ids evs).
Proof.
  unfold ls_run. induction evs as [|e evs IH]; intros s; cbn [fold_left flat_map].
  - rewrite LS_cnt_nil. lia.
  - rewrite IH, LS_step_U, LS_cnt_app. lia.
Qed.

Lemma LS_cnt_wires x s : LS_cnt x (concat (map ls_wids (ls_wires s))) = LS_cnt x (LS_onwire s).
Proof.
  unfold ls_wires, LS_onwire. rewrite map_app, concat_app, !LS_cnt_app. f_equal.
  - induction (ls_closed s) as [|w l IH]; [reflexivity|]. cbn [rev map concat].
    rewrite map_app, concat_app, !LS_cnt_app, IH. cbn [map concat]. rewrite app_nil_r. lia.
  - destruct (ls_sock s); cbn [map concat]; rewrite ?app_nil_r; reflexivity.
Qed.

(* every record handed to the handler or logged by security.connect is, at the
   end of the history, in exactly one place: on one connection (its whole frame
   accepted, once), dropped, still queued, handled locally, or not logged yet *)
Theorem LS_conservation wi ticks env sends evs x :
  let s := ls_run pk wi (ls_init ticks env sends) evs in
  LS_cnt x (concat (map ls_wids (ls_wires s))) + LS_cnt x (ls_dropped s) + LS_cnt x (ls_q s)
  + LS_cnt x (ls_local s) + LS_cnt x (LS_future (ls_env s))
  = LS_cnt x (flat_map LS_ev_ids evs) + LS_cnt x (LS_future env).
Proof.
  cbv zeta. rewrite LS_cnt_wires.
  pose proof (LS_run_U x wi evs (ls_init ticks env sends)) as H. unfold LS_U in H at 1. rewrite H.
  unfold LS_U, LS_onwire, ls_init. cbn [ls_sock ls_closed ls_dropped ls_q ls_local ls_env map concat app].
  rewrite ?LS_cnt_nil. lia.
Qed.

(* with pairwise different records: no record is written twice, on one
   connection or on two *)
Theorem LS_at_most_once wi ticks env sends evs :
  NoDup (flat_map LS_ev_ids evs ++ LS_future env) ->
  NoDup (concat (map ls_wids (ls_wires (ls_run pk wi (ls_init ticks env sends) evs)))).
Proof.
  rewrite !LS_nodup_cnt. intros H x. specialize (H x). rewrite LS_cnt_app in H.
  pose proof (LS_conservation wi ticks env sends evs x) as C. cbv zeta in C.
  set (s := ls_run pk wi (ls_init ticks env sends) evs) in *.
  pose proof (LS_cnt_nonneg x (ls_dropped s)). pose proof (LS_cnt_nonneg x (ls_q s)).
  pose proof (LS_cnt_nonneg x (ls_local s)). pose proof (LS_cnt_nonneg x (LS_future (ls_env s))). lia.
Qed.

(* ======================================================================== *)
(* 4. the loop over self.__q ends within its fuel                            *)
(* ======================================================================== *)
Definition LS_mu (s : ls_st) : nat := (length (ls_q s) + ls_envsize (ls_env s))%nat.

Lemma LS_logged_length a : (length (ls_logged a) <= S (length (ls_nested a)))%nat.
Proof. unfold ls_logged. rewrite app_length. destruct (ls_res a =? 0); cbn [length]; lia. Qed.

Lemma LS_createSocket_mu s : (LS_mu (fst (ls_createSocket s)) <= LS_mu s)%nat.
Proof.
  unfold ls_createSocket. cbv zeta.
  destruct (match ls_rtime _ with Some rt => _ | None => true end);
  [destruct (ls_res _ =? 0); [|destruct (ls_res _ =? 1)]|];
  unfold LS_mu; cbn [fst ls_q ls_env ls_set_retry ls_set_sock ls_set_shaking ls_set_env ls_set_q ls_set_clock];
  try lia; rewrite app_length; (destruct (ls_env s) as [|a e]; cbn [ls_logged_hd tl ls_envsize length];
  [lia|pose proof (LS_logged_length a); lia]).
Qed.

Lemma LS_send_tail_mu s r : LS_mu (LS_send_tail pk s r) = LS_mu s.
Proof.
  unfold LS_send_tail. destruct (ls_sock s); cbv zeta; [destruct (_ <? 0)|]; reflexivity.
Qed.

Lemma LS_send_mu s r : (LS_mu (ls_send pk s r) <= LS_mu s)%nat.
Proof.
  rewrite LS_send_unfold. destruct (ls_sock s).
  - rewrite LS_send_tail_mu. lia.
  - pose proof (LS_createSocket_mu s). destruct (ls_createSocket s) as [s1 e]. cbn [fst snd] in *.
    destruct e; [exact H|rewrite LS_send_tail_mu; exact H].
Qed.

Lemma LS_flush_done_gen f : forall s, (LS_mu s <= f)%nat -> ls_q (ls_flush pk f s) = [].
Proof.
  induction f as [|f IH]; intros s H; cbn [ls_flush].
  - unfold LS_mu in H. destruct (ls_q s); [reflexivity|cbn [length] in H; lia].
  - destruct (ls_q s) as [|r rest] eqn:E; [exact E|]. apply IH.
    pose proof (LS_send_mu (ls_set_q s rest) r) as M.
    unfold LS_mu in H, M at 2. rewrite E in H. cbn [ls_q ls_env ls_set_q length] in *. lia.
Qed.

(* "self.__q = []" after the loop: the model's loop ends with an empty queue *)
Theorem LS_flush_done s : ls_q (ls_flush pk (ls_fuel s) s) = [].
Proof. apply LS_flush_done_gen. unfold LS_mu, ls_fuel. lia. Qed.

(* ======================================================================== *)
(* 5. what the handler does when it is connected / when a connect failed      *)
(* ======================================================================== *)

(* connected, sendall never fails: the loop writes the queue in order *)
Lemma LS_flush_up f : forall s w, ls_sock s = Some w -> ls_sends s = [] ->
  (length (ls_q s) <= f)%nat ->
  ls_flush pk f s =
  ls_set_q (ls_set_sock s (Some (mkLW (ls_wids w ++ ls_q s)
                                      (ls_wbytes w ++ concat (map (ls_makePickle pk) (ls_q s)))))) [].
Proof.
  induction f as [|f IH]; intros s [wi wb] Hs Hn L; cbn [ls_flush].
  - destruct s as [so rt rp sh q cl lo dr no ti en se]. cbn in *. destruct q; [|cbn in L; lia].
    subst. cbn. rewrite !app_nil_r. reflexivity.
  - destruct s as [so rt rp sh q cl lo dr no ti en se]. cbn in *. subst. destruct q as [|r rest].
    + cbn. rewrite !app_nil_r. reflexivity.
    + cbn [length] in L. unfold ls_send. cbn [ls_sock ls_set_q ls_sends hd tl].
      cbv zeta. cbn [Z.ltb Z.compare].
      erewrite IH; [|reflexivity|reflexivity|cbn; lia]. cbn. rewrite <- !app_assoc. reflexivity.
Qed.

(* emit on a connected handler whose connection holds: the queued records
   (logged during the handshake) go first, then the record; nothing else moves *)
Theorem LS_emit_up s w r : ls_sock s = Some w -> ls_shaking s = false -> ls_sends s = [] ->
  ls_emit pk false s r =
  ls_set_q (ls_set_sock s (Some (mkLW (ls_wids w ++ ls_q s ++ [r])
       (ls_wbytes w ++ concat (map (ls_makePickle pk) (ls_q s)) ++ ls_makePickle pk r)))) [].
Proof.
  intros Hs Hk Hn. unfold ls_emit. rewrite Hk.
  rewrite (LS_flush_up _ s w Hs Hn) by (unfold ls_fuel; lia).
  destruct s as [so rt rp sh q cl lo dr no ti en se]. cbn in *. subst.
  unfold ls_send. cbn. rewrite <- !app_assoc. reflexivity.
Qed.

(* a run of emits on a connected handler whose connection holds *)
Lemma LS_run_up trs : forall s w,
  ls_sock s = Some w -> ls_shaking s = false -> ls_sends s = [] -> ls_q s = [] ->
  let s' := ls_run pk false s (map (fun p => LEmit (fst p) (snd p)) trs) in
  exists w', ls_sock s' = Some w' /\ ls_wids w' = ls_wids w ++ map snd trs
             /\ ls_closed s' = ls_closed s /\ ls_q s' = [] /\ ls_dropped s' = ls_dropped s
             /\ ls_shaking s' = false /\ ls_sends s' = [].
Proof.
  unfold ls_run. induction trs as [|[t r] trs IH]; intros s w Hs Hk Hn Hq; cbv zeta; cbn [map fold_left fst snd].
  - exists w. rewrite app_nil_r. auto 10.
  - cbn [ls_step].
    rewrite (LS_emit_up (ls_at s t) w r Hs Hk Hn). cbn [ls_q ls_at ls_set_clock]. rewrite Hq.
    cbn [map concat app].
    edestruct (IH (ls_set_q (ls_set_sock (ls_at s t) (Some (mkLW (ls_wids w ++ [r]) (ls_wbytes w ++ ls_makePickle pk r)))) []))
      as (w' & A & B & C & D & E & F & G); [reflexivity|exact Hk|exact Hn|reflexivity|].
    cbv zeta in *. exists w'. split; [exact A|]. split; [|auto 10].
    rewrite B. cbn [ls_wids]. rewrite <- app_assoc. reflexivity.
Qed.

(* the first record of a handler that has never connected, connection granted *)
Lemma LS_first_connect rp cl lo dr no ti fid env r :
  ls_emit pk false (mkLS None None rp false [] cl lo dr no ti (mkLA [] 0 fid :: env) []) r
  = mkLS (Some (mkLW [r] (ls_makePickle pk r))) None rp false [] cl lo dr (no + hd 0 ti) (tl ti) env [].
Proof. reflexivity. Qed.

(* a whole history on a connection that holds: the first record connects, the
   connection stays up, the wire carries exactly the records, in order *)
Theorem LS_history_up ticks fid env trs t0 r0 :
  let evs := LEmit t0 r0 :: map (fun p => LEmit (fst p) (snd p)) trs in
  let s := ls_run pk false (ls_init ticks (mkLA [] 0 fid :: env) []) evs in
  exists w, ls_sock s = Some w /\ ls_wids w = r0 :: map snd trs /\ ls_closed s = [] /\ ls_q s = []
            /\ ls_dropped s = [] /\ ls_shaking s = false.
Proof.
  cbv zeta.
  set (s1 := mkLS (Some (mkLW [r0] (ls_makePickle pk r0))) None (-1) false [] [] [] []
                  (Z.max 0 t0 + hd 0 ticks) (tl ticks) env []).
  assert (E : ls_run pk false (ls_init ticks (mkLA [] 0 fid :: env) [])
                     (LEmit t0 r0 :: map (fun p => LEmit (fst p) (snd p)) trs)
              = ls_run pk false s1 (map (fun p => LEmit (fst p) (snd p)) trs)) by reflexivity.
  rewrite E. clear E.
  destruct (LS_run_up trs s1 (mkLW [r0] (ls_makePickle pk r0)) eq_refl eq_refl eq_refl eq_refl)
    as (w' & A & B & C & D & E & F & _).
  exists w'. split; [exact A|]. split; [exact B|]. split; [exact C|]. split; [exact D|].
  split; [exact E|exact F].
Qed.

(* a handler whose __shaking flag is set (a connect raised) never sends again:
   whatever is emitted is appended to the queue, no connection is tried, no
   byte is written, the flag stays set *)
Lemma LS_stuck_step s e : ls_shaking s = true -> ls_sock s = None ->
  let s' := ls_step pk false s e in
  ls_shaking s' = true /\ ls_sock s' = None /\ ls_closed s' = ls_closed s /\ ls_env s' = ls_env s
  /\ ls_dropped s' = ls_dropped s /\ ls_q s' = ls_q s ++ LS_ev_ids e.
Proof.
  intros Hk Hs. destruct e as [t r|t]; cbn [ls_step LS_ev_ids]; cbv zeta.
  - unfold ls_emit. cbn [ls_at ls_shaking ls_set_clock]. rewrite Hk. cbn. auto 10.
  - unfold ls_close. cbn [ls_at ls_sock ls_set_clock]. rewrite Hs. cbn. rewrite app_nil_r. auto 10.
Qed.

Theorem LS_stuck_forever evs : forall s, ls_shaking s = true -> ls_sock s = None ->
  let s' := ls_run pk false s evs in
  ls_shaking s' = true /\ ls_wires s' = ls_wires s /\ ls_env s' = ls_env s
  /\ ls_dropped s' = ls_dropped s /\ ls_q s' = ls_q s ++ flat_map LS_ev_ids evs.
Proof.
  unfold ls_run. induction evs as [|e evs IH]; intros s Hk Hs; cbn [fold_left flat_map]; cbv zeta.
  - rewrite app_nil_r. auto.
  - destruct (LS_stuck_step s e Hk Hs) as (Hk1 & Hs1 & Hc1 & He1 & Hd1 & Hq1). cbv zeta in *.
    destruct (IH _ Hk1 Hs1) as (A & B & C & D & E). cbv zeta in *.
    split; [exact A|]. split; [|split; [congruence|split; [congruence|]]].
    + rewrite B. unfold ls_wires. rewrite Hs1, Hs, Hc1. reflexivity.
    + rewrite E, Hq1, app_assoc. reflexivity.
Qed.

(* how the handler gets there: a record emitted while there is no connection
   and the connect raises -- the record is dropped, what security.connect logged
   is queued, the flag stays set *)
Theorem LS_failed_connect s a env r :
  ls_sock s = None -> ls_shaking s = false -> ls_q s = [] -> ls_rtime s = None ->
  ls_env s = a :: env -> ls_res a <> 0 ->
  let s' := ls_emit pk false s r in
  ls_shaking s' = true /\ ls_sock s' = None /\ ls_dropped s' = ls_dropped s ++ [r]
  /\ ls_q s' = ls_logged a /\ ls_closed s' = ls_closed s /\ ls_env s' = env.
Proof.
  intros Hs Hk Hq Hr He Ha. cbv zeta. unfold ls_emit. rewrite Hk.
  assert (F : ls_flush pk (ls_fuel s) s = s) by (destruct (ls_fuel s); cbn [ls_flush]; rewrite ?Hq; reflexivity).
  rewrite F. unfold ls_send. rewrite Hs. unfold ls_createSocket. cbv zeta.
  cbn [ls_rtime ls_set_clock ls_env ls_q]. rewrite Hr, He, Hq. cbn [hd tl ls_logged_hd].
  apply Z.eqb_neq in Ha. rewrite Ha. destruct (ls_res a =? 1); cbn; rewrite ?Hs; cbn; auto 10.
Qed.

End Conservation.
