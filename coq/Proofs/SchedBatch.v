(* next_job_batch: release safety (C01), progress (C04), the queue invariant. *)
From Coq Require Import List Arith ZArith Bool Lia.
From DV Require Import Model.Sched Proofs.SchedLib Proofs.SchedOrg Proofs.SchedBuild Proofs.SchedC05
     Proofs.SchedC02 Proofs.SchedC11.
Import ListNotations.

(* ---- avail ---- *)
(* the last step of dispatch is `if <archive tick> then (leave ...) else (wait ...)`:
   both branches carry the same node table, queue, jobs, cluster, busy list and
   in-flight list *)
Ltac tail_fields :=
  match goal with
  | |- context [if ?b then (set_flags (set_farm ?s3 ?j ?cl ?bz [] ?fl) false ?p ?st, ?o)
                else (set_farm ?s3 ?j ?cl ?bz ?w ?fl, ?o')] =>
    let r := constr:(if b then (set_flags (set_farm s3 j cl bz [] fl) false p st, o)
                     else (set_farm s3 j cl bz w fl, o')) in
    assert (TC : cluster (fst r) = cl) by (destruct b; reflexivity);
    assert (TF : inflight (fst r) = fl) by (destruct b; reflexivity);
    assert (TJ : jobs (fst r) = j) by (destruct b; reflexivity);
    assert (TB : busy (fst r) = bz) by (destruct b; reflexivity);
    assert (TN : ns (fst r) = ns s3) by (destruct b; reflexivity);
    assert (TQ : que (fst r) = que s3) by (destruct b; reflexivity);
    rewrite ?TC, ?TF, ?TJ, ?TB, ?TN, ?TQ
  end.

Lemma avail_sub c l q x t : In t (avail c l q x) ->
  In t (todo (getn l x)) /\ ~ In t (doing (getn l x)).
Proof.
  unfold avail. destruct (blocked_all c l q x); [intros []|].
  intros H. apply filter_In in H. destruct H as [H1 H2]. apply andb_true_iff in H2.
  destruct H2 as [H2 _]. apply negb_true_iff in H2. split; [exact H1|]. apply mem_false_In. exact H2.
Qed.

Lemma In_deps c q x a : In a (deps c q x) <-> In a q /\ In a (anc (gi c x)).
Proof. unfold deps. rewrite filter_In, mem_In. reflexivity. Qed.

(* what is handed out is safe with respect to the state it was computed in *)
Lemma avail_safe c l q x t a : In t (avail c l q x) -> In a (anc (gi c x)) -> In a q ->
  pend l a t = false /\ pend l a ALL = false /\ t <> ALL /\ ~ In ALL (todo (getn l x)).
Proof.
  unfold avail. destruct (blocked_all c l q x) eqn:B; [intros []|].
  intros H Ha Hq. apply filter_In in H. destruct H as [Ht Hf]. apply andb_true_iff in Hf.
  destruct Hf as [_ Hf]. apply negb_true_iff in Hf.
  assert (Hd : In a (deps c q x)) by (apply In_deps; tauto).
  assert (NB : forall u, In u (todo (getn l x)) -> (u =? ALL) || pend l a ALL = false).
  { intros u Hu. destruct ((u =? ALL) || pend l a ALL) eqn:E; [|reflexivity]. exfalso.
    unfold blocked_all in B. rewrite <- not_true_iff_false in B. apply B.
    apply existsb_exists. exists a. split; [exact Hd|]. apply existsb_exists. exists u. tauto. }
  pose proof (NB t Ht) as N1. apply orb_false_iff in N1. destruct N1 as [N1 N2].
  split; [|split; [exact N2|split]].
  - destruct (pend l a t) eqn:P; [|reflexivity]. exfalso.
    rewrite <- not_true_iff_false in Hf. apply Hf. apply existsb_exists. exists a. tauto.
  - apply Nat.eqb_neq. exact N1.
  - intros HA. specialize (NB ALL HA). cbn in NB. discriminate.
Qed.

(* conversely: everything that is not blocked is handed out *)
Lemma avail_complete c l q x t : In t (todo (getn l x)) -> ~ In t (doing (getn l x)) ->
  (forall a, In a (anc (gi c x)) -> In a q -> pend l a t = false /\ pend l a ALL = false) ->
  (In ALL (todo (getn l x)) -> forall a, In a (anc (gi c x)) -> ~ In a q) ->
  In t (avail c l q x).
Proof.
  intros Ht Hd Hp Hall. unfold avail.
  assert (B : blocked_all c l q x = false).
  { unfold blocked_all. apply not_true_iff_false. intros E. apply existsb_exists in E.
    destruct E as [a [Ha E]]. apply In_deps in Ha. destruct Ha as [Hq Ha].
    apply existsb_exists in E. destruct E as [u [Hu E]]. apply orb_true_iff in E. destruct E as [E|E].
    - apply Nat.eqb_eq in E. subst u. exact (Hall Hu a Ha Hq).
    - destruct (Hp a Ha Hq) as [_ P]. congruence. }
  rewrite B. apply filter_In. split; [exact Ht|]. apply andb_true_iff. split.
  - apply negb_true_iff. apply mem_false_In. exact Hd.
  - apply negb_true_iff. apply not_true_iff_false. intros E. apply existsb_exists in E.
    destruct E as [a [Ha E]]. apply In_deps in Ha. destruct Ha as [Hq Ha].
    destruct (Hp a Ha Hq) as [P _]. congruence.
Qed.

(* ---- pend (todo U doing, as a set) is invariant under release ---- *)
Lemma mem_filter_out t av l : mem t (filter (fun u => negb (mem u av)) l) = mem t l && negb (mem t av).
Proof.
  induction l as [|u l IH]; [reflexivity|].
  cbn [filter]. destruct (mem u av) eqn:E; cbn [negb].
  - rewrite IH, mem_cons. destruct (Nat.eqb t u) eqn:Q; cbn [orb]; [|reflexivity].
    apply Nat.eqb_eq in Q. subst. rewrite E. cbn. rewrite andb_false_r. reflexivity.
  - rewrite !mem_cons, IH. destruct (Nat.eqb t u) eqn:Q; cbn [orb]; [|reflexivity].
    apply Nat.eqb_eq in Q. subst. rewrite E. reflexivity.
Qed.

Lemma release_pend c q acc x a u : pend (fst (release c q acc x)) a u = pend (fst acc) a u.
Proof.
  destruct acc as [l rel]. cbn [fst]. unfold release.
  destruct (todo (getn l x)) as [|t0 td] eqn:E; [reflexivity|]. cbn [fst]. unfold pend.
  rewrite getn_setn. destruct (Nat.eqb x a && (x <? length l)) eqn:B; [|reflexivity].
  apply andb_true_iff in B. destruct B as [B _]. apply Nat.eqb_eq in B. subst a. cbn [todo doing].
  rewrite E, mem_filter_out, mem_addl.
  destruct (mem u (avail c l q x)) eqn:A.
  - apply mem_In in A. apply avail_sub in A. destruct A as [A _]. rewrite E in A. apply mem_In in A.
    rewrite A. cbn. reflexivity.
  - cbn. rewrite andb_true_r. reflexivity.
Qed.

Lemma release_fold_pend c q xs : forall acc a u,
  pend (fst (fold_left (release c q) xs acc)) a u = pend (fst acc) a u.
Proof.
  induction xs as [|x xs IH]; intros acc a u; cbn [fold_left]; [reflexivity|].
  rewrite IH. apply release_pend.
Qed.

(* release only touches the node being processed *)
Lemma release_other c q acc x y : y <> x -> getn (fst (release c q acc x)) y = getn (fst acc) y.
Proof.
  intros N. destruct acc as [l rel]. cbn [fst]. unfold release.
  destruct (todo (getn l x)); [reflexivity|]. cbn [fst]. apply getn_setn_other. congruence.
Qed.

Lemma release_fold_other c q xs : forall acc y, ~ In y xs ->
  getn (fst (fold_left (release c q) xs acc)) y = getn (fst acc) y.
Proof.
  induction xs as [|x xs IH]; intros acc y N; cbn [fold_left]; [reflexivity|].
  rewrite IH by (intros H; apply N; right; exact H). apply release_other. intros E. apply N. left. auto.
Qed.

(* a target newly in doing was available at some intermediate state of the fold *)
Lemma release_new_doing c q acc x y t :
  In t (doing (getn (fst (release c q acc x)) y)) ->
  In t (doing (getn (fst acc) y)) \/ (y = x /\ In t (avail c (fst acc) q x)).
Proof.
  destruct acc as [l rel]. cbn [fst]. unfold release.
  destruct (todo (getn l x)); [left; assumption|]. cbn [fst]. rewrite getn_setn.
  destruct (Nat.eqb x y && _) eqn:B; [|left; assumption].
  apply andb_true_iff in B. destruct B as [B _]. apply Nat.eqb_eq in B. subst y. cbn [doing].
  intros H. apply In_addl in H. destruct H as [H|H]; [right; split; [reflexivity|exact H] | left; exact H].
Qed.

Lemma fold_new_doing c q xs : forall acc y t,
  In t (doing (getn (fst (fold_left (release c q) xs acc)) y)) ->
  In t (doing (getn (fst acc) y)) \/
  (exists l, (forall a u, pend l a u = pend (fst acc) a u) /\ In t (avail c l q y) /\ In y xs).
Proof.
  induction xs as [|x xs IH]; intros acc y t H; cbn [fold_left] in H; [left; exact H|].
  apply IH in H. destruct H as [H|(l & P & A & I)].
  - apply release_new_doing in H. destruct H as [H|[E H]]; [left; exact H|].
    subst y. right. exists (fst acc). split; [reflexivity|]. split; [exact H|left; reflexivity].
  - right. exists l. split; [|split; [exact A|right; exact I]].
    intros a u. rewrite P. apply release_pend.
Qed.

(* ---- C01 at the level of the bookkeeping: one batch ---- *)
Lemma batch_safe c s x t a :
  let s1 := fst (next_job_batch c s) in
  In t (doing (getn (ns s1) x)) -> ~ In t (doing (getn (ns s) x)) ->
  In a (anc (gi c x)) -> In a (que s) ->
  pend (ns s1) a t = false /\ pend (ns s1) a ALL = false /\ t <> ALL.
Proof.
  cbn zeta. unfold next_job_batch. destruct (paused s); [cbn [fst]; tauto|].
  pose proof (fold_new_doing c (que s) (que s) (ns s, []) x t) as F.
  pose proof (release_fold_pend c (que s) (que s) (ns s, [])) as P. cbn [fst] in *.
  destruct (fold_left (release c (que s)) (que s) (ns s, [])) as [l rel]. cbn [fst ns set_ns] in *.
  intros H N Ha Hq. apply F in H. destruct H as [H|(l0 & P0 & A & _)]; [contradiction|].
  destruct (avail_safe c l0 (que s) x t a A Ha Hq) as (S1 & S2 & S3 & _).
  rewrite !P, <- !P0. auto.
Qed.

(* ---- the queue invariant: whoever has work is in the queue ---- *)
Definition I_que (c : cfg) (s : state) : Prop :=
  forall x, (todo (getn (ns s) x) <> [] \/ doing (getn (ns s) x) <> []) -> In x (que s).

Lemma nonempty_In (l : list nat) : l <> [] <-> exists t, In t l.
Proof.
  destruct l as [|a l]; split.
  - congruence.
  - intros [t []].
  - intros _. exists a. left. reflexivity.
  - discriminate.
Qed.

Lemma I_que_alt c s : I_que c s <->
  forall x t, (In t (todo (getn (ns s) x)) \/ In t (doing (getn (ns s) x))) -> In x (que s).
Proof.
  unfold I_que. split.
  - intros H x t [Ht|Ht]; apply H; [left|right]; apply nonempty_In; exists t; exact Ht.
  - intros H x [Hx|Hx]; apply nonempty_In in Hx; destruct Hx as [t Ht]; apply (H x t); tauto.
Qed.

(* ---- que / lengths through the functions ---- *)
Lemma njb_que c s : que (fst (next_job_batch c s)) = que s.
Proof.
  unfold next_job_batch. destruct (paused s); [reflexivity|].
  destruct (fold_left _ _ _) as [l rel]. reflexivity.
Qed.

Lemma put_job_que c acc x : que (fst (put_job c acc x)) = que (fst acc).
Proof. destruct acc as [s o]. unfold put_job. destruct (rid (getn (ns s) x)); reflexivity. Qed.

Lemma put_jobs_que c js : forall acc, que (fst (fold_left (put_job c) js acc)) = que (fst acc).
Proof.
  induction js as [|x js IH]; intros acc; cbn [fold_left]; [reflexivity|].
  rewrite IH. apply put_job_que.
Qed.

Lemma dispatch_que c s : que (fst (dispatch c s)) = que s.
Proof.
  unfold dispatch. destruct (active s); cbn [negb]; [|reflexivity].
  pose proof (njb_que c s) as Q. destruct (next_job_batch c s) as [s1 rel]. cbn [fst] in Q.
  set (s2 := set_farm s1 (jobs s1 ++ rel) (cluster s1) (busy s1) (workers s1) (inflight s1)).
  set (o0 := if archive s2 && _ then [OArchive] else []).
  pose proof (put_jobs_que c (jobs s2) (s2, o0)) as P.
  destruct (fold_left (put_job c) (jobs s2) (s2, o0)) as [s3 o1]. cbn [fst] in P.
  destruct (hand_out _ _ _ _ _) as [[[[cl' w'] b'] fl'] o2].
  destruct (archive s2 && _); cbn [fst que set_farm set_flags];
  rewrite P; unfold s2; cbn [que set_farm]; exact Q.
Qed.

Lemma njb_new_doing c s x t :
  In t (doing (getn (ns (fst (next_job_batch c s))) x)) ->
  In t (doing (getn (ns s) x)) \/ In x (que s).
Proof.
  unfold next_job_batch. destruct (paused s); [cbn [fst]; tauto|].
  pose proof (fold_new_doing c (que s) (que s) (ns s, []) x t) as F. cbn [fst] in F.
  destruct (fold_left (release c (que s)) (que s) (ns s, [])) as [l rel]. cbn [fst ns set_ns] in *.
  intros H. apply F in H. destruct H as [H|(_ & _ & _ & I)]; tauto.
Qed.

(* ---- preservation of I_que ---- *)
Lemma organize_I_que c names r tg s : length (ns s) = nnodes c -> I_que c s ->
  I_que c (organize c names r tg s).
Proof.
  intros Hl I. apply I_que_alt. rewrite I_que_alt in I. intros x t H.
  destruct (organize_spec c names r tg s Hl) as (_ & T & D & Q).
  apply Q. destruct H as [H|H].
  - apply T in H. destruct H as [H|(A & B & _)]; [left; apply (I x t); tauto | right; tauto].
  - destruct (D x) as [D1 _]. rewrite D1 in H. left. apply (I x t). tauto.
Qed.

Lemma complete_I_que c x t s : In x (que s) -> I_que c s -> I_que c (complete c x t s).
Proof.
  intros Hq I. unfold I_que in *. intros y H. rewrite ns_complete in H.
  destruct (Nat.eq_dec y x) as [->|N].
  - (* the completed node: stays unless idle *)
    rewrite getn_setn in H. rewrite Nat.eqb_refl in H. cbn [andb] in H.
    unfold complete. cbn zeta.
    destruct (x <? length (ns s)) eqn:L.
    + unfold cz in H. cbn [todo doing] in H.
      destruct (todo (getn (ns s) x)) as [|a td]; destruct (if t =? ALL then [] else rem t (doing (getn (ns s) x))) as [|b dg];
      cbn [que set_que set_ns]; try exact Hq. destruct H as [H|H]; exfalso; apply H; reflexivity.
    + apply Nat.ltb_ge in L. rewrite (getn_oob _ _ L) in *. cbn in H. destruct H as [H|H]; exfalso; apply H; reflexivity.
  - rewrite getn_setn_other in H by congruence. apply que_complete_keep; [apply I; exact H|exact N].
Qed.

Lemma purge_I_que c x t s : I_que c s -> I_que c (purge c x t s).
Proof.
  intros I. apply I_que_alt. rewrite I_que_alt in I. intros y u H. unfold purge in *. cbn [ns que set_ns] in *.
  rewrite getn_fold_purge in H. apply (I y u). destruct (mem y _); [|exact H].
  cbn [pz todo doing] in H. rewrite !In_rem in H. tauto.
Qed.

Lemma dispatch_I_que c s : I_que c s -> I_que c (fst (dispatch c s)).
Proof.
  intros I. apply I_que_alt. rewrite I_que_alt in I. intros x t H. rewrite dispatch_que.
  destruct (active s) eqn:A; [|rewrite dispatch_inactive in H by exact A; apply (I x t); exact H].
  destruct (dispatch_todo c s x A) as [E1 E2]. rewrite E1, E2 in H. destruct H as [H|H].
  - apply (I x t). left. apply (njb_pending c s x). exact H.
  - apply njb_new_doing in H. destruct H as [H|H]; [apply (I x t); tauto|exact H].
Qed.

Lemma build_I_que c ch s : I_que c (build c ch s).
Proof.
  apply I_que_alt. intros x t H. destruct (build_exact c ch s) as (_ & T & D & Q).
  destruct H as [H|H].
  - apply T in H. apply Q. tauto.
  - destruct (D x) as [D1 _]. rewrite D1 in H. contradiction.
Qed.

Lemma res_I_que c x t r o vs s : length (ns s) = nnodes c -> I_que c s -> I_que c (fst (res c x t r o vs s)).
Proof.
  intros Hl I. unfold res. destruct (mem x (que (set_busy s _))) eqn:Q; [|exact I].
  set (s1 := set_busy s _).
  assert (I1 : I_que c s1) by exact I.
  assert (Hq : In x (que s1)) by (apply mem_In; exact Q).
  pose proof (complete_I_que c x t s1 Hq I1) as I2.
  assert (L2 : length (ns (complete c x t s1)) = nnodes c)
    by (rewrite ns_complete; unfold s1; cbn [ns set_busy]; rewrite setn_length; exact Hl).
  destruct o; cbn [fst].
  - unfold update. destruct vs; [exact I2|]. apply organize_I_que; [exact L2|exact I2].
  - apply purge_I_que. exact I2.
  - apply purge_I_que. exact I2.
Qed.

Lemma step_I_que c s e : length (ns s) = nnodes c -> I_que c s -> I_que c (fst (step c s e)).
Proof.
  intros Hl I. destruct e; cbn [step].
  - cbn [fst]. apply organize_I_que; assumption.
  - apply dispatch_I_que. exact I.
  - pose proof (res_I_que c x t r o values s Hl I) as R.
    destruct (res c x t r o values s) as [s' outs]. cbn [fst] in *. exact R.
  - unfold reg. destruct rev_ok; exact I.
  - unfold poll. destruct (rev_ok && active s); exact I.
  - exact I.
  - exact I.
  - exact I.
  - exact I.
  - cbn [fst]. apply build_I_que.
Qed.

Lemma init_I_que c : I_que c (init c).
Proof. intros x H. cbn [init ns] in H. rewrite getn_repeat in H. cbn in H. destruct H; congruence. Qed.

Lemma run_I_que c es : forall s, length (ns s) = nnodes c -> I_que c s ->
  I_que c (fst (run c s es)) /\ length (ns (fst (run c s es))) = nnodes c.
Proof.
  induction es as [|e es IH]; intros s Hl I; cbn [run]; [split; assumption|].
  pose proof (step_I_que c s e Hl I) as I1. pose proof (step_len c s e Hl) as L1.
  destruct (step c s e) as [s1 o]. cbn [fst] in *. specialize (IH s1 L1 I1).
  destruct (run c s1 es) as [s2 os]. exact IH.
Qed.

(* ---- C01_doing: every unit released by a dispatch tick, in every reachable state ---- *)
Lemma tick_release_safe c s x t a : I_que c s -> length (ns s) = nnodes c -> active s = true ->
  let s' := fst (dispatch c s) in
  In t (doing (getn (ns s') x)) -> ~ In t (doing (getn (ns s) x)) ->
  In a (anc (gi c x)) ->
  ~ In t (todo (getn (ns s') a)) /\ ~ In t (doing (getn (ns s') a)) /\
  ~ In ALL (todo (getn (ns s') a)) /\ ~ In ALL (doing (getn (ns s') a)) /\
  (t = ALL -> todo (getn (ns s') a) = [] /\ doing (getn (ns s') a) = []).
Proof.
  cbn zeta. intros I Hl A H N Ha.
  destruct (dispatch_todo c s x A) as [_ Ex]. rewrite Ex in H.
  destruct (dispatch_todo c s a A) as [Ea1 Ea2]. rewrite Ea1, Ea2.
  destruct (in_dec Nat.eq_dec a (que s)) as [Hq|Hq].
  - destruct (batch_safe c s x t a H N Ha Hq) as (P1 & P2 & P3).
    unfold pend in P1, P2. apply orb_false_iff in P1. apply orb_false_iff in P2.
    destruct P1 as [P1a P1b]. destruct P2 as [P2a P2b].
    rewrite mem_false_In in P1a, P1b, P2a, P2b. repeat split; try assumption; contradiction.
  - (* the ancestor is not queued: by I_que it has nothing, and a batch does not touch it *)
    assert (E0 : todo (getn (ns s) a) = [] /\ doing (getn (ns s) a) = []).
    { split.
      - destruct (todo (getn (ns s) a)) eqn:E; [reflexivity|]. exfalso. apply Hq. apply I. left. congruence.
      - destruct (doing (getn (ns s) a)) eqn:E; [reflexivity|]. exfalso. apply Hq. apply I. right. congruence. }
    assert (E1 : getn (ns (fst (next_job_batch c s))) a = getn (ns s) a).
    { unfold next_job_batch. destruct (paused s); [reflexivity|].
      pose proof (release_fold_other c (que s) (que s) (ns s, []) a Hq) as F. cbn [fst] in F.
      destruct (fold_left (release c (que s)) (que s) (ns s, [])) as [l rel]. exact F. }
    rewrite E1. destruct E0 as [E01 E02]. rewrite E01, E02. repeat split; auto.
Qed.

(* ---- from the bookkeeping to the task messages ---- *)
(* l is an intermediate state of a batch started in l0: same pending sets, doing only grew *)
Definition pend_eq (l l0 : list nstate) : Prop :=
  (forall a u, pend l a u = pend l0 a u) /\
  (forall a u, In u (doing (getn l0 a)) -> In u (doing (getn l a))).

Lemma pend_eq_refl l : pend_eq l l.
Proof. split; intros; [reflexivity|assumption]. Qed.

Lemma pend_eq_release c q acc x l : pend_eq l (fst (release c q acc x)) -> pend_eq l (fst acc).
Proof.
  intros [P D]. split.
  - intros a u. rewrite P. apply release_pend.
  - intros a u H. apply D. apply release_doing_mono. exact H.
Qed.

Lemma release_new_do c q acc x y t :
  In t (do_ (getn (fst (release c q acc x)) y)) ->
  In t (do_ (getn (fst acc) y)) \/ (y = x /\ In t (avail c (fst acc) q x)).
Proof.
  destruct acc as [l rel]. cbn [fst]. unfold release.
  destruct (todo (getn l x)); [left; assumption|]. cbn [fst]. rewrite getn_setn.
  destruct (Nat.eqb x y && _) eqn:B; [|left; assumption].
  apply andb_true_iff in B. destruct B as [B _]. apply Nat.eqb_eq in B. subst y. cbn [do_].
  intros H. apply In_addl in H. destruct H as [H|H]; [right; split; [reflexivity|exact H] | left; exact H].
Qed.

Lemma release_new_rel c q acc x y :
  In y (snd (release c q acc x)) ->
  In y (snd acc) \/ (y = x /\ exists t, In t (avail c (fst acc) q x)).
Proof.
  destruct acc as [l rel]. cbn [fst snd]. unfold release.
  destruct (todo (getn l x)); [left; assumption|]. cbn [snd].
  destruct (avail c l q x) as [|t0 av] eqn:A; [left; assumption|].
  intros H. apply in_app_or in H. destruct H as [H|[H|[]]]; [left; exact H|].
  right. split; [auto|]. exists t0. left. reflexivity.
Qed.

Lemma fold_new_do c q xs : forall acc y,
  (forall t, In t (do_ (getn (fst (fold_left (release c q) xs acc)) y)) ->
     In t (do_ (getn (fst acc) y)) \/ exists l, pend_eq l (fst acc) /\ In t (avail c l q y)) /\
  (In y (snd (fold_left (release c q) xs acc)) ->
     In y (snd acc) \/ exists l t, pend_eq l (fst acc) /\ In t (avail c l q y)).
Proof.
  induction xs as [|x xs IH]; intros acc y; cbn [fold_left]; [split; intros; left; assumption|].
  destruct (IH (release c q acc x) y) as [A B]. split.
  - intros t H. apply A in H. destruct H as [H|(l & P & Hl)].
    + apply release_new_do in H. destruct H as [H|[E H]]; [left; exact H|]. subst y.
      right. exists (fst acc). split; [apply pend_eq_refl|exact H].
    + right. exists l. split; [|exact Hl]. eapply pend_eq_release. exact P.
  - intros H. apply B in H. destruct H as [H|(l & t & P & Hl)].
    + apply release_new_rel in H. destruct H as [H|[E [t H]]]; [left; exact H|]. subst y.
      right. exists (fst acc), t. split; [apply pend_eq_refl|exact H].
    + right. exists l, t. split; [|exact Hl]. eapply pend_eq_release. exact P.
Qed.

Lemma put_job_do c acc x y :
  (forall t, In t (do_ (getn (ns (fst (put_job c acc x))) y)) -> In t (do_ (getn (ns (fst acc)) y))).
Proof.
  destruct acc as [s o]. unfold put_job. cbn [fst].
  destruct (rid (getn (ns s) x)); cbn [fst ns set_farm set_ns]; rewrite getn_setn;
  (destruct (Nat.eqb x y && _) eqn:B; [cbn [do_]; intros t []|auto]).
Qed.

Lemma put_jobs_msgs c js : forall s o s' o',
  fold_left (put_job c) js (s, o) = (s', o') ->
  exists ms, cluster s' = cluster s ++ ms /\
    forall m, In m ms -> In (m_job m) js /\ msg_ok c m /\
      (gfac (gi c (m_job m)) <> Analysis -> In (m_tgt m) (do_ (getn (ns s) (m_job m)))).
Proof.
  induction js as [|x js IH]; intros s o s' o' H; cbn [fold_left] in H.
  - inversion H; subst. exists []. rewrite app_nil_r. split; [reflexivity|]. intros m [].
  - destruct (put_job c (s, o) x) as [s1 o1] eqn:P.
    pose proof (put_job_do c (s, o) x) as D. rewrite P in D. cbn [fst] in D.
    apply put_job_cluster in P. destruct P as (ms & C1 & M1 & _).
    apply IH in H. destruct H as (ms2 & C2 & M2).
    exists (ms ++ ms2). split; [rewrite C2, C1, app_assoc; reflexivity|].
    intros m Hm. apply in_app_or in Hm. destruct Hm as [Hm|Hm].
    + destruct (M1 m Hm) as (J & K & T & _). split; [left; congruence|]. split; [exact K|].
      intros G. rewrite J in *. apply T. exact G.
    + destruct (M2 m Hm) as (J & K & T). split; [right; exact J|]. split; [exact K|].
      intros G. apply D. apply T. exact G.
Qed.

(* the invariants that hold between events *)
Definition I_do (s : state) : Prop := jobs s = [] /\ forall x, do_ (getn (ns s) x) = [].
Definition I_asp (c : cfg) (s : state) : Prop :=
  forall x t, asp c x = true -> In t (todo (getn (ns s) x)) -> t = ALL.

(* every message made in a tick comes from a target that was available *)
Lemma dispatch_newms c s : active s = true -> I_do s ->
  exists newms cl k,
    Permutation.Permutation cl (cluster s ++ newms) /\
    k = Nat.min (length cl) (length (workers_sort (workers s))) /\
    cluster (fst (dispatch c s)) = skipn k cl /\
    inflight (fst (dispatch c s)) =
      inflight s ++ combine (map fst (firstn k (workers_sort (workers s)))) (firstn k cl) /\
    forall m, In m newms -> msg_ok c m /\
      exists l t, pend_eq l (ns s) /\ In t (avail c l (que s) (m_job m)) /\
                  (gfac (gi c (m_job m)) <> Analysis -> t = m_tgt m).
Proof.
  intros Ha [Hj Hd]. unfold dispatch. rewrite Ha. cbn [negb].
  destruct (next_job_batch c s) as [s1 rel] eqn:N.
  destruct (njb_farm _ _ _ _ N) as (W1 & F1 & B1 & C1 & J1 & A1 & S1 & R1).
  (* what the batch did *)
  assert (NB : (forall y t, In t (do_ (getn (ns s1) y)) -> exists l, pend_eq l (ns s) /\ In t (avail c l (que s) y)) /\
               (forall y, In y rel -> exists l t, pend_eq l (ns s) /\ In t (avail c l (que s) y))).
  { unfold next_job_batch in N. destruct (paused s).
    - inversion N; subst. split; [intros y t H; rewrite Hd in H; contradiction|intros y []].
    - pose proof (fold_new_do c (que s) (que s) (ns s, [])) as F. cbn [fst snd] in F.
      destruct (fold_left (release c (que s)) (que s) (ns s, [])) as [l r0]. inversion N; subst.
      cbn [ns set_ns]. split.
      + intros y t H. destruct (F y) as [A _]. apply A in H. destruct H as [H|H]; [rewrite Hd in H; contradiction|exact H].
      + intros y H. apply In_sort_lvl in H. destruct (F y) as [_ B]. apply B in H.
        destruct H as [[]|H]. exact H. }
  destruct NB as [NB1 NB2].
  set (s2 := set_farm s1 (jobs s1 ++ rel) (cluster s1) (busy s1) (workers s1) (inflight s1)).
  set (o0 := if archive s2 && _ then [OArchive] else []).
  destruct (fold_left (put_job c) (jobs s2) (s2, o0)) as [s3 o1] eqn:P.
  pose proof P as P2. apply put_jobs_inv in P2. destruct P2 as (W3 & F3 & B3 & _ & _ & _ & _).
  apply put_jobs_msgs in P. destruct P as (ms & C3 & M3).
  destruct (hand_out (cluster_sort (cluster s3)) (workers_sort (workers s3)) (busy s3) (inflight s3) o1)
    as [[[[cl' w'] b'] fl'] o2] eqn:H.
  apply hand_out_spec in H. destruct H as (k & Hk & E1 & E2 & E3 & E4 & E5).
  tail_fields. clear TC TF TJ TB TN TQ.
  assert (Ws : workers s3 = workers s) by (rewrite W3; unfold s2; cbn; exact W1).
  assert (Fs : inflight s3 = inflight s) by (rewrite F3; unfold s2; cbn; exact F1).
  assert (Cs : cluster s3 = cluster s ++ ms) by (rewrite C3; unfold s2; cbn; rewrite C1; reflexivity).
  rewrite Ws in *. rewrite Fs in *.
  exists ms, (cluster_sort (cluster s3)), k.
  split; [rewrite cluster_sort_perm, Cs; reflexivity|].
  split; [exact Hk|]. split; [exact E1|]. split; [exact E3|].
  intros m Hm. destruct (M3 m Hm) as (J & K & T). split; [exact K|].
  unfold s2 in J. cbn [jobs set_farm] in J. rewrite J1, Hj in J. cbn [app] in J.
  destruct (fac_eqb (gfac (gi c (m_job m))) Analysis) eqn:G.
  - destruct (NB2 _ J) as (l & t & Pq & Av). exists l, t. split; [exact Pq|]. split; [exact Av|].
    intros NA. destruct (gfac (gi c (m_job m))); cbn in G; congruence.
  - assert (NA : gfac (gi c (m_job m)) <> Analysis) by (intros E; rewrite E in G; discriminate).
    specialize (T NA). unfold s2 in T. cbn [ns set_farm] in T.
    destruct (NB1 _ _ T) as (l & Pq & Av). exists l, (m_tgt m). auto.
Qed.

(* ---- pend through a whole dispatch ---- *)
Lemma njb_pend c s a u : pend (ns (fst (next_job_batch c s))) a u = pend (ns s) a u.
Proof.
  unfold next_job_batch. destruct (paused s); [reflexivity|].
  pose proof (release_fold_pend c (que s) (que s) (ns s, []) a u) as P. cbn [fst] in P.
  destruct (fold_left (release c (que s)) (que s) (ns s, [])) as [l rel]. exact P.
Qed.

Lemma dispatch_pend c s a u : pend (ns (fst (dispatch c s))) a u = pend (ns s) a u.
Proof.
  destruct (active s) eqn:A; [|rewrite dispatch_inactive by exact A; reflexivity].
  unfold pend. destruct (dispatch_todo c s a A) as [E1 E2]. rewrite E1, E2. apply njb_pend.
Qed.

Lemma pend_false l a u : pend l a u = false <-> ~ In u (todo (getn l a)) /\ ~ In u (doing (getn l a)).
Proof. unfold pend. rewrite orb_false_iff, !mem_false_In. reflexivity. Qed.

Definition I_aspd (c : cfg) (s : state) : Prop :=
  forall x t, asp c x = true ->
    In t (todo (getn (ns s) x)) \/ In t (doing (getn (ns s) x)) -> t = ALL.

(* C01 for the messages of one tick *)
Lemma tick_messages_safe c s : length (ns s) = nnodes c -> I_que c s -> I_do s -> I_aspd c s ->
  active s = true ->
  exists newms cl k,
    Permutation.Permutation cl (cluster s ++ newms) /\
    k = Nat.min (length cl) (length (workers_sort (workers s))) /\
    cluster (fst (dispatch c s)) = skipn k cl /\
    inflight (fst (dispatch c s)) =
      inflight s ++ combine (map fst (firstn k (workers_sort (workers s)))) (firstn k cl) /\
    forall m, In m newms -> forall a, In a (anc (gi c (m_job m))) ->
      let s' := fst (dispatch c s) in
      ~ In (m_tgt m) (todo (getn (ns s') a)) /\ ~ In (m_tgt m) (doing (getn (ns s') a)) /\
      ~ In ALL (todo (getn (ns s') a)) /\ ~ In ALL (doing (getn (ns s') a)) /\
      (m_tgt m = ALL -> todo (getn (ns s') a) = [] /\ doing (getn (ns s') a) = []).
Proof.
  intros Hl Iq Id Ia A.
  destruct (dispatch_newms c s A Id) as (newms & cl & k & P & Hk & C & F & M).
  exists newms, cl, k. repeat (split; [assumption|]).
  intros m Hm a Ha. cbn zeta.
  destruct (M m Hm) as (Ok & l & t & [Pq Dm] & Av & Tt).
  set (x := m_job m) in *.
  (* the available target is the message's target *)
  assert (Et : t = m_tgt m).
  { destruct (fac_eqb (gfac (gi c x)) Analysis) eqn:G.
    - assert (Ga : gfac (gi c x) = Analysis) by (destruct (gfac (gi c x)); cbn in G; congruence).
      destruct Ok as (F1 & _ & F3). fold x in F1. rewrite Ga in F1. rewrite (F3 F1).
      apply (Ia x t); [unfold asp; rewrite Ga; reflexivity|].
      apply avail_sub in Av. destruct Av as [Av _].
      assert (Pt : pend l x t = true) by (unfold pend; apply orb_true_iff; left; apply mem_In; exact Av).
      rewrite Pq in Pt. unfold pend in Pt. apply orb_true_iff in Pt. rewrite !mem_In in Pt. exact Pt.
    - apply Tt. intros E. rewrite E in G. discriminate. }
  subst t.
  destruct (in_dec Nat.eq_dec a (que s)) as [Hq|Hq].
  - destruct (avail_safe c l (que s) x (m_tgt m) a Av Ha Hq) as (S1 & S2 & S3 & _).
    rewrite Pq in S1, S2. rewrite <- (dispatch_pend c s) in S1, S2.
    apply pend_false in S1. apply pend_false in S2. destruct S1 as [S1a S1b]. destruct S2 as [S2a S2b].
    split; [exact S1a|]. split; [exact S1b|]. split; [exact S2a|]. split; [exact S2b|].
    intros E. contradiction.
  - assert (E0 : todo (getn (ns s) a) = [] /\ doing (getn (ns s) a) = []).
    { split.
      - destruct (todo (getn (ns s) a)) eqn:E; [reflexivity|]. exfalso. apply Hq. apply Iq. left. congruence.
      - destruct (doing (getn (ns s) a)) eqn:E; [reflexivity|]. exfalso. apply Hq. apply Iq. right. congruence. }
    assert (E1 : getn (ns (fst (next_job_batch c s))) a = getn (ns s) a).
    { unfold next_job_batch. destruct (paused s); [reflexivity|].
      pose proof (release_fold_other c (que s) (que s) (ns s, []) a Hq) as Fo. cbn [fst] in Fo.
      destruct (fold_left (release c (que s)) (que s) (ns s, [])) as [l0 rel]. exact Fo. }
    destruct (dispatch_todo c s a A) as [Ea1 Ea2]. rewrite Ea1, Ea2, E1.
    destruct E0 as [E01 E02]. rewrite E01, E02. repeat split; auto.
Qed.

(* ---- preservation of I_do and I_aspd ---- *)
Lemma fold_do_rel c q xs : forall acc y,
  (forall t, In t (do_ (getn (fst acc) y)) -> In y (snd acc)) ->
  (forall t, In t (do_ (getn (fst (fold_left (release c q) xs acc)) y)) ->
             In y (snd (fold_left (release c q) xs acc))).
Proof.
  induction xs as [|x xs IH]; intros acc y H; cbn [fold_left]; [exact H|].
  apply IH. intros t Ht. destruct acc as [l rel]. cbn [fst snd] in *. unfold release in *.
  destruct (todo (getn l x)) eqn:E; [cbn [fst snd] in *; apply (H t); exact Ht|].
  cbn [fst snd] in *. rewrite getn_setn in Ht.
  destruct (Nat.eqb x y && _) eqn:B.
  - apply andb_true_iff in B. destruct B as [B _]. apply Nat.eqb_eq in B. subst y. cbn [do_] in Ht.
    apply In_addl in Ht. destruct Ht as [Ht|Ht].
    + destruct (avail c l q x); [contradiction|]. apply in_or_app. right. left. reflexivity.
    + destruct (avail c l q x); [apply (H t); exact Ht | apply in_or_app; left; apply (H t); exact Ht].
  - destruct (avail c l q x); [apply (H t); exact Ht | apply in_or_app; left; apply (H t); exact Ht].
Qed.

Lemma put_job_jobs c s o x : jobs (fst (put_job c (s, o) x)) = rem x (jobs s).
Proof. unfold put_job. destruct (rid (getn (ns s) x)); reflexivity. Qed.

Lemma put_job_do_other c s o x y t :
  In t (do_ (getn (ns (fst (put_job c (s, o) x))) y)) -> In t (do_ (getn (ns s) y)) /\ y <> x.
Proof.
  intros Ht.
  assert (E : ns (fst (put_job c (s, o) x)) =
              setn (ns s) x {| todo := todo (getn (ns s) x); doing := doing (getn (ns s) x); do_ := [];
                               stat := Running; rid := rid (getn (ns s) x) |}).
  { unfold put_job. destruct (rid (getn (ns s) x)); reflexivity. }
  rewrite E, getn_setn in Ht. destruct (Nat.eq_dec x y) as [Exy|N].
  - subst y. rewrite Nat.eqb_refl in Ht. cbn [andb] in Ht. destruct (x <? length (ns s)) eqn:L.
    + cbn [do_] in Ht. contradiction.
    + apply Nat.ltb_ge in L. rewrite (getn_oob _ _ L) in Ht. cbn in Ht. contradiction.
  - assert (B : (x =? y) = false) by (apply Nat.eqb_neq; exact N). rewrite B in Ht. cbn [andb] in Ht.
    split; [exact Ht|congruence].
Qed.

Lemma put_jobs_clear c js : forall s o s' o',
  fold_left (put_job c) js (s, o) = (s', o') ->
  (forall z, In z (jobs s') -> In z (jobs s) /\ ~ In z js) /\
  (forall y t, In t (do_ (getn (ns s') y)) -> In t (do_ (getn (ns s) y)) /\ ~ In y js).
Proof.
  induction js as [|x js IH]; intros s o s' o' H; cbn [fold_left] in H.
  - inversion H; subst. split; [intros z Hz; split; [exact Hz|intros []]|].
    intros y t Ht. split; [exact Ht|intros []].
  - pose proof (put_job_jobs c s o x) as J1. pose proof (put_job_do_other c s o x) as D1.
    destruct (put_job c (s, o) x) as [s1 o1]. cbn [fst] in J1, D1.
    apply IH in H. destruct H as [J2 D2]. split.
    + intros z Hz. apply J2 in Hz. destruct Hz as [Hz Nz]. rewrite J1 in Hz. apply In_rem in Hz.
      destruct Hz as [Hz Nx]. split; [exact Hz|]. intros [E|E]; [congruence|contradiction].
    + intros y t Ht. apply D2 in Ht. destruct Ht as [Ht Ny]. apply D1 in Ht. destruct Ht as [Ht Nx].
      split; [exact Ht|]. intros [E|E]; [congruence|contradiction].
Qed.

Lemma dispatch_I_do c s : I_do s -> I_do (fst (dispatch c s)).
Proof.
  intros [Hj Hd]. destruct (active s) eqn:A; [|rewrite dispatch_inactive by exact A; split; assumption].
  unfold dispatch. rewrite A. cbn [negb].
  destruct (next_job_batch c s) as [s1 rel] eqn:N.
  destruct (njb_farm _ _ _ _ N) as (_ & _ & _ & _ & J1 & _).
  assert (NB : forall y t, In t (do_ (getn (ns s1) y)) -> In y rel).
  { unfold next_job_batch in N. destruct (paused s).
    - inversion N; subst. intros y t H. rewrite Hd in H. contradiction.
    - pose proof (fold_do_rel c (que s) (que s) (ns s, [])) as F. cbn [fst snd] in F.
      destruct (fold_left (release c (que s)) (que s) (ns s, [])) as [l r0]. inversion N; subst.
      cbn [ns set_ns]. intros y t H. apply In_sort_lvl. apply (F y) with (t := t); [|exact H].
      intros t0 H0. rewrite Hd in H0. contradiction. }
  set (s2 := set_farm s1 (jobs s1 ++ rel) (cluster s1) (busy s1) (workers s1) (inflight s1)).
  set (o0 := if archive s2 && _ then [OArchive] else []).
  destruct (fold_left (put_job c) (jobs s2) (s2, o0)) as [s3 o1] eqn:P.
  apply put_jobs_clear in P. destruct P as [Jc Dc].
  destruct (hand_out _ _ _ _ _) as [[[[cl' w'] b'] fl'] o2].
  assert (G1 : jobs s3 = []).
  { destruct (jobs s3) as [|z r] eqn:E; [reflexivity|]. exfalso.
    destruct (Jc z (or_introl eq_refl)) as [Hz Nz]. contradiction. }
  assert (G2 : forall y, do_ (getn (ns s3) y) = []).
  { intros y. destruct (do_ (getn (ns s3) y)) as [|t r] eqn:E; [reflexivity|]. exfalso.
    assert (Hin : In t (do_ (getn (ns s3) y))) by (rewrite E; left; reflexivity).
    destruct (Dc y t Hin) as [Ht Ny].
    apply Ny. unfold s2. cbn [jobs set_farm ns] in *. rewrite J1, Hj. cbn [app]. apply (NB y t). exact Ht. }
  destruct (archive s2 && _); cbn [fst jobs ns set_farm set_flags]; split; assumption.
Qed.

Lemma organize_I_do c names r tg s : length (ns s) = nnodes c -> I_do s -> I_do (organize c names r tg s).
Proof.
  intros Hl [Hj Hd]. destruct (organize_spec c names r tg s Hl) as (_ & _ & D & _).
  destruct (organize_farm c names r tg s) as (_ & _ & J & _). split; [congruence|].
  intros x. destruct (D x) as [_ D2]. rewrite D2. apply Hd.
Qed.

Lemma res_I_do c x t r o vs s : length (ns s) = nnodes c -> I_do s -> I_do (fst (res c x t r o vs s)).
Proof.
  intros Hl [Hj Hd]. unfold res. destruct (mem x (que (set_busy s _))); [|split; assumption].
  set (s1 := set_busy s _).
  assert (I2 : I_do (complete c x t s1)).
  { destruct (complete_farm c x t s1) as (_ & _ & J & _). split; [rewrite J; exact Hj|].
    intros y. rewrite ns_complete. unfold s1. cbn [ns set_busy]. rewrite getn_setn.
    destruct (Nat.eqb x y && _) eqn:B; [|apply Hd]. cbn [cz do_]. apply Hd. }
  assert (L2 : length (ns (complete c x t s1)) = nnodes c)
    by (rewrite ns_complete; unfold s1; cbn [ns set_busy]; rewrite setn_length; exact Hl).
  destruct o; cbn [fst].
  - unfold update. destruct vs; [exact I2|]. apply organize_I_do; [exact L2|]. exact I2.
  - destruct I2 as [J2 D2]. split; [exact J2|]. intros y. unfold purge. cbn [ns set_ns].
    rewrite getn_fold_purge. destruct (mem y _); [|apply D2]. cbn [pz do_]. rewrite D2. reflexivity.
  - destruct I2 as [J2 D2]. split; [exact J2|]. intros y. unfold purge. cbn [ns set_ns].
    rewrite getn_fold_purge. destruct (mem y _); [|apply D2]. cbn [pz do_]. rewrite D2. reflexivity.
Qed.

Lemma step_I_do c s e : length (ns s) = nnodes c -> I_do s -> I_do (fst (step c s e)).
Proof.
  intros Hl I. destruct e; cbn [step].
  - cbn [fst]. apply organize_I_do; assumption.
  - apply dispatch_I_do. exact I.
  - pose proof (res_I_do c x t r o values s Hl I) as R.
    destruct (res c x t r o values s) as [s' outs]. cbn [fst] in *. exact R.
  - unfold reg. destruct rev_ok; exact I.
  - unfold poll. destruct (rev_ok && active s); exact I.
  - exact I.
  - exact I.
  - exact I.
  - exact I.
  - cbn [fst]. destruct I as [Hj Hd]. destruct (build_farm c changed s) as (_ & _ & J & _).
    split; [congruence|]. intros x. destruct (build_exact c changed s) as (_ & _ & D & _). apply D.
Qed.

Lemma organize_I_aspd c names r tg s : length (ns s) = nnodes c -> I_aspd c s ->
  I_aspd c (organize c names r tg s).
Proof.
  intros Hl I x t Ha H. destruct (organize_spec c names r tg s Hl) as (_ & T & D & _).
  destruct H as [H|H].
  - apply T in H. destruct H as [H|(_ & _ & H)]; [apply (I x t Ha); tauto|].
    unfold tgt_added in H. rewrite Ha in H. exact H.
  - destruct (D x) as [D1 _]. rewrite D1 in H. apply (I x t Ha). tauto.
Qed.

Lemma dispatch_I_aspd c s : I_aspd c s -> I_aspd c (fst (dispatch c s)).
Proof.
  intros I x t Ha H. apply (I x t Ha).
  assert (P : pend (ns (fst (dispatch c s))) x t = true)
    by (unfold pend; apply orb_true_iff; rewrite !mem_In; exact H).
  rewrite dispatch_pend in P. unfold pend in P. apply orb_true_iff in P. rewrite !mem_In in P. exact P.
Qed.

Lemma res_I_aspd c x t r o vs s : length (ns s) = nnodes c -> I_aspd c s -> I_aspd c (fst (res c x t r o vs s)).
Proof.
  intros Hl I. unfold res. destruct (mem x (que (set_busy s _))); [|exact I].
  set (s1 := set_busy s _).
  assert (I2 : I_aspd c (complete c x t s1)).
  { intros y u Ha H. apply (I y u Ha). rewrite ns_complete in H. unfold s1 in H. cbn [ns set_busy] in H.
    rewrite getn_setn in H. destruct (Nat.eqb x y && _) eqn:B; [|exact H].
    apply andb_true_iff in B. destruct B as [B _]. apply Nat.eqb_eq in B. subst y.
    unfold cz in H. cbn [todo doing] in H. destruct H as [H|H]; [left; exact H|].
    destruct (t =? ALL); [contradiction|]. apply In_rem in H. right. tauto. }
  assert (L2 : length (ns (complete c x t s1)) = nnodes c)
    by (rewrite ns_complete; unfold s1; cbn [ns set_busy]; rewrite setn_length; exact Hl).
  assert (Pg : I_aspd c (purge c x t (complete c x t s1))).
  { intros y u Ha H. apply (I2 y u Ha). unfold purge in H. cbn [ns set_ns] in H.
    rewrite getn_fold_purge in H. destruct (mem y _); [|exact H].
    cbn [pz todo doing] in H. rewrite !In_rem in H. tauto. }
  destruct o; cbn [fst]; [|exact Pg|exact Pg].
  unfold update. destruct vs; [exact I2|]. apply organize_I_aspd; [exact L2|exact I2].
Qed.

Lemma step_I_aspd c s e : length (ns s) = nnodes c -> I_aspd c s -> I_aspd c (fst (step c s e)).
Proof.
  intros Hl I. destruct e; cbn [step].
  - cbn [fst]. apply organize_I_aspd; assumption.
  - apply dispatch_I_aspd. exact I.
  - pose proof (res_I_aspd c x t r o values s Hl I) as R.
    destruct (res c x t r o values s) as [s' outs]. cbn [fst] in *. exact R.
  - unfold reg. destruct rev_ok; exact I.
  - unfold poll. destruct (rev_ok && active s); exact I.
  - exact I.
  - exact I.
  - exact I.
  - exact I.
  - cbn [fst]. intros x t Ha H. destruct (build_exact c changed s) as (_ & T & D & _).
    destruct H as [H|H].
    + apply T in H. destruct H as (_ & _ & H). rewrite Ha in H. exact H.
    + destruct (D x) as [D1 _]. rewrite D1 in H. contradiction.
Qed.

Definition Inv (c : cfg) (s : state) : Prop :=
  length (ns s) = nnodes c /\ I_que c s /\ I_do s /\ I_aspd c s.

Lemma init_Inv c : Inv c (init c).
Proof.
  split; [cbn; apply repeat_length|]. split; [apply init_I_que|]. split.
  - split; [reflexivity|]. intros x. cbn [init ns]. rewrite getn_repeat. reflexivity.
  - intros x t _ H. cbn [init ns] in H. rewrite getn_repeat in H. cbn in H. tauto.
Qed.

Lemma step_Inv c s e : Inv c s -> Inv c (fst (step c s e)).
Proof.
  intros (L & Q & D & A). split; [apply step_len; exact L|]. split; [apply step_I_que; assumption|].
  split; [apply step_I_do; assumption|apply step_I_aspd; assumption].
Qed.

Lemma run_Inv c es : forall s, Inv c s -> Inv c (fst (run c s es)).
Proof.
  induction es as [|e es IH]; intros s I; cbn [run]; [exact I|].
  pose proof (step_Inv c s e I) as I1. destruct (step c s e) as [s1 o]. cbn [fst] in I1.
  specialize (IH s1 I1). destruct (run c s1 es) as [s2 os]. exact IH.
Qed.

(* ---- only a dispatch tick creates task messages ---- *)
Lemma step_cluster_grows_only_in_tick c s e m :
  In m (cluster (fst (step c s e))) -> In m (cluster s) \/ e = Tick.
Proof.
  destruct e; cbn [step]; try (cbn [fst]; tauto).
  - destruct (organize_farm c names r tg s) as (C & _). cbn [fst]. rewrite C. tauto.
  - pose proof (res_cluster c x t r o values s) as [C _].
    destruct (res c x t r o values s) as [s' outs]. cbn [fst cluster set_farm] in *. rewrite C. tauto.
  - unfold reg. destruct rev_ok; cbn; tauto.
  - unfold poll. destruct (rev_ok && active s); cbn; tauto.
  - destruct (build_farm c changed s) as (C & _). cbn [fst]. rewrite C. tauto.
Qed.

(* ---- ghost level: executing = queued for a worker or handed to one ---- *)
Definition executing (s : state) (a : node) (u : tgt) : Prop :=
  exists m, In m (cluster s ++ map snd (inflight s)) /\ m_job m = a /\ m_tgt m = u.

Lemma dispatch_doing_mono c s a u :
  In u (doing (getn (ns s) a)) -> In u (doing (getn (ns (fst (dispatch c s))) a)).
Proof.
  intros H. destruct (active s) eqn:A; [|rewrite dispatch_inactive by exact A; exact H].
  destruct (dispatch_todo c s a A) as [_ E]. rewrite E.
  unfold next_job_batch. destruct (paused s); [exact H|].
  pose proof (release_fold_doing_mono c (que s) (que s) (ns s, []) a u H) as P.
  destruct (fold_left (release c (que s)) (que s) (ns s, [])) as [l rel]. exact P.
Qed.
