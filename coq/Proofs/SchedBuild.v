(* schedule.build over the scheduler model (no dependence on generated files). *)
From Coq Require Import List Arith ZArith Bool Lia.
From DV Require Import Model.Sched Proofs.SchedLib Proofs.SchedOrg.
Import ListNotations.

(* ---- build ---- *)
Lemma build_set_getn c x : forall l y, length l = nnodes c ->
  getn (build_set c l x) y =
  if Nat.eqb x y && (x <? nnodes c) then
    let n := getn l x in
    {| todo := if asp c x then [ALL] else addl (gtargets c) []; doing := doing n; do_ := do_ n;
       stat := stat n; rid := rid n |}
  else getn l y.
Proof.
  intros l y Hl. unfold build_set. destruct (nnodes c <=? x) eqn:L.
  - apply Nat.leb_le in L. assert (x <? nnodes c = false) as -> by (apply Nat.ltb_ge; lia).
    rewrite andb_false_r. reflexivity.
  - apply Nat.leb_gt in L. assert (x <? nnodes c = true) as -> by (apply Nat.ltb_lt; lia).
    rewrite andb_true_r, getn_setn, Hl. assert (x <? nnodes c = true) as -> by (apply Nat.ltb_lt; lia).
    rewrite andb_true_r. reflexivity.
Qed.

Lemma build_set_len c l x : length (build_set c l x) = length l.
Proof. unfold build_set. destruct (nnodes c <=? x); [reflexivity|apply setn_length]. Qed.

Lemma build_fold c ch : forall l, length l = nnodes c ->
  (forall y, doing (getn l y) = [] /\ do_ (getn l y) = []) ->
  let l' := fold_left (build_set c) ch l in
  length l' = nnodes c /\
  (forall y, doing (getn l' y) = [] /\ do_ (getn l' y) = []) /\
  (forall y t, In t (todo (getn l' y)) <->
     (In y ch /\ y < nnodes c /\ (if asp c y then t = ALL else In t (gtargets c)))
     \/ (~ (In y ch /\ y < nnodes c) /\ In t (todo (getn l y)))).
Proof.
  induction ch as [|x ch IH]; intros l Hl Hd; cbn [fold_left].
  - split; [exact Hl|]. split; [exact Hd|]. intros y t. cbn [In]. intuition.
  - assert (Hl1 : length (build_set c l x) = nnodes c) by (rewrite build_set_len; exact Hl).
    assert (Hd1 : forall y, doing (getn (build_set c l x) y) = [] /\ do_ (getn (build_set c l x) y) = []).
    { intros y. rewrite build_set_getn by exact Hl. destruct (_ && _); [cbn; apply Hd|apply Hd]. }
    destruct (IH _ Hl1 Hd1) as (L & D & T). split; [exact L|]. split; [exact D|].
    intros y t. rewrite T. rewrite build_set_getn by exact Hl. cbn [In].
    destruct (x =? y) eqn:E; cbn [andb].
    + apply Nat.eqb_eq in E. subst y. destruct (x <? nnodes c) eqn:Lx.
      * apply Nat.ltb_lt in Lx. cbn [todo].
        assert (Q : In t (if asp c x then [ALL] else addl (gtargets c) []) <->
                    (if asp c x then t = ALL else In t (gtargets c))).
        { destruct (asp c x); [cbn; intuition|]. rewrite In_addl. cbn. intuition. }
        rewrite Q. destruct (in_dec Nat.eq_dec x ch) as [Hin|Hin]; intuition.
      * apply Nat.ltb_ge in Lx. intuition; try lia.
    + apply Nat.eqb_neq in E. intuition; try congruence.
Qed.

Section BuildExact.
Variables (c : cfg) (ch : list node) (s : state).
Let s' := build c ch s.

Lemma build_exact :
  length (ns s') = nnodes c /\
  (forall y t, In t (todo (getn (ns s') y)) <->
     In y ch /\ y < nnodes c /\ (if asp c y then t = ALL else In t (gtargets c))) /\
  (forall y, doing (getn (ns s') y) = [] /\ do_ (getn (ns s') y) = []) /\
  (forall z, In z (que s') <-> In z ch /\ z < nnodes c).
Proof.
  unfold s', build.
  set (l0 := repeat dflt_ns (nnodes c)).
  assert (Hl0 : length l0 = nnodes c) by apply repeat_length.
  assert (Hd0 : forall y, doing (getn l0 y) = [] /\ do_ (getn l0 y) = [])
    by (intros y; unfold l0; rewrite getn_repeat; split; reflexivity).
  destruct (build_fold c ch l0 Hl0 Hd0) as (L & D & T).
  set (s1 := set_ns (set_que s []) (fold_left (build_set c) ch l0)).
  assert (Hl1 : length (ns s1) = nnodes c) by exact L.
  destruct (organize_spec c ch None [] s1 Hl1) as (L2 & T2 & D2 & Q2).
  split; [exact L2|]. split; [|split].
  - intros y t. rewrite T2. unfold s1 at 1. cbn [ns set_ns]. rewrite T.
    unfold l0 at 1. rewrite getn_repeat. cbn [todo dflt_ns In]. unfold tgt_added. cbn [mem existsb In].
    destruct (asp c y); intuition.
  - intros y. destruct (D2 y) as [E1 E2]. rewrite E1, E2. apply D.
  - intros z. rewrite Q2. unfold s1. cbn [que set_ns set_que In]. intuition.
Qed.
End BuildExact.


Lemma build_exact_todo c ch s y u :
  In u (todo (getn (ns (build c ch s)) y)) -> In y ch.
Proof. intros H. apply (build_exact c ch s) in H. tauto. Qed.
