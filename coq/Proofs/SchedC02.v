(* C02 -- reprocessing after a change is complete and minimal (trigger level). *)
From Coq Require Import List Arith ZArith Bool Lia.
From DV Require Import Model.Sched Proofs.SchedLib Proofs.SchedOrg Proofs.SchedBuild Proofs.SchedC05 Proofs.SchedC11.
Import ListNotations.

(* the value names reported new, their targets, the consumers *)
Definition news (vs : list (tgt * vname * bool)) := filter (fun v => snd v) vs.
Definition new_names (vs : list (tgt * vname * bool)) : list vname := map (fun v => snd (fst v)) (news vs).
Definition new_targets (vs : list (tgt * vname * bool)) : list tgt :=
  fold_left (fun acc v => add (fst (fst v)) acc) (news vs) [].
Definition fb_consumers (c : cfg) (vs : list (tgt * vname * bool)) : list node :=
  flat_map (fun v => match assoc v (gfb c) with Some y => [y] | None => [] end) (new_names vs).
Definition child_consumer (c : cfg) (x : node) (vs : list (tgt * vname * bool)) (y : node) : Prop :=
  In y (kids (gi c x)) /\ y <> x /\ exists i, In i (ins (gi c y)) /\ In i (new_names vs).
Definition consumer (c : cfg) (x : node) (vs : list (tgt * vname * bool)) (y : node) : Prop :=
  child_consumer c x vs y \/ In y (fb_consumers c vs).

Lemma new_targets_In vs t : In t (new_targets vs) <-> exists v, In v (news vs) /\ fst (fst v) = t.
Proof.
  unfold new_targets.
  assert (G : forall l acc, In t (fold_left (fun acc (v : tgt * vname * bool) => add (fst (fst v)) acc) l acc) <->
                            In t acc \/ exists v, In v l /\ fst (fst v) = t).
  { induction l as [|v l IH]; intros acc; cbn [fold_left In].
    - split; [tauto|]. intros [H|[v [[] _]]]; exact H.
    - rewrite IH, In_add. split.
      + intros [[H|H]|[v0 [H1 H2]]]; [right; exists v; auto | left; exact H | right; exists v0; auto].
      + intros [H|[v0 [[H1|H1] H2]]]; [left; right; exact H | subst; left; left; reflexivity | right; exists v0; auto]. }
  rewrite G. cbn [In]. split; [intros [[]|H]; exact H | intros H; right; exact H].
Qed.

Lemma update_names c vs x y : vs <> [] ->
  In y (filter (fun y => mem y (fb_consumers c vs) ||
                        mem y (filter (fun y => negb (Nat.eqb y x) && existsb (fun i => mem i (new_names vs)) (ins (gi c y)))
                                      (kids (gi c x)))) (seq 0 (nnodes c)))
  <-> y < nnodes c /\ consumer c x vs y.
Proof.
  intros _. rewrite filter_In, in_seq, orb_true_iff, !mem_In, filter_In, andb_true_iff, negb_true_iff,
    Nat.eqb_neq, existsb_exists. unfold consumer, child_consumer. split.
  - intros [[_ L] [H|(K & N & i & Hi & Hm)]]; (split; [cbn in L; lia|]).
    + right. exact H.
    + left. split; [exact K|]. split; [exact N|]. exists i. split; [exact Hi|apply mem_In; exact Hm].
  - intros [L [(K & N & i & Hi & Hm)|H]]; (split; [cbn; lia|]).
    + right. split; [exact K|]. split; [exact N|]. exists i. split; [exact Hi|apply mem_In; exact Hm].
    + left. exact H.
Qed.

Lemma update_unfold c vs x r s : vs <> [] ->
  update c vs x r s =
  organize c
    (filter (fun y => mem y (fb_consumers c vs) ||
                      mem y (filter (fun y => negb (Nat.eqb y x) && existsb (fun i => mem i (new_names vs)) (ins (gi c y)))
                                    (kids (gi c x)))) (seq 0 (nnodes c)))
    (match fb_consumers c vs with [] => Some r | _ :: _ => None end)
    (new_targets vs) s.
Proof. destruct vs as [|v vs]; [congruence|]. intros _. reflexivity. Qed.

Section Success.
Variables (c : cfg) (x : node) (t : tgt) (r : Z) (vs : list (tgt * vname * bool)) (s : state).
Hypothesis Hq : mem x (que s) = true.
Hypothesis Hl : length (ns s) = nnodes c.
Hypothesis Hv : vs <> [].
Let s' := fst (res c x t r Success vs s).

Lemma res_success_eq :
  res c x t r Success vs s =
  (update c vs x r
     (set_archive (complete c x t (set_busy s (filter (fun u => negb (unit_eqb u (x, t))) (busy s))))
        (archive (complete c x t (set_busy s (filter (fun u => negb (unit_eqb u (x, t))) (busy s))))
         || match vs with [] => false | _ :: _ => true end)),
   [OChron x t r Success]).
Proof. unfold res. cbn [que set_busy]. rewrite Hq. reflexivity. Qed.

Lemma todo_after_complete y :
  todo (getn (ns (complete c x t (set_busy s (filter (fun u => negb (unit_eqb u (x, t))) (busy s))))) y)
  = todo (getn (ns s) y).
Proof.
  rewrite ns_complete. cbn [ns set_busy]. rewrite getn_setn.
  destruct (Nat.eqb x y && _) eqn:E; [|reflexivity].
  apply andb_true_iff in E. destruct E as [E _]. apply Nat.eqb_eq in E. subst y. reflexivity.
Qed.

Lemma len_after_complete :
  length (ns (complete c x t (set_busy s (filter (fun u => negb (unit_eqb u (x, t))) (busy s))))) = nnodes c.
Proof. rewrite ns_complete. cbn [ns set_busy]. rewrite setn_length. exact Hl. Qed.

(* complete + minimal, in one characterisation of the pending sets after the report *)
Lemma success_todo y u :
  In u (todo (getn (ns s') y)) <->
  In u (todo (getn (ns s) y)) \/ (y < nnodes c /\ consumer c x vs y /\ tgt_added c y (new_targets vs) u).
Proof.
  unfold s'. rewrite res_success_eq. cbn [fst]. rewrite update_unfold by exact Hv.
  set (s3 := set_archive _ _).
  assert (Hl3 : length (ns s3) = nnodes c) by (unfold s3; cbn [ns set_archive]; apply len_after_complete).
  match goal with |- context [organize c ?nm ?rr ?tg s3] =>
    destruct (organize_spec c nm rr tg s3 Hl3) as (_ & T & _ & _) end.
  rewrite T. unfold s3 at 1. cbn [ns set_archive]. rewrite todo_after_complete.
  rewrite update_names by exact Hv. intuition.
Qed.

Lemma success_que z :
  In z (que s') <->
  In z (que (complete c x t (set_busy s (filter (fun u => negb (unit_eqb u (x, t))) (busy s)))))
  \/ (z < nnodes c /\ consumer c x vs z).
Proof.
  unfold s'. rewrite res_success_eq. cbn [fst]. rewrite update_unfold by exact Hv.
  set (s3 := set_archive _ _).
  assert (Hl3 : length (ns s3) = nnodes c) by (unfold s3; cbn [ns set_archive]; apply len_after_complete).
  match goal with |- context [organize c ?nm ?rr ?tg s3] =>
    destruct (organize_spec c nm rr tg s3 Hl3) as (_ & _ & _ & Q) end.
  rewrite Q. unfold s3 at 1. cbn [que set_archive]. rewrite update_names by exact Hv. intuition.
Qed.
End Success.

(* ---- pending work is never silently lost, and never appears without a cause ---- *)
Lemma release_getn c q : forall acc x y,
  let l := fst acc in
  let l' := fst (release c q acc x) in
  (forall u, In u (todo (getn l y)) -> In u (todo (getn l' y)) \/ In u (doing (getn l' y))) /\
  (forall u, In u (todo (getn l' y)) -> In u (todo (getn l y))).
Proof.
  intros [l rel] x y. cbn [fst]. unfold release.
  destruct (todo (getn l x)) as [|a td] eqn:E; [cbn [fst]; split; auto|].
  cbn [fst]. rewrite getn_setn. destruct (Nat.eqb x y && (x <? length l)) eqn:B; [|split; auto].
  apply andb_true_iff in B. destruct B as [B _]. apply Nat.eqb_eq in B. subst y. cbn [todo doing].
  rewrite E. split.
  - intros u Hu. destruct (mem u (avail c l q x)) eqn:M.
    + right. apply In_addl. left. apply mem_In. exact M.
    + left. apply filter_In. split; [exact Hu|]. rewrite M. reflexivity.
  - intros u Hu. apply filter_In in Hu. tauto.
Qed.

Lemma release_doing_mono c q acc x y u :
  In u (doing (getn (fst acc) y)) -> In u (doing (getn (fst (release c q acc x)) y)).
Proof.
  destruct acc as [l rel]. cbn [fst]. unfold release. intros Hu.
  destruct (todo (getn l x)); [exact Hu|]. cbn [fst]. rewrite getn_setn.
  destruct (Nat.eqb x y && _) eqn:B; [|exact Hu].
  apply andb_true_iff in B. destruct B as [B _]. apply Nat.eqb_eq in B. subst x. cbn [doing].
  apply In_addl. right. exact Hu.
Qed.

Lemma release_fold_doing_mono c q xs : forall acc y u,
  In u (doing (getn (fst acc) y)) -> In u (doing (getn (fst (fold_left (release c q) xs acc)) y)).
Proof.
  induction xs as [|x xs IH]; intros acc y u Hu; cbn [fold_left]; [exact Hu|].
  apply IH. apply release_doing_mono. exact Hu.
Qed.

Lemma release_fold_getn c q xs : forall acc y,
  let l := fst acc in
  let l' := fst (fold_left (release c q) xs acc) in
  (forall u, In u (todo (getn l y)) -> In u (todo (getn l' y)) \/ In u (doing (getn l' y))) /\
  (forall u, In u (todo (getn l' y)) -> In u (todo (getn l y))).
Proof.
  induction xs as [|x xs IH]; intros acc y; cbn [fold_left]; [split; auto|].
  destruct (IH (release c q acc x) y) as [A B]. destruct (release_getn c q acc x y) as [A0 B0]. split.
  - intros u Hu. apply A0 in Hu. destruct Hu as [Hu|Hu]; [apply A; exact Hu|].
    right. apply release_fold_doing_mono. exact Hu.
  - intros u Hu. apply B0. apply B. exact Hu.
Qed.

(* ---- todo/doing through one dispatch = through next_job_batch ---- *)
Lemma put_job_todo c acc x y :
  todo (getn (ns (fst (put_job c acc x))) y) = todo (getn (ns (fst acc)) y) /\
  doing (getn (ns (fst (put_job c acc x))) y) = doing (getn (ns (fst acc)) y).
Proof.
  destruct acc as [s o]. unfold put_job. cbn [fst].
  destruct (rid (getn (ns s) x)); cbn [fst ns set_farm set_ns]; rewrite getn_setn;
  (destruct (Nat.eqb x y && _) eqn:B; [|split; reflexivity]);
  apply andb_true_iff in B; destruct B as [B _]; apply Nat.eqb_eq in B; subst y; split; reflexivity.
Qed.

Lemma put_jobs_todo c js : forall acc y,
  todo (getn (ns (fst (fold_left (put_job c) js acc))) y) = todo (getn (ns (fst acc)) y) /\
  doing (getn (ns (fst (fold_left (put_job c) js acc))) y) = doing (getn (ns (fst acc)) y).
Proof.
  induction js as [|x js IH]; intros acc y; cbn [fold_left]; [split; reflexivity|].
  destruct (IH (put_job c acc x) y) as [A B]. destruct (put_job_todo c acc x y) as [A0 B0].
  split; congruence.
Qed.

Lemma dispatch_todo c s y : active s = true ->
  todo (getn (ns (fst (dispatch c s))) y) = todo (getn (ns (fst (next_job_batch c s))) y) /\
  doing (getn (ns (fst (dispatch c s))) y) = doing (getn (ns (fst (next_job_batch c s))) y).
Proof.
  intros A. unfold dispatch. rewrite A. cbn [negb].
  destruct (next_job_batch c s) as [s1 rel] eqn:N. cbn [fst].
  set (s2 := set_farm s1 (jobs s1 ++ rel) (cluster s1) (busy s1) (workers s1) (inflight s1)).
    set (o0 := if archive s2 && _ then [OArchive] else []).
  pose proof (put_jobs_todo c (jobs s2) (s2, o0) y) as P.
  destruct (fold_left (put_job c) (jobs s2) (s2, o0)) as [s3 o1]. cbn [fst] in P.
  destruct (hand_out _ _ _ _ _) as [[[[cl' w'] b'] fl'] o2].
  destruct (archive s2 && _); cbn [fst ns set_farm set_flags]; exact P.
Qed.

Lemma njb_pending c s y :
  (forall u, In u (todo (getn (ns s) y)) ->
     In u (todo (getn (ns (fst (next_job_batch c s))) y)) \/ In u (doing (getn (ns (fst (next_job_batch c s))) y))) /\
  (forall u, In u (todo (getn (ns (fst (next_job_batch c s))) y)) -> In u (todo (getn (ns s) y))).
Proof.
  unfold next_job_batch. destruct (paused s); [cbn [fst]; split; auto|].
  pose proof (release_fold_getn c (que s) (que s) (ns s, []) y) as P. cbn [fst] in P.
  destruct (fold_left (release c (que s)) (que s) (ns s, [])) as [l rel]. cbn [fst ns set_ns] in *.
  exact P.
Qed.

Lemma tick_pending c s y :
  (forall u, In u (todo (getn (ns s) y)) ->
     In u (todo (getn (ns (fst (dispatch c s))) y)) \/ In u (doing (getn (ns (fst (dispatch c s))) y))) /\
  (forall u, In u (todo (getn (ns (fst (dispatch c s))) y)) -> In u (todo (getn (ns s) y))).
Proof.
  destruct (active s) eqn:A.
  - destruct (dispatch_todo c s y A) as [E1 E2]. rewrite E1, E2. apply njb_pending.
  - rewrite dispatch_inactive by exact A. cbn [fst]. split; auto.
Qed.

(* ---- one step: pending work is lost only by release, by a failed upstream run, or by a rebuild;
        it appears only by a request, a success report with a new input, or a rebuild ---- *)
Definition lost_cause (c : cfg) (e : ev) (s' : state) (y : node) (u : tgt) : Prop :=
  (e = Tick /\ In u (doing (getn (ns s') y))) \/
  (exists w x r o vs, e = Rep w x u r o vs /\ o <> Success /\ mem y (descend c (nnodes c) x) = true) \/
  (exists ch, e = Build ch).

Definition gain_cause (c : cfg) (e : ev) (y : node) (u : tgt) : Prop :=
  (exists names r tg, e = Org names r tg /\ In y names /\ tgt_added c y tg u) \/
  (exists w x t r vs, e = Rep w x t r Success vs /\ consumer c x vs y /\ tgt_added c y (new_targets vs) u) \/
  (exists ch, e = Build ch /\ In y ch).

Lemma rep_ns c w x t r o vs s :
  ns (fst (step c s (Rep w x t r o vs))) = ns (fst (res c x t r o vs s)).
Proof. cbn [step]. destruct (res c x t r o vs s) as [s' outs]. reflexivity. Qed.

Lemma step_len c s e : length (ns s) = nnodes c -> length (ns (fst (step c s e))) = nnodes c.
Proof.
  intros Hl. destruct e.
  - cbn [step fst]. apply (organize_spec c names r tg s Hl).
  - cbn [step]. unfold dispatch. destruct (active s); cbn [negb fst]; [|exact Hl].
    destruct (next_job_batch c s) as [s1 rel] eqn:N.
    assert (L1 : length (ns s1) = nnodes c).
    { unfold next_job_batch in N. destruct (paused s); [inversion N; subst; exact Hl|].
      assert (G : forall xs acc, length (fst acc) = nnodes c ->
                  length (fst (fold_left (release c (que s)) xs acc)) = nnodes c).
      { induction xs as [|z xs IH]; intros acc La; cbn [fold_left]; [exact La|]. apply IH.
        destruct acc as [l rl]. cbn [fst] in *. unfold release. destruct (todo (getn l z)); [exact La|].
        cbn [fst]. rewrite setn_length. exact La. }
      specialize (G (que s) (ns s, []) Hl).
      destruct (fold_left (release c (que s)) (que s) (ns s, [])) as [l rl]. inversion N; subst. exact G. }
    set (s2 := set_farm s1 (jobs s1 ++ rel) (cluster s1) (busy s1) (workers s1) (inflight s1)).
    set (o0 := if archive s2 && _ then [OArchive] else []).
    assert (G : forall js acc, length (ns (fst acc)) = nnodes c ->
                length (ns (fst (fold_left (put_job c) js acc))) = nnodes c).
    { induction js as [|z js IH]; intros acc La; cbn [fold_left]; [exact La|]. apply IH.
      destruct acc as [s0 o]. cbn [fst] in *. unfold put_job.
      destruct (rid (getn (ns s0) z)); cbn [fst ns set_farm set_ns]; rewrite setn_length; exact La. }
    specialize (G (jobs s2) (s2, o0) L1).
    destruct (fold_left (put_job c) (jobs s2) (s2, o0)) as [s3 o1]. cbn [fst] in G.
    destruct (hand_out _ _ _ _ _) as [[[[cl' w'] b'] fl'] o2].
  destruct (archive s2 && _); cbn [fst ns set_farm set_flags]; exact G.
  - rewrite rep_ns. unfold res. destruct (mem x (que _)); [|exact Hl].
    set (s1 := set_busy s _).
    assert (L2 : length (ns (complete c x t s1)) = nnodes c)
      by (rewrite ns_complete; unfold s1; cbn [ns set_busy]; rewrite setn_length; exact Hl).
    destruct o; cbn [fst].
    + unfold update. destruct values; [exact L2|]. apply organize_spec. exact L2.
    + unfold purge. cbn [ns set_ns]. rewrite length_fold_purge. exact L2.
    + unfold purge. cbn [ns set_ns]. rewrite length_fold_purge. exact L2.
  - cbn [step]. unfold reg. destruct rev_ok; exact Hl.
  - cbn [step]. unfold poll. destruct (rev_ok && active s); exact Hl.
  - exact Hl.
  - exact Hl.
  - exact Hl.
  - exact Hl.
  - cbn [step fst]. unfold build. apply organize_spec. cbn [ns set_ns set_que].
    assert (G : forall ch l, length l = nnodes c -> length (fold_left (build_set c) ch l) = nnodes c).
    { induction ch as [|z ch IH]; intros l La; cbn [fold_left]; [exact La|]. apply IH.
      unfold build_set. destruct (nnodes c <=? z); [exact La|]. rewrite setn_length. exact La. }
    apply G. apply repeat_length.
Qed.

Lemma step_pending_lost c s e y u : length (ns s) = nnodes c ->
  In u (todo (getn (ns s) y)) -> ~ In u (todo (getn (ns (fst (step c s e))) y)) ->
  lost_cause c e (fst (step c s e)) y u.
Proof.
  intros Hl Hin Hout. destruct e.
  - exfalso. apply Hout. cbn [step fst]. apply (organize_spec c names r tg s Hl). left. exact Hin.
  - left. split; [reflexivity|]. cbn [step] in *. destruct (tick_pending c s y) as [A _].
    destruct (A u Hin); [contradiction|assumption].
  - rewrite rep_ns in Hout. destruct (mem x (que s)) eqn:Q.
    + destruct o.
      * exfalso. apply Hout. destruct values as [|v values].
        -- unfold res. cbn [que set_busy]. rewrite Q. cbn [fst update ns set_archive].
           rewrite todo_after_complete. exact Hin.
        -- apply (success_todo c x t r (v :: values) s Q Hl ltac:(discriminate)). left. exact Hin.
      * right. left. rewrite (ns_res_failed c x t r Failure values s ltac:(discriminate) Q) in Hout.
        cbn zeta in Hout. destruct (mem y (descend c (nnodes c) x)) eqn:D.
        -- destruct (Nat.eq_dec u t) as [->|N].
           ++ exists w, x, r, Failure, values. split; [reflexivity|]. split; [discriminate|exact D].
           ++ exfalso. apply Hout. cbn [pz todo]. apply In_rem. split; [|exact N].
              destruct (_ && _) eqn:B; [|exact Hin].
              apply andb_true_iff in B. destruct B as [B _]. apply Nat.eqb_eq in B. subst y. exact Hin.
        -- exfalso. apply Hout. destruct (_ && _) eqn:B; [|exact Hin].
           apply andb_true_iff in B. destruct B as [B _]. apply Nat.eqb_eq in B. subst y. exact Hin.
      * right. left. rewrite (ns_res_failed c x t r Invalid values s ltac:(discriminate) Q) in Hout.
        cbn zeta in Hout. destruct (mem y (descend c (nnodes c) x)) eqn:D.
        -- destruct (Nat.eq_dec u t) as [->|N].
           ++ exists w, x, r, Invalid, values. split; [reflexivity|]. split; [discriminate|exact D].
           ++ exfalso. apply Hout. cbn [pz todo]. apply In_rem. split; [|exact N].
              destruct (_ && _) eqn:B; [|exact Hin].
              apply andb_true_iff in B. destruct B as [B _]. apply Nat.eqb_eq in B. subst y. exact Hin.
        -- exfalso. apply Hout. destruct (_ && _) eqn:B; [|exact Hin].
           apply andb_true_iff in B. destruct B as [B _]. apply Nat.eqb_eq in B. subst y. exact Hin.
    + exfalso. apply Hout. unfold res. cbn [que set_busy]. rewrite Q. exact Hin.
  - exfalso. apply Hout. cbn [step]. unfold reg. destruct rev_ok; exact Hin.
  - exfalso. apply Hout. cbn [step]. unfold poll. destruct (rev_ok && active s); exact Hin.
  - exfalso. apply Hout. exact Hin.
  - exfalso. apply Hout. exact Hin.
  - exfalso. apply Hout. exact Hin.
  - exfalso. apply Hout. exact Hin.
  - right. right. eauto.
Qed.

Lemma step_pending_gain c s e y u : length (ns s) = nnodes c ->
  ~ In u (todo (getn (ns s) y)) -> In u (todo (getn (ns (fst (step c s e))) y)) ->
  gain_cause c e y u.
Proof.
  intros Hl Hout Hin. destruct e.
  - left. cbn [step fst] in Hin. apply (organize_spec c names r tg s Hl) in Hin.
    destruct Hin as [Hin|(A & B & C)]; [contradiction|]. exists names, r, tg. auto.
  - exfalso. apply Hout. cbn [step] in Hin. destruct (tick_pending c s y) as [_ B]. apply B. exact Hin.
  - rewrite rep_ns in Hin. destruct (mem x (que s)) eqn:Q.
    + destruct o.
      * destruct values as [|v values].
        -- exfalso. apply Hout. unfold res in Hin. cbn [que set_busy] in Hin. rewrite Q in Hin.
           cbn [fst update ns set_archive] in Hin. rewrite todo_after_complete in Hin. exact Hin.
        -- apply (success_todo c x t r (v :: values) s Q Hl ltac:(discriminate)) in Hin.
           destruct Hin as [Hin|(A & B & C)]; [contradiction|].
           right. left. exists w, x, t, r, (v :: values). auto.
      * exfalso. apply Hout. apply (C05_no_trigger_l c x t r Failure values s ltac:(discriminate) Q). exact Hin.
      * exfalso. apply Hout. apply (C05_no_trigger_l c x t r Invalid values s ltac:(discriminate) Q). exact Hin.
    + exfalso. apply Hout. unfold res in Hin. cbn [que set_busy] in Hin. rewrite Q in Hin. exact Hin.
  - exfalso. apply Hout. cbn [step] in Hin. unfold reg in Hin. destruct rev_ok; exact Hin.
  - exfalso. apply Hout. cbn [step] in Hin. unfold poll in Hin. destruct (rev_ok && active s); exact Hin.
  - exfalso. apply Hout. exact Hin.
  - exfalso. apply Hout. exact Hin.
  - exfalso. apply Hout. exact Hin.
  - exfalso. apply Hout. exact Hin.
  - right. right. exists changed. split; [reflexivity|].
    cbn [step fst] in Hin. apply (build_exact_todo c changed s) in Hin. exact Hin.
Qed.
