(* C03 -- each released unit runs once at a time and its result is never dropped. *)
From Coq Require Import List Arith ZArith Bool Lia Permutation.
From DV Require Import Model.Sched Proofs.SchedLib Proofs.SchedOrg Proofs.SchedBuild Proofs.SchedC05
     Proofs.SchedC02 Proofs.SchedC11 Proofs.SchedBatch.
Import ListNotations.

(* a reply for a job that is in the queue is applied exactly once: one history
   entry, then update (success) or purge (failure / invalid) *)
Lemma reply_applied c x t r o vs s : mem x (que s) = true ->
  snd (res c x t r o vs s) = [OChron x t r o] /\
  fst (res c x t r o vs s) =
    let s1 := set_busy s (filter (fun u => negb (unit_eqb u (x, t))) (busy s)) in
    match o with
    | Success => update c vs x r (set_archive (complete c x t s1)
                   (archive (complete c x t s1) || match vs with [] => false | _ :: _ => true end))
    | _ => purge c x t (complete c x t s1)
    end.
Proof.
  intros Hq. unfold res. cbn [que set_busy]. rewrite Hq. destruct o; split; reflexivity.
Qed.

Lemma reply_dropped c x t r o vs s : mem x (que s) = false ->
  snd (res c x t r o vs s) = [ODropped x].
Proof. intros Hq. unfold res. cbn [que set_busy]. rewrite Hq. reflexivity. Qed.

(* while the scheduler still counts the unit as doing, its job is queued: the reply is found *)
Lemma doing_reply_found c s x t : Inv c s -> In t (doing (getn (ns s) x)) -> mem x (que s) = true.
Proof.
  intros (_ & Iq & _) H. apply mem_In. apply Iq. right. intros E. rewrite E in H. contradiction.
Qed.

(* a dispatch never releases a target the node itself is doing *)
Lemma no_rerelease c s : active s = true -> I_do s ->
  exists newms cl k,
    Permutation cl (cluster s ++ newms) /\
    k = Nat.min (length cl) (length (workers_sort (workers s))) /\
    cluster (fst (dispatch c s)) = skipn k cl /\
    inflight (fst (dispatch c s)) =
      inflight s ++ combine (map fst (firstn k (workers_sort (workers s)))) (firstn k cl) /\
    forall m, In m newms -> gfac (gi c (m_job m)) <> Analysis ->
      ~ In (m_tgt m) (doing (getn (ns s) (m_job m))).
Proof.
  intros A Id. destruct (dispatch_newms c s A Id) as (newms & cl & k & P & Hk & C & F & M).
  exists newms, cl, k. repeat (split; [assumption|]).
  intros m Hm Na. destruct (M m Hm) as (_ & l & t & [Pq Dm] & Av & Tt). rewrite <- (Tt Na).
  apply avail_sub in Av. destruct Av as [_ Av2]. intros Hd. apply Av2. apply Dm. exact Hd.
Qed.

(* the same for analyses, whose only target is the all-targets marker *)
Lemma no_rerelease_all c s : active s = true -> I_do s -> I_aspd c s ->
  exists newms cl k,
    Permutation cl (cluster s ++ newms) /\
    cluster (fst (dispatch c s)) = skipn k cl /\
    forall m, In m newms -> ~ In (m_tgt m) (doing (getn (ns s) (m_job m))).
Proof.
  intros A Id Ia. destruct (dispatch_newms c s A Id) as (newms & cl & k & P & Hk & C & F & M).
  exists newms, cl, k. repeat (split; [assumption|]).
  intros m Hm. destruct (M m Hm) as (Ok & l & t & [Pq Dm] & Av & Tt).
  assert (Et : t = m_tgt m).
  { destruct (fac_eqb (gfac (gi c (m_job m))) Analysis) eqn:G.
    - assert (Ga : gfac (gi c (m_job m)) = Analysis) by (destruct (gfac (gi c (m_job m))); cbn in G; congruence).
      destruct Ok as (F1 & _ & F3). rewrite Ga in F1. rewrite (F3 F1).
      apply (Ia (m_job m) t); [unfold asp; rewrite Ga; reflexivity|].
      apply avail_sub in Av. destruct Av as [Av _].
      assert (Pt : pend l (m_job m) t = true) by (unfold pend; apply orb_true_iff; left; apply mem_In; exact Av).
      rewrite Pq in Pt. unfold pend in Pt. apply orb_true_iff in Pt. rewrite !mem_In in Pt. exact Pt.
    - apply Tt. intros E. rewrite E in G. discriminate. }
  subst t. apply avail_sub in Av. destruct Av as [_ Av2]. intros Hd. apply Av2. apply Dm. exact Hd.
Qed.

(* ---- crew view: _busy mirrors what is in flight ---- *)
Definition crew_exact (s : state) : Prop := busy s = map (fun p => msg_unit (snd p)) (inflight s).

Lemma filter_map_comm {A B} (f : A -> B) (p : B -> bool) l :
  filter p (map f l) = map f (filter (fun a => p (f a)) l).
Proof.
  induction l as [|a l IH]; [reflexivity|]. cbn [map filter]. destruct (p (f a)); cbn [map]; rewrite IH; reflexivity.
Qed.

Lemma res_busy c x t r o vs s :
  busy (fst (res c x t r o vs s)) = filter (fun u => negb (unit_eqb u (x, t))) (busy s) /\
  inflight (fst (res c x t r o vs s)) = inflight s.
Proof.
  unfold res. destruct (mem x (que _)); [|split; reflexivity].
  set (s1 := set_busy s _).
  destruct o; cbn [fst].
  - destruct (update_farm c vs x r (set_archive (complete c x t s1)
               (archive (complete c x t s1) || match vs with [] => false | _ :: _ => true end)))
      as (_ & _ & _ & Fl & _ & _ & _ & _ & B). rewrite B, Fl. cbn [busy inflight set_archive].
    destruct (complete_farm c x t s1) as (_ & _ & _ & Fl2 & _ & _ & _ & _ & B2). rewrite B2, Fl2. split; reflexivity.
  - destruct (purge_farm c x t (complete c x t s1)) as (_ & _ & _ & Fl & _ & _ & _ & _ & B). rewrite B, Fl.
    destruct (complete_farm c x t s1) as (_ & _ & _ & Fl2 & _ & _ & _ & _ & B2). rewrite B2, Fl2. split; reflexivity.
  - destruct (purge_farm c x t (complete c x t s1)) as (_ & _ & _ & Fl & _ & _ & _ & _ & B). rewrite B, Fl.
    destruct (complete_farm c x t s1) as (_ & _ & _ & Fl2 & _ & _ & _ & _ & B2). rewrite B2, Fl2. split; reflexivity.
Qed.

(* the crew view stays exact through every step, as long as a reply comes from the
   only worker that holds the unit (single flight for that unit) *)
Lemma unit_eqb_eq a b : unit_eqb a b = true <-> a = b.
Proof.
  destruct a as [a1 a2], b as [b1 b2]. unfold unit_eqb. cbn [fst snd].
  rewrite andb_true_iff, !Nat.eqb_eq. split; [intros [-> ->]; reflexivity|intros E; inversion E; auto].
Qed.

Lemma step_crew_exact c s e : crew_exact s ->
  (forall w x t r o vs, e = Rep w x t r o vs ->
     forall p, In p (inflight s) -> msg_unit (snd p) = (x, t) -> fst p = w) ->
  crew_exact (fst (step c s e)).
Proof.
  unfold crew_exact. intros F Hs. destruct e; cbn [step].
  - destruct (organize_farm c names r tg s) as (_ & _ & _ & Fl & _ & _ & _ & _ & B). cbn [fst]. congruence.
  - destruct (active s) eqn:A; [|rewrite dispatch_inactive by exact A; exact F].
    destruct (dispatch_spec c s A) as (newms & cl & k & _ & _ & Hk & _ & _ & Fk & Bk & _).
    rewrite Fk, Bk, map_app, F. f_equal.
    assert (L : forall (l1 : list wid) (l2 : list msg), length l1 = length l2 ->
                map (fun p => msg_unit (snd p)) (combine l1 l2) = map msg_unit l2).
    { induction l1 as [|a l1 IH]; intros [|b l2] L; cbn in *; try lia; [reflexivity|]. f_equal. apply IH. lia. }
    symmetry. apply L. rewrite map_length, !firstn_length. lia.
  - pose proof (res_busy c x t r o values s) as [B Fl].
    destruct (res c x t r o values s) as [s' outs]. cbn [fst busy inflight set_farm] in *.
    rewrite B, Fl, F. unfold rm_inflight. rewrite filter_map_comm. f_equal.
    apply filter_ext_in. intros p Hp. cbn beta. unfold wid, node, tgt in *.
    destruct (unit_eqb (msg_unit (snd p)) (x, t)) eqn:U; [|rewrite ?U, ?andb_false_r; reflexivity].
    pose proof U as U2. apply unit_eqb_eq in U2. rewrite ?U, (Hs w x t r o values eq_refl p Hp U2), Nat.eqb_refl. reflexivity.
  - unfold reg. destruct rev_ok; cbn; exact F.
  - unfold poll. destruct (rev_ok && active s); cbn; exact F.
  - cbn. exact F.
  - cbn. exact F.
  - cbn. exact F.
  - cbn. exact F.
  - destruct (build_farm c changed s) as (_ & _ & _ & Fl & _ & _ & _ & _ & B). cbn [fst]. congruence.
Qed.
