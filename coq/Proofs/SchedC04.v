(* C04 -- idle means idle: progress of dispatch, and the queue at rest. *)
From Coq Require Import List Arith ZArith Bool Lia.
From DV Require Import Model.Sched Proofs.SchedLib Proofs.SchedOrg Proofs.SchedBuild Proofs.SchedC05
     Proofs.SchedC02 Proofs.SchedC11 Proofs.SchedBatch.
Import ListNotations.

Lemma first_occurrence (x : nat) l : In x l -> exists pre post, l = pre ++ x :: post /\ ~ In x pre.
Proof.
  induction l as [|a l IH]; [intros []|]. intros H.
  destruct (Nat.eq_dec a x) as [->|N].
  - exists [], l. split; [reflexivity|intros []].
  - destruct H as [H|H]; [congruence|]. destruct (IH H) as (pre & post & E & Np).
    exists (a :: pre), post. split; [rewrite E; reflexivity|]. intros [H1|H1]; [congruence|contradiction].
Qed.

Lemma release_todo_shrinks c q xs : forall acc y u,
  In u (todo (getn (fst (fold_left (release c q) xs acc)) y)) -> In u (todo (getn (fst acc) y)).
Proof. intros acc y u. apply (release_fold_getn c q xs acc y). Qed.

Lemma release_fold_len c q xs : forall acc,
  length (fst (fold_left (release c q) xs acc)) = length (fst acc).
Proof.
  induction xs as [|z xs IH]; intros acc; cbn [fold_left]; [reflexivity|]. rewrite IH.
  destruct acc as [l0 r0]. cbn [fst]. unfold release. destruct (todo (getn l0 z)); [reflexivity|].
  cbn [fst]. apply setn_length.
Qed.

Lemma release_at c q acc x t : x < length (fst acc) -> In t (avail c (fst acc) q x) ->
  let acc' := release c q acc x in
  In t (doing (getn (fst acc') x)) /\ ~ In t (todo (getn (fst acc') x)) /\
  In t (do_ (getn (fst acc') x)) /\ In x (snd acc').
Proof.
  destruct acc as [l rel]. cbn [fst snd]. intros Lx Av. cbn zeta. unfold release.
  pose proof (avail_sub c l q x t Av) as [Ht _].
  destruct (todo (getn l x)) as [|t0 td] eqn:E; [contradiction|]. cbn [fst snd].
  rewrite getn_setn_same by exact Lx. cbn [todo doing do_]. repeat split.
  - apply In_addl. left. exact Av.
  - intros H. apply filter_In in H. destruct H as [_ H]. apply negb_true_iff in H.
    apply mem_false_In in H. contradiction.
  - apply In_addl. left. exact Av.
  - destruct (avail c l q x); [contradiction|]. apply in_or_app. right. left. reflexivity.
Qed.

Lemma release_do_mono c q acc x y u :
  In u (do_ (getn (fst acc) y)) -> In u (do_ (getn (fst (release c q acc x)) y)).
Proof.
  destruct acc as [l rel]. cbn [fst]. unfold release. intros Hu.
  destruct (todo (getn l x)); [exact Hu|]. cbn [fst]. rewrite getn_setn.
  destruct (Nat.eqb x y && _) eqn:B; [|exact Hu].
  apply andb_true_iff in B. destruct B as [B _]. apply Nat.eqb_eq in B. subst x. cbn [do_].
  apply In_addl. right. exact Hu.
Qed.

Lemma release_rel_mono c q acc x y : In y (snd acc) -> In y (snd (release c q acc x)).
Proof.
  destruct acc as [l rel]. cbn [snd]. unfold release. intros H.
  destruct (todo (getn l x)); [exact H|]. cbn [snd].
  destruct (avail c l q x); [exact H|apply in_or_app; left; exact H].
Qed.

Lemma release_fold_mono c q xs : forall acc y u,
  (In u (do_ (getn (fst acc) y)) -> In u (do_ (getn (fst (fold_left (release c q) xs acc)) y))) /\
  (In y (snd acc) -> In y (snd (fold_left (release c q) xs acc))).
Proof.
  induction xs as [|x xs IH]; intros acc y u; cbn [fold_left]; [split; auto|].
  destruct (IH (release c q acc x) y u) as [A B]. split.
  - intros H. apply A. apply release_do_mono. exact H.
  - intros H. apply B. apply release_rel_mono. exact H.
Qed.

(* progress at the level of the bookkeeping: a pending unit whose queued ancestors
   are idle for its target is moved to doing by the next batch *)
Lemma batch_progress c s x t : paused s = false -> In x (que s) ->
  In t (todo (getn (ns s) x)) -> ~ In t (doing (getn (ns s) x)) -> x < length (ns s) ->
  (forall a, In a (anc (gi c x)) -> In a (que s) -> pend (ns s) a t = false /\ pend (ns s) a ALL = false) ->
  (In ALL (todo (getn (ns s) x)) -> forall a, In a (anc (gi c x)) -> ~ In a (que s)) ->
  let s1 := fst (next_job_batch c s) in
  In t (doing (getn (ns s1) x)) /\ ~ In t (todo (getn (ns s1) x)) /\ In t (do_ (getn (ns s1) x)) /\
  In x (snd (next_job_batch c s)).
Proof.
  intros Hp Hq Ht Hd Hx Hanc Hall. cbn zeta. unfold next_job_batch. rewrite Hp.
  destruct (first_occurrence x (que s) Hq) as (pre & post & E & Npre).
  set (q := que s) in *.
  assert (F : fold_left (release c q) q (ns s, []) =
              fold_left (release c q) post (release c q (fold_left (release c q) pre (ns s, [])) x)).
  { rewrite E at 2. rewrite fold_left_app. reflexivity. }
  set (mid := fold_left (release c q) pre (ns s, [])) in *.
  assert (Mx : getn (fst mid) x = getn (ns s) x) by (apply (release_fold_other c q pre (ns s, []) x Npre)).
  assert (Mp : forall a u, pend (fst mid) a u = pend (ns s) a u) by (intros; apply (release_fold_pend c q pre (ns s, []))).
  assert (Ml : x < length (fst mid)) by (unfold mid; rewrite release_fold_len; exact Hx).
  assert (Av : In t (avail c (fst mid) q x)).
  { apply avail_complete.
    - rewrite Mx. exact Ht.
    - rewrite Mx. exact Hd.
    - intros a Ha Haq. rewrite !Mp. apply Hanc; assumption.
    - rewrite Mx. exact Hall. }
  destruct (release_at c q mid x t Ml Av) as (R1 & R2 & R3 & R4).
  set (after := release c q mid x) in *.
  rewrite F. clear F.
  pose proof (release_fold_doing_mono c q post after x t R1) as D1.
  pose proof (release_fold_mono c q post after x t) as [D3 D4].
  assert (D2 : ~ In t (todo (getn (fst (fold_left (release c q) post after)) x))).
  { intros H. apply R2. apply (release_todo_shrinks c q post after x t). exact H. }
  destruct (fold_left (release c q) post after) as [l rel] eqn:FF. cbn [fst snd ns set_ns] in *.
  split; [exact D1|]. split; [exact D2|]. split; [apply D3; exact R3|].
  apply In_sort_lvl. apply D4. exact R4.
Qed.

(* ---- every target handed to `do` becomes a task message in the same dispatch ---- *)
Lemma put_job_complete c s o x t : x < length (ns s) ->
  (gfac (gi c x) <> Analysis -> In t (do_ (getn (ns s) x))) ->
  (gfac (gi c x) = Analysis -> t = ALL) ->
  exists m, In m (cluster (fst (put_job c (s, o) x))) /\ m_job m = x /\ m_tgt m = t.
Proof.
  intros Lx Ht Ha. unfold put_job.
  destruct (rid (getn (ns s) x)) as [r|]; cbn [fst cluster set_farm set_ns];
  destruct (gfac (gi c x)) eqn:G.
  all: try (eexists; split; [apply in_or_app; right; apply in_map; apply In_sort_nat; apply Ht; discriminate
                            | split; reflexivity]).
  all: rewrite (Ha eq_refl); eexists; (split; [apply in_or_app; right; left; reflexivity | split; reflexivity]).
Qed.

Lemma put_job_cluster_mono c acc x m : In m (cluster (fst acc)) -> In m (cluster (fst (put_job c acc x))).
Proof.
  destruct acc as [s o]. unfold put_job. cbn [fst].
  destruct (rid (getn (ns s) x)); cbn [fst cluster set_farm set_ns]; intros H; apply in_or_app; left; exact H.
Qed.

Lemma put_jobs_cluster_mono c js : forall acc m,
  In m (cluster (fst acc)) -> In m (cluster (fst (fold_left (put_job c) js acc))).
Proof.
  induction js as [|x js IH]; intros acc m H; cbn [fold_left]; [exact H|].
  apply IH. apply put_job_cluster_mono. exact H.
Qed.

Lemma put_job_len c acc x : length (ns (fst (put_job c acc x))) = length (ns (fst acc)).
Proof.
  destruct acc as [s o]. unfold put_job. destruct (rid (getn (ns s) x)); cbn [fst ns set_farm set_ns];
  apply setn_length.
Qed.

Lemma put_jobs_complete c js : forall s o x t, In x js -> x < length (ns s) ->
  (gfac (gi c x) <> Analysis -> In t (do_ (getn (ns s) x))) ->
  (gfac (gi c x) = Analysis -> t = ALL) ->
  exists m, In m (cluster (fst (fold_left (put_job c) js (s, o)))) /\ m_job m = x /\ m_tgt m = t.
Proof.
  induction js as [|z js IH]; intros s o x t Hin Lx Ht Ha; [destruct Hin|]. cbn [fold_left].
  destruct (Nat.eq_dec z x) as [->|N].
  - destruct (put_job_complete c s o x t Lx Ht Ha) as (m & Hm & J & T).
    exists m. split; [|tauto]. apply put_jobs_cluster_mono. exact Hm.
  - destruct Hin as [Hin|Hin]; [congruence|].
    destruct (put_job c (s, o) z) as [s1 o1] eqn:P.
    assert (L1 : x < length (ns s1)).
    { pose proof (put_job_len c (s, o) z) as L. rewrite P in L. cbn [fst] in L. rewrite L. exact Lx. }
    assert (D1 : getn (ns s1) x = getn (ns s) x).
    { unfold put_job in P. destruct (rid (getn (ns s) z)); inversion P; subst; cbn [ns set_farm set_ns];
      apply getn_setn_other; exact N. }
    apply (IH s1 o1 x t Hin L1); [rewrite D1; exact Ht|exact Ha].
Qed.

(* C04_progress: the next dispatch releases every runnable pending unit *)
Lemma dispatch_progress c s x t : Inv c s -> active s = true -> paused s = false ->
  x < nnodes c -> In t (todo (getn (ns s) x)) -> ~ In t (doing (getn (ns s) x)) ->
  (forall a, In a (anc (gi c x)) ->
     ~ In t (todo (getn (ns s) a)) /\ ~ In t (doing (getn (ns s) a)) /\
     ~ In ALL (todo (getn (ns s) a)) /\ ~ In ALL (doing (getn (ns s) a))) ->
  (In ALL (todo (getn (ns s) x)) -> forall a, In a (anc (gi c x)) -> ~ In a (que s)) ->
  let s' := fst (dispatch c s) in
  ~ In t (todo (getn (ns s') x)) /\ In t (doing (getn (ns s') x)) /\
  exists m, In m (cluster s' ++ map snd (inflight s')) /\ m_job m = x /\ m_tgt m = t.
Proof.
  intros (Hl & Iq & [Hj Hd] & Ia) A Hp Hx Ht Hnd Hanc Hall. cbn zeta.
  assert (Hq : In x (que s)) by (apply Iq; left; intros E; rewrite E in Ht; contradiction).
  assert (Lx : x < length (ns s)) by (rewrite Hl; exact Hx).
  assert (Hanc' : forall a, In a (anc (gi c x)) -> In a (que s) ->
            pend (ns s) a t = false /\ pend (ns s) a ALL = false).
  { intros a Ha _. destruct (Hanc a Ha) as (A1 & A2 & A3 & A4). split; apply pend_false; tauto. }
  destruct (batch_progress c s x t Hp Hq Ht Hnd Lx Hanc' Hall) as (B1 & B2 & B3 & B4).
  destruct (dispatch_todo c s x A) as [E1 E2]. rewrite E1, E2.
  split; [exact B2|]. split; [exact B1|].
  (* the message *)
  unfold dispatch. rewrite A. cbn [negb].
  destruct (next_job_batch c s) as [s1 rel] eqn:N. cbn [fst snd] in *.
  destruct (njb_farm _ _ _ _ N) as (W1 & F1 & _ & C1 & J1 & _).
  set (s2 := set_farm s1 (jobs s1 ++ rel) (cluster s1) (busy s1) (workers s1) (inflight s1)).
  set (o0 := if archive s2 && _ then [OArchive] else []).
  assert (L1 : x < length (ns s2)).
  { unfold s2. cbn [ns set_farm].
    assert (L : length (ns s1) = length (ns s)).
    { unfold next_job_batch in N. rewrite Hp in N.
      pose proof (release_fold_len c (que s) (que s) (ns s, [])) as G. cbn [fst] in G.
      destruct (fold_left (release c (que s)) (que s) (ns s, [])) as [l r0]. inversion N; subst. exact G. }
    rewrite L. exact Lx. }
  assert (Tt : gfac (gi c x) = Analysis -> t = ALL).
  { intros G. apply (Ia x t); [unfold asp; rewrite G; reflexivity|left; exact Ht]. }
  destruct (put_jobs_complete c (jobs s2) s2 o0 x t) as (m & Hm & Jm & Tm).
  { unfold s2. cbn [jobs set_farm]. apply in_or_app. right. exact B4. }
  { exact L1. }
  { intros _. unfold s2. cbn [ns set_farm]. exact B3. }
  { exact Tt. }
  pose proof (put_jobs_inv c (jobs s2) s2 o0) as PI.
  destruct (fold_left (put_job c) (jobs s2) (s2, o0)) as [s3 o1] eqn:P. cbn [fst] in Hm.
  destruct (hand_out (cluster_sort (cluster s3)) (workers_sort (workers s3)) (busy s3) (inflight s3) o1)
    as [[[[cl' w'] b'] fl'] o2] eqn:H.
  apply hand_out_spec in H. destruct H as (k & Hk & E3 & E4 & E5 & E6 & E7).
  match goal with |- context [fst (if ?b then ?X else ?Y)] =>
    replace (cluster (fst (if b then X else Y))) with cl' by (destruct b; reflexivity);
    replace (inflight (fst (if b then X else Y))) with fl' by (destruct b; reflexivity) end.
  exists m. split; [|tauto].
  (* m is in the sorted cluster = handed part ++ remaining part *)
  assert (Hs : In m (cluster_sort (cluster s3))).
  { apply (Permutation.Permutation_in m (Permutation.Permutation_sym (cluster_sort_perm (cluster s3)))). exact Hm. }
  rewrite <- (firstn_skipn k (cluster_sort (cluster s3))) in Hs. apply in_app_or in Hs.
  apply in_or_app. destruct Hs as [Hs|Hs].
  - right. rewrite E5, map_app. apply in_or_app. right.
    assert (Lk : length (map fst (firstn k (workers_sort (workers s3)))) = length (firstn k (cluster_sort (cluster s3)))).
    { rewrite map_length, !firstn_length. lia. }
    revert Hs Lk. generalize (map fst (firstn k (workers_sort (workers s3)))), (firstn k (cluster_sort (cluster s3))).
    intros l1 l2. revert l1. induction l2 as [|b l2 IH]; intros [|a0 l1] Hs Lk; cbn in *; try lia; try contradiction.
    destruct Hs as [Hs|Hs]; [left; exact Hs|right; apply IH; [exact Hs|lia]].
  - left. rewrite E3. exact Hs.
Qed.

(* ---- the queue at rest: J = "whoever is in the queue has work" ---- *)
Definition J_que (s : state) : Prop :=
  forall x, In x (que s) -> todo (getn (ns s) x) <> [] \/ doing (getn (ns s) x) <> [].

(* events that cannot create an entry with nothing to do *)
Definition benign (c : cfg) (e : ev) : Prop :=
  match e with
  | Org names r tg => tg <> [] /\ gtargets c <> []
  | Rep _ _ _ _ o _ => o = Success
  | Build _ => gtargets c <> []
  | _ => True
  end.

Lemma idle_empty s : J_que s ->
  (forall x, todo (getn (ns s) x) = [] /\ doing (getn (ns s) x) = []) ->
  que s = [] /\ view_todo s = [] /\ view_doing s = [].
Proof.
  intros J H. assert (Q : que s = []).
  { destruct (que s) as [|x q] eqn:E; [reflexivity|]. exfalso.
    destruct (J x) as [N|N]; [rewrite E; left; reflexivity| |]; destruct (H x) as [H1 H2]; congruence. }
  split; [exact Q|]. unfold view_todo, view_doing. rewrite Q. split; reflexivity.
Qed.

Lemma has_work_pend l x : (todo (getn l x) <> [] \/ doing (getn l x) <> []) <-> exists u, pend l x u = true.
Proof.
  split.
  - intros [H|H]; apply nonempty_In in H; destruct H as [u Hu]; exists u; unfold pend;
    apply orb_true_iff; [left|right]; apply mem_In; exact Hu.
  - intros [u H]. unfold pend in H. apply orb_true_iff in H. destruct H as [H|H]; apply mem_In in H;
    [left|right]; apply nonempty_In; exists u; exact H.
Qed.

Lemma organize_J c names r tg s : length (ns s) = nnodes c -> gtargets c <> [] ->
  (names = [] \/ tg <> []) -> J_que s -> J_que (organize c names r tg s).
Proof.
  intros Hl Hg Hn J z Hz. destruct (organize_spec c names r tg s Hl) as (_ & T & D & Q).
  apply Q in Hz. destruct Hz as [Hz|[Hz Lz]].
  - destruct (J z Hz) as [H|H].
    + left. apply nonempty_In in H. destruct H as [u Hu]. apply nonempty_In. exists u. apply T. left. exact Hu.
    + right. destruct (D z) as [D1 _]. rewrite D1. exact H.
  - left. destruct Hn as [Hn|Hn]; [subst names; destruct Hz|].
    assert (E : exists u, tgt_added c z tg u).
    { unfold tgt_added. destruct (asp c z); [exists ALL; reflexivity|].
      destruct (mem ALL tg).
      - destruct (gtargets c) as [|g gs]; [congruence|]. exists g. left. reflexivity.
      - destruct tg as [|g gs]; [congruence|]. exists g. left. reflexivity. }
    destruct E as [u Hu]. apply nonempty_In. exists u. apply T. right. auto.
Qed.

Lemma dispatch_J c s : J_que s -> J_que (fst (dispatch c s)).
Proof.
  intros J z Hz. rewrite dispatch_que in Hz. apply has_work_pend. apply J in Hz.
  apply has_work_pend in Hz. destruct Hz as [u Hu]. exists u. rewrite dispatch_pend. exact Hu.
Qed.

Lemma complete_J c x t s : J_que s -> J_que (complete c x t s).
Proof.
  intros J z Hz. rewrite ns_complete. destruct (Nat.eq_dec z x) as [->|N].
  - (* x still queued => not idle *)
    unfold complete in Hz. cbn zeta in Hz. rewrite getn_setn. rewrite Nat.eqb_refl. cbn [andb].
    destruct (x <? length (ns s)) eqn:L.
    + unfold cz. cbn [todo doing].
      destruct (todo (getn (ns s) x)) as [|a td] eqn:E1;
      destruct (if t =? ALL then [] else rem t (doing (getn (ns s) x))) as [|b dg] eqn:E2;
      cbn [que set_que set_ns] in Hz.
      * apply In_rem in Hz. destruct Hz as [_ Hz]. congruence.
      * right. discriminate.
      * left. discriminate.
      * left. discriminate.
    + (* out of range: the node has nothing, complete removes it from the queue *)
      apply Nat.ltb_ge in L. exfalso. rewrite (getn_oob _ _ L) in Hz.
      cbn [todo doing dflt_ns] in Hz.
      destruct (t =? ALL); cbn [rem filter que set_que set_ns] in Hz;
      apply In_rem in Hz; destruct Hz as [_ Hz]; congruence.
  - rewrite getn_setn_other by congruence. apply J. apply (que_complete c x t s z Hz).
Qed.

Lemma filter_no_new c x l :
  filter (fun y0 => negb (y0 =? x) && existsb (fun i => mem i []) (ins (gi c y0))) l = [].
Proof.
  induction l as [|k ks IH]; [reflexivity|]. cbn [filter].
  assert (Ex : existsb (fun i => mem i []) (ins (gi c k)) = false).
  { induction (ins (gi c k)) as [|i l0 IH0]; [reflexivity|]. cbn. exact IH0. }
  rewrite Ex, andb_false_r. exact IH.
Qed.

Lemma filter_mem_nil (l : list nat) : filter (fun y => mem y []) l = [].
Proof. induction l as [|a l IH]; [reflexivity|]. cbn. exact IH. Qed.

Lemma res_success_J c x t r vs s : length (ns s) = nnodes c -> gtargets c <> [] ->
  J_que s -> J_que (fst (res c x t r Success vs s)).
Proof.
  intros Hl Hg J. unfold res. destruct (mem x (que (set_busy s _))); [|exact J].
  set (s1 := set_busy s _). assert (J1 : J_que s1) by exact J.
  pose proof (complete_J c x t s1 J1) as J2.
  assert (L2 : length (ns (complete c x t s1)) = nnodes c)
    by (rewrite ns_complete; unfold s1; cbn [ns set_busy]; rewrite setn_length; exact Hl).
  cbn [fst]. destruct vs as [|v vs]; [exact J2|].
  rewrite update_unfold by discriminate.
  apply organize_J; [exact L2|exact Hg| |exact J2].
  (* either nobody is named, or something was new (hence a target) *)
  set (V := v :: vs).
  destruct (new_names V) as [|i rest] eqn:En.
  - left. unfold fb_consumers. rewrite En. cbn [flat_map mem existsb orb].
    rewrite filter_no_new. apply filter_mem_nil.
  - right. unfold new_names in En. destruct (news V) as [|w ws] eqn:Ew; [discriminate|].
    intros E. assert (In (fst (fst w)) (new_targets V)).
    { apply new_targets_In. exists w. split; [rewrite Ew; left; reflexivity|reflexivity]. }
    rewrite E in H. contradiction.
Qed.

Lemma build_J c ch s : gtargets c <> [] -> J_que (build c ch s).
Proof.
  intros Hg z Hz. destruct (build_exact c ch s) as (_ & T & _ & Q). apply Q in Hz. destruct Hz as [Hz Lz].
  left. apply nonempty_In. destruct (asp c z) eqn:A.
  - exists ALL. apply T. rewrite A. auto.
  - destruct (gtargets c) as [|g gs] eqn:G; [congruence|]. exists g. apply T. rewrite A. split; [exact Hz|].
    split; [exact Lz|left; reflexivity].
Qed.

Lemma step_J c s e : length (ns s) = nnodes c -> gtargets c <> [] -> benign c e ->
  J_que s -> J_que (fst (step c s e)).
Proof.
  intros Hl Hg B J. destruct e; cbn [step]; cbn [benign] in B.
  - cbn [fst]. apply organize_J; [exact Hl|exact Hg|right; tauto|exact J].
  - apply dispatch_J. exact J.
  - subst o. pose proof (res_success_J c x t r values s Hl Hg J) as R.
    destruct (res c x t r Success values s) as [s' outs]. cbn [fst] in *. exact R.
  - unfold reg. destruct rev_ok; exact J.
  - unfold poll. destruct (rev_ok && active s); exact J.
  - exact J.
  - exact J.
  - exact J.
  - exact J.
  - cbn [fst]. apply build_J. exact Hg.
Qed.

Lemma run_J c es : forall s, length (ns s) = nnodes c -> gtargets c <> [] ->
  Forall (benign c) es -> J_que s -> J_que (fst (run c s es)).
Proof.
  induction es as [|e es IH]; intros s Hl Hg HB J; cbn [run]; [exact J|].
  inversion HB as [|? ? Be Bes]; subst.
  pose proof (step_J c s e Hl Hg Be J) as J1. pose proof (step_len c s e Hl) as L1.
  destruct (step c s e) as [s1 o]. cbn [fst] in *. specialize (IH s1 L1 Hg Bes J1).
  destruct (run c s1 es) as [s2 os]. exact IH.
Qed.
