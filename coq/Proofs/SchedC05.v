(* C05 -- a failed run is contained to its own target and its dependents.
   One-step theorems about Hand._res with a non-success outcome, from ANY state. *)
From Coq Require Import List Arith ZArith Bool Lia.
From DV Require Import Model.Sched Proofs.SchedLib.
Import ListNotations.

Definition pz (t : tgt) (n : nstate) : nstate :=
  {| todo := rem t (todo n); doing := rem t (doing n); do_ := rem t (do_ n);
     stat := stat n; rid := rid n |}.

Lemma rem_rem t l : rem t (rem t l) = rem t l.
Proof.
  unfold rem. induction l as [|a l IH]; [reflexivity|]. cbn [filter].
  destruct (negb (a =? t)) eqn:E; cbn [filter]; [rewrite E, IH|]; auto.
Qed.

Lemma pz_idem t n : pz t (pz t n) = pz t n.
Proof. unfold pz. cbn [todo doing do_ stat rid]. rewrite !rem_rem. reflexivity. Qed.

Lemma pz_dflt t : pz t dflt_ns = dflt_ns.
Proof. reflexivity. Qed.

Lemma getn_purge1 t l a y :
  getn (purge1 t l a) y = if Nat.eqb a y then pz t (getn l y) else getn l y.
Proof.
  unfold purge1. rewrite getn_setn. destruct (Nat.eqb a y) eqn:E; cbn [andb]; [|reflexivity].
  apply Nat.eqb_eq in E. subst y. destruct (a <? length l) eqn:L; [reflexivity|].
  apply Nat.ltb_ge in L. rewrite (getn_oob l a L). reflexivity.
Qed.

Lemma getn_fold_purge t L : forall l y,
  getn (fold_left (purge1 t) L l) y = if mem y L then pz t (getn l y) else getn l y.
Proof.
  induction L as [|a L IH]; intros l y; cbn [fold_left]; [reflexivity|].
  rewrite IH, getn_purge1, mem_cons. rewrite (Nat.eqb_sym y a).
  destruct (Nat.eqb a y); cbn [orb]; [|reflexivity].
  rewrite pz_idem. destruct (mem y L); reflexivity.
Qed.

Lemma length_fold_purge t L : forall l, length (fold_left (purge1 t) L l) = length l.
Proof.
  induction L as [|a L IH]; intros l; cbn [fold_left]; [reflexivity|].
  rewrite IH. unfold purge1. apply setn_length.
Qed.

(* complete only touches node x and the queue *)
Definition cz (t : tgt) (n : nstate) : nstate :=
  let dg := if Nat.eqb t ALL then [] else rem t (doing n) in
  {| todo := todo n; doing := dg; do_ := do_ n;
     stat := match todo n, dg with [], [] => Waiting | _, _ => stat n end; rid := rid n |}.

Lemma ns_complete c x t s : ns (complete c x t s) = setn (ns s) x (cz t (getn (ns s) x)).
Proof.
  unfold complete, cz. cbn zeta.
  destruct (todo (getn (ns s) x)); destruct (if t =? ALL then [] else rem t (doing (getn (ns s) x)));
  reflexivity.
Qed.

Lemma que_complete c x t s z : In z (que (complete c x t s)) -> In z (que s).
Proof.
  unfold complete. cbn zeta.
  destruct (todo (getn (ns s) x)); destruct (if t =? ALL then [] else rem t (doing (getn (ns s) x)));
  cbn; try tauto. intros H. apply In_rem in H. tauto.
Qed.

Lemma que_complete_keep c x t s z : In z (que s) -> z <> x -> In z (que (complete c x t s)).
Proof.
  unfold complete. cbn zeta. intros H N.
  destruct (todo (getn (ns s) x)); destruct (if t =? ALL then [] else rem t (doing (getn (ns s) x)));
  cbn; try tauto. apply In_rem. tauto.
Qed.

Section Failed.
Variables (c : cfg) (x : node) (t : tgt) (r : Z) (o : outcome) (vs : list (tgt * vname * bool)) (s : state).
Hypothesis Ho : o <> Success.
Hypothesis Hq : mem x (que s) = true.

Let s' := fst (res c x t r o vs s).

Lemma res_failed_eq :
  res c x t r o vs s =
  (purge c x t (complete c x t (set_busy s (filter (fun u => negb (unit_eqb u (x, t))) (busy s)))),
   [OChron x t r o]).
Proof.
  unfold res. cbn [que set_busy]. rewrite Hq. destruct o; [congruence| |]; reflexivity.
Qed.

Lemma ns_res_failed y :
  getn (ns s') y =
  let n := if Nat.eqb x y && (x <? length (ns s)) then cz t (getn (ns s) x) else getn (ns s) y in
  if mem y (descend c (nnodes c) x) then pz t n else n.
Proof.
  unfold s'. rewrite res_failed_eq. cbn [fst]. unfold purge. cbn [ns set_ns].
  rewrite getn_fold_purge, ns_complete. cbn [ns set_busy]. rewrite getn_setn. reflexivity.
Qed.

(* exactly one history entry, carrying the outcome *)
Lemma C05_recorded_l : snd (res c x t r o vs s) = [OChron x t r o].
Proof. rewrite res_failed_eq. reflexivity. Qed.

(* T is withdrawn from every node the purge recursion reaches *)
Lemma withdrawn_desc y : mem y (descend c (nnodes c) x) = true -> ~ In t (todo (getn (ns s') y)).
Proof.
  intros Hd. rewrite ns_res_failed. cbn zeta. rewrite Hd. cbn [pz todo].
  intros H. apply In_rem in H. tauto.
Qed.

(* nothing is triggered: no node gains a pending target *)
Lemma C05_no_trigger_l y u : In u (todo (getn (ns s') y)) -> In u (todo (getn (ns s) y)).
Proof.
  rewrite ns_res_failed. cbn zeta.
  assert (E : forall n, In u (todo (if mem y (descend c (nnodes c) x) then pz t n else n)) -> In u (todo n)).
  { intros n. destruct (mem y _); [|tauto]. cbn [pz todo]. intros H. apply In_rem in H. tauto. }
  intros H. apply E in H. destruct (Nat.eqb x y && _) eqn:B; [|exact H].
  apply andb_true_iff in B. destruct B as [B _]. apply Nat.eqb_eq in B. subst y. exact H.
Qed.

(* frame 1: a node that is neither the failed one nor reached by the recursion is untouched *)
Lemma frame_unrelated y : y <> x -> mem y (descend c (nnodes c) x) = false ->
  getn (ns s') y = getn (ns s) y.
Proof.
  intros N Hd. rewrite ns_res_failed. cbn zeta. rewrite Hd.
  destruct (Nat.eqb x y) eqn:E; [apply Nat.eqb_eq in E; congruence|]. reflexivity.
Qed.

(* frame 2: other targets of every node keep their pending / executing status *)
Lemma frame_other_target y u : u <> t -> (y <> x \/ t <> ALL) ->
  (In u (todo (getn (ns s') y)) <-> In u (todo (getn (ns s) y))) /\
  (In u (doing (getn (ns s') y)) <-> In u (doing (getn (ns s) y))) /\
  (In u (do_ (getn (ns s') y)) <-> In u (do_ (getn (ns s) y))).
Proof.
  intros Nu Hy. rewrite ns_res_failed. cbn zeta.
  set (n0 := if (x =? y) && (x <? length (ns s)) then cz t (getn (ns s) x) else getn (ns s) y).
  assert (A : (In u (todo n0) <-> In u (todo (getn (ns s) y))) /\
              (In u (doing n0) <-> In u (doing (getn (ns s) y))) /\
              (In u (do_ n0) <-> In u (do_ (getn (ns s) y)))).
  { unfold n0. destruct ((x =? y) && _) eqn:B; [|tauto].
    apply andb_true_iff in B. destruct B as [B _]. apply Nat.eqb_eq in B. subst y.
    unfold cz. cbn [todo doing do_]. repeat split; try tauto.
    - destruct (t =? ALL) eqn:Q; [apply Nat.eqb_eq in Q; destruct Hy; congruence|].
      intros H. apply In_rem in H. tauto.
    - destruct (t =? ALL) eqn:Q; [apply Nat.eqb_eq in Q; destruct Hy; congruence|].
      intros H. apply In_rem. tauto. }
  destruct (mem y (descend c (nnodes c) x)); [|exact A].
  cbn [pz todo doing do_]. rewrite !In_rem. tauto.
Qed.

(* frame 3: the queue loses at most the failed node; farm structures untouched *)
Lemma frame_que z : (In z (que s') -> In z (que s)) /\ (In z (que s) -> z <> x -> In z (que s')).
Proof.
  unfold s'. rewrite res_failed_eq. cbn [fst]. unfold purge. cbn [que set_ns]. split.
  - intros H. apply que_complete in H. exact H.
  - intros H N. apply que_complete_keep; assumption.
Qed.

Lemma farm_complete c0 x0 t0 s0 :
  cluster (complete c0 x0 t0 s0) = cluster s0 /\ workers (complete c0 x0 t0 s0) = workers s0 /\
  jobs (complete c0 x0 t0 s0) = jobs s0 /\ inflight (complete c0 x0 t0 s0) = inflight s0 /\
  archive (complete c0 x0 t0 s0) = archive s0 /\ active (complete c0 x0 t0 s0) = active s0 /\
  paused (complete c0 x0 t0 s0) = paused s0 /\ stored (complete c0 x0 t0 s0) = stored s0 /\
  busy (complete c0 x0 t0 s0) = busy s0.
Proof.
  unfold complete. cbn zeta.
  destruct (todo (getn (ns s0) x0)); destruct (if t0 =? ALL then [] else rem t0 (doing (getn (ns s0) x0)));
  cbn; repeat split; reflexivity.
Qed.

Lemma frame_farm :
  cluster s' = cluster s /\ workers s' = workers s /\ jobs s' = jobs s /\
  archive s' = archive s /\ active s' = active s /\ paused s' = paused s /\ stored s' = stored s /\
  busy s' = filter (fun u => negb (unit_eqb u (x, t))) (busy s).
Proof.
  unfold s'. rewrite res_failed_eq. cbn [fst]. unfold purge.
  cbn [cluster workers jobs archive active paused stored busy set_ns].
  destruct (farm_complete c x t (set_busy s (filter (fun u => negb (unit_eqb u (x, t))) (busy s))))
    as (A & B & C & D & E & F & G & H & I).
  rewrite A, B, C, E, F, G, H, I. cbn. repeat split; reflexivity.
Qed.

(* status and run id of every node other than the failed one are unchanged *)
Lemma frame_status y : y <> x ->
  stat (getn (ns s') y) = stat (getn (ns s) y) /\ rid (getn (ns s') y) = rid (getn (ns s) y).
Proof.
  intros N. rewrite ns_res_failed. cbn zeta.
  destruct (Nat.eqb x y) eqn:E; [apply Nat.eqb_eq in E; congruence|]. cbn [andb].
  destruct (mem y _); split; reflexivity.
Qed.

End Failed.
