(* C11 -- work goes only to eligible workers, only while the pipeline is active. *)
From Coq Require Import List Arith ZArith Bool Lia Permutation.
From DV Require Import Model.Sched Proofs.SchedLib.
Import ListNotations.

(* ---- hand_out: what is handed is a prefix of the sorted cluster, to a prefix of the workers ---- *)
Lemma hand_out_spec : forall cl w b fl o cl' w' b' fl' o',
  hand_out cl w b fl o = (cl', w', b', fl', o') ->
  exists k, k = Nat.min (length cl) (length w) /\
    cl' = skipn k cl /\ w' = skipn k w /\
    fl' = fl ++ combine (map fst (firstn k w)) (firstn k cl) /\
    b' = b ++ map msg_unit (firstn k cl) /\
    o' = o ++ map (fun p => OTask (fst p) (snd p)) (combine (map fst (firstn k w)) (firstn k cl)).
Proof.
  induction cl as [|m cl IH]; intros w b fl o cl' w' b' fl' o' H.
  - cbn in H. inversion H; subst. exists 0. cbn. rewrite !app_nil_r. repeat split; reflexivity.
  - destruct w as [|p w].
    + cbn in H. inversion H; subst. exists 0. cbn. rewrite !app_nil_r. repeat split; reflexivity.
    + cbn [hand_out] in H. apply IH in H. destruct H as (k & Hk & A & B & C & D & E).
      exists (S k). cbn [length Nat.min skipn firstn map combine]. subst k.
      repeat split; try assumption.
      * rewrite C, <- app_assoc. reflexivity.
      * rewrite D, <- app_assoc. reflexivity.
      * rewrite E, <- app_assoc. reflexivity.
Qed.

(* ---- the insertion sorts are permutations ---- *)
Lemma ins_msg_perm m l : Permutation (ins_msg m l) (m :: l).
Proof.
  induction l as [|y l IH]; cbn [ins_msg]; [reflexivity|].
  destruct (m_rid m <? m_rid y)%Z; [reflexivity|].
  rewrite IH. apply perm_swap.
Qed.

Lemma cluster_sort_perm_aux l : forall acc,
  Permutation (fold_left (fun a m => ins_msg m a) l acc) (l ++ acc).
Proof.
  induction l as [|m l IH]; intros acc; cbn [fold_left app]; [reflexivity|].
  rewrite IH, ins_msg_perm. symmetry. apply Permutation_middle.
Qed.

Lemma cluster_sort_perm l : Permutation (cluster_sort l) l.
Proof. unfold cluster_sort. rewrite cluster_sort_perm_aux, app_nil_r. reflexivity. Qed.

(* ---- put_job: the messages made for one job ---- *)
Definition msg_ok (c : cfg) (m : msg) : Prop :=
  m_fac m = gfac (gi c (m_job m)) /\
  (m_fac m = Regress -> m_rid m = 0%Z) /\
  (m_fac m = Analysis -> m_tgt m = ALL).

Definition made_for (c : cfg) (s : state) (x : node) (m : msg) : Prop :=
  m_job m = x /\ msg_ok c m /\
  (gfac (gi c x) <> Analysis -> In (m_tgt m) (do_ (getn (ns s) x))) /\
  (gfac (gi c x) <> Regress ->
     m_rid m = match rid (getn (ns s) x) with Some r => r | None => (stored s + 1)%Z end).

Lemma put_job_cluster c s o x s' o' :
  put_job c (s, o) x = (s', o') ->
  exists ms, cluster s' = cluster s ++ ms /\ (forall m, In m ms -> made_for c s x m) /\
    workers s' = workers s /\ inflight s' = inflight s /\ busy s' = busy s /\
    active s' = active s /\ stored s' = stored s /\
    (exists extra, o' = o ++ extra /\
       (extra = [] \/ extra = [ONext (stored s + 1)%Z]) /\
       (extra = [] <-> rid (getn (ns s) x) <> None)) /\
    (forall y, y <> x -> getn (ns s') y = getn (ns s) y).
Proof.
  unfold put_job. intros H.
  destruct (rid (getn (ns s) x)) as [r|] eqn:R.
  - inversion H; subst; clear H. cbn [cluster workers inflight busy active stored set_farm set_ns ns].
    eexists. split; [reflexivity|]. split.
    + intros m Hm. unfold made_for, msg_ok. rewrite R.
      destruct (gfac (gi c x)) eqn:G.
      * apply in_map_iff in Hm. destruct Hm as [t [E Ht]]. subst m.
        rewrite In_sort_nat in Ht. cbn [m_job m_tgt m_rid m_fac]. rewrite ?G.
        repeat split; auto; try congruence; try discriminate.
      * destruct Hm as [E|[]]. subst m. cbn [m_job m_tgt m_rid m_fac]. rewrite ?G.
        repeat split; auto; try congruence; try discriminate.
      * apply in_map_iff in Hm. destruct Hm as [t [E Ht]]. subst m.
        rewrite In_sort_nat in Ht. cbn [m_job m_tgt m_rid m_fac]. rewrite ?G.
        repeat split; auto; try congruence; try discriminate.
    + repeat split; try reflexivity.
      * exists []. rewrite app_nil_r. split; [reflexivity|]. split; [left; reflexivity|].
        split; congruence.
      * intros y Hy. apply getn_setn_other. congruence.
  - inversion H; subst; clear H. cbn [cluster workers inflight busy active stored set_farm set_ns ns].
    eexists. split; [reflexivity|]. split.
    + intros m Hm. unfold made_for, msg_ok. rewrite R.
      destruct (gfac (gi c x)) eqn:G.
      * apply in_map_iff in Hm. destruct Hm as [t [E Ht]]. subst m.
        rewrite In_sort_nat in Ht. cbn [m_job m_tgt m_rid m_fac]. rewrite ?G.
        repeat split; auto; try congruence; try discriminate.
      * destruct Hm as [E|[]]. subst m. cbn [m_job m_tgt m_rid m_fac]. rewrite ?G.
        repeat split; auto; try congruence; try discriminate.
      * apply in_map_iff in Hm. destruct Hm as [t [E Ht]]. subst m.
        rewrite In_sort_nat in Ht. cbn [m_job m_tgt m_rid m_fac]. rewrite ?G.
        repeat split; auto; try congruence; try discriminate.
    + repeat split; try reflexivity.
      * eexists. split; [reflexivity|]. split; [right; reflexivity|].
        split; [discriminate | intros N; congruence].
      * intros y Hy. apply getn_setn_other. congruence.
Qed.

(* every message made by the job loop satisfies msg_ok; workers/inflight/busy untouched *)
Lemma put_jobs_inv c js : forall s o s' o',
  fold_left (put_job c) js (s, o) = (s', o') ->
  workers s' = workers s /\ inflight s' = inflight s /\ busy s' = busy s /\ active s' = active s /\
  stored s' = stored s /\
  (exists ms, cluster s' = cluster s ++ ms /\ forall m, In m ms -> msg_ok c m /\ In (m_job m) js) /\
  (forall e, In e o' -> In e o \/ e = ONext (stored s + 1)%Z).
Proof.
  induction js as [|x js IH]; intros s o s' o' H; cbn [fold_left] in H.
  - inversion H; subst. repeat split; auto. exists []. rewrite app_nil_r. split; [reflexivity|]. intros m [].
  - destruct (put_job c (s, o) x) as [s1 o1] eqn:P.
    apply put_job_cluster in P. destruct P as (ms & C1 & M1 & W1 & F1 & B1 & A1 & S1 & (ex & O1 & Oc & _) & _).
    apply IH in H. destruct H as (W2 & F2 & B2 & A2 & S2 & (ms2 & C2 & M2) & O2).
    repeat split; try congruence.
    + exists (ms ++ ms2). split; [rewrite C2, C1, app_assoc; reflexivity|].
      intros m Hm. apply in_app_or in Hm. destruct Hm as [Hm|Hm].
      * destruct (M1 m Hm) as (J & K & _). split; [exact K|]. left. congruence.
      * destruct (M2 m Hm) as (K & J). split; [exact K|]. right. exact J.
    + intros e He. apply O2 in He. destruct He as [He|He].
      * rewrite O1 in He. apply in_app_or in He. destruct He as [He|He]; [left; exact He|].
        destruct Oc as [Oc|Oc]; rewrite Oc in He; [contradiction|]. destruct He as [He|[]]. right. congruence.
      * right. rewrite S1 in He. exact He.
Qed.

(* ---- dispatch ---- *)
Lemma dispatch_inactive c s : active s = false -> dispatch c s = (s, []).
Proof. intros H. unfold dispatch. rewrite H. reflexivity. Qed.

Lemma njb_farm c s s1 rel : next_job_batch c s = (s1, rel) ->
  workers s1 = workers s /\ inflight s1 = inflight s /\ busy s1 = busy s /\ cluster s1 = cluster s /\
  jobs s1 = jobs s /\ active s1 = active s /\ stored s1 = stored s /\ archive s1 = archive s.
Proof.
  unfold next_job_batch. destruct (paused s).
  - intros H. inversion H; subst. repeat split; reflexivity.
  - destruct (fold_left _ _ _) as [l r0]. intros H. inversion H; subst. cbn. repeat split; reflexivity.
Qed.

(* the central decomposition of one dispatch *)
Lemma dispatch_spec c s : active s = true ->
  exists newms cl k,
    (forall m, In m newms -> msg_ok c m) /\
    Permutation cl (cluster s ++ newms) /\
    k = Nat.min (length cl) (length (workers_sort (workers s))) /\
    cluster (fst (dispatch c s)) = skipn k cl /\
    (workers (fst (dispatch c s)) = skipn k (workers_sort (workers s)) \/
     (* the tick that starts the archive: every idle hand is told to leave *)
     (workers (fst (dispatch c s)) = [] /\ active (fst (dispatch c s)) = false /\
      forall w, In w (map fst (skipn k (workers_sort (workers s)))) -> In (OAbort w) (snd (dispatch c s)))) /\
    inflight (fst (dispatch c s)) =
      inflight s ++ combine (map fst (firstn k (workers_sort (workers s)))) (firstn k cl) /\
    busy (fst (dispatch c s)) = busy s ++ map msg_unit (firstn k cl) /\
    (forall w m, In (OTask w m) (snd (dispatch c s)) <->
                 In (w, m) (combine (map fst (firstn k (workers_sort (workers s)))) (firstn k cl))).
Proof.
  intros Ha. unfold dispatch. rewrite Ha. cbn [negb].
  destruct (next_job_batch c s) as [s1 rel] eqn:N.
  destruct (njb_farm _ _ _ _ N) as (W1 & F1 & B1 & C1 & J1 & A1 & S1 & R1).
  set (s2 := set_farm s1 (jobs s1 ++ rel) (cluster s1) (busy s1) (workers s1) (inflight s1)).
  set (o0 := if archive s2 && _ then [OArchive] else []).
  destruct (fold_left (put_job c) (jobs s2) (s2, o0)) as [s3 o1] eqn:P.
  apply put_jobs_inv in P. destruct P as (W3 & F3 & B3 & A3 & S3 & (ms & C3 & M3) & O3).
  destruct (hand_out (cluster_sort (cluster s3)) (workers_sort (workers s3)) (busy s3) (inflight s3) o1)
    as [[[[cl' w'] b'] fl'] o2] eqn:H.
  apply hand_out_spec in H. destruct H as (k & Hk & E1 & E2 & E3 & E4 & E5).
  assert (TAIL : forall X Y : state * list out, fst (if archive s2 && match jobs s2, busy s2, cluster s2 with [], [], [] => true | _, _, _ => false end then X else Y)
                 = if archive s2 && match jobs s2, busy s2, cluster s2 with [], [], [] => true | _, _, _ => false end then fst X else fst Y)
    by (intros X Y; destruct (archive s2 && _); reflexivity).
  assert (TAILS : forall X Y : state * list out, snd (if archive s2 && match jobs s2, busy s2, cluster s2 with [], [], [] => true | _, _, _ => false end then X else Y)
                 = if archive s2 && match jobs s2, busy s2, cluster s2 with [], [], [] => true | _, _, _ => false end then snd X else snd Y)
    by (intros X Y; destruct (archive s2 && _); reflexivity).
  rewrite !TAIL, !TAILS. clear TAIL TAILS.
  destruct (archive s2 && match jobs s2, busy s2, cluster s2 with [], [], [] => true | _, _, _ => false end) eqn:TR;
  cbn [fst snd cluster workers inflight busy active set_farm set_flags].
  all: assert (Ws : workers s3 = workers s) by (rewrite W3; unfold s2; cbn; exact W1).
  all: assert (Fs : inflight s3 = inflight s) by (rewrite F3; unfold s2; cbn; exact F1).
  all: assert (Bs : busy s3 = busy s) by (rewrite B3; unfold s2; cbn; exact B1).
  all: assert (Cs : cluster s3 = cluster s ++ ms) by (rewrite C3; unfold s2; cbn; rewrite C1; reflexivity).
  all: rewrite Ws in *; rewrite Fs in *; rewrite Bs in *.
  all: exists ms, (cluster_sort (cluster s3)), k.
  all: split; [intros m Hm; apply M3; exact Hm|].
  all: split; [rewrite cluster_sort_perm, Cs; reflexivity|].
  all: split; [exact Hk|].
  all: split; [exact E1|].
  1: split; [right; split; [reflexivity|split; [reflexivity|]];
             intros w Hw; apply in_or_app; right; apply in_map_iff in Hw;
             destruct Hw as [p [Ep Hp]]; apply in_map_iff; exists p; split;
             [rewrite Ep; reflexivity | rewrite E2; exact Hp]|].
  2: split; [left; exact E2|].
  all: split; [exact E3|].
  all: split; [exact E4|].
  all: intros w m; rewrite E5; rewrite in_app_iff, in_app_iff; split.
  all: try (intros Hin; left; right; apply in_map_iff; exists (w, m); split; [reflexivity|exact Hin]).
  all: intros [[Hin|Hin]|Hin].
  all: try (apply in_map_iff in Hin; destruct Hin as [[w0 m0] [E Hin]]; cbn in E; inversion E; subst; exact Hin).
  all: try (apply in_map_iff in Hin; destruct Hin as [p [E _]]; discriminate).
  all: apply O3 in Hin; destruct Hin as [Hin|Hin]; [|discriminate]; unfold o0 in Hin;
       first [ destruct Hin as [Hin|[]]; discriminate | contradiction ].
Qed.

(* ---- the tick that starts the archive: fsm.archiving_trigger() has taken the
   pipeline out of `running`, notify_all() tells every idle hand to leave ---- *)
Lemma archive_tick c s : In OArchive (snd (dispatch c s)) ->
  active s = true /\
  workers (fst (dispatch c s)) = [] /\ active (fst (dispatch c s)) = false /\
  (forall w, In w (map fst (workers_sort (workers s))) -> In (OAbort w) (snd (dispatch c s))) /\
  (forall w m, ~ In (OTask w m) (snd (dispatch c s))).
Proof.
  intros HA. destruct (active s) eqn:Ha; [|rewrite dispatch_inactive in HA by exact Ha; contradiction].
  split; [reflexivity|].
  revert HA. unfold dispatch. rewrite Ha. cbn [negb].
  destruct (next_job_batch c s) as [s1 rel] eqn:N.
  destruct (njb_farm _ _ _ _ N) as (W1 & F1 & B1 & C1 & J1 & A1 & S1 & R1).
  set (s2 := set_farm s1 (jobs s1 ++ rel) (cluster s1) (busy s1) (workers s1) (inflight s1)).
  destruct (archive s2 && match jobs s2, busy s2, cluster s2 with [], [], [] => true | _, _, _ => false end) eqn:TR.
  - (* the archive tick: nothing to put, nothing to hand out *)
    apply andb_true_iff in TR. destruct TR as [_ TR].
    destruct (jobs s2) as [|j0 jr] eqn:EJ; [|discriminate].
    destruct (busy s2) as [|b0 br] eqn:EB; [|discriminate].
    destruct (cluster s2) as [|c0 cr] eqn:EC; [|discriminate].
    cbn [fold_left]. rewrite EC. cbn [cluster_sort fold_left hand_out].
    intros _. cbn [fst snd workers active set_farm set_flags].
    split; [reflexivity|]. split; [reflexivity|]. split.
    + intros w Hw. right. apply in_or_app. right. apply in_map_iff in Hw. destruct Hw as [p [Ep Hp]].
      apply in_map_iff. exists p. split; [rewrite Ep; reflexivity|].
      assert (Ws : workers s2 = workers s) by (unfold s2; cbn; exact W1).
      rewrite Ws. exact Hp.
    + intros w m [H|H]; [discriminate|]. apply in_app_or in H. destruct H as [[]|H].
      apply in_map_iff in H. destruct H as [p [E _]]. discriminate.
  - (* no archive: OArchive is not among the outputs *)
    intros HA. exfalso.
    destruct (fold_left (put_job c) (jobs s2) (s2, [])) as [s3 o1] eqn:P.
    apply put_jobs_inv in P. destruct P as (_ & _ & _ & _ & _ & _ & O3).
    destruct (hand_out (cluster_sort (cluster s3)) (workers_sort (workers s3)) (busy s3) (inflight s3) o1)
      as [[[[cl' w'] b'] fl'] o2] eqn:H.
    apply hand_out_spec in H. destruct H as (k & _ & _ & _ & _ & _ & E5).
    cbn [snd] in HA. rewrite E5 in HA. apply in_app_or in HA. destruct HA as [HA|HA].
    + apply in_app_or in HA. destruct HA as [HA|HA].
      * apply O3 in HA. destruct HA as [[]|HA]. discriminate.
      * apply in_map_iff in HA. destruct HA as [p [E _]]. discriminate.
    + apply in_map_iff in HA. destruct HA as [p [E _]]. discriminate.
Qed.

(* workers_sort only reorders the idle list *)
Lemma remove_first_In x w p : In p (remove_first x w) -> In p w.
Proof.
  induction w as [|q w IH]; cbn [remove_first]; [intros []|].
  destruct (fst q =? x); cbn [In]; [tauto|]. intros [H|H]; [left; exact H | right; apply IH; exact H].
Qed.

Lemma workers_sort_aux_In f : forall w p, In p (workers_sort_aux f w) -> In p w.
Proof.
  induction f as [|f IH]; intros w p; cbn [workers_sort_aux]; [intros []|].
  destruct (pick_host w) as [h|]; [|intros []].
  destruct (of_host w h) as [|q r] eqn:E; [intros []|]. cbn [In]. intros [H|H].
  - subst p. assert (In q (of_host w h)) by (rewrite E; left; reflexivity).
    unfold of_host in H. apply filter_In in H. tauto.
  - apply IH in H. apply remove_first_In in H. exact H.
Qed.

Lemma workers_sort_In w p : In p (workers_sort w) -> In p w.
Proof. apply workers_sort_aux_In. Qed.

Lemma In_combine_firstn {A B} (l1 : list A) (l2 : list B) a b :
  In (a, b) (combine l1 l2) -> In a l1 /\ In b l2.
Proof. intros H. split; [eapply in_combine_l | eapply in_combine_r]; exact H. Qed.

Lemma firstn_In_ {A} k (l : list A) x : In x (firstn k l) -> In x l.
Proof. revert l; induction k as [|k IH]; intros [|a l]; cbn; intuition. Qed.

(* a task is sent only by an active dispatch, only to a worker of the idle list *)
Lemma task_recipient c s w m : In (OTask w m) (snd (dispatch c s)) ->
  active s = true /\ In w (map fst (workers s)) /\ (In m (cluster s) \/ msg_ok c m).
Proof.
  intros H. destruct (active s) eqn:A; [|rewrite dispatch_inactive in H by exact A; contradiction].
  split; [reflexivity|].
  destruct (dispatch_spec c s A) as (newms & cl & k & M & P & Hk & _ & _ & _ & _ & T).
  apply T in H. apply In_combine_firstn in H. destruct H as [Hw Hm]. split.
  - apply in_map_iff in Hw. destruct Hw as [p [E Hp]]. apply in_map_iff. exists p. split; [exact E|].
    apply firstn_In_ in Hp. apply workers_sort_In in Hp. exact Hp.
  - apply firstn_In_ in Hm. apply (Permutation_in _ P) in Hm. apply in_app_or in Hm.
    destruct Hm as [Hm|Hm]; [left; exact Hm | right; apply M; exact Hm].
Qed.

(* only Tick produces task messages *)
Lemma only_tick_sends c s e w m : In (OTask w m) (snd (step c s e)) -> e = Tick.
Proof.
  destruct e; cbn [step]; try (cbn; tauto); try reflexivity.
  - (* Rep *) destruct (res c x t r o values s) as [s' outs] eqn:R. cbn [snd].
    unfold res in R. destruct (mem x (que _)).
    + destruct o; inversion R; subst; cbn; intros [H|[]]; discriminate.
    + inversion R; subst; cbn; intros [H|[]]; discriminate.
  - unfold reg. destruct rev_ok; cbn; [tauto|]. intros [H|[]]; discriminate.
  - unfold poll. destruct (rev_ok && active s); cbn; intros [H|[]]; discriminate.
Qed.

(* where idle workers come from *)
Lemma skipn_In {A} k (l : list A) x : In x (skipn k l) -> In x l.
Proof. revert l; induction k as [|k IH]; intros [|a l]; cbn; auto. Qed.

Lemma res_workers c x t r o vs s : workers (fst (res c x t r o vs s)) = workers s.
Proof.
  unfold res. destruct (mem x (que _)); [|reflexivity].
  set (s1 := set_busy s _).
  assert (W1 : workers s1 = workers s) by reflexivity.
  destruct o; cbn [fst].
  - destruct (update_farm c vs x r (set_archive (complete c x t s1)
               (archive (complete c x t s1) || match vs with [] => false | _ :: _ => true end)))
      as (_ & W & _). rewrite W. cbn [workers set_archive].
    destruct (complete_farm c x t s1) as (_ & W2 & _). congruence.
  - destruct (purge_farm c x t (complete c x t s1)) as (_ & W & _). rewrite W.
    destruct (complete_farm c x t s1) as (_ & W2 & _). congruence.
  - destruct (purge_farm c x t (complete c x t s1)) as (_ & W & _). rewrite W.
    destruct (complete_farm c x t s1) as (_ & W2 & _). congruence.
Qed.

Lemma workers_origin c s e p : In p (workers (fst (step c s e))) ->
  In p (workers s) \/ (exists w h, e = Reg w h true /\ p = (w, h)).
Proof.
  destruct e; cbn [step].
  - destruct (organize_farm c names r tg s) as (_ & W & _). cbn [fst]. rewrite W. tauto.
  - destruct (active s) eqn:A; [|rewrite dispatch_inactive by exact A; cbn; tauto].
    destruct (dispatch_spec c s A) as (newms & cl & k & _ & _ & _ & _ & [Wk|(Wk & _)] & _).
    + rewrite Wk. intros H. left. apply workers_sort_In. eapply skipn_In; exact H.
    + rewrite Wk. intros [].
  - pose proof (res_workers c x t r o values s) as W.
    destruct (res c x t r o values s) as [s' outs]. cbn [fst workers set_farm] in *. rewrite W. tauto.
  - unfold reg. destruct rev_ok; cbn [fst workers set_farm]; [|tauto].
    intros H. apply in_app_or in H. destruct H as [H|[H|[]]]; [tauto|]. right. eauto.
  - unfold poll. destruct (rev_ok && active s); cbn; tauto.
  - cbn. intros H. apply filter_In in H. tauto.
  - cbn. tauto.
  - cbn. tauto.
  - cbn. tauto.
  - destruct (build_farm c changed s) as (_ & W & _). cbn [fst]. rewrite W. tauto.
Qed.

(* a dropped connection leaves the idle list *)
Lemma drop_removes c s w h : ~ In (w, h) (workers (fst (step c s (Drop w)))).
Proof.
  cbn. intros H. apply filter_In in H. destruct H as [_ H]. cbn in H.
  rewrite Nat.eqb_refl in H. discriminate.
Qed.

(* a stale registration is refused: abort, never listed *)
Lemma stale_refused c s w h : step c s (Reg w h false) = (s, [OAbort w]).
Proof. reflexivity. Qed.

(* status polls: proceed only for the current revision while active *)
Lemma poll_answer c s w ok :
  step c s (Poll w ok) = (s, [if ok && active s then OProceed w else OAbort w]).
Proof. cbn. unfold poll. destruct (ok && active s); reflexivity. Qed.

(* ---- one task per worker, and a tasked worker leaves the idle list ---- *)
Lemma remove_first_fst_notin x w : NoDup (map fst w) -> ~ In x (map fst (remove_first x w)).
Proof.
  induction w as [|q w IH]; cbn [remove_first map]; [tauto|]. intros N. inversion N; subst.
  destruct (fst q =? x) eqn:E.
  - apply Nat.eqb_eq in E. subst x. assumption.
  - cbn [map In]. apply Nat.eqb_neq in E. intros [H|H]; [congruence|]. apply IH in H; assumption.
Qed.

Lemma remove_first_sub x w y : In y (map fst (remove_first x w)) -> In y (map fst w).
Proof.
  intros H. apply in_map_iff in H. destruct H as [p [E H]]. apply remove_first_In in H.
  apply in_map_iff. exists p. tauto.
Qed.

Lemma remove_first_nodup x w : NoDup (map fst w) -> NoDup (map fst (remove_first x w)).
Proof.
  induction w as [|q w IH]; cbn [remove_first map]; [tauto|]. intros N. inversion N; subst.
  destruct (fst q =? x); [assumption|]. cbn [map]. constructor; [|apply IH; assumption].
  intros H. apply remove_first_sub in H. contradiction.
Qed.

Lemma workers_sort_aux_nodup f : forall w, NoDup (map fst w) -> NoDup (map fst (workers_sort_aux f w)).
Proof.
  induction f as [|f IH]; intros w N; cbn [workers_sort_aux]; [constructor|].
  destruct (pick_host w) as [h|]; [|constructor].
  destruct (of_host w h) as [|q r] eqn:E; [constructor|]. cbn [map]. constructor.
  - intros H. apply in_map_iff in H. destruct H as [p [Ep Hp]].
    apply workers_sort_aux_In in Hp.
    apply (remove_first_fst_notin (fst q) w N). apply in_map_iff. exists p. tauto.
  - apply IH. apply remove_first_nodup. exact N.
Qed.

Lemma workers_sort_nodup w : NoDup (map fst w) -> NoDup (map fst (workers_sort w)).
Proof. apply workers_sort_aux_nodup. Qed.

Lemma nodup_firstn_skipn_disjoint (l : list nat) k x :
  NoDup l -> In x (firstn k l) -> ~ In x (skipn k l).
Proof.
  revert k. induction l as [|a l IH]; intros [|k] N; cbn [firstn skipn In]; try tauto.
  inversion N; subst. intros [H|H].
  - subst x. intros H. apply skipn_In in H. contradiction.
  - apply IH; assumption.
Qed.

Lemma In_combine_nodup_l {A B} (l1 : list A) (l2 : list B) a b b' :
  NoDup l1 -> In (a, b) (combine l1 l2) -> In (a, b') (combine l1 l2) -> b = b'.
Proof.
  revert l2. induction l1 as [|x l1 IH]; intros [|y l2] N; cbn [combine In]; try tauto.
  inversion N as [|? ? Hn Hd]; subst. intros [Ha|Ha] [Hb|Hb].
  - congruence.
  - inversion Ha; subst. apply in_combine_l in Hb. contradiction.
  - inversion Hb; subst. apply in_combine_l in Ha. contradiction.
  - eapply IH; eassumption.
Qed.

Lemma tasked_worker_leaves c s w m : NoDup (map fst (workers s)) ->
  In (OTask w m) (snd (dispatch c s)) ->
  ~ In w (map fst (workers (fst (dispatch c s)))) /\
  (forall m', In (OTask w m') (snd (dispatch c s)) -> m' = m).
Proof.
  intros N H. destruct (active s) eqn:A; [|rewrite dispatch_inactive in H by exact A; contradiction].
  destruct (dispatch_spec c s A) as (newms & cl & k & _ & _ & _ & _ & Wk & _ & _ & T).
  pose proof (workers_sort_nodup _ N) as N2.
  apply T in H. split.
  - destruct Wk as [Wk|(Wk & _)]; [|rewrite Wk; intros []].
    rewrite Wk. rewrite <- skipn_map. apply nodup_firstn_skipn_disjoint; [exact N2|].
    rewrite firstn_map. apply in_combine_l in H. exact H.
  - intros m' H'. apply T in H'. eapply In_combine_nodup_l; [|exact H'|exact H].
    rewrite <- firstn_map. clear - N2. revert k.
    induction (map fst (workers_sort (workers s))) as [|a l IH]; intros [|k]; cbn [firstn]; try constructor.
    + inversion N2; subst. intros Hin. apply firstn_In_ in Hin. contradiction.
    + inversion N2; subst. apply IH. assumption.
Qed.

(* conservation: what is not handed to a worker stays queued *)
Lemma dispatch_conservation c s : active s = true ->
  exists newms,
    (forall m, In m newms -> msg_ok c m) /\
    Permutation (map snd (skipn (length (inflight s)) (inflight (fst (dispatch c s))))
                 ++ cluster (fst (dispatch c s)))
                (cluster s ++ newms).
Proof.
  intros A. destruct (dispatch_spec c s A) as (newms & cl & k & M & P & Hk & Ck & _ & Fk & _).
  exists newms. split; [exact M|]. rewrite Fk, Ck.
  rewrite skipn_app, Nat.sub_diag, skipn_all. cbn [skipn app].
  assert (L : length (map fst (firstn k (workers_sort (workers s)))) = length (firstn k cl)).
  { rewrite map_length, !firstn_length. lia. }
  assert (E : map snd (combine (map fst (firstn k (workers_sort (workers s)))) (firstn k cl)) = firstn k cl).
  { revert L. generalize (map fst (firstn k (workers_sort (workers s)))), (firstn k cl).
    induction l as [|a l IH]; intros [|b l0] L; cbn in *; try lia; [reflexivity|].
    f_equal. apply IH. lia. }
  rewrite E, firstn_skipn. exact P.
Qed.

(* ---- invariant: every queued or sent task message is well formed ---- *)
Lemma res_cluster c x t r o vs s :
  cluster (fst (res c x t r o vs s)) = cluster s /\ active (fst (res c x t r o vs s)) = active s.
Proof.
  unfold res. destruct (mem x (que _)); [|split; reflexivity].
  set (s1 := set_busy s _).
  assert (W1 : cluster s1 = cluster s /\ active s1 = active s) by (split; reflexivity).
  destruct o; cbn [fst].
  - destruct (update_farm c vs x r (set_archive (complete c x t s1)
               (archive (complete c x t s1) || match vs with [] => false | _ :: _ => true end)))
      as (C & _ & _ & _ & _ & A & _). rewrite C, A. cbn [cluster active set_archive].
    destruct (complete_farm c x t s1) as (C2 & _ & _ & _ & _ & A2 & _). split; [rewrite C2|rewrite A2]; tauto.
  - destruct (purge_farm c x t (complete c x t s1)) as (C & _ & _ & _ & _ & A & _). rewrite C, A.
    destruct (complete_farm c x t s1) as (C2 & _ & _ & _ & _ & A2 & _). split; [rewrite C2|rewrite A2]; tauto.
  - destruct (purge_farm c x t (complete c x t s1)) as (C & _ & _ & _ & _ & A & _). rewrite C, A.
    destruct (complete_farm c x t s1) as (C2 & _ & _ & _ & _ & A2 & _). split; [rewrite C2|rewrite A2]; tauto.
Qed.

Definition cluster_ok (c : cfg) (s : state) : Prop := forall m, In m (cluster s) -> msg_ok c m.

Lemma step_cluster_ok c s e : cluster_ok c s -> cluster_ok c (fst (step c s e)).
Proof.
  intros I. destruct e; cbn [step].
  - destruct (organize_farm c names r tg s) as (C & _). cbn [fst]. unfold cluster_ok. rewrite C. exact I.
  - destruct (active s) eqn:A; [|rewrite dispatch_inactive by exact A; exact I].
    destruct (dispatch_spec c s A) as (newms & cl & k & M & P & _ & Ck & _).
    unfold cluster_ok. rewrite Ck. intros m Hm. apply skipn_In in Hm.
    apply (Permutation_in _ P) in Hm. apply in_app_or in Hm. destruct Hm; [apply I|apply M]; assumption.
  - pose proof (res_cluster c x t r o values s) as [C _].
    destruct (res c x t r o values s) as [s' outs]. cbn [fst cluster set_farm] in *.
    unfold cluster_ok. cbn [cluster set_farm]. rewrite C. exact I.
  - unfold reg. destruct rev_ok; cbn; exact I.
  - unfold poll. destruct (rev_ok && active s); cbn; exact I.
  - cbn. exact I.
  - cbn. exact I.
  - cbn. exact I.
  - cbn. exact I.
  - destruct (build_farm c changed s) as (C & _). cbn [fst]. unfold cluster_ok. rewrite C. exact I.
Qed.

Lemma run_cluster_ok c es : forall s, cluster_ok c s -> cluster_ok c (fst (run c s es)).
Proof.
  induction es as [|e es IH]; intros s I; cbn [run]; [exact I|].
  pose proof (step_cluster_ok c s e I) as I1. destruct (step c s e) as [s1 o]. cbn [fst] in I1.
  specialize (IH s1 I1). destruct (run c s1 es) as [s2 os]. exact IH.
Qed.

(* every task message ever sent, in every history, is well formed *)
Lemma sent_ok c s w m : cluster_ok c s -> In (OTask w m) (snd (dispatch c s)) -> msg_ok c m.
Proof.
  intros I H. apply task_recipient in H. destruct H as (_ & _ & [H|H]); [apply I; exact H | exact H].
Qed.

(* ---- trace theorem: who can be on the idle list ---- *)
Lemma idle_origin c es : forall s w h,
  In (w, h) (workers (fst (run c s es))) ->
  (In (w, h) (workers s) /\ ~ In (Drop w) es) \/
  (exists es1 es2, es = es1 ++ Reg w h true :: es2 /\ ~ In (Drop w) es2).
Proof.
  induction es as [|e es IH]; intros s w h H; cbn [run] in H.
  - left. split; [exact H | intros []].
  - destruct (step c s e) as [s1 o] eqn:S. destruct (run c s1 es) as [s2 os] eqn:R. cbn [fst] in H.
    assert (H' : In (w, h) (workers (fst (run c s1 es)))) by (rewrite R; exact H).
    apply IH in H'. destruct H' as [[Hin Hnd]|(es1 & es2 & E & Hnd)].
    + assert (Hs : In (w, h) (workers (fst (step c s e)))) by (rewrite S; exact Hin).
      destruct (workers_origin c s e (w, h) Hs) as [Hw|(w0 & h0 & Ee & Ep)].
      * left. split; [exact Hw|]. intros [Hd|Hd]; [|contradiction].
        subst e. apply (drop_removes c s w h). exact Hs.
      * inversion Ep; subst. right. exists [], es. split; [reflexivity|exact Hnd].
    + right. exists (e :: es1), es2. split; [rewrite E; reflexivity|exact Hnd].
Qed.
