(* C15, build half: after schedule.build an algorithm is pending for every known
   target (the all-targets marker for analyses) exactly when one of its versions is
   not among the persisted ones, and nothing else is scheduled. *)
From Coq Require Import List Arith ZArith Bool Lia.
From DV Require Import Model.Sched Model.Build Gen.DiffGen Proofs.SchedLib Proofs.SchedOrg.
Import ListNotations.

(* ---- the generated _diff ---- *)
Lemma diff_fold curr prev (l : list (nat * nat)) : forall acc k,
  In k (fold_left (fun acc (kv : nat * nat) => let k := fst kv in if diff_test curr prev k then acc ++ [k] else acc) l acc)
  <-> In k acc \/ (In k (map fst l) /\ diff_test curr prev k = true).
Proof.
  induction l as [|kv l IH]; intros acc k; cbn [fold_left map In].
  - intuition.
  - rewrite IH. cbn zeta. destruct (diff_test curr prev (fst kv)) eqn:E.
    + rewrite in_app_iff. cbn [In]. intuition; subst; auto.
    + intuition; subst; congruence.
Qed.

Lemma diff_spec curr prev k :
  In k (diff curr prev) <-> In k (map fst curr) /\ diff_test curr prev k = true.
Proof. unfold diff. rewrite diff_fold. cbn [In]. intuition. Qed.

Lemma mem_nat_In x l : mem_nat x l = true <-> In x l.
Proof.
  unfold mem_nat. rewrite existsb_exists. split.
  - intros [u [Hu E]]. apply Nat.eqb_eq in E. subst. exact Hu.
  - intros H. exists x. split; [exact H|apply Nat.eqb_refl].
Qed.

Lemma count_nat_zero x l : count_nat x l = 0 <-> ~ In x l.
Proof.
  unfold count_nat. induction l as [|a l IH]; cbn [filter]; [cbn; intuition|].
  destruct (x =? a) eqn:E; cbn [length In].
  - apply Nat.eqb_eq in E. subst. split; [discriminate|]. intros H. exfalso. apply H. left. reflexivity.
  - apply Nat.eqb_neq in E. rewrite IH. intuition.
Qed.

Lemma lget_nokey k (d : list (nat * list nat)) : has_key k d = false -> lget k d = [].
Proof.
  unfold has_key, lget. induction d as [|p d IH]; cbn [existsb find]; [reflexivity|].
  destruct (fst p =? k); cbn [orb]; [discriminate|]. exact IH.
Qed.

(* the meaning of the generated test: the current version string of the name is
   not among the persisted ones (an unknown name has no persisted versions) *)
Lemma diff_test_spec curr prev k :
  diff_test curr prev k = true <-> ~ In (dget k curr) (lget k prev).
Proof.
  unfold diff_test. rewrite orb_true_iff, negb_true_iff, Nat.eqb_eq, count_nat_zero. split.
  - intros [H|H]; [rewrite (lget_nokey _ _ H); intros []|exact H].
  - intros H. right. exact H.
Qed.

(* ---- build ---- *)
Lemma build_set_getn c x : forall l y, length l = nnodes c ->
  getn (build_set c l x) y =
  if Nat.eqb x y && (x <? nnodes c) then
    let n := getn l x in
    {| todo := if asp c x then [ALL] else addl (gtargets c) []; doing := doing n; do_ := do_ n;
       stat := stat n; rid := rid n |}
  else getn l y.
Proof.
  intros l y Hl. unfold build_set. destruct (nnodes c <=? x) eqn:L.
  - apply Nat.leb_le in L. assert (x <? nnodes c = false) as -> by (apply Nat.ltb_ge; lia).
    rewrite andb_false_r. reflexivity.
  - apply Nat.leb_gt in L. assert (x <? nnodes c = true) as -> by (apply Nat.ltb_lt; lia).
    rewrite andb_true_r, getn_setn, Hl. assert (x <? nnodes c = true) as -> by (apply Nat.ltb_lt; lia).
    rewrite andb_true_r. reflexivity.
Qed.

Lemma build_set_len c l x : length (build_set c l x) = length l.
Proof. unfold build_set. destruct (nnodes c <=? x); [reflexivity|apply setn_length]. Qed.

Lemma build_fold c ch : forall l, length l = nnodes c ->
  (forall y, doing (getn l y) = [] /\ do_ (getn l y) = []) ->
  let l' := fold_left (build_set c) ch l in
  length l' = nnodes c /\
  (forall y, doing (getn l' y) = [] /\ do_ (getn l' y) = []) /\
  (forall y t, In t (todo (getn l' y)) <->
     (In y ch /\ y < nnodes c /\ (if asp c y then t = ALL else In t (gtargets c)))
     \/ (~ (In y ch /\ y < nnodes c) /\ In t (todo (getn l y)))).
Proof.
  induction ch as [|x ch IH]; intros l Hl Hd; cbn [fold_left].
  - split; [exact Hl|]. split; [exact Hd|]. intros y t. cbn [In]. intuition.
  - assert (Hl1 : length (build_set c l x) = nnodes c) by (rewrite build_set_len; exact Hl).
    assert (Hd1 : forall y, doing (getn (build_set c l x) y) = [] /\ do_ (getn (build_set c l x) y) = []).
    { intros y. rewrite build_set_getn by exact Hl. destruct (_ && _); [cbn; apply Hd|apply Hd]. }
    destruct (IH _ Hl1 Hd1) as (L & D & T). split; [exact L|]. split; [exact D|].
    intros y t. rewrite T. rewrite build_set_getn by exact Hl. cbn [In].
    destruct (x =? y) eqn:E; cbn [andb].
    + apply Nat.eqb_eq in E. subst y. destruct (x <? nnodes c) eqn:Lx.
      * apply Nat.ltb_lt in Lx. cbn [todo].
        assert (Q : In t (if asp c x then [ALL] else addl (gtargets c) []) <->
                    (if asp c x then t = ALL else In t (gtargets c))).
        { destruct (asp c x); [cbn; intuition|]. rewrite In_addl. cbn. intuition. }
        rewrite Q. destruct (in_dec Nat.eq_dec x ch) as [Hin|Hin]; intuition.
      * apply Nat.ltb_ge in Lx. intuition; try lia.
    + apply Nat.eqb_neq in E. intuition; try congruence.
Qed.

Section BuildExact.
Variables (c : cfg) (ch : list node) (s : state).
Let s' := build c ch s.

Lemma build_exact :
  length (ns s') = nnodes c /\
  (forall y t, In t (todo (getn (ns s') y)) <->
     In y ch /\ y < nnodes c /\ (if asp c y then t = ALL else In t (gtargets c))) /\
  (forall y, doing (getn (ns s') y) = [] /\ do_ (getn (ns s') y) = []) /\
  (forall z, In z (que s') <-> In z ch /\ z < nnodes c).
Proof.
  unfold s', build.
  set (l0 := repeat dflt_ns (nnodes c)).
  assert (Hl0 : length l0 = nnodes c) by apply repeat_length.
  assert (Hd0 : forall y, doing (getn l0 y) = [] /\ do_ (getn l0 y) = [])
    by (intros y; unfold l0; rewrite getn_repeat; split; reflexivity).
  destruct (build_fold c ch l0 Hl0 Hd0) as (L & D & T).
  set (s1 := set_ns (set_que s []) (fold_left (build_set c) ch l0)).
  assert (Hl1 : length (ns s1) = nnodes c) by exact L.
  destruct (organize_spec c ch None [] s1 Hl1) as (L2 & T2 & D2 & Q2).
  split; [exact L2|]. split; [|split].
  - intros y t. rewrite T2. unfold s1 at 1. cbn [ns set_ns]. rewrite T.
    unfold l0 at 1. rewrite getn_repeat. cbn [todo dflt_ns In]. unfold tgt_added. cbn [mem existsb In].
    destruct (asp c y); intuition.
  - intros y. destruct (D2 y) as [E1 E2]. rewrite E1, E2. apply D.
  - intros z. rewrite Q2. unfold s1. cbn [que set_ns set_que In]. intuition.
Qed.
End BuildExact.

(* reorder keeps membership *)
Lemma reorder_In hint l x : In x (reorder hint l) <-> In x l.
Proof.
  unfold reorder. rewrite in_app_iff, !filter_In, negb_true_iff. split.
  - intros [[_ H]|[H _]]; [apply mem_In; exact H|exact H].
  - intros H. destruct (mem x hint) eqn:E.
    + left. split; [apply mem_In; exact E|apply mem_In; exact H].
    + right. split; [exact H|reflexivity].
Qed.

(* which algorithms count as changed *)
Lemma owner_In m k x : In x (owner m k) -> In (k, x) m.
Proof.
  unfold owner. destruct (find _ m) as [p|] eqn:F; [|intros []].
  intros [E|[]]. subst x. apply find_some in F. destruct F as [F E]. apply Nat.eqb_eq in E.
  destruct p; cbn in *. subst. exact F.
Qed.

Lemma changed_spec T x :
  In x (changed_of T) <->
  (In x (map fst (cur_alg T)) /\ ~ In (dget x (cur_alg T)) (lget x (per_alg T))) \/
  (exists k, In k (map fst (cur_sv T)) /\ ~ In (dget k (cur_sv T)) (lget k (per_sv T)) /\ In x (owner (own_sv T) k)) \/
  (exists k, In k (map fst (cur_v T)) /\ ~ In (dget k (cur_v T)) (lget k (per_v T)) /\ In x (owner (own_v T) k)).
Proof.
  unfold changed_of. rewrite !in_app_iff, !in_flat_map, diff_spec, diff_test_spec.
  split.
  - intros [H|[[k [H1 H2]]|[k [H1 H2]]]].
    + left. exact H.
    + right. left. exists k. apply diff_spec in H1. rewrite diff_test_spec in H1. tauto.
    + right. right. exists k. apply diff_spec in H1. rewrite diff_test_spec in H1. tauto.
  - intros [H|[[k (A & B & C)]|[k (A & B & C)]]].
    + left. exact H.
    + right. left. exists k. split; [|exact C]. apply diff_spec. rewrite diff_test_spec. tauto.
    + right. right. exists k. split; [|exact C]. apply diff_spec. rewrite diff_test_spec. tauto.
Qed.
