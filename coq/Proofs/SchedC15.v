(* C15, build half: after schedule.build an algorithm is pending for every known
   target (the all-targets marker for analyses) exactly when one of its versions is
   not among the persisted ones, and nothing else is scheduled. *)
From Coq Require Import List Arith ZArith Bool Lia.
From DV Require Import Model.Sched Model.Build Gen.DiffGen Proofs.SchedLib Proofs.SchedOrg Proofs.SchedBuild.
Import ListNotations.

(* ---- the generated _diff ---- *)
Lemma diff_fold curr prev (l : list (nat * nat)) : forall acc k,
  In k (fold_left (fun acc (kv : nat * nat) => let k := fst kv in if diff_test curr prev k then acc ++ [k] else acc) l acc)
  <-> In k acc \/ (In k (map fst l) /\ diff_test curr prev k = true).
Proof.
  induction l as [|kv l IH]; intros acc k; cbn [fold_left map In].
  - intuition.
  - rewrite IH. cbn zeta. destruct (diff_test curr prev (fst kv)) eqn:E.
    + rewrite in_app_iff. cbn [In]. intuition; subst; auto.
    + intuition; subst; congruence.
Qed.

Lemma diff_spec curr prev k :
  In k (diff curr prev) <-> In k (map fst curr) /\ diff_test curr prev k = true.
Proof. unfold diff. rewrite diff_fold. cbn [In]. intuition. Qed.

Lemma mem_nat_In x l : mem_nat x l = true <-> In x l.
Proof.
  unfold mem_nat. rewrite existsb_exists. split.
  - intros [u [Hu E]]. apply Nat.eqb_eq in E. subst. exact Hu.
  - intros H. exists x. split; [exact H|apply Nat.eqb_refl].
Qed.

Lemma count_nat_zero x l : count_nat x l = 0 <-> ~ In x l.
Proof.
  unfold count_nat. induction l as [|a l IH]; cbn [filter]; [cbn; intuition|].
  destruct (x =? a) eqn:E; cbn [length In].
  - apply Nat.eqb_eq in E. subst. split; [discriminate|]. intros H. exfalso. apply H. left. reflexivity.
  - apply Nat.eqb_neq in E. rewrite IH. intuition.
Qed.

Lemma lget_nokey k (d : list (nat * list nat)) : has_key k d = false -> lget k d = [].
Proof.
  unfold has_key, lget. induction d as [|p d IH]; cbn [existsb find]; [reflexivity|].
  destruct (fst p =? k); cbn [orb]; [discriminate|]. exact IH.
Qed.

(* the meaning of the generated test: the current version string of the name is
   not among the persisted ones (an unknown name has no persisted versions) *)
Lemma diff_test_spec curr prev k :
  diff_test curr prev k = true <-> ~ In (dget k curr) (lget k prev).
Proof.
  unfold diff_test. rewrite orb_true_iff, negb_true_iff, Nat.eqb_eq, count_nat_zero. split.
  - intros [H|H]; [rewrite (lget_nokey _ _ H); intros []|exact H].
  - intros H. right. exact H.
Qed.

(* reorder keeps membership *)
Lemma reorder_In hint l x : In x (reorder hint l) <-> In x l.
Proof.
  unfold reorder. rewrite in_app_iff, !filter_In, negb_true_iff. split.
  - intros [[_ H]|[H _]]; [apply mem_In; exact H|exact H].
  - intros H. destruct (mem x hint) eqn:E.
    + left. split; [apply mem_In; exact E|apply mem_In; exact H].
    + right. split; [exact H|reflexivity].
Qed.

(* which algorithms count as changed *)
Lemma owner_In m k x : In x (owner m k) -> In (k, x) m.
Proof.
  unfold owner. destruct (find _ m) as [p|] eqn:F; [|intros []].
  intros [E|[]]. subst x. apply find_some in F. destruct F as [F E]. apply Nat.eqb_eq in E.
  destruct p; cbn in *. subst. exact F.
Qed.

Lemma changed_spec T x :
  In x (changed_of T) <->
  (In x (map fst (cur_alg T)) /\ ~ In (dget x (cur_alg T)) (lget x (per_alg T))) \/
  (exists k, In k (map fst (cur_sv T)) /\ ~ In (dget k (cur_sv T)) (lget k (per_sv T)) /\ In x (owner (own_sv T) k)) \/
  (exists k, In k (map fst (cur_v T)) /\ ~ In (dget k (cur_v T)) (lget k (per_v T)) /\ In x (owner (own_v T) k)).
Proof.
  unfold changed_of. rewrite !in_app_iff, !in_flat_map, diff_spec, diff_test_spec.
  split.
  - intros [H|[[k [H1 H2]]|[k [H1 H2]]]].
    + left. exact H.
    + right. left. exists k. apply diff_spec in H1. rewrite diff_test_spec in H1. tauto.
    + right. right. exists k. apply diff_spec in H1. rewrite diff_test_spec in H1. tauto.
  - intros [H|[[k (A & B & C)]|[k (A & B & C)]]].
    + left. exact H.
    + right. left. exists k. split; [|exact C]. apply diff_spec. rewrite diff_test_spec. tauto.
    + right. right. exists k. split; [|exact C]. apply diff_spec. rewrite diff_test_spec. tauto.
Qed.
