(* C18 x C03/C05 -- lemmas about Model/SchedChron.v: the journal written along a
   scheduler history is the journal of the applied replies, in completion order. *)
From Coq Require Import List Arith ZArith Lia Bool Sorting.Sorted Sorting.Permutation.
From DV Require Import Model.Search Model.Chron Model.Sched Model.SchedChron
     Proofs.ChronProofs Proofs.SchedLib Proofs.SchedC11 Proofs.SchedBatch Proofs.SchedC03 Proofs.SchedExact.
Import ListNotations.
Local Open Scope nat_scope.

(* ================================================================== *)
(* 1. which outputs of a scheduler step reach the journal               *)
(* ================================================================== *)

Definition quiet (o : out) : Prop := match o with OChron _ _ _ _ => False | _ => True end.

Lemma SC_dispatch_quiet c s o : In o (snd (dispatch c s)) -> quiet o.
Proof.
  unfold dispatch. destruct (active s); cbn [negb]; [|intros []].
  destruct (next_job_batch c s) as [s1 rel].
  set (s2 := set_farm s1 (jobs s1 ++ rel) (cluster s1) (busy s1) (workers s1) (inflight s1)).
  set (o0 := if archive s2 && _ then [OArchive] else []).
  destruct (fold_left (put_job c) (jobs s2) (s2, o0)) as [s3 o1] eqn:P.
  apply put_jobs_inv in P. destruct P as (_ & _ & _ & _ & _ & _ & O3).
  destruct (hand_out (cluster_sort (cluster s3)) (workers_sort (workers s3)) (busy s3) (inflight s3) o1)
    as [[[[cl' w'] b'] fl'] o2] eqn:H.
  apply hand_out_spec in H. destruct H as (k & _ & _ & _ & _ & _ & E5).
  assert (Q1 : forall e, In e o1 -> quiet e).
  { intros e He. apply O3 in He. destruct He as [He|He]; [|subst e; exact I].
    unfold o0 in He. destruct (archive s2 && _); [destruct He as [<-|[]]; exact I|contradiction]. }
  assert (Q2 : forall e, In e o2 -> quiet e).
  { intros e He. rewrite E5 in He. apply in_app_or in He. destruct He as [He|He]; [apply Q1; exact He|].
    apply in_map_iff in He. destruct He as [p [<- _]]. exact I. }
  destruct (archive s2 && _); cbn [snd]; intros Ho; apply in_app_or in Ho;
    (destruct Ho as [Ho|Ho]; [apply Q2; exact Ho|apply in_map_iff in Ho; destruct Ho as [p [<- _]]; exact I]).
Qed.

Section Coding.
Variables (tc : tgt -> Z) (kc : node -> Z).

Lemma SC_record_quiet now id outs : (forall o, In o outs -> quiet o) ->
  forall j, record tc kc now id outs j = j.
Proof.
  induction outs as [|o outs IH]; intros Q j; [reflexivity|]. unfold record in *. cbn [fold_left].
  assert (Qo : quiet o) by (apply Q; left; reflexivity).
  destruct o; cbn [record1 quiet] in *; try contradiction; apply IH; intros o' Ho'; apply Q; right; exact Ho'.
Qed.

Lemma SC_step_rep_outs c s w x t r o vs :
  snd (step c s (Rep w x t r o vs)) = snd (res c x t r o vs s).
Proof. cbn [step]. destruct (res c x t r o vs s) as [s' outs]. reflexivity. Qed.

(* one step: the journal receives exactly the entry of an applied reply *)
Lemma SC_step_record c s now id e j :
  record tc kc now id (snd (step c s e)) j
  = fold_left append (if applies s e then reply_entry tc kc now id e else []) j.
Proof.
  destruct e; cbn [applies fold_left];
    try (apply SC_record_quiet; cbn [step snd]; intros o' []).
  - (* Tick *) apply SC_record_quiet. cbn [step]. intros o'. apply SC_dispatch_quiet.
  - (* Rep *) rewrite SC_step_rep_outs. destruct (mem x (que s)) eqn:Hq.
    + destruct (reply_applied c x t r o values s Hq) as [-> _]. reflexivity.
    + rewrite (reply_dropped c x t r o values s Hq). reflexivity.
  - (* Reg *) apply SC_record_quiet. cbn [step]. unfold reg. destruct rev_ok; cbn [snd]; intros o' [<-|[]] || intros o' []; exact I.
  - (* Poll *) apply SC_record_quiet. cbn [step]. unfold poll. destruct (rev_ok && active s); cbn [snd]; intros o' [<-|[]]; exact I.
Qed.

Lemma SC_run_fst_cons c s e es : fst (run c s (e :: es)) = fst (run c (fst (step c s e)) es).
Proof. cbn [run]. destruct (step c s e) as [s1 o]. cbn [fst]. destruct (run c s1 es) as [s2 os]. reflexivity. Qed.

Lemma SC_run_fst_app c es1 : forall s es2,
  fst (run c s (es1 ++ es2)) = fst (run c (fst (run c s es1)) es2).
Proof.
  induction es1 as [|e es1 IH]; intros s es2; [reflexivity|].
  rewrite <- app_comm_cons, !SC_run_fst_cons. apply IH.
Qed.

(* ================================================================== *)
(* 2. the whole history                                                 *)
(* ================================================================== *)

Theorem SC_run_spec c : forall tes s j id,
  sc_run tc kc c (s, j) id tes
  = (fst (run c s (map snd tes)), fold_left append (applied tc kc c s id tes) j).
Proof.
  induction tes as [|te tes IH]; intros s j id; [reflexivity|].
  cbn [sc_run sc_step applied map fst snd]. rewrite IH, SC_run_fst_cons, SC_step_record, fold_left_app.
  reflexivity.
Qed.

Lemma SC_applied_app c : forall l1 s id l2,
  applied tc kc c s id (l1 ++ l2)
  = applied tc kc c s id l1
    ++ applied tc kc c (fst (run c s (map snd l1))) (id + Z.of_nat (length l1))%Z l2.
Proof.
  induction l1 as [|te l1 IH]; intros s id l2.
  - cbn. rewrite Z.add_0_r. reflexivity.
  - cbn [app applied map length]. rewrite IH, SC_run_fst_cons, <- app_assoc.
    replace (id + 1 + Z.of_nat (length l1))%Z with (id + Z.of_nat (S (length l1)))%Z by lia. reflexivity.
Qed.

Lemma SC_reply_entry_id now id e x : In x (reply_entry tc kc now id e) -> e_id x = id.
Proof. destruct e; cbn; try tauto. intros [<-|[]]. reflexivity. Qed.

Lemma SC_applied_range c : forall tes s id x, In x (applied tc kc c s id tes) ->
  (id <= e_id x < id + Z.of_nat (length tes))%Z.
Proof.
  induction tes as [|te tes IH]; intros s id x H; [contradiction|].
  cbn [applied length] in *. apply in_app_or in H. destruct H as [H|H].
  - destruct (applies s (snd te)); [|contradiction]. apply SC_reply_entry_id in H. lia.
  - apply IH in H. lia.
Qed.

Lemma SC_applied_nodup c : forall tes s id, NoDup (map e_id (applied tc kc c s id tes)).
Proof.
  induction tes as [|te tes IH]; intros s id; [constructor|].
  cbn [applied]. rewrite map_app.
  assert (T : forall y, In y (map e_id (applied tc kc c (fst (step c s (snd te))) (id + 1)%Z tes)) -> (id < y)%Z).
  { intros y Hy. apply in_map_iff in Hy. destruct Hy as [x [<- Hx]]. apply SC_applied_range in Hx. lia. }
  destruct (applies s (snd te)); [|apply IH].
  destruct (snd te); cbn [reply_entry map app]; try apply IH.
  constructor; [|apply IH]. cbn [entry_of e_id]. intros Hin. apply T in Hin. lia.
Qed.

(* the journal of a history of appends, file by file, in append order *)
Definition in_file (d r : Z) (e : entry) : bool :=
  ((d =? day_of (e_completed e)) && (r =? e_runid e))%Z.

Lemma SC_lookup_history d r : forall es j,
  lookup (fold_left append es j) d r = lookup j d r ++ filter (in_file d r) es.
Proof.
  induction es as [|e es IH]; intros j; cbn [fold_left filter]; [rewrite app_nil_r; reflexivity|].
  rewrite IH. unfold append. rewrite C_lookup_append_to. unfold in_file.
  destruct ((d =? day_of (e_completed e)) && (r =? e_runid e))%Z; [rewrite <- app_assoc|rewrite app_nil_r]; reflexivity.
Qed.

Lemma SC_nodup_map_inj {A B} (f : A -> B) l a b :
  NoDup (map f l) -> In a l -> In b l -> f a = f b -> a = b.
Proof.
  induction l as [|h l IH]; intros N Ha Hb E; [contradiction|]. cbn [map] in N. inversion N as [|? ? Nh Nl]; subst.
  destruct Ha as [<-|Ha], Hb as [<-|Hb]; [reflexivity| | |apply IH; assumption].
  - exfalso. apply Nh. rewrite E. apply in_map. exact Hb.
  - exfalso. apply Nh. rewrite <- E. apply in_map. exact Ha.
Qed.

(* the event at position |pre| of the history: its id is in the list of applied
   replies iff it is a reply that finds its job *)
Lemma SC_applied_at c (pre : list tev) now e (post : list tev) :
  let s := fst (run c (init c) (map snd pre)) in
  let i := Z.of_nat (length pre) in
  let A := applied tc kc c (init c) 0%Z (pre ++ (now, e) :: post) in
  (applies s e = true -> forall x, In x (reply_entry tc kc now i e) -> In x A) /\
  (applies s e = false -> ~ In i (map e_id A)).
Proof.
  intros s i A. unfold A. rewrite SC_applied_app. cbn [applied fst snd]. fold s. rewrite Z.add_0_l. fold i.
  split.
  - intros Ha x Hx. rewrite Ha. apply in_or_app. right. apply in_or_app. left. exact Hx.
  - intros Ha. rewrite Ha. cbn [app]. rewrite map_app. intros Hin. apply in_app_or in Hin.
    destruct Hin as [Hin|Hin]; apply in_map_iff in Hin; destruct Hin as [x [Ex Hx]];
      apply SC_applied_range in Hx; unfold i in *; lia.
Qed.

(* ================================================================== *)
(* 3. clean histories (Proofs/SchedExact.v): no reply is dropped         *)
(* ================================================================== *)

Fixpoint replies (id : Z) (tes : list tev) : list entry :=
  match tes with
  | [] => []
  | te :: r => reply_entry tc kc (fst te) id (snd te) ++ replies (id + 1)%Z r
  end.

Lemma SC_clean_applied c : forall tes s id,
  Inv c s -> exact s -> single s -> NoDup (que s) -> clean_run c s (map snd tes) ->
  applied tc kc c s id tes = replies id tes /\ dropped c s id tes = [].
Proof.
  induction tes as [|te tes IH]; intros s id I Ex Sg Nq Cr; [split; reflexivity|].
  cbn [map clean_run] in Cr. destruct Cr as [Ce Cr].
  destruct (step_exact c s (snd te) I Ex Sg Nq Ce) as [Ex1 Sg1].
  pose proof (step_Inv c s (snd te) I) as I1. pose proof (step_que_nodup c s (snd te) Nq) as Nq1.
  destruct (IH (fst (step c s (snd te))) (id + 1)%Z I1 Ex1 Sg1 Nq1 Cr) as [IA ID].
  cbn [applied dropped replies]. rewrite IA, ID.
  destruct (snd te) eqn:E; cbn [applies reply_entry app]; try (split; reflexivity).
  destruct (rep_exact c s w x t r o values I Ex Sg Ce) as (_ & _ & R).
  destruct (mem x (que s)) eqn:Hq; [split; reflexivity|].
  rewrite SC_step_rep_outs, (reply_dropped c x t r o values s Hq) in R. discriminate.
Qed.

End Coding.

(* ================================================================== *)
(* 4. sorted lists with distinct keys: the order is determined          *)
(* ================================================================== *)

(* with a strictly increasing clock the newest-first list of find is the
   reverse of the completion order *)
Lemma SC_sorted_perm_eq (l1 : list entry) : forall l2,
  Permutation l1 l2 -> StronglySorted key_ge l1 -> StronglySorted key_ge l2 ->
  (forall x y, In x l1 -> In y l1 -> key_ge x y -> key_ge y x -> x = y) ->
  l1 = l2.
Proof.
  induction l1 as [|a l1 IH]; intros l2 P S1 S2 Anti.
  - apply Permutation_nil in P. symmetry. exact P.
  - destruct l2 as [|b l2]; [apply Permutation_sym, Permutation_nil in P; discriminate|].
    inversion S1 as [|? ? S1' F1]; subst. inversion S2 as [|? ? S2' F2]; subst.
    assert (Eab : a = b).
    { assert (Hb : In b (a :: l1)) by (apply (Permutation_in b (Permutation_sym P)); left; reflexivity).
      assert (Ha : In a (b :: l2)) by (apply (Permutation_in a P); left; reflexivity).
      destruct Hb as [Hb|Hb]; [exact Hb|]. destruct Ha as [Ha|Ha]; [symmetry; exact Ha|].
      apply Anti; [left; reflexivity|right; exact Hb| |].
      - rewrite Forall_forall in F1. apply F1. exact Hb.
      - rewrite Forall_forall in F2. apply F2. exact Ha. }
    subst b. f_equal. apply IH; [apply (Permutation_cons_inv P)|exact S1'|exact S2'|].
    intros x y Hx Hy. apply Anti; right; assumption.
Qed.

Lemma SC_key_lt x y : (e_completed x < e_completed y)%Z -> key_cmp x y = Lt.
Proof.
  intros H. unfold key_cmp, cmp4, cmp_pair, lexc, ekey. cbn [fst snd].
  unfold Z.lt in H. rewrite H. reflexivity.
Qed.

Definition earlier (x y : entry) : Prop := (e_completed x < e_completed y)%Z.

Lemma SC_ss_total {A} (R : A -> A -> Prop) l : StronglySorted R l ->
  forall x y, In x l -> In y l -> x = y \/ R x y \/ R y x.
Proof.
  induction 1 as [|a l S IH F]; intros x y Hx Hy; [contradiction|]. rewrite Forall_forall in F.
  destruct Hx as [<-|Hx], Hy as [<-|Hy]; auto.
Qed.

Lemma SC_ss_filter {A} (R : A -> A -> Prop) f l : StronglySorted R l -> StronglySorted R (filter f l).
Proof.
  induction 1 as [|a l S IH F]; cbn [filter]; [constructor|]. destruct (f a); [|exact IH].
  constructor; [exact IH|]. rewrite Forall_forall in *. intros y Hy. apply filter_In in Hy. apply F. tauto.
Qed.

Lemma SC_ss_rev {A} (R : A -> A -> Prop) l : StronglySorted R l -> StronglySorted (fun x y => R y x) (rev l).
Proof.
  induction 1 as [|a l S IH F]; cbn [rev]; [constructor|]. rewrite Forall_forall in F.
  apply C_ss_app; [exact IH|repeat constructor|].
  intros x y Hx [<-|[]]. apply F. apply in_rev. exact Hx.
Qed.

Lemma SC_ss_impl {A} (R Q : A -> A -> Prop) l : (forall x y, R x y -> Q x y) ->
  StronglySorted R l -> StronglySorted Q l.
Proof.
  intros RQ. induction 1 as [|a l S IH F]; constructor; [exact IH|].
  rewrite Forall_forall in *. intros y Hy. apply RQ, F, Hy.
Qed.

Section Ordered.
Variables (tc : tgt -> Z) (kc : node -> Z).

Lemma SC_applied_clock c : forall (tes : list tev) s id x,
  In x (applied tc kc c s id tes) -> In (e_completed x) (map fst tes).
Proof.
  induction tes as [|te tes IH]; intros s id x H; [contradiction|].
  cbn [applied map] in *. apply in_app_or in H. destruct H as [H|H]; [|right; eapply IH; exact H].
  destruct (applies s (snd te)); [|contradiction].
  destruct (snd te); cbn [reply_entry] in H; try contradiction. destruct H as [<-|[]]. left. reflexivity.
Qed.

(* a strictly increasing clock: the applied replies are in strictly increasing
   completion order *)
Lemma SC_applied_sorted c : forall (tes : list tev) s id,
  StronglySorted Z.lt (map fst tes) -> StronglySorted earlier (applied tc kc c s id tes).
Proof.
  induction tes as [|te tes IH]; intros s id S; [constructor|].
  cbn [map] in S. inversion S as [|? ? S' F]; subst. rewrite Forall_forall in F.
  cbn [applied]. apply C_ss_app; [|apply IH; exact S'|].
  - destruct (applies s (snd te)); [|constructor]. destruct (snd te); cbn [reply_entry]; repeat constructor.
  - intros x y Hx Hy. apply SC_applied_clock in Hy. apply F in Hy.
    destruct (applies s (snd te)); [|contradiction].
    destruct (snd te); cbn [reply_entry] in Hx; try contradiction. destruct Hx as [<-|[]]. exact Hy.
Qed.

(* newest first = the reverse of the completion order *)
Lemma SC_newest_first_rev (A l : list entry) (w : entry -> bool) :
  StronglySorted earlier A ->
  Permutation l (filter w A) -> StronglySorted key_ge l -> l = rev (filter w A).
Proof.
  intros SA P Sl.
  assert (SF : StronglySorted earlier (filter w A)) by (apply SC_ss_filter; exact SA).
  apply SC_sorted_perm_eq.
  - eapply Permutation_trans; [exact P|apply Permutation_rev].
  - exact Sl.
  - apply (SC_ss_impl (fun x y => earlier y x)); [intros x y H; apply C_key_gt; exact H|].
    apply SC_ss_rev. exact SF.
  - intros x y Hx Hy Gxy Gyx.
    assert (Hx' : In x (filter w A)) by (apply (Permutation_in x P); exact Hx).
    assert (Hy' : In y (filter w A)) by (apply (Permutation_in y P); exact Hy).
    destruct (SC_ss_total earlier _ SF x y Hx' Hy') as [E|[L|L]]; [exact E| |].
    + exfalso. apply Gxy. apply SC_key_lt. exact L.
    + exfalso. apply Gyx. apply SC_key_lt. exact L.
Qed.
End Ordered.
