(* When is the scheduler's `doing` bookkeeping exactly the set of units really
   executing (queued for a worker or handed to one)?  Invariant `exact` + single
   flight `single`, preserved by every step of a CLEAN history: replies come for
   units in flight, a failed run does not overlap an executing descendant on the
   same target (the open known finding), rebuilds happen with nothing executing. *)
From Coq Require Import List Arith ZArith Bool Lia Permutation.
From DV Require Import Model.Sched Proofs.SchedLib Proofs.SchedOrg Proofs.SchedBuild Proofs.SchedC05
     Proofs.SchedC02 Proofs.SchedC11 Proofs.SchedBatch Proofs.SchedC04 Proofs.SchedC03.
Import ListNotations.

(* ---- permutations / NoDup of the small list library ---- *)
Lemma ins_lvl_perm c x l : Permutation (ins_lvl c x l) (x :: l).
Proof.
  induction l as [|y l IH]; cbn [ins_lvl]; [reflexivity|].
  destruct (lvl (gi c x) <? lvl (gi c y)); [reflexivity|]. rewrite IH. apply perm_swap.
Qed.

Lemma sort_lvl_perm_aux c l : forall acc,
  Permutation (fold_left (fun a x => ins_lvl c x a) l acc) (l ++ acc).
Proof.
  induction l as [|x l IH]; intros acc; cbn [fold_left app]; [reflexivity|].
  rewrite IH, ins_lvl_perm. symmetry. apply Permutation_middle.
Qed.

Lemma sort_lvl_perm c l : Permutation (sort_lvl c l) l.
Proof. unfold sort_lvl. rewrite sort_lvl_perm_aux, app_nil_r. reflexivity. Qed.

Lemma ins_nat_perm x l : Permutation (ins_nat x l) (x :: l).
Proof.
  induction l as [|y l IH]; cbn [ins_nat]; [reflexivity|].
  destruct (x <? y); [reflexivity|]. rewrite IH. apply perm_swap.
Qed.

Lemma sort_nat_perm_aux l : forall acc,
  Permutation (fold_left (fun a x => ins_nat x a) l acc) (l ++ acc).
Proof.
  induction l as [|x l IH]; intros acc; cbn [fold_left app]; [reflexivity|].
  rewrite IH, ins_nat_perm. symmetry. apply Permutation_middle.
Qed.

Lemma sort_nat_perm l : Permutation (sort_nat l) l.
Proof. unfold sort_nat. rewrite sort_nat_perm_aux, app_nil_r. reflexivity. Qed.

Lemma NoDup_snoc (t : nat) l : NoDup l -> ~ In t l -> NoDup (l ++ [t]).
Proof.
  induction l as [|a l IH]; intros N H; cbn [app]; [constructor; [intros []|constructor]|].
  inversion N as [|? ? Ha Nl]; subst. constructor.
  - intros Hin. apply in_app_or in Hin. destruct Hin as [Hin|[Hin|[]]]; [contradiction|].
    subst. apply H. left. reflexivity.
  - apply IH; [exact Nl|]. intros Hin. apply H. right. exact Hin.
Qed.

Lemma NoDup_add t l : NoDup l -> NoDup (add t l).
Proof.
  intros N. unfold add. destruct (mem t l) eqn:E; [exact N|].
  apply mem_false_In in E. apply NoDup_snoc; assumption.
Qed.

Lemma NoDup_addl ts : forall l, NoDup l -> NoDup (addl ts l).
Proof.
  induction ts as [|t ts IH]; intros l N; cbn [addl fold_left]; [exact N|].
  fold (addl ts (add t l)). apply IH. apply NoDup_add. exact N.
Qed.

Lemma NoDup_rem t l : NoDup l -> NoDup (rem t l).
Proof. intros N. unfold rem. apply NoDup_filter. exact N. Qed.

(* ---- the ghost truth ---- *)
Definition units (s : state) : list (node * tgt) := map msg_unit (cluster s ++ map snd (inflight s)).
Definition exact (s : state) : Prop :=
  forall x t, In t (doing (getn (ns s) x)) <-> In (x, t) (units s).
Definition single (s : state) : Prop := NoDup (units s).

Lemma executing_units s x t : executing s x t <-> In (x, t) (units s).
Proof.
  unfold executing, units. rewrite in_map_iff. split.
  - intros (m & Hm & J & T). exists m. split; [|exact Hm]. unfold msg_unit. congruence.
  - intros (m & E & Hm). exists m. unfold msg_unit in E. inversion E. auto.
Qed.

(* ---- the batch, exactly: what next_job_batch adds to do_ / doing / rel ---- *)
Definition batch_inv (l0 : list nstate) (done : list node) (acc : list nstate * list node) : Prop :=
  let '(l, rel) := acc in
  length l = length l0 /\
  (forall x t, In t (do_ (getn l x)) <-> In t (doing (getn l x)) /\ ~ In t (doing (getn l0 x))) /\
  (forall x t, In t (doing (getn l0 x)) -> In t (doing (getn l x))) /\
  (forall x, NoDup (do_ (getn l x))) /\
  (forall x, In x rel <-> In x done /\ do_ (getn l x) <> []) /\
  (forall x, ~ In x done -> getn l x = getn l0 x) /\
  NoDup rel.


Lemma batch_inv_init l0 : (forall x, do_ (getn l0 x) = []) -> batch_inv l0 [] (l0, []).
Proof.
  intros Hd. unfold batch_inv. split; [reflexivity|]. split; [|split; [auto|split; [|split; [|split; [auto|constructor]]]]].
  - intros x t. rewrite Hd. cbn. tauto.
  - intros x. rewrite Hd. constructor.
  - intros x. cbn. tauto.
Qed.

Lemma release_batch_inv c q l0 done acc x :
  batch_inv l0 done acc -> ~ In x done -> batch_inv l0 (done ++ [x]) (release c q acc x).
Proof.
  destruct acc as [l rel]. unfold batch_inv. intros (Hl & Ha & Hm & Hn & Hr & Hu & Hnd) Nx.
  assert (Ex : getn l x = getn l0 x) by (apply Hu; exact Nx).
  assert (Dx : do_ (getn l x) = []).
  { destruct (do_ (getn l x)) as [|t r] eqn:E; [reflexivity|]. exfalso.
    assert (H : In t (do_ (getn l x))) by (rewrite E; left; reflexivity).
    apply Ha in H. destruct H as [H1 H2]. rewrite Ex in H1. contradiction. }
  unfold release. destruct (todo (getn l x)) as [|t0 td] eqn:Et.
  - (* nothing to do for x *)
    split; [exact Hl|]. split; [exact Ha|]. split; [exact Hm|]. split; [exact Hn|]. split; [|split; [|exact Hnd]].
    + intros y. rewrite Hr, in_app_iff. cbn [In]. split; [tauto|].
      intros [[H|[H|[]]] D]; [tauto|]. subst y. rewrite Dx in D. congruence.
    + intros y Hy. apply Hu. intros H. apply Hy. apply in_or_app. left. exact H.
  - assert (Lx : x < length l).
    { destruct (Nat.lt_ge_cases x (length l)) as [L|L]; [exact L|].
      rewrite (getn_oob _ _ L) in Et. cbn in Et. discriminate. }
    set (av := avail c l q x).
    set (n' := {| todo := filter (fun t => negb (mem t av)) (todo (getn l x));
                  doing := addl av (doing (getn l x)); do_ := addl av (do_ (getn l x));
                  stat := stat (getn l x); rid := rid (getn l x) |}).
    rewrite <- Et. fold av. fold n'.
    assert (G : forall y, getn (setn l x n') y = if Nat.eqb x y then n' else getn l y).
    { intros y. rewrite getn_setn. destruct (Nat.eqb x y); cbn [andb]; [|reflexivity].
      assert (x <? length l = true) as -> by (apply Nat.ltb_lt; exact Lx). reflexivity. }
    assert (Av : forall t, In t av -> ~ In t (doing (getn l x))) by (intros t H; apply (avail_sub c l q x t H)).
    split; [rewrite setn_length; exact Hl|]. split; [|split; [|split; [|split; [|split]]]].
    + intros y t. rewrite G. destruct (Nat.eqb x y) eqn:E; [|apply Ha].
      apply Nat.eqb_eq in E. subst y. cbn [do_ doing n']. rewrite !In_addl, Dx. cbn [In]. split.
      * intros [H|[]]. split; [left; exact H|]. intros H0. apply (Av t H). apply Hm. exact H0.
      * intros [[H|H] H0]; [left; exact H|]. exfalso. rewrite Ex in H. contradiction.
    + intros y t H. rewrite G. destruct (Nat.eqb x y) eqn:E; [|apply Hm; exact H].
      apply Nat.eqb_eq in E. subst y. cbn [doing n']. apply In_addl. right. apply Hm. exact H.
    + intros y. rewrite G. destruct (Nat.eqb x y) eqn:E; [|apply Hn].
      cbn [do_ n']. apply NoDup_addl. apply Hn.
    + intros y. rewrite G.
      assert (R : In y (match av with [] => rel | _ :: _ => rel ++ [x] end) <-> In y rel \/ (y = x /\ av <> [])).
      { destruct av as [|a av0]; [intuition congruence|]. rewrite in_app_iff. cbn [In].
        split; [intros [H|[H|[]]]; [tauto|right; split; [auto|discriminate]] | intros [H|[H _]]; [tauto|right; left; auto]]. }
      rewrite R, Hr, in_app_iff. cbn [In]. destruct (Nat.eqb x y) eqn:E.
      * apply Nat.eqb_eq in E. subst y. cbn [do_ n']. rewrite Dx. split.
        -- intros [[H _]|[_ H]]; [contradiction|]. split; [right; left; reflexivity|].
           destruct av as [|a av0]; [congruence|]. intros E0.
           assert (H0 : In a (@nil tgt)); [rewrite <- E0; apply In_addl; left; left; reflexivity|contradiction].
        -- intros [_ H]. right. split; [reflexivity|]. intros E0. apply H. rewrite E0. reflexivity.
      * apply Nat.eqb_neq in E. split.
        -- intros [[H D]|[H _]]; [tauto|congruence].
        -- intros [[H|[H|[]]] D]; [left; tauto|congruence].
    + intros y Hy. rewrite G. destruct (Nat.eqb x y) eqn:E.
      * apply Nat.eqb_eq in E. subst y. exfalso. apply Hy. apply in_or_app. right. left. reflexivity.
      * apply Hu. intros H. apply Hy. apply in_or_app. left. exact H.
    + destruct av as [|a av0]; [exact Hnd|]. apply NoDup_snoc; [exact Hnd|].
      intros H. apply Hr in H. tauto.
Qed.

Lemma fold_batch_inv c q l0 xs : forall done acc, NoDup xs -> (forall x, In x xs -> ~ In x done) ->
  batch_inv l0 done acc -> batch_inv l0 (done ++ xs) (fold_left (release c q) xs acc).
Proof.
  induction xs as [|x xs IH]; intros done acc N D B; cbn [fold_left]; [rewrite app_nil_r; exact B|].
  inversion N as [|? ? Nx Nxs]; subst.
  replace (done ++ x :: xs) with ((done ++ [x]) ++ xs) by (rewrite <- app_assoc; reflexivity).
  apply IH; [exact Nxs| |apply release_batch_inv; [exact B|apply D; left; reflexivity]].
  intros y Hy H. apply in_app_or in H. destruct H as [H|[H|[]]].
  - apply (D y); [right; exact Hy|exact H].
  - subst y. contradiction.
Qed.

(* ---- the messages one dispatch makes, exactly ---- *)
Definition tgts (c : cfg) (n : nstate) (x : node) : list tgt :=
  match gfac (gi c x) with Analysis => [ALL] | _ => sort_nat (do_ n) end.

Lemma put_job_units c s o x :
  map msg_unit (cluster (fst (put_job c (s, o) x))) =
  map msg_unit (cluster s) ++ map (pair x) (tgts c (getn (ns s) x) x).
Proof.
  unfold put_job, tgts. destruct (rid (getn (ns s) x)); cbn [fst cluster set_farm set_ns];
  rewrite map_app; f_equal; destruct (gfac (gi c x)); cbn [map]; try reflexivity;
  rewrite map_map; reflexivity.
Qed.

Lemma put_job_other c s o x y : y <> x -> getn (ns (fst (put_job c (s, o) x))) y = getn (ns s) y.
Proof.
  intros N. unfold put_job. destruct (rid (getn (ns s) x)); cbn [fst ns set_farm set_ns];
  apply getn_setn_other; congruence.
Qed.

Lemma flat_map_ext_in {A B} (f g : A -> list B) l :
  (forall a, In a l -> f a = g a) -> flat_map f l = flat_map g l.
Proof.
  induction l as [|a l IH]; intros H; cbn [flat_map]; [reflexivity|].
  rewrite (H a (or_introl eq_refl)), IH; [reflexivity|]. intros b Hb. apply H. right. exact Hb.
Qed.

Lemma put_jobs_units c js : forall s o, NoDup js ->
  map msg_unit (cluster (fst (fold_left (put_job c) js (s, o)))) =
  map msg_unit (cluster s) ++ flat_map (fun x => map (pair x) (tgts c (getn (ns s) x) x)) js.
Proof.
  induction js as [|x js IH]; intros s o N; cbn [fold_left flat_map]; [rewrite app_nil_r; reflexivity|].
  inversion N as [|? ? Nx Njs]; subst.
  destruct (put_job c (s, o) x) as [s1 o1] eqn:P.
  assert (U1 : map msg_unit (cluster s1) = map msg_unit (cluster s) ++ map (pair x) (tgts c (getn (ns s) x) x)).
  { pose proof (put_job_units c s o x) as U. rewrite P in U. exact U. }
  rewrite (IH s1 o1 Njs), U1, <- app_assoc. f_equal. f_equal.
  apply flat_map_ext_in. intros y Hy.
  assert (E : getn (ns s1) y = getn (ns s) y).
  { pose proof (put_job_other c s o x y) as O. rewrite P in O. apply O. intros E. subst. contradiction. }
  rewrite E. reflexivity.
Qed.


Lemma njb_facts c s : (forall x, do_ (getn (ns s) x) = []) -> NoDup (que s) ->
  let s1 := fst (next_job_batch c s) in
  let rel := snd (next_job_batch c s) in
  NoDup rel /\
  (forall x t, In t (do_ (getn (ns s1) x)) <->
               In t (doing (getn (ns s1) x)) /\ ~ In t (doing (getn (ns s) x))) /\
  (forall x t, In t (doing (getn (ns s) x)) -> In t (doing (getn (ns s1) x))) /\
  (forall x, NoDup (do_ (getn (ns s1) x))) /\
  (forall x, In x rel <-> In x (que s) /\ do_ (getn (ns s1) x) <> []) /\
  length (ns s1) = length (ns s).
Proof.
  intros Hd Nq. cbn zeta. unfold next_job_batch. destruct (paused s).
  - cbn [fst snd]. split; [constructor|]. split; [intros x t; rewrite Hd; cbn; tauto|].
    split; [auto|]. split; [intros x; rewrite Hd; constructor|]. split; [|reflexivity].
    intros x. rewrite Hd. cbn. intuition congruence.
  - pose proof (fold_batch_inv c (que s) (ns s) (que s) [] (ns s, []) Nq (fun _ _ H => H)
                  (batch_inv_init (ns s) Hd)) as B.
    destruct (fold_left (release c (que s)) (que s) (ns s, [])) as [l rel0]. cbn [fst snd ns set_ns app] in *.
    destruct B as (Hl & Ha & Hm & Hn & Hr & _ & Hnd).
    split; [apply (Permutation_NoDup (Permutation_sym (sort_lvl_perm c rel0))); exact Hnd|].
    split; [exact Ha|]. split; [exact Hm|]. split; [exact Hn|]. split; [|exact Hl].
    intros x. rewrite In_sort_lvl. apply Hr.
Qed.

Lemma map_snd_combine {A B} (l1 : list A) (l2 : list B) :
  length l1 = length l2 -> map snd (combine l1 l2) = l2.
Proof.
  revert l2. induction l1 as [|a l1 IH]; intros [|b l2] L; cbn in *; try lia; [reflexivity|].
  f_equal. apply IH. lia.
Qed.

Lemma In_flat_pair (f : node -> list tgt) l x t :
  In (x, t) (flat_map (fun y => map (pair y) (f y)) l) <-> In x l /\ In t (f x).
Proof.
  rewrite in_flat_map. split.
  - intros (y & Hy & H). apply in_map_iff in H. destruct H as (u & E & Hu). inversion E; subst. tauto.
  - intros [Hx Ht]. exists x. split; [exact Hx|]. apply in_map. exact Ht.
Qed.

Lemma NoDup_app_intro {A} (l1 l2 : list A) :
  NoDup l1 -> NoDup l2 -> (forall x, In x l1 -> ~ In x l2) -> NoDup (l1 ++ l2).
Proof.
  induction l1 as [|a l1 IH]; intros N1 N2 D; cbn [app]; [exact N2|].
  inversion N1 as [|? ? Na Nl]; subst. constructor.
  - intros H. apply in_app_or in H. destruct H as [H|H]; [contradiction|]. apply (D a); [left; reflexivity|exact H].
  - apply IH; [exact Nl|exact N2|]. intros x Hx. apply D. right. exact Hx.
Qed.

Lemma NoDup_flat_pair (f : node -> list tgt) l :
  NoDup l -> (forall y, In y l -> NoDup (f y)) -> NoDup (flat_map (fun y => map (pair y) (f y)) l).
Proof.
  induction l as [|a l IH]; intros N F; cbn [flat_map]; [constructor|].
  inversion N as [|? ? Na Nl]; subst. apply NoDup_app_intro.
  - apply FinFun.Injective_map_NoDup; [intros u v E; inversion E; reflexivity|]. apply F. left. reflexivity.
  - apply IH; [exact Nl|intros y Hy; apply F; right; exact Hy].
  - intros [y u] H1 H2. apply in_map_iff in H1. destruct H1 as (u0 & E & _). inversion E; subst.
    apply In_flat_pair in H2. destruct H2 as [H2 _]. contradiction.
Qed.

(* ---- units through one dispatch ---- *)
Lemma dispatch_units c s : active s = true -> I_do s -> NoDup (que s) ->
  Permutation (units (fst (dispatch c s)))
    (units s ++ flat_map (fun x => map (pair x) (tgts c (getn (ns (fst (next_job_batch c s))) x) x))
                         (snd (next_job_batch c s))).
Proof.
  intros A [Hj Hd] Nq. destruct (njb_facts c s Hd Nq) as (Nr & _).
  unfold dispatch. rewrite A. cbn [negb].
  destruct (next_job_batch c s) as [s1 rel] eqn:N. cbn [fst snd] in *.
  destruct (njb_farm _ _ _ _ N) as (W1 & F1 & B1 & C1 & J1 & A1 & S1 & R1).
  set (s2 := set_farm s1 (jobs s1 ++ rel) (cluster s1) (busy s1) (workers s1) (inflight s1)).
  set (o0 := if archive s2 && _ then [OArchive] else []).
  pose proof (put_jobs_units c (jobs s2) s2 o0) as PU.
  pose proof (put_jobs_inv c (jobs s2) s2 o0) as PI.
  destruct (fold_left (put_job c) (jobs s2) (s2, o0)) as [s3 o1] eqn:P. cbn [fst] in PU.
  destruct (PI s3 o1 eq_refl) as (W3 & F3 & _).
  assert (Js : jobs s2 = rel) by (unfold s2; cbn [jobs set_farm]; rewrite J1, Hj; reflexivity).
  rewrite Js in PU. specialize (PU Nr).
  destruct (hand_out (cluster_sort (cluster s3)) (workers_sort (workers s3)) (busy s3) (inflight s3) o1)
    as [[[[cl' w'] b'] fl'] o2] eqn:H.
  apply hand_out_spec in H. destruct H as (k & Hk & E1 & E2 & E3 & E4 & E5).
  unfold units.
  match goal with |- context [fst (if ?b then ?X else ?Y)] =>
    replace (cluster (fst (if b then X else Y))) with cl' by (destruct b; reflexivity);
    replace (inflight (fst (if b then X else Y))) with fl' by (destruct b; reflexivity);
    replace (ns (fst (if b then X else Y))) with (ns s3) by (destruct b; reflexivity) end.
  rewrite E1, E3.
  assert (Fs : inflight s3 = inflight s) by (rewrite F3; unfold s2; cbn; exact F1).
  rewrite Fs. rewrite (map_app snd (inflight s)).
  rewrite (map_snd_combine (map fst (firstn k (workers_sort (workers s3)))) (firstn k (cluster_sort (cluster s3))))
    by (rewrite map_length, !firstn_length; lia).
  (* skipn k cls ++ inflight ++ firstn k cls  ~  cls ++ inflight *)
  set (cls := cluster_sort (cluster s3)).
  assert (P1 : Permutation (skipn k cls ++ map snd (inflight s) ++ firstn k cls) (cls ++ map snd (inflight s))).
  { rewrite <- (firstn_skipn k cls) at 3. rewrite <- app_assoc.
    rewrite (Permutation_app_comm (skipn k cls) (map snd (inflight s) ++ firstn k cls)).
    rewrite <- app_assoc. rewrite (Permutation_app_comm (map snd (inflight s)) (firstn k cls ++ skipn k cls)).
    rewrite <- app_assoc. reflexivity. }
  rewrite (Permutation_map msg_unit P1). unfold cls.
  rewrite (Permutation_map msg_unit (Permutation_app_tail (map snd (inflight s)) (cluster_sort_perm (cluster s3)))).
  rewrite !map_app. rewrite PU. unfold s2 at 1. cbn [cluster set_farm]. rewrite C1.
  unfold s2. cbn [ns set_farm].
  rewrite <- !app_assoc. apply Permutation_app_head. apply Permutation_app_comm.
Qed.

Lemma tick_exact c s : Inv c s -> exact s -> single s -> NoDup (que s) -> active s = true ->
  exact (fst (dispatch c s)) /\ single (fst (dispatch c s)).
Proof.
  intros (Hl & Iq & [Hj Hd] & Ia) Ex Sg Nq A.
  pose proof (dispatch_units c s A (conj Hj Hd) Nq) as PU.
  destruct (njb_facts c s Hd Nq) as (Nr & Fa & Fm & Fn & Fr & _).
  pose proof (dispatch_I_aspd c s Ia) as Ia'.
  set (s1 := fst (next_job_batch c s)) in *. set (rel := snd (next_job_batch c s)) in *.
  set (NEW := flat_map (fun x => map (pair x) (tgts c (getn (ns s1) x) x)) rel) in *.
  assert (Dd : forall x, doing (getn (ns (fst (dispatch c s))) x) = doing (getn (ns s1) x))
    by (intros x; apply (dispatch_todo c s x A)).
  (* ALL is in do_ of every released analysis *)
  assert (AllIn : forall x, In x rel -> gfac (gi c x) = Analysis -> In ALL (do_ (getn (ns s1) x))).
  { intros x Hx G. apply Fr in Hx. destruct Hx as [_ Hx]. apply nonempty_In in Hx. destruct Hx as [u Hu].
    assert (u = ALL).
    { apply (Ia' x u); [unfold asp; rewrite G; reflexivity|]. right. rewrite Dd. apply Fa in Hu. tauto. }
    subst u. exact Hu. }
  (* membership in NEW *)
  assert (InNew : forall x t, In (x, t) NEW <-> In x rel /\ In t (do_ (getn (ns s1) x))).
  { intros x t. unfold NEW. rewrite In_flat_pair. unfold tgts. split.
    - intros [Hx Ht]. split; [exact Hx|]. destruct (gfac (gi c x)) eqn:G.
      + apply In_sort_nat. exact Ht.
      + destruct Ht as [Ht|[]]. subst t. apply AllIn; assumption.
      + apply In_sort_nat. exact Ht.
    - intros [Hx Ht]. split; [exact Hx|]. destruct (gfac (gi c x)) eqn:G.
      + apply In_sort_nat. exact Ht.
      + left. symmetry. apply (Ia' x t); [unfold asp; rewrite G; reflexivity|]. right. rewrite Dd. apply Fa in Ht. tauto.
      + apply In_sort_nat. exact Ht. }
  split.
  - (* exact *)
    intros x t. rewrite Dd. split.
    + intros H. apply (Permutation_in _ (Permutation_sym PU)). apply in_or_app.
      destruct (in_dec Nat.eq_dec t (doing (getn (ns s) x))) as [Hd0|Hd0].
      * left. apply Ex. exact Hd0.
      * right. apply InNew. assert (Hdo : In t (do_ (getn (ns s1) x))) by (apply Fa; tauto).
        split; [|exact Hdo]. apply Fr. split.
        -- apply Iq. destruct (in_dec Nat.eq_dec t (todo (getn (ns s) x))) as [Ht|Ht].
           ++ left. intros E. rewrite E in Ht. contradiction.
           ++ (* t came from todo: doing only gains from todo *)
              exfalso. destruct (njb_pending c s x) as [_ Bk].
              assert (Pn : pend (ns s1) x t = true) by (unfold pend; apply orb_true_iff; right; apply mem_In; exact H).
              unfold s1 in Pn. rewrite njb_pend in Pn. unfold pend in Pn. apply orb_true_iff in Pn.
              rewrite !mem_In in Pn. tauto.
        -- intros E. rewrite E in Hdo. contradiction.
    + intros H. apply (Permutation_in _ PU) in H. apply in_app_or in H. destruct H as [H|H].
      * apply Fm. apply Ex. exact H.
      * apply InNew in H. destruct H as [_ H]. apply Fa in H. tauto.
  - (* single *)
    unfold single. apply (Permutation_NoDup (Permutation_sym PU)). apply NoDup_app_intro.
    + exact Sg.
    + unfold NEW. apply NoDup_flat_pair; [exact Nr|]. intros y Hy. unfold tgts.
      destruct (gfac (gi c y)).
      * apply (Permutation_NoDup (Permutation_sym (sort_nat_perm _))). apply Fn.
      * constructor; [intros []|constructor].
      * apply (Permutation_NoDup (Permutation_sym (sort_nat_perm _))). apply Fn.
    + intros [x t] H1 H2. apply InNew in H2. destruct H2 as [_ H2]. apply Fa in H2.
      destruct H2 as [_ H2]. apply H2. apply Ex. exact H1.
Qed.

(* ---- NoDup (que s) is an invariant ---- *)
Lemma organize_que_nodup c names r tg s : NoDup (que s) -> NoDup (que (organize c names r tg s)).
Proof.
  intros N. unfold organize. cbn [que set_que].
  apply (Permutation_NoDup (Permutation_sym (sort_lvl_perm c _))).
  revert s N. induction names as [|x names IH]; intros s N; cbn [fold_left]; [exact N|].
  apply IH. unfold organize1. destruct (nnodes c <=? x); [exact N|]. cbn [que set_que]. apply NoDup_add. exact N.
Qed.

Lemma complete_que_nodup c x t s : NoDup (que s) -> NoDup (que (complete c x t s)).
Proof.
  intros N. unfold complete. cbn zeta.
  destruct (todo (getn (ns s) x)); destruct (if t =? ALL then [] else rem t (doing (getn (ns s) x)));
  cbn [que set_que set_ns]; try exact N. apply NoDup_rem. exact N.
Qed.

Lemma step_que_nodup c s e : NoDup (que s) -> NoDup (que (fst (step c s e))).
Proof.
  intros N. destruct e; cbn [step].
  - cbn [fst]. apply organize_que_nodup. exact N.
  - rewrite dispatch_que. exact N.
  - assert (R : NoDup (que (fst (res c x t r o values s)))).
    { unfold res. destruct (mem x (que _)); [|exact N].
      set (s1 := set_busy s _). assert (N1 : NoDup (que s1)) by exact N.
      pose proof (complete_que_nodup c x t s1 N1) as N2.
      destruct o; cbn [fst].
      - unfold update. destruct values; [exact N2|]. apply organize_que_nodup. exact N2.
      - unfold purge. cbn [que set_ns]. exact N2.
      - unfold purge. cbn [que set_ns]. exact N2. }
    destruct (res c x t r o values s) as [s' outs]. cbn [fst que set_farm] in *. exact R.
  - unfold reg. destruct rev_ok; exact N.
  - unfold poll. destruct (rev_ok && active s); exact N.
  - exact N.
  - exact N.
  - exact N.
  - exact N.
  - cbn [fst]. unfold build. apply organize_que_nodup. cbn [que set_ns set_que]. constructor.
Qed.

(* ---- clean steps ---- *)
Definition clean (c : cfg) (s : state) (e : ev) : Prop :=
  match e with
  | Rep w x t r o vs =>
      (exists m, In (w, m) (inflight s) /\ msg_unit m = (x, t)) /\
      (o <> Success -> forall y, y <> x -> mem y (descend c (nnodes c) x) = true -> ~ In (y, t) (units s)) /\
      (t = ALL -> asp c x = true)
  | Build _ => units s = []
  | _ => True
  end.

Lemma units_farm s s' : cluster s' = cluster s -> inflight s' = inflight s -> units s' = units s.
Proof. intros C F. unfold units. rewrite C, F. reflexivity. Qed.

Lemma NoDup_app_r {A} (l1 l2 : list A) : NoDup (l1 ++ l2) -> NoDup l2.
Proof.
  induction l1 as [|a l1 IH]; cbn [app]; [auto|]. intros N. inversion N; subst. apply IH. assumption.
Qed.

Lemma filter_all_true {A} (f : A -> bool) l : (forall a, In a l -> f a = true) -> filter f l = l.
Proof.
  induction l as [|a l IH]; intros H; cbn [filter]; [reflexivity|].
  rewrite (H a (or_introl eq_refl)), IH; [reflexivity|]. intros b Hb. apply H. right. exact Hb.
Qed.

Lemma filter_units_rep w x t (s : state) : single s ->
  (exists m, In (w, m) (inflight s) /\ msg_unit m = (x, t)) ->
  map msg_unit (cluster s ++ map snd (rm_inflight w x t (inflight s))) =
  filter (fun u => negb (unit_eqb u (x, t))) (units s).
Proof.
  intros Sg (m & Hm & Um). unfold units, single, units in *.
  rewrite !map_app, filter_app in *. f_equal.
  - (* nothing in the cluster carries the unit: it is in flight and units are unique *)
    symmetry. apply filter_all_true. intros u Hu. apply negb_true_iff.
    apply not_true_iff_false. intros E. apply unit_eqb_eq in E. subst u.
    pose proof (NoDup_app_r _ _ Sg) as Sg2. 
    assert (In (x, t) (map msg_unit (map snd (inflight s)))).
    { apply in_map_iff. exists m. split; [exact Um|]. apply in_map_iff. exists (w, m). tauto. }
    clear Sg2. revert Sg H Hu. generalize (map msg_unit (cluster s)), (map msg_unit (map snd (inflight s))).
    intros l1 l2 N H2 H1. induction l1 as [|a l1 IH]; [contradiction|]. cbn [app] in N.
    inversion N as [|? ? Na Nl]; subst. destruct H1 as [H1|H1].
    + subst a. apply Na. apply in_or_app. right. exact H2.
    + apply IH; assumption.
  - (* in flight: the entries removed are exactly those carrying the unit *)
    unfold rm_inflight. rewrite !filter_map_comm. f_equal. f_equal.
    apply filter_ext_in. intros p Hp. cbn beta. unfold wid, node, tgt in *.
    destruct (unit_eqb (msg_unit (snd p)) (x, t)) eqn:U; [|rewrite andb_false_r; reflexivity].
    apply unit_eqb_eq in U. rewrite andb_true_r.
    (* p and (w,m) carry the same unit; units are unique => same entry *)
    assert (E : p = (w, m)).
    { apply NoDup_app_r in Sg. clear - Sg Hp Hm U Um.
      induction (inflight s) as [|q l IH]; [contradiction|]. cbn [map] in Sg.
      inversion Sg as [|? ? Nq Nl]; subst.
      destruct Hp as [Hp|Hp], Hm as [Hm|Hm].
      - congruence.
      - subst q. exfalso. apply Nq. rewrite U, <- Um. apply in_map_iff. exists m. split; [reflexivity|].
        apply in_map_iff. exists (w, m). tauto.
      - subst q. exfalso. apply Nq. cbn [snd]. rewrite Um, <- U. apply in_map_iff. exists (snd p). split; [reflexivity|].
        apply in_map. exact Hp.
      - apply IH; assumption. }
    subst p. cbn [fst]. rewrite Nat.eqb_refl. reflexivity.
Qed.

(* ---- a reply for a unit in flight (clean) ---- *)
Lemma res_ns_doing c x t r o vs s y : mem x (que s) = true -> length (ns s) = nnodes c ->
  doing (getn (ns (fst (res c x t r o vs s))) y) =
  let d0 := if Nat.eqb x y && (x <? length (ns s))
            then (if Nat.eqb t ALL then [] else rem t (doing (getn (ns s) x)))
            else doing (getn (ns s) y) in
  match o with
  | Success => d0
  | _ => if mem y (descend c (nnodes c) x) then rem t d0 else d0
  end.
Proof.
  intros Hq Hl. destruct o.
  - destruct (reply_applied c x t r Success vs s Hq) as [_ E]. rewrite E. cbn zeta.
    set (s1 := set_busy s _).
    assert (L2 : length (ns (complete c x t s1)) = nnodes c)
      by (rewrite ns_complete; unfold s1; cbn [ns set_busy]; rewrite setn_length; exact Hl).
    assert (D : doing (getn (ns (update c vs x r (set_archive (complete c x t s1)
                 (archive (complete c x t s1) || match vs with [] => false | _ :: _ => true end)))) y)
                = doing (getn (ns (complete c x t s1)) y)).
    { unfold update. destruct vs; [reflexivity|].
      match goal with |- context [organize c ?nm ?rr ?tg ?st] =>
        destruct (organize_spec c nm rr tg st) as (_ & _ & Dd & _); [exact L2|] end.
      destruct (Dd y) as [D1 _]. exact D1. }
    rewrite D, ns_complete. unfold s1. cbn [ns set_busy]. rewrite getn_setn.
    destruct (Nat.eqb x y && _); reflexivity.
  - rewrite (ns_res_failed c x t r Failure vs s ltac:(discriminate) Hq). cbn zeta.
    destruct (mem y (descend c (nnodes c) x)); destruct (Nat.eqb x y && _); reflexivity.
  - rewrite (ns_res_failed c x t r Invalid vs s ltac:(discriminate) Hq). cbn zeta.
    destruct (mem y (descend c (nnodes c) x)); destruct (Nat.eqb x y && _); reflexivity.
Qed.

Lemma rep_exact c s w x t r o vs : Inv c s -> exact s -> single s ->
  clean c s (Rep w x t r o vs) ->
  let s' := fst (step c s (Rep w x t r o vs)) in
  exact s' /\ single s' /\ snd (step c s (Rep w x t r o vs)) = [OChron x t r o].
Proof.
  intros (Hl & Iq & Id & Ia) Ex Sg (Hw & Hov & Hall). cbn zeta. unfold exact in Ex.
  destruct Hw as (m & Hm & Um).
  assert (Hu : In (x, t) (units s)).
  { unfold units. apply in_map_iff. exists m. split; [exact Um|]. apply in_or_app. right.
    apply in_map_iff. exists (w, m). tauto. }
  assert (Hd : In t (doing (getn (ns s) x))) by (apply Ex; exact Hu).
  assert (Hq : mem x (que s) = true).
  { apply mem_In. apply Iq. right. intros E. rewrite E in Hd. contradiction. }
  assert (Lx : x < length (ns s)).
  { destruct (Nat.lt_ge_cases x (length (ns s))) as [L|L]; [exact L|].
    rewrite (getn_oob _ _ L) in Hd. contradiction. }
  cbn [step]. pose proof (res_busy c x t r o vs s) as [_ Fl]. pose proof (res_cluster c x t r o vs s) as [Cl _].
  pose proof (res_ns_doing c x t r o vs s) as Dg. destruct (reply_applied c x t r o vs s Hq) as [Out _].
  destruct (res c x t r o vs s) as [s' outs]. cbn [fst snd] in *.
  assert (U' : units (set_farm s' (jobs s') (cluster s') (busy s') (workers s') (rm_inflight w x t (inflight s')))
               = filter (fun u => negb (unit_eqb u (x, t))) (units s)).
  { unfold units at 1. cbn [cluster inflight set_farm]. rewrite Cl, Fl.
    apply filter_units_rep; [exact Sg|]. exists m. tauto. }
  split; [|split; [|exact Out]].
  - intros y u. cbn [ns set_farm]. rewrite U', filter_In, negb_true_iff, (Dg y Hq Hl). cbn zeta.
    assert (Lb : (x <? length (ns s)) = true) by (apply Nat.ltb_lt; exact Lx). rewrite Lb, andb_true_r.
    (* d0 *)
    assert (D0 : forall v, In v (if Nat.eqb x y then (if Nat.eqb t ALL then [] else rem t (doing (getn (ns s) x)))
                                else doing (getn (ns s) y)) <->
                           In (y, v) (units s) /\ unit_eqb (y, v) (x, t) = false).
    { intros v. destruct (Nat.eqb x y) eqn:E.
      - apply Nat.eqb_eq in E. subst y. destruct (Nat.eqb t ALL) eqn:Et.
        + apply Nat.eqb_eq in Et. split; [intros []|]. intros [Hv Nv]. exfalso.
          assert (v = ALL).
          { apply (Ia x v (Hall Et)). right. apply Ex. exact Hv. }
          subst v t. unfold unit_eqb in Nv. cbn [fst snd] in Nv. rewrite !Nat.eqb_refl in Nv. discriminate.
        + rewrite In_rem, Ex. unfold unit_eqb. cbn [fst snd]. rewrite Nat.eqb_refl. cbn [andb].
          rewrite Nat.eqb_neq. reflexivity.
      - rewrite Ex. unfold unit_eqb. cbn [fst snd]. rewrite (Nat.eqb_sym y x), E. cbn [andb]. tauto. }
    destruct o; [apply D0| |].
    + destruct (mem y (descend c (nnodes c) x)) eqn:Dy; [|apply D0].
      rewrite In_rem, D0. split; [tauto|]. intros [Hv Nv]. split; [tauto|].
      intros Eu. subst u. destruct (Nat.eq_dec y x) as [->|Nyx].
      * unfold unit_eqb in Nv. cbn [fst snd] in Nv. rewrite !Nat.eqb_refl in Nv. discriminate.
      * apply (Hov ltac:(discriminate) y Nyx Dy). exact Hv.
    + destruct (mem y (descend c (nnodes c) x)) eqn:Dy; [|apply D0].
      rewrite In_rem, D0. split; [tauto|]. intros [Hv Nv]. split; [tauto|].
      intros Eu. subst u. destruct (Nat.eq_dec y x) as [->|Nyx].
      * unfold unit_eqb in Nv. cbn [fst snd] in Nv. rewrite !Nat.eqb_refl in Nv. discriminate.
      * apply (Hov ltac:(discriminate) y Nyx Dy). exact Hv.
  - unfold single. rewrite U'. apply NoDup_filter. exact Sg.
Qed.

(* ---- all the other events ---- *)
Lemma step_exact c s e : Inv c s -> exact s -> single s -> NoDup (que s) -> clean c s e ->
  exact (fst (step c s e)) /\ single (fst (step c s e)).
Proof.
  intros I Ex Sg Nq Cl. destruct e.
  - (* Org *)
    destruct I as (Hl & _). cbn [step fst].
    destruct (organize_spec c names r tg s Hl) as (_ & _ & D & _).
    destruct (organize_farm c names r tg s) as (C & _ & _ & F & _).
    pose proof (units_farm s (organize c names r tg s) C F) as U. split.
    + intros x t. destruct (D x) as [D1 _]. rewrite D1, U. apply Ex.
    + unfold single. rewrite U. exact Sg.
  - (* Tick *)
    cbn [step]. destruct (active s) eqn:A; [apply tick_exact; assumption|].
    rewrite dispatch_inactive by exact A. split; assumption.
  - destruct (rep_exact c s w x t r o values I Ex Sg Cl) as (E & S & _). split; assumption.
  - cbn [step]. unfold reg. destruct rev_ok; cbn [fst]; split; assumption.
  - cbn [step]. unfold poll. destruct (rev_ok && active s); cbn [fst]; split; assumption.
  - cbn [step fst]. split; assumption.
  - cbn [step fst]. split; assumption.
  - cbn [step fst]. split; assumption.
  - cbn [step fst]. split; assumption.
  - (* Build with nothing executing *)
    cbn [clean] in Cl. cbn [step fst].
    destruct (build_farm c changed s) as (C & _ & _ & F & _).
    pose proof (units_farm s (build c changed s) C F) as U. split.
    + intros x t. rewrite U, Cl. destruct (build_exact c changed s) as (_ & _ & D & _).
      destruct (D x) as [D1 _]. rewrite D1. cbn. tauto.
    + unfold single. rewrite U, Cl. constructor.
Qed.

(* ---- clean histories ---- *)
Fixpoint clean_run (c : cfg) (s : state) (es : list ev) : Prop :=
  match es with
  | [] => True
  | e :: r => clean c s e /\ clean_run c (fst (step c s e)) r
  end.

Lemma run_exact c es : forall s, Inv c s -> exact s -> single s -> NoDup (que s) -> clean_run c s es ->
  let s' := fst (run c s es) in Inv c s' /\ exact s' /\ single s' /\ NoDup (que s').
Proof.
  induction es as [|e es IH]; intros s I Ex Sg Nq Cr; cbn [run]; [auto|].
  destruct Cr as [Ce Cr].
  destruct (step_exact c s e I Ex Sg Nq Ce) as [Ex1 Sg1].
  pose proof (step_Inv c s e I) as I1. pose proof (step_que_nodup c s e Nq) as Nq1.
  destruct (step c s e) as [s1 o]. cbn [fst] in *.
  specialize (IH s1 I1 Ex1 Sg1 Nq1 Cr). destruct (run c s1 es) as [s2 os]. exact IH.
Qed.

Lemma init_exact c : exact (init c) /\ single (init c) /\ NoDup (que (init c)).
Proof.
  split; [|split; constructor]. intros x t. cbn [init ns]. rewrite getn_repeat. cbn. tauto.
Qed.

(* ---- consequences for clean histories from boot ---- *)
Lemma clean_boot c es : clean_run c (init c) es ->
  let s := fst (run c (init c) es) in Inv c s /\ exact s /\ single s /\ NoDup (que s).
Proof.
  intros Cr. destruct (init_exact c) as (E & S & N).
  apply run_exact; [apply init_Inv|exact E|exact S|exact N|exact Cr].
Qed.

Lemma nodup_holder (l : list (wid * msg)) w m x t :
  NoDup (map msg_unit (map snd l)) -> In (w, m) l -> msg_unit m = (x, t) ->
  forall p, In p l -> msg_unit (snd p) = (x, t) -> fst p = w.
Proof.
  induction l as [|q l IH]; intros Sg Hm Um p Hp Up; [contradiction|]. cbn [map] in Sg.
  inversion Sg as [|? ? Nq Nl]; subst. destruct Hp as [Hp|Hp], Hm as [Hm|Hm].
  - rewrite <- Hp, Hm. reflexivity.
  - subst q. exfalso. apply Nq. rewrite Up, <- Um. apply in_map_iff. exists m. split; [reflexivity|].
    apply in_map_iff. exists (w, m). tauto.
  - subst q. exfalso. apply Nq. cbn [snd]. rewrite Um, <- Up. apply in_map_iff. exists (snd p).
    split; [reflexivity|]. apply in_map. exact Hp.
  - apply (IH Nl Hm Um p Hp Up).
Qed.

Lemma single_holder s w m x t : single s -> In (w, m) (inflight s) -> msg_unit m = (x, t) ->
  forall p, In p (inflight s) -> msg_unit (snd p) = (x, t) -> fst p = w.
Proof.
  unfold single, units. intros Sg. rewrite map_app in Sg. apply NoDup_app_r in Sg.
  apply nodup_holder. exact Sg.
Qed.

Lemma run_crew c es : forall s, Inv c s -> exact s -> single s -> NoDup (que s) -> crew_exact s ->
  clean_run c s es -> crew_exact (fst (run c s es)).
Proof.
  induction es as [|e es IH]; intros s I Ex Sg Nq Cw Cr; cbn [run]; [exact Cw|].
  destruct Cr as [Ce Cr].
  assert (Cw1 : crew_exact (fst (step c s e))).
  { apply step_crew_exact; [exact Cw|]. intros w x t r o vs E. subst e.
    destruct Ce as ((m & Hm & Um) & _). apply (single_holder s w m x t Sg Hm Um). }
  destruct (step_exact c s e I Ex Sg Nq Ce) as [Ex1 Sg1].
  pose proof (step_Inv c s e I) as I1. pose proof (step_que_nodup c s e Nq) as Nq1.
  destruct (step c s e) as [s1 o]. cbn [fst] in *.
  specialize (IH s1 I1 Ex1 Sg1 Nq1 Cw1 Cr). destruct (run c s1 es) as [s2 os]. exact IH.
Qed.
