(* Histories WITH refused run ids (Model/SchedFault.v: xrun over list xev).
   The invariants of Proofs/SchedBatch.v assume that the farm holds no job
   between events (I_do).  After a refused run id that is false: the kept jobs
   keep their `do` sets, and a kept job can be released again before the retry.
   Here: (1) the decomposition of a faulty dispatch, an ordinary dispatch being
   the case k = 0; (2) the invariant that survives faults (length / I_que /
   I_aspd) and the release safety of every batch; (3) the ORIGIN invariant:
   whatever sits in a `do` set or on the job list was moved from pending to
   executing by some dispatch of the history at a moment when no ancestor had
   it pending or executing; (4) the theorems about the messages of a tick. *)
From Coq Require Import List Arith ZArith Bool Lia Permutation.
From DV Require Import Model.Sched Model.SchedObs Model.SchedFault Proofs.SchedLib Proofs.SchedOrg
     Proofs.SchedBuild Proofs.SchedC05 Proofs.SchedC02 Proofs.SchedC11 Proofs.SchedBatch
     Proofs.SchedC03 Proofs.SchedC04 Proofs.SchedFaultProofs.
Import ListNotations.

(* ---- 1. put_job1 = put_job up to the job list ---- *)
Definition set_jobs (s : state) (j : list node) : state :=
  set_farm s j (cluster s) (busy s) (workers s) (inflight s).

Lemma set_jobs_id s : set_jobs s (jobs s) = s.
Proof. destruct s; reflexivity. Qed.

Lemma put_job_set_jobs c s j o x :
  put_job c (set_jobs s j, o) x =
  (set_jobs (fst (put_job c (s, o) x)) (rem x j), snd (put_job c (s, o) x)).
Proof.
  unfold put_job. cbn [ns set_jobs set_farm stored].
  destruct (rid (getn (ns s) x)); reflexivity.
Qed.

Lemma put_job1_set_jobs c s j o x :
  put_job1 c (set_jobs s j, o) x =
  (set_jobs (fst (put_job c (s, o) x)) (rem1 x j), snd (put_job c (s, o) x)).
Proof. unfold put_job1. rewrite put_job_set_jobs. reflexivity. Qed.

Lemma put_jobs1_fold c js : forall s j o,
  fold_left (put_job1 c) js (set_jobs s j, o) =
  (set_jobs (fst (fold_left (put_job c) js (s, o))) (fold_left (fun l x => rem1 x l) js j),
   snd (fold_left (put_job c) js (s, o))).
Proof.
  induction js as [|x js IH]; intros s j o; cbn [fold_left]; [reflexivity|].
  rewrite put_job1_set_jobs. destruct (put_job c (s, o) x) as [s1 o1]. cbn [fst snd]. apply IH.
Qed.

Lemma rem1_fold_app done : forall rest,
  fold_left (fun l x => rem1 x l) done (done ++ rest) = rest.
Proof.
  induction done as [|x done IH]; intros rest; cbn [fold_left app]; [reflexivity|].
  cbn [rem1]. rewrite Nat.eqb_refl. apply IH.
Qed.

(* the job loop with a refused request = the ordinary loop over a prefix *)
Lemma put_jobs_fault_split c : forall js k acc acc' raised,
  put_jobs_fault c k js acc = (acc', raised) ->
  exists done rest, js = done ++ rest /\ acc' = fold_left (put_job1 c) done acc /\
                    (raised = false -> rest = []).
Proof.
  induction js as [|x js IH]; intros k acc acc' raised H; cbn [put_jobs_fault] in H.
  - inversion H; subst. exists [], []. repeat split; reflexivity.
  - assert (STEP : forall k', put_jobs_fault c k' js (put_job1 c acc x) = (acc', raised) ->
              exists done rest, x :: js = done ++ rest /\ acc' = fold_left (put_job1 c) done acc /\
                                (raised = false -> rest = [])).
    { intros k' H'. destruct (IH k' _ _ _ H') as (dn & rs & E & A & R).
      exists (x :: dn), rs. split; [rewrite E; reflexivity|]. split; [exact A|exact R]. }
    destruct (rid (getn (ns (fst acc)) x)) as [r|].
    + apply (STEP k). exact H.
    + destruct k as [|[|k']].
      * apply (STEP 0). exact H.
      * inversion H; subst. exists [], (x :: js). split; [reflexivity|]. split; [reflexivity|discriminate].
      * apply (STEP (S k')). exact H.
Qed.

Lemma put_jobs_fault_0 c : forall js acc,
  put_jobs_fault c 0 js acc = (fold_left (put_job1 c) js acc, false).
Proof.
  induction js as [|x js IH]; intros acc; cbn [put_jobs_fault fold_left]; [reflexivity|].
  destruct (rid (getn (ns (fst acc)) x)); apply IH.
Qed.

(* ---- the state after the batch, before the job loop ---- *)
Definition after_batch (c : cfg) (s : state) : state :=
  let '(s1, rel) := next_job_batch c s in
  set_farm s1 (jobs s1 ++ rel) (cluster s1) (busy s1) (workers s1) (inflight s1).
Definition trig (s2 : state) : bool :=
  archive s2 && match jobs s2, busy s2, cluster s2 with [], [], [] => true | _, _, _ => false end.

Lemma after_batch_fields c s :
  ns (after_batch c s) = ns (fst (next_job_batch c s)) /\
  que (after_batch c s) = que s /\
  jobs (after_batch c s) = jobs s ++ snd (next_job_batch c s) /\
  cluster (after_batch c s) = cluster s /\ workers (after_batch c s) = workers s /\
  inflight (after_batch c s) = inflight s /\ busy (after_batch c s) = busy s /\
  stored (after_batch c s) = stored s.
Proof.
  unfold after_batch. pose proof (njb_que c s) as Q.
  destruct (next_job_batch c s) as [s1 rel] eqn:N. cbn [fst snd] in *.
  destruct (njb_farm _ _ _ _ N) as (W1 & F1 & B1 & C1 & J1 & A1 & S1 & R1).
  cbn [ns que jobs cluster workers inflight busy stored set_farm]. rewrite J1. auto 10.
Qed.

(* the central decomposition of a dispatch with a refused k-th request *)
Lemma dispatch_fault_spec c k s : active s = true ->
  exists done rest raised s3 o1,
    jobs s ++ snd (next_job_batch c s) = done ++ rest /\ (raised = false -> rest = []) /\
    fold_left (put_job c) done
      (after_batch c s, if trig (after_batch c s) then [OArchive] else []) = (s3, o1) /\
    let s' := fst (dispatch_fault c k s) in
    let cl := cluster_sort (cluster s3) in
    let w := workers_sort (workers s) in
    let n := Nat.min (length cl) (length w) in
    ns s' = ns s3 /\ que s' = que s /\ jobs s' = rest /\
    cluster s' = skipn n cl /\
    inflight s' = inflight s ++ combine (map fst (firstn n w)) (firstn n cl) /\
    busy s' = busy s ++ map msg_unit (firstn n cl).
Proof.
  intros A. unfold dispatch_fault. rewrite A. cbn [negb].
  destruct (after_batch_fields c s) as (_ & Q2 & J2 & C2 & W2 & F2 & B2 & _).
  unfold after_batch in *. destruct (next_job_batch c s) as [s1 rel] eqn:N. cbn [fst snd] in *.
  set (s2 := set_farm s1 (jobs s1 ++ rel) (cluster s1) (busy s1) (workers s1) (inflight s1)) in *.
  fold (trig s2).
  set (o0 := if trig s2 then [OArchive] else []).
  destruct (put_jobs_fault c k (jobs s2) (s2, o0)) as [[s3' o1'] raised] eqn:P.
  apply put_jobs_fault_split in P. destruct P as (done & rest & E & Acc & R).
  rewrite <- (set_jobs_id s2) in Acc at 1. rewrite put_jobs1_fold in Acc.
  destruct (fold_left (put_job c) done (s2, o0)) as [s3 o1] eqn:F. cbn [fst snd] in Acc.
  inversion Acc; subst s3' o1'. clear Acc.
  exists done, rest, raised, s3, o1.
  split; [rewrite <- J2; exact E|]. split; [exact R|]. split; [exact F|].
  pose proof (put_jobs_inv c done s2 o0 s3 o1 F) as (W3 & F3 & B3 & _).
  pose proof (put_jobs_que c done (s2, o0)) as Q3. rewrite F in Q3. cbn [fst] in Q3.
  cbn [cluster workers busy inflight set_jobs set_farm].
  destruct (hand_out (cluster_sort (cluster s3)) (workers_sort (workers s3)) (busy s3) (inflight s3) o1)
    as [[[[cl' w'] b'] fl'] o2] eqn:H.
  apply hand_out_spec in H. destruct H as (n & Hn & E1 & E2 & E3 & E4 & E5).
  assert (J : fold_left (fun l x => rem1 x l) done (jobs s2) = rest).
  { rewrite E. apply rem1_fold_app. }
  rewrite W3, W2 in *. rewrite F3, F2 in *. rewrite B3, B2 in *.
  cbn zeta. rewrite <- Hn.
  destruct (trig s2); cbn [fst ns que jobs cluster inflight busy set_farm set_flags set_jobs];
    rewrite ?Q3, ?Q2, ?J; auto 10.
Qed.

Lemma dispatch_fault_inactive c k s : active s = false -> dispatch_fault c k s = (s, []).
Proof. intros H. unfold dispatch_fault. rewrite H. reflexivity. Qed.

(* an ordinary dispatch is the faulty one with k = 0 (no request is refused) *)
Lemma dispatch_is_fault0 c s : fst (dispatch c s) = fst (dispatch_fault c 0 s).
Proof.
  unfold dispatch, dispatch_fault. destruct (active s); cbn [negb]; [|reflexivity].
  destruct (next_job_batch c s) as [s1 rel].
  set (s2 := set_farm s1 (jobs s1 ++ rel) (cluster s1) (busy s1) (workers s1) (inflight s1)).
  fold (trig s2). set (o0 := if trig s2 then [OArchive] else []).
  rewrite put_jobs_fault_0.
  replace (fold_left (put_job1 c) (jobs s2) (s2, o0))
    with (fold_left (put_job1 c) (jobs s2) (set_jobs s2 (jobs s2), o0)) by (rewrite set_jobs_id; reflexivity).
  rewrite put_jobs1_fold.
  pose proof (put_jobs_jobs c (jobs s2) (s2, o0)) as PJ.
  destruct (fold_left (put_job c) (jobs s2) (s2, o0)) as [s3 o1]. cbn [fst snd] in *.
  assert (J3 : jobs s3 = []) by (rewrite PJ; apply rem_all_nil; auto).
  assert (J1 : fold_left (fun l x => rem1 x l) (jobs s2) (jobs s2) = []).
  { rewrite <- (app_nil_r (jobs s2)) at 2. apply rem1_fold_app. }
  rewrite J1.
  assert (Es : set_jobs s3 (@nil nat) = s3) by (destruct s3; cbn in J3; subst; reflexivity).
  rewrite Es.
  destruct (hand_out _ _ _ _ _) as [[[[cl' w'] b'] fl'] o2].
  destruct (trig s2); reflexivity.
Qed.

(* ---- 2. what survives refused requests: length, I_que, I_aspd ---- *)
Definition GInv (c : cfg) (s : state) : Prop :=
  length (ns s) = nnodes c /\ I_que c s /\ I_aspd c s.

Lemma dispatch_fault_todo c k s y : active s = true ->
  todo (getn (ns (fst (dispatch_fault c k s))) y) = todo (getn (ns (fst (next_job_batch c s))) y) /\
  doing (getn (ns (fst (dispatch_fault c k s))) y) = doing (getn (ns (fst (next_job_batch c s))) y).
Proof.
  intros A. destruct (dispatch_fault_spec c k s A) as (done & rest & raised & s3 & o1 & _ & _ & F & S).
  cbn zeta in S. destruct S as (Ns & _). rewrite Ns.
  match type of F with fold_left _ _ ?acc = _ => pose proof (put_jobs_todo c done acc y) as P end.
  rewrite F in P. cbn [fst] in P.
  destruct (after_batch_fields c s) as (N2 & _). rewrite N2 in P. exact P.
Qed.

Lemma dispatch_fault_que c k s : que (fst (dispatch_fault c k s)) = que s.
Proof.
  destruct (active s) eqn:A; [|rewrite dispatch_fault_inactive by exact A; reflexivity].
  destruct (dispatch_fault_spec c k s A) as (done & rest & raised & s3 & o1 & _ & _ & _ & S).
  cbn zeta in S. tauto.
Qed.

Lemma njb_len c s : length (ns (fst (next_job_batch c s))) = length (ns s).
Proof.
  unfold next_job_batch. destruct (paused s); [reflexivity|].
  pose proof (release_fold_len c (que s) (que s) (ns s, [])) as G. cbn [fst] in G.
  destruct (fold_left (release c (que s)) (que s) (ns s, [])) as [l r0]. exact G.
Qed.

Lemma put_jobs_len c js : forall acc,
  length (ns (fst (fold_left (put_job c) js acc))) = length (ns (fst acc)).
Proof.
  induction js as [|x js IH]; intros acc; cbn [fold_left]; [reflexivity|].
  rewrite IH. apply put_job_len.
Qed.

Lemma dispatch_fault_len c k s : length (ns (fst (dispatch_fault c k s))) = length (ns s).
Proof.
  destruct (active s) eqn:A; [|rewrite dispatch_fault_inactive by exact A; reflexivity].
  destruct (dispatch_fault_spec c k s A) as (done & rest & raised & s3 & o1 & _ & _ & F & S).
  cbn zeta in S. destruct S as (Ns & _). rewrite Ns.
  match type of F with fold_left _ _ ?acc = _ => pose proof (put_jobs_len c done acc) as P end.
  rewrite F in P. cbn [fst] in P. rewrite P.
  destruct (after_batch_fields c s) as (N2 & _). rewrite N2. apply njb_len.
Qed.

Lemma dispatch_fault_pend c k s a u :
  pend (ns (fst (dispatch_fault c k s))) a u = pend (ns s) a u.
Proof.
  destruct (active s) eqn:A; [|rewrite dispatch_fault_inactive by exact A; reflexivity].
  unfold pend. destruct (dispatch_fault_todo c k s a A) as [E1 E2]. rewrite E1, E2. apply njb_pend.
Qed.

Lemma dispatch_fault_I_que c k s : I_que c s -> I_que c (fst (dispatch_fault c k s)).
Proof.
  intros I. apply I_que_alt. rewrite I_que_alt in I. intros x t H. rewrite dispatch_fault_que.
  destruct (active s) eqn:A; [|rewrite dispatch_fault_inactive in H by exact A; apply (I x t); exact H].
  destruct (dispatch_fault_todo c k s x A) as [E1 E2]. rewrite E1, E2 in H. destruct H as [H|H].
  - apply (I x t). left. apply (njb_pending c s x). exact H.
  - apply njb_new_doing in H. destruct H as [H|H]; [apply (I x t); tauto|exact H].
Qed.

Lemma dispatch_fault_I_aspd c k s : I_aspd c s -> I_aspd c (fst (dispatch_fault c k s)).
Proof.
  intros I x t Ha H. apply (I x t Ha).
  assert (P : pend (ns (fst (dispatch_fault c k s))) x t = true)
    by (unfold pend; apply orb_true_iff; rewrite !mem_In; exact H).
  rewrite dispatch_fault_pend in P. unfold pend in P. apply orb_true_iff in P. rewrite !mem_In in P. exact P.
Qed.

Lemma xstep_ev c s e : fst (xstep c s (Ev e)) = fst (step c s e).
Proof. cbn [xstep]. destruct (step c s e). reflexivity. Qed.

Lemma xstep_GInv c s x : GInv c s -> GInv c (fst (xstep c s x)).
Proof.
  intros (L & Q & A). destruct x as [e|k].
  - rewrite xstep_ev. split; [apply step_len; exact L|].
    split; [apply step_I_que; assumption|apply step_I_aspd; assumption].
  - cbn [xstep]. split; [rewrite dispatch_fault_len; exact L|].
    split; [apply dispatch_fault_I_que; exact Q|apply dispatch_fault_I_aspd; exact A].
Qed.

Lemma xrun_GInv c xs : forall s, GInv c s -> GInv c (xrun c s xs).
Proof.
  induction xs as [|x xs IH]; intros s I; cbn [xrun]; [exact I|].
  apply IH. apply xstep_GInv. exact I.
Qed.

Lemma init_GInv c : GInv c (init c).
Proof. destruct (init_Inv c) as (L & Q & _ & A). split; [exact L|split; assumption]. Qed.

Lemma xrun_snoc c xs : forall s x, xrun c s (xs ++ [x]) = fst (xstep c (xrun c s xs) x).
Proof. induction xs as [|y xs IH]; intros s x; cbn [xrun app]; [reflexivity|apply IH]. Qed.

(* ---- C01 at the level of the bookkeeping, for a dispatch with or without a
   refused request, from any state satisfying GInv (jobs may be kept) ---- *)
Definition anc_idle (c : cfg) (s' : state) (x : node) (t : tgt) : Prop :=
  forall a, In a (anc (gi c x)) ->
    ~ In t (todo (getn (ns s') a)) /\ ~ In t (doing (getn (ns s') a)) /\
    ~ In ALL (todo (getn (ns s') a)) /\ ~ In ALL (doing (getn (ns s') a)) /\
    (t = ALL -> todo (getn (ns s') a) = [] /\ doing (getn (ns s') a) = []).

Lemma fault_release_safe c k s x t : I_que c s -> active s = true ->
  let s' := fst (dispatch_fault c k s) in
  In t (doing (getn (ns s') x)) -> ~ In t (doing (getn (ns s) x)) -> anc_idle c s' x t.
Proof.
  cbn zeta. intros I A H N a Ha.
  destruct (dispatch_fault_todo c k s x A) as [_ Ex]. rewrite Ex in H.
  destruct (dispatch_fault_todo c k s a A) as [Ea1 Ea2]. rewrite Ea1, Ea2.
  destruct (in_dec Nat.eq_dec a (que s)) as [Hq|Hq].
  - destruct (batch_safe c s x t a H N Ha Hq) as (P1 & P2 & P3).
    unfold pend in P1, P2. apply orb_false_iff in P1. apply orb_false_iff in P2.
    destruct P1 as [P1a P1b]. destruct P2 as [P2a P2b].
    rewrite mem_false_In in P1a, P1b, P2a, P2b. repeat split; try assumption; contradiction.
  - assert (E0 : todo (getn (ns s) a) = [] /\ doing (getn (ns s) a) = []).
    { split.
      - destruct (todo (getn (ns s) a)) eqn:E; [reflexivity|]. exfalso. apply Hq. apply I. left. congruence.
      - destruct (doing (getn (ns s) a)) eqn:E; [reflexivity|]. exfalso. apply Hq. apply I. right. congruence. }
    assert (E1 : getn (ns (fst (next_job_batch c s))) a = getn (ns s) a).
    { unfold next_job_batch. destruct (paused s); [reflexivity|].
      pose proof (release_fold_other c (que s) (que s) (ns s, []) a Hq) as F. cbn [fst] in F.
      destruct (fold_left (release c (que s)) (que s) (ns s, [])) as [l rel]. exact F. }
    rewrite E1. destruct E0 as [E01 E02]. rewrite E01, E02. repeat split; auto.
Qed.

(* ---- 3. origin: where a `do` entry / a held job comes from ---- *)
Lemma release_origin c q acc x y :
  (forall t, In t (do_ (getn (fst (release c q acc x)) y)) ->
     In t (do_ (getn (fst acc) y)) \/
     (~ In t (doing (getn (fst acc) y)) /\ In t (doing (getn (fst (release c q acc x)) y)))) /\
  (In y (snd (release c q acc x)) ->
     In y (snd acc) \/
     exists t, ~ In t (doing (getn (fst acc) y)) /\ In t (doing (getn (fst (release c q acc x)) y))).
Proof.
  assert (AV : forall t, In t (avail c (fst acc) q x) ->
            ~ In t (doing (getn (fst acc) x)) /\ In t (doing (getn (fst (release c q acc x)) x))).
  { intros t Av. destruct (avail_sub c (fst acc) q x t Av) as [Ht Hd]. split; [exact Hd|].
    assert (Lx : x < length (fst acc)).
    { destruct (Nat.lt_ge_cases x (length (fst acc))) as [L|L]; [exact L|].
      rewrite (getn_oob _ _ L) in Ht. contradiction. }
    apply (release_at c q acc x t Lx Av). }
  split.
  - intros t H. apply release_new_do in H. destruct H as [H|[E H]]; [left; exact H|]. subst y.
    right. apply AV. exact H.
  - intros H. apply release_new_rel in H. destruct H as [H|[E [t H]]]; [left; exact H|]. subst y.
    right. exists t. apply AV. exact H.
Qed.

Lemma fold_origin c q xs : forall acc y,
  (forall t, In t (do_ (getn (fst (fold_left (release c q) xs acc)) y)) ->
     In t (do_ (getn (fst acc) y)) \/
     (~ In t (doing (getn (fst acc) y)) /\ In t (doing (getn (fst (fold_left (release c q) xs acc)) y)))) /\
  (In y (snd (fold_left (release c q) xs acc)) ->
     In y (snd acc) \/
     exists t, ~ In t (doing (getn (fst acc) y)) /\ In t (doing (getn (fst (fold_left (release c q) xs acc)) y))).
Proof.
  induction xs as [|x xs IH]; intros acc y; cbn [fold_left]; [split; intros; left; assumption|].
  destruct (IH (release c q acc x) y) as [A B]. destruct (release_origin c q acc x y) as [A0 B0].
  assert (NM : forall t, ~ In t (doing (getn (fst (release c q acc x)) y)) -> ~ In t (doing (getn (fst acc) y))).
  { intros t N H. apply N. apply release_doing_mono. exact H. }
  split.
  - intros t H. apply A in H. destruct H as [H|[H1 H2]].
    + apply A0 in H. destruct H as [H|[H1 H2]]; [left; exact H|].
      right. split; [exact H1|]. apply release_fold_doing_mono. exact H2.
    + right. split; [apply NM; exact H1|exact H2].
  - intros H. apply B in H. destruct H as [H|[t [H1 H2]]].
    + apply B0 in H. destruct H as [H|[t [H1 H2]]]; [left; exact H|].
      right. exists t. split; [exact H1|]. apply release_fold_doing_mono. exact H2.
    + right. exists t. split; [apply NM; exact H1|exact H2].
Qed.

Lemma njb_origin c s y :
  (forall t, In t (do_ (getn (ns (fst (next_job_batch c s))) y)) ->
     In t (do_ (getn (ns s) y)) \/
     (~ In t (doing (getn (ns s) y)) /\ In t (doing (getn (ns (fst (next_job_batch c s))) y)))) /\
  (In y (snd (next_job_batch c s)) ->
     exists t, ~ In t (doing (getn (ns s) y)) /\ In t (doing (getn (ns (fst (next_job_batch c s))) y))).
Proof.
  unfold next_job_batch. destruct (paused s); [cbn [fst snd]; split; [intros; left; assumption|intros []]|].
  pose proof (fold_origin c (que s) (que s) (ns s, []) y) as [A B]. cbn [fst snd] in *.
  destruct (fold_left (release c (que s)) (que s) (ns s, [])) as [l rel]. cbn [fst snd ns set_ns] in *.
  split; [exact A|]. intros H. apply In_sort_lvl in H. apply B in H. destruct H as [[]|H]. exact H.
Qed.

Definition is_tick (x : xev) : Prop :=
  match x with Ev Tick => True | TickFault _ => True | _ => False end.

Lemma tick_as_fault c s e : is_tick e -> exists k, fst (xstep c s e) = fst (dispatch_fault c k s).
Proof.
  destruct e as [e|k]; [|intros _; exists k; reflexivity].
  destruct e; cbn [is_tick]; try contradiction. intros _. exists 0.
  rewrite xstep_ev. cbn [step]. apply dispatch_is_fault0.
Qed.

(* (x,t) was moved from pending to executing by a dispatch of the history, at a
   moment when no ancestor of x had t or the all-targets marker pending or
   executing (and, for t = all-targets, had nothing at all) *)
Definition fresh (c : cfg) (xs : list xev) (x : node) (t : tgt) : Prop :=
  exists xs1 e xs2, xs = xs1 ++ e :: xs2 /\ is_tick e /\
    let sb := xrun c (init c) xs1 in
    let sa := fst (xstep c sb e) in
    ~ In t (doing (getn (ns sb) x)) /\ In t (doing (getn (ns sa) x)) /\ anc_idle c sa x t.

Lemma fresh_snoc c xs e x t : fresh c xs x t -> fresh c (xs ++ [e]) x t.
Proof.
  intros (xs1 & e0 & xs2 & E & T & H). exists xs1, e0, (xs2 ++ [e]).
  split; [rewrite E, <- app_assoc; reflexivity|]. split; [exact T|exact H].
Qed.

Lemma fresh_now c xs e x t : is_tick e ->
  let s := xrun c (init c) xs in
  ~ In t (doing (getn (ns s) x)) -> In t (doing (getn (ns (fst (xstep c s e))) x)) ->
  fresh c (xs ++ [e]) x t.
Proof.
  cbn zeta. intros T N H. exists xs, e, []. split; [reflexivity|]. split; [exact T|].
  cbn zeta. split; [exact N|]. split; [exact H|].
  destruct (tick_as_fault c (xrun c (init c) xs) e T) as [k Ek]. rewrite Ek in *.
  destruct (xrun_GInv c xs (init c) (init_GInv c)) as (_ & Q & _).
  destruct (active (xrun c (init c) xs)) eqn:A.
  - apply fault_release_safe; assumption.
  - rewrite dispatch_fault_inactive in H by exact A. contradiction.
Qed.

Definition Orig (c : cfg) (xs : list xev) (s : state) : Prop :=
  (forall x t, In t (do_ (getn (ns s) x)) -> fresh c xs x t) /\
  (forall x, In x (jobs s) -> exists t, fresh c xs x t).

(* every event but a dispatch leaves the job list alone and adds nothing to a `do` set *)
Lemma res_do_sub c x t r o vs s : length (ns s) = nnodes c ->
  (forall y u, In u (do_ (getn (ns (fst (res c x t r o vs s))) y)) -> In u (do_ (getn (ns s) y))) /\
  jobs (fst (res c x t r o vs s)) = jobs s.
Proof.
  intros Hl. unfold res. destruct (mem x (que (set_busy s _))); [|split; auto].
  set (s1 := set_busy s _).
  assert (D2 : forall y u, In u (do_ (getn (ns (complete c x t s1)) y)) -> In u (do_ (getn (ns s) y))).
  { intros y u. rewrite ns_complete. unfold s1. cbn [ns set_busy]. rewrite getn_setn.
    destruct (Nat.eqb x y && _) eqn:B; [|auto].
    apply andb_true_iff in B. destruct B as [B _]. apply Nat.eqb_eq in B. subst y. cbn [cz do_]. auto. }
  assert (J2 : jobs (complete c x t s1) = jobs s).
  { destruct (complete_farm c x t s1) as (_ & _ & J & _). rewrite J. reflexivity. }
  assert (L2 : length (ns (complete c x t s1)) = nnodes c)
    by (rewrite ns_complete; unfold s1; cbn [ns set_busy]; rewrite setn_length; exact Hl).
  assert (PG : (forall y u, In u (do_ (getn (ns (purge c x t (complete c x t s1))) y)) -> In u (do_ (getn (ns s) y))) /\
               jobs (purge c x t (complete c x t s1)) = jobs s).
  { split; [|exact J2]. intros y u H. apply D2. unfold purge in H. cbn [ns set_ns] in H.
    rewrite getn_fold_purge in H. destruct (mem y _); [|exact H]. cbn [pz do_] in H. apply In_rem in H. tauto. }
  destruct o; cbn [fst]; [|exact PG|exact PG].
  unfold update. destruct vs as [|v vs]; [split; [exact D2|exact J2]|].
  match goal with |- context [organize c ?nm ?rr ?tg ?s3] =>
    destruct (organize_spec c nm rr tg s3 L2) as (_ & _ & D & _);
    destruct (organize_farm c nm rr tg s3) as (_ & _ & J & _) end.
  split; [|rewrite J; exact J2].
  intros y u H. destruct (D y) as [_ Dy]. rewrite Dy in H. apply D2. exact H.
Qed.

Lemma step_do_sub c s e : length (ns s) = nnodes c -> e <> Tick ->
  (forall y u, In u (do_ (getn (ns (fst (step c s e))) y)) -> In u (do_ (getn (ns s) y))) /\
  jobs (fst (step c s e)) = jobs s.
Proof.
  intros Hl Ne. destruct e; cbn [step]; try (cbn [fst]; split; [auto|reflexivity]); try congruence.
  - cbn [fst]. destruct (organize_spec c names r tg s Hl) as (_ & _ & D & _).
    destruct (organize_farm c names r tg s) as (_ & _ & J & _). split; [|exact J].
    intros y u H. destruct (D y) as [_ Dy]. rewrite Dy in H. exact H.
  - pose proof (res_do_sub c x t r o values s Hl) as [D J].
    destruct (res c x t r o values s) as [s' outs]. cbn [fst ns jobs set_farm] in *. split; assumption.
  - unfold reg. destruct rev_ok; cbn [fst]; split; auto.
  - unfold poll. destruct (rev_ok && active s); cbn [fst]; split; auto.
  - cbn [fst]. destruct (build_farm c changed s) as (_ & _ & J & _). split; [|exact J].
    intros y u H. destruct (build_exact c changed s) as (_ & _ & D & _). destruct (D y) as [_ Dy].
    rewrite Dy in H. contradiction.
Qed.

Lemma put_jobs_do_sub c js : forall acc y t,
  In t (do_ (getn (ns (fst (fold_left (put_job c) js acc))) y)) -> In t (do_ (getn (ns (fst acc)) y)).
Proof.
  induction js as [|x js IH]; intros acc y t H; cbn [fold_left] in H; [exact H|].
  apply IH in H. apply (put_job_do c acc x y t H).
Qed.

(* one step of the origin invariant *)
Lemma xstep_Orig c xs e :
  let s := xrun c (init c) xs in
  Orig c xs s -> Orig c (xs ++ [e]) (fst (xstep c s e)).
Proof.
  cbn zeta. intros [OD OJ].
  destruct (xrun_GInv c xs (init c) (init_GInv c)) as (Hl & Q & Ia).
  set (s := xrun c (init c) xs) in *.
  assert (NT : forall e0, e = Ev e0 -> e0 <> Tick -> Orig c (xs ++ [e]) (fst (xstep c s e))).
  { intros e0 -> Ne. rewrite xstep_ev. destruct (step_do_sub c s e0 Hl Ne) as [D J]. split.
    - intros x t H. apply fresh_snoc. apply OD. apply D. exact H.
    - intros x H. rewrite J in H. destruct (OJ x H) as [t F]. exists t. apply fresh_snoc. exact F. }
  assert (TK : is_tick e -> Orig c (xs ++ [e]) (fst (xstep c s e))).
  { intros T. destruct (tick_as_fault c s e T) as [k Ek].
    destruct (active s) eqn:A.
    2:{ rewrite Ek, dispatch_fault_inactive by exact A. cbn [fst]. split.
        - intros x t H. apply fresh_snoc. apply OD. exact H.
        - intros x H. destruct (OJ x H) as [t F]. exists t. apply fresh_snoc. exact F. }
    destruct (dispatch_fault_spec c k s A) as (done & rest & raised & s3 & o1 & E & _ & F & S).
    cbn zeta in S. destruct S as (Ns & _ & Js & _).
    destruct (after_batch_fields c s) as (N2 & _).
    assert (DOING : forall x t, ~ In t (doing (getn (ns s) x)) ->
              In t (doing (getn (ns (fst (next_job_batch c s))) x)) -> fresh c (xs ++ [e]) x t).
    { intros x t N H. apply (fresh_now c xs e x t T N). fold s. rewrite Ek.
      destruct (dispatch_fault_todo c k s x A) as [_ Ex]. rewrite Ex. exact H. }
    split.
    - intros x t H. rewrite Ek, Ns in H.
      match type of F with fold_left _ _ ?acc = _ => pose proof (put_jobs_do_sub c done acc x t) as P end.
      rewrite F in P. cbn [fst] in P. apply P in H. rewrite N2 in H.
      destruct (njb_origin c s x) as [O1 _]. apply O1 in H. destruct H as [H|[H1 H2]].
      + apply fresh_snoc. apply OD. exact H.
      + apply DOING; assumption.
    - intros x H. rewrite Ek, Js in H.
      assert (H' : In x (jobs s ++ snd (next_job_batch c s))) by (rewrite E; apply in_or_app; right; exact H).
      apply in_app_or in H'. destruct H' as [H'|H'].
      + destruct (OJ x H') as [t Ft]. exists t. apply fresh_snoc. exact Ft.
      + destruct (njb_origin c s x) as [_ O2]. destruct (O2 H') as [t [H1 H2]]. exists t. apply DOING; assumption. }
  destruct e as [e0|k]; [|apply TK; exact I].
  destruct e0; try (apply (NT _ eq_refl); discriminate). apply TK. exact I.
Qed.

Lemma xrun_Orig c xs : Orig c xs (xrun c (init c) xs).
Proof.
  induction xs as [|e xs IH] using rev_ind.
  - split.
    + intros x t H. cbn [xrun init ns] in H. rewrite getn_repeat in H. contradiction.
    + intros x [].
  - rewrite xrun_snoc. apply xstep_Orig. exact IH.
Qed.

(* ---- 4. the messages of one dispatch (with or without a refused request) ---- *)
(* m is made from something the farm already held when the dispatch began *)
Definition kept (c : cfg) (s : state) (m : msg) : Prop :=
  In (m_tgt m) (do_ (getn (ns s) (m_job m))) \/
  (gfac (gi c (m_job m)) = Analysis /\ In (m_job m) (jobs s)).

Lemma in_sorted_split (m : msg) cl n (ws : list wid) :
  In m cl -> length ws = length (firstn n cl) ->
  In m (skipn n cl ++ map snd (combine ws (firstn n cl))).
Proof.
  intros Hs Lk. rewrite <- (firstn_skipn n cl) in Hs. apply in_app_or in Hs.
  apply in_or_app. destruct Hs as [Hs|Hs]; [right|left; exact Hs].
  revert Hs Lk. generalize (firstn n cl). intros l2. revert ws.
  induction l2 as [|b l2 IH]; intros [|a0 l1] Hs Lk; cbn in *; try lia; try contradiction.
  destruct Hs as [Hs|Hs]; [left; exact Hs|right; apply IH; [exact Hs|lia]].
Qed.

Lemma fault_messages c k s : GInv c s -> active s = true ->
  let s' := fst (dispatch_fault c k s) in
  exists newms cl n,
    Permutation cl (cluster s ++ newms) /\
    n = Nat.min (length cl) (length (workers_sort (workers s))) /\
    cluster s' = skipn n cl /\
    inflight s' = inflight s ++ combine (map fst (firstn n (workers_sort (workers s)))) (firstn n cl) /\
    forall m, In m newms -> msg_ok c m /\
      (kept c s m \/
       (~ In (m_tgt m) (doing (getn (ns s) (m_job m))) /\ In (m_tgt m) (doing (getn (ns s') (m_job m))))).
Proof.
  cbn zeta. intros (Hl & Q & Ia) A.
  pose proof (dispatch_fault_I_aspd c k s Ia) as Ia'.
  destruct (dispatch_fault_spec c k s A) as (done & rest & raised & s3 & o1 & E & _ & F & S).
  cbn zeta in S. destruct S as (Ns & _ & Js & Cs & Fs & _).
  destruct (after_batch_fields c s) as (N2 & _ & _ & C2 & _).
  pose proof (put_jobs_msgs c done _ _ _ _ F) as (ms & C3 & M3). rewrite C2 in C3.
  exists ms, (cluster_sort (cluster s3)), (Nat.min (length (cluster_sort (cluster s3))) (length (workers_sort (workers s)))).
  split; [rewrite cluster_sort_perm, C3; reflexivity|]. split; [reflexivity|].
  split; [exact Cs|]. split; [exact Fs|].
  intros m Hm. destruct (M3 m Hm) as (J & K & T). split; [exact K|].
  set (x := m_job m) in *.
  destruct (dispatch_fault_todo c k s x A) as [_ Ex].
  destruct (fac_eqb (gfac (gi c x)) Analysis) eqn:G.
  - assert (Ga : gfac (gi c x) = Analysis) by (destruct (gfac (gi c x)); cbn in G; congruence).
    destruct K as (F1 & _ & F3). fold x in F1. rewrite Ga in F1. rewrite (F3 F1).
    assert (J' : In x (jobs s ++ snd (next_job_batch c s))) by (rewrite E; apply in_or_app; left; exact J).
    apply in_app_or in J'. destruct J' as [J'|J'].
    + left. right. split; assumption.
    + right. destruct (njb_origin c s x) as [_ O2]. destruct (O2 J') as [t [H1 H2]].
      assert (Et : t = ALL).
      { apply (Ia' x t); [unfold asp; rewrite Ga; reflexivity|]. right. rewrite Ex. exact H2. }
      subst t. split; [exact H1|rewrite Ex; exact H2].
  - assert (NA : gfac (gi c x) <> Analysis) by (intros Ea; rewrite Ea in G; discriminate).
    specialize (T NA). rewrite N2 in T.
    destruct (njb_origin c s x) as [O1 _]. apply O1 in T. destruct T as [T|[T1 T2]].
    + left. left. exact T.
    + right. split; [exact T1|rewrite Ex; exact T2].
Qed.

Lemma fresh_aspd c xs x t : fresh c xs x t -> asp c x = true -> t = ALL.
Proof.
  intros (xs1 & e & xs2 & _ & _ & H) Ha. cbn zeta in H. destruct H as (_ & H & _).
  assert (G : GInv c (xrun c (init c) (xs1 ++ [e]))) by (apply xrun_GInv, init_GInv).
  rewrite xrun_snoc in G. destruct G as (_ & _ & Ia). apply (Ia x t Ha). right. exact H.
Qed.

(* C01 for histories with refused requests: every task message made by the
   dispatch that ends the history xs ++ [e] is for a unit that this dispatch or
   an earlier one (whose request was refused) moved from pending to executing at
   a moment when no ancestor had it pending or executing *)
Theorem tick_messages_fresh c xs e : is_tick e ->
  let s := xrun c (init c) xs in
  let s' := fst (xstep c s e) in
  active s = true ->
  exists newms cl n,
    Permutation cl (cluster s ++ newms) /\
    n = Nat.min (length cl) (length (workers_sort (workers s))) /\
    cluster s' = skipn n cl /\
    inflight s' = inflight s ++ combine (map fst (firstn n (workers_sort (workers s)))) (firstn n cl) /\
    forall m, In m newms -> msg_ok c m /\ fresh c (xs ++ [e]) (m_job m) (m_tgt m) /\
      (kept c s m \/ ~ In (m_tgt m) (doing (getn (ns s) (m_job m)))).
Proof.
  cbn zeta. intros T A. destruct (tick_as_fault c (xrun c (init c) xs) e T) as [k Ek].
  pose proof (xrun_GInv c xs (init c) (init_GInv c)) as G.
  destruct (xrun_Orig c xs) as [OD OJ].
  destruct (fault_messages c k _ G A) as (newms & cl & n & P & Hn & Cs & Fs & M).
  exists newms, cl, n. rewrite Ek. repeat (split; [assumption|]).
  intros m Hm. destruct (M m Hm) as [K H]. split; [exact K|]. split.
  - destruct H as [[H|[Ga H]]|[H1 H2]].
    + apply fresh_snoc. apply OD. exact H.
    + destruct (OJ _ H) as [t Ft].
      assert (Et : t = ALL) by (apply (fresh_aspd c xs _ t Ft); unfold asp; rewrite Ga; reflexivity).
      destruct K as (F1 & _ & F3). rewrite Ga in F1. rewrite (F3 F1). subst t. apply fresh_snoc. exact Ft.
    + apply fresh_now; [exact T|exact H1|rewrite Ek; exact H2].
  - destruct H as [H|[H _]]; [left; exact H|right; exact H].
Qed.

(* one worker per handed message *)
Lemma map_fst_combine {A B} (l1 : list A) : forall (l2 : list B), length l1 = length l2 ->
  map fst (combine l1 l2) = l1.
Proof.
  induction l1 as [|a l1 IH]; intros [|b l2] L; cbn in *; try lia; [reflexivity|]. f_equal. apply IH. lia.
Qed.

Lemma firstn_nodup (l : list nat) n : NoDup l -> NoDup (firstn n l).
Proof.
  intros N.  revert n. induction l as [|a l IH]; intros [|n]; cbn [firstn]; try constructor.
  - inversion N; subst. intros H. apply H1. apply (firstn_In_ n l a H).
  - inversion N; subst. apply IH. assumption.
Qed.

Lemma handed_workers_nodup (w : list (wid * nat)) (cl : list msg) :
  NoDup (map fst w) ->
  let n := Nat.min (length cl) (length (workers_sort w)) in
  NoDup (map fst (combine (map fst (firstn n (workers_sort w))) (firstn n cl))).
Proof.
  cbn zeta. intros N. rewrite map_fst_combine by (rewrite map_length, !firstn_length; lia).
  rewrite <- firstn_map. apply firstn_nodup. apply workers_sort_nodup. exact N.
Qed.

(* C03: a result whose unit the scheduler counts as executing is applied once *)
Lemma doing_reply_found_G c s x t : GInv c s -> In t (doing (getn (ns s) x)) -> mem x (que s) = true.
Proof.
  intros (_ & Iq & _) H. apply mem_In. apply Iq. right. intros E. rewrite E in H. contradiction.
Qed.

(* ---- C04 progress from any state satisfying GInv ---- *)
Lemma put_jobs_ns_other c js : forall acc y, ~ In y js ->
  getn (ns (fst (fold_left (put_job c) js acc))) y = getn (ns (fst acc)) y.
Proof.
  induction js as [|x js IH]; intros acc y N; cbn [fold_left]; [reflexivity|].
  rewrite IH by (intros H; apply N; right; exact H). apply put_job_ns_other. intros E. apply N. left. auto.
Qed.

Lemma fault_progress c k s x t : GInv c s -> active s = true -> paused s = false ->
  x < nnodes c -> In t (todo (getn (ns s) x)) -> ~ In t (doing (getn (ns s) x)) ->
  (forall a, In a (anc (gi c x)) ->
     ~ In t (todo (getn (ns s) a)) /\ ~ In t (doing (getn (ns s) a)) /\
     ~ In ALL (todo (getn (ns s) a)) /\ ~ In ALL (doing (getn (ns s) a))) ->
  (In ALL (todo (getn (ns s) x)) -> forall a, In a (anc (gi c x)) -> ~ In a (que s)) ->
  let s' := fst (dispatch_fault c k s) in
  ~ In t (todo (getn (ns s') x)) /\ In t (doing (getn (ns s') x)) /\
  ((exists m, In m (cluster s' ++ map snd (inflight s')) /\ m_job m = x /\ m_tgt m = t) \/
   (In x (jobs s') /\ In t (do_ (getn (ns s') x)))).
Proof.
  intros (Hl & Iq & Ia) A Hp Hx Ht Hnd Hanc Hall. cbn zeta.
  assert (Hq : In x (que s)) by (apply Iq; left; intros E; rewrite E in Ht; contradiction).
  assert (Lx : x < length (ns s)) by (rewrite Hl; exact Hx).
  assert (Hanc' : forall a, In a (anc (gi c x)) -> In a (que s) ->
            pend (ns s) a t = false /\ pend (ns s) a ALL = false).
  { intros a Ha _. destruct (Hanc a Ha) as (A1 & A2 & A3 & A4). split; apply pend_false; tauto. }
  destruct (batch_progress c s x t Hp Hq Ht Hnd Lx Hanc' Hall) as (B1 & B2 & B3 & B4).
  destruct (dispatch_fault_todo c k s x A) as [E1 E2]. rewrite E1, E2.
  split; [exact B2|]. split; [exact B1|].
  destruct (dispatch_fault_spec c k s A) as (done & rest & raised & s3 & o1 & E & _ & F & S).
  cbn zeta in S. destruct S as (Ns & _ & Js & Cs & Fs & _).
  destruct (after_batch_fields c s) as (N2 & _).
  assert (Tt : gfac (gi c x) = Analysis -> t = ALL).
  { intros G. apply (Ia x t); [unfold asp; rewrite G; reflexivity|left; exact Ht]. }
  assert (J : In x (done ++ rest)) by (rewrite <- E; apply in_or_app; right; exact B4).
  destruct (in_dec Nat.eq_dec x done) as [Hd|Hd].
  - left.
    assert (L2 : x < length (ns (after_batch c s))) by (rewrite N2, njb_len; exact Lx).
    destruct (put_jobs_complete c done (after_batch c s) (if trig (after_batch c s) then [OArchive] else []) x t Hd L2)
      as (m & Hm & Jm & Tm); [intros _; rewrite N2; exact B3|exact Tt|].
    rewrite F in Hm. cbn [fst] in Hm.
    exists m. split; [|tauto]. rewrite Cs, Fs, map_app. apply in_or_app.
    assert (Hs : In m (cluster_sort (cluster s3))).
    { apply (Permutation_in m (Permutation_sym (cluster_sort_perm (cluster s3)))). exact Hm. }
    set (n := Nat.min _ _).
    apply (in_sorted_split m _ n (map fst (firstn n (workers_sort (workers s))))) in Hs;
      [|unfold n; rewrite map_length, !firstn_length; lia].
    apply in_app_or in Hs. destruct Hs as [Hs|Hs]; [left; exact Hs|right; apply in_or_app; right; exact Hs].
  - right. apply in_app_or in J. destruct J as [J|J]; [contradiction|].
    split; [rewrite Js; exact J|]. rewrite Ns.
    match type of F with fold_left _ _ ?acc = _ => pose proof (put_jobs_ns_other c done acc x Hd) as P end.
    rewrite F in P. cbn [fst] in P. rewrite P, N2. exact B3.
Qed.

(* an ordinary dispatch from a state reached through refused requests: the
   runnable unit is released AND its message is made (nothing stays held) *)
Lemma tick_progress_G c s x t : GInv c s -> active s = true -> paused s = false ->
  x < nnodes c -> In t (todo (getn (ns s) x)) -> ~ In t (doing (getn (ns s) x)) ->
  (forall a, In a (anc (gi c x)) ->
     ~ In t (todo (getn (ns s) a)) /\ ~ In t (doing (getn (ns s) a)) /\
     ~ In ALL (todo (getn (ns s) a)) /\ ~ In ALL (doing (getn (ns s) a))) ->
  (In ALL (todo (getn (ns s) x)) -> forall a, In a (anc (gi c x)) -> ~ In a (que s)) ->
  let s' := fst (dispatch c s) in
  ~ In t (todo (getn (ns s') x)) /\ In t (doing (getn (ns s') x)) /\
  exists m, In m (cluster s' ++ map snd (inflight s')) /\ m_job m = x /\ m_tgt m = t.
Proof.
  intros G A Hp Hx Ht Hnd Hanc Hall. cbn zeta.
  pose proof (dispatch_empties_jobs c s A) as J0. rewrite dispatch_is_fault0 in *.
  destruct (fault_progress c 0 s x t G A Hp Hx Ht Hnd Hanc Hall) as (P1 & P2 & [P3|[P3 _]]).
  - auto.
  - rewrite J0 in P3. contradiction.
Qed.

(* C01, bookkeeping level, any tick of any history *)
Lemma tick_release_safe_faults c xs e x t : is_tick e ->
  let s := xrun c (init c) xs in
  let s' := fst (xstep c s e) in
  In t (doing (getn (ns s') x)) -> ~ In t (doing (getn (ns s) x)) -> anc_idle c s' x t.
Proof.
  cbn zeta. intros T H N. destruct (fresh_now c xs e x t T N H) as (xs1 & e1 & xs2 & E & _ & F).
  (* the witness of fresh_now is this very tick *)
  destruct (tick_as_fault c (xrun c (init c) xs) e T) as [k Ek]. rewrite Ek in *.
  destruct (xrun_GInv c xs (init c) (init_GInv c)) as (_ & Q & _).
  destruct (active (xrun c (init c) xs)) eqn:A.
  - apply fault_release_safe; assumption.
  - rewrite dispatch_fault_inactive in H by exact A. contradiction.
Qed.
