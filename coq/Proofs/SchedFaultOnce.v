(* Proofs/SchedFaultOnce.v -- histories WITH refused run ids (Model/SchedFault.v):
   every release produces AT MOST ONE task message, over the whole history.

   A job kept by farm.dispatch after a refused run id can be released again
   before the retry and then sits on the farm's list twice (`SchedFault.rem1`,
   `_jobs.remove(j)` takes out one copy).  Counting, for a unit u = (x, t):

     released c s xs u   how often a dispatch of the history moved t from
                         pending to executing at node x (t not in doing before,
                         in doing after)
     sent c s xs u       how many task messages for u the dispatches of the
                         history made (growth of the multiset of units queued
                         for a worker or handed to one)
     pk c s u            what the farm still holds for u: t in the job's `do`
                         set (tasks, regressions), the number of copies of x
                         on the job list (analyses, t = all-targets)

   Theorem (no hypothesis on the history: any replies, rebuilds, refusals):
     sent + pk(end) <= released + pk(start),   from boot:  sent <= released.
   So a kept unit (pk = 1) has strictly fewer messages than releases so far: it
   has not been sent for THIS release, and the retry sends it once whatever the
   number of copies of the job on the list.  *)
From Coq Require Import List Arith ZArith Bool Lia Permutation.
From DV Require Import Model.Sched Model.SchedObs Model.SchedFault Proofs.SchedLib Proofs.SchedOrg
     Proofs.SchedBuild Proofs.SchedC05 Proofs.SchedC02 Proofs.SchedC11 Proofs.SchedBatch
     Proofs.SchedC03 Proofs.SchedC04 Proofs.SchedExact Proofs.SchedFaultProofs Proofs.SchedFaultInv.
Import ListNotations.

Definition cnt (u : node * tgt) (l : list (node * tgt)) : nat := length (filter (unit_eqb u) l).
Definition cntn (x : nat) (l : list nat) : nat := length (filter (Nat.eqb x) l).

Definition is_tickb (x : xev) : bool :=
  match x with Ev Tick => true | TickFault _ => true | _ => false end.

Definition rel_now (s s' : state) (u : node * tgt) : nat :=
  if negb (mem (snd u) (doing (getn (ns s) (fst u)))) && mem (snd u) (doing (getn (ns s') (fst u)))
  then 1 else 0.

Fixpoint sent (c : cfg) (s : state) (xs : list xev) (u : node * tgt) : nat :=
  match xs with
  | [] => 0
  | e :: r => let s' := fst (xstep c s e) in
              (if is_tickb e then cnt u (units s') - cnt u (units s) else 0) + sent c s' r u
  end.

Fixpoint released (c : cfg) (s : state) (xs : list xev) (u : node * tgt) : nat :=
  match xs with
  | [] => 0
  | e :: r => let s' := fst (xstep c s e) in
              (if is_tickb e then rel_now s s' u else 0) + released c s' r u
  end.

(* what the farm holds for u: the `do` part and the job-list part *)
Definition dpk (c : cfg) (s : state) (u : node * tgt) : nat :=
  if asp c (fst u) then 0 else if mem (snd u) (do_ (getn (ns s) (fst u))) then 1 else 0.
Definition apk (c : cfg) (js : list node) (u : node * tgt) : nat :=
  if asp c (fst u) && Nat.eqb (snd u) ALL then cntn (fst u) js else 0.
Definition pk (c : cfg) (s : state) (u : node * tgt) : nat := dpk c s u + apk c (jobs s) u.

Definition nodup_do (s : state) : Prop := forall x, NoDup (do_ (getn (ns s) x)).

(* ---- counting ---- *)
Lemma cnt_app u a b : cnt u (a ++ b) = cnt u a + cnt u b.
Proof. unfold cnt. rewrite filter_app, app_length. reflexivity. Qed.

Lemma cntn_app x a b : cntn x (a ++ b) = cntn x a + cntn x b.
Proof. unfold cntn. rewrite filter_app, app_length. reflexivity. Qed.

Lemma filter_perm {A} (f : A -> bool) l l' : Permutation l l' -> Permutation (filter f l) (filter f l').
Proof.
  induction 1; cbn [filter].
  - constructor.
  - destruct (f x); [constructor|]; assumption.
  - destruct (f x), (f y); try apply perm_swap; try reflexivity.
  - eapply Permutation_trans; eassumption.
Qed.

Lemma cnt_perm u l l' : Permutation l l' -> cnt u l = cnt u l'.
Proof. intros P. unfold cnt. apply Permutation_length. apply filter_perm. exact P. Qed.

Lemma cntn_perm x l l' : Permutation l l' -> cntn x l = cntn x l'.
Proof. intros P. unfold cntn. apply Permutation_length. apply filter_perm. exact P. Qed.

Lemma cntn_nodup x l : NoDup l -> cntn x l <= 1.
Proof.
  induction 1 as [|y l Ny N IH]; cbn; [lia|]. unfold cntn in *. cbn [filter].
  destruct (Nat.eqb x y) eqn:E; [|exact IH]. apply Nat.eqb_eq in E. subst y. cbn [length].
  assert (Z : filter (Nat.eqb x) l = []).
  { destruct (filter (Nat.eqb x) l) as [|z r] eqn:F; [reflexivity|exfalso].
    assert (I : In z (filter (Nat.eqb x) l)) by (rewrite F; left; reflexivity).
    apply filter_In in I. destruct I as [I Q]. apply Nat.eqb_eq in Q. subst z. contradiction. }
  rewrite Z. cbn. lia.
Qed.

Lemma cntn_pos_in x l : 0 < cntn x l -> In x l.
Proof.
  unfold cntn. intros H. destruct (filter (Nat.eqb x) l) as [|z r] eqn:F; [cbn in H; lia|].
  assert (I : In z (filter (Nat.eqb x) l)) by (rewrite F; left; reflexivity).
  apply filter_In in I. destruct I as [I Q]. apply Nat.eqb_eq in Q. subst z. exact I.
Qed.

Lemma cntn_mem x l : NoDup l -> cntn x l = if mem x l then 1 else 0.
Proof.
  intros N. pose proof (cntn_nodup x l N) as B. destruct (mem x l) eqn:M.
  - apply mem_In in M. assert (0 < cntn x l); [|lia].
    unfold cntn. destruct (filter (Nat.eqb x) l) as [|z r] eqn:F; [|cbn; lia]. exfalso.
    assert (I : In x (filter (Nat.eqb x) l)) by (apply filter_In; split; [exact M|apply Nat.eqb_refl]).
    rewrite F in I. exact I.
  - apply mem_false_In in M. destruct (cntn x l) eqn:C; [reflexivity|exfalso].
    apply M. apply cntn_pos_in. lia.
Qed.

(* messages of one job: units of a list of targets of node y *)
Lemma cnt_map_targets u y (f : tgt -> msg) l :
  (forall t, msg_unit (f t) = (y, t)) ->
  cnt u (map msg_unit (map f l)) = if Nat.eqb (fst u) y then cntn (snd u) l else 0.
Proof.
  intros Hf. induction l as [|t l IH]; cbn [map].
  - destruct (Nat.eqb (fst u) y); reflexivity.
  - unfold cnt, cntn in *. cbn [filter]. rewrite Hf. unfold unit_eqb at 1. cbn [fst snd].
    destruct (Nat.eqb (fst u) y) eqn:E; cbn [andb].
    + destruct (Nat.eqb (snd u) t); cbn [length]; rewrite IH; reflexivity.
    + exact IH.
Qed.

(* ---- one job of the put loop ---- *)
Definition job_rid (s : state) (y : node) : Z :=
  match rid (getn (ns s) y) with Some r => r | None => (stored s + 1)%Z end.
Definition msgs_of (c : cfg) (s : state) (y : node) : list msg :=
  let n := getn (ns s) y in
  match gfac (gi c y) with
  | Analysis => [{| m_job := y; m_tgt := ALL; m_rid := job_rid s y; m_fac := gfac (gi c y) |}]
  | Task => map (fun t => {| m_job := y; m_tgt := t; m_rid := job_rid s y; m_fac := gfac (gi c y) |}) (sort_nat (do_ n))
  | Regress => map (fun t => {| m_job := y; m_tgt := t; m_rid := 0%Z; m_fac := gfac (gi c y) |}) (sort_nat (do_ n))
  end.
Definition sent_ns (n : nstate) : nstate :=
  {| todo := todo n; doing := doing n; do_ := []; stat := Running; rid := rid n |}.

Lemma put_job_shape c s o y :
  cluster (fst (put_job c (s, o) y)) = cluster s ++ msgs_of c s y /\
  ns (fst (put_job c (s, o) y)) = setn (ns s) y (sent_ns (getn (ns s) y)).
Proof.
  unfold put_job, msgs_of, job_rid, sent_ns.
  destruct (rid (getn (ns s) y)); destruct (gfac (gi c y)); cbn [fst cluster ns set_farm set_ns]; split; reflexivity.
Qed.

Lemma msgs_of_count c s y u : NoDup (do_ (getn (ns s) y)) ->
  cnt u (map msg_unit (msgs_of c s y)) =
  if Nat.eqb (fst u) y
  then (if asp c y then (if Nat.eqb (snd u) ALL then 1 else 0)
        else if mem (snd u) (do_ (getn (ns s) y)) then 1 else 0)
  else 0.
Proof.
  intros ND. unfold msgs_of, asp.
  assert (T : cntn (snd u) (sort_nat (do_ (getn (ns s) y))) =
              if mem (snd u) (do_ (getn (ns s) y)) then 1 else 0).
  { rewrite (cntn_perm _ _ _ (sort_nat_perm _)). apply cntn_mem. exact ND. }
  destruct (gfac (gi c y)); cbn [fac_eqb].
  - rewrite (cnt_map_targets u y) by (intro; reflexivity). rewrite T. reflexivity.
  - unfold cnt, unit_eqb, msg_unit. cbn [map filter m_job m_tgt fst snd].
    destruct (Nat.eqb (fst u) y), (Nat.eqb (snd u) ALL); reflexivity.
  - rewrite (cnt_map_targets u y) by (intro; reflexivity). rewrite T. reflexivity.
Qed.

Lemma put_job_count c u s o y : nodup_do s ->
  let s1 := fst (put_job c (s, o) y) in
  nodup_do s1 /\
  cnt u (map msg_unit (msgs_of c s y)) + dpk c s1 u <= dpk c s u + apk c [y] u.
Proof.
  intros N. cbn zeta. destruct (put_job_shape c s o y) as [_ Ns].
  assert (G : forall z, getn (ns (fst (put_job c (s, o) y))) z =
              if Nat.eqb y z && (y <? length (ns s)) then sent_ns (getn (ns s) y) else getn (ns s) z).
  { intro z. rewrite Ns. apply getn_setn. }
  split.
  - intro z. rewrite G. destruct (Nat.eqb y z && _); [constructor|apply N].
  - rewrite (msgs_of_count c s y u (N y)). unfold dpk, apk. rewrite G. cbn [cntn filter].
    destruct (Nat.eqb (fst u) y) eqn:E.
    + apply Nat.eqb_eq in E. rewrite E. rewrite Nat.eqb_refl. cbn [andb].
      destruct (asp c y) eqn:A; cbn [andb].
      * unfold cntn. cbn [filter]. rewrite Nat.eqb_refl. destruct (Nat.eqb (snd u) ALL); cbn [length]; lia.
      * destruct (y <? length (ns s)) eqn:L.
        -- cbn [sent_ns do_ mem existsb]. destruct (mem (snd u) (do_ (getn (ns s) y))); lia.
        -- apply Nat.ltb_ge in L. rewrite (getn_oob _ _ L). cbn. lia.
    + rewrite (Nat.eqb_sym y (fst u)), E. cbn [andb].
      destruct (asp c (fst u)); [|destruct (mem _ _)]; lia.
Qed.

(* the put loop over the processed prefix *)
Lemma put_jobs_count c u : forall done s o, nodup_do s ->
  let s3 := fst (fold_left (put_job c) done (s, o)) in
  exists ms, cluster s3 = cluster s ++ ms /\ nodup_do s3 /\
    cnt u (map msg_unit ms) + dpk c s3 u <= dpk c s u + apk c done u.
Proof.
  induction done as [|y done IH]; intros s o N; cbn [fold_left].
  - exists []. cbn [fst]. rewrite app_nil_r. split; [reflexivity|]. split; [exact N|].
    unfold cnt. cbn. lia.
  - destruct (put_job_count c u s o y N) as [N1 C1]. destruct (put_job_shape c s o y) as [Cl _].
    destruct (put_job c (s, o) y) as [s1 o1] eqn:P. cbn [fst] in *.
    destruct (IH s1 o1 N1) as (ms & C2 & N2 & C3). cbn zeta in C3.
    exists (msgs_of c s y ++ ms). split; [rewrite C2, Cl, app_assoc; reflexivity|]. split; [exact N2|].
    rewrite map_app, cnt_app.
    assert (AP : apk c (y :: done) u = apk c [y] u + apk c done u).
    { unfold apk. destruct (asp c (fst u) && Nat.eqb (snd u) ALL); [|reflexivity].
      change (y :: done) with ([y] ++ done). apply cntn_app. }
    rewrite AP. lia.
Qed.

(* ---- the batch: what next_job_batch adds to the `do` sets and to the list ---- *)
Lemma release_rel_shape c q acc x :
  snd (release c q acc x) = snd acc \/ snd (release c q acc x) = snd acc ++ [x].
Proof.
  destruct acc as [l rel]. unfold release. destruct (todo (getn l x)); [left; reflexivity|].
  cbn [snd]. destruct (avail c l q x); [left|right]; reflexivity.
Qed.

Lemma release_fold_rel_nodup c q : forall xs acc, NoDup xs -> NoDup (snd acc) ->
  (forall y, In y (snd acc) -> ~ In y xs) -> NoDup (snd (fold_left (release c q) xs acc)).
Proof.
  induction xs as [|x xs IH]; intros acc Nx Na D; cbn [fold_left]; [exact Na|].
  apply NoDup_cons_iff in Nx. destruct Nx as [Nx1 Nx].
  apply IH; [exact Nx| |].
  - destruct (release_rel_shape c q acc x) as [E|E]; rewrite E; [exact Na|].
    eapply Permutation_NoDup; [apply Permutation_cons_append|]. constructor; [|exact Na].
    intro I. apply (D x I). left. reflexivity.
  - intros y I J. destruct (release_rel_shape c q acc x) as [E|E]; rewrite E in I.
    + apply (D y I). right. exact J.
    + apply in_app_or in I. destruct I as [I|[I|[]]].
      * apply (D y I). right. exact J.
      * subst y. contradiction.
Qed.

Lemma njb_rel_nodup c s : NoDup (que s) -> NoDup (snd (next_job_batch c s)).
Proof.
  intros N. unfold next_job_batch. destruct (paused s); [constructor|].
  pose proof (release_fold_rel_nodup c (que s) (que s) (ns s, []) N) as R. cbn [snd] in R.
  destruct (fold_left (release c (que s)) (que s) (ns s, [])) as [l rel]. cbn [snd] in *.
  apply (Permutation_NoDup (Permutation_sym (sort_lvl_perm c rel))). apply R; [constructor|intros y []].
Qed.

Lemma release_nodup_do c q acc x : (forall z, NoDup (do_ (getn (fst acc) z))) ->
  forall z, NoDup (do_ (getn (fst (release c q acc x)) z)).
Proof.
  destruct acc as [l rel]. cbn [fst]. intros N z. unfold release.
  destruct (todo (getn l x)); [apply N|]. cbn [fst]. rewrite getn_setn.
  destruct (Nat.eqb x z && _); [|apply N]. cbn [do_]. apply NoDup_addl. apply N.
Qed.

Lemma release_fold_nodup_do c q : forall xs acc, (forall z, NoDup (do_ (getn (fst acc) z))) ->
  forall z, NoDup (do_ (getn (fst (fold_left (release c q) xs acc)) z)).
Proof.
  induction xs as [|x xs IH]; intros acc N; cbn [fold_left]; [exact N|].
  apply IH. apply release_nodup_do. exact N.
Qed.

Lemma njb_nodup_do c s : nodup_do s -> nodup_do (fst (next_job_batch c s)).
Proof.
  intros N. unfold next_job_batch. destruct (paused s); [exact N|].
  pose proof (release_fold_nodup_do c (que s) (que s) (ns s, []) N) as R. cbn [fst] in R.
  destruct (fold_left (release c (que s)) (que s) (ns s, [])) as [l rel]. exact R.
Qed.

Lemma njb_count c s u : NoDup (que s) ->
  let s1 := fst (next_job_batch c s) in
  (forall t, asp c (fst u) = true -> In t (doing (getn (ns s1) (fst u))) -> t = ALL) ->
  dpk c s1 u + apk c (snd (next_job_batch c s)) u <= dpk c s u + rel_now s s1 u.
Proof.
  intros Nq s1 Ia. destruct u as [x t]. unfold dpk, apk, rel_now. cbn [fst snd] in *.
  destruct (njb_origin c s x) as [O1 O2]. fold s1 in O1, O2.
  destruct (asp c x) eqn:A; cbn [andb].
  - destruct (Nat.eqb t ALL) eqn:T; [|lia]. apply Nat.eqb_eq in T. subst t.
    pose proof (cntn_nodup x _ (njb_rel_nodup c s Nq)) as B.
    destruct (cntn x (snd (next_job_batch c s))) as [|k] eqn:C; [lia|].
    assert (I : In x (snd (next_job_batch c s))) by (apply cntn_pos_in; lia).
    destruct (O2 I) as (t' & H1 & H2). assert (t' = ALL) by (apply Ia; [reflexivity|exact H2]). subst t'.
    apply mem_false_In in H1. apply mem_In in H2. rewrite H1, H2. cbn. lia.
  - destruct (mem t (do_ (getn (ns s1) x))) eqn:M; [|lia].
    apply mem_In in M. apply O1 in M. destruct M as [M|[H1 H2]].
    + apply mem_In in M. rewrite M. lia.
    + apply mem_false_In in H1. apply mem_In in H2. rewrite H1, H2. cbn. lia.
Qed.

(* ---- one dispatch (with or without a refused request) ---- *)
Lemma dpk_ns c a b u : ns a = ns b -> dpk c a u = dpk c b u.
Proof. intros E. unfold dpk. rewrite E. reflexivity. Qed.

Lemma apk_app c a b u : apk c (a ++ b) u = apk c a u + apk c b u.
Proof. unfold apk. destruct (asp c (fst u) && Nat.eqb (snd u) ALL); [apply cntn_app|reflexivity]. Qed.

Lemma units_after_handout (cl0 ms cl : list msg) (fl : list (wid * msg)) (ws : list wid) n u :
  Permutation cl (cl0 ++ ms) -> length ws = length (firstn n cl) ->
  cnt u (map msg_unit (skipn n cl ++ map snd (fl ++ combine ws (firstn n cl)))) =
  cnt u (map msg_unit (cl0 ++ map snd fl)) + cnt u (map msg_unit ms).
Proof.
  intros P L.
  replace (map snd (fl ++ combine ws (firstn n cl))) with (map snd fl ++ firstn n cl)
    by (rewrite (map_app snd), (map_snd_combine _ _ L); reflexivity).
  rewrite <- cnt_app, <- map_app. apply cnt_perm. apply Permutation_map.
  eapply Permutation_trans; [apply Permutation_app_comm|]. rewrite <- app_assoc, firstn_skipn.
  eapply Permutation_trans; [apply Permutation_app_comm|].
  eapply Permutation_trans; [apply Permutation_app_tail; exact P|].
  rewrite <- !app_assoc. apply Permutation_app_head. apply Permutation_app_comm.
Qed.

Lemma tick_count c k s u : GInv c s -> NoDup (que s) -> nodup_do s ->
  let s' := fst (dispatch_fault c k s) in
  nodup_do s' /\
  (cnt u (units s') - cnt u (units s)) + pk c s' u <= rel_now s s' u + pk c s u.
Proof.
  intros G Nq Nd. cbn zeta. destruct (active s) eqn:A.
  2:{ rewrite dispatch_fault_inactive by exact A. cbn [fst]. split; [exact Nd|]. rewrite Nat.sub_diag. lia. }
  destruct G as (Hl & Q & Ia).
  pose proof (dispatch_fault_I_aspd c k s Ia) as Ia'.
  destruct (dispatch_fault_spec c k s A) as (done & rest & raised & s3 & o1 & E & _ & F & S).
  cbn zeta in S. destruct S as (Ns & _ & Js & Cs & Fs & _).
  destruct (after_batch_fields c s) as (N2 & _ & J2 & C2 & _).
  assert (Nd2 : nodup_do (after_batch c s)).
  { intro z. rewrite N2. apply njb_nodup_do. exact Nd. }
  match type of F with fold_left _ _ (_, ?o0) = _ =>
    destruct (put_jobs_count c u done (after_batch c s) o0 Nd2) as (ms & C3 & N3 & K3) end.
  rewrite F in C3, N3, K3. cbn [fst] in C3, N3, K3. rewrite C2 in C3.
  split; [intro z; rewrite Ns; apply N3|].
  (* units *)
  assert (U : cnt u (units (fst (dispatch_fault c k s))) = cnt u (units s) + cnt u (map msg_unit ms)).
  { unfold units. rewrite Cs, Fs. apply units_after_handout.
    - rewrite cluster_sort_perm, C3. reflexivity.
    - rewrite map_length, !firstn_length. lia. }
  rewrite U.
  (* the batch *)
  assert (Ex : doing (getn (ns (fst (dispatch_fault c k s))) (fst u)) =
               doing (getn (ns (fst (next_job_batch c s))) (fst u))).
  { destruct (dispatch_fault_todo c k s (fst u) A) as [_ Ex]. exact Ex. }
  assert (B : dpk c (fst (next_job_batch c s)) u + apk c (snd (next_job_batch c s)) u <=
              dpk c s u + rel_now s (fst (next_job_batch c s)) u).
  { apply njb_count; [exact Nq|]. intros t Ha H. apply (Ia' (fst u) t Ha). right. rewrite Ex. exact H. }
  assert (R : rel_now s (fst (dispatch_fault c k s)) u = rel_now s (fst (next_job_batch c s)) u).
  { unfold rel_now. rewrite Ex. reflexivity. }
  rewrite R. unfold pk. rewrite Js, (dpk_ns c _ s3 u Ns).
  rewrite (dpk_ns c (after_batch c s) (fst (next_job_batch c s)) u N2) in K3.
  pose proof (apk_app c (jobs s) (snd (next_job_batch c s)) u) as P1.
  pose proof (apk_app c done rest u) as P2. rewrite <- E in P2. lia.
Qed.

(* ---- every other event: the farm holds no more than before ---- *)
Lemma res_nodup_do c x t r o vs s : length (ns s) = nnodes c -> nodup_do s ->
  nodup_do (fst (res c x t r o vs s)).
Proof.
  intros Hl N. unfold res. destruct (mem x (que (set_busy s _))); [|exact N].
  set (s1 := set_busy s _).
  assert (D2 : nodup_do (complete c x t s1)).
  { intro y. rewrite ns_complete. unfold s1. cbn [ns set_busy]. rewrite getn_setn.
    destruct (Nat.eqb x y && _); [cbn [cz do_]|]; apply N. }
  assert (L2 : length (ns (complete c x t s1)) = nnodes c)
    by (rewrite ns_complete; unfold s1; cbn [ns set_busy]; rewrite setn_length; exact Hl).
  assert (PG : nodup_do (purge c x t (complete c x t s1))).
  { intro y. unfold purge. cbn [ns set_ns]. rewrite getn_fold_purge.
    destruct (mem y _); [cbn [pz do_]; apply NoDup_rem|]; apply D2. }
  destruct o; cbn [fst]; [|exact PG|exact PG].
  unfold update. destruct vs as [|v vs]; [exact D2|].
  match goal with |- context [organize c ?nm ?rr ?tg ?s3] =>
    destruct (organize_spec c nm rr tg s3 L2) as (_ & _ & D & _) end.
  intro y. destruct (D y) as [_ Dy]. rewrite Dy. apply D2.
Qed.

Lemma step_nodup_do c s e : length (ns s) = nnodes c -> e <> Tick -> nodup_do s ->
  nodup_do (fst (step c s e)).
Proof.
  intros Hl Ne N. destruct e; cbn [step]; try (cbn [fst]; exact N); try congruence.
  - cbn [fst]. destruct (organize_spec c names r tg s Hl) as (_ & _ & D & _).
    intro y. destruct (D y) as [_ Dy]. rewrite Dy. apply N.
  - pose proof (res_nodup_do c x t r o values s Hl N) as D.
    destruct (res c x t r o values s) as [s' outs]. cbn [fst ns set_farm] in *. exact D.
  - unfold reg. destruct rev_ok; cbn [fst]; exact N.
  - unfold poll. destruct (rev_ok && active s); cbn [fst]; exact N.
  - cbn [fst]. intro y. destruct (build_exact c changed s) as (_ & _ & D & _). destruct (D y) as [_ Dy].
    rewrite Dy. constructor.
Qed.

Lemma step_pk c s e u : length (ns s) = nnodes c -> e <> Tick ->
  pk c (fst (step c s e)) u <= pk c s u.
Proof.
  intros Hl Ne. destruct (step_do_sub c s e Hl Ne) as [D J]. unfold pk, dpk. rewrite J.
  destruct (asp c (fst u)); [lia|].
  destruct (mem (snd u) (do_ (getn (ns (fst (step c s e))) (fst u)))) eqn:M; [|lia].
  apply mem_In in M. apply D in M. apply mem_In in M. rewrite M. lia.
Qed.

(* ---- the invariant and one step ---- *)
Lemma ev_tick_dec (e : ev) : e = Tick \/ e <> Tick.
Proof. destruct e; try (right; discriminate). left. reflexivity. Qed.

Definition Once (c : cfg) (s : state) : Prop := GInv c s /\ NoDup (que s) /\ nodup_do s.

Lemma xstep_once c s e u : Once c s ->
  let s' := fst (xstep c s e) in
  Once c s' /\
  (if is_tickb e then cnt u (units s') - cnt u (units s) else 0) + pk c s' u <=
  (if is_tickb e then rel_now s s' u else 0) + pk c s u.
Proof.
  intros (G & Nq & Nd). cbn zeta.
  assert (TK : forall k, Once c (fst (dispatch_fault c k s)) /\
            (cnt u (units (fst (dispatch_fault c k s))) - cnt u (units s)) + pk c (fst (dispatch_fault c k s)) u <=
            rel_now s (fst (dispatch_fault c k s)) u + pk c s u).
  { intro k. destruct (tick_count c k s u G Nq Nd) as [N' C']. split; [|exact C'].
    split; [apply (xstep_GInv c s (TickFault k) G)|]. split; [rewrite dispatch_fault_que; exact Nq|exact N']. }
  destruct e as [e|k]; [|cbn [is_tickb xstep]; apply TK].
  destruct (ev_tick_dec e) as [->|Ne].
  - cbn [is_tickb]. rewrite xstep_ev. cbn [step]. rewrite dispatch_is_fault0. apply TK.
  - assert (T : is_tickb (Ev e) = false) by (destruct e; try reflexivity; congruence).
    rewrite T, xstep_ev. destruct G as (Hl & Q & Ia). split.
    + pose proof (xstep_GInv c s (Ev e) (conj Hl (conj Q Ia))) as G'. rewrite xstep_ev in G'.
      split; [exact G'|]. split; [apply step_que_nodup; exact Nq|apply step_nodup_do; assumption].
    + pose proof (step_pk c s e u Hl Ne). lia.
Qed.

(* ---- whole histories ---- *)
Theorem once_run c u : forall xs s, Once c s ->
  sent c s xs u + pk c (xrun c s xs) u <= released c s xs u + pk c s u.
Proof.
  induction xs as [|e xs IH]; intros s O; cbn [sent released xrun]; [lia|].
  destruct (xstep_once c s e u O) as [O' C']. specialize (IH _ O'). lia.
Qed.

Lemma init_once c : Once c (init c).
Proof.
  split; [apply init_GInv|]. split; [constructor|].
  intro x. cbn [init ns]. rewrite getn_repeat. constructor.
Qed.

Lemma init_pk c u : pk c (init c) u = 0.
Proof.
  unfold pk, dpk, apk. cbn [init ns jobs]. rewrite getn_repeat. cbn.
  destruct (asp c (fst u)); cbn; [destruct (Nat.eqb (snd u) ALL)|]; reflexivity.
Qed.

Theorem sent_le_released c xs u :
  sent c (init c) xs u + pk c (xrun c (init c) xs) u <= released c (init c) xs u.
Proof. pose proof (once_run c u xs (init c) (init_once c)) as H. rewrite init_pk in H. lia. Qed.
