(* Model/SchedFault.v: a history without refused run ids is a Sched history;
   a refused run id loses no job; the next ordinary dispatch empties the
   farm's job list again. *)
From Coq Require Import List Arith ZArith Bool Lia.
From DV Require Import Model.Sched Model.SchedObs Model.SchedFault.
Import ListNotations.

(* ---- histories without TickFault are Sched histories ---- *)
Lemma xrun_erase c : forall xs es s, erase xs = Some es -> xrun c s xs = fst (run c s es).
Proof.
  induction xs as [|x r IH]; intros es s E; cbn [erase] in E.
  - inversion E; subst. reflexivity.
  - destruct x as [e|k]; [|discriminate].
    destruct (erase r) as [er|] eqn:Er; [|discriminate]. cbn [option_map] in E. inversion E; subst.
    cbn [xrun xstep run]. destruct (step c s e) as [s1 o] eqn:S1. cbn [fst].
    rewrite (IH er s1 eq_refl). destruct (run c s1 er) as [s2 os]. reflexivity.
Qed.

(* ---- put_job touches the job list only by removing its own job ---- *)
Lemma put_job_jobs c acc x : jobs (fst (put_job c acc x)) = rem x (jobs (fst acc)).
Proof.
  destruct acc as [s o]. unfold put_job.
  destruct (rid (getn (ns s) x)); destruct (gfac (gi c x)); reflexivity.
Qed.

Lemma rem_rem_comm x y l : rem x (rem y l) = rem y (rem x l).
Proof.
  unfold rem. induction l as [|a l IH]; cbn [filter]; [reflexivity|].
  destruct (a =? y) eqn:Ey; destruct (a =? x) eqn:Ex; cbn [negb filter]; rewrite ?Ey, ?Ex; cbn [negb];
    rewrite ?IH; reflexivity.
Qed.

Lemma put_jobs_jobs c js : forall acc,
  jobs (fst (fold_left (put_job c) js acc)) = fold_left (fun l x => rem x l) js (jobs (fst acc)).
Proof.
  induction js as [|x js IH]; intros acc; cbn [fold_left]; [reflexivity|].
  rewrite IH, put_job_jobs. reflexivity.
Qed.

Lemma rem_all_nil js : forall l, (forall x, In x l -> In x js) -> fold_left (fun l x => rem x l) js l = [].
Proof.
  induction js as [|x js IH]; intros l H; cbn [fold_left].
  - destruct l as [|a l]; [reflexivity|]. exfalso. apply (H a). left. reflexivity.
  - apply IH. intros y Hy. unfold rem in Hy. apply filter_In in Hy. destruct Hy as [Hy Hn].
    destruct (H y Hy) as [E|E]; [|exact E]. subst y. rewrite Nat.eqb_refl in Hn. discriminate.
Qed.

(* ---- recovery: whatever the farm still holds (jobs kept by a refused run id
   included), an ordinary dispatch of an active pipeline turns every job into
   messages: the farm's job list is empty afterwards ---- *)
Theorem dispatch_empties_jobs c s : active s = true -> jobs (fst (dispatch c s)) = [].
Proof.
  intros A. unfold dispatch. rewrite A. cbn [negb].
  destruct (next_job_batch c s) as [s1 rel].
  set (s2 := set_farm s1 (jobs s1 ++ rel) (cluster s1) (busy s1) (workers s1) (inflight s1)).
  set (o0 := if archive s2 && _ then [OArchive] else []).
  pose proof (put_jobs_jobs c (jobs s2) (s2, o0)) as P.
  destruct (fold_left (put_job c) (jobs s2) (s2, o0)) as [s3 o1]. cbn [fst] in P.
  destruct (hand_out _ _ _ _ _) as [[[[cl' w'] b'] fl'] o2].
  assert (J : jobs s3 = []) by (rewrite P; apply rem_all_nil; auto).
  destruct (archive s2 && _); cbn [fst jobs set_farm set_flags]; exact J.
Qed.

(* ---- a refused run id loses no job: the loop stops at the job whose request
   is refused; that job and all later ones are still held, untouched ---- *)
Lemma put_job_ns_other c acc x y : y <> x -> getn (ns (fst (put_job c acc x))) y = getn (ns (fst acc)) y.
Proof.
  intros N. destruct acc as [s o]. unfold put_job.
  assert (G : forall v, getn (setn (ns s) x v) y = getn (ns s) y).
  { intros v. unfold getn. revert x y N. generalize (ns s). induction l as [|a l IH]; intros x y N.
    - destruct x; reflexivity.
    - destruct x as [|x]; destruct y as [|y]; cbn [setn nth]; try reflexivity; [congruence|].
      apply IH. congruence. }
  destruct (rid (getn (ns s) x)); destruct (gfac (gi c x)); cbn [fst ns set_farm set_ns]; apply G.
Qed.

Lemma put_job1_ns c acc x : ns (fst (put_job1 c acc x)) = ns (fst (put_job c acc x)).
Proof. unfold put_job1. destruct (put_job c acc x) as [s' o]. reflexivity. Qed.

Lemma put_job1_jobs c acc x : jobs (fst (put_job1 c acc x)) = rem1 x (jobs (fst acc)).
Proof. unfold put_job1. destruct (put_job c acc x) as [s' o]. reflexivity. Qed.

Lemma rem1_other x y l : y <> x -> In y l -> In y (rem1 x l).
Proof.
  intros N. induction l as [|a l IH]; cbn [rem1 In]; [tauto|].
  destruct (a =? x) eqn:E.
  - apply Nat.eqb_eq in E. subst a. intros [H|H]; [congruence|exact H].
  - cbn [In]. intros [H|H]; [left; exact H|right; apply IH; exact H].
Qed.

Theorem fault_keeps_jobs c : forall js k acc acc' raised,
  NoDup js ->
  put_jobs_fault c k js acc = (acc', raised) ->
  raised = true ->
  exists done kept x,
    js = done ++ x :: kept /\
    (* the job at which the request was refused, and every later one, is
       exactly as next_job_batch left it (its released targets still in do_) *)
    (forall y, In y (x :: kept) -> getn (ns (fst acc')) y = getn (ns (fst acc)) y) /\
    (* and is still on the farm's list if it was before *)
    (forall y, In y (x :: kept) -> In y (jobs (fst acc)) -> In y (jobs (fst acc'))).
Proof.
  induction js as [|x js IH]; intros k acc acc' raised ND H R; cbn [put_jobs_fault] in H.
  - inversion H; subst. discriminate.
  - apply NoDup_cons_iff in ND. destruct ND as [Nx ND'].
    assert (STEP : forall k', put_jobs_fault c k' js (put_job1 c acc x) = (acc', raised) ->
              exists done kept x0, x :: js = done ++ x0 :: kept /\
                (forall y, In y (x0 :: kept) -> getn (ns (fst acc')) y = getn (ns (fst acc)) y) /\
                (forall y, In y (x0 :: kept) -> In y (jobs (fst acc)) -> In y (jobs (fst acc')))).
    { intros k' H'. destruct (IH k' (put_job1 c acc x) acc' raised ND' H' R) as (dn & kp & x0 & E & G & J).
      exists (x :: dn), kp, x0. split; [rewrite E; reflexivity|].
      assert (NI : forall y, In y (x0 :: kp) -> y <> x).
      { intros y Hy Ey. subst y. apply Nx. rewrite E. apply in_or_app. right. exact Hy. }
      split.
      - intros y Hy. rewrite (G y Hy). rewrite put_job1_ns. apply put_job_ns_other. apply NI. exact Hy.
      - intros y Hy Hj. apply (J y Hy). rewrite put_job1_jobs. apply rem1_other; [apply NI; exact Hy|exact Hj]. }
    destruct (rid (getn (ns (fst acc)) x)) as [r|] eqn:Rx.
    + apply (STEP k). exact H.
    + destruct k as [|[|k']].
      * apply (STEP 0). exact H.
      * inversion H; subst. exists [], js, x. split; [reflexivity|]. split; auto.
      * apply (STEP (S k')). exact H.
Qed.
