(* Small lemma library for the scheduler model: list sets (mem/add/addl/rem),
   per-node state vectors (getn/setn), stable insertion sort. *)
From Coq Require Import List Arith ZArith Bool Lia.
From DV Require Import Model.Sched.
Import ListNotations.

Lemma mem_In t l : mem t l = true <-> In t l.
Proof.
  unfold mem. rewrite existsb_exists. split.
  - intros [u [Hu E]]. apply Nat.eqb_eq in E. subst. exact Hu.
  - intros H. exists t. split; [exact H | apply Nat.eqb_refl].
Qed.

Lemma mem_false_In t l : mem t l = false <-> ~ In t l.
Proof. rewrite <- mem_In. destruct (mem t l); split; congruence. Qed.

Lemma mem_app t a b : mem t (a ++ b) = mem t a || mem t b.
Proof. unfold mem. apply existsb_app. Qed.

Lemma mem_cons t u l : mem t (u :: l) = Nat.eqb t u || mem t l.
Proof. reflexivity. Qed.

Lemma mem_add t u l : mem t (add u l) = Nat.eqb t u || mem t l.
Proof.
  unfold add. destruct (mem u l) eqn:E.
  - destruct (Nat.eqb t u) eqn:Q; [|reflexivity]. apply Nat.eqb_eq in Q. subst. rewrite E. reflexivity.
  - rewrite mem_app. cbn [mem existsb]. rewrite orb_false_r. apply orb_comm.
Qed.

Lemma In_add t u l : In t (add u l) <-> t = u \/ In t l.
Proof.
  rewrite <- !mem_In, mem_add, orb_true_iff, Nat.eqb_eq. reflexivity.
Qed.

Lemma mem_addl t us : forall l, mem t (addl us l) = mem t us || mem t l.
Proof.
  induction us as [|u us IH]; intros l; cbn [addl fold_left]; [reflexivity|].
  fold (addl us (add u l)). rewrite IH, mem_add, mem_cons.
  destruct (Nat.eqb t u), (mem t us), (mem t l); reflexivity.
Qed.

Lemma In_addl t us l : In t (addl us l) <-> In t us \/ In t l.
Proof. rewrite <- !mem_In, mem_addl, orb_true_iff. reflexivity. Qed.

Lemma mem_rem t u l : mem t (rem u l) = mem t l && negb (Nat.eqb t u).
Proof.
  unfold rem. induction l as [|a l IH]; [reflexivity|].
  cbn [filter]. destruct (Nat.eqb a u) eqn:E; cbn [negb].
  - rewrite IH, mem_cons. apply Nat.eqb_eq in E. subst a.
    destruct (Nat.eqb t u); cbn; [rewrite andb_false_r; reflexivity | reflexivity].
  - rewrite !mem_cons, IH. destruct (Nat.eqb t a) eqn:Q; cbn; [|reflexivity].
    apply Nat.eqb_eq in Q. subst a. rewrite E. reflexivity.
Qed.

Lemma In_rem t u l : In t (rem u l) <-> In t l /\ t <> u.
Proof.
  rewrite <- !mem_In, mem_rem, andb_true_iff, negb_true_iff, Nat.eqb_neq. reflexivity.
Qed.

Lemma rem_nil_iff u l : rem u l = [] <-> (forall t, In t l -> t = u).
Proof.
  split.
  - intros H t Ht. destruct (Nat.eq_dec t u) as [|N]; [assumption|].
    assert (In t (rem u l)) by (apply In_rem; auto). rewrite H in *. contradiction.
  - intros H. destruct (rem u l) as [|a r] eqn:E; [reflexivity|].
    assert (In a (rem u l)) by (rewrite E; left; reflexivity).
    apply In_rem in H0. destruct H0 as [Ha Hn]. apply H in Ha. contradiction.
Qed.

(* ---- getn / setn ---- *)
Lemma setn_length l x v : length (setn l x v) = length l.
Proof. revert x; induction l as [|a l IH]; intros [|x]; cbn; auto. Qed.

Lemma getn_setn_same l x v : x < length l -> getn (setn l x v) x = v.
Proof.
  unfold getn. revert x; induction l as [|a l IH]; intros [|x] H; cbn in *; try lia; auto.
  apply IH. lia.
Qed.

Lemma getn_setn_other l x y v : x <> y -> getn (setn l x v) y = getn l y.
Proof.
  unfold getn. revert x y; induction l as [|a l IH]; intros [|x] [|y] H; cbn; try congruence; auto.
Qed.

Lemma getn_setn l x y v :
  getn (setn l x v) y = if Nat.eqb x y && (x <? length l) then v else getn l y.
Proof.
  destruct (Nat.eqb x y) eqn:E; cbn [andb].
  - apply Nat.eqb_eq in E. subst y. destruct (x <? length l) eqn:L.
    + apply Nat.ltb_lt in L. apply getn_setn_same. exact L.
    + apply Nat.ltb_ge in L. unfold getn.
      assert (setn l x v = l) as ->; [|reflexivity].
      revert x L. induction l as [|a l IH]; intros [|x] L; cbn in *; try lia; auto.
      f_equal. apply IH. lia.
  - apply Nat.eqb_neq in E. apply getn_setn_other. exact E.
Qed.

Lemma getn_oob l x : length l <= x -> getn l x = dflt_ns.
Proof. intros H. unfold getn. apply nth_overflow. exact H. Qed.

Lemma getn_repeat n x : getn (repeat dflt_ns n) x = dflt_ns.
Proof.
  unfold getn. revert x. induction n as [|n IH]; intros [|x]; cbn; auto.
Qed.

(* ---- stable insertion sort is a permutation (membership only) ---- *)
Lemma In_ins_lvl c x y l : In y (ins_lvl c x l) <-> y = x \/ In y l.
Proof.
  induction l as [|a l IH]; cbn [ins_lvl].
  - cbn. intuition.
  - destruct (lvl (gi c x) <? lvl (gi c a)); cbn [In]; [intuition|]. rewrite IH. intuition.
Qed.

Lemma In_sort_lvl_aux c l : forall acc y,
  In y (fold_left (fun a x => ins_lvl c x a) l acc) <-> In y l \/ In y acc.
Proof.
  induction l as [|x l IH]; intros acc y; cbn [fold_left].
  - cbn. intuition.
  - rewrite IH, In_ins_lvl. cbn [In]. intuition.
Qed.

Lemma In_sort_lvl c l y : In y (sort_lvl c l) <-> In y l.
Proof. unfold sort_lvl. rewrite In_sort_lvl_aux. cbn. intuition. Qed.

Lemma In_ins_nat x y l : In y (ins_nat x l) <-> y = x \/ In y l.
Proof.
  induction l as [|a l IH]; cbn [ins_nat].
  - cbn. intuition.
  - destruct (x <? a); cbn [In]; [intuition|]. rewrite IH. intuition.
Qed.

Lemma In_sort_nat_aux l : forall acc y,
  In y (fold_left (fun a x => ins_nat x a) l acc) <-> In y l \/ In y acc.
Proof.
  induction l as [|x l IH]; intros acc y; cbn [fold_left].
  - cbn. intuition.
  - rewrite IH, In_ins_nat. cbn [In]. intuition.
Qed.

Lemma In_sort_nat l y : In y (sort_nat l) <-> In y l.
Proof. unfold sort_nat. rewrite In_sort_nat_aux. cbn. intuition. Qed.

(* ---- the scheduler functions never touch the farm fields ---- *)
Definition same_farm (s s' : state) : Prop :=
  cluster s' = cluster s /\ workers s' = workers s /\ jobs s' = jobs s /\ inflight s' = inflight s /\
  archive s' = archive s /\ active s' = active s /\ paused s' = paused s /\ stored s' = stored s /\
  busy s' = busy s.

Lemma same_farm_refl s : same_farm s s.
Proof. unfold same_farm. repeat split; reflexivity. Qed.

Lemma same_farm_trans a b d : same_farm a b -> same_farm b d -> same_farm a d.
Proof. unfold same_farm. intuition congruence. Qed.

Lemma organize1_farm c r tg s x : same_farm s (organize1 c r tg s x).
Proof.
  unfold organize1. destruct (nnodes c <=? x); [apply same_farm_refl|].
  unfold same_farm. cbn. repeat split; reflexivity.
Qed.

Lemma organize_fold_farm c r tg names : forall s, same_farm s (fold_left (organize1 c r tg) names s).
Proof.
  induction names as [|x names IH]; intros s; cbn [fold_left]; [apply same_farm_refl|].
  eapply same_farm_trans; [apply organize1_farm | apply IH].
Qed.

Lemma organize_farm c names r tg s : same_farm s (organize c names r tg s).
Proof.
  unfold organize. eapply same_farm_trans; [apply organize_fold_farm|].
  unfold same_farm. cbn. repeat split; reflexivity.
Qed.

Lemma complete_farm c x t s : same_farm s (complete c x t s).
Proof.
  unfold complete, same_farm. cbn zeta.
  destruct (todo (getn (ns s) x)); destruct (if t =? ALL then [] else rem t (doing (getn (ns s) x)));
  cbn; repeat split; reflexivity.
Qed.

Lemma purge_farm c x t s : same_farm s (purge c x t s).
Proof. unfold purge, same_farm. cbn. repeat split; reflexivity. Qed.

Lemma update_farm c vs x r s : same_farm s (update c vs x r s).
Proof. unfold update. destruct vs; [apply same_farm_refl | apply organize_farm]. Qed.

Lemma build_farm c ch s : same_farm s (build c ch s).
Proof.
  unfold build. eapply same_farm_trans; [|apply organize_farm].
  unfold same_farm. cbn. repeat split; reflexivity.
Qed.
