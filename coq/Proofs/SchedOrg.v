(* Characterisation of schedule.organize (membership level), used by C02, C15, C01, C04. *)
From Coq Require Import List Arith ZArith Bool Lia.
From DV Require Import Model.Sched Proofs.SchedLib.
Import ListNotations.

(* the targets organize adds to node x for the target argument tg *)
Definition tgt_added (c : cfg) (x : node) (tg : list tgt) (t : tgt) : Prop :=
  if asp c x then t = ALL else if mem ALL tg then In t (gtargets c) else In t tg.

Lemma organize1_len c r tg s x : length (ns (organize1 c r tg s x)) = length (ns s).
Proof. unfold organize1. destruct (nnodes c <=? x); [reflexivity|]. cbn. apply setn_length. Qed.

Lemma organize1_getn c r tg s x y :
  getn (ns (organize1 c r tg s x)) y =
  if Nat.eqb x y && (x <? nnodes c) && (x <? length (ns s)) then
    let n := getn (ns s) x in
    {| todo := if asp c x then add ALL (todo n)
               else if mem ALL tg then addl (gtargets c) (todo n) else addl tg (todo n);
       doing := doing n; do_ := do_ n;
       stat := if status_eqb (stat n) Running then Running else Waiting; rid := r |}
  else getn (ns s) y.
Proof.
  unfold organize1. destruct (nnodes c <=? x) eqn:L.
  - apply Nat.leb_le in L. assert (x <? nnodes c = false) as -> by (apply Nat.ltb_ge; lia).
    rewrite andb_false_r. reflexivity.
  - apply Nat.leb_gt in L. assert (x <? nnodes c = true) as -> by (apply Nat.ltb_lt; lia).
    rewrite andb_true_r. cbn [ns set_que set_ns]. rewrite getn_setn. reflexivity.
Qed.

Lemma organize1_todo c r tg s x y t : length (ns s) = nnodes c ->
  In t (todo (getn (ns (organize1 c r tg s x)) y)) <->
  In t (todo (getn (ns s) y)) \/ (x = y /\ x < nnodes c /\ tgt_added c x tg t).
Proof.
  intros Hl. rewrite organize1_getn, Hl. destruct (x =? y) eqn:E; cbn [andb].
  - apply Nat.eqb_eq in E. subst y. destruct (x <? nnodes c) eqn:L; cbn [andb].
    + apply Nat.ltb_lt in L. cbn [todo]. unfold tgt_added. destruct (asp c x).
      * rewrite In_add. intuition.
      * destruct (mem ALL tg); rewrite In_addl; intuition.
    + apply Nat.ltb_ge in L. intuition; lia.
  - apply Nat.eqb_neq in E. intuition; congruence.
Qed.

Lemma organize1_doing c r tg s x y :
  doing (getn (ns (organize1 c r tg s x)) y) = doing (getn (ns s) y) /\
  do_ (getn (ns (organize1 c r tg s x)) y) = do_ (getn (ns s) y).
Proof.
  rewrite organize1_getn. destruct (_ && _ && _) eqn:E; [|split; reflexivity].
  apply andb_true_iff in E. destruct E as [E _]. apply andb_true_iff in E. destruct E as [E _].
  apply Nat.eqb_eq in E. subst y. split; reflexivity.
Qed.

Lemma organize1_que c r tg s x z :
  In z (que (organize1 c r tg s x)) <-> In z (que s) \/ (z = x /\ x < nnodes c).
Proof.
  unfold organize1. destruct (nnodes c <=? x) eqn:L.
  - apply Nat.leb_le in L. intuition; lia.
  - apply Nat.leb_gt in L. cbn [que set_que]. rewrite In_add. intuition.
Qed.

Lemma organize_fold c r tg names : forall s, length (ns s) = nnodes c ->
  let s' := fold_left (organize1 c r tg) names s in
  length (ns s') = nnodes c /\
  (forall y t, In t (todo (getn (ns s') y)) <->
     In t (todo (getn (ns s) y)) \/ (In y names /\ y < nnodes c /\ tgt_added c y tg t)) /\
  (forall y, doing (getn (ns s') y) = doing (getn (ns s) y) /\ do_ (getn (ns s') y) = do_ (getn (ns s) y)) /\
  (forall z, In z (que s') <-> In z (que s) \/ (In z names /\ z < nnodes c)).
Proof.
  induction names as [|x names IH]; intros s Hl; cbn [fold_left].
  - split; [exact Hl|]. split; [intros; cbn; intuition|]. split; [intros; split; reflexivity|].
    intros; cbn; intuition.
  - assert (Hl1 : length (ns (organize1 c r tg s x)) = nnodes c) by (rewrite organize1_len; exact Hl).
    destruct (IH _ Hl1) as (L & T & D & Q). split; [exact L|]. split; [|split].
    + intros y t. rewrite T, organize1_todo by exact Hl. cbn [In]. intuition; subst; auto.
    + intros y. destruct (D y) as [D1 D2]. destruct (organize1_doing c r tg s x y) as [E1 E2].
      split; congruence.
    + intros z. rewrite Q, organize1_que. cbn [In]. intuition; subst; auto.
Qed.

Lemma organize_spec c names r tg s : length (ns s) = nnodes c ->
  let s' := organize c names r tg s in
  length (ns s') = nnodes c /\
  (forall y t, In t (todo (getn (ns s') y)) <->
     In t (todo (getn (ns s) y)) \/ (In y names /\ y < nnodes c /\ tgt_added c y tg t)) /\
  (forall y, doing (getn (ns s') y) = doing (getn (ns s) y) /\ do_ (getn (ns s') y) = do_ (getn (ns s) y)) /\
  (forall z, In z (que s') <-> In z (que s) \/ (In z names /\ z < nnodes c)).
Proof.
  intros Hl. unfold organize. cbn [ns que set_que].
  destruct (organize_fold c r tg names s Hl) as (L & T & D & Q).
  split; [exact L|]. split; [exact T|]. split; [exact D|].
  intros z. rewrite In_sort_lvl. apply Q.
Qed.
