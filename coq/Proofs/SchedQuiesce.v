(* C04, liveness clause: a termination measure for the scheduler.
   Phi c U s = sum over the nodes x of  W(x) * (2 * |todo x| + |doing x|)
   (sets counted inside a finite universe U of targets), W(x) = B ^ (H - depth x), depth x = number of ancestors of x,
   B = 2 * |U| * N + 1.  A dispatch (with or without a refused run id) moves units
   from todo to doing: Phi drops by W(x) >= 1 per released unit.  A reply for a
   unit the scheduler counts as executing removes it from doing (- W(x)) and, on
   success, may add at most |U| pending targets to each child, all of a deeper
   level (+ 2 |U| W(child) each, in total < W(x)): Phi drops by >= 1.  Nothing
   else happens in a continuation without external requests.  Hence
   #releases + #replies <= Phi(start).  At a state where nothing is executing
   and a dispatch releases nothing, nothing is pending either and -- if no queue
   entry is stale -- the queue is empty. *)
From Coq Require Import List Arith ZArith Bool Lia.
From DV Require Import Model.Sched Model.SchedObs Model.SchedFault Proofs.SchedLib Proofs.SchedOrg
     Proofs.SchedBuild Proofs.SchedC05 Proofs.SchedC02 Proofs.SchedC11 Proofs.SchedBatch
     Proofs.SchedC03 Proofs.SchedC04 Proofs.SchedFaultProofs Proofs.SchedFaultInv.
Import ListNotations.

(* ---- sums ---- *)
Definition sumf {A} (f : A -> nat) (l : list A) : nat := list_sum (map f l).

Lemma sumf_cons {A} (f : A -> nat) a l : sumf f (a :: l) = f a + sumf f l.
Proof. reflexivity. Qed.

Lemma sumf_le {A} (f g : A -> nat) l : (forall a, In a l -> f a <= g a) -> sumf f l <= sumf g l.
Proof.
  induction l as [|a l IH]; intros H; [apply le_n|]. rewrite !sumf_cons.
  assert (f a <= g a) by (apply H; left; reflexivity).
  assert (sumf f l <= sumf g l) by (apply IH; intros b Hb; apply H; right; exact Hb). lia.
Qed.

Lemma sumf_eq {A} (f g : A -> nat) l : (forall a, In a l -> f a = g a) -> sumf f l = sumf g l.
Proof.
  intros H. apply Nat.le_antisymm; apply sumf_le; intros a Ha; rewrite (H a Ha); apply le_n.
Qed.

Lemma sumf_add {A} (f g : A -> nat) l : sumf (fun a => f a + g a) l = sumf f l + sumf g l.
Proof. induction l as [|a l IH]; [reflexivity|]. rewrite !sumf_cons, IH. lia. Qed.

Lemma sumf_const {A} k (l : list A) : sumf (fun _ => k) l = length l * k.
Proof. induction l as [|a l IH]; [reflexivity|]. rewrite sumf_cons, IH. cbn [length]. lia. Qed.

Lemma sumf_ind_ge (x k : nat) l : In x l -> k <= sumf (fun y => if y =? x then k else 0) l.
Proof.
  induction l as [|a l IH]; [intros []|]. rewrite sumf_cons. intros [H|H].
  - subst a. rewrite Nat.eqb_refl. lia.
  - specialize (IH H). lia.
Qed.

(* ---- counting a target set inside the universe U ---- *)
Definition cnt (U l : list tgt) : nat := sumf (fun t => Nat.b2n (mem t l)) U.

Lemma cnt_le U l : cnt U l <= length U.
Proof.
  unfold cnt. rewrite <- (Nat.mul_1_r (length U)), <- sumf_const. apply sumf_le.
  intros t _. destruct (mem t l); cbn; lia.
Qed.

Lemma cnt_mono U l l' : (forall t, In t l -> In t l') -> cnt U l <= cnt U l'.
Proof.
  intros H. apply sumf_le. intros t _. destruct (mem t l) eqn:E; [|cbn; lia].
  apply mem_In in E. apply H in E. apply mem_In in E. rewrite E. apply le_n.
Qed.

Lemma cnt_drop U l l' t : In t U -> In t l -> ~ In t l' -> (forall u, In u l' -> In u l) ->
  cnt U l' + 1 <= cnt U l.
Proof.
  intros HU Hl Hl' Sub.
  assert (P : sumf (fun u => Nat.b2n (mem u l') + (if u =? t then 1 else 0)) U <= cnt U l).
  { apply sumf_le. intros u _. destruct (u =? t) eqn:E.
    - apply Nat.eqb_eq in E. subst u. apply mem_false_In in Hl'. apply mem_In in Hl. rewrite Hl', Hl. cbn. lia.
    - destruct (mem u l') eqn:M; [|cbn; lia]. apply mem_In in M. apply Sub in M. apply mem_In in M.
      rewrite M. cbn. lia. }
  rewrite sumf_add in P. pose proof (sumf_ind_ge t 1 U HU). unfold cnt at 1. lia.
Qed.

(* ---- per (node, target): todo-or-doing bookkeeping is balanced by a release ---- *)
Definition bal (l : list nstate) (y : node) (t : tgt) : nat :=
  Nat.b2n (mem t (todo (getn l y))) + Nat.b2n (mem t (doing (getn l y))).

Lemma release_bal c q acc x y t : bal (fst (release c q acc x)) y t = bal (fst acc) y t.
Proof.
  destruct acc as [l rel]. cbn [fst]. unfold release.
  destruct (todo (getn l x)) as [|t0 td] eqn:E; [reflexivity|]. cbn [fst]. unfold bal.
  rewrite getn_setn. destruct (Nat.eqb x y && (x <? length l)) eqn:B; [|reflexivity].
  apply andb_true_iff in B. destruct B as [B _]. apply Nat.eqb_eq in B. subst y. cbn [todo doing].
  rewrite E, mem_filter_out, mem_addl.
  destruct (mem t (avail c l q x)) eqn:A.
  - apply mem_In in A. apply avail_sub in A. destruct A as [A1 A2]. rewrite E in A1.
    apply mem_In in A1. apply mem_false_In in A2. rewrite A1, A2. reflexivity.
  - cbn [negb orb]. rewrite andb_true_r. reflexivity.
Qed.

Lemma release_fold_bal c q xs : forall acc y t,
  bal (fst (fold_left (release c q) xs acc)) y t = bal (fst acc) y t.
Proof.
  induction xs as [|x xs IH]; intros acc y t; cbn [fold_left]; [reflexivity|].
  rewrite IH. apply release_bal.
Qed.

Lemma njb_bal c s y t : bal (ns (fst (next_job_batch c s))) y t = bal (ns s) y t.
Proof.
  unfold next_job_batch. destruct (paused s); [reflexivity|].
  pose proof (release_fold_bal c (que s) (que s) (ns s, []) y t) as P. cbn [fst] in P.
  destruct (fold_left (release c (que s)) (que s) (ns s, [])) as [l rel]. exact P.
Qed.

Lemma dispatch_fault_bal c k s y t : bal (ns (fst (dispatch_fault c k s))) y t = bal (ns s) y t.
Proof.
  destruct (active s) eqn:A; [|rewrite dispatch_fault_inactive by exact A; reflexivity].
  unfold bal. destruct (dispatch_fault_todo c k s y A) as [E1 E2]. rewrite E1, E2. apply njb_bal.
Qed.

Lemma njb_doing_mono c s a u :
  In u (doing (getn (ns s) a)) -> In u (doing (getn (ns (fst (next_job_batch c s))) a)).
Proof.
  intros H. unfold next_job_batch. destruct (paused s); [exact H|].
  pose proof (release_fold_doing_mono c (que s) (que s) (ns s, []) a u H) as P.
  destruct (fold_left (release c (que s)) (que s) (ns s, [])) as [l rel]. exact P.
Qed.

Lemma dispatch_fault_doing_mono c k s a u :
  In u (doing (getn (ns s) a)) -> In u (doing (getn (ns (fst (dispatch_fault c k s))) a)).
Proof.
  intros H. destruct (active s) eqn:A; [|rewrite dispatch_fault_inactive by exact A; exact H].
  destruct (dispatch_fault_todo c k s a A) as [_ E]. rewrite E. apply njb_doing_mono. exact H.
Qed.

(* ---- the measure ---- *)
(* the depth of a node: the number of its ancestors (the `level` attribute of
   dag.Node.graph is the depth of the FIRST visit, not a topological depth: a node
   can carry the level of one of its ancestors) *)
Definition rk (c : cfg) (x : node) : nat := length (anc (gi c x)).
Definition Hc (c : cfg) : nat := S (fold_right Nat.max 0 (map (fun g => length (anc g)) (gnodes c))).
Definition Bc (c : cfg) (U : list tgt) : nat := 2 * length U * nnodes c + 1.
Definition Wt (c : cfg) (U : list tgt) (x : node) : nat := Bc c U ^ (Hc c - rk c x).
Definition cto (U : list tgt) (s : state) (x : node) : nat := cnt U (todo (getn (ns s) x)).
Definition cdo (U : list tgt) (s : state) (x : node) : nat := cnt U (doing (getn (ns s) x)).
Definition pot (c : cfg) (U : list tgt) (s : state) (x : node) : nat :=
  Wt c U x * (2 * cto U s x + cdo U s x).
Definition Phi (c : cfg) (U : list tgt) (s : state) : nat := sumf (pot c U s) (seq 0 (nnodes c)).
(* units (inside U) moved to doing between s and s' *)
Definition nrel (c : cfg) (U : list tgt) (s s' : state) : nat :=
  sumf (fun x => cdo U s' x - cdo U s x) (seq 0 (nnodes c)).

Lemma rk_lt_Hc c x : x < nnodes c -> rk c x < Hc c.
Proof.
  intros L. unfold Hc, rk, gi, nnodes in *.
  assert (G : forall l n, n < length l ->
            length (anc (nth n l dflt_ginfo)) <= fold_right Nat.max 0 (map (fun g => length (anc g)) l)).
  { induction l as [|a l IH]; intros [|n] Ln; cbn in *; try lia. specialize (IH n ltac:(lia)). lia. }
  specialize (G _ _ L). lia.
Qed.

Lemma Bc_pos c U : 1 <= Bc c U.
Proof. unfold Bc. lia. Qed.

Lemma pow_pos b n : 1 <= b -> 1 <= b ^ n.
Proof. intros H. induction n as [|n IH]; cbn [Nat.pow]; nia. Qed.

Lemma Wt_pos c U x : 1 <= Wt c U x.
Proof. apply pow_pos. apply Bc_pos. Qed.

(* ---- a dispatch: Phi drops by at least the number of released units ---- *)
Lemma tick_measure c U k s :
  let s' := fst (dispatch_fault c k s) in
  Phi c U s' + nrel c U s s' <= Phi c U s.
Proof.
  cbn zeta. unfold Phi, nrel. rewrite <- sumf_add. apply sumf_le. intros x _. unfold pot.
  assert (Bal : cto U (fst (dispatch_fault c k s)) x + cdo U (fst (dispatch_fault c k s)) x = cto U s x + cdo U s x).
  { unfold cto, cdo, cnt. rewrite <- !sumf_add. apply sumf_eq. intros t _. apply (dispatch_fault_bal c k s x t). }
  assert (Mono : cdo U s x <= cdo U (fst (dispatch_fault c k s)) x).
  { apply cnt_mono. intros t. apply dispatch_fault_doing_mono. }
  pose proof (Wt_pos c U x). nia.
Qed.

(* ---- what a reply does to the node table (engines without feedback) ---- *)
Lemma fb_consumers_nil c vs : gfb c = [] -> fb_consumers c vs = [].
Proof.
  intros G. unfold fb_consumers. rewrite G. induction (new_names vs) as [|v l IH]; [reflexivity|].
  cbn [flat_map]. rewrite IH. reflexivity.
Qed.

Lemma rep_effect c x t r o vs s : length (ns s) = nnodes c -> gfb c = [] -> mem x (que s) = true ->
  let l' := ns (fst (res c x t r o vs s)) in
  (forall y u, In u (doing (getn l' y)) -> In u (doing (getn (ns s) y))) /\
  ~ In t (doing (getn l' x)) /\
  (forall y, (forall u, In u (todo (getn l' y)) -> In u (todo (getn (ns s) y))) \/
             (In y (kids (gi c x)) /\ y <> x /\ y < nnodes c)).
Proof.
  intros Hl Hfb Hq. cbn zeta.
  set (s1 := set_busy s (filter (fun u => negb (unit_eqb u (x, t))) (busy s))).
  set (C := ns (complete c x t s1)).
  assert (EC : C = setn (ns s) x (cz t (getn (ns s) x))) by (unfold C; rewrite ns_complete; reflexivity).
  assert (CzD : forall y u, In u (doing (getn C y)) -> In u (doing (getn (ns s) y))).
  { intros y u. rewrite EC, getn_setn. destruct (Nat.eqb x y && _) eqn:B; [|auto].
    apply andb_true_iff in B. destruct B as [B _]. apply Nat.eqb_eq in B. subst y.
    unfold cz. cbn [doing]. destruct (t =? ALL); [intros []|]. intros H. apply In_rem in H. tauto. }
  assert (CzX : ~ In t (doing (getn C x))).
  { rewrite EC, getn_setn, Nat.eqb_refl. cbn [andb]. destruct (x <? length (ns s)) eqn:L.
    - unfold cz. cbn [doing]. destruct (t =? ALL); [intros []|]. intros H. apply In_rem in H. tauto.
    - apply Nat.ltb_ge in L. rewrite (getn_oob _ _ L). intros []. }
  assert (CzT : forall y, todo (getn C y) = todo (getn (ns s) y)).
  { intros y. rewrite EC, getn_setn. destruct (Nat.eqb x y && _) eqn:B; [|reflexivity].
    apply andb_true_iff in B. destruct B as [B _]. apply Nat.eqb_eq in B. subst y. reflexivity. }
  assert (LC : length C = nnodes c) by (rewrite EC, setn_length; exact Hl).
  destruct o.
  - (* success *)
    unfold res. cbn [que set_busy]. rewrite Hq. cbn [fst]. fold s1.
    destruct vs as [|v vs].
    + cbn [update ns set_archive]. fold C. split; [exact CzD|]. split; [exact CzX|].
      intros y. left. intros u. rewrite CzT. auto.
    + rewrite update_unfold by discriminate.
      set (s3 := set_archive _ _).
      assert (L3 : length (ns s3) = nnodes c) by exact LC.
      match goal with |- context [organize c ?nm ?rr ?tg s3] =>
        destruct (organize_spec c nm rr tg s3 L3) as (_ & T & D & _); set (names := nm) in * end.
      cbn zeta in T, D.
      split; [|split].
      * intros y u H. destruct (D y) as [Dy _]. rewrite Dy in H. apply CzD. exact H.
      * destruct (D x) as [Dx _]. rewrite Dx. exact CzX.
      * intros y. destruct (in_dec Nat.eq_dec y names) as [Hn|Hn].
        -- right. unfold names in Hn. apply update_names in Hn; [|discriminate].
           destruct Hn as [Ly [(K & N & _)|Hf]]; [auto|].
           rewrite (fb_consumers_nil c (v :: vs) Hfb) in Hf. contradiction.
        -- left. intros u H. apply T in H. destruct H as [H|[H _]]; [|contradiction].
           unfold s3 in H. cbn [ns set_archive] in H. fold C in H. rewrite CzT in H. exact H.
  - (* failure *)
    assert (Ho : Failure <> Success) by discriminate.
    pose proof (ns_res_failed c x t r Failure vs s Ho Hq) as NF. cbn zeta in NF.
    assert (EN : forall y, (if Nat.eqb x y && (x <? length (ns s)) then cz t (getn (ns s) x) else getn (ns s) y) = getn C y)
      by (intros y; rewrite EC, getn_setn; reflexivity).
    split; [|split].
    + intros y u H. rewrite NF, EN in H. apply CzD. destruct (mem y (descend c (nnodes c) x)); [|exact H].
      cbn [pz doing] in H. apply In_rem in H. tauto.
    + rewrite NF, EN. destruct (mem x (descend c (nnodes c) x)); [|exact CzX]. cbn [pz doing]. intros H. apply In_rem in H. tauto.
    + intros y. left. intros u H. rewrite NF, EN in H. rewrite <- CzT. destruct (mem y (descend c (nnodes c) x)); [|exact H].
      cbn [pz todo] in H. apply In_rem in H. tauto.
  - (* invalid *)
    assert (Ho : Invalid <> Success) by discriminate.
    pose proof (ns_res_failed c x t r Invalid vs s Ho Hq) as NF. cbn zeta in NF.
    assert (EN : forall y, (if Nat.eqb x y && (x <? length (ns s)) then cz t (getn (ns s) x) else getn (ns s) y) = getn C y)
      by (intros y; rewrite EC, getn_setn; reflexivity).
    split; [|split].
    + intros y u H. rewrite NF, EN in H. apply CzD. destruct (mem y (descend c (nnodes c) x)); [|exact H].
      cbn [pz doing] in H. apply In_rem in H. tauto.
    + rewrite NF, EN. destruct (mem x (descend c (nnodes c) x)); [|exact CzX]. cbn [pz doing]. intros H. apply In_rem in H. tauto.
    + intros y. left. intros u H. rewrite NF, EN in H. rewrite <- CzT. destruct (mem y (descend c (nnodes c) x)); [|exact H].
      cbn [pz todo] in H. apply In_rem in H. tauto.
Qed.

(* ---- the depth hypothesis: children have more ancestors, ancestors fewer ---- *)
Definition depth_okb (c : cfg) : bool :=
  forallb (fun x => forallb (fun y => rk c x <? rk c y) (kids (gi c x))
                    && forallb (fun a => rk c a <? rk c x) (anc (gi c x)))
          (seq 0 (nnodes c)).

Lemma depth_ok_kids c x y : depth_okb c = true -> x < nnodes c -> In y (kids (gi c x)) ->
  rk c x < rk c y.
Proof.
  intros H L K. unfold depth_okb in H. rewrite forallb_forall in H.
  specialize (H x ltac:(apply in_seq; lia)). apply andb_true_iff in H. destruct H as [H _].
  rewrite forallb_forall in H. apply Nat.ltb_lt. apply H. exact K.
Qed.

Lemma depth_ok_anc c x a : depth_okb c = true -> x < nnodes c -> In a (anc (gi c x)) ->
  rk c a < rk c x.
Proof.
  intros H L K. unfold depth_okb in H. rewrite forallb_forall in H.
  specialize (H x ltac:(apply in_seq; lia)). apply andb_true_iff in H. destruct H as [_ H].
  rewrite forallb_forall in H. apply Nat.ltb_lt. apply H. exact K.
Qed.

(* ---- a reply for a unit the scheduler counts as executing: Phi drops ---- *)
Lemma rep_measure c U x t r o vs s : length (ns s) = nnodes c -> gfb c = [] -> depth_okb c = true ->
  I_que c s -> In t (doing (getn (ns s) x)) -> In t U ->
  let s' := fst (res c x t r o vs s) in
  Phi c U s' + 1 <= Phi c U s /\ (forall y, cdo U s' y <= cdo U s y).
Proof.
  intros Hl Hfb Hlv Iq Hd HU. cbn zeta.
  assert (Lx : x < nnodes c).
  { destruct (Nat.lt_ge_cases x (nnodes c)) as [L|L]; [exact L|]. rewrite <- Hl in L.
    rewrite (getn_oob _ _ L) in Hd. contradiction. }
  assert (Hq : mem x (que s) = true).
  { apply mem_In. apply Iq. right. intros E. rewrite E in Hd. contradiction. }
  destruct (rep_effect c x t r o vs s Hl Hfb Hq) as (R1 & R2 & R3). cbn zeta in *.
  set (s' := fst (res c x t r o vs s)) in *.
  assert (CD : forall y, cdo U s' y <= cdo U s y) by (intros y; apply cnt_mono; apply R1).
  split; [|exact CD].
  set (k := Bc c U ^ (Hc c - rk c x - 1)).
  assert (Kpos : 1 <= k) by (apply pow_pos; apply Bc_pos).
  assert (Wx : Wt c U x = Bc c U * k).
  { unfold Wt, k. pose proof (rk_lt_Hc c x Lx).
    assert (G : forall b n, 1 <= n -> b ^ n = b * b ^ (n - 1)).
    { intros b [|n] Hn; [lia|]. cbn [Nat.pow]. replace (S n - 1) with n by lia. reflexivity. }
    apply G. lia. }
  assert (PW : forall y, In y (seq 0 (nnodes c)) ->
            pot c U s' y + (if y =? x then Wt c U x else 0) <= pot c U s y + 2 * length U * k).
  { intros y _. unfold pot. destruct (y =? x) eqn:E.
    - apply Nat.eqb_eq in E. subst y.
      assert (T1 : cto U s' x <= cto U s x).
      { apply cnt_mono. destruct (R3 x) as [H|(_ & N & _)]; [exact H|congruence]. }
      assert (D1 : cdo U s' x + 1 <= cdo U s x).
      { apply (cnt_drop U _ _ t HU Hd R2). apply R1. }
      pose proof (Wt_pos c U x). nia.
    - pose proof (CD y) as D1. destruct (R3 y) as [H|(K & _ & Ly)].
      + assert (T1 : cto U s' y <= cto U s y) by (apply cnt_mono; exact H).
        assert (Wt c U y * (2 * cto U s' y + cdo U s' y) <= Wt c U y * (2 * cto U s y + cdo U s y)) by nia.
        lia.
      + assert (T1 : cto U s' y <= length U) by apply cnt_le.
        assert (Wy : Wt c U y <= k).
        { unfold Wt, k. apply Nat.pow_le_mono_r; [pose proof (Bc_pos c U); lia|].
          pose proof (depth_ok_kids c x y Hlv Lx K). lia. }
        assert (A1 : Wt c U y * (2 * cto U s' y + cdo U s' y) <=
                     Wt c U y * (2 * length U) + Wt c U y * cdo U s y) by nia.
        assert (A2 : Wt c U y * (2 * length U) <= k * (2 * length U)) by (apply Nat.mul_le_mono_r; exact Wy).
        nia. }
  pose proof (sumf_le _ _ _ PW) as S. rewrite !sumf_add, sumf_const, seq_length in S.
  pose proof (sumf_ind_ge x (Wt c U x) (seq 0 (nnodes c)) ltac:(apply in_seq; lia)) as I.
  unfold Phi.
  remember (sumf (pot c U s') (seq 0 (nnodes c))) as P' eqn:EP'.
  remember (sumf (pot c U s) (seq 0 (nnodes c))) as P eqn:EP.
  remember (sumf (fun y => if y =? x then Wt c U x else 0) (seq 0 (nnodes c))) as SI eqn:ESI.
  assert (S2 : P' + SI <= P + nnodes c * (2 * length U * k)) by (subst P' P SI; exact S).
  assert (I2 : Bc c U * k <= SI) by (subst SI; rewrite <- Wx; exact I).
  unfold Bc in I2. clear - S2 I2 Kpos. clearbody k.
  assert (E1 : (2 * length U * nnodes c + 1) * k = 2 * length U * nnodes c * k + k) by ring.
  assert (E2 : nnodes c * (2 * length U * k) = 2 * length U * nnodes c * k) by ring.
  rewrite E1 in I2. rewrite E2 in S2. lia.
Qed.

Lemma Phi_ns c U s1 s2 : ns s1 = ns s2 -> Phi c U s1 = Phi c U s2.
Proof. intros E. unfold Phi, pot, cto, cdo. rewrite E. reflexivity. Qed.

Lemma nrel_zero c U s s' : (forall y, cdo U s' y <= cdo U s y) -> nrel c U s s' = 0.
Proof.
  intros H. unfold nrel. rewrite (sumf_eq _ (fun _ => 0)); [rewrite sumf_const; lia|].
  intros y _. specialize (H y). lia.
Qed.

(* ---- continuations without external requests ---- *)
Definition quiet (U : list tgt) (s : state) (x : xev) : Prop :=
  match x with
  | TickFault _ => True
  | Ev (Rep w y t r o vs) => In t (doing (getn (ns s) y)) /\ In t U
  | Ev (Org _ _ _) => False
  | Ev (Build _) => False
  | Ev _ => True
  end.
Fixpoint quiet_run (c : cfg) (U : list tgt) (s : state) (xs : list xev) : Prop :=
  match xs with
  | [] => True
  | x :: r => quiet U s x /\ quiet_run c U (fst (xstep c s x)) r
  end.
Fixpoint releases (c : cfg) (U : list tgt) (s : state) (xs : list xev) : nat :=
  match xs with
  | [] => 0
  | x :: r => nrel c U s (fst (xstep c s x)) + releases c U (fst (xstep c s x)) r
  end.
Definition is_rep (x : xev) : bool := match x with Ev (Rep _ _ _ _ _ _) => true | _ => false end.
Definition replies (xs : list xev) : nat := length (filter is_rep xs).

Lemma quiet_step c U s x : GInv c s -> gfb c = [] -> depth_okb c = true -> quiet U s x ->
  let s' := fst (xstep c s x) in
  Phi c U s' + nrel c U s s' + (if is_rep x then 1 else 0) <= Phi c U s.
Proof.
  intros (Hl & Iq & _) Hfb Hlv Q. cbn zeta.
  assert (SAME : forall s', ns s' = ns s -> Phi c U s' + nrel c U s s' + 0 <= Phi c U s).
  { intros s' E. rewrite (Phi_ns c U s' s E), nrel_zero; [lia|]. intros y. unfold cdo. rewrite E. apply le_n. }
  destruct x as [e|k].
  - rewrite xstep_ev. destruct e; cbn [quiet] in Q; try contradiction; cbn [is_rep].
    + (* Tick *) cbn [step]. rewrite dispatch_is_fault0. pose proof (tick_measure c U 0 s). cbn zeta in *. lia.
    + (* Rep *) destruct Q as [Hd HU].
      destruct (rep_measure c U x t r o values s Hl Hfb Hlv Iq Hd HU) as [M CD]. cbn zeta in *.
      assert (E : ns (fst (step c s (Rep w x t r o values))) = ns (fst (res c x t r o values s))) by apply rep_ns.
      rewrite (Phi_ns c U _ _ E), nrel_zero; [lia|].
      intros y. unfold cdo in *. rewrite E. apply CD.
    + apply SAME. cbn [step]. unfold reg. destruct rev_ok; reflexivity.
    + apply SAME. cbn [step]. unfold poll. destruct (rev_ok && active s); reflexivity.
    + apply SAME. reflexivity.
    + apply SAME. reflexivity.
    + apply SAME. reflexivity.
    + apply SAME. reflexivity.
  - cbn [xstep is_rep]. pose proof (tick_measure c U k s). cbn zeta in *. lia.
Qed.

(* the measure theorem: in a continuation made of dispatches (with or without
   refused run ids), replies for units the scheduler counts as executing, and
   worker / flag events -- no request, no rebuild -- the number of released units
   plus the number of replies is bounded by the measure of the starting state *)
Theorem quiesce_bound c U : gfb c = [] -> depth_okb c = true -> forall xs s,
  GInv c s -> quiet_run c U s xs ->
  Phi c U (xrun c s xs) + releases c U s xs + replies xs <= Phi c U s.
Proof.
  intros Hfb Hlv. induction xs as [|x xs IH]; intros s G Q; cbn [xrun releases]; [unfold replies; cbn; lia|].
  destruct Q as [Q1 Q2]. pose proof (quiet_step c U s x G Hfb Hlv Q1) as S1. cbn zeta in S1.
  specialize (IH _ (xstep_GInv c s x G) Q2).
  unfold replies in *. cbn [filter]. destruct (is_rep x); cbn [length]; lia.
Qed.

(* a bound that depends on the engine and the universe only *)
Lemma Phi_max c U s : Phi c U s <= nnodes c * (Bc c U ^ Hc c * (3 * length U)).
Proof.
  unfold Phi. rewrite <- (seq_length (nnodes c) 0) at 2. rewrite <- sumf_const. apply sumf_le.
  intros x _. unfold pot.
  assert (Wt c U x <= Bc c U ^ Hc c).
  { unfold Wt. apply Nat.pow_le_mono_r; [pose proof (Bc_pos c U); lia|lia]. }
  pose proof (cnt_le U (todo (getn (ns s) x))). pose proof (cnt_le U (doing (getn (ns s) x))).
  unfold cto, cdo. nia.
Qed.

(* ---- at rest: nothing executing and a dispatch releases nothing => idle ---- *)
Theorem quiesce_idle c s : GInv c s -> depth_okb c = true ->
  active s = true -> paused s = false ->
  J_que s ->                                              (* no stale queue entry *)
  (forall x, doing (getn (ns s) x) = []) ->               (* nothing executing *)
  (forall x, doing (getn (ns (fst (dispatch c s))) x) = []) ->   (* a dispatch releases nothing *)
  (forall x, todo (getn (ns s) x) = []) /\ que s = [] /\ view_todo s = [] /\ view_doing s = [].
Proof.
  intros G Hlv A P J D0 D1.
  assert (T0 : forall n x, rk c x < n -> todo (getn (ns s) x) = []).
  { induction n as [|n IH]; intros x L; [lia|].
    destruct (Nat.lt_ge_cases x (nnodes c)) as [Lx|Lx].
    2:{ destruct G as (Hl & _). rewrite <- Hl in Lx. rewrite (getn_oob _ _ Lx). reflexivity. }
    destruct (todo (getn (ns s) x)) as [|t td] eqn:E; [reflexivity|]. exfalso.
    assert (AI : forall a, In a (anc (gi c x)) -> todo (getn (ns s) a) = [] /\ doing (getn (ns s) a) = []).
    { intros a Ha. split; [|apply D0]. apply IH. pose proof (depth_ok_anc c x a Hlv Lx Ha). lia. }
    destruct (tick_progress_G c s x t G A P Lx) as (_ & H & _).
    - rewrite E. left. reflexivity.
    - rewrite D0. intros [].
    - intros a Ha. destruct (AI a Ha) as [E1 E2]. rewrite E1, E2. repeat split; intros [].
    - intros _ a Ha Hq. destruct (AI a Ha) as [E1 E2]. destruct (J a Hq) as [N|N]; congruence.
    - cbn zeta in H. rewrite D1 in H. contradiction. }
  assert (T : forall x, todo (getn (ns s) x) = []) by (intros x; apply (T0 (S (rk c x))); lia).
  split; [exact T|]. apply idle_empty; [exact J|]. intros x. split; [apply T|apply D0].
Qed.
