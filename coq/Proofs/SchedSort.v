(* farm._workers_sort (Model/Sched.v: workers_sort) only reorders the idle
   list: with one registration per connection (NoDup of the connection ids)
   the sorted list is a permutation of the idle list. *)
From Coq Require Import List Arith Bool Lia Sorting.Permutation.
From DV Require Import Model.Sched Proofs.SchedLib.
Import ListNotations.

Lemma In_hosts w p : In p w -> In (snd p) (hosts w).
Proof.
  intros H. unfold hosts. apply In_sort_nat.
  assert (G : forall l acc, In (snd p) acc \/ In p l ->
              In (snd p) (fold_left (fun acc q => add (snd q) acc) l acc)).
  { induction l as [|q l IH]; intros acc [Ha|Hl]; cbn [fold_left].
    - exact Ha.
    - destruct Hl.
    - apply IH. left. apply In_add. right. exact Ha.
    - destruct Hl as [E|Hl].
      + subst q. apply IH. left. apply In_add. left. reflexivity.
      + apply IH. right. exact Hl. }
  apply G. right. exact H.
Qed.

Lemma of_host_nonempty w p : In p w -> of_host w (snd p) <> [].
Proof.
  intros H E. assert (In p (of_host w (snd p))).
  { unfold of_host. apply filter_In. split; [exact H|]. apply Nat.eqb_refl. }
  rewrite E in H0. exact H0.
Qed.

(* the fold of pick_host: the running best is a host with a worker; a host with
   a worker somewhere in the remaining list makes the result Some *)
Lemma pick_fold w : forall hs best,
  (forall b, best = Some b -> of_host w b <> []) ->
  (forall b, fold_left (fun best h =>
               match best with
               | None => if 0 <? length (of_host w h) then Some h else None
               | Some b => if length (of_host w b) <? length (of_host w h) then Some h else Some b
               end) hs best = Some b -> of_host w b <> []) /\
  ((best <> None \/ exists h, In h hs /\ of_host w h <> []) ->
   fold_left (fun best h =>
               match best with
               | None => if 0 <? length (of_host w h) then Some h else None
               | Some b => if length (of_host w b) <? length (of_host w h) then Some h else Some b
               end) hs best <> None).
Proof.
  induction hs as [|h hs IH]; intros best HB; cbn [fold_left].
  - split; [exact HB|]. intros [H|[h [[] _]]]. exact H.
  - set (best' := match best with
                  | None => if 0 <? length (of_host w h) then Some h else None
                  | Some b => if length (of_host w b) <? length (of_host w h) then Some h else Some b
                  end).
    assert (HB' : forall b, best' = Some b -> of_host w b <> []).
    { intros b E. unfold best' in E. destruct best as [b0|].
      - destruct (length (of_host w b0) <? length (of_host w h)) eqn:L; inversion E; subst.
        + apply Nat.ltb_lt in L. intros Z. rewrite Z in L. cbn in L. lia.
        + apply HB. reflexivity.
      - destruct (0 <? length (of_host w h)) eqn:L; inversion E; subst.
        apply Nat.ltb_lt in L. intros Z. rewrite Z in L. cbn in L. lia. }
    destruct (IH best' HB') as [I1 I2]. split; [exact I1|].
    intros H. apply I2. destruct H as [H|[h0 [[E|Hin] Hn]]].
    + left. unfold best'. destruct best as [b0|]; [|congruence].
      destruct (length (of_host w b0) <? length (of_host w h)); discriminate.
    + subst h0. left. unfold best'. destruct best as [b0|].
      * destruct (length (of_host w b0) <? length (of_host w h)); discriminate.
      * destruct (of_host w h) as [|q r] eqn:E; [congruence|]. cbn. discriminate.
    + right. exists h0. split; assumption.
Qed.

Lemma pick_host_some w p : In p w -> exists h, pick_host w = Some h /\ of_host w h <> [].
Proof.
  intros H. unfold pick_host.
  destruct (pick_fold w (hosts w) None) as [A B]; [intros b E; discriminate|].
  destruct (fold_left _ (hosts w) None) as [h|] eqn:F.
  - exists h. split; [reflexivity|]. apply A. reflexivity.
  - exfalso. apply B; [|reflexivity]. right. exists (snd p). split; [apply In_hosts; exact H|].
    apply of_host_nonempty. exact H.
Qed.

Lemma remove_first_perm (p : wid * nat) w :
  NoDup (map fst w) -> In p w -> Permutation w (p :: remove_first (fst p) w).
Proof.
  induction w as [|q w IH]; intros N H; [destruct H|].
  cbn [remove_first]. cbn [map] in N. apply NoDup_cons_iff in N. destruct N as [Nq N].
  destruct (fst q =? fst p) eqn:E.
  - apply Nat.eqb_eq in E. destruct H as [H|H].
    + subst q. apply Permutation_refl.
    + exfalso. apply Nq. rewrite E. apply in_map. exact H.
  - destruct H as [H|H].
    + subst q. rewrite Nat.eqb_refl in E. discriminate.
    + eapply Permutation_trans; [apply perm_skip; apply IH; assumption|]. apply perm_swap.
Qed.

Lemma remove_first_length (p : wid * nat) w : In p w -> length (remove_first (fst p) w) = length w - 1.
Proof.
  induction w as [|q w IH]; intros H; [destruct H|]. cbn [remove_first length].
  destruct (fst q =? fst p) eqn:E; [lia|].
  destruct H as [H|H]; [subst q; rewrite Nat.eqb_refl in E; discriminate|].
  cbn [length]. rewrite IH by exact H. destruct w; [destruct H|cbn [length]; lia].
Qed.

Lemma remove_first_nodup' x w : NoDup (map fst w) -> NoDup (map fst (remove_first x w)).
Proof.
  induction w as [|q w IH]; cbn [remove_first map]; [tauto|]. intros N.
  apply NoDup_cons_iff in N. destruct N as [Nq N].
  destruct (fst q =? x); [exact N|]. cbn [map]. constructor; [|apply IH; exact N].
  intros H. apply Nq. clear - H. induction w as [|a w IH]; cbn [remove_first map] in *; [exact H|].
  destruct (fst a =? x); [right; exact H|]. destruct H as [H|H]; [left; exact H|right; apply IH; exact H].
Qed.

Theorem workers_sort_aux_perm : forall f w, length w = f -> NoDup (map fst w) ->
  Permutation (workers_sort_aux f w) w.
Proof.
  induction f as [|f IH]; intros w L N.
  - destruct w; [apply Permutation_refl|discriminate].
  - destruct w as [|q0 w0] eqn:Ew; [discriminate|]. rewrite <- Ew in *. clear Ew q0 w0.
    assert (exists p, In p w) as [p0 Hp0] by (destruct w; [discriminate|eexists; left; reflexivity]).
    cbn [workers_sort_aux].
    destruct (pick_host_some w p0 Hp0) as (h & Ph & Nh). rewrite Ph.
    destruct (of_host w h) as [|p r] eqn:E; [congruence|].
    assert (Hp : In p w).
    { assert (In p (of_host w h)) by (rewrite E; left; reflexivity).
      unfold of_host in H. apply filter_In in H. tauto. }
    eapply Permutation_trans; [|apply Permutation_sym; apply (remove_first_perm p w N Hp)].
    apply perm_skip. apply IH.
    + rewrite remove_first_length by exact Hp. lia.
    + apply remove_first_nodup'. exact N.
Qed.

Theorem workers_sort_perm w : NoDup (map fst w) -> Permutation (workers_sort w) w.
Proof. intros N. apply workers_sort_aux_perm; [reflexivity|exact N]. Qed.
