(* What the boolean graph hypothesis wf_graphb gives the proofs. *)
From Coq Require Import List Arith ZArith Bool Lia.
From DV Require Import Model.Sched Proofs.SchedLib.
Import ListNotations.

Lemma wf_desc c x y : wf_graphb c = true -> x < nnodes c -> y < nnodes c ->
  mem y (descend c (nnodes c) x) = (Nat.eqb y x || mem x (anc (gi c y))).
Proof.
  unfold wf_graphb. intros H Hx Hy. apply andb_true_iff in H. destruct H as [H _].
  apply andb_true_iff in H. destruct H as [H _].
  rewrite forallb_forall in H. specialize (H x). rewrite in_seq in H. specialize (H ltac:(lia)).
  rewrite forallb_forall in H. specialize (H y). rewrite in_seq in H. specialize (H ltac:(lia)).
  apply eqb_prop in H. exact H.
Qed.

Lemma wf_desc_bound c x y : wf_graphb c = true -> x < nnodes c ->
  In y (descend c (nnodes c) x) -> y < nnodes c.
Proof.
  unfold wf_graphb. intros H Hx Hy. apply andb_true_iff in H. destruct H as [H _].
  apply andb_true_iff in H. destruct H as [_ H].
  rewrite forallb_forall in H. specialize (H x). rewrite in_seq in H. specialize (H ltac:(lia)).
  rewrite forallb_forall in H. specialize (H y Hy). apply Nat.ltb_lt in H. exact H.
Qed.

Lemma wf_anc_irrefl c y : wf_graphb c = true -> y < nnodes c -> ~ In y (anc (gi c y)).
Proof.
  unfold wf_graphb. intros H Hy. apply andb_true_iff in H. destruct H as [_ H].
  rewrite forallb_forall in H. specialize (H y). rewrite in_seq in H. specialize (H ltac:(lia)).
  apply andb_true_iff in H. destruct H as [H _]. apply negb_true_iff in H.
  apply mem_false_In. exact H.
Qed.

Lemma wf_anc_bound c y a : wf_graphb c = true -> y < nnodes c -> In a (anc (gi c y)) -> a < nnodes c.
Proof.
  unfold wf_graphb. intros H Hy Ha. apply andb_true_iff in H. destruct H as [_ H].
  rewrite forallb_forall in H. specialize (H y). rewrite in_seq in H. specialize (H ltac:(lia)).
  apply andb_true_iff in H. destruct H as [_ H]. rewrite forallb_forall in H.
  specialize (H a Ha). apply Nat.ltb_lt in H. exact H.
Qed.

(* dependents of x = the nodes purge reaches, other than x itself *)
Lemma wf_dependent_reached c x y : wf_graphb c = true -> x < nnodes c -> y < nnodes c ->
  In x (anc (gi c y)) -> mem y (descend c (nnodes c) x) = true.
Proof.
  intros W Hx Hy Ha. rewrite (wf_desc c x y W Hx Hy). apply mem_In in Ha. rewrite Ha.
  apply orb_true_r.
Qed.

Lemma wf_independent_not_reached c x y : wf_graphb c = true -> x < nnodes c -> y < nnodes c ->
  y <> x -> ~ In x (anc (gi c y)) -> mem y (descend c (nnodes c) x) = false.
Proof.
  intros W Hx Hy N Ha. rewrite (wf_desc c x y W Hx Hy). apply Nat.eqb_neq in N. rewrite N.
  apply mem_false_In in Ha. rewrite Ha. reflexivity.
Qed.
