(* C17 -- lemmas about Model/Search.v (+ Gen/RangeGen.v). *)
From Coq Require Import List ZArith Lia Bool ZifyBool Sorting.Sorted.
From DV Require Import Gen.RangeGen Model.Search.
Import ListNotations.
Open Scope Z_scope.

Lemma S_existsb_ext {A} (f g : A -> bool) l : (forall x, f x = g x) -> existsb f l = existsb g l.
Proof. intros H. induction l as [|a l IH]; [reflexivity|]. cbn [existsb]. rewrite H, IH. reflexivity. Qed.

(* ================================================================== *)
(* A. the generated range tests (shape-stable interface)                *)
(* ================================================================== *)

Lemma S_contains_spec (r : rng) z :
  rng_contains r z = match snd r with
                     | None => fst r <=? z
                     | Some s => (fst r <=? z) && (z <? s)
                     end.
Proof. destruct r as [a [b|]]; unfold rng_contains; cbn [fst snd]; reflexivity. Qed.

Lemma S_contains_iff (r : rng) z :
  rng_contains r z = true <->
  fst r <= z /\ match snd r with None => True | Some s => z < s end.
Proof. rewrite S_contains_spec. destruct r as [a [b|]]; cbn [fst snd]; lia. Qed.

Lemma S_covers_contains (r : rng) i : scrub_covers r i = rng_contains r i.
Proof.
  rewrite S_contains_spec. unfold scrub_covers.
  destruct r as [a [b|]]; cbn [fst snd]; lia.
Qed.

Lemma S_ge_spec (r : rng) o : rng_ge r o = (o <=? fst r).
Proof. unfold rng_ge. lia. Qed.

(* ================================================================== *)
(* B. _scrub keeps the denotation                                       *)
(* ================================================================== *)

Definition den (l : list rng) (z : Z) : bool := existsb (fun r => rng_contains r z) l.

Lemma S_den_app l1 l2 z : den (l1 ++ l2) z = den l1 z || den l2 z.
Proof. apply existsb_app. Qed.

Lemma S_den_cons r l z : den (r :: l) z = rng_contains r z || den l z.
Proof. reflexivity. Qed.

(* ---- the merge fold (from the design spike) ---- *)

Lemma S_step_den acc r z :
  (match acc with [] => True | h :: _ => fst h <= fst r end) ->
  den (merge_step acc r) z = den acc z || rng_contains r z.
Proof.
  destruct acc as [|[a [b|]] tl]; cbn [merge_step]; intros H.
  - cbn. rewrite orb_false_r. reflexivity.
  - cbn [fst] in H. destruct r as [ra rb]. cbn [fst snd] in *.
    destruct (ra >? b) eqn:E1.
    + rewrite !S_den_cons. rewrite orb_comm. reflexivity.
    + destruct rb as [rb|].
      * destruct (rb >? b) eqn:E2; rewrite !S_den_cons, !S_contains_spec; cbn [fst snd];
          destruct (den tl z); lia.
      * rewrite !S_den_cons, !S_contains_spec; cbn [fst snd]. destruct (den tl z); lia.
  - cbn [fst] in H. destruct r as [ra rb]. cbn [fst snd] in *.
    rewrite !S_den_cons, !S_contains_spec; cbn [fst snd].
    destruct rb as [rb|]; destruct (den tl z); lia.
Qed.

Lemma S_step_head acc r x :
  (match acc with [] => True | h :: _ => fst h <= x end) -> fst r <= x ->
  match merge_step acc r with [] => True | h :: _ => fst h <= x end.
Proof.
  destruct acc as [|[a [b|]] tl]; cbn [merge_step]; intros H Hr; cbn [fst] in *; auto.
  destruct (fst r >? b); cbn [fst]; auto.
  destruct (snd r) as [rb|]; cbn [fst]; auto.
  destruct (rb >? b); cbn [fst]; auto.
Qed.

Lemma S_step_nonempty acc r : acc <> [] -> merge_step acc r <> [].
Proof.
  destruct acc as [|[a [b|]] tl]; cbn [merge_step]; intros H; try congruence.
  destruct (fst r >? b); try congruence.
  destruct (snd r) as [rb|]; try congruence. destruct (rb >? b); congruence.
Qed.

Definition le_start (p q : rng) : Prop := fst p <= fst q.

Lemma S_sorted_strong l : Sorted le_start l -> StronglySorted le_start l.
Proof. apply Sorted_StronglySorted. intros p q s; unfold le_start; lia. Qed.

Lemma S_fold_den rs : forall acc z,
  Sorted le_start rs ->
  (match acc with [] => True | h :: _ => Forall (fun r => fst h <= fst r) rs end) ->
  den (fold_left merge_step rs acc) z = den acc z || den rs z.
Proof.
  induction rs as [|r rs IH]; intros acc z Hs Hh; cbn [fold_left].
  - cbn. rewrite orb_false_r. reflexivity.
  - assert (Hr : match acc with [] => True | h :: _ => fst h <= fst r end).
    { destruct acc; auto. inversion Hh; auto. }
    pose proof (S_sorted_strong _ Hs) as Hss.
    inversion Hs as [|? ? Hs' Hhd]; subst.
    assert (Hall : Forall (fun q => fst r <= fst q) rs).
    { inversion Hss; auto. }
    rewrite IH; [|exact Hs'|].
    + rewrite (S_step_den _ _ _ Hr). rewrite S_den_cons, orb_assoc. reflexivity.
    + pose proof (S_step_head acc r) as SH.
      destruct (merge_step acc r) as [|h tl] eqn:S; [exact I|].
      apply Forall_forall. intros q Hq.
      specialize (SH (fst q)). apply SH.
      * destruct acc as [|h0 tl0]; auto. inversion Hh as [|? ? H0 H1]; subst.
        rewrite Forall_forall in H1. apply H1. exact Hq.
      * rewrite Forall_forall in Hall. apply Hall. exact Hq.
Qed.

Lemma S_den_rev l z : den (rev l) z = den l z.
Proof.
  induction l as [|a l IH]; [reflexivity|]. cbn [rev]. rewrite S_den_app, IH. cbn.
  rewrite orb_false_r. apply orb_comm.
Qed.

Lemma S_merge_den l z : Sorted le_start l -> den (merge l) z = den l z.
Proof.
  destruct l as [|r rs]; [reflexivity|]. intros Hs. unfold merge. rewrite S_den_rev.
  pose proof (S_sorted_strong _ Hs) as Hss.
  inversion Hs as [|? ? Hs' Hhd]; subst.
  rewrite S_fold_den; [cbn; rewrite orb_false_r; reflexivity|exact Hs'|].
  inversion Hss; auto.
Qed.

Lemma S_fold_nonempty rs : forall acc, acc <> [] -> fold_left merge_step rs acc <> [].
Proof.
  induction rs as [|r rs IH]; intros acc H; cbn [fold_left]; auto.
  apply IH. apply S_step_nonempty. exact H.
Qed.

Lemma S_merge_nil l : merge l = [] <-> l = [].
Proof.
  destruct l as [|r rs]; [tauto|]. unfold merge. split; [|discriminate].
  intros H. exfalso. apply (S_fold_nonempty rs [r]); [discriminate|].
  destruct (fold_left merge_step rs [r]) as [|x xs]; [reflexivity|].
  cbn [rev] in H. destruct (rev xs); discriminate.
Qed.

(* ---- the stable sort by start ---- *)

Lemma S_rinsert_den r l z : den (rinsert r l) z = rng_contains r z || den l z.
Proof.
  induction l as [|h t IH]; cbn [rinsert]; [reflexivity|].
  destruct (fst r <=? fst h); [reflexivity|].
  rewrite !S_den_cons, IH. destruct (rng_contains r z), (rng_contains h z); reflexivity.
Qed.

Lemma S_rsort_den l z : den (rsort l) z = den l z.
Proof.
  induction l as [|r l IH]; [reflexivity|]. cbn [rsort fold_right].
  fold (rsort l). rewrite S_rinsert_den, IH. reflexivity.
Qed.

Lemma S_rinsert_sorted r l : Sorted le_start l -> Sorted le_start (rinsert r l).
Proof.
  induction l as [|h t IH]; intros Hs; cbn [rinsert].
  - constructor; constructor.
  - destruct (fst r <=? fst h) eqn:E.
    + constructor; [exact Hs|]. constructor. unfold le_start. lia.
    + inversion Hs as [|? ? Hs' Hhd]; subst. constructor; [apply IH; exact Hs'|].
      destruct t as [|h' t']; cbn [rinsert].
      * constructor. unfold le_start. lia.
      * destruct (fst r <=? fst h'); constructor; unfold le_start.
        -- lia.
        -- inversion Hhd; subst. assumption.
Qed.

Lemma S_rsort_sorted l : Sorted le_start (rsort l).
Proof.
  induction l as [|r l IH]; [constructor|]. cbn [rsort fold_right]. fold (rsort l).
  apply S_rinsert_sorted. exact IH.
Qed.

Lemma S_rinsert_nonempty r l : rinsert r l <> [].
Proof. destruct l; cbn [rinsert]; [discriminate|]. destruct (fst r <=? fst r0); discriminate. Qed.

Lemma S_rsort_nil l : rsort l = [] <-> l = [].
Proof.
  destruct l as [|r l]; [tauto|]. split; [|discriminate]. cbn [rsort fold_right].
  intros H. exfalso. exact (S_rinsert_nonempty _ _ H).
Qed.

(* ---- _divide ---- *)

Fixpoint idxs_of (e : list item) : list Z :=
  match e with [] => [] | Idx z :: t => z :: idxs_of t | Rng _ :: t => idxs_of t end.
Fixpoint ranges_of (e : list item) : list rng :=
  match e with [] => [] | Idx _ :: t => ranges_of t | Rng r :: t => r :: ranges_of t end.

Lemma S_zmem_app z a b : zmem z (a ++ b) = zmem z a || zmem z b.
Proof. apply existsb_app. Qed.

Lemma S_zmem_true z s : zmem z s = true <-> In z s.
Proof.
  unfold zmem. rewrite existsb_exists. split.
  - intros [x [Hx E]]. apply Z.eqb_eq in E. subst. exact Hx.
  - intros H. exists z. split; [exact H|apply Z.eqb_refl].
Qed.

Lemma S_zadd_mem z s x : zmem z (zadd s x) = zmem z s || (z =? x).
Proof.
  unfold zadd. destruct (zmem x s) eqn:E.
  - destruct (z =? x) eqn:E2; [|rewrite orb_false_r; reflexivity].
    apply Z.eqb_eq in E2. subst. rewrite E. reflexivity.
  - rewrite S_zmem_app. cbn. rewrite orb_false_r. reflexivity.
Qed.

Definition divide_step (acc : list Z * list rng) (it : item) : list Z * list rng :=
  match it with
  | Rng r => (fst acc, snd acc ++ [r])
  | Idx z => (zadd (fst acc) z, snd acc)
  end.

Lemma S_divide_fold e : forall acc,
  snd (fold_left divide_step e acc) = snd acc ++ ranges_of e /\
  forall z, zmem z (fst (fold_left divide_step e acc)) = zmem z (fst acc) || zmem z (idxs_of e).
Proof.
  induction e as [|[x|r] e IH]; intros acc; cbn [fold_left idxs_of ranges_of].
  - rewrite app_nil_r. split; [reflexivity|]. intros z. cbn. rewrite orb_false_r. reflexivity.
  - destruct (IH (divide_step acc (Idx x))) as [H1 H2]. split.
    + rewrite H1. reflexivity.
    + intros z. rewrite H2. cbn [divide_step fst]. rewrite S_zadd_mem.
      cbn [zmem existsb]. rewrite orb_assoc. reflexivity.
  - destruct (IH (divide_step acc (Rng r))) as [H1 H2]. split.
    + rewrite H1. cbn [divide_step snd]. rewrite <- app_assoc. reflexivity.
    + intros z. rewrite H2. reflexivity.
Qed.

Lemma S_divide_ranges e : snd (divide e) = ranges_of e.
Proof. unfold divide. fold divide_step. destruct (S_divide_fold e ([], [])) as [H _]. exact H. Qed.

Lemma S_divide_idx e z : zmem z (fst (divide e)) = zmem z (idxs_of e).
Proof. unfold divide. fold divide_step. destruct (S_divide_fold e ([], [])) as [_ H]. apply H. Qed.

Lemma S_denote_split e z : denote e z = zmem z (idxs_of e) || den (ranges_of e) z.
Proof.
  induction e as [|[x|r] e IH]; [reflexivity| |].
  - cbn [denote existsb item_has idxs_of ranges_of zmem]. fold (denote e z). fold (zmem z (idxs_of e)).
    rewrite IH. rewrite (Z.eqb_sym x z). rewrite orb_assoc. reflexivity.
  - cbn [denote existsb item_has idxs_of ranges_of]. fold (denote e z). rewrite IH, S_den_cons.
    destruct (rng_contains r z), (zmem z (idxs_of e)); reflexivity.
Qed.

Lemma S_denote_build rs is_ z : denote (map Rng rs ++ map Idx is_) z = den rs z || zmem z is_.
Proof.
  unfold denote. rewrite existsb_app. f_equal.
  - induction rs as [|r rs IH]; [reflexivity|]. cbn [map existsb item_has]. rewrite IH. reflexivity.
  - induction is_ as [|i is_ IH]; [reflexivity|]. cbn [map existsb item_has zmem].
    fold (zmem z is_). rewrite IH, (Z.eqb_sym i z). reflexivity.
Qed.

(* ---- sorted(idx) ---- *)

Lemma S_zinsert_mem z x l : zmem z (zinsert x l) = (z =? x) || zmem z l.
Proof.
  induction l as [|h t IH]; cbn [zinsert]; [reflexivity|].
  destruct (x <=? h); [reflexivity|]. cbn [zmem existsb]. fold (zmem z (zinsert x t)). rewrite IH.
  fold (zmem z t). destruct (z =? x), (z =? h); reflexivity.
Qed.

Lemma S_zsort_mem z l : zmem z (zsort l) = zmem z l.
Proof.
  induction l as [|x l IH]; [reflexivity|]. cbn [zsort fold_right]. fold (zsort l).
  rewrite S_zinsert_mem, IH. reflexivity.
Qed.

Lemma S_zinsert_sorted x l : Sorted Z.le l -> Sorted Z.le (zinsert x l).
Proof.
  induction l as [|h t IH]; intros Hs; cbn [zinsert].
  - constructor; constructor.
  - destruct (x <=? h) eqn:E.
    + constructor; [exact Hs|]. constructor. lia.
    + inversion Hs as [|? ? Hs' Hhd]; subst. constructor; [apply IH; exact Hs'|].
      destruct t as [|h' t']; cbn [zinsert].
      * constructor. lia.
      * destruct (x <=? h'); constructor; [lia|]. inversion Hhd; subst. assumption.
Qed.

Lemma S_zsort_sorted l : Sorted Z.le (zsort l).
Proof.
  induction l as [|x l IH]; [constructor|]. cbn [zsort fold_right]. fold (zsort l).
  apply S_zinsert_sorted. exact IH.
Qed.

(* ---- dropping the covered indices ---- *)

Lemma S_zmem_cons z i l : zmem z (i :: l) = (z =? i) || zmem z l.
Proof. reflexivity. Qed.

Lemma S_filter_covered rs is_ z :
  zmem z (filter (fun i => negb (existsb (fun r => scrub_covers r i) rs)) is_) || den rs z
  = zmem z is_ || den rs z.
Proof.
  induction is_ as [|i is_ IH]; [reflexivity|]. cbn [filter].
  assert (Hc : existsb (fun r => scrub_covers r i) rs = den rs i).
  { unfold den. apply S_existsb_ext. intros r. apply S_covers_contains. }
  rewrite Hc. destruct (den rs i) eqn:E; cbn [negb].
  - rewrite IH, S_zmem_cons. destruct (z =? i) eqn:E2; [|reflexivity].
    apply Z.eqb_eq in E2. subst. rewrite E, !orb_true_r. reflexivity.
  - rewrite !S_zmem_cons, <- !orb_assoc, IH. reflexivity.
Qed.

(* ---- the theorem ---- *)

Lemma S_only_latest l : is_only_latest l = true <-> l = [-1].
Proof.
  destruct l as [|z [|y t]]; cbn [is_only_latest]; split; intros H; try discriminate.
  - apply Z.eqb_eq in H. subst. reflexivity.
  - injection H as ->. reflexivity.
Qed.

Lemma S_scrub_unfold e :
  scrub e =
  if negb (is_only_latest (fst (divide e))) || negb (match snd (divide e) with [] => true | _ => false end)
  then map Rng (match snd (divide e) with [] => [] | _ => merge (rsort (snd (divide e))) end)
       ++ map Idx (zsort (filter (fun i => negb (existsb (fun r => scrub_covers r i)
              (match snd (divide e) with [] => [] | _ => merge (rsort (snd (divide e))) end)))
              (fst (divide e))))
  else [Idx (-1)].
Proof. unfold scrub. destruct (divide e) as [is_ rs]. reflexivity. Qed.

Lemma S_norm_ranges_den rs z :
  den (match rs with [] => [] | _ => merge (rsort rs) end) z = den rs z.
Proof.
  destruct rs as [|r rs]; [reflexivity|].
  rewrite S_merge_den; [apply S_rsort_den|apply S_rsort_sorted].
Qed.

Theorem S_scrub_denote e z : denote (scrub e) z = denote e z.
Proof.
  rewrite S_scrub_unfold, (S_denote_split e z).
  rewrite <- (S_divide_idx e z), <- (S_divide_ranges e).
  set (is_ := fst (divide e)). set (rs := snd (divide e)).
  destruct (negb (is_only_latest is_) || negb (match rs with [] => true | _ => false end)) eqn:G.
  - rewrite S_denote_build, S_zsort_mem, orb_comm, S_filter_covered, S_norm_ranges_den. reflexivity.
  - apply orb_false_elim in G. destruct G as [G1 G2].
    apply negb_false_iff in G1. apply negb_false_iff in G2.
    apply S_only_latest in G1. rewrite G1. destruct rs; [|discriminate].
    unfold denote, zmem, den. cbn [existsb item_has]. rewrite (Z.eqb_sym z (-1)), !orb_false_r. reflexivity.
Qed.

(* ---- the run-id constraint set built from a scrubbed expression ---- *)

Definition not_latest (it : item) : bool := negb (item_eqb it (Idx (-1))).
Definition is_rng (it : item) : bool := match it with Rng _ => true | Idx _ => false end.
Definition is_other_idx (it : item) : bool := match it with Idx z => negb (z =? -1) | Rng _ => false end.

Lemma S_not_latest_split it : not_latest it = is_rng it || is_other_idx it.
Proof. destruct it as [z|[s [e|]]]; cbn; reflexivity. Qed.

Lemma S_filter_nil {A} (f : A -> bool) l : filter f l = [] <-> existsb f l = false.
Proof.
  induction l as [|a l IH]; cbn [filter existsb]; [tauto|].
  destruct (f a); cbn [orb]; [split; discriminate|exact IH].
Qed.

Lemma S_existsb_or {A} (f g : A -> bool) l :
  existsb (fun x => f x || g x) l = existsb f l || existsb g l.
Proof.
  induction l as [|a l IH]; [reflexivity|]. cbn [existsb]. rewrite IH.
  destruct (f a), (g a), (existsb f l), (existsb g l); reflexivity.
Qed.

Lemma S_has_rng e : existsb is_rng e = negb (match ranges_of e with [] => true | _ => false end).
Proof.
  induction e as [|[x|r] e IH]; [reflexivity| |]; cbn [existsb is_rng ranges_of]; auto.
Qed.

Lemma S_has_other e : existsb is_other_idx e = existsb (fun z => negb (z =? -1)) (idxs_of e).
Proof.
  induction e as [|[x|r] e IH]; [reflexivity| |]; cbn [existsb is_other_idx idxs_of]; rewrite IH; reflexivity.
Qed.

Lemma S_existsb_mem_ext (P : Z -> bool) l1 l2 :
  (forall z, zmem z l1 = zmem z l2) -> existsb P l1 = existsb P l2.
Proof.
  intros H. apply eq_true_iff_eq. rewrite !existsb_exists. split; intros [x [Hx Px]]; exists x; split; auto.
  - apply S_zmem_true. rewrite <- H. apply S_zmem_true. exact Hx.
  - apply S_zmem_true. rewrite H. apply S_zmem_true. exact Hx.
Qed.

Lemma S_has_build rs is_ :
  existsb not_latest (map Rng rs ++ map Idx is_)
  = negb (match rs with [] => true | _ => false end) || existsb (fun z => negb (z =? -1)) is_.
Proof.
  rewrite existsb_app. f_equal.
  - destruct rs as [|[s [e|]] rs]; reflexivity.
  - induction is_ as [|i is_ IH]; [reflexivity|]. cbn [map existsb]. rewrite IH.
    f_equal.
Qed.

Lemma S_filter_all {A} (f : A -> bool) l : (forall x, f x = true) -> filter f l = l.
Proof. intros H. induction l as [|a l IH]; [reflexivity|]. cbn [filter]. rewrite H, IH. reflexivity. Qed.

(* the constraint set is empty exactly when the raw expression's is *)
Lemma S_scrub_null e :
  existsb not_latest (scrub e) = existsb not_latest e.
Proof.
  assert (R : existsb not_latest e
              = negb (match ranges_of e with [] => true | _ => false end)
                || existsb (fun z => negb (z =? -1)) (idxs_of e)).
  { rewrite <- S_has_rng, <- S_has_other, <- S_existsb_or.
    apply S_existsb_ext. exact S_not_latest_split. }
  rewrite R, S_scrub_unfold.
  rewrite <- (S_divide_ranges e).
  rewrite <- (S_existsb_mem_ext _ _ _ (S_divide_idx e)).
  set (is_ := fst (divide e)). set (rs := snd (divide e)).
  destruct (negb (is_only_latest is_) || negb (match rs with [] => true | _ => false end)) eqn:G.
  - rewrite S_has_build.
    destruct rs as [|r rs'] eqn:Ers.
    + rewrite (S_filter_all _ is_) by (intros x; reflexivity).
      f_equal. apply S_existsb_mem_ext. intros z. apply S_zsort_mem.
    + assert (N : merge (rsort (r :: rs')) <> []).
      { intros H. apply (proj1 (S_merge_nil _)) in H. apply (proj1 (S_rsort_nil _)) in H. discriminate H. }
      destruct (merge (rsort (r :: rs'))); [congruence|]. reflexivity.
  - apply orb_false_elim in G. destruct G as [G1 G2].
    apply negb_false_iff in G1. apply negb_false_iff in G2.
    apply S_only_latest in G1. rewrite G1. destruct rs; [|discriminate]. reflexivity.
Qed.

Lemma S_denote_filter_latest l z : z <> -1 -> denote (filter not_latest l) z = denote l z.
Proof.
  intros Hz. induction l as [|it l IH]; [reflexivity|]. cbn [filter].
  destruct (not_latest it) eqn:E.
  - cbn [denote existsb]. fold (denote (filter not_latest l) z). fold (denote l z). rewrite IH. reflexivity.
  - rewrite IH. cbn [denote existsb]. fold (denote l z).
    destruct it as [x|[s [e|]]]; try discriminate.
    unfold not_latest in E. cbn in E. apply negb_false_iff in E. apply Z.eqb_eq in E. subst.
    cbn [item_has]. replace (-1 =? z) with false by lia. reflexivity.
Qed.

(* col_ok on the run column: empty set, or denotation *)
Lemma S_col_ok_denote c z :
  col_ok c z = (match c with [] => true | _ => false end) || denote c z.
Proof.
  unfold col_ok. rewrite <- orb_assoc. f_equal. unfold denote.
  rewrite <- S_existsb_or. apply S_existsb_ext. intros [x|r]; cbn [item_has].
  - rewrite orb_false_r. reflexivity.
  - reflexivity.
Qed.

Lemma S_null_existsb {A} (f : A -> bool) l :
  (match filter f l with [] => true | _ => false end) = negb (existsb f l).
Proof.
  destruct (existsb f l) eqn:E.
  - destruct (filter f l) eqn:F; [|reflexivity]. apply S_filter_nil in F. congruence.
  - apply S_filter_nil in E. rewrite E. reflexivity.
Qed.

Theorem S_scrub_constraint e z :
  z <> -1 ->
  col_ok (run_constraint (Some (scrub e))) z = col_ok (run_constraint (Some e)) z.
Proof.
  intros Hz. unfold run_constraint. fold not_latest.
  rewrite !S_col_ok_denote, !S_null_existsb, S_scrub_null.
  rewrite !(S_denote_filter_latest _ _ Hz), S_scrub_denote. reflexivity.
Qed.

(* ================================================================== *)
(* C. sorted(set(...)) : strictly increasing, same elements             *)
(* ================================================================== *)

Record ord_ok {A} (cmp : A -> A -> comparison) : Prop := {
  ok_eq : forall x y, cmp x y = Eq <-> x = y;
  ok_anti : forall x y, cmp y x = CompOpp (cmp x y);
  ok_trans : forall x y z, cmp x y = Lt -> cmp y z = Lt -> cmp x z = Lt }.

Lemma S_ord_Z : ord_ok Z.compare.
Proof.
  split.
  - apply Z.compare_eq_iff.
  - intros x y. apply Z.compare_antisym.
  - intros x y z. rewrite !Z.compare_lt_iff. lia.
Qed.

Lemma S_ord_pair {A B} (ca : A -> A -> comparison) (cb : B -> B -> comparison) :
  ord_ok ca -> ord_ok cb -> ord_ok (cmp_pair ca cb).
Proof.
  intros [ea aa ta] [eb ab tb]. split.
  - intros [a b] [a' b']. unfold cmp_pair, lexc. cbn [fst snd]. split.
    + destruct (ca a a') eqn:E; try discriminate. intros H.
      apply ea in E. apply eb in H. subst. reflexivity.
    + intros H. injection H as -> ->.
      replace (ca a' a') with Eq by (symmetry; apply ea; reflexivity).
      apply eb. reflexivity.
  - intros [a b] [a' b']. unfold cmp_pair, lexc. cbn [fst snd].
    rewrite (aa a a'). destruct (ca a a'); cbn [CompOpp]; auto.
  - intros [a b] [a' b'] [a'' b'']. unfold cmp_pair, lexc. cbn [fst snd].
    destruct (ca a a') eqn:E1; try discriminate; destruct (ca a' a'') eqn:E2; try discriminate; intros H1 H2.
    + apply ea in E1. apply ea in E2. subst.
      replace (ca a'' a'') with Eq by (symmetry; apply ea; reflexivity). eapply tb; eauto.
    + apply ea in E1. subst. rewrite E2. reflexivity.
    + apply ea in E2. subst. rewrite E1. reflexivity.
    + rewrite (ta _ _ _ E1 E2). reflexivity.
Qed.

Lemma S_ord_cmp5 : ord_ok cmp5.
Proof. unfold cmp5. repeat apply S_ord_pair; apply S_ord_Z. Qed.

Section USort.
  Context {A : Type} (cmp : A -> A -> comparison) (OK : ord_ok cmp).
  Definition ltc (x y : A) : Prop := cmp x y = Lt.

  Lemma S_uinsert_In x l y : In y (uinsert cmp x l) <-> y = x \/ In y l.
  Proof.
    induction l as [|h t IH]; cbn [uinsert In]; [intuition|].
    destruct (cmp x h) eqn:E; cbn [In].
    - apply (ok_eq _ OK) in E. subst. intuition.
    - intuition.
    - rewrite IH. intuition.
  Qed.

  Lemma S_uinsert_sorted x l : StronglySorted ltc l -> StronglySorted ltc (uinsert cmp x l).
  Proof.
    induction l as [|h t IH]; intros Hs; cbn [uinsert].
    - constructor; constructor.
    - inversion Hs as [|? ? Hs' Hall]; subst. destruct (cmp x h) eqn:E.
      + exact Hs.
      + constructor; [exact Hs|]. constructor; [exact E|].
        rewrite Forall_forall in *. intros y Hy. unfold ltc in *.
        eapply (ok_trans _ OK); [exact E|apply Hall; exact Hy].
      + constructor; [apply IH; exact Hs'|].
        rewrite Forall_forall in *. intros y Hy. apply S_uinsert_In in Hy. destruct Hy as [->|Hy].
        * unfold ltc. rewrite (ok_anti _ OK x h), E. reflexivity.
        * apply Hall. exact Hy.
  Qed.

  Lemma S_usort_In l y : In y (usort cmp l) <-> In y l.
  Proof.
    induction l as [|x l IH]; [tauto|]. cbn [usort fold_right]. fold (usort cmp l).
    rewrite S_uinsert_In, IH. cbn [In]. intuition.
  Qed.

  Lemma S_usort_sorted l : StronglySorted ltc (usort cmp l).
  Proof.
    induction l as [|x l IH]; [constructor|]. cbn [usort fold_right]. fold (usort cmp l).
    apply S_uinsert_sorted. exact IH.
  Qed.

  Lemma S_ltc_irrefl x : ~ ltc x x.
  Proof.
    unfold ltc. intros H. assert (E : cmp x x = Eq) by (apply (ok_eq _ OK); reflexivity). congruence.
  Qed.

  Lemma S_sorted_nodup l : StronglySorted ltc l -> NoDup l.
  Proof.
    induction 1 as [|h t Hs IH Hall]; constructor; auto.
    intros Hin. rewrite Forall_forall in Hall. apply (S_ltc_irrefl h). apply Hall. exact Hin.
  Qed.

  (* a strictly increasing list is determined by its elements *)
  Lemma S_sorted_unique l1 : forall l2,
    StronglySorted ltc l1 -> StronglySorted ltc l2 ->
    (forall y, In y l1 <-> In y l2) -> l1 = l2.
  Proof.
    induction l1 as [|a l1 IH]; intros l2 H1 H2 E.
    - destruct l2 as [|b l2]; [reflexivity|]. exfalso. apply (E b). left. reflexivity.
    - destruct l2 as [|b l2]; [exfalso; apply (E a); left; reflexivity|].
      inversion H1 as [|? ? H1' A1]; subst. inversion H2 as [|? ? H2' A2]; subst.
      rewrite Forall_forall in A1, A2.
      assert (a = b).
      { destruct (proj1 (E a) (or_introl eq_refl)) as [->|Ha]; [reflexivity|].
        destruct (proj2 (E b) (or_introl eq_refl)) as [->|Hb]; [reflexivity|].
        exfalso. apply (S_ltc_irrefl a). unfold ltc in *.
        eapply (ok_trans _ OK); [apply A1; exact Hb|apply A2; exact Ha]. }
      subst b. f_equal. apply IH; auto. intros y. split; intros Hy.
      + destruct (proj1 (E y) (or_intror Hy)) as [<-|H]; [|exact H].
        exfalso. apply (S_ltc_irrefl a). apply A1. exact Hy.
      + destruct (proj2 (E y) (or_intror Hy)) as [<-|H]; [|exact H].
        exfalso. apply (S_ltc_irrefl a). apply A2. exact Hy.
  Qed.
End USort.

(* ================================================================== *)
(* D. what a prime key has to satisfy (declarative)                      *)
(* ================================================================== *)

(* the id `id` of `table` carries the name `n` *)
Definition name_is (table : list Z) (id n : Z) : Prop :=
  0 <= id /\ nth_error table (Z.to_nat id) = Some n.

Definition name_sem (table : list Z) (v : option (list Z)) (id : Z) : Prop :=
  match v with
  | None => True
  | Some [] => True
  | Some names => exists n, In n names /\ name_is table id n
  end.

(* -1 items are the "latest" marker and do not filter; no other item = no filter *)
Definition run_sem (v : option (list item)) (z : Z) : Prop :=
  match v with
  | None => True
  | Some e => existsb not_latest e = false \/ denote (filter not_latest e) z = true
  end.

Definition matches (d : db) (p : params) (k : pk6) : Prop :=
  let '(r, t, k', a, s, v) := k in
  run_sem (p_runids p) r /\
  name_sem (t_target d) (p_targets p) t /\ name_sem (t_task d) (p_tasks p) k' /\
  name_sem (t_alg d) (p_algs p) a /\ name_sem (t_state d) (p_svs p) s /\
  name_sem (t_value d) (p_vals p) v.

Definition ids_nonneg (k : pk6) : Prop :=
  let '(r, t, k', a, s, v) := k in 0 <= t /\ 0 <= k' /\ 0 <= a /\ 0 <= s /\ 0 <= v.

Lemma S_subset_from_In table name : forall i id,
  In id (subset_from i table name) <->
  exists k, nth_error table k = Some name /\ id = i + Z.of_nat k.
Proof.
  induction table as [|n t IH]; intros i id; cbn [subset_from].
  - split; [intros []|]. intros [k [H _]]. destruct k; discriminate.
  - destruct (n =? name) eqn:E.
    + cbn [In]. rewrite IH. split.
      * intros [<-|[k [H1 H2]]].
        -- exists 0%nat. apply Z.eqb_eq in E. subst. split; [reflexivity|lia].
        -- exists (S k). split; [exact H1|lia].
      * intros [[|k] [H1 H2]].
        -- left. lia.
        -- right. exists k. split; [exact H1|lia].
    + rewrite IH. split.
      * intros [k [H1 H2]]. exists (S k). split; [exact H1|lia].
      * intros [[|k] [H1 H2]].
        -- cbn in H1. injection H1 as ->. rewrite Z.eqb_refl in E. discriminate.
        -- exists k. split; [exact H1|lia].
Qed.

Lemma S_subset_ids_In table name id : 0 <= id ->
  (In id (subset_ids table name) <-> name_is table id name).
Proof.
  intros Hid. unfold subset_ids, name_is. rewrite S_subset_from_In. split.
  - intros [k [H1 H2]]. split; [exact Hid|]. replace (Z.to_nat id) with k by lia. exact H1.
  - intros [_ H]. exists (Z.to_nat id). split; [exact H|lia].
Qed.

Lemma S_col_ok_idx c id :
  (forall it, In it c -> is_rng it = false) ->
  col_ok c id = (match c with [] => true | _ => false end) || existsb (item_eqb (Idx id)) c.
Proof.
  intros H. unfold col_ok. rewrite <- orb_assoc. f_equal.
  replace (existsb (fun it => match it with Rng r => rng_contains r id | Idx _ => false end) c) with false.
  - rewrite orb_false_r. apply S_existsb_ext. intros [x|[s [e|]]]; cbn [item_eqb]; auto. apply Z.eqb_sym.
  - symmetry. apply not_true_iff_false. rewrite existsb_exists. intros [it [Hin Hit]].
    specialize (H it Hin). destruct it; cbn in H; discriminate.
Qed.

Lemma S_name_constraint_spec table names id : 0 <= id -> names <> [] ->
  (col_ok (name_constraint table (Some names)) id = true <->
   exists n, In n names /\ name_is table id n).
Proof.
  intros Hid Hne. unfold name_constraint.
  set (f := name_ids table).
  assert (Hf : forall n it, In it (f n) -> exists x, it = Idx x /\ (In x (subset_ids table n) \/ x = -1)).
  { intros n it. unfold f, name_ids. destruct (subset_ids table n) as [|a l] eqn:E.
    - intros [<-|[]]. exists (-1). auto.
    - rewrite in_map_iff. intros [x [<- Hx]]. exists x. auto. }
  assert (Hf2 : forall n x, In x (subset_ids table n) -> In (Idx x) (f n)).
  { intros n x. unfold f, name_ids. destruct (subset_ids table n) as [|a l] eqn:E; [intros []|].
    intros Hx. apply in_map. exact Hx. }
  assert (Hne2 : forall n, f n <> []).
  { intros n. unfold f, name_ids. destruct (subset_ids table n); discriminate. }
  rewrite S_col_ok_idx.
  - assert (N : flat_map f names <> []).
    { destruct names as [|n ns]; [congruence|]. cbn [flat_map]. intros H.
      apply app_eq_nil in H. destruct H as [H _]. exact (Hne2 n H). }
    destruct (flat_map f names) as [|c0 cs] eqn:FM; [congruence|]. cbn [orb]. rewrite <- FM.
    rewrite existsb_exists. split.
    + intros [it [Hin E]]. apply in_flat_map in Hin. destruct Hin as [n [Hn Hit]].
      destruct (Hf n it Hit) as [x [-> Hx]]. cbn [item_eqb] in E. apply Z.eqb_eq in E. subst x.
      exists n. split; [exact Hn|]. destruct Hx as [Hx|Hx]; [|lia].
      apply S_subset_ids_In; assumption.
    + intros [n [Hn Hname]]. exists (Idx id). split; [|cbn; apply Z.eqb_refl].
      apply in_flat_map. exists n. split; [exact Hn|]. apply Hf2. apply S_subset_ids_In; assumption.
  - intros it Hin. apply in_flat_map in Hin. destruct Hin as [n [_ Hit]].
    destruct (Hf n it Hit) as [x [-> _]]. reflexivity.
Qed.

Lemma S_name_col table v id : 0 <= id ->
  (col_ok (name_constraint table v) id = true <-> name_sem table v id).
Proof.
  intros Hid. destruct v as [[|n ns]|]; cbn [name_sem]; try (cbn; tauto).
  apply S_name_constraint_spec; [exact Hid|discriminate].
Qed.

Lemma S_run_col v z : col_ok (run_constraint v) z = true <-> run_sem v z.
Proof.
  destruct v as [e|]; cbn [run_constraint run_sem]; [|cbn; tauto].
  fold not_latest. rewrite S_col_ok_denote, S_null_existsb, orb_true_iff, negb_true_iff. tauto.
Qed.

Lemma S_sat_matches d p k : ids_nonneg k -> (sat (constraints d p) k = true <-> matches d p k).
Proof.
  destruct k as [[[[[r t] k'] a] s] v]. cbn [ids_nonneg]. intros (Ht & Hk & Ha & Hs & Hv).
  unfold sat, constraints, matches. cbn [pk_list combine forallb fst snd].
  rewrite !andb_true_iff, S_run_col, !S_name_col by assumption. tauto.
Qed.

(* ================================================================== *)
(* E. _prime_keys / _find                                               *)
(* ================================================================== *)

Definition lt5 (a b : pk5) : Prop := cmp5 a b = Lt.
Definition run5 (k : pk5) : Z := let '(r, _, _, _, _) := k in r.

Lemma S_prime_keys_sorted d p : StronglySorted lt5 (prime_keys d p).
Proof. unfold prime_keys. apply (S_usort_sorted cmp5 S_ord_cmp5). Qed.

Lemma S_prime_keys_In d p t :
  In t (prime_keys d p) <->
  exists k, In k (prime d) /\ pk_prefix k = t /\ sat (constraints d p) k = true.
Proof.
  unfold prime_keys. rewrite (S_usort_In cmp5 S_ord_cmp5), in_map_iff. split.
  - intros [k [E Hk]]. apply filter_In in Hk. exists k. tauto.
  - intros [k [H1 [H2 H3]]]. exists k. split; [exact H2|]. apply filter_In. tauto.
Qed.

Lemma S_lt5_run a b : lt5 a b -> run5 a <= run5 b.
Proof.
  destruct a as [[[[r t] k] a] s], b as [[[[r' t'] k'] a'] s'].
  unfold lt5, cmp5, cmp_pair, lexc. cbn [fst snd run5].
  destruct (r ?= r') eqn:E.
  - apply Z.compare_eq in E. intros _. lia.
  - intros _. pose proof (proj1 (Z.compare_lt_iff r r') E). lia.
  - intros H. discriminate.
Qed.

Lemma S_prime_keys_runs d p : StronglySorted (fun a b => run5 a <= run5 b) (prime_keys d p).
Proof.
  pose proof (S_prime_keys_sorted d p) as H. induction H as [|h t Hs IH Hall]; constructor; auto.
  eapply Forall_impl; [|exact Hall]. intros b. apply S_lt5_run.
Qed.

(* python slices with non-negative bounds *)
Lemma S_firstn_min {A} k (l : list A) : firstn (Nat.min k (length l)) l = firstn k l.
Proof.
  destruct (Nat.le_gt_cases k (length l)) as [H|H].
  - rewrite Nat.min_l by exact H. reflexivity.
  - rewrite Nat.min_r by lia. rewrite firstn_all, firstn_all2 by lia. reflexivity.
Qed.

Lemma S_pyslice_some {A} (i l : Z) (L : list A) : 0 <= i -> 0 <= l ->
  pyslice i (Some (i + l)) L = firstn (Z.to_nat l) (skipn (Z.to_nat i) L).
Proof.
  intros Hi Hl. unfold pyslice, clampi.
  set (n := Z.of_nat (length L)).
  replace (i <? 0) with false by lia. replace (i + l <? 0) with false by lia.
  destruct (Z_le_gt_dec i n) as [H|H].
  - replace (Z.min i n) with i by lia.
    rewrite <- (S_firstn_min (Z.to_nat l)). f_equal. rewrite skipn_length. unfold n in *. lia.
  - replace (Z.to_nat (Z.min (i + l) n - Z.min i n)) with 0%nat by lia.
    rewrite (skipn_all2 (n := Z.to_nat i)) by (unfold n in *; lia).
    cbn [firstn]. destruct (Z.to_nat l); reflexivity.
Qed.

Lemma S_pyslice_none {A} (i : Z) (L : list A) : 0 <= i ->
  pyslice i None L = skipn (Z.to_nat i) L.
Proof.
  intros Hi. unfold pyslice, clampi. set (n := Z.of_nat (length L)).
  replace (i <? 0) with false by lia.
  destruct (Z_le_gt_dec i n) as [H|H].
  - replace (Z.min i n) with i by lia.
    rewrite firstn_all2; [reflexivity|]. rewrite skipn_length. unfold n in *. lia.
  - rewrite (skipn_all2 (n := Z.to_nat i)) by (unfold n in *; lia).
    replace (Z.to_nat (n - Z.min i n)) with 0%nat by lia. reflexivity.
Qed.

Lemma S_find_full d p : fst (find d p 0 None) = prime_keys d p.
Proof. unfold find. cbn [fst]. rewrite S_pyslice_none by lia. reflexivity. Qed.

Lemma S_find_total d p i l : snd (find d p i l) = Z.of_nat (length (fst (find d p 0 None))).
Proof. rewrite S_find_full. reflexivity. Qed.

Lemma S_find_page d p i l : 0 <= i -> 0 <= l ->
  fst (find d p i (Some l)) = firstn (Z.to_nat l) (skipn (Z.to_nat i) (fst (find d p 0 None))).
Proof. intros Hi Hl. rewrite S_find_full. unfold find. cbn [fst]. apply S_pyslice_some; assumption. Qed.

Lemma S_find_tail d p i : 0 <= i ->
  fst (find d p i None) = skipn (Z.to_nat i) (fst (find d p 0 None)).
Proof. intros Hi. rewrite S_find_full. unfold find. cbn [fst]. apply S_pyslice_none; assumption. Qed.

(* consecutive pages tile the list *)
Lemma S_page_app {A} (l l' : nat) (M : list A) :
  firstn l M ++ firstn l' (skipn l M) = firstn (l + l') M.
Proof.
  revert M. induction l as [|l IH]; intros M; [reflexivity|].
  destruct M as [|a M]; cbn [firstn skipn plus app].
  - destruct l'; reflexivity.
  - rewrite IH. reflexivity.
Qed.

Lemma S_skipn_add {A} (a b : nat) (M : list A) : skipn (a + b) M = skipn b (skipn a M).
Proof.
  revert M. induction a as [|a IH]; intros M; [reflexivity|].
  destruct M as [|x M]; cbn [plus skipn]; [destruct b; reflexivity|apply IH].
Qed.

Lemma S_pages_concat {A} (L : nat) (M : list A) n :
  concat (map (fun k => firstn L (skipn (k * L) M)) (seq 0 n)) = firstn (n * L) M.
Proof.
  induction n as [|n IH]; [reflexivity|].
  rewrite seq_S, map_app, concat_app, IH. cbn [plus map concat]. rewrite app_nil_r.
  replace (S n * L)%nat with (n * L + L)%nat by lia. apply S_page_app.
Qed.

(* ================================================================== *)
(* F. the facade: find = _find after _scrub                              *)
(* ================================================================== *)

Definition run6 (k : pk6) : Z := let '(r, _, _, _, _, _) := k in r.
Definition key_ok (k : pk6) : Prop := ids_nonneg k /\ run6 k <> -1.

Lemma S_run_sem_scrub e z : z <> -1 -> (run_sem (Some (scrub e)) z <-> run_sem (Some e) z).
Proof.
  intros Hz. rewrite <- !S_run_col, (S_scrub_constraint e z Hz). tauto.
Qed.

Lemma S_matches_scrub d p k : run6 k <> -1 -> (matches d (scrub_params p) k <-> matches d p k).
Proof.
  destruct k as [[[[[r t] k'] a] s] v]. cbn [run6]. intros Hr.
  unfold scrub_params. destruct p as [[e|] pt pk pa ps pv]; cbn [p_runids]; [|tauto].
  unfold matches. cbn [p_runids p_targets p_tasks p_algs p_svs p_vals].
  rewrite (S_run_sem_scrub e r Hr). tauto.
Qed.

Definition full_list (d : db) (p : params) : list pk5 := fst (search_find d p 0 None).

Theorem S_exact d p :
  Forall key_ok (prime d) ->
  StronglySorted lt5 (full_list d p) /\
  StronglySorted (fun a b => run5 a <= run5 b) (full_list d p) /\
  NoDup (full_list d p) /\
  (forall t, In t (full_list d p) <->
             exists k, In k (prime d) /\ pk_prefix k = t /\ matches d p k).
Proof.
  intros Hk. unfold full_list, search_find. rewrite S_find_full.
  split; [apply S_prime_keys_sorted|]. split; [apply S_prime_keys_runs|].
  split; [apply (S_sorted_nodup cmp5 S_ord_cmp5); apply S_prime_keys_sorted|].
  intros t. rewrite S_prime_keys_In. rewrite Forall_forall in Hk.
  split; intros [k [H1 [H2 H3]]]; exists k; (split; [exact H1|split; [exact H2|]]);
    destruct (Hk k H1) as [Hi Hr].
  - apply (S_matches_scrub d p k Hr). apply S_sat_matches; assumption.
  - apply S_sat_matches; [exact Hi|]. apply (S_matches_scrub d p k Hr). exact H3.
Qed.

Theorem S_exact_unique d p l :
  Forall key_ok (prime d) ->
  StronglySorted lt5 l ->
  (forall t, In t l <-> exists k, In k (prime d) /\ pk_prefix k = t /\ matches d p k) ->
  l = full_list d p.
Proof.
  intros Hk Hs Hin. destruct (S_exact d p Hk) as (F1 & _ & _ & F2).
  apply (S_sorted_unique cmp5 S_ord_cmp5); auto. intros y. rewrite Hin, F2. tauto.
Qed.

Theorem S_total d p i l : snd (search_find d p i l) = Z.of_nat (length (full_list d p)).
Proof. apply S_find_total. Qed.

Theorem S_pages d p i l : 0 <= i -> 0 <= l ->
  fst (search_find d p i (Some l)) = firstn (Z.to_nat l) (skipn (Z.to_nat i) (full_list d p)).
Proof. apply S_find_page. Qed.

Theorem S_pages_open d p i : 0 <= i ->
  fst (search_find d p i None) = skipn (Z.to_nat i) (full_list d p).
Proof. apply S_find_tail. Qed.

Theorem S_pages_tile d p (L n : nat) :
  concat (map (fun k => fst (search_find d p (Z.of_nat (k * L)) (Some (Z.of_nat L)))) (seq 0 n))
  = firstn (n * L) (full_list d p).
Proof.
  rewrite <- S_pages_concat. f_equal. apply map_ext. intros k.
  rewrite S_pages by lia. rewrite !Nat2Z.id. reflexivity.
Qed.

Theorem S_pages_cover d p (L n : nat) : (length (full_list d p) <= n * L)%nat ->
  concat (map (fun k => fst (search_find d p (Z.of_nat (k * L)) (Some (Z.of_nat L)))) (seq 0 n))
  = full_list d p.
Proof. intros H. rewrite S_pages_tile. apply firstn_all2. exact H. Qed.

Lemma S_ss_impl {A} (R Q : A -> A -> Prop) l :
  (forall a b, R a b -> Q a b) -> StronglySorted R l -> StronglySorted Q l.
Proof.
  intros HRQ H. induction H as [|h t Hs IH Hall]; constructor; auto.
  eapply Forall_impl; [|exact Hall]. intros b. apply HRQ.
Qed.

(* facet: sorted, duplicate-free, exactly the names of the matching keys *)
Theorem S_facet d p col :
  StronglySorted Z.lt (search_facet d p col) /\
  forall n, In n (search_facet d p col) <->
            exists k, In k (full_list d p) /\
                      nth (Z.to_nat (col5 col k)) (facet_table d col) (-1) = n.
Proof.
  unfold search_facet, facet, full_list, search_find. rewrite S_find_full. split.
  - eapply S_ss_impl; [|apply (S_usort_sorted Z.compare S_ord_Z)].
    intros a b Hb. apply Z.compare_lt_iff. exact Hb.
  - intros n. rewrite (S_usort_In Z.compare S_ord_Z), in_map_iff. split.
    + intros [k [E Hk]]. exists k. tauto.
    + intros [k [Hk E]]. exists k. tauto.
Qed.
