(* Proofs/ShakeAfter.v -- C14: what happens at and after a successful phase 5. *)
From Coq Require Import List ZArith Bool Lia.
From DV Require Import Model.Frame Model.Shake Proofs.FrameProofs Proofs.ShakeProofs.
Import ListNotations.
Open Scope Z_scope.

(* once dataReceived is handed back the connection IS the wrapped protocol *)
Lemma S_restored_run O ch chunks : forall w,
  wrestored w = true ->
  snd (sconn_run O ch (mkS w (clive (winner w))) chunks) = snd (conn_run ch (winner w) chunks).
Proof.
  induction chunks as [|d ds IH]; intros w Hr; cbn [sconn_run conn_run]; [reflexivity|].
  unfold sconn_feed. cbn [slive sw]. rewrite Hr.
  destruct (clive (winner w)) eqn:Lv.
  - destruct (conn_feed ch (winner w) d) as [i o] eqn:F.
    assert (Hi : clive i = negb (existsb is_stop o)).
    { unfold conn_feed in F. rewrite Lv in F. destruct (feed (cfs (winner w)) d) as [fs ps].
      injection F as <- <-. reflexivity. }
    rewrite <- Hi.
    specialize (IH (set_inner w i) Hr). cbn [winner set_inner] in IH.
    destruct (sconn_run O ch (mkS (set_inner w i) (clive i)) ds) as [c2 o2].
    destruct (conn_run ch i ds) as [c3 o3]. cbn [snd] in *. rewrite IH. reflexivity.
  - assert (D : conn_feed ch (winner w) d = (winner w, [])).
    { unfold conn_feed. rewrite Lv. reflexivity. }
    rewrite D. specialize (IH w Hr). rewrite Lv in IH.
    destruct (sconn_run O ch (mkS w false) ds) as [c2 o2].
    destruct (conn_run ch (winner w) ds) as [c3 o3]. cbn [snd] in *. rewrite IH. reflexivity.
Qed.

(* The chunk that completes the phase-5 packet.  The wrapper waits in phase 5
   for a reply of rlen > 0 bytes, holds pre, and d arrives with
   pre ++ d = reply ++ rest; the reply verifies and echoes the challenge.
   Then the rest of that chunk and everything that arrives later is handled
   exactly as if a fresh wrapped protocol had received rest, later_1, later_2... *)
Theorem S_after O ch w d reply rest later :
  locked w -> wphase w = P5 -> wlen w = Z.of_nat (length reply) -> (0 < length reply)%nat ->
  wbuf w ++ d = reply ++ rest ->
  verify O reply = true -> echo_ok O reply = true ->
  snd (sconn_run O ch (mkS w true) (d :: later)) = snd (conn_run ch cinit (rest :: later)).
Proof.
  intros [Hr Hi] Hp Hl Hpos Hb Hv He. cbn [sconn_run conn_run].
  unfold sconn_feed at 1. cbn [slive sw]. rewrite Hr. unfold sprocess.
  assert (IT : siter O ch (set_buf w (wbuf w ++ d))
               = Some (set_phase (mkW [] (wlen w) P5 true (fst (conn_feed ch cinit rest))) P6,
                       snd (conn_feed ch cinit rest))).
  { unfold siter. cbn [set_buf wlen wbuf]. rewrite Hb, Hl.
    assert (L : Z.of_nat (length reply) <=? Z.of_nat (length (reply ++ rest)) = true)
      by (apply Z.leb_le; rewrite app_length; lia).
    rewrite L, Nat2Z.id, firstn_app, skipn_app, Nat.sub_diag, firstn_all, skipn_all.
    cbn [firstn skipn app]. rewrite app_nil_r.
    unfold sphase. cbn [wphase set_buf]. rewrite Hp. unfold p5. cbn [winner wbuf wlen wphase set_buf]. rewrite Hv, He, Hi.
    destruct (conn_feed ch cinit rest) as [i o]. cbn [fst snd]. unfold set_phase. cbn [wbuf wlen wphase wrestored winner]. rewrite ?Hp, ?Hl. reflexivity. }
  destruct (conn_feed ch cinit rest) as [i o] eqn:F. cbn [fst snd] in IT.
  assert (DR : sdrain O ch sfuel (set_buf w (wbuf w ++ d))
               = (set_phase (mkW [] (wlen w) P5 true i) P6, o)).
  { unfold sfuel. cbn [sdrain]. rewrite IT. destruct (existsb is_abort o); [reflexivity|].
    assert (N : siter O ch (set_phase (mkW [] (wlen w) P5 true i) P6) = None).
    { unfold siter. cbn [set_phase wlen wbuf length]. rewrite Hl.
      destruct (Z.of_nat (length reply) <=? Z.of_nat 0) eqn:C; [apply Z.leb_le in C; lia|reflexivity]. }
    rewrite N. rewrite app_nil_r. reflexivity. }
  rewrite DR.
  assert (Hli : clive i = negb (existsb is_stop o)).
  { unfold conn_feed, cinit in F. cbn [clive cfs] in F. destruct (feed finit rest) as [fs ps].
    injection F as <- <-. reflexivity. }
  rewrite <- Hli.
  pose proof (S_restored_run O ch later (set_phase (mkW [] (wlen w) P5 true i) P6) eq_refl) as R.
  cbn [winner set_phase] in R.
  destruct (sconn_run O ch (mkS (set_phase (mkW [] (wlen w) P5 true i) P6) (clive i)) later) as [c2 o2].
  destruct (conn_run ch i later) as [c3 o3]. cbn [snd] in *. rewrite R. reflexivity.
Qed.

(* the corner the hypothesis rlen > 0 excludes: an oracle that validates the
   empty reply lets phase 6 run in the same call -- deliveries, then Close *)
Lemma S_empty_reply_corner :
  let O := oracle_of [[7]; []] [[]] [99] in
  let ch := chan_of [] [[5]] in
  snd (sconn_run O ch sinit [[0;0;0;4; 0;0;0;1; 7; 0;0;0;4; 0;0;0;0; 0;0;0;1;5]])
  = [Sent [0;0;0;1;99]; Deliver [5]; Close].
Proof. vm_compute. reflexivity. Qed.
