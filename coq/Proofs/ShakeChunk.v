(* Proofs/ShakeChunk.v -- C14: the handshake outcome does not depend on how the
   byte stream is cut (phases 1-5 included). *)
From Coq Require Import List ZArith Bool Lia Arith.
From DV Require Import Model.Frame Model.Shake Proofs.FrameProofs Proofs.ShakeProofs.
Import ListNotations.
Open Scope Z_scope.

(* ---- Frame level: one dataReceived call on a ++ b ----------------------------- *)
Lemma F_conn_feed_app ch c a b c1 o1 :
  clive c = true -> conn_feed ch c a = (c1, o1) ->
  (quiet o1 = true ->
     conn_feed ch c (a ++ b) = (fst (conn_feed ch c1 b), o1 ++ snd (conn_feed ch c1 b))
     /\ clive c1 = true)
  /\ (quiet o1 = false -> exists t, snd (conn_feed ch c (a ++ b)) = o1 ++ t).
Proof.
  intros Lv F. unfold conn_feed in F |- * at 1 4. rewrite Lv in *. rewrite F_feed_feed.
  destruct (feed (cfs c) a) as [fs1 ps1]. cbn [fst snd]. injection F as <- <-.
  split.
  - intros Q. rewrite F_quiet_exists in Q. apply negb_true_iff in Q.
    unfold conn_feed. rewrite Q. cbn [negb clive cfs].
    destruct (feed fs1 b) as [fs2 ps2]. cbn [fst snd].
    rewrite F_emit_app_quiet by exact Q. rewrite existsb_app, Q. cbn [orb]. auto.
  - intros Q. destruct (F_emit_app_prefix ch ps1 (snd (feed fs1 b))) as [t Ht].
    exists t. cbn [snd]. exact Ht.
Qed.

(* ---- the wrapper's loop in normal form ------------------------------------------ *)
Definition wapp (w : wstate) (d : list Z) : wstate := set_buf w (wbuf w ++ d).
Definition stuck (w : wstate) : bool := negb (wlen w <=? Z.of_nat (length (wbuf w))).
Definition rank (p : phase) : nat :=
  match p with P1 => 6 | P2 => 5 | P3 => 4 | P4 => 3 | P5 => 2 | P6 => 1 end%nat.
Definition smu (w : wstate) : nat := if stuck w then 0%nat else rank (wphase w).

Lemma S_siter_stuck O ch w : stuck w = true -> siter O ch w = None.
Proof. unfold stuck, siter. intros H. apply negb_true_iff in H. rewrite H. reflexivity. Qed.

Lemma S_stuck_set_len w : stuck (set_len w (Z.of_nat (length (wbuf w)) + 1)) = true.
Proof.
  unfold stuck. cbn [set_len wlen wbuf]. apply negb_true_iff. apply Z.leb_gt. lia.
Qed.

(* every iteration makes progress: the phase advances or the loop is left *)
Lemma S_siter_mu O ch w w' o : siter O ch w = Some (w', o) -> (smu w' < smu w)%nat.
Proof.
  unfold siter. destruct (wlen w <=? Z.of_nat (length (wbuf w))) eqn:L; [|discriminate].
  assert (M : smu w = rank (wphase w)) by (unfold smu, stuck; rewrite L; reflexivity).
  rewrite M. clear M.
  set (data := firstn _ _). set (w1 := set_buf w _).
  assert (P1 : wphase w1 = wphase w) by reflexivity. clearbody w1 data. rewrite <- P1. clear P1 L.
  assert (ST : forall x n, n = Z.of_nat (length (wbuf x)) + 1 -> (smu (set_len x n) = 0)%nat).
  { intros x n ->. unfold smu. rewrite S_stuck_set_len. reflexivity. }
  assert (LE : forall x, (smu x <= rank (wphase x))%nat).
  { intros x. unfold smu. destruct (stuck x); lia. }
  unfold sphase. destruct (wphase w1) eqn:Ph.
  - unfold p1. destruct (be32 data =? 4); intros H; injection H as <- <-.
    + eapply Nat.le_lt_trans; [apply LE|]. cbn. lia.
    + erewrite ST by reflexivity. cbn. lia.
  - unfold p2. intros H; injection H as <- <-. eapply Nat.le_lt_trans; [apply LE|]. cbn. lia.
  - unfold p3. destruct (verify O data); intros H; injection H as <- <-.
    + eapply Nat.le_lt_trans; [apply LE|]. cbn. lia.
    + erewrite ST by reflexivity. cbn. lia.
  - unfold p4. destruct (be32 (firstn 4 data) =? 4); intros H; injection H as <- <-.
    + eapply Nat.le_lt_trans; [apply LE|]. cbn. lia.
    + erewrite ST by reflexivity. cbn. lia.
  - unfold p5. destruct (if verify O data then echo_ok O data else false).
    + destruct (conn_feed ch (winner w1) (wbuf w1)) as [i oi]. intros H; injection H as <- <-.
      eapply Nat.le_lt_trans; [apply LE|]. cbn. lia.
    + intros H; injection H as <- <-. erewrite ST by reflexivity. cbn. lia.
  - unfold p6. intros H; injection H as <- <-. erewrite ST by reflexivity. cbn. lia.
Qed.

Lemma S_drain_more O ch f g w : (smu w < f)%nat -> (f <= g)%nat -> sdrain O ch g w = sdrain O ch f w.
Proof.
  revert g w. induction f as [|f IH]; intros g w Hm Hg; [lia|].
  destruct g as [|g]; [lia|]. cbn [sdrain].
  destruct (siter O ch w) as [[w' o]|] eqn:E; [|reflexivity].
  pose proof (S_siter_mu _ _ _ _ _ E). destruct (existsb is_abort o); [reflexivity|].
  rewrite (IH g w') by lia. reflexivity.
Qed.

Definition srun (O : oracle) (ch : chan) (w : wstate) : wstate * list out :=
  sdrain O ch (S (smu w)) w.

Lemma S_smu_le w : (smu w <= 6)%nat.
Proof. unfold smu. destruct (stuck w); [lia|]. destruct (wphase w); cbn; lia. Qed.

(* the constant fuel of the model is enough *)
Lemma S_process_run O ch w d : sprocess O ch w d = srun O ch (wapp w d).
Proof.
  unfold sprocess, srun, sfuel, wapp. pose proof (S_smu_le (set_buf w (wbuf w ++ d))).
  apply S_drain_more; lia.
Qed.

Lemma S_run_stop O ch w : siter O ch w = None -> srun O ch w = (w, []).
Proof. intros H. unfold srun. cbn [sdrain]. rewrite H. reflexivity. Qed.

Lemma S_run_step O ch w w' o : siter O ch w = Some (w', o) ->
  srun O ch w = if existsb is_abort o then (w', o)
                else (fst (srun O ch w'), o ++ snd (srun O ch w')).
Proof.
  intros H. pose proof (S_siter_mu _ _ _ _ _ H) as Hlt. unfold srun at 1. cbn [sdrain]. rewrite H.
  destruct (existsb is_abort o); [reflexivity|].
  rewrite (S_drain_more O ch (S (smu w')) (smu w) w') by lia. fold (srun O ch w').
  destruct (srun O ch w'); reflexivity.
Qed.

(* ---- one iteration with more bytes behind the buffer ----------------------------- *)
(* real PGP never validates an empty blob; needed only to keep phase 6 from
   running in the call that completes phase 5 (see C14_after_empty_reply_refuted) *)
Definition nocorner (O : oracle) : Prop := (verify O [] && echo_ok O []) = false.

Definition pass_state (ch : chan) (wl : Z) (rest : list Z) : wstate * list out :=
  (mkW [] wl P6 true (fst (conn_feed ch cinit rest)), snd (conn_feed ch cinit rest)).

Inductive step_kind (O : oracle) (ch : chan) (w : wstate) (b : list Z) (w' : wstate) (o : list out) : Prop :=
| SK_go :
    locked w' -> quiet o = true -> existsb is_abort o = false ->
    siter O ch (wapp w b) = Some (wapp w' b, o) -> step_kind O ch w b w' o
| SK_fail : forall w'',
    quiet o = false -> existsb is_abort o = false -> siter O ch w' = None ->
    siter O ch (wapp w b) = Some (w'', o) -> siter O ch w'' = None -> step_kind O ch w b w' o
| SK_pass : forall wl rest,
    0 < wl -> (w', o) = pass_state ch wl rest ->
    siter O ch (wapp w b) = Some (pass_state ch wl (rest ++ b)) -> step_kind O ch w b w' o.

Lemma S_firstn_app_le (l d : list Z) n : (n <= length l)%nat -> firstn n (l ++ d) = firstn n l.
Proof.
  intros H. rewrite firstn_app. replace (n - length l)%nat with 0%nat by lia.
  cbn [firstn]. apply app_nil_r.
Qed.
Lemma S_skipn_app_le (l d : list Z) n : (n <= length l)%nat -> skipn n (l ++ d) = skipn n l ++ d.
Proof.
  intros H. rewrite skipn_app. replace (n - length l)%nat with 0%nat by lia. reflexivity.
Qed.

Lemma S_siter_len_stuck O ch buf ph rs inn :
  siter O ch (mkW buf (Z.of_nat (length buf) + 1) ph rs inn) = None.
Proof.
  unfold siter. cbn [wlen wbuf].
  destruct (Z.of_nat (length buf) + 1 <=? Z.of_nat (length buf)) eqn:C; [apply Z.leb_le in C; lia|reflexivity].
Qed.

Lemma S_siter_app O ch w b w' o :
  nocorner O -> locked w -> siter O ch w = Some (w', o) -> step_kind O ch w b w' o.
Proof.
  intros NC [Hr Hi]. destruct w as [buf len ph rs inn]. cbn [wrestored winner] in Hr, Hi. subst rs inn.
  unfold siter at 1. unfold set_buf. cbn [wlen wbuf wphase wrestored winner].
  destruct (len <=? Z.of_nat (length buf)) eqn:L; [|discriminate].
  assert (Hn : (Z.to_nat len <= length buf)%nat) by (apply Z.leb_le in L; lia).
  assert (APP : siter O ch (wapp (mkW buf len ph false cinit) b)
          = let data := firstn (Z.to_nat len) buf in
            let w1 := mkW (skipn (Z.to_nat len) buf ++ b) len ph false cinit in
            let '(ok, w2, o) := sphase O ch w1 data in
            if ok then Some (w2, o)
            else Some (set_len w2 (Z.of_nat (length (wbuf w2)) + 1), o ++ [Close])).
  { unfold siter, wapp. cbn [wlen wbuf set_buf wphase wrestored winner].
    assert (L2 : len <=? Z.of_nat (length (buf ++ b)) = true)
      by (apply Z.leb_le; apply Z.leb_le in L; rewrite app_length; lia).
    rewrite L2, S_firstn_app_le, S_skipn_app_le by exact Hn. reflexivity. }
  set (data := firstn (Z.to_nat len) buf) in *. set (rest := skipn (Z.to_nat len) buf) in *.
  cbv zeta in APP. unfold sphase in *. cbn [wphase] in *.
  destruct ph.
  - (* p1 *) unfold p1, set_phase in *. cbn [wbuf wlen wphase wrestored winner] in *. cbv beta iota zeta in *.
    destruct (be32 data =? 4); intros H; injection H as <- <-.
    + apply SK_go; [split; reflexivity|reflexivity|reflexivity|exact APP].
    + eapply SK_fail; [reflexivity|reflexivity|apply S_siter_len_stuck|exact APP|apply S_siter_len_stuck].
  - (* p2 *) unfold p2, set_phase, set_len in *. cbn [wbuf wlen wphase wrestored winner] in *. cbv beta iota zeta in *.
    intros H; injection H as <- <-.
    apply SK_go; [split; reflexivity|reflexivity|reflexivity|exact APP].
  - (* p3 *) unfold p3, set_phase, set_len in *. cbn [wbuf wlen wphase wrestored winner] in *. cbv beta iota zeta in *.
    destruct (verify O data); intros H; injection H as <- <-.
    + apply SK_go; [split; reflexivity|reflexivity|reflexivity|exact APP].
    + eapply SK_fail; [reflexivity|reflexivity|apply S_siter_len_stuck|exact APP|apply S_siter_len_stuck].
  - (* p4 *) unfold p4, set_phase, set_len in *. cbn [wbuf wlen wphase wrestored winner] in *. cbv beta iota zeta in *.
    destruct (be32 (firstn 4 data) =? 4); intros H; injection H as <- <-.
    + apply SK_go; [split; reflexivity|reflexivity|reflexivity|exact APP].
    + eapply SK_fail; [reflexivity|reflexivity|apply S_siter_len_stuck|exact APP|apply S_siter_len_stuck].
  - (* p5 *) unfold p5, set_phase, set_len in *. cbn [wbuf wlen wphase wrestored winner] in *. cbv beta iota zeta in *.
    destruct (if verify O data then echo_ok O data else false) eqn:V.
    + assert (Hl : 0 < len).
      { destruct (Z.ltb_spec 0 len) as [|Hle]; [assumption|]. exfalso.
        assert (D : data = []) by (subst data; replace (Z.to_nat len) with 0%nat by lia; reflexivity).
        rewrite D in V. unfold nocorner in NC. destruct (verify O []); cbn in NC; congruence. }
      destruct (conn_feed ch cinit rest) as [i oi] eqn:F1.
      destruct (conn_feed ch cinit (rest ++ b)) as [i2 oi2] eqn:F2.
      intros H; injection H as <- <-.
      apply (SK_pass O ch _ b _ _ len rest Hl).
      * unfold pass_state. rewrite F1. reflexivity.
      * rewrite APP. unfold pass_state. rewrite F2. reflexivity.
    + intros H; injection H as <- <-.
      eapply SK_fail; [reflexivity|reflexivity|apply S_siter_len_stuck|exact APP|apply S_siter_len_stuck].
  - (* p6 *) unfold p6 in *. cbv beta iota zeta in *. intros H; injection H as <- <-.
    eapply SK_fail; [reflexivity|reflexivity|apply S_siter_len_stuck|exact APP|apply S_siter_len_stuck].
Qed.

(* ---- a whole process() call with more bytes behind ------------------------------- *)
Lemma S_run_last O ch w w' o :
  siter O ch w = Some (w', o) -> siter O ch w' = None -> srun O ch w = (w', o).
Proof.
  intros E N. rewrite (S_run_step _ _ _ _ _ E). destruct (existsb is_abort o); [reflexivity|].
  rewrite (S_run_stop _ _ _ N). cbn [fst snd]. rewrite app_nil_r. reflexivity.
Qed.

Lemma S_siter_pass O ch wl i : 0 < wl -> siter O ch (mkW [] wl P6 true i) = None.
Proof.
  intros H. unfold siter. cbn [wlen wbuf length].
  destruct (wl <=? Z.of_nat 0) eqn:C; [apply Z.leb_le in C; lia|reflexivity].
Qed.

(* how the connection goes on from w1 when b arrives in a later call *)
Definition kont (O : oracle) (ch : chan) (w1 : wstate) (b : list Z) : wstate * list out :=
  if wrestored w1
  then (set_inner w1 (fst (conn_feed ch (winner w1) b)), snd (conn_feed ch (winner w1) b))
  else srun O ch (wapp w1 b).

Lemma S_quiet_app a b : quiet (a ++ b) = quiet a && quiet b.
Proof. apply forallb_app. Qed.

Lemma S_run_app O ch b : nocorner O -> forall w, locked w ->
  (quiet (snd (srun O ch w)) = true ->
     srun O ch (wapp w b)
     = (fst (kont O ch (fst (srun O ch w)) b),
        snd (srun O ch w) ++ snd (kont O ch (fst (srun O ch w)) b))
     /\ (wrestored (fst (srun O ch w)) = true -> clive (winner (fst (srun O ch w))) = true)
     /\ (wrestored (fst (srun O ch w)) = false -> locked (fst (srun O ch w))))
  /\ (quiet (snd (srun O ch w)) = false ->
      exists t, snd (srun O ch (wapp w b)) = snd (srun O ch w) ++ t).
Proof.
  intros NC w. remember (smu w) as m eqn:Hm. revert w Hm.
  induction m as [m IH] using lt_wf_ind. intros w Hm L.
  destruct (siter O ch w) as [[w' o]|] eqn:E.
  - destruct (S_siter_app O ch w b w' o NC L E) as [L' Q A E2 | w'' Q A N E2 N2 | wl rest Hwl PS E2].
    + (* the phase passes, the wrapper keeps the connection *)
      pose proof (S_siter_mu _ _ _ _ _ E) as Hlt.
      destruct (IH (smu w') ltac:(lia) w' eq_refl L') as [I1 I2].
      rewrite (S_run_step _ _ _ _ _ E), A. rewrite (S_run_step _ _ _ _ _ E2), A. cbn [fst snd].
      rewrite S_quiet_app, Q. cbn [andb]. split.
      * intros Qx. destruct (I1 Qx) as (R & Rl & Rk). rewrite R. cbn [fst snd].
        rewrite app_assoc. auto.
      * intros Qx. destruct (I2 Qx) as [t Ht]. exists t. rewrite Ht. apply app_assoc.
    + (* the phase fails: loseConnection, both runs stop here *)
      rewrite (S_run_last _ _ _ _ _ E N), (S_run_last _ _ _ _ _ E2 N2). cbn [fst snd]. split.
      * intros Qx. rewrite Q in Qx. discriminate.
      * intros _. exists []. symmetry. apply app_nil_r.
    + (* phase 5 passes: dataReceived is handed back *)
      injection PS as -> ->.
      rewrite (S_run_last _ _ _ _ _ E (S_siter_pass O ch wl _ Hwl)).
      unfold pass_state in E2.
      rewrite (S_run_last _ _ _ _ _ E2 (S_siter_pass O ch wl _ Hwl)). cbn [fst snd].
      destruct (conn_feed ch cinit rest) as [i oi] eqn:F. cbn [fst snd].
      destruct (F_conn_feed_app ch cinit rest b i oi eq_refl F) as [C1 C2]. split.
      * intros Qx. destruct (C1 Qx) as [R Rl]. rewrite R. cbn [fst snd].
        unfold kont. cbn [wrestored winner set_inner wbuf wlen wphase]. split; [reflexivity|].
        split; [intros _; exact Rl|discriminate].
      * intros Qx. destruct (C2 Qx) as [t Ht]. exists t. exact Ht.
  - rewrite (S_run_stop _ _ _ E). cbn [fst snd]. split.
    + intros _. destruct L as [Hr Hi]. unfold kont. rewrite Hr. cbn [app].
      split; [destruct (srun O ch (wapp w b)); reflexivity|]. split; [congruence|intros _; split; assumption].
    + discriminate.
Qed.

(* ---- the connection ----------------------------------------------------------------- *)
Definition good (c : sconn) : Prop :=
  locked (sw c) \/ (wrestored (sw c) = true /\ clive (winner (sw c)) = true).

Lemma S_wapp_app w a b : wapp w (a ++ b) = wapp (wapp w a) b.
Proof. unfold wapp, set_buf. cbn [wbuf wlen wphase wrestored winner]. rewrite app_assoc. reflexivity. Qed.

Lemma S_stop_app_quiet a b : quiet a = true -> existsb is_stop (a ++ b) = existsb is_stop b.
Proof.
  intros Q. rewrite F_quiet_exists in Q. apply negb_true_iff in Q. rewrite existsb_app, Q. reflexivity.
Qed.

Lemma S_quiet_live o : quiet o = true -> negb (existsb is_stop o) = true.
Proof. intros Q. rewrite <- F_quiet_exists. exact Q. Qed.

Lemma S_conn_feed_app O ch c a b c1 o1 :
  nocorner O -> slive c = true -> good c -> sconn_feed O ch c a = (c1, o1) ->
  (quiet o1 = true ->
     sconn_feed O ch c (a ++ b) = (fst (sconn_feed O ch c1 b), o1 ++ snd (sconn_feed O ch c1 b))
     /\ slive c1 = true /\ good c1)
  /\ (quiet o1 = false -> exists t, snd (sconn_feed O ch c (a ++ b)) = o1 ++ t).
Proof.
  intros NC Lv G F.
  assert (E : forall x, sconn_feed O ch c x
              = if wrestored (sw c)
                then let '(i, o) := conn_feed ch (winner (sw c)) x in
                     (mkS (set_inner (sw c) i) (negb (existsb is_stop o)), o)
                else let '(w, o) := sprocess O ch (sw c) x in (mkS w (negb (existsb is_stop o)), o))
    by (intros x; unfold sconn_feed; rewrite Lv; reflexivity).
  rewrite E in F. rewrite (E (a ++ b)). clear E.
  destruct G as [L|[Hr Hl]].
  - (* the wrapper owns dataReceived *)
    destruct L as [Hr Hi]. rewrite Hr in *. rewrite !S_process_run, S_wapp_app in *.
    destruct (S_run_app O ch b NC (wapp (sw c) a) (S_locked_set_buf _ _ (conj Hr Hi))) as [I1 I2].
    destruct (srun O ch (wapp (sw c) a)) as [w1 oo]. injection F as <- <-. cbn [fst snd] in *. split.
    + intros Q. destruct (I1 Q) as (R & Rl & Rk). rewrite R. cbn [fst snd].
      rewrite (S_quiet_live _ Q). unfold sconn_feed. cbn [slive sw]. unfold kont.
      destruct (wrestored w1) eqn:Rs.
      * destruct (conn_feed ch (winner w1) b) as [i oi]. cbn [fst snd].
        rewrite (S_stop_app_quiet _ _ Q). split; [reflexivity|]. split; [reflexivity|].
        right. split; [exact Rs|apply Rl; reflexivity].
      * rewrite S_process_run. destruct (srun O ch (wapp w1 b)) as [w2 o2]. cbn [fst snd].
        rewrite (S_stop_app_quiet _ _ Q). split; [reflexivity|]. split; [reflexivity|].
        left. apply Rk. reflexivity.
    + intros Q. destruct (I2 Q) as [t Ht].
      destruct (srun O ch (wapp (wapp (sw c) a) b)) as [w2 o2]. cbn [snd] in *. exists t. exact Ht.
  - (* the wrapped protocol owns it again *)
    rewrite Hr in *. destruct (conn_feed ch (winner (sw c)) a) as [i oi] eqn:F1.
    injection F as <- <-.
    destruct (F_conn_feed_app ch (winner (sw c)) a b i oi Hl F1) as [C1 C2]. split.
    + intros Q. destruct (C1 Q) as [R Rl]. rewrite R. rewrite (S_quiet_live _ Q).
      unfold sconn_feed. cbn [slive sw set_inner wrestored winner]. rewrite Hr.
      destruct (conn_feed ch i b) as [i2 oi2]. cbn [fst snd].
      rewrite (S_stop_app_quiet _ _ Q). split; [reflexivity|]. split; [reflexivity|].
      right. split; [exact Hr|exact Rl].
    + intros Q. destruct (C2 Q) as [t Ht].
      destruct (conn_feed ch (winner (sw c)) (a ++ b)) as [i2 oi2]. cbn [snd] in *. exists t. exact Ht.
Qed.

Lemma S_quiet_false_stop o : quiet o = false -> existsb is_stop o = true.
Proof. rewrite F_quiet_exists. destruct (existsb is_stop o); [reflexivity|discriminate]. Qed.

(* up to the first loseConnection / exception the trace of a connection does
   not depend on how its byte stream is cut *)
Theorem S_conn_cut O ch : nocorner O -> forall ds d c, slive c = true -> good c ->
  cut (snd (sconn_run O ch c (d :: ds))) = cut (snd (sconn_feed O ch c (d ++ concat ds))).
Proof.
  intros NC. induction ds as [|d2 ds IH]; intros d c Lv G.
  - cbn [sconn_run concat]. rewrite app_nil_r. destruct (sconn_feed O ch c d) as [c1 o1].
    cbn [snd]. rewrite app_nil_r. reflexivity.
  - change (concat (d2 :: ds)) with (d2 ++ concat ds).
    cbn [sconn_run]. destruct (sconn_feed O ch c d) as [c1 o1] eqn:F.
    destruct (S_conn_feed_app O ch c d (d2 ++ concat ds) c1 o1 NC Lv G F) as [A1 A2]. cbn [fst snd] in *.
    destruct (quiet o1) eqn:Q.
    + destruct (A1 eq_refl) as (R & Lv1 & G1). rewrite R. cbn [snd].
      specialize (IH d2 c1 Lv1 G1). cbn [sconn_run] in IH.
      destruct (sconn_feed O ch c1 d2) as [c2 o2]. destruct (sconn_run O ch c2 ds) as [c3 o3].
      cbn [snd] in *. rewrite F_quiet_exists in Q. apply negb_true_iff in Q.
      rewrite (F_cut_app_quiet o1 (o2 ++ o3) Q), (F_cut_app_quiet o1 _ Q), IH. reflexivity.
    + destruct (A2 eq_refl) as [t Ht]. rewrite Ht.
      assert (D : slive c1 = false).
      { unfold sconn_feed in F. rewrite Lv in F. destruct (wrestored (sw c)).
        - destruct (conn_feed ch (winner (sw c)) d). injection F as <- <-. cbn [slive].
          rewrite (S_quiet_false_stop _ Q). reflexivity.
        - destruct (sprocess O ch (sw c) d). injection F as <- <-. cbn [slive].
          rewrite (S_quiet_false_stop _ Q). reflexivity. }
      pose proof (S_dead_run O ch (d2 :: ds) c1 D) as DR. cbn [sconn_run] in DR.
      destruct (sconn_feed O ch c1 d2) as [c2 o2]. destruct (sconn_run O ch c2 ds) as [c3 o3].
      injection DR as _ E. cbn [snd]. rewrite E, app_nil_r.
      rewrite (F_cut_app_stop _ t (S_quiet_false_stop _ Q)). reflexivity.
Qed.

(* and when whole delivery has no stop before its last event, the trace is the
   same; when it has none at all, the final state is the same too *)
Theorem S_conn_full O ch : nocorner O -> forall ds d c, slive c = true -> good c ->
  quiet (removelast (snd (sconn_feed O ch c (d ++ concat ds)))) = true ->
  snd (sconn_run O ch c (d :: ds)) = snd (sconn_feed O ch c (d ++ concat ds)).
Proof.
  intros NC. induction ds as [|d2 ds IH]; intros d c Lv G.
  - cbn [sconn_run concat]. rewrite app_nil_r. destruct (sconn_feed O ch c d) as [c1 o1].
    cbn [snd]. rewrite app_nil_r. reflexivity.
  - change (concat (d2 :: ds)) with (d2 ++ concat ds).
    cbn [sconn_run]. destruct (sconn_feed O ch c d) as [c1 o1] eqn:F.
    destruct (S_conn_feed_app O ch c d (d2 ++ concat ds) c1 o1 NC Lv G F) as [A1 A2]. cbn [fst snd] in *.
    destruct (quiet o1) eqn:Q.
    + destruct (A1 eq_refl) as (R & Lv1 & G1). rewrite R. cbn [snd]. intros Hq.
      rewrite F_quiet_exists in Q. apply negb_true_iff in Q.
      specialize (IH d2 c1 Lv1 G1 (F_quiet_tail _ _ Q Hq)). cbn [sconn_run] in IH.
      destruct (sconn_feed O ch c1 d2) as [c2 o2]. destruct (sconn_run O ch c2 ds) as [c3 o3].
      cbn [snd] in *. rewrite IH. reflexivity.
    + destruct (A2 eq_refl) as [t Ht]. rewrite Ht. intros Hq.
      rewrite (F_stop_last _ _ (S_quiet_false_stop _ Q) Hq), app_nil_r.
      assert (D : slive c1 = false).
      { unfold sconn_feed in F. rewrite Lv in F. destruct (wrestored (sw c)).
        - destruct (conn_feed ch (winner (sw c)) d). injection F as <- <-. cbn [slive].
          rewrite (S_quiet_false_stop _ Q). reflexivity.
        - destruct (sprocess O ch (sw c) d). injection F as <- <-. cbn [slive].
          rewrite (S_quiet_false_stop _ Q). reflexivity. }
      pose proof (S_dead_run O ch (d2 :: ds) c1 D) as DR. cbn [sconn_run] in DR.
      destruct (sconn_feed O ch c1 d2) as [c2 o2]. destruct (sconn_run O ch c2 ds) as [c3 o3].
      injection DR as _ E. cbn [snd]. rewrite E, app_nil_r. reflexivity.
Qed.

Theorem S_conn_state O ch : nocorner O -> forall ds d c, slive c = true -> good c ->
  quiet (snd (sconn_feed O ch c (d ++ concat ds))) = true ->
  sconn_run O ch c (d :: ds) = sconn_feed O ch c (d ++ concat ds).
Proof.
  intros NC. induction ds as [|d2 ds IH]; intros d c Lv G.
  - cbn [sconn_run concat]. rewrite app_nil_r. destruct (sconn_feed O ch c d) as [c1 o1].
    rewrite app_nil_r. reflexivity.
  - change (concat (d2 :: ds)) with (d2 ++ concat ds).
    cbn [sconn_run]. destruct (sconn_feed O ch c d) as [c1 o1] eqn:F.
    destruct (S_conn_feed_app O ch c d (d2 ++ concat ds) c1 o1 NC Lv G F) as [A1 A2]. cbn [fst snd] in *.
    destruct (quiet o1) eqn:Q.
    + destruct (A1 eq_refl) as (R & Lv1 & G1). rewrite R. cbn [snd]. intros Hq.
      rewrite S_quiet_app in Hq. apply andb_true_iff in Hq as [_ Hq].
      specialize (IH d2 c1 Lv1 G1). cbn [sconn_run] in IH.
      destruct (sconn_feed O ch c1 d2) as [c2 o2] eqn:F2.
      destruct (sconn_run O ch c2 ds) as [c3 o3].
      rewrite <- (IH Hq). reflexivity.
    + destruct (A2 eq_refl) as [t Ht]. rewrite Ht. intros Hq.
      rewrite S_quiet_app, Q in Hq. discriminate.
Qed.

Lemma S_sinit_good : good sinit.
Proof. left. apply S_sinit_locked. Qed.

Lemma S_feed_nil_sinit O ch : sconn_feed O ch sinit [] = (sinit, []).
Proof. reflexivity. Qed.
