(* Proofs/ShakeProofs.v -- C14 handshake gate: invariants of the wrapper. *)
From Coq Require Import List ZArith Bool Lia.
From DV Require Import Model.Frame Model.Shake Proofs.FrameProofs.
Import ListNotations.
Open Scope Z_scope.

(* the wrapper still owns dataReceived; the wrapped protocol has seen nothing *)
Definition locked (w : wstate) : Prop := wrestored w = false /\ winner w = cinit.
(* dataReceived has been given back: only at the end of a successful phase 5 *)
Definition unlocked (w : wstate) : Prop := wrestored w = true /\ wphase w = P6.

(* traces the wrapper itself can produce: challenge and loseConnection *)
Definition plain (o : list out) : bool :=
  forallb (fun x => match x with Sent _ | Close => true | _ => false end) o.

(* some blob passed both the signature check and the echo comparison *)
Definition passed (O : oracle) : Prop := exists b, verify O b = true /\ echo_ok O b = true.

Lemma S_plain_app a b : plain (a ++ b) = plain a && plain b.
Proof. apply forallb_app. Qed.

Lemma S_plain_deliveries o : plain o = true -> deliveries o = [].
Proof.
  induction o as [|x o IH]; [reflexivity|]. cbn [plain forallb]. intros H.
  apply andb_true_iff in H as [Hx Ho]. unfold deliveries. cbn [flat_map].
  destruct x; try discriminate; cbn [app]; apply IH, Ho.
Qed.

Lemma S_plain_no_abort o : plain o = true -> existsb is_abort o = false.
Proof.
  induction o as [|x o IH]; [reflexivity|]. cbn [plain forallb existsb]. intros H.
  apply andb_true_iff in H as [Hx Ho]. rewrite (IH Ho). destruct x; try discriminate; reflexivity.
Qed.

Lemma S_plain_stop_close o : plain o = true -> existsb is_stop o = true -> In Close o.
Proof.
  induction o as [|x o IH]; [discriminate|]. cbn [plain forallb existsb]. intros H E.
  apply andb_true_iff in H as [Hx Ho].
  destruct x; try discriminate; cbn [is_stop orb] in E; [left; reflexivity| right; apply IH; assumption].
Qed.

Lemma S_deliveries_app a b : deliveries (a ++ b) = deliveries a ++ deliveries b.
Proof. unfold deliveries. apply flat_map_app. Qed.

(* ---- one iteration ---------------------------------------------------------- *)
Lemma S_siter_locked O ch w w' o :
  locked w -> siter O ch w = Some (w', o) ->
  (locked w' /\ plain o = true) \/ (unlocked w' /\ passed O).
Proof.
  intros [Hr Hi]. unfold siter.
  destruct (wlen w <=? Z.of_nat (length (wbuf w))); [|discriminate].
  set (data := firstn (Z.to_nat (wlen w)) (wbuf w)).
  set (w1 := set_buf w (skipn (Z.to_nat (wlen w)) (wbuf w))).
  assert (H1 : wrestored w1 = false /\ winner w1 = cinit /\ wphase w1 = wphase w) by (subst w1; cbn; auto).
  destruct H1 as (Hr1 & Hi1 & Hp1). clearbody w1 data.
  unfold sphase. destruct (wphase w1) eqn:Ph.
  - unfold p1. destruct (be32 data =? 4); intros H; injection H as <- <-;
    left; (split; [split; cbn; assumption | reflexivity]).
  - unfold p2. intros H; injection H as <- <-. left. split; [split; cbn; assumption | reflexivity].
  - unfold p3. destruct (verify O data); intros H; injection H as <- <-;
    left; (split; [split; cbn; assumption | reflexivity]).
  - unfold p4. destruct (be32 (firstn 4 data) =? 4); intros H; injection H as <- <-;
    left; (split; [split; cbn; assumption | reflexivity]).
  - unfold p5. destruct (verify O data) eqn:V; [destruct (echo_ok O data) eqn:E|].
    + destruct (conn_feed ch (winner w1) (wbuf w1)) as [i oi]. intros H; injection H as <- <-.
      right. split; [split; reflexivity | exists data; auto].
    + intros H; injection H as <- <-. left. split; [split; cbn; assumption | reflexivity].
    + intros H; injection H as <- <-. left. split; [split; cbn; assumption | reflexivity].
  - unfold p6. intros H; injection H as <- <-. left. split; [split; cbn; assumption | reflexivity].
Qed.

Lemma S_siter_unlocked O ch w w' o :
  unlocked w -> siter O ch w = Some (w', o) -> unlocked w'.
Proof.
  intros [Hr Hp]. unfold siter.
  destruct (wlen w <=? Z.of_nat (length (wbuf w))); [|discriminate].
  unfold sphase. cbn [set_buf wphase]. rewrite Hp. unfold p6.
  intros H; injection H as <- <-. split; cbn; assumption.
Qed.

Lemma S_sdrain_unlocked O ch n : forall w w' o,
  unlocked w -> sdrain O ch n w = (w', o) -> unlocked w'.
Proof.
  induction n as [|n IH]; intros w w' o U; cbn [sdrain].
  - intros H; injection H as <- <-. exact U.
  - destruct (siter O ch w) as [[w1 o1]|] eqn:E.
    + pose proof (S_siter_unlocked _ _ _ _ _ U E) as U1.
      destruct (existsb is_abort o1).
      * intros H; injection H as <- <-. exact U1.
      * destruct (sdrain O ch n w1) as [w2 o2] eqn:D. intros H; injection H as <- <-.
        eapply IH; eassumption.
    + intros H; injection H as <- <-. exact U.
Qed.

Lemma S_sdrain_locked O ch n : forall w w' o,
  locked w -> sdrain O ch n w = (w', o) ->
  (locked w' /\ plain o = true) \/ (unlocked w' /\ passed O).
Proof.
  induction n as [|n IH]; intros w w' o L; cbn [sdrain].
  - intros H; injection H as <- <-. left. split; [exact L|reflexivity].
  - destruct (siter O ch w) as [[w1 o1]|] eqn:E.
    + destruct (S_siter_locked _ _ _ _ _ L E) as [[L1 P1]|[U1 Pa]].
      * rewrite (S_plain_no_abort _ P1).
        destruct (sdrain O ch n w1) as [w2 o2] eqn:D. intros H; injection H as <- <-.
        destruct (IH _ _ _ L1 D) as [[L2 P2]|[U2 Pa]].
        -- left. split; [exact L2|]. rewrite S_plain_app, P1, P2. reflexivity.
        -- right. split; assumption.
      * right. split; [|exact Pa]. destruct (existsb is_abort o1).
        -- injection H as <- <-. exact U1.
        -- destruct (sdrain O ch n w1) as [w2 o2] eqn:D. injection H as <- <-.
           eapply S_sdrain_unlocked; eassumption.
    + intros H; injection H as <- <-. left. split; [exact L|reflexivity].
Qed.

Lemma S_locked_set_buf w b : locked w -> locked (set_buf w b).
Proof. intros [? ?]; split; assumption. Qed.

(* ---- the connection --------------------------------------------------------- *)
Lemma S_feed_locked O ch c d c' o :
  locked (sw c) -> sconn_feed O ch c d = (c', o) ->
  (locked (sw c') /\ plain o = true /\ (slive c = true -> slive c' = false -> In Close o))
  \/ (unlocked (sw c') /\ passed O).
Proof.
  intros L. unfold sconn_feed. destruct (slive c) eqn:Lv.
  - destruct L as [Hr Hi]. rewrite Hr. unfold sprocess.
    destruct (sdrain O ch sfuel (set_buf (sw c) (wbuf (sw c) ++ d))) as [w1 o1] eqn:D.
    intros H; injection H as <- <-.
    destruct (S_sdrain_locked _ _ _ _ _ _ (S_locked_set_buf _ _ (conj Hr Hi)) D) as [[L1 P1]|[U Pa]].
    + left. split; [exact L1|]. split; [exact P1|]. cbn [slive]. intros _ E.
      apply S_plain_stop_close; [exact P1|]. destruct (existsb is_stop o1); [reflexivity|discriminate].
    + right. split; assumption.
  - intros H; injection H as <- <-. left. split; [exact L|]. split; [reflexivity|].
    intros E; discriminate.
Qed.

Lemma S_feed_unlocked O ch c d c' o :
  unlocked (sw c) -> sconn_feed O ch c d = (c', o) -> unlocked (sw c').
Proof.
  intros [Hr Hp]. unfold sconn_feed. destruct (slive c).
  - rewrite Hr. destruct (conn_feed ch (winner (sw c)) d) as [i oi].
    intros H; injection H as <- <-. split; cbn; assumption.
  - intros H; injection H as <- <-. split; assumption.
Qed.

Lemma S_run_unlocked O ch chunks : forall c c' tr,
  unlocked (sw c) -> sconn_run O ch c chunks = (c', tr) -> unlocked (sw c').
Proof.
  induction chunks as [|d ds IH]; intros c c' tr U; cbn [sconn_run].
  - intros H; injection H as <- <-. exact U.
  - destruct (sconn_feed O ch c d) as [c1 o1] eqn:F.
    destruct (sconn_run O ch c1 ds) as [c2 o2] eqn:R. intros H; injection H as <- <-.
    eapply IH; [|exact R]. eapply S_feed_unlocked; eassumption.
Qed.

Lemma S_dead_run O ch chunks : forall c, slive c = false -> sconn_run O ch c chunks = (c, []).
Proof.
  induction chunks as [|d ds IH]; intros c Hd; cbn [sconn_run]; [reflexivity|].
  unfold sconn_feed. rewrite Hd. rewrite (IH c Hd). reflexivity.
Qed.

(* the gate invariant over a whole connection history *)
Theorem S_run_locked O ch chunks : forall c c' tr,
  locked (sw c) -> sconn_run O ch c chunks = (c', tr) ->
  (locked (sw c') /\ plain tr = true /\ (slive c = true -> slive c' = false -> In Close tr))
  \/ (unlocked (sw c') /\ passed O).
Proof.
  induction chunks as [|d ds IH]; intros c c' tr L; cbn [sconn_run].
  - intros H; injection H as <- <-. left. split; [exact L|]. split; [reflexivity|].
    intros A B. rewrite A in B. discriminate.
  - destruct (sconn_feed O ch c d) as [c1 o1] eqn:F.
    destruct (sconn_run O ch c1 ds) as [c2 o2] eqn:R. intros H; injection H as <- <-.
    destruct (S_feed_locked _ _ _ _ _ _ L F) as [(L1 & P1 & C1)|[U Pa]].
    + destruct (IH _ _ _ L1 R) as [(L2 & P2 & C2)|[U Pa]].
      * left. split; [exact L2|]. split; [rewrite S_plain_app, P1, P2; reflexivity|].
        intros A B. apply in_or_app. destruct (slive c1) eqn:Lv1.
        -- right. apply C2; auto.
        -- left. apply C1; auto.
      * right. split; assumption.
    + right. split; [|exact Pa]. eapply S_run_unlocked; eassumption.
Qed.

Lemma S_sinit_locked : locked (sw sinit).
Proof. split; reflexivity. Qed.
