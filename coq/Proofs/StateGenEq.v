(* Proofs/StateGenEq.v -- the method bodies of class FSM as translated from
   dawgie/pl/state.py of today (Gen/StateGen.v, tools/translate/state2coq.py)
   ARE the hand-written functions of Model/Fsm.v.

   State abstraction (header of state2coq.py): python attribute = field of
   [fstate]; self.X_trigger() = the parameter [fire_], instantiated with
   [trigger_] (Event.trigger at the full fuel) or with the [rec] of [run_cb].
   The ghost fields of the model that python does not have ([epoch] counted by
   reset, [ulog] written at every update_trigger call of a waiter) are the only
   difference: they appear explicitly as [new_epoch] / [logged]. *)
From Coq Require Import List Bool Arith.
From DV Require Import Gen.FsmTable Gen.PriorityGen Model.Fsm Gen.StateGen.
Import ListNotations.

(* the ghost log entry the model adds to a call of update_trigger *)
Definition logged (who : option pk) (cond : bool) (r : fstate * outcome) : fstate * outcome :=
  (log_update (fst r) (mkU who cond match snd r with Ok => true | _ => false end), snd r).
(* the ghost epoch the model counts at a completed reset() *)
Definition epoch_counted (r : fstate * outcome) : fstate * outcome := StateGen.ghost_epoch r.

Lemma sg_bind_ret : forall r : fstate * outcome, bind r (fun s => (s, Ok)) = r.
Proof. intros [s o]. destruct o; reflexivity. Qed.

(* ---- the property `transitioning` ---------------------------------------- *)
Theorem set_transitioning_eq : forall s v, StateGen.set_transitioning s v = set_tr s v.
Proof. intros s v. unfold StateGen.set_transitioning, set_tr. destruct v, (tr s); reflexivity. Qed.

Lemma sg_set_active : forall s, StateGen.set_transitioning s Active = (set_tr_raw s Active, Ok).
Proof. intro s. rewrite set_transitioning_eq. reflexivity. Qed.

(* ---- pure tests ------------------------------------------------------------- *)
Theorem is_pipeline_active_eq : forall s, StateGen.is_pipeline_active s = Fsm.is_pipeline_active s.
Proof. reflexivity. Qed.

Definition sg_waiting_on (k : pk) : fstate -> bool :=
  match k with KCrew => waiting_on_crew | KDoing => waiting_on_doing | KTodo => waiting_on_todo end.
Definition sg_done (k : pk) :=
  match k with KCrew => done_crew | KDoing => done_doing | KTodo => done_todo end.
Definition sg_continues (k : pk) :=
  match k with KCrew => is_crew_done_continues | KDoing => is_doing_done_continues
          | KTodo => is_todo_done_continues end.

Theorem waiting_on_eq : forall k s, sg_waiting_on k s = get3 k (waits (ws s)).
Proof. intros [] s; cbn; apply negb_involutive. Qed.

(* ---- bookkeeping -------------------------------------------------------------- *)
Lemma sg_ev_set_all : forall s,
  ev_set KCrew (ev_set KDoing (ev_set KTodo s)) = set_waits s (false, false, false).
Proof. intros [a b c d e [p [[w1 w2] w3] h] g]. reflexivity. Qed.
Lemma sg_ev_set_all' : forall s,
  ev_set KTodo (ev_set KDoing (ev_set KCrew s)) = set_waits s (false, false, false).
Proof. intros [a b c d e [p [[w1 w2] w3] h] g]. reflexivity. Qed.

Theorem reset_eq : forall s, cb_reset s = epoch_counted (StateGen.reset s).
Proof.
  intro s. unfold StateGen.reset, cb_reset. rewrite set_transitioning_eq.
  destruct s as [a b c d e [p [[w1 w2] w3] h] g]. destruct b; reflexivity.
Qed.

Theorem save_prior_state_eq : forall s, StateGen.save_prior_state s = cb_save_prior_state s.
Proof.
  intro s. unfold StateGen.save_prior_state, cb_save_prior_state. rewrite set_transitioning_eq.
  destruct s as [a b c d e w g]. destruct b; reflexivity.
Qed.

Theorem set_submit_info_eq : forall s p, StateGen.set_submit_info s p = Fsm.set_submit_info s p.
Proof. intros s [p|]; reflexivity. Qed.

(* ---- the waiters ------------------------------------------------------------------ *)
Theorem wait_for_crew_eq : forall s, StateGen.wait_for_crew s = Fsm.wait_for_crew s.
Proof. intros [a b c d e [p [[w1 w2] w3] [[[|] h2] h3]] g]; reflexivity. Qed.
Theorem wait_for_doing_eq : forall s, StateGen.wait_for_doing s = Fsm.wait_for_doing s.
Proof. intros [a b c d e [p [[w1 w2] w3] [[h1 [|]] h3]] g]; reflexivity. Qed.
Theorem wait_for_todo_eq : forall s, StateGen.wait_for_todo s = Fsm.wait_for_todo s.
Proof. intros [a b c d e [p [[w1 w2] w3] [[h1 h2] [|]]] g]; reflexivity. Qed.

Theorem wait_for_nothing_eq : forall s,
  Fsm.wait_for_nothing s = logged None true (StateGen.wait_for_nothing trigger_ s).
Proof.
  intro s. unfold StateGen.wait_for_nothing, Fsm.wait_for_nothing, update_by, logged.
  cbv zeta. rewrite sg_ev_set_all, sg_bind_ret. reflexivity.
Qed.

(* wait_for_X.done : the reactor runs it when the poller has returned *)
Theorem done_eq : forall k s e, get3 k (handles (ws s)) = Some true ->
  done_cb s k e =
  (if get3 k (waits (ws s)) then logged (Some k) (cond_holds k e) (sg_done k trigger_ s)
   else sg_done k trigger_ s).
Proof.
  intros k s e H. unfold done_cb. rewrite H.
  assert (W : get3 k (waits (ws (set_handle s k None))) = get3 k (waits (ws s))) by reflexivity.
  rewrite W.
  destruct k; cbn [sg_done]; unfold done_crew, done_doing, done_todo;
    [ rewrite (waiting_on_eq KCrew) | rewrite (waiting_on_eq KDoing) | rewrite (waiting_on_eq KTodo) ];
    rewrite W; destruct (get3 _ (waits (ws s))); try reflexivity;
    unfold update_by, logged; rewrite sg_bind_ret; reflexivity.
Qed.

(* the handle is given back whatever the wait flag says (repair 86b21aa) *)
Theorem done_clears_handle_first : forall k s (fire_ : fstate -> trigger -> fstate * outcome),
  (forall s' t, get3 k (handles (ws (fst (fire_ s' t)))) = get3 k (handles (ws s')) ) ->
  get3 k (handles (ws (fst (sg_done k fire_ s)))) = None.
Proof.
  intros k s f Hf.
  assert (H0 : get3 k (handles (ws (set_handle s k None))) = None).
  { destruct s as [a b c d e [p w [[h1 h2] h3]] g]. destruct k; reflexivity. }
  destruct k; cbn [sg_done]; unfold done_crew, done_doing, done_todo;
    match goal with |- context [if ?c then _ else _] => destruct c end; cbn [fst]; try exact H0;
    rewrite sg_bind_ret, Hf; exact H0.
Qed.

(* submit_crossroads : which waiter is armed for which priority *)
Definition fires_now (s : fstate) : bool :=
  Fsm.is_pipeline_active s && match priority (ws s) with Some P_NOW => true | _ => false end.

Theorem submit_crossroads_eq : forall s,
  Fsm.submit_crossroads s =
  (if fires_now s then logged None true (StateGen.submit_crossroads trigger_ s)
   else StateGen.submit_crossroads trigger_ s).
Proof.
  intro s. unfold StateGen.submit_crossroads, Fsm.submit_crossroads, fires_now.
  change (StateGen.is_pipeline_active s) with (Fsm.is_pipeline_active s).
  destruct (Fsm.is_pipeline_active s); cbn [negb andb]; [|reflexivity].
  rewrite wait_for_crew_eq, wait_for_doing_eq, wait_for_todo_eq.
  destruct (priority (ws s)) as [[]|]; cbn; try reflexivity.
  rewrite sg_bind_ret. apply wait_for_nothing_eq.
Qed.

(* is_X_done : one evaluation of the loop condition of a running poller *)
Theorem poll_eq : forall k s e, get3 k (handles (ws s)) = Some false ->
  poll s k e = if sg_continues k s e then (s, Ok) else (set_handle s k (Some true), Ok).
Proof.
  intros k s [[b d] q] H. unfold poll. rewrite H.
  destruct k; cbn [sg_continues]; unfold is_crew_done_continues, is_doing_done_continues,
    is_todo_done_continues;
    [ rewrite (waiting_on_eq KCrew) | rewrite (waiting_on_eq KDoing) | rewrite (waiting_on_eq KTodo) ];
    cbn [cond_holds w_busy w_doing w_que fst snd]; rewrite negb_involutive; reflexivity.
Qed.

(* ---- the life cycle callbacks ------------------------------------------------------- *)
Theorem archive_done_eq : forall s, StateGen.archive_done trigger_ s = Fsm.archive_done s.
Proof.
  intro s. unfold StateGen.archive_done, Fsm.archive_done, fire_prior.
  rewrite sg_set_active. cbn [bind snd fst]. rewrite sg_bind_ret. reflexivity.
Qed.

Theorem archive_eq : forall rec s, StateGen.archive rec s = run_cb rec s Cb_archive.
Proof.
  intros rec s. unfold StateGen.archive, StateGen.archive_done, fire_prior. cbn [run_cb].
  rewrite set_transitioning_eq.
  destruct (set_tr s Entering) as [s1 o]; destruct o; cbn [bind snd fst]; try reflexivity.
  destruct (archive_flag s1); [reflexivity|].
  rewrite sg_set_active. cbn [bind snd fst]. rewrite !sg_bind_ret. reflexivity.
Qed.

Theorem callbacks_eq : forall rec s c,
  run_cb rec s c =
  match c with
  | Cb_start => StateGen.start s
  | Cb_load => StateGen.load s
  | Cb_navel_gaze => StateGen.navel_gaze s
  | Cb_save_prior_state => StateGen.save_prior_state s
  | Cb_archive => StateGen.archive rec s
  | Cb_reload => StateGen.reload s
  | Cb_reset => epoch_counted (StateGen.reset s)
  | Cb_fire t => rec s t
  end.
Proof.
  intros rec s c. destruct c; cbn [run_cb].
  - unfold StateGen.start, cb_start. rewrite set_transitioning_eq.
    destruct (set_tr s Exiting) as [s1 o]; destruct o; cbn [bind snd fst]; reflexivity.
  - unfold StateGen.load, cb_load. rewrite set_transitioning_eq. reflexivity.
  - unfold StateGen.navel_gaze, cb_navel_gaze. rewrite set_transitioning_eq. reflexivity.
  - symmetry. apply save_prior_state_eq.
  - symmetry. apply archive_eq.
  - unfold StateGen.reload, cb_reload. rewrite set_transitioning_eq. reflexivity.
  - apply reset_eq.
  - reflexivity.
Qed.

(* completion of a background step = the translated thread body / callback *)
Theorem complete_eq : forall s b,
  complete s b =
  match b with
  | BgPipeline => StateGen.load_done trigger_ s        (* _pipeline ; load.done *)
  | BgNavel => StateGen.navel_gaze_body trigger_ s     (* _navel_gaze *)
  | BgReload => StateGen.reload_done trigger_ s        (* _reload ; reload.done *)
  | BgArchive => StateGen.archive_done trigger_ s      (* _archive -> db.archive(_archive_done) *)
  end.
Proof.
  intros s b. destruct b; cbn [complete];
    unfold load_done, navel_gaze_body, reload_done; try rewrite sg_set_active;
    cbn [bind snd fst]; try rewrite sg_bind_ret; try reflexivity.
  symmetry. apply archive_done_eq.
Qed.

(* ---- the whole machine: the generated table interpreted with the translated
   callbacks is Event.trigger of the model, for every state and trigger ---- *)
Lemma sg_run_cb_ext : forall (r1 r2 : fstate -> trigger -> fstate * outcome),
  (forall s t, r1 s t = r2 s t) -> forall s c, gen_run_cb r1 s c = run_cb r2 s c.
Proof.
  intros r1 r2 H s c. rewrite callbacks_eq. destruct c; cbn [gen_run_cb]; try reflexivity.
  - unfold StateGen.archive, StateGen.archive_done, fire_prior.
    destruct (set_transitioning s Entering) as [s1 o]; destruct o; cbn [bind snd fst]; try reflexivity.
    destruct (archive_flag s1); [reflexivity|].
    destruct (set_transitioning (set_archive s1 false) Active) as [s2 o]; destruct o;
      cbn [bind snd fst]; try reflexivity.
    destruct (prior s2) as [p|]; [|reflexivity]. destruct (state_trigger p); [|reflexivity].
    rewrite H. reflexivity.
  - apply H.
Qed.

Lemma sg_run_cbs_ext : forall (r1 r2 : fstate -> trigger -> fstate * outcome),
  (forall s t, r1 s t = r2 s t) -> forall cs s, gen_run_cbs r1 s cs = run_cbs r2 s cs.
Proof.
  intros r1 r2 H cs. induction cs as [|c cs IH]; intro s; [reflexivity|].
  cbn [gen_run_cbs run_cbs]. rewrite (sg_run_cb_ext r1 r2 H).
  unfold bind. destruct (snd (run_cb r2 s c)); try reflexivity. apply IH.
Qed.

Theorem gen_fire_eq : forall f s t, gen_fire f s t = fire f s t.
Proof.
  induction f as [|f IH]; intros s t; [reflexivity|].
  cbn [gen_fire fire]. destruct (find_edge t (st s)) as [e|]; [|reflexivity].
  rewrite (sg_run_cbs_ext (gen_fire f) (fire f) IH).
  unfold bind. destruct (snd (run_cbs (fire f) s (e_before e))); try reflexivity.
  apply (sg_run_cbs_ext (gen_fire f) (fire f) IH).
Qed.

Theorem gen_trigger_eq : forall s t, gen_trigger s t = trigger_ s t.
Proof. intros s t. apply gen_fire_eq. Qed.
