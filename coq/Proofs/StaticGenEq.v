(* Proofs/StaticGenEq.v -- the containment decision of dawgie.fe._static,
   regenerated from the python source on every run (Gen/StaticGen.v, by
   tools/translate/static2coq.py: the loop body with its continue / break /
   raising OS calls, the loop over the two resolved roots, the `if found`
   exit), IS the hand-written model Model/Static.v over which C19_contained
   is proved -- for ALL operating-system oracles, request strings and roots. *)
From Coq Require Import List Bool Arith.
From DV Require Import Model.Static.
From DV Require Gen.StaticGen.
Import ListNotations.

Module G := StaticGen.

Section Eq.
  Variable resolve : path -> option path.
  Variable is_dir is_file : path -> option bool.

  (* one turn of the loop: the generated body against Static.visit *)
  Lemma body_visit : forall fn d (res : list entry) (f0 : option path),
    G.body resolve is_dir is_file fn d (res, false, f0) =
    match visit resolve is_dir is_file d fn with
    | IRaise => None
    | IBreak p => Some (res, true, Some p, true)
    | IContinue =>
        match resolve (join d fn) with
        | Some ffn =>
            match (if under d ffn then is_dir ffn else Some false) with
            | Some true => match resolve (ffn ++ [INDEX]) with
                           | Some q => Some (res ++ [Jail], false, Some q, false)
                           | None => None end
            | _ => Some (res ++ [Jail], false, Some ffn, false)
            end
        | None => None
        end
    | INext p => Some (res ++ [Missing p], false, Some p, false)
    end.
  Proof.
    intros fn d res f0. unfold G.body, visit.
    destruct (resolve (join d fn)) as [ffn|]; [|reflexivity].
    destruct (under d ffn) eqn:U.
    - destruct (is_dir ffn) as [[|]|]; [| |reflexivity].
      + destruct (resolve (ffn ++ [INDEX])) as [q|]; [|reflexivity].
        destruct (under d q); cbn [negb]; [|reflexivity].
        destruct (is_file q) as [[|]|]; reflexivity.
      + rewrite U. cbn [negb]. destruct (is_file ffn) as [[|]|]; reflexivity.
    - rewrite U. cbn [negb]. reflexivity.
  Qed.

  (* the loop, from any accumulated refusal text *)
  Lemma loop_for_each : forall fn ds (tr : list entry) (f0 : option path),
    match G.for_each (G.body resolve is_dir is_file fn) ds (rev tr, false, f0) with
    | None => Raised
    | Some (res, true, Some p) => Served p
    | Some (res, true, None) => Raised
    | Some (res, false, _) => NotFound res
    end = loop resolve is_dir is_file ds fn tr.
  Proof.
    intros fn ds. induction ds as [|d ds IH]; intros tr f0; [reflexivity|].
    cbn [G.for_each loop]. rewrite body_visit.
    destruct (visit resolve is_dir is_file d fn) as [p| |p|] eqn:V.
    - reflexivity.
    - (* IContinue *)
      unfold visit in V.
      destruct (resolve (join d fn)) as [ffn|]; [|discriminate].
      destruct (if under d ffn then is_dir ffn else Some false) as [[|]|]; [| |discriminate].
      + destruct (resolve (ffn ++ [INDEX])) as [q|]; [|discriminate].
        change (rev tr ++ [Jail]) with (rev (Jail :: tr)). apply IH.
      + change (rev tr ++ [Jail]) with (rev (Jail :: tr)). apply IH.
    - change (rev tr ++ [Missing p]) with (rev (Missing p :: tr)). apply IH.
    - reflexivity.
  Qed.

  Theorem static_gen_eq : forall fn fe_path bdir,
    G.static resolve is_dir is_file fn fe_path bdir = static resolve is_dir is_file fn fe_path bdir.
  Proof.
    intros fn fe bd. unfold G.static, G.static_state, static.
    destruct (resolve fe) as [d1|]; [|reflexivity].
    destruct (resolve bd) as [d2|]; [|reflexivity].
    rewrite <- (loop_for_each (lstrip_slash fn) [d1; d2] [] None). cbn [rev].
    destruct (G.for_each _ _ _) as [[[res [|]] [p|]]|]; reflexivity.
  Qed.
End Eq.
