(* Proofs/StaticProofs.v -- lemmas about Model/Static.v (fe._static).
   Every statement is for ALL oracles resolve / is_dir / is_file. *)
From Coq Require Import List Bool Arith PeanoNat Lia.
From DV Require Import Model.Static.
Import ListNotations.

(* ---- the lexical part ---- *)
Lemma st_seg_eqb_eq : forall a b, seg_eqb a b = true <-> a = b.
Proof.
  induction a as [|x a IH]; destruct b as [|y b]; cbn; split; intro H;
    try reflexivity; try discriminate.
  - apply andb_true_iff in H. destruct H as [H1 H2].
    apply Nat.eqb_eq in H1. apply IH in H2. subst. reflexivity.
  - inversion H; subst. apply andb_true_iff. split.
    + apply Nat.eqb_refl.
    + apply IH. reflexivity.
Qed.

Lemma st_path_eqb_eq : forall a b, path_eqb a b = true <-> a = b.
Proof.
  induction a as [|x a IH]; destruct b as [|y b]; cbn; split; intro H;
    try reflexivity; try discriminate.
  - apply andb_true_iff in H. destruct H as [H1 H2].
    apply st_seg_eqb_eq in H1. apply IH in H2. subst. reflexivity.
  - inversion H; subst. apply andb_true_iff. split.
    + apply st_seg_eqb_eq. reflexivity.
    + apply IH. reflexivity.
Qed.

(* is_relative_to is "d is a prefix of p" *)
Lemma st_under_prefix : forall d p, under d p = true <-> exists r, p = d ++ r.
Proof.
  induction d as [|x d IH]; intros p; cbn.
  - split; [intros _; exists p; reflexivity | reflexivity].
  - destruct p as [|y p].
    + split; [discriminate | intros [r H]; discriminate].
    + split.
      * intro H. apply andb_true_iff in H. destruct H as [H1 H2].
        apply st_seg_eqb_eq in H1. apply IH in H2. destruct H2 as [r ->].
        subst. exists r. reflexivity.
      * intros [r H]. inversion H; subst. apply andb_true_iff. split.
        -- apply st_seg_eqb_eq. reflexivity.
        -- apply IH. exists r. reflexivity.
Qed.

Lemma st_under_refl : forall d, under d d = true.
Proof. intro d. apply st_under_prefix. exists []. rewrite app_nil_r. reflexivity. Qed.

Lemma st_under_trans : forall a b c,
  under a b = true -> under b c = true -> under a c = true.
Proof.
  intros a b c H1 H2. apply st_under_prefix in H1. apply st_under_prefix in H2.
  destruct H1 as [r1 ->]. destruct H2 as [r2 ->]. apply st_under_prefix.
  exists (r1 ++ r2). rewrite app_assoc. reflexivity.
Qed.

Lemma st_lstrip_slash_head : forall s, lstrip_slash (SLASH :: s) = lstrip_slash s.
Proof. intro s. reflexivity. Qed.

Lemma st_lstrip_idem : forall s, lstrip_slash (lstrip_slash s) = lstrip_slash s.
Proof.
  induction s as [|c s IH]; cbn; [reflexivity|].
  destruct (Nat.eqb c SLASH) eqn:E; [exact IH|].
  cbn. rewrite E. reflexivity.
Qed.

Lemma st_lstrip_no_lead : forall s c r, lstrip_slash s = c :: r -> c <> SLASH.
Proof.
  induction s as [|x s IH]; cbn; intros c r H; [discriminate|].
  destruct (Nat.eqb x SLASH) eqn:E.
  - eapply IH; eauto.
  - inversion H; subst. apply Nat.eqb_neq. exact E.
Qed.

(* no part produced by the pathlib parse is empty, "." or contains "/" *)
Lemma st_split_no_slash : forall s cur,
  ~ In SLASH cur -> Forall (fun x => ~ In SLASH x) (split_slash s cur).
Proof.
  induction s as [|c s IH]; cbn; intros cur H.
  - constructor; [|constructor]. intro K. apply in_rev in K. auto.
  - destruct (Nat.eqb c SLASH) eqn:E.
    + constructor.
      * intro K. apply in_rev in K. auto.
      * apply IH. intros [].
    + apply IH. intros [K|K]; [|auto]. subst. rewrite Nat.eqb_refl in E. discriminate.
Qed.

Lemma st_parts_clean : forall s,
  Forall (fun x => x <> [] /\ x <> [DOT] /\ ~ In SLASH x) (parts s).
Proof.
  intro s. unfold parts. apply Forall_forall. intros x Hx.
  apply filter_In in Hx. destruct Hx as [Hin Hk].
  pose proof (st_split_no_slash s [] (fun K => K)) as F.
  rewrite Forall_forall in F. specialize (F x Hin).
  unfold keep in Hk. destruct x as [|c x]; [discriminate|].
  repeat split; try assumption; try discriminate.
  intro K. rewrite K in Hk. cbn in Hk. discriminate.
Qed.

Lemma st_join_under : forall d fn, under d (join d fn) = true.
Proof. intros. apply st_under_prefix. exists (parts fn). reflexivity. Qed.

Section WithOS.
  Variable resolve : path -> option path.
  Variable is_dir is_file : path -> option bool.

  Notation visit := (visit resolve is_dir is_file).
  Notation loop := (loop resolve is_dir is_file).
  Notation static := (static resolve is_dir is_file).

  (* a root only accepts a path that resolve returned, that is inside the
     root and that is a regular file *)
  Lemma st_visit_break : forall d fn p,
    visit d fn = IBreak p ->
    under d p = true /\ is_file p = Some true /\ exists q, resolve q = Some p.
  Proof.
    intros d fn p. unfold Static.visit.
    destruct (resolve (join d fn)) as [ffn|] eqn:R1; [|discriminate].
    destruct (if under d ffn then is_dir ffn else Some false) as [[|]|] eqn:B;
      [| |discriminate].
    - destruct (resolve (ffn ++ [INDEX])) as [f2|] eqn:R2; [|discriminate].
      destruct (under d f2) eqn:U; cbn; [|discriminate].
      destruct (is_file f2) as [[|]|] eqn:F; try discriminate.
      intro H. inversion H; subst. repeat split; try assumption. eauto.
    - destruct (under d ffn) eqn:U; cbn; [|discriminate].
      destruct (is_file ffn) as [[|]|] eqn:F; try discriminate.
      intro H. inversion H; subst. repeat split; try assumption. eauto.
  Qed.

  Lemma st_loop_served : forall ds fn tr p,
    loop ds fn tr = Served p -> exists d, In d ds /\ visit d fn = IBreak p.
  Proof.
    induction ds as [|d ds IH]; cbn; intros fn tr p H; [discriminate|].
    destruct (visit d fn) as [q| |q|] eqn:V.
    - inversion H; subst. exists d. split; [left; reflexivity|exact V].
    - apply IH in H. destruct H as [d' [I V']]. exists d'. split; [right|]; assumption.
    - apply IH in H. destruct H as [d' [I V']]. exists d'. split; [right|]; assumption.
    - discriminate.
  Qed.

  Lemma st_loop_notfound_len : forall ds fn tr t,
    loop ds fn tr = NotFound t -> length t = length ds + length tr.
  Proof.
    induction ds as [|d ds IH]; cbn; intros fn tr t H.
    - inversion H; subst. rewrite rev_length. reflexivity.
    - destruct (visit d fn); try discriminate; apply IH in H; cbn in H; lia.
  Qed.

  (* the first root that accepts wins; earlier roots refused *)
  Lemma st_loop_first : forall ds fn tr p d,
    visit d fn = IBreak p -> loop (d :: ds) fn tr = Served p.
  Proof. intros. cbn. rewrite H. reflexivity. Qed.

  Lemma st_loop_skip : forall ds fn tr d,
    (visit d fn = IContinue -> loop (d :: ds) fn tr = loop ds fn (Jail :: tr)) /\
    (forall p, visit d fn = INext p -> loop (d :: ds) fn tr = loop ds fn (Missing p :: tr)).
  Proof. intros. split; [intro H | intros p H]; cbn; rewrite H; reflexivity. Qed.

  (* ---- containment ---- *)
  Theorem st_contained : forall fn fe bd p,
    static fn fe bd = Served p ->
    exists d, (resolve fe = Some d \/ resolve bd = Some d) /\
              under d p = true /\ is_file p = Some true /\
              exists q, resolve q = Some p.
  Proof.
    intros fn fe bd p. unfold Static.static.
    destruct (resolve fe) as [d1|] eqn:R1; [|discriminate].
    destruct (resolve bd) as [d2|] eqn:R2; [|discriminate].
    intro H. apply st_loop_served in H. destruct H as [d [I V]].
    apply st_visit_break in V. destruct V as [U [F Q]].
    exists d. split.
    - destruct I as [<-|[<-|[]]]; [left|right]; reflexivity.
    - repeat split; assumption.
  Qed.

  (* the served path literally extends the resolved root: p = d ++ r *)
  Corollary st_contained_prefix : forall fn fe bd p,
    static fn fe bd = Served p ->
    exists d r, (resolve fe = Some d \/ resolve bd = Some d) /\ p = d ++ r.
  Proof.
    intros fn fe bd p H. apply st_contained in H.
    destruct H as [d [Hd [U _]]]. apply st_under_prefix in U. destruct U as [r ->].
    exists d, r. split; [assumption|reflexivity].
  Qed.

  (* leading slashes never matter *)
  Lemma st_static_lstrip : forall fn fe bd,
    static (SLASH :: fn) fe bd = static fn fe bd.
  Proof. intros. unfold Static.static. rewrite st_lstrip_slash_head. reflexivity. Qed.

  (* ---- the service is not vacuous: a regular file inside the first root is
     served, one inside the second root is served when the first root has
     nothing under that name ---- *)
  Lemma st_visit_file : forall d fn p,
    resolve (join d fn) = Some p -> under d p = true ->
    is_dir p = Some false -> is_file p = Some true -> visit d fn = IBreak p.
  Proof.
    intros d fn p R U D F. unfold Static.visit. rewrite R, U, D. cbn. rewrite U, F.
    reflexivity.
  Qed.

  Lemma st_visit_index : forall d fn p q,
    resolve (join d fn) = Some p -> under d p = true -> is_dir p = Some true ->
    resolve (p ++ [INDEX]) = Some q -> under d q = true -> is_file q = Some true ->
    visit d fn = IBreak q.
  Proof.
    intros d fn p q R U D R2 U2 F. unfold Static.visit. rewrite R, U, D. cbn.
    rewrite R2, U2, F. reflexivity.
  Qed.

  Theorem st_serves_first : forall fn fe bd d1 d2 p,
    resolve fe = Some d1 -> resolve bd = Some d2 ->
    resolve (join d1 (lstrip_slash fn)) = Some p -> under d1 p = true ->
    is_dir p = Some false -> is_file p = Some true ->
    static fn fe bd = Served p.
  Proof.
    intros fn fe bd d1 d2 p R1 R2 R U D F. unfold Static.static. rewrite R1, R2.
    apply st_loop_first. apply st_visit_file; assumption.
  Qed.

  Theorem st_serves_second : forall fn fe bd d1 d2 p1 p,
    resolve fe = Some d1 -> resolve bd = Some d2 ->
    resolve (join d1 (lstrip_slash fn)) = Some p1 ->
    is_dir p1 = Some false -> is_file p1 = Some false ->
    resolve (join d2 (lstrip_slash fn)) = Some p -> under d2 p = true ->
    is_dir p = Some false -> is_file p = Some true ->
    static fn fe bd = Served p.
  Proof.
    intros fn fe bd d1 d2 p1 p R1 R2 Ra Da Fa R U D F. unfold Static.static.
    rewrite R1, R2.
    assert (V1 : visit d1 (lstrip_slash fn) = IContinue \/
                 visit d1 (lstrip_slash fn) = INext p1).
    { unfold Static.visit. rewrite Ra.
      destruct (under d1 p1) eqn:U1; cbn; [rewrite Da, U1; cbn; right; rewrite Fa|
                                           rewrite U1; left]; reflexivity. }
    destruct V1 as [V1|V1]; cbn; rewrite V1; cbn;
      rewrite (st_visit_file d2 _ p R U D F); reflexivity.
  Qed.

  (* a request is refused when no root holds it: two refusals are reported *)
  Lemma st_notfound_two : forall fn fe bd t,
    static fn fe bd = NotFound t -> length t = 2.
  Proof.
    intros fn fe bd t. unfold Static.static.
    destruct (resolve fe); [|discriminate]. destruct (resolve bd); [|discriminate].
    intro H. apply st_loop_notfound_len in H. exact H.
  Qed.
End WithOS.
