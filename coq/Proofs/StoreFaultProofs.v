(* Proofs/StoreFaultProofs.v -- histories with refused catalogue-table writes
   (Model/StoreFault.v): every step of such a history is either a step of the
   fault-free model (Store.exec) or a step that only EXTENDS the catalogue
   (some of the appends of the call happened, the primary table, the store and
   the staging area are untouched).  The invariants of C08 / C07 are lifted
   through that case split. *)
From Coq Require Import List Arith ZArith Bool Lia.
From DV Require Import Model.Catalogue Model.Store Model.StoreFault
                       Proofs.CatalogueProofs Proofs.StoreProofs.
Import ListNotations.

(* ---- util.append with a refused write ------------------------------------- *)
Lemma SF_append_f : forall w n t i p v t' i' r w',
  append_f w n t i p v = (t', i', r, w') ->
  (r = None /\ t' = t /\ i' = i /\ w = 1 /\ w' = 0 /\ alookup (construct n p v) t = None) \/
  (exists x nm, r = Some (x, nm) /\ append n t i p v = (t', i', x, nm)).
Proof.
  intros w n t i p v t' i' r w' H. unfold append_f in H. unfold append.
  destruct (alookup (construct n p v) t) as [y|] eqn:E.
  - injection H as <- <- <- <-. right. eauto.
  - destruct w as [|[|w]]; injection H as <- <- <- <-.
    + right. eauto.
    + left. auto 10.
    + right. eauto.
Qed.

Lemma SF_set_tab_same : forall c x, set_tab c x (tb c x) (ix c x) = c.
Proof. intros c x. destruct c, x; reflexivity. Qed.

Lemma SF_cat_append_f : forall w c x n p v c' oid w',
  cat_append_g append_f w c x n p v = (c', oid, w') ->
  (oid = None /\ c' = c) \/
  (exists id, oid = Some id /\ cat_append c x n p v = (c', id)).
Proof.
  intros w c x n p v c' oid w' H. unfold cat_append_g in H.
  destruct (append_f w n (tb c x) (ix c x) p v) as [[[t i] r] w1] eqn:E.
  injection H as <- <- <-.
  apply SF_append_f in E. destruct E as [(-> & -> & -> & _)|(y & nm & -> & E)].
  - left. split; [reflexivity|apply SF_set_tab_same].
  - right. exists y. split; [reflexivity|]. unfold cat_append. now rewrite E.
Qed.

(* one append of a call: the catalogue stays well formed, the primary table is
   untouched, nothing registered is lost *)
Lemma SF_step : forall w c x n p v c' oid w',
  Iwf c -> okargs x n p v -> cat_append_g append_f w c x n p v = (c', oid, w') ->
  Iwf c' /\ prime c' = prime c /\ ext c c' /\
  (forall id, oid = Some id ->
     cat_append c x n p v = (c', id) /\
     nth_error (ix c' x) id = Some (construct n p v)).
Proof.
  intros w c x n p v c' oid w' Hw Hok H.
  apply SF_cat_append_f in H. destruct H as [[-> ->]|(id & -> & E)].
  - split; [exact Hw|]. split; [reflexivity|]. split; [apply CP_ext_refl|]. discriminate.
  - pose proof E as E'. apply CP_cat_append in E; [|exact Hw|exact Hok].
    destruct E as (W & P & X & N & _). split; [exact W|]. split; [exact P|].
    split; [exact X|]. intros id0 [= <-]. auto.
Qed.

Lemma SF_to_key : forall w c r tn id c' ok w',
  Iwf c -> plain tn -> plain_id id ->
  to_key_g append_f w c r tn id = (c', ok, w') ->
  Iwf c' /\ prime c' = prime c /\ ext c c' /\
  (forall key, ok = Some key -> to_key c r tn id = (c', key)).
Proof.
  intros w c r tn id c' ok w' Hw Htn (Hp1 & Hp2 & Hp3 & Hp4) H. unfold to_key_g in H.
  destruct (cat_append_g append_f w c Ttarget tn None None) as [[c1 o1] w1] eqn:E1.
  apply SF_step in E1; [|exact Hw|split; [exact Htn|auto]].
  destruct E1 as (W1 & P1 & X1 & K1).
  destruct o1 as [trg|]; cbv beta iota in H;
    [|injection H as <- <- <-; split; [auto|split; [congruence|split; [auto|intros ? [=]]]]].
  destruct (cat_append_g append_f w1 c1 Ttask (d_task id) None None) as [[c2 o2] w2] eqn:E2.
  apply SF_step in E2; [|exact W1|split; [exact Hp1|auto]].
  destruct E2 as (W2 & P2 & X2 & K2).
  assert (X02 : ext c c2) by (eapply CP_ext_trans; eauto).
  destruct o2 as [tid|]; cbv beta iota in H;
    [|injection H as <- <- <-; split; [auto|split; [congruence|split; [auto|intros ? [=]]]]].
  destruct (cat_append_g append_f w2 c2 Talg (d_alg id) (Some tid) (Some (d_aver id)))
    as [[c3 o3] w3] eqn:E3.
  apply SF_step in E3; [|exact W2|split; [exact Hp2|eauto]].
  destruct E3 as (W3 & P3 & X3 & K3).
  assert (X03 : ext c c3) by (eapply CP_ext_trans; eauto).
  destruct o3 as [aid|]; cbv beta iota in H;
    [|injection H as <- <- <-; split; [auto|split; [congruence|split; [auto|intros ? [=]]]]].
  destruct (cat_append_g append_f w3 c3 Tstate (d_sv id) (Some aid) (Some (d_sver id)))
    as [[c4 o4] w4] eqn:E4.
  apply SF_step in E4; [|exact W3|split; [exact Hp3|eauto]].
  destruct E4 as (W4 & P4 & X4 & K4).
  assert (X04 : ext c c4) by (eapply CP_ext_trans; eauto).
  destruct o4 as [sid|]; cbv beta iota in H;
    [|injection H as <- <- <-; split; [auto|split; [congruence|split; [auto|intros ? [=]]]]].
  destruct (cat_append_g append_f w4 c4 Tvalue (d_vn id) (Some sid) (Some (d_vver id)))
    as [[c5 o5] w5] eqn:E5.
  apply SF_step in E5; [|exact W4|split; [exact Hp4|eauto]].
  destruct E5 as (W5 & P5 & X5 & K5).
  assert (X05 : ext c c5) by (eapply CP_ext_trans; eauto).
  destruct o5 as [vid|]; cbv beta iota in H;
    [|injection H as <- <- <-; split; [auto|split; [congruence|split; [auto|intros ? [=]]]]].
  injection H as <- <- <-.
  split; [exact W5|]. split; [congruence|]. split; [exact X05|].
  intros key [= <-]. unfold to_key.
  rewrite (proj1 (K1 _ eq_refl)), (proj1 (K2 _ eq_refl)), (proj1 (K3 _ eq_refl)),
          (proj1 (K4 _ eq_refl)), (proj1 (K5 _ eq_refl)). reflexivity.
Qed.

Lemma SF_register : forall w c id c' ok w',
  Iwf c -> plain_id id -> register_g append_f w c id = (c', ok, w') ->
  Iwf c' /\ prime c' = prime c /\ ext c c' /\ (ok = true -> register c id = c').
Proof.
  intros w c id c' ok w' Hw (Hp1 & Hp2 & Hp3 & Hp4) H. unfold register_g in H.
  destruct (cat_append_g append_f w c Ttask (d_task id) None None) as [[c2 o2] w2] eqn:E2.
  apply SF_step in E2; [|exact Hw|split; [exact Hp1|auto]].
  destruct E2 as (W2 & P2 & X2 & K2).
  destruct o2 as [tid|]; cbv beta iota in H;
    [|injection H as <- <- <-; split; [auto|split; [congruence|split; [auto|intros [=]]]]].
  destruct (cat_append_g append_f w2 c2 Talg (d_alg id) (Some tid) (Some (d_aver id)))
    as [[c3 o3] w3] eqn:E3.
  apply SF_step in E3; [|exact W2|split; [exact Hp2|eauto]].
  destruct E3 as (W3 & P3 & X3 & K3).
  assert (X03 : ext c c3) by (eapply CP_ext_trans; eauto).
  destruct o3 as [aid|]; cbv beta iota in H;
    [|injection H as <- <- <-; split; [auto|split; [congruence|split; [auto|intros [=]]]]].
  destruct (cat_append_g append_f w3 c3 Tstate (d_sv id) (Some aid) (Some (d_sver id)))
    as [[c4 o4] w4] eqn:E4.
  apply SF_step in E4; [|exact W3|split; [exact Hp3|eauto]].
  destruct E4 as (W4 & P4 & X4 & K4).
  assert (X04 : ext c c4) by (eapply CP_ext_trans; eauto).
  destruct o4 as [sid|]; cbv beta iota in H;
    [|injection H as <- <- <-; split; [auto|split; [congruence|split; [auto|intros [=]]]]].
  destruct (cat_append_g append_f w4 c4 Tvalue (d_vn id) (Some sid) (Some (d_vver id)))
    as [[c5 o5] w5] eqn:E5.
  apply SF_step in E5; [|exact W4|split; [exact Hp4|eauto]].
  destruct E5 as (W5 & P5 & X5 & K5).
  assert (X05 : ext c c5) by (eapply CP_ext_trans; eauto).
  destruct o5 as [vid|]; cbv beta iota in H;
    [|injection H as <- <- <-; split; [auto|split; [congruence|split; [auto|intros [=]]]]].
  injection H as <- <- <-.
  split; [exact W5|]. split; [congruence|]. split; [exact X05|].
  intros _. unfold register.
  rewrite (proj1 (K2 _ eq_refl)), (proj1 (K3 _ eq_refl)), (proj1 (K4 _ eq_refl)),
          (proj1 (K5 _ eq_refl)). reflexivity.
Qed.

Section WithDigest.
Variable digest : Z -> Z.

Lemma SF_update_tail : forall d r tn id c steps,
  update1 digest d r tn id c steps
  = update_tail digest d (fst (to_key (dcat d) r tn id)) (snd (to_key (dcat d) r tn id)) c steps.
Proof. intros. unfold update1, update_tail. destruct (to_key (dcat d) r tn id). reflexivity. Qed.

Lemma SF_load_tail : forall d r tn id,
  load1 d r tn id
  = load_tail d (fst (to_key (dcat d) r tn id)) (snd (to_key (dcat d) r tn id)).
Proof. intros. unfold load1, load_tail. destruct (to_key (dcat d) r tn id). reflexivity. Qed.

(* a step that only extends the catalogue *)
Definition cat_only (d d' : db) : Prop :=
  store d' = store d /\ stage d' = stage d /\ Iwf (dcat d') /\
  prime (dcat d') = prime (dcat d) /\ ext (dcat d) (dcat d').

Lemma SF_cat_only_with : forall d c1,
  Iwf c1 -> prime c1 = prime (dcat d) -> ext (dcat d) c1 -> cat_only d (with_cat d c1).
Proof. intros d c1 W P X. unfold cat_only. cbn. auto. Qed.

(* THE case split: a step of a history with refused writes is a step of the
   fault-free model, or the call raised and only the catalogue was extended *)
Lemma SF_exec_cases : forall w d o d' orep w',
  Idb d -> plain_op o -> exec_g append_f digest w d o = (d', orep, w') ->
  (exists rep, orep = Some rep /\ exec digest d o = (d', rep)) \/
  (orep = None /\ cat_only d d').
Proof.
  intros w d o d' orep w' HI Hp H. pose proof HI as (Hw & _).
  destruct o; cbn [exec_g plain_op] in *;
    try (destruct (exec digest d _) as [d1 rep] eqn:E in H; injection H as <- <- <-;
         left; exists rep; split; [reflexivity|exact E]).
  - (* OAdd *)
    destruct (cat_append_g append_f w (dcat d) Ttarget tn None None) as [[c1 o1] w1] eqn:E.
    apply SF_step in E; [|exact Hw|split; auto]. destruct E as (W & P & X & K).
    destruct o1 as [trg|]; injection H as <- <- <-.
    + left. exists RUnit. split; [reflexivity|]. cbn [exec].
      now rewrite (proj1 (K _ eq_refl)).
    + right. split; [reflexivity|apply SF_cat_only_with; assumption].
  - (* OReg *)
    destruct (register_g append_f w (dcat d) id) as [[c1 ok] w1] eqn:E.
    apply SF_register in E; [|exact Hw|exact Hp]. destruct E as (W & P & X & K).
    destruct ok; injection H as <- <- <-.
    + left. exists RUnit. split; [reflexivity|]. cbn [exec]. now rewrite (K eq_refl).
    + right. split; [reflexivity|apply SF_cat_only_with; assumption].
  - (* OUpd *)
    destruct Hp as [Htn Hid].
    destruct (to_key_g append_f w (dcat d) r tn id) as [[c1 ok] w1] eqn:E.
    apply SF_to_key in E; [|exact Hw|exact Htn|exact Hid]. destruct E as (W & P & X & K).
    destruct ok as [k|].
    + destruct (update_tail digest d c1 k c steps) as [d2 rep] eqn:T.
      injection H as <- <- <-. left. exists rep. split; [reflexivity|]. cbn [exec].
      rewrite SF_update_tail, (K _ eq_refl). exact T.
    + injection H as <- <- <-. right. split; [reflexivity|apply SF_cat_only_with; assumption].
  - (* OLoad *)
    destruct Hp as [Htn Hid].
    destruct (to_key_g append_f w (dcat d) r tn id) as [[c1 ok] w1] eqn:E.
    apply SF_to_key in E; [|exact Hw|exact Htn|exact Hid]. destruct E as (W & P & X & K).
    destruct ok as [k|].
    + destruct (load_tail d c1 k) as [d2 rep] eqn:T.
      injection H as <- <- <-. left. exists rep. split; [reflexivity|]. cbn [exec].
      rewrite SF_load_tail, (K _ eq_refl). exact T.
    + injection H as <- <- <-. right. split; [reflexivity|apply SF_cat_only_with; assumption].
Qed.

(* ---- invariants of one step ------------------------------------------------- *)
Lemma SF_exec_Idb : forall w d o d' orep w',
  Idb d -> plain_op o -> exec_g append_f digest w d o = (d', orep, w') ->
  Idb d' /\ ext (dcat d) (dcat d').
Proof.
  intros w d o d' orep w' HI Hp H.
  destruct (SF_exec_cases _ _ _ _ _ _ HI Hp H) as [(rep & _ & E)|(_ & _ & _ & W & P & X)].
  - pose proof (SP_exec_Idb digest d o HI Hp) as R. rewrite E in R. exact R.
  - split; [|exact X]. unfold Idb. eapply SP_Icat_ext; eauto.
Qed.

Lemma SF_exec_Istore : forall w d o d' orep w',
  Idb d -> plain_op o -> Istore digest d ->
  exec_g append_f digest w d o = (d', orep, w') -> Istore digest d'.
Proof.
  intros w d o d' orep w' HI Hp HS H.
  destruct (SF_exec_cases _ _ _ _ _ _ HI Hp H) as [(rep & _ & E)|(_ & S & _ & _ & P & _)].
  - pose proof (SP_exec digest d o HS) as R. rewrite E in R. exact R.
  - eapply SP_same_store; [exact S| |exact HS]. intros e. now rewrite P.
Qed.

Definition Iall (d : db) : Prop := Idb d /\ Istore digest d.

Lemma SF_group : forall ops w d d' rs w',
  Iall d -> Forall plain_op ops -> exec_group_g append_f digest w d ops = (d', rs, w') ->
  Iall d' /\ ext (dcat d) (dcat d').
Proof.
  induction ops as [|o ops IH]; intros w d d' rs w' [HI HS] Hp H; cbn in H.
  - injection H as <- <- <-. split; [split; assumption|apply CP_ext_refl].
  - inversion Hp as [|? ? Ho Hops]; subst.
    destruct (exec_g append_f digest w d o) as [[d1 orep] w1] eqn:E.
    destruct (SF_exec_Idb _ _ _ _ _ _ HI Ho E) as [HI1 X1].
    pose proof (SF_exec_Istore _ _ _ _ _ _ HI Ho HS E) as HS1.
    destruct orep as [rep|].
    + destruct (exec_group_g append_f digest w1 d1 ops) as [[d2 rs2] w2] eqn:G.
      injection H as <- <- <-.
      destruct (IH _ _ _ _ _ (conj HI1 HS1) Hops G) as [HA X2].
      split; [exact HA|eapply CP_ext_trans; eauto].
    + injection H as <- <- <-. split; [split; assumption|exact X1].
Qed.

Definition plain_group (g : fgroup) : Prop := Forall plain_op (snd g).

Theorem SF_run : forall gs d, Iall d -> Forall plain_group gs ->
  Iall (run_f digest d gs) /\ ext (dcat d) (dcat (run_f digest d gs)).
Proof.
  induction gs as [|g gs IH]; intros d HA Hp.
  - split; [exact HA|apply CP_ext_refl].
  - inversion Hp as [|? ? Hg Hgs]; subst.
    change (run_f digest d (g :: gs)) with (run_f digest (step_g append_f digest d g) gs).
    unfold step_g.
    destruct (exec_group_g append_f digest (fst g) d (snd g)) as [[d1 rs] w1] eqn:G.
    destruct (SF_group _ _ _ _ _ _ HA Hg G) as [HA1 X1]. cbn [fst].
    destruct (IH _ HA1 Hgs) as [HA2 X2]. split; [exact HA2|eapply CP_ext_trans; eauto].
Qed.

Lemma SF_Iall0 : Iall db0.
Proof. split; [apply SP_Idb0|apply SP_init]. Qed.

(* ---- with nothing armed the extended model IS the model --------------------- *)
Lemma SF_append_0 : forall n t i p v,
  append_f 0 n t i p v
  = (let '(t', i', x, nm) := append n t i p v in (t', i', Some (x, nm), 0)).
Proof.
  intros. unfold append_f, append. destruct (alookup (construct n p v) t); reflexivity.
Qed.

Lemma SF_cat_append_0 : forall c x n p v,
  cat_append_g append_f 0 c x n p v
  = (fst (cat_append c x n p v), Some (snd (cat_append c x n p v)), 0).
Proof.
  intros. unfold cat_append_g, cat_append. rewrite SF_append_0.
  destruct (append n (tb c x) (ix c x) p v) as [[[t i] y] nm]. reflexivity.
Qed.

Lemma SF_to_key_0 : forall c r tn id,
  to_key_g append_f 0 c r tn id
  = (fst (to_key c r tn id), Some (snd (to_key c r tn id)), 0).
Proof.
  intros. unfold to_key_g, to_key. rewrite SF_cat_append_0.
  destruct (cat_append c Ttarget tn None None) as [c1 trg]. cbn [fst snd].
  rewrite SF_cat_append_0.
  destruct (cat_append c1 Ttask (d_task id) None None) as [c2 tid]. cbn [fst snd].
  rewrite SF_cat_append_0.
  destruct (cat_append c2 Talg (d_alg id) (Some tid) (Some (d_aver id))) as [c3 aid].
  cbn [fst snd]. rewrite SF_cat_append_0.
  destruct (cat_append c3 Tstate (d_sv id) (Some aid) (Some (d_sver id))) as [c4 sid].
  cbn [fst snd]. rewrite SF_cat_append_0.
  destruct (cat_append c4 Tvalue (d_vn id) (Some sid) (Some (d_vver id))) as [c5 vid].
  reflexivity.
Qed.

Lemma SF_register_0 : forall c id,
  register_g append_f 0 c id = (register c id, true, 0).
Proof.
  intros. unfold register_g, register. rewrite SF_cat_append_0.
  destruct (cat_append c Ttask (d_task id) None None) as [c2 tid]. cbn [fst snd].
  rewrite SF_cat_append_0.
  destruct (cat_append c2 Talg (d_alg id) (Some tid) (Some (d_aver id))) as [c3 aid].
  cbn [fst snd]. rewrite SF_cat_append_0.
  destruct (cat_append c3 Tstate (d_sv id) (Some aid) (Some (d_sver id))) as [c4 sid].
  cbn [fst snd]. rewrite SF_cat_append_0.
  destruct (cat_append c4 Tvalue (d_vn id) (Some sid) (Some (d_vver id))) as [c5 vid].
  reflexivity.
Qed.

Lemma SF_exec_0 : forall d o,
  exec_g append_f digest 0 d o = (fst (exec digest d o), Some (snd (exec digest d o)), 0).
Proof.
  intros d o. destruct o; cbn [exec_g exec];
    try (destruct (exec digest d _) as [d1 rep] eqn:E; cbn in E; rewrite E; reflexivity);
    try reflexivity.
  - rewrite SF_cat_append_0. reflexivity.
  - rewrite SF_register_0. reflexivity.
  - rewrite SF_to_key_0, SF_update_tail.
    destruct (update_tail digest d _ _ c steps) as [d2 rep]. reflexivity.
  - rewrite SF_to_key_0, SF_load_tail.
    destruct (load_tail d _ _) as [d2 rep]. reflexivity.
  - destruct (remove (dcat d) r tn task alg sv vn); reflexivity.
Qed.

Lemma SF_group_0 : forall ops d,
  fst (fst (exec_group_g append_f digest 0 d ops)) = run digest d ops.
Proof.
  induction ops as [|o ops IH]; intros d; [reflexivity|].
  cbn [exec_group_g]. rewrite SF_exec_0.
  destruct (exec_group_g append_f digest 0 (fst (exec digest d o)) ops) as [[d2 rs] w2] eqn:G.
  cbn [fst]. change (run digest d (o :: ops)) with (run digest (fst (exec digest d o)) ops).
  rewrite <- IH, G. reflexivity.
Qed.

Theorem SF_run_0 : forall gss d,
  run_f digest d (map (fun ops => (0, ops)) gss) = run digest d (concat gss).
Proof.
  induction gss as [|ops gss IH]; intros d; [reflexivity|].
  change (run_f digest d (map (fun ops => (0, ops)) (ops :: gss)))
    with (run_f digest (step_g append_f digest d (0, ops)) (map (fun ops => (0, ops)) gss)).
  unfold step_g. cbn [fst snd]. rewrite SF_group_0, IH.
  cbn [concat]. unfold run. now rewrite fold_left_app.
Qed.

(* ---- the refused call itself ------------------------------------------------- *)
(* the call whose FIRST new row is refused changes nothing at all and answers
   with the exception; the retry gives the name the id the refused write
   would have given: no id is burnt *)
Lemma SF_refused_add : forall d tn,
  alookup tn (t_target (dcat d)) = None ->
  exec_g append_f digest 1 d (OAdd tn) = (d, None, 0).
Proof.
  intros d tn H. cbn [exec_g]. unfold cat_append_g, append_f.
  rewrite CP_construct_plain. cbn [tb]. rewrite H. cbn [ix].
  change (set_tab (dcat d) Ttarget (t_target (dcat d)) (i_target (dcat d)))
    with (set_tab (dcat d) Ttarget (tb (dcat d) Ttarget) (ix (dcat d) Ttarget)).
  rewrite SF_set_tab_same. destruct d; reflexivity.
Qed.

End WithDigest.

(* ---- the seeded order (index before table): the invariant breaks ------------- *)
Definition early_witness : list fgroup :=
  [(3, [OUpd 3 [84] (ex_id s_alg) 7 None]);
   (0, [OUpd 3 [84] (ex_id s_alg) 7 None])].

Lemma SF_early_plain : Forall plain_group early_witness.
Proof.
  unfold early_witness, plain_group. repeat (apply Forall_cons || apply Forall_nil);
    cbn; unfold plain_id, plain; cbn; intuition discriminate.
Qed.

Lemma SF_early_broken :
  let c := dcat (run_e idig db0 early_witness) in
  ~ NoDup (ix c Talg) /\
  map snd (tb c Talg) <> seq 0 (length (tb c Talg)) /\
  indexed (tb c Talg) <> ix c Talg /\ reopen c <> c /\
  (exists key b, In (key, b) (prime c) /\ ~ chained (reopen c) key).
Proof.
  split; [|split; [|split; [|split]]].
  - vm_compute. intros H. inversion H as [|? ? Hn _]. apply Hn. now left.
  - vm_compute. discriminate.
  - vm_compute. discriminate.
  - vm_compute. discriminate.
  - exists (3%Z, 0, 0, 1, 0, 0), 7%Z. split; [vm_compute; auto|].
    intros (_ & _ & (an & av & H) & _). vm_compute in H. discriminate.
Qed.
