(* Proofs/StoreFaultRef.v -- C06 over histories with refused catalogue-table
   writes (Model/StoreFault.v): the reference dictionary is carried along the
   run (a call that raised records nothing for the operation that raised and
   for the ones it never reached), the refinement Rf of Proofs/StoreProofs.v
   is preserved by every step, and a load after such a history returns what
   the reference says. *)
From Coq Require Import List Arith ZArith Bool Lia.
From DV Require Import Model.Catalogue Model.Store Model.StoreFault
                       Proofs.CatalogueProofs Proofs.StoreProofs Proofs.StoreFaultProofs.
Import ListNotations.

Section Ref.
Variable digest : Z -> Z.
Hypothesis digest_inj : forall a b, digest a = digest b -> a = b.

(* SP_load_ref for ANY state that refines a reference dictionary *)
Lemma SFR_load_ref_gen : forall d m r tn id,
  Idb d -> Istore digest d -> Rf digest d m -> plain tn -> plain_id id ->
  let rep := snd (load1 d r tn id) in
  (forall c, rget (tn, id, r) m = Some c -> rep = RLoaded (Some c)) /\
  (rget (tn, id, r) m = None ->
   forall r' c, rget (tn, id, r') m = Some c ->
     (forall r'' c'', rget (tn, id, r'') m = Some c'' -> (r'' <= r')%Z) ->
     rep = RLoaded (Some c)) /\
  ((forall r', rget (tn, id, r') m = None) -> rep = RLoaded None).
Proof.
  intros d m r tn id HI HS HR Htn Hid rep.
  pose proof HI as (Hw & Hnd & _).
  unfold rep, load1. destruct (to_key (dcat d) r tn id) as [c1 pk] eqn:E. cbn [snd].
  destruct (SP_to_key _ _ _ _ _ _ Hw Htn Hid E) as (W & P & X & Hr & Hres).
  set (d1 := mkdb c1 (store d) (stage d)).
  assert (HR1 : Rf digest d1 m) by (eapply SP_Rf_ext; [exact X|exact P|exact HR]).
  destruct HR1 as [R1 R2]. cbn [d1 dcat] in R1, R2.
  assert (HS1 : Istore digest d1).
  { eapply SP_same_store; [| |exact HS]; cbn; [reflexivity|]. intros e. now rewrite P. }
  assert (Hnd1 : NoDup (map fst (prime c1))) by now rewrite P.
  assert (BC : forall key c, In (key, digest c) (prime c1) ->
                             slookup (digest c) (store d) = Some c).
  { intros key c Hin. exact (SP_blob_content digest digest_inj d1 key c HS1 Hin). }
  assert (SAME : forall key tn' id', resolves c1 key tn' id' -> pk_tail key = pk_tail pk ->
                                     tn' = tn /\ id' = id).
  { intros key tn' id' H1 Ht. eapply SP_resolves_inj; eauto. }
  pose proof (SP_load_pick_spec (prime c1) pk) as SPEC.
  split; [|split].
  - intros c Hg. destruct (R1 _ _ _ _ Hg) as (key & H1 & H2 & H3).
    assert (key = pk) as ->.
    { apply SP_key_eq; [congruence|]. eapply SP_resolves_fun; eauto. }
    unfold load_pick. rewrite (SP_in_plookup _ _ _ Hnd1 H3). now rewrite (BC _ _ H3).
  - intros Hnone r' c Hg Hmax.
    assert (Hpl : plookup pk (prime c1) = None).
    { destruct (plookup pk (prime c1)) as [b|] eqn:El; [|reflexivity].
      apply SP_plookup_in in El. destruct (R2 _ _ El) as (tn0 & id0 & c0 & G1 & G2 & _).
      destruct (SAME _ _ _ G1 eq_refl) as [-> ->]. rewrite Hr in G2. congruence. }
    destruct (R1 _ _ _ _ Hg) as (key' & H1 & H2 & H3).
    assert (Ht' : pk_tail key' = pk_tail pk) by (eapply SP_resolves_fun; eauto).
    destruct (load_pick (prime c1) pk) as [b|] eqn:EL.
    + destruct SPEC as [Hin|(_ & key & Hin & Ht & Hmx)].
      { exfalso. eapply SP_plookup_none; eauto. }
      destruct (R2 _ _ Hin) as (tn0 & id0 & c0 & G1 & G2 & ->).
      destruct (SAME _ _ _ G1 Ht) as [-> ->].
      assert (pk_run key = r') as Hrr.
      { pose proof (Hmx _ _ H3 Ht'). pose proof (Hmax _ _ G2). lia. }
      rewrite Hrr in G2. assert (c0 = c) as -> by congruence.
      now rewrite (BC _ _ Hin).
    + exfalso. exact (SPEC _ _ H3 Ht').
  - intros Hall. destruct (load_pick (prime c1) pk) as [b|] eqn:EL; [|reflexivity].
    exfalso. destruct SPEC as [Hin|(_ & key & Hin & Ht & _)].
    + destruct (R2 _ _ Hin) as (tn0 & id0 & c0 & G1 & G2 & _).
      destruct (SAME _ _ _ G1 eq_refl) as [-> ->]. rewrite Hall in G2. discriminate.
    + destruct (R2 _ _ Hin) as (tn0 & id0 & c0 & G1 & G2 & _).
      destruct (SAME _ _ _ G1 Ht) as [-> ->]. rewrite Hall in G2. discriminate.
Qed.


(* ---- the run with its reference dictionary ---------------------------------- *)
Fixpoint group_ref (w : nat) (d : db) (m : refd) (ops : list op) : db * refd :=
  match ops with
  | [] => (d, m)
  | o :: rest =>
    match exec_g append_f digest w d o with
    | (d1, None, _) => (d1, m)
    | (d1, Some _, w1) => group_ref w1 d1 (ref_step m o) rest
    end
  end.

Definition run_ref (s : db * refd) (gs : list fgroup) : db * refd :=
  fold_left (fun s g => group_ref (fst g) (fst s) (snd s) (snd g)) gs s.

(* the reference dictionary of a history with refused writes *)
Definition refdict_f (gs : list fgroup) : refd := snd (run_ref (db0, []) gs).

Lemma SFR_group_fst : forall ops w d m,
  fst (group_ref w d m ops) = fst (fst (exec_group_g append_f digest w d ops)).
Proof.
  induction ops as [|o ops IH]; intros w d m; cbn; [reflexivity|].
  destruct (exec_g append_f digest w d o) as [[d1 [rep|]] w1]; [|reflexivity].
  rewrite IH. destruct (exec_group_g append_f digest w1 d1 ops) as [[d2 rs] w2]. reflexivity.
Qed.

Lemma SFR_run_fst : forall gs s,
  fst (run_ref s gs) = run_f digest (fst s) gs.
Proof.
  induction gs as [|g gs IH]; intros s; [reflexivity|].
  change (run_ref s (g :: gs)) with (run_ref (group_ref (fst g) (fst s) (snd s) (snd g)) gs).
  rewrite IH, SFR_group_fst. reflexivity.
Qed.

Definition J (s : db * refd) : Prop :=
  Idb (fst s) /\ Istore digest (fst s) /\ Rf digest (fst s) (snd s).

Lemma SFR_step : forall w d m o d1 orep w1,
  J (d, m) -> plain_op o -> exec_g append_f digest w d o = (d1, orep, w1) ->
  J (d1, match orep with Some _ => ref_step m o | None => m end).
Proof.
  intros w d m o d1 orep w1 (HI & HS & HR) Ho E. cbn [fst snd] in *.
  destruct (SF_exec_cases digest _ _ _ _ _ _ HI Ho E)
    as [(rep & -> & X)|(-> & S & G & W & P & Xt)].
  - pose proof (SP_exec_Idb digest d o HI Ho) as [A _].
    pose proof (SP_exec digest d o HS) as B.
    pose proof (SP_exec_Rf digest d o m HI Ho HR) as C.
    rewrite X in A, B, C. cbn [fst] in A, B, C. split; [|split]; cbn [fst snd]; assumption.
  - split; [|split]; cbn [fst snd].
    + unfold Idb. eapply SP_Icat_ext; eauto.
    + eapply SP_same_store; [exact S| |exact HS]. intros e. now rewrite P.
    + eapply SP_Rf_ext; eauto.
Qed.

Lemma SFR_group : forall ops w d m,
  J (d, m) -> Forall plain_op ops -> J (group_ref w d m ops).
Proof.
  induction ops as [|o ops IH]; intros w d m HJ Hp; cbn; [exact HJ|].
  inversion Hp as [|? ? Ho Hops]; subst.
  destruct (exec_g append_f digest w d o) as [[d1 orep] w1] eqn:E.
  pose proof (SFR_step _ _ _ _ _ _ _ HJ Ho E) as H1.
  destruct orep as [rep|]; [apply IH; assumption|exact H1].
Qed.

Theorem SFR_run : forall gs s, J s -> Forall plain_group gs -> J (run_ref s gs).
Proof.
  induction gs as [|g gs IH]; intros s HJ Hp; [exact HJ|].
  inversion Hp as [|? ? Hg Hgs]; subst.
  change (run_ref s (g :: gs)) with (run_ref (group_ref (fst g) (fst s) (snd s) (snd g)) gs).
  apply IH; [|exact Hgs]. destruct s as [d m]. apply SFR_group; assumption.
Qed.

Lemma SFR_J0 : J (db0, []).
Proof. split; [apply SP_Idb0|split; [apply SP_init|apply SP_Rf0]]. Qed.

Theorem SFR_load_ref : forall gs r tn id,
  Forall plain_group gs -> plain tn -> plain_id id ->
  let d := run_f digest db0 gs in
  let m := refdict_f gs in
  let rep := snd (load1 d r tn id) in
  (forall c, rget (tn, id, r) m = Some c -> rep = RLoaded (Some c)) /\
  (rget (tn, id, r) m = None ->
   forall r' c, rget (tn, id, r') m = Some c ->
     (forall r'' c'', rget (tn, id, r'') m = Some c'' -> (r'' <= r')%Z) ->
     rep = RLoaded (Some c)) /\
  ((forall r', rget (tn, id, r') m = None) -> rep = RLoaded None).
Proof.
  intros gs r tn id Hp Htn Hid d m rep.
  pose proof (SFR_run gs _ SFR_J0 Hp) as (HI & HS & HR).
  rewrite SFR_run_fst in HI, HS, HR. cbn [fst] in HI, HS, HR.
  exact (SFR_load_ref_gen _ _ r tn id HI HS HR Htn Hid).
Qed.

(* what the dictionary holds was recorded by an update that was REACHED and
   answered: with nothing armed it is the dictionary of C06 *)
Lemma SFR_group_ref_0 : forall ops d m,
  snd (group_ref 0 d m ops) = fold_left ref_step ops m.
Proof.
  induction ops as [|o ops IH]; intros d m; cbn; [reflexivity|].
  rewrite SF_exec_0. apply IH.
Qed.

Theorem SFR_refdict_0 : forall gss,
  refdict_f (map (fun ops => (0, ops)) gss) = refdict (concat gss).
Proof.
  intros gss. unfold refdict_f, refdict. generalize db0. generalize (@nil (rkey * Z)).
  induction gss as [|ops gss IH]; intros m d; [reflexivity|].
  change (run_ref (d, m) (map (fun ops => (0, ops)) (ops :: gss)))
    with (run_ref (group_ref 0 d m ops) (map (fun ops => (0, ops)) gss)).
  destruct (group_ref 0 d m ops) as [d1 m1] eqn:G.
  rewrite IH. cbn [concat]. rewrite fold_left_app.
  pose proof (SFR_group_ref_0 ops d m) as H. rewrite G in H. cbn in H. now rewrite H.
Qed.

End Ref.
