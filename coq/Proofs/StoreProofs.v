(* Proofs/StoreProofs.v -- invariants of the content-addressed store (C07)
   for every operation history and every crash point. *)
From Coq Require Import List Arith ZArith Bool Lia.
From DV Require Import Model.Catalogue Model.Store Proofs.CatalogueProofs.
Import ListNotations.

(* ---- catalogue operations never touch the prime table -------------------- *)
Lemma SP_prime_set_tab : forall c x t i, prime (set_tab c x t i) = prime c.
Proof. intros c x t i; destruct x; reflexivity. Qed.

Lemma SP_prime_cat_append : forall c x n p v,
  prime (fst (cat_append c x n p v)) = prime c.
Proof.
  intros c x n p v. unfold cat_append.
  destruct (append n (tb c x) (ix c x) p v) as [[[t i] id] nm]. cbn [fst].
  apply SP_prime_set_tab.
Qed.

Lemma SP_prime_to_key : forall c r tn id, prime (fst (to_key c r tn id)) = prime c.
Proof.
  intros c r tn id. unfold to_key.
  destruct (cat_append c Ttarget tn None None) as [c1 trg] eqn:E1.
  destruct (cat_append c1 Ttask (d_task id) None None) as [c2 tid] eqn:E2.
  destruct (cat_append c2 Talg (d_alg id) (Some tid) (Some (d_aver id))) as [c3 aid] eqn:E3.
  destruct (cat_append c3 Tstate (d_sv id) (Some aid) (Some (d_sver id))) as [c4 sid] eqn:E4.
  destruct (cat_append c4 Tvalue (d_vn id) (Some sid) (Some (d_vver id))) as [c5 vid] eqn:E5.
  cbn [fst].
  pose proof (SP_prime_cat_append c Ttarget tn None None) as H1. rewrite E1 in H1.
  pose proof (SP_prime_cat_append c1 Ttask (d_task id) None None) as H2. rewrite E2 in H2.
  pose proof (SP_prime_cat_append c2 Talg (d_alg id) (Some tid) (Some (d_aver id))) as H3.
  rewrite E3 in H3.
  pose proof (SP_prime_cat_append c3 Tstate (d_sv id) (Some aid) (Some (d_sver id))) as H4.
  rewrite E4 in H4.
  pose proof (SP_prime_cat_append c4 Tvalue (d_vn id) (Some sid) (Some (d_vver id))) as H5.
  rewrite E5 in H5. cbn [fst] in *. congruence.
Qed.

Lemma SP_prime_register : forall c id, prime (register c id) = prime c.
Proof.
  intros c id. unfold register.
  destruct (cat_append c Ttask (d_task id) None None) as [c2 tid] eqn:E2.
  destruct (cat_append c2 Talg (d_alg id) (Some tid) (Some (d_aver id))) as [c3 aid] eqn:E3.
  destruct (cat_append c3 Tstate (d_sv id) (Some aid) (Some (d_sver id))) as [c4 sid] eqn:E4.
  destruct (cat_append c4 Tvalue (d_vn id) (Some sid) (Some (d_vver id))) as [c5 vid] eqn:E5.
  pose proof (SP_prime_cat_append c Ttask (d_task id) None None) as H2. rewrite E2 in H2.
  pose proof (SP_prime_cat_append c2 Talg (d_alg id) (Some tid) (Some (d_aver id))) as H3.
  rewrite E3 in H3.
  pose proof (SP_prime_cat_append c3 Tstate (d_sv id) (Some aid) (Some (d_sver id))) as H4.
  rewrite E4 in H4.
  pose proof (SP_prime_cat_append c4 Tvalue (d_vn id) (Some sid) (Some (d_vver id))) as H5.
  rewrite E5 in H5. cbn [fst] in *. congruence.
Qed.

(* ---- pdel / pset membership ---------------------------------------------- *)
Lemma SP_pdel_sub : forall k p e, In e (pdel k p) -> In e p.
Proof.
  intros k p e. induction p as [|[k' b'] p IH]; cbn; [tauto|].
  destruct (pkey_eqb k k'); cbn; intuition.
Qed.

Lemma SP_pset_in : forall k b p e, In e (pset k b p) -> e = (k, b) \/ In e p.
Proof.
  intros k b p e. induction p as [|[k' b'] p IH]; cbn.
  - intuition.
  - destruct (pkey_eqb k k'); cbn; intuition.
Qed.

Lemma SP_fold_sub : forall (A : Type) (f : ptbl -> A -> ptbl) l,
  (forall p x e, In e (f p x) -> In e p) ->
  forall p e, In e (fold_left f l p) -> In e p.
Proof.
  intros A f l Hf. induction l as [|x l IH]; cbn; [auto|].
  intros p e H. apply IH in H. eapply Hf; eauto.
Qed.

Lemma SP_remove_sub : forall c r tn taskn algn svn vn c' e,
  remove c r tn taskn algn svn vn = Some c' -> In e (prime c') -> In e (prime c).
Proof.
  intros c r tn taskn algn svn vn c' e H. unfold remove in H.
  destruct (alookup tn (t_target c)) as [tnid|]; [|discriminate].
  destruct (alookup taskn (t_task c)) as [tskid|]; [|discriminate].
  injection H as <-. cbn [prime set_prime].
  apply SP_fold_sub. intros p a e0. apply SP_fold_sub. intros p0 s e1.
  apply SP_fold_sub. intros p1 v e2. apply SP_pdel_sub.
Qed.

(* ---- store lookups --------------------------------------------------------- *)
Lemma SP_slookup_in : forall b s c, slookup b s = Some c -> In (b, c) s.
Proof.
  intros b s c. induction s as [|[b' c'] s IH]; cbn; [discriminate|].
  destruct (Z.eqb_spec b b').
  - intros [= ->]. subst. now left.
  - intros H. right. auto.
Qed.

Lemma SP_smem_in : forall b s, smem b s = true <-> In b (map fst s).
Proof.
  intros b s. unfold smem. induction s as [|[b' c'] s IH]; cbn.
  - split; [discriminate|tauto].
  - destruct (Z.eqb_spec b b').
    + subst. split; auto.
    + rewrite IH. split; [auto|]. intros [H|H]; [congruence|auto].
Qed.

Lemma SP_smem_app : forall b s1 s2, smem b (s1 ++ s2) = smem b s1 || smem b s2.
Proof.
  intros b s1 s2. apply eq_true_iff_eq. rewrite orb_true_iff, !SP_smem_in, map_app, in_app_iff.
  tauto.
Qed.

Section WithDigest.
Variable digest : Z -> Z.

(* ---- the invariants of C07 ------------------------------------------------- *)
Definition named (d : db) : Prop :=
  forall b c, In (b, c) (store d) -> b = digest c.
Definition single (d : db) : Prop := NoDup (map fst (store d)).
Definition nodangle (d : db) : Prop :=
  forall k b, In (k, b) (prime (dcat d)) -> In b (map fst (store d)).

Definition Istore (d : db) : Prop := named d /\ single d /\ nodangle d.

Lemma SP_init : Istore db0.
Proof.
  split; [|split].
  - intros b c H. destruct H.
  - constructor.
  - intros k b H. destruct H.
Qed.

(* a state that only differs in catalogue tables / staging *)
Lemma SP_same_store : forall d d',
  store d' = store d -> (forall e, In e (prime (dcat d')) -> In e (prime (dcat d))) ->
  Istore d -> Istore d'.
Proof.
  intros d d' Hs Hp (Hn & Hsi & Hd). repeat split.
  - intros b c. rewrite Hs. apply Hn.
  - unfold single. rewrite Hs. exact Hsi.
  - intros k b Hin. rewrite Hs. eapply Hd. apply Hp. exact Hin.
Qed.

Lemma SP_nodup_snoc : forall (A : Type) (l : list A) x,
  NoDup l -> ~ In x l -> NoDup (l ++ [x]).
Proof.
  intros A l x Hnd Hx. induction Hnd as [|y l Hy Hnd IH]; cbn.
  - constructor; [tauto|constructor].
  - constructor.
    + rewrite in_app_iff. cbn. intros [H|[H|[]]]; [tauto|]. subst. apply Hx. now left.
    + apply IH. intros H. apply Hx. now right.
Qed.

Lemma SP_move : forall c d, Istore d ->
  Istore (st_move digest c d) /\ In (digest c) (map fst (store (st_move digest c d))).
Proof.
  intros c d (Hn & Hsi & Hd). unfold st_move.
  destruct (smem (digest c) (store d)) eqn:E.
  - split.
    + split; [|split]; [intros b c0 Hin; cbn in Hin; auto | exact Hsi
                        | intros k b Hin; cbn in *; eapply Hd; eauto].
    + cbn. now apply SP_smem_in.
  - assert (~ In (digest c) (map fst (store d))) as Hnot.
    { rewrite <- SP_smem_in. congruence. }
    split.
    + split; [|split].
      * intros b c0 Hin. cbn in Hin. apply in_app_iff in Hin as [Hin|[Hin|[]]]; [auto|].
        injection Hin as <- <-. reflexivity.
      * unfold single. cbn. rewrite map_app. cbn. now apply SP_nodup_snoc.
      * intros k b Hin. cbn in *. rewrite map_app, in_app_iff. left. eapply Hd; eauto.
    + cbn. rewrite map_app, in_app_iff. right. now left.
Qed.

Lemma SP_record : forall k c d, Istore d -> In (digest c) (map fst (store d)) ->
  Istore (st_record digest k c d).
Proof.
  intros k c d (Hn & Hsi & Hd) Hin.
  split; [|split]; [intros b c0 H; cbn in H; auto | exact Hsi |].
  intros k' b Hp. unfold st_record in Hp. cbn in Hp. cbn.
  apply SP_pset_in in Hp as [Hp|Hp].
  - injection Hp as -> ->. exact Hin.
  - eapply Hd; eauto.
Qed.

Lemma SP_stage_only : forall d g, Istore d -> Istore (mkdb (dcat d) (store d) g).
Proof. intros d g H. eapply SP_same_store; [| |exact H]; cbn; auto. Qed.

(* every prefix of the six steps preserves the invariant: every crash point *)
Lemma SP_steps : forall n k c d, Istore d -> Istore (run_steps n (upd_steps digest k c) d).
Proof.
  intros n k c d H. unfold run_steps, upd_steps.
  assert (H1 : Istore (st_mkstemp d)) by (apply SP_stage_only; exact H).
  assert (H2 : Istore (st_dump c (st_mkstemp d))) by (apply SP_stage_only; exact H1).
  destruct (SP_move c (st_dump c (st_mkstemp d)) H2) as [H5 Hin].
  assert (H6 : Istore (st_record digest k c (st_move digest c (st_dump c (st_mkstemp d)))))
    by (apply SP_record; assumption).
  destruct n as [n|]; [|cbn; exact H6].
  destruct n as [|[|[|[|[|[|n]]]]]]; cbn; unfold st_sum; try assumption.
  destruct n; cbn; exact H6.
Qed.

Lemma SP_update1 : forall d r tn id c steps,
  Istore d -> Istore (fst (update1 digest d r tn id c steps)).
Proof.
  intros d r tn id c steps H. unfold update1.
  destruct (to_key (dcat d) r tn id) as [c1 k] eqn:E. cbn [fst].
  apply SP_steps. eapply SP_same_store; [| |exact H]; cbn; [reflexivity|].
  intros e. pose proof (SP_prime_to_key (dcat d) r tn id) as Hp. rewrite E in Hp.
  cbn in Hp. rewrite Hp. auto.
Qed.

Lemma SP_exec : forall d o, Istore d -> Istore (fst (exec digest d o)).
Proof.
  intros d o H. destruct o; cbn [exec].
  - cbn [fst]. eapply SP_same_store; [| |exact H]; cbn; [reflexivity|].
    intros e. rewrite SP_prime_cat_append. auto.
  - cbn [fst]. eapply SP_same_store; [| |exact H]; cbn; [reflexivity|].
    intros e. rewrite SP_prime_register. auto.
  - apply SP_update1. exact H.
  - unfold load1. destruct (to_key (dcat d) r tn id) as [c1 k] eqn:E. cbn [fst].
    eapply SP_same_store; [| |exact H]; cbn; [reflexivity|].
    intros e. pose proof (SP_prime_to_key (dcat d) r tn id) as Hp. rewrite E in Hp.
    cbn in Hp. rewrite Hp. auto.
  - destruct (remove (dcat d) r tn task alg sv vn) as [c'|] eqn:E; cbn [fst]; [|exact H].
    eapply SP_same_store; [| |exact H]; cbn; [reflexivity|].
    intros e. eapply SP_remove_sub; eauto.
  - cbn [fst]. eapply SP_same_store; [| |exact H]; cbn; auto.
  - exact H.
  - exact H.
  - exact H.
  - exact H.
Qed.

Theorem SP_run : forall ops d, Istore d -> Istore (run digest d ops).
Proof.
  induction ops as [|o ops IH]; intros d H; cbn; [exact H|].
  apply IH. apply SP_exec. exact H.
Qed.

(* ---- novelty flag ------------------------------------------------------------ *)
Lemma SP_store_to_key_steps : forall d r tn id c,
  update1 digest d r tn id c None
  = (fst (update1 digest d r tn id c None), RNew (negb (smem (digest c) (store d)))).
Proof.
  intros. unfold update1. destruct (to_key (dcat d) r tn id) as [c1 k]. cbn. reflexivity.
Qed.

Lemma SP_isnew_digest : forall d r tn id c d' b,
  update1 digest d r tn id c None = (d', RNew b) ->
  (b = true <-> ~ In (digest c) (map fst (store d))).
Proof.
  intros d r tn id c d' b H. rewrite SP_store_to_key_steps in H. injection H as _ <-.
  rewrite negb_true_iff, <- SP_smem_in. destruct (smem (digest c) (store d)); split; congruence.
Qed.

Lemma SP_isnew_content : forall d r tn id c d' b,
  named d ->
  (forall c', In c' (map snd (store d)) -> digest c' = digest c -> c' = c) ->
  update1 digest d r tn id c None = (d', RNew b) ->
  (b = true <-> ~ In c (map snd (store d))).
Proof.
  intros d r tn id c d' b Hn Hinj H. rewrite (SP_isnew_digest _ _ _ _ _ _ _ H).
  split; intros Hnot Hin; apply Hnot.
  - apply in_map_iff in Hin as [[b0 c0] [Hc Hin]]. cbn in Hc. subst c0.
    apply in_map_iff. exists (b0, c). split; [|exact Hin]. cbn. apply (Hn _ _ Hin).
  - apply in_map_iff in Hin as [[b0 c0] [Hb Hin]]. cbn in Hb. subst b0.
    pose proof (Hn _ _ Hin) as Hd.
    assert (c0 = c) as ->.
    { apply Hinj; [|congruence]. apply in_map_iff. exists (digest c, c0). auto. }
    apply in_map_iff. exists (digest c, c). auto.
Qed.

(* identical content a second time: store unchanged, staged file unlinked *)
Lemma SP_second_copy : forall d r tn id c,
  In (digest c) (map fst (store d)) ->
  store (fst (update1 digest d r tn id c None)) = store d /\
  stage (fst (update1 digest d r tn id c None)) = stage d.
Proof.
  intros d r tn id c Hin. unfold update1.
  destruct (to_key (dcat d) r tn id) as [c1 k]. cbn.
  unfold st_move, st_sum. cbn.
  apply SP_smem_in in Hin. rewrite Hin. cbn. split; [reflexivity|].
  rewrite !removelast_last. reflexivity.
Qed.

(* new content: exactly one file is added, named by the digest *)
Lemma SP_first_copy : forall d r tn id c,
  ~ In (digest c) (map fst (store d)) ->
  store (fst (update1 digest d r tn id c None)) = store d ++ [(digest c, c)] /\
  stage (fst (update1 digest d r tn id c None)) = stage d.
Proof.
  intros d r tn id c Hin. unfold update1.
  destruct (to_key (dcat d) r tn id) as [c1 k]. cbn.
  unfold st_move, st_sum. cbn.
  rewrite <- SP_smem_in in Hin. apply not_true_is_false in Hin. rewrite Hin. cbn.
  split; [reflexivity|]. rewrite !removelast_last. reflexivity.
Qed.

End WithDigest.

(* ===== catalogue invariant over histories (C08, C06) ========================== *)

Definition plain_id (id : ident) : Prop :=
  plain (d_task id) /\ plain (d_alg id) /\ plain (d_sv id) /\ plain (d_vn id).

Definition plain_op (o : op) : Prop :=
  match o with
  | OAdd tn => plain tn
  | OReg id => plain_id id
  | OUpd _ tn id _ _ => plain tn /\ plain_id id
  | OLoad _ tn id => plain tn /\ plain_id id
  | ORemove _ _ _ alg sv vn => plain alg /\ plain sv /\ plain vn
  | _ => True
  end.

(* key resolves to the identity (every name, every version) *)
Definition resolves (c : cat) (key : pkey) (tn : name) (id : ident) : Prop :=
  let '(_, t, k, a, s, v) := key in
  nth_error (ix c Ttarget) t = Some tn /\
  nth_error (ix c Ttask) k = Some (d_task id) /\
  nth_error (ix c Talg) a = Some (construct (d_alg id) (Some k) (Some (d_aver id))) /\
  nth_error (ix c Tstate) s = Some (construct (d_sv id) (Some a) (Some (d_sver id))) /\
  nth_error (ix c Tvalue) v = Some (construct (d_vn id) (Some s) (Some (d_vver id))).

Lemma SP_resolves_ext : forall c c' key tn id,
  ext c c' -> resolves c key tn id -> resolves c' key tn id.
Proof.
  intros c c' [[[[[r t] k] a] s] v] tn id H (H1 & H2 & H3 & H4 & H5).
  repeat split; eapply CP_ext_nth; eauto.
Qed.

Lemma SP_resolves_chained : forall c key tn id, resolves c key tn id -> chained c key.
Proof.
  intros c [[[[[r t] k] a] s] v] tn id (H1 & H2 & H3 & H4 & H5). repeat split.
  - apply nth_error_Some. congruence.
  - apply nth_error_Some. congruence.
  - eauto.
  - eauto.
  - eauto.
Qed.

Lemma SP_resolves_names : forall c key tn id, resolves c key tn id ->
  has_names c key tn (d_task id) (d_alg id) (d_sv id) (d_vn id).
Proof.
  intros c [[[[[r t] k] a] s] v] tn id (H1 & H2 & H3 & H4 & H5). repeat split; eauto.
Qed.

(* distinct identities never share a key; one identity has one key *)
Lemma SP_resolves_inj : forall c key key' tn tn' id id',
  resolves c key tn id -> resolves c key' tn' id' -> pk_tail key = pk_tail key' ->
  tn = tn' /\ id = id'.
Proof.
  intros c [[[[[r t] k] a] s] v] [[[[[r' t'] k'] a'] s'] v'] tn tn' id id'
         (H1 & H2 & H3 & H4 & H5) (G1 & G2 & G3 & G4 & G5) E.
  cbn in E. injection E as -> -> -> -> ->.
  rewrite H1 in G1. rewrite H2 in G2. rewrite H3 in G3. rewrite H4 in G4. rewrite H5 in G5.
  injection G1 as ->. injection G2 as E2. injection G3 as E3. injection G4 as E4.
  injection G5 as E5.
  apply CP_construct_inj in E3, E4, E5.
  destruct E3 as (E3 & _ & E3'), E4 as (E4 & _ & E4'), E5 as (E5 & _ & E5').
  split; [reflexivity|]. destruct id, id'. cbn in *. congruence.
Qed.

Lemma SP_resolves_fun : forall c key key' tn id, Iwf c ->
  resolves c key tn id -> resolves c key' tn id -> pk_tail key = pk_tail key'.
Proof.
  intros c [[[[[r t] k] a] s] v] [[[[[r' t'] k'] a'] s'] v'] tn id Hw
         (H1 & H2 & H3 & H4 & H5) (G1 & G2 & G3 & G4 & G5).
  assert (forall x, NoDup (ix c x)) as Hnd by (intros x; apply (Hw x)).
  assert (t = t') as <- by (eapply CP_nth_inj; eauto).
  assert (k = k') as <- by (eapply CP_nth_inj; eauto).
  assert (a = a') as <- by (eapply CP_nth_inj; eauto).
  assert (s = s') as <- by (eapply CP_nth_inj; eauto).
  assert (v = v') as <- by (eapply CP_nth_inj; eauto).
  reflexivity.
Qed.

Lemma SP_to_key : forall c r tn id c' key,
  Iwf c -> plain tn -> plain_id id -> to_key c r tn id = (c', key) ->
  Iwf c' /\ prime c' = prime c /\ ext c c' /\ pk_run key = r /\ resolves c' key tn id.
Proof.
  intros c r tn id c' key Hw Htn (Hp1 & Hp2 & Hp3 & Hp4) H. unfold to_key in H.
  destruct (cat_append c Ttarget tn None None) as [c1 trg] eqn:E1.
  destruct (cat_append c1 Ttask (d_task id) None None) as [c2 tid] eqn:E2.
  destruct (cat_append c2 Talg (d_alg id) (Some tid) (Some (d_aver id))) as [c3 aid] eqn:E3.
  destruct (cat_append c3 Tstate (d_sv id) (Some aid) (Some (d_sver id))) as [c4 sid] eqn:E4.
  destruct (cat_append c4 Tvalue (d_vn id) (Some sid) (Some (d_vver id))) as [c5 vid] eqn:E5.
  injection H as <- <-.
  apply CP_cat_append in E1; [|exact Hw|split; [exact Htn|auto]].
  destruct E1 as (W1 & P1 & X1 & N1 & _ & _).
  apply CP_cat_append in E2; [|exact W1|split; [exact Hp1|auto]].
  destruct E2 as (W2 & P2 & X2 & N2 & _ & _).
  apply CP_cat_append in E3; [|exact W2|split; [exact Hp2|eauto]].
  destruct E3 as (W3 & P3 & X3 & N3 & _ & _).
  apply CP_cat_append in E4; [|exact W3|split; [exact Hp3|eauto]].
  destruct E4 as (W4 & P4 & X4 & N4 & _ & _).
  apply CP_cat_append in E5; [|exact W4|split; [exact Hp4|eauto]].
  destruct E5 as (W5 & P5 & X5 & N5 & _ & _).
  split; [exact W5|]. split; [congruence|].
  assert (X25 : ext c2 c5) by (eapply CP_ext_trans; [exact X3|]; eapply CP_ext_trans; eauto).
  assert (X15 : ext c1 c5) by (eapply CP_ext_trans; eauto).
  split; [eapply CP_ext_trans; eauto|]. split; [reflexivity|].
  cbn [resolves]. repeat split.
  - eapply CP_ext_nth; [exact X15|exact N1].
  - eapply CP_ext_nth; [exact X25|exact N2].
  - eapply CP_ext_nth; [|exact N3]. eapply CP_ext_trans; eauto.
  - eapply CP_ext_nth; [exact X5|exact N4].
  - exact N5.
Qed.

Lemma SP_register : forall c id, Iwf c -> plain_id id ->
  Iwf (register c id) /\ prime (register c id) = prime c /\ ext c (register c id).
Proof.
  intros c id Hw (Hp1 & Hp2 & Hp3 & Hp4). unfold register.
  destruct (cat_append c Ttask (d_task id) None None) as [c2 tid] eqn:E2.
  destruct (cat_append c2 Talg (d_alg id) (Some tid) (Some (d_aver id))) as [c3 aid] eqn:E3.
  destruct (cat_append c3 Tstate (d_sv id) (Some aid) (Some (d_sver id))) as [c4 sid] eqn:E4.
  destruct (cat_append c4 Tvalue (d_vn id) (Some sid) (Some (d_vver id))) as [c5 vid] eqn:E5.
  apply CP_cat_append in E2; [|exact Hw|split; [exact Hp1|auto]].
  destruct E2 as (W2 & P2 & X2 & _).
  apply CP_cat_append in E3; [|exact W2|split; [exact Hp2|eauto]].
  destruct E3 as (W3 & P3 & X3 & _).
  apply CP_cat_append in E4; [|exact W3|split; [exact Hp3|eauto]].
  destruct E4 as (W4 & P4 & X4 & _).
  apply CP_cat_append in E5; [|exact W4|split; [exact Hp4|eauto]].
  destruct E5 as (W5 & P5 & X5 & _).
  split; [exact W5|]. split; [congruence|].
  eapply CP_ext_trans; [exact X2|]. eapply CP_ext_trans; [exact X3|].
  eapply CP_ext_trans; eauto.
Qed.

Lemma SP_pset_spec : forall k b p, NoDup (map fst p) ->
  NoDup (map fst (pset k b p)) /\
  forall e, In e (pset k b p) <-> e = (k, b) \/ (In e p /\ fst e <> k).
Proof.
  intros k b p. induction p as [|[k' b'] p IH]; cbn; intros Hnd.
  - split; [constructor; [tauto|constructor]|]. intros e. intuition.
  - inversion Hnd as [|? ? Hk Hnd']; subst. destruct (IH Hnd') as [IH1 IH2].
    destruct (pkey_eqb k k') eqn:E.
    + apply CP_pkey_eqb_eq in E. subst k'. split; [cbn; constructor; assumption|].
      intros [k0 b0]. cbn. split.
      * intros [[= <- <-]|Hin]; [now left|]. right. split; [now right|].
        intros ->. apply Hk. apply in_map_iff. exists (k, b0). auto.
      * intros [[= -> ->]|[[[= <- <-]|Hin] Hne]]; [now left|congruence|now right].
    + assert (k <> k') as Hne
        by (intros ->; rewrite (proj2 (CP_pkey_eqb_eq k' k') eq_refl) in E; discriminate).
      split.
      * cbn. constructor; [|exact IH1]. intros Hin. apply in_map_iff in Hin.
        destruct Hin as [[k0 b0] [Hk0 Hin]]. cbn in Hk0. subst k0.
        apply IH2 in Hin. destruct Hin as [[= -> ->]|[Hin _]]; [congruence|].
        apply Hk. apply in_map_iff. exists (k', b0). auto.
      * intros e. cbn. rewrite IH2. split.
        -- intros [<-|[H|[H1 H2]]]; [right; split; [now left|cbn; congruence]|now left|].
           right. split; [now right|exact H2].
        -- intros [->|[[<-|H1] H2]]; [right; now left|now left|right; right; auto].
Qed.

Definition Idb (d : db) : Prop := Icat (dcat d).

Lemma SP_Icat_ext : forall c c', Icat c -> Iwf c' -> ext c c' -> prime c' = prime c -> Icat c'.
Proof.
  intros c c' (Hw & Hnd & Hch) Hw' Hx Hp. split; [exact Hw'|]. rewrite Hp. split; [exact Hnd|].
  intros k b Hin. eapply CP_chained_ext; eauto.
Qed.

Lemma SP_reopen_same : forall c, Iwf c -> reopen c = c.
Proof.
  intros c Hw. unfold reopen.
  pose proof (CP_indexed _ _ (proj1 (Hw Ttarget))) as H1.
  pose proof (CP_indexed _ _ (proj1 (Hw Ttask))) as H2.
  pose proof (CP_indexed _ _ (proj1 (Hw Talg))) as H3.
  pose proof (CP_indexed _ _ (proj1 (Hw Tstate))) as H4.
  pose proof (CP_indexed _ _ (proj1 (Hw Tvalue))) as H5.
  cbn [ix tb] in *. rewrite H1, H2, H3, H4, H5. destruct c; reflexivity.
Qed.

Section History.
Variable digest : Z -> Z.

Lemma SP_steps_cat : forall n k c d,
  let d' := run_steps n (upd_steps digest k c) d in
  (forall x, tb (dcat d') x = tb (dcat d) x /\ ix (dcat d') x = ix (dcat d) x) /\
  (prime (dcat d') = prime (dcat d) \/ prime (dcat d') = pset k (digest c) (prime (dcat d))).
Proof.
  intros n k c d. unfold run_steps, upd_steps.
  assert (F : forall x, tb (dcat (st_record digest k c (st_move digest c (st_dump c (st_mkstemp d))))) x
                        = tb (dcat d) x /\
                        ix (dcat (st_record digest k c (st_move digest c (st_dump c (st_mkstemp d))))) x
                        = ix (dcat d) x).
  { intros x. unfold st_record, st_move. cbn.
    destruct (smem (digest c) (store d)); cbn; destruct x; auto. }
  assert (M : dcat (st_move digest c (st_dump c (st_mkstemp d))) = dcat d).
  { unfold st_move. cbn. destruct (smem (digest c) (store d)); reflexivity. }
  assert (R : prime (dcat (st_record digest k c (st_move digest c (st_dump c (st_mkstemp d)))))
              = pset k (digest c) (prime (dcat d))).
  { unfold st_record. cbn [dcat prime set_prime]. now rewrite M. }
  destruct n as [n|]; [|cbn; split; [exact F|right; exact R]].
  destruct n as [|[|[|[|[|[|n]]]]]]; cbn; unfold st_sum;
    try (split; [intros x; auto|left; reflexivity]);
    try (rewrite M; split; [intros x; auto|left; reflexivity]).
  destruct n; cbn; (split; [exact F|right; exact R]).
Qed.

Lemma SP_exec_Idb : forall d o, Idb d -> plain_op o ->
  Idb (fst (exec digest d o)) /\ ext (dcat d) (dcat (fst (exec digest d o))).
Proof.
  intros d o HI Hp. pose proof HI as (Hw & Hnd & Hch). destruct o; cbn [exec plain_op] in *.
  - destruct (cat_append (dcat d) Ttarget tn None None) as [c1 trg] eqn:E. cbn [fst].
    apply CP_cat_append in E; [|exact Hw|split; auto]. destruct E as (W & P & X & _).
    split; [|exact X]. unfold Idb. cbn. eapply SP_Icat_ext; eauto.
  - destruct (SP_register (dcat d) id Hw Hp) as (W & P & X). cbn [fst].
    split; [|exact X]. unfold Idb. cbn. eapply SP_Icat_ext; eauto.
  - destruct Hp as [Htn Hid]. unfold update1.
    destruct (to_key (dcat d) r tn id) as [c1 k] eqn:E. cbn [fst].
    destruct (SP_to_key _ _ _ _ _ _ Hw Htn Hid E) as (W & P & X & Hr & Hres).
    set (d1 := mkdb c1 (store d) (stage d)).
    destruct (SP_steps_cat steps k c d1) as [HT HP].
    set (d2 := run_steps steps (upd_steps digest k c) d1) in *.
    assert (X2 : ext (dcat d) (dcat d2)).
    { intros y. destruct (HT y) as [_ ->]. cbn. apply X. }
    split; [|exact X2].
    assert (W2 : Iwf (dcat d2)).
    { intros y. destruct (HT y) as [-> ->]. cbn. apply W. }
    assert (X12 : ext c1 (dcat d2)).
    { intros y. destruct (HT y) as [_ ->]. cbn. exists []. now rewrite app_nil_r. }
    destruct HP as [HP|HP].
    + unfold Idb. eapply SP_Icat_ext; eauto. rewrite HP. cbn. exact P.
    + split; [exact W2|]. rewrite HP. cbn [d1 dcat]. rewrite P.
      destruct (SP_pset_spec k (digest c) (prime (dcat d)) Hnd) as [N1 N2].
      split; [exact N1|]. intros k0 b0 Hin. apply N2 in Hin.
      destruct Hin as [[= -> ->]|[Hin _]].
      * eapply CP_chained_ext; [exact X12|]. eapply SP_resolves_chained; eauto.
      * eapply CP_chained_ext; [exact X2|]. eauto.
  - destruct Hp as [Htn Hid]. unfold load1.
    destruct (to_key (dcat d) r tn id) as [c1 k] eqn:E. cbn [fst].
    destruct (SP_to_key _ _ _ _ _ _ Hw Htn Hid E) as (W & P & X & Hr & Hres).
    split; [|exact X]. unfold Idb. cbn. eapply SP_Icat_ext; eauto.
  - destruct Hp as (Ha & Hs & Hv).
    destruct (remove (dcat d) r tn task alg sv vn) as [c'|] eqn:E; cbn [fst];
      [|split; [exact HI|apply CP_ext_refl]].
    destruct (CP_remove_exact _ _ _ _ _ _ _ _ HI Ha Hs Hv E) as (HT & N & Hin).
    assert (X : ext (dcat d) c').
    { intros y. destruct (HT y) as [_ ->]. exists []. now rewrite app_nil_r. }
    split; [|exact X]. unfold Idb. cbn. split; [|split; [exact N|]].
    + intros y. destruct (HT y) as [-> ->]. apply Hw.
    + intros k b Hk. apply Hin in Hk. destruct Hk as [Hk _].
      eapply CP_chained_ext; [exact X|]. eauto.
  - cbn [fst]. unfold Idb. cbn. rewrite SP_reopen_same by exact Hw.
    split; [exact HI|apply CP_ext_refl].
  - split; [exact HI|apply CP_ext_refl].
  - split; [exact HI|apply CP_ext_refl].
  - split; [exact HI|apply CP_ext_refl].
  - split; [exact HI|apply CP_ext_refl].
Qed.

Theorem SP_run_Idb : forall ops d, Idb d -> Forall plain_op ops ->
  Idb (run digest d ops) /\ ext (dcat d) (dcat (run digest d ops)).
Proof.
  induction ops as [|o ops IH]; intros d HI Hp; cbn.
  - split; [exact HI|apply CP_ext_refl].
  - inversion Hp as [|? ? Ho Hops]; subst.
    destruct (SP_exec_Idb d o HI Ho) as [H1 X1].
    destruct (IH _ H1 Hops) as [H2 X2]. split; [exact H2|]. eapply CP_ext_trans; eauto.
Qed.

Lemma SP_Idb0 : Idb db0.
Proof. exact CP_Icat0. Qed.

End History.
