(* Proofs/StoreProofs.v -- invariants of the content-addressed store (C07)
   for every operation history and every crash point. *)
From Coq Require Import List Arith ZArith Bool Lia.
From DV Require Import Model.Catalogue Model.Store Proofs.CatalogueProofs.
Import ListNotations.

(* ---- catalogue operations never touch the prime table -------------------- *)
Lemma SP_prime_set_tab : forall c x t i, prime (set_tab c x t i) = prime c.
Proof. intros c x t i; destruct x; reflexivity. Qed.

Lemma SP_prime_cat_append : forall c x n p v,
  prime (fst (cat_append c x n p v)) = prime c.
Proof.
  intros c x n p v. unfold cat_append.
  destruct (append n (tb c x) (ix c x) p v) as [[[t i] id] nm]. cbn [fst].
  apply SP_prime_set_tab.
Qed.

Lemma SP_prime_to_key : forall c r tn id, prime (fst (to_key c r tn id)) = prime c.
Proof.
  intros c r tn id. unfold to_key.
  destruct (cat_append c Ttarget tn None None) as [c1 trg] eqn:E1.
  destruct (cat_append c1 Ttask (d_task id) None None) as [c2 tid] eqn:E2.
  destruct (cat_append c2 Talg (d_alg id) (Some tid) (Some (d_aver id))) as [c3 aid] eqn:E3.
  destruct (cat_append c3 Tstate (d_sv id) (Some aid) (Some (d_sver id))) as [c4 sid] eqn:E4.
  destruct (cat_append c4 Tvalue (d_vn id) (Some sid) (Some (d_vver id))) as [c5 vid] eqn:E5.
  cbn [fst].
  pose proof (SP_prime_cat_append c Ttarget tn None None) as H1. rewrite E1 in H1.
  pose proof (SP_prime_cat_append c1 Ttask (d_task id) None None) as H2. rewrite E2 in H2.
  pose proof (SP_prime_cat_append c2 Talg (d_alg id) (Some tid) (Some (d_aver id))) as H3.
  rewrite E3 in H3.
  pose proof (SP_prime_cat_append c3 Tstate (d_sv id) (Some aid) (Some (d_sver id))) as H4.
  rewrite E4 in H4.
  pose proof (SP_prime_cat_append c4 Tvalue (d_vn id) (Some sid) (Some (d_vver id))) as H5.
  rewrite E5 in H5. cbn [fst] in *. congruence.
Qed.

Lemma SP_prime_register : forall c id, prime (register c id) = prime c.
Proof.
  intros c id. unfold register.
  destruct (cat_append c Ttask (d_task id) None None) as [c2 tid] eqn:E2.
  destruct (cat_append c2 Talg (d_alg id) (Some tid) (Some (d_aver id))) as [c3 aid] eqn:E3.
  destruct (cat_append c3 Tstate (d_sv id) (Some aid) (Some (d_sver id))) as [c4 sid] eqn:E4.
  destruct (cat_append c4 Tvalue (d_vn id) (Some sid) (Some (d_vver id))) as [c5 vid] eqn:E5.
  pose proof (SP_prime_cat_append c Ttask (d_task id) None None) as H2. rewrite E2 in H2.
  pose proof (SP_prime_cat_append c2 Talg (d_alg id) (Some tid) (Some (d_aver id))) as H3.
  rewrite E3 in H3.
  pose proof (SP_prime_cat_append c3 Tstate (d_sv id) (Some aid) (Some (d_sver id))) as H4.
  rewrite E4 in H4.
  pose proof (SP_prime_cat_append c4 Tvalue (d_vn id) (Some sid) (Some (d_vver id))) as H5.
  rewrite E5 in H5. cbn [fst] in *. congruence.
Qed.

(* ---- pdel / pset membership ---------------------------------------------- *)
Lemma SP_pdel_sub : forall k p e, In e (pdel k p) -> In e p.
Proof.
  intros k p e. induction p as [|[k' b'] p IH]; cbn; [tauto|].
  destruct (pkey_eqb k k'); cbn; intuition.
Qed.

Lemma SP_pset_in : forall k b p e, In e (pset k b p) -> e = (k, b) \/ In e p.
Proof.
  intros k b p e. induction p as [|[k' b'] p IH]; cbn.
  - intuition.
  - destruct (pkey_eqb k k'); cbn; intuition.
Qed.

Lemma SP_fold_sub : forall (A : Type) (f : ptbl -> A -> ptbl) l,
  (forall p x e, In e (f p x) -> In e p) ->
  forall p e, In e (fold_left f l p) -> In e p.
Proof.
  intros A f l Hf. induction l as [|x l IH]; cbn; [auto|].
  intros p e H. apply IH in H. eapply Hf; eauto.
Qed.

Lemma SP_remove_sub : forall c r tn taskn algn svn vn c' e,
  remove c r tn taskn algn svn vn = Some c' -> In e (prime c') -> In e (prime c).
Proof.
  intros c r tn taskn algn svn vn c' e H. unfold remove in H.
  destruct (alookup tn (t_target c)) as [tnid|]; [|discriminate].
  destruct (alookup taskn (t_task c)) as [tskid|]; [|discriminate].
  injection H as <-. cbn [prime set_prime].
  apply SP_fold_sub. intros p a e0. apply SP_fold_sub. intros p0 s e1.
  apply SP_fold_sub. intros p1 v e2. apply SP_pdel_sub.
Qed.

(* ---- store lookups --------------------------------------------------------- *)
Lemma SP_slookup_in : forall b s c, slookup b s = Some c -> In (b, c) s.
Proof.
  intros b s c. induction s as [|[b' c'] s IH]; cbn; [discriminate|].
  destruct (Z.eqb_spec b b').
  - intros [= ->]. subst. now left.
  - intros H. right. auto.
Qed.

Lemma SP_smem_in : forall b s, smem b s = true <-> In b (map fst s).
Proof.
  intros b s. unfold smem. induction s as [|[b' c'] s IH]; cbn.
  - split; [discriminate|tauto].
  - destruct (Z.eqb_spec b b').
    + subst. split; auto.
    + rewrite IH. split; [auto|]. intros [H|H]; [congruence|auto].
Qed.

Lemma SP_smem_app : forall b s1 s2, smem b (s1 ++ s2) = smem b s1 || smem b s2.
Proof.
  intros b s1 s2. apply eq_true_iff_eq. rewrite orb_true_iff, !SP_smem_in, map_app, in_app_iff.
  tauto.
Qed.

Section WithDigest.
Variable digest : Z -> Z.

(* ---- the invariants of C07 ------------------------------------------------- *)
Definition named (d : db) : Prop :=
  forall b c, In (b, c) (store d) -> b = digest c.
Definition single (d : db) : Prop := NoDup (map fst (store d)).
Definition nodangle (d : db) : Prop :=
  forall k b, In (k, b) (prime (dcat d)) -> In b (map fst (store d)).

Definition Istore (d : db) : Prop := named d /\ single d /\ nodangle d.

Lemma SP_init : Istore db0.
Proof.
  split; [|split].
  - intros b c H. destruct H.
  - constructor.
  - intros k b H. destruct H.
Qed.

(* a state that only differs in catalogue tables / staging *)
Lemma SP_same_store : forall d d',
  store d' = store d -> (forall e, In e (prime (dcat d')) -> In e (prime (dcat d))) ->
  Istore d -> Istore d'.
Proof.
  intros d d' Hs Hp (Hn & Hsi & Hd). repeat split.
  - intros b c. rewrite Hs. apply Hn.
  - unfold single. rewrite Hs. exact Hsi.
  - intros k b Hin. rewrite Hs. eapply Hd. apply Hp. exact Hin.
Qed.

Lemma SP_nodup_snoc : forall (A : Type) (l : list A) x,
  NoDup l -> ~ In x l -> NoDup (l ++ [x]).
Proof.
  intros A l x Hnd Hx. induction Hnd as [|y l Hy Hnd IH]; cbn.
  - constructor; [tauto|constructor].
  - constructor.
    + rewrite in_app_iff. cbn. intros [H|[H|[]]]; [tauto|]. subst. apply Hx. now left.
    + apply IH. intros H. apply Hx. now right.
Qed.

Lemma SP_move : forall c d, Istore d ->
  Istore (st_move digest c d) /\ In (digest c) (map fst (store (st_move digest c d))).
Proof.
  intros c d (Hn & Hsi & Hd). unfold st_move.
  destruct (smem (digest c) (store d)) eqn:E.
  - split.
    + split; [|split]; [intros b c0 Hin; cbn in Hin; auto | exact Hsi
                        | intros k b Hin; cbn in *; eapply Hd; eauto].
    + cbn. now apply SP_smem_in.
  - assert (~ In (digest c) (map fst (store d))) as Hnot.
    { rewrite <- SP_smem_in. congruence. }
    split.
    + split; [|split].
      * intros b c0 Hin. cbn in Hin. apply in_app_iff in Hin as [Hin|[Hin|[]]]; [auto|].
        injection Hin as <- <-. reflexivity.
      * unfold single. cbn. rewrite map_app. cbn. now apply SP_nodup_snoc.
      * intros k b Hin. cbn in *. rewrite map_app, in_app_iff. left. eapply Hd; eauto.
    + cbn. rewrite map_app, in_app_iff. right. now left.
Qed.

Lemma SP_record : forall k c d, Istore d -> In (digest c) (map fst (store d)) ->
  Istore (st_record digest k c d).
Proof.
  intros k c d (Hn & Hsi & Hd) Hin.
  split; [|split]; [intros b c0 H; cbn in H; auto | exact Hsi |].
  intros k' b Hp. unfold st_record in Hp. cbn in Hp. cbn.
  apply SP_pset_in in Hp as [Hp|Hp].
  - injection Hp as -> ->. exact Hin.
  - eapply Hd; eauto.
Qed.

Lemma SP_stage_only : forall d g, Istore d -> Istore (mkdb (dcat d) (store d) g).
Proof. intros d g H. eapply SP_same_store; [| |exact H]; cbn; auto. Qed.

(* every prefix of the six steps preserves the invariant: every crash point *)
Lemma SP_steps : forall n k c d, Istore d -> Istore (run_steps n (upd_steps digest k c) d).
Proof.
  intros n k c d H. unfold run_steps, upd_steps.
  assert (H1 : Istore (st_mkstemp d)) by (apply SP_stage_only; exact H).
  assert (H2 : Istore (st_dump c (st_mkstemp d))) by (apply SP_stage_only; exact H1).
  destruct (SP_move c (st_dump c (st_mkstemp d)) H2) as [H5 Hin].
  assert (H6 : Istore (st_record digest k c (st_move digest c (st_dump c (st_mkstemp d)))))
    by (apply SP_record; assumption).
  destruct n as [n|]; [|cbn; exact H6].
  destruct n as [|[|[|[|[|[|n]]]]]]; cbn; unfold st_sum; try assumption.
  destruct n; cbn; exact H6.
Qed.

Lemma SP_update1 : forall d r tn id c steps,
  Istore d -> Istore (fst (update1 digest d r tn id c steps)).
Proof.
  intros d r tn id c steps H. unfold update1.
  destruct (to_key (dcat d) r tn id) as [c1 k] eqn:E. cbn [fst].
  apply SP_steps. eapply SP_same_store; [| |exact H]; cbn; [reflexivity|].
  intros e. pose proof (SP_prime_to_key (dcat d) r tn id) as Hp. rewrite E in Hp.
  cbn in Hp. rewrite Hp. auto.
Qed.

Lemma SP_exec : forall d o, Istore d -> Istore (fst (exec digest d o)).
Proof.
  intros d o H. destruct o; cbn [exec].
  - cbn [fst]. eapply SP_same_store; [| |exact H]; cbn; [reflexivity|].
    intros e. rewrite SP_prime_cat_append. auto.
  - cbn [fst]. eapply SP_same_store; [| |exact H]; cbn; [reflexivity|].
    intros e. rewrite SP_prime_register. auto.
  - apply SP_update1. exact H.
  - unfold load1. destruct (to_key (dcat d) r tn id) as [c1 k] eqn:E. cbn [fst].
    eapply SP_same_store; [| |exact H]; cbn; [reflexivity|].
    intros e. pose proof (SP_prime_to_key (dcat d) r tn id) as Hp. rewrite E in Hp.
    cbn in Hp. rewrite Hp. auto.
  - destruct (remove (dcat d) r tn task alg sv vn) as [c'|] eqn:E; cbn [fst]; [|exact H].
    eapply SP_same_store; [| |exact H]; cbn; [reflexivity|].
    intros e. eapply SP_remove_sub; eauto.
  - cbn [fst]. eapply SP_same_store; [| |exact H]; cbn; auto.
  - exact H.
  - exact H.
  - exact H.
  - exact H.
Qed.

Theorem SP_run : forall ops d, Istore d -> Istore (run digest d ops).
Proof.
  induction ops as [|o ops IH]; intros d H; cbn; [exact H|].
  apply IH. apply SP_exec. exact H.
Qed.

(* ---- novelty flag ------------------------------------------------------------ *)
Lemma SP_store_to_key_steps : forall d r tn id c,
  update1 digest d r tn id c None
  = (fst (update1 digest d r tn id c None), RNew (negb (smem (digest c) (store d)))).
Proof.
  intros. unfold update1. destruct (to_key (dcat d) r tn id) as [c1 k]. cbn. reflexivity.
Qed.

Lemma SP_isnew_digest : forall d r tn id c d' b,
  update1 digest d r tn id c None = (d', RNew b) ->
  (b = true <-> ~ In (digest c) (map fst (store d))).
Proof.
  intros d r tn id c d' b H. rewrite SP_store_to_key_steps in H. injection H as _ <-.
  rewrite negb_true_iff, <- SP_smem_in. destruct (smem (digest c) (store d)); split; congruence.
Qed.

Lemma SP_isnew_content : forall d r tn id c d' b,
  named d ->
  (forall c', In c' (map snd (store d)) -> digest c' = digest c -> c' = c) ->
  update1 digest d r tn id c None = (d', RNew b) ->
  (b = true <-> ~ In c (map snd (store d))).
Proof.
  intros d r tn id c d' b Hn Hinj H. rewrite (SP_isnew_digest _ _ _ _ _ _ _ H).
  split; intros Hnot Hin; apply Hnot.
  - apply in_map_iff in Hin as [[b0 c0] [Hc Hin]]. cbn in Hc. subst c0.
    apply in_map_iff. exists (b0, c). split; [|exact Hin]. cbn. apply (Hn _ _ Hin).
  - apply in_map_iff in Hin as [[b0 c0] [Hb Hin]]. cbn in Hb. subst b0.
    pose proof (Hn _ _ Hin) as Hd.
    assert (c0 = c) as ->.
    { apply Hinj; [|congruence]. apply in_map_iff. exists (digest c, c0). auto. }
    apply in_map_iff. exists (digest c, c). auto.
Qed.

(* identical content a second time: store unchanged, staged file unlinked *)
Lemma SP_second_copy : forall d r tn id c,
  In (digest c) (map fst (store d)) ->
  store (fst (update1 digest d r tn id c None)) = store d /\
  stage (fst (update1 digest d r tn id c None)) = stage d.
Proof.
  intros d r tn id c Hin. unfold update1.
  destruct (to_key (dcat d) r tn id) as [c1 k]. cbn.
  unfold st_move, st_sum. cbn.
  apply SP_smem_in in Hin. rewrite Hin. cbn. split; [reflexivity|].
  rewrite !removelast_last. reflexivity.
Qed.

(* new content: exactly one file is added, named by the digest *)
Lemma SP_first_copy : forall d r tn id c,
  ~ In (digest c) (map fst (store d)) ->
  store (fst (update1 digest d r tn id c None)) = store d ++ [(digest c, c)] /\
  stage (fst (update1 digest d r tn id c None)) = stage d.
Proof.
  intros d r tn id c Hin. unfold update1.
  destruct (to_key (dcat d) r tn id) as [c1 k]. cbn.
  unfold st_move, st_sum. cbn.
  rewrite <- SP_smem_in in Hin. apply not_true_is_false in Hin. rewrite Hin. cbn.
  split; [reflexivity|]. rewrite !removelast_last. reflexivity.
Qed.

End WithDigest.

(* ===== catalogue invariant over histories (C08, C06) ========================== *)

Definition plain_id (id : ident) : Prop :=
  plain (d_task id) /\ plain (d_alg id) /\ plain (d_sv id) /\ plain (d_vn id).

Definition plain_op (o : op) : Prop :=
  match o with
  | OAdd tn => plain tn
  | OReg id => plain_id id
  | OUpd _ tn id _ _ => plain tn /\ plain_id id
  | OLoad _ tn id => plain tn /\ plain_id id
  | ORemove _ _ _ alg sv vn => plain alg /\ plain sv /\ plain vn
  | _ => True
  end.

(* key resolves to the identity (every name, every version) *)
Definition resolves (c : cat) (key : pkey) (tn : name) (id : ident) : Prop :=
  let '(_, t, k, a, s, v) := key in
  nth_error (ix c Ttarget) t = Some tn /\
  nth_error (ix c Ttask) k = Some (d_task id) /\
  nth_error (ix c Talg) a = Some (construct (d_alg id) (Some k) (Some (d_aver id))) /\
  nth_error (ix c Tstate) s = Some (construct (d_sv id) (Some a) (Some (d_sver id))) /\
  nth_error (ix c Tvalue) v = Some (construct (d_vn id) (Some s) (Some (d_vver id))).

Lemma SP_resolves_ext : forall c c' key tn id,
  ext c c' -> resolves c key tn id -> resolves c' key tn id.
Proof.
  intros c c' [[[[[r t] k] a] s] v] tn id H (H1 & H2 & H3 & H4 & H5).
  repeat split; eapply CP_ext_nth; eauto.
Qed.

Lemma SP_resolves_chained : forall c key tn id, resolves c key tn id -> chained c key.
Proof.
  intros c [[[[[r t] k] a] s] v] tn id (H1 & H2 & H3 & H4 & H5). repeat split.
  - apply nth_error_Some. congruence.
  - apply nth_error_Some. congruence.
  - eauto.
  - eauto.
  - eauto.
Qed.

Lemma SP_resolves_names : forall c key tn id, resolves c key tn id ->
  has_names c key tn (d_task id) (d_alg id) (d_sv id) (d_vn id).
Proof.
  intros c [[[[[r t] k] a] s] v] tn id (H1 & H2 & H3 & H4 & H5). repeat split; eauto.
Qed.

(* distinct identities never share a key; one identity has one key *)
Lemma SP_resolves_inj : forall c key key' tn tn' id id',
  resolves c key tn id -> resolves c key' tn' id' -> pk_tail key = pk_tail key' ->
  tn = tn' /\ id = id'.
Proof.
  intros c [[[[[r t] k] a] s] v] [[[[[r' t'] k'] a'] s'] v'] tn tn' id id'
         (H1 & H2 & H3 & H4 & H5) (G1 & G2 & G3 & G4 & G5) E.
  cbn in E. injection E as -> -> -> -> ->.
  rewrite H1 in G1. rewrite H2 in G2. rewrite H3 in G3. rewrite H4 in G4. rewrite H5 in G5.
  injection G1 as ->. injection G2 as E2. injection G3 as E3. injection G4 as E4.
  injection G5 as E5.
  apply CP_construct_inj in E3, E4, E5.
  destruct E3 as (E3 & _ & E3'), E4 as (E4 & _ & E4'), E5 as (E5 & _ & E5').
  split; [reflexivity|]. destruct id, id'. cbn in *. congruence.
Qed.

Lemma SP_resolves_fun : forall c key key' tn id, Iwf c ->
  resolves c key tn id -> resolves c key' tn id -> pk_tail key = pk_tail key'.
Proof.
  intros c [[[[[r t] k] a] s] v] [[[[[r' t'] k'] a'] s'] v'] tn id Hw
         (H1 & H2 & H3 & H4 & H5) (G1 & G2 & G3 & G4 & G5).
  assert (forall x, NoDup (ix c x)) as Hnd by (intros x; apply (Hw x)).
  assert (t = t') as <- by (eapply CP_nth_inj; eauto).
  assert (k = k') as <- by (eapply CP_nth_inj; eauto).
  assert (a = a') as <- by (eapply CP_nth_inj; eauto).
  assert (s = s') as <- by (eapply CP_nth_inj; eauto).
  assert (v = v') as <- by (eapply CP_nth_inj; eauto).
  reflexivity.
Qed.

Lemma SP_to_key : forall c r tn id c' key,
  Iwf c -> plain tn -> plain_id id -> to_key c r tn id = (c', key) ->
  Iwf c' /\ prime c' = prime c /\ ext c c' /\ pk_run key = r /\ resolves c' key tn id.
Proof.
  intros c r tn id c' key Hw Htn (Hp1 & Hp2 & Hp3 & Hp4) H. unfold to_key in H.
  destruct (cat_append c Ttarget tn None None) as [c1 trg] eqn:E1.
  destruct (cat_append c1 Ttask (d_task id) None None) as [c2 tid] eqn:E2.
  destruct (cat_append c2 Talg (d_alg id) (Some tid) (Some (d_aver id))) as [c3 aid] eqn:E3.
  destruct (cat_append c3 Tstate (d_sv id) (Some aid) (Some (d_sver id))) as [c4 sid] eqn:E4.
  destruct (cat_append c4 Tvalue (d_vn id) (Some sid) (Some (d_vver id))) as [c5 vid] eqn:E5.
  injection H as <- <-.
  apply CP_cat_append in E1; [|exact Hw|split; [exact Htn|auto]].
  destruct E1 as (W1 & P1 & X1 & N1 & _ & _).
  apply CP_cat_append in E2; [|exact W1|split; [exact Hp1|auto]].
  destruct E2 as (W2 & P2 & X2 & N2 & _ & _).
  apply CP_cat_append in E3; [|exact W2|split; [exact Hp2|eauto]].
  destruct E3 as (W3 & P3 & X3 & N3 & _ & _).
  apply CP_cat_append in E4; [|exact W3|split; [exact Hp3|eauto]].
  destruct E4 as (W4 & P4 & X4 & N4 & _ & _).
  apply CP_cat_append in E5; [|exact W4|split; [exact Hp4|eauto]].
  destruct E5 as (W5 & P5 & X5 & N5 & _ & _).
  split; [exact W5|]. split; [congruence|].
  assert (X25 : ext c2 c5) by (eapply CP_ext_trans; [exact X3|]; eapply CP_ext_trans; eauto).
  assert (X15 : ext c1 c5) by (eapply CP_ext_trans; eauto).
  split; [eapply CP_ext_trans; eauto|]. split; [reflexivity|].
  cbn [resolves]. repeat split.
  - eapply CP_ext_nth; [exact X15|exact N1].
  - eapply CP_ext_nth; [exact X25|exact N2].
  - eapply CP_ext_nth; [|exact N3]. eapply CP_ext_trans; eauto.
  - eapply CP_ext_nth; [exact X5|exact N4].
  - exact N5.
Qed.

Lemma SP_register : forall c id, Iwf c -> plain_id id ->
  Iwf (register c id) /\ prime (register c id) = prime c /\ ext c (register c id).
Proof.
  intros c id Hw (Hp1 & Hp2 & Hp3 & Hp4). unfold register.
  destruct (cat_append c Ttask (d_task id) None None) as [c2 tid] eqn:E2.
  destruct (cat_append c2 Talg (d_alg id) (Some tid) (Some (d_aver id))) as [c3 aid] eqn:E3.
  destruct (cat_append c3 Tstate (d_sv id) (Some aid) (Some (d_sver id))) as [c4 sid] eqn:E4.
  destruct (cat_append c4 Tvalue (d_vn id) (Some sid) (Some (d_vver id))) as [c5 vid] eqn:E5.
  apply CP_cat_append in E2; [|exact Hw|split; [exact Hp1|auto]].
  destruct E2 as (W2 & P2 & X2 & _).
  apply CP_cat_append in E3; [|exact W2|split; [exact Hp2|eauto]].
  destruct E3 as (W3 & P3 & X3 & _).
  apply CP_cat_append in E4; [|exact W3|split; [exact Hp3|eauto]].
  destruct E4 as (W4 & P4 & X4 & _).
  apply CP_cat_append in E5; [|exact W4|split; [exact Hp4|eauto]].
  destruct E5 as (W5 & P5 & X5 & _).
  split; [exact W5|]. split; [congruence|].
  eapply CP_ext_trans; [exact X2|]. eapply CP_ext_trans; [exact X3|].
  eapply CP_ext_trans; eauto.
Qed.

Lemma SP_pset_spec : forall k b p, NoDup (map fst p) ->
  NoDup (map fst (pset k b p)) /\
  forall e, In e (pset k b p) <-> e = (k, b) \/ (In e p /\ fst e <> k).
Proof.
  intros k b p. induction p as [|[k' b'] p IH]; cbn; intros Hnd.
  - split; [constructor; [tauto|constructor]|]. intros e. intuition.
  - inversion Hnd as [|? ? Hk Hnd']; subst. destruct (IH Hnd') as [IH1 IH2].
    destruct (pkey_eqb k k') eqn:E.
    + apply CP_pkey_eqb_eq in E. subst k'. split; [cbn; constructor; assumption|].
      intros [k0 b0]. cbn. split.
      * intros [[= <- <-]|Hin]; [now left|]. right. split; [now right|].
        intros ->. apply Hk. apply in_map_iff. exists (k, b0). auto.
      * intros [[= -> ->]|[[[= <- <-]|Hin] Hne]]; [now left|congruence|now right].
    + assert (k <> k') as Hne
        by (intros ->; rewrite (proj2 (CP_pkey_eqb_eq k' k') eq_refl) in E; discriminate).
      split.
      * cbn. constructor; [|exact IH1]. intros Hin. apply in_map_iff in Hin.
        destruct Hin as [[k0 b0] [Hk0 Hin]]. cbn in Hk0. subst k0.
        apply IH2 in Hin. destruct Hin as [[= -> ->]|[Hin _]]; [congruence|].
        apply Hk. apply in_map_iff. exists (k', b0). auto.
      * intros e. cbn. rewrite IH2. split.
        -- intros [<-|[H|[H1 H2]]]; [right; split; [now left|cbn; congruence]|now left|].
           right. split; [now right|exact H2].
        -- intros [->|[[<-|H1] H2]]; [right; now left|now left|right; right; auto].
Qed.

Definition Idb (d : db) : Prop := Icat (dcat d).

Lemma SP_Icat_ext : forall c c', Icat c -> Iwf c' -> ext c c' -> prime c' = prime c -> Icat c'.
Proof.
  intros c c' (Hw & Hnd & Hch) Hw' Hx Hp. split; [exact Hw'|]. rewrite Hp. split; [exact Hnd|].
  intros k b Hin. eapply CP_chained_ext; eauto.
Qed.

Lemma SP_reopen_same : forall c, Iwf c -> reopen c = c.
Proof.
  intros c Hw. unfold reopen.
  pose proof (CP_indexed _ _ (proj1 (Hw Ttarget))) as H1.
  pose proof (CP_indexed _ _ (proj1 (Hw Ttask))) as H2.
  pose proof (CP_indexed _ _ (proj1 (Hw Talg))) as H3.
  pose proof (CP_indexed _ _ (proj1 (Hw Tstate))) as H4.
  pose proof (CP_indexed _ _ (proj1 (Hw Tvalue))) as H5.
  cbn [ix tb] in *. rewrite H1, H2, H3, H4, H5. destruct c; reflexivity.
Qed.

Section History.
Variable digest : Z -> Z.

Lemma SP_steps_cat : forall n k c d,
  let d' := run_steps n (upd_steps digest k c) d in
  (forall x, tb (dcat d') x = tb (dcat d) x /\ ix (dcat d') x = ix (dcat d) x) /\
  (prime (dcat d') = prime (dcat d) \/ prime (dcat d') = pset k (digest c) (prime (dcat d))).
Proof.
  intros n k c d. unfold run_steps, upd_steps.
  assert (F : forall x, tb (dcat (st_record digest k c (st_move digest c (st_dump c (st_mkstemp d))))) x
                        = tb (dcat d) x /\
                        ix (dcat (st_record digest k c (st_move digest c (st_dump c (st_mkstemp d))))) x
                        = ix (dcat d) x).
  { intros x. unfold st_record, st_move. cbn.
    destruct (smem (digest c) (store d)); cbn; destruct x; auto. }
  assert (M : dcat (st_move digest c (st_dump c (st_mkstemp d))) = dcat d).
  { unfold st_move. cbn. destruct (smem (digest c) (store d)); reflexivity. }
  assert (R : prime (dcat (st_record digest k c (st_move digest c (st_dump c (st_mkstemp d)))))
              = pset k (digest c) (prime (dcat d))).
  { unfold st_record. cbn [dcat prime set_prime]. now rewrite M. }
  destruct n as [n|]; [|cbn; split; [exact F|right; exact R]].
  destruct n as [|[|[|[|[|[|n]]]]]]; cbn; unfold st_sum;
    try (split; [intros x; auto|left; reflexivity]);
    try (rewrite M; split; [intros x; auto|left; reflexivity]).
  destruct n; cbn; (split; [exact F|right; exact R]).
Qed.

Lemma SP_exec_Idb : forall d o, Idb d -> plain_op o ->
  Idb (fst (exec digest d o)) /\ ext (dcat d) (dcat (fst (exec digest d o))).
Proof.
  intros d o HI Hp. pose proof HI as (Hw & Hnd & Hch). destruct o; cbn [exec plain_op] in *.
  - destruct (cat_append (dcat d) Ttarget tn None None) as [c1 trg] eqn:E. cbn [fst].
    apply CP_cat_append in E; [|exact Hw|split; auto]. destruct E as (W & P & X & _).
    split; [|exact X]. unfold Idb. cbn. eapply SP_Icat_ext; eauto.
  - destruct (SP_register (dcat d) id Hw Hp) as (W & P & X). cbn [fst].
    split; [|exact X]. unfold Idb. cbn. eapply SP_Icat_ext; eauto.
  - destruct Hp as [Htn Hid]. unfold update1.
    destruct (to_key (dcat d) r tn id) as [c1 k] eqn:E. cbn [fst].
    destruct (SP_to_key _ _ _ _ _ _ Hw Htn Hid E) as (W & P & X & Hr & Hres).
    set (d1 := mkdb c1 (store d) (stage d)).
    destruct (SP_steps_cat steps k c d1) as [HT HP].
    set (d2 := run_steps steps (upd_steps digest k c) d1) in *.
    assert (X2 : ext (dcat d) (dcat d2)).
    { intros y. destruct (HT y) as [_ ->]. cbn. apply X. }
    split; [|exact X2].
    assert (W2 : Iwf (dcat d2)).
    { intros y. destruct (HT y) as [-> ->]. cbn. apply W. }
    assert (X12 : ext c1 (dcat d2)).
    { intros y. destruct (HT y) as [_ ->]. cbn. exists []. now rewrite app_nil_r. }
    destruct HP as [HP|HP].
    + unfold Idb. eapply SP_Icat_ext; eauto. rewrite HP. cbn. exact P.
    + split; [exact W2|]. rewrite HP. cbn [d1 dcat]. rewrite P.
      destruct (SP_pset_spec k (digest c) (prime (dcat d)) Hnd) as [N1 N2].
      split; [exact N1|]. intros k0 b0 Hin. apply N2 in Hin.
      destruct Hin as [[= -> ->]|[Hin _]].
      * eapply CP_chained_ext; [exact X12|]. eapply SP_resolves_chained; eauto.
      * eapply CP_chained_ext; [exact X2|]. eauto.
  - destruct Hp as [Htn Hid]. unfold load1.
    destruct (to_key (dcat d) r tn id) as [c1 k] eqn:E. cbn [fst].
    destruct (SP_to_key _ _ _ _ _ _ Hw Htn Hid E) as (W & P & X & Hr & Hres).
    split; [|exact X]. unfold Idb. cbn. eapply SP_Icat_ext; eauto.
  - destruct Hp as (Ha & Hs & Hv).
    destruct (remove (dcat d) r tn task alg sv vn) as [c'|] eqn:E; cbn [fst];
      [|split; [exact HI|apply CP_ext_refl]].
    destruct (CP_remove_exact _ _ _ _ _ _ _ _ HI Ha Hs Hv E) as (HT & N & Hin).
    assert (X : ext (dcat d) c').
    { intros y. destruct (HT y) as [_ ->]. exists []. now rewrite app_nil_r. }
    split; [|exact X]. unfold Idb. cbn. split; [|split; [exact N|]].
    + intros y. destruct (HT y) as [-> ->]. apply Hw.
    + intros k b Hk. apply Hin in Hk. destruct Hk as [Hk _].
      eapply CP_chained_ext; [exact X|]. eauto.
  - cbn [fst]. unfold Idb. cbn. rewrite SP_reopen_same by exact Hw.
    split; [exact HI|apply CP_ext_refl].
  - split; [exact HI|apply CP_ext_refl].
  - split; [exact HI|apply CP_ext_refl].
  - split; [exact HI|apply CP_ext_refl].
  - split; [exact HI|apply CP_ext_refl].
Qed.

Theorem SP_run_Idb : forall ops d, Idb d -> Forall plain_op ops ->
  Idb (run digest d ops) /\ ext (dcat d) (dcat (run digest d ops)).
Proof.
  induction ops as [|o ops IH]; intros d HI Hp; cbn.
  - split; [exact HI|apply CP_ext_refl].
  - inversion Hp as [|? ? Ho Hops]; subst.
    destruct (SP_exec_Idb d o HI Ho) as [H1 X1].
    destruct (IH _ H1 Hops) as [H2 X2]. split; [exact H2|]. eapply CP_ext_trans; eauto.
Qed.

Lemma SP_Idb0 : Idb db0.
Proof. exact CP_Icat0. Qed.

End History.

(* ===== load: exact run, else highest run of the same identity (C06) =========== *)

Lemma SP_plookup_in : forall k p b, plookup k p = Some b -> In (k, b) p.
Proof.
  intros k p b. induction p as [|[k' b'] p IH]; cbn; [discriminate|].
  destruct (pkey_eqb k k') eqn:E.
  - apply CP_pkey_eqb_eq in E. subst. intros [= ->]. now left.
  - intros H. right. auto.
Qed.

Lemma SP_plookup_none : forall k p, plookup k p = None -> forall b, ~ In (k, b) p.
Proof.
  intros k p. induction p as [|[k' b'] p IH]; cbn; intros H b; [tauto|].
  destruct (pkey_eqb k k') eqn:E; [discriminate|].
  intros [[= -> ->]|Hin].
  - rewrite (proj2 (CP_pkey_eqb_eq k k) eq_refl) in E. discriminate.
  - eapply IH; eauto.
Qed.

Lemma SP_in_plookup : forall k p b, NoDup (map fst p) -> In (k, b) p -> plookup k p = Some b.
Proof.
  intros k p b. induction p as [|[k' b'] p IH]; cbn; intros Hnd Hin; [tauto|].
  inversion Hnd as [|? ? Hk Hnd']; subst.
  destruct Hin as [[= -> ->]|Hin].
  - now rewrite (proj2 (CP_pkey_eqb_eq k k) eq_refl).
  - destruct (pkey_eqb k k') eqn:E; [|auto].
    apply CP_pkey_eqb_eq in E. subst. exfalso. apply Hk. apply in_map_iff. exists (k', b). auto.
Qed.

Lemma SP_tail_eqb : forall a b, tail_eqb a b = true <-> pk_tail a = pk_tail b.
Proof.
  intros [[[[[r t] k] a] s] v] [[[[[r' t'] k'] a'] s'] v']. cbn.
  rewrite !andb_true_iff, !Nat.eqb_eq. split.
  - intros [[[[-> ->] ->] ->] ->]. reflexivity.
  - intros [= -> -> -> -> ->]. auto 10.
Qed.

(* the last element of the stable sort is a maximum *)
Section LastMax.
  Context {A : Type} (f : A -> Z).
  Let leb := fun a b : A => Z.leb (f a) (f b).

  Definition lastmax (s : list A) : Prop :=
    forall e rest, rev s = e :: rest -> In e s /\ forall y, In y s -> (f y <= f e)%Z.

  Lemma SP_sinsert_in : forall x s z, In z (sinsert leb x s) <-> z = x \/ In z s.
  Proof.
    intros x s z. induction s as [|y s IH]; cbn.
    - intuition.
    - destruct (leb x y); cbn; [intuition|]. rewrite IH. intuition.
  Qed.

  Lemma SP_lastmax_tail : forall y s, s <> [] -> lastmax (y :: s) -> lastmax s.
  Proof.
    intros y s Hne H e rest E.
    destruct (H e (rest ++ [y])) as [H1 H2].
    { cbn. rewrite E. reflexivity. }
    split.
    - destruct H1 as [->|H1]; [|exact H1].
      (* e = y is the last element of s as well *)
      assert (In e (rev s)) by (rewrite E; now left). now apply in_rev.
    - intros z Hz. apply H2. now right.
  Qed.

  Lemma SP_sinsert_lastmax : forall x s, lastmax s -> lastmax (sinsert leb x s).
  Proof.
    intros x s. induction s as [|y s IH]; intros H e rest E.
    - cbn in E. injection E as <- _. split; [now left|]. intros z [<-|[]]. lia.
    - cbn [sinsert] in *. destruct (leb x y) eqn:L.
      + (* x :: y :: s : last element unchanged *)
        assert (E' : exists rest', rev (y :: s) = e :: rest').
        { change (rev (x :: y :: s)) with (rev (y :: s) ++ [x]) in E.
          destruct (rev (y :: s)) as [|e' r'] eqn:R.
          - cbn in R. destruct (rev s); discriminate.
          - cbn in E. injection E as <- _. eauto. }
        destruct E' as [rest' E'].
        destruct (H _ _ E') as [H1 H2]. split; [now right|].
        intros z [<-|Hz]; [|auto].
        unfold leb in L. apply Z.leb_le in L. specialize (H2 y (or_introl eq_refl)). lia.
      + unfold leb in L. apply Z.leb_gt in L.
        destruct s as [|y' s'].
        * cbn in E. injection E as <- _. split; [right; now left|].
          intros z [<-|[<-|[]]]; lia.
        * assert (Hs : lastmax (y' :: s')) by (eapply SP_lastmax_tail; eauto; discriminate).
          specialize (IH Hs).
          assert (E' : exists rest', rev (sinsert leb x (y' :: s')) = e :: rest').
          { change (rev (y :: sinsert leb x (y' :: s')))
              with (rev (sinsert leb x (y' :: s')) ++ [y]) in E.
            destruct (rev (sinsert leb x (y' :: s'))) as [|e' r'] eqn:R.
            - exfalso. apply (f_equal (@length A)) in R. rewrite rev_length in R.
              assert (In x (sinsert leb x (y' :: s'))) by (apply SP_sinsert_in; now left).
              destruct (sinsert leb x (y' :: s')); [destruct H0|discriminate].
            - cbn in E. injection E as <- _. eauto. }
          destruct E' as [rest' E'].
          destruct (IH _ _ E') as [H1 H2]. split; [now right|].
          intros z [<-|Hz]; [|auto].
          assert (f x <= f e)%Z by (apply H2; apply SP_sinsert_in; now left). lia.
  Qed.

  Lemma SP_ssort_lastmax : forall l, lastmax (ssort leb l).
  Proof.
    induction l as [|x l IH]; cbn.
    - intros e rest E. discriminate.
    - now apply SP_sinsert_lastmax.
  Qed.

  Lemma SP_ssort_in : forall l z, In z (ssort leb l) <-> In z l.
  Proof.
    induction l as [|x l IH]; intros z; cbn; [tauto|].
    rewrite SP_sinsert_in, IH. intuition.
  Qed.
End LastMax.

Lemma SP_load_pick_spec : forall p pk,
  match load_pick p pk with
  | Some b =>
      In (pk, b) p \/
      (plookup pk p = None /\
       exists key, In (key, b) p /\ pk_tail key = pk_tail pk /\
                   forall key' b', In (key', b') p -> pk_tail key' = pk_tail pk ->
                                   (pk_run key' <= pk_run key)%Z)
  | None => forall key b, In (key, b) p -> pk_tail key <> pk_tail pk
  end.
Proof.
  intros p pk. unfold load_pick. destruct (plookup pk p) as [b|] eqn:E.
  - left. now apply SP_plookup_in.
  - set (spks := filter (fun e => tail_eqb (fst e) pk) p).
    pose proof (SP_ssort_lastmax (fun e : pkey * Z => pk_run (fst e)) spks) as LM.
    pose proof (SP_ssort_in (fun e : pkey * Z => pk_run (fst e)) spks) as SI.
    cbv beta in LM, SI.
    destruct (rev (ssort (fun a b => (pk_run (fst a) <=? pk_run (fst b))%Z) spks))
      as [|[key b] rest] eqn:R.
    + intros key b Hin Ht.
      assert (Hs : In (key, b) spks).
      { apply filter_In. split; [exact Hin|]. cbn. now apply SP_tail_eqb. }
      apply SI in Hs. apply in_rev in Hs. rewrite R in Hs. destruct Hs.
    + right. split; [reflexivity|]. destruct (LM _ _ R) as [H1 H2].
      apply SI in H1. apply filter_In in H1. destruct H1 as [H1 Ht]. cbn in Ht.
      apply SP_tail_eqb in Ht. exists key. split; [exact H1|]. split; [exact Ht|].
      intros key' b' Hin' Ht'.
      assert (Hs : In (key', b') spks).
      { apply filter_In. split; [exact Hin'|]. cbn. now apply SP_tail_eqb. }
      apply SI in Hs. specialize (H2 _ Hs). cbn in H2. exact H2.
Qed.

(* ===== the reference dictionary of C06 ========================================== *)

Definition ver_eqb (a b : ver) : bool :=
  let '(x, y, z) := a in let '(x', y', z') := b in
  Z.eqb x x' && Z.eqb y y' && Z.eqb z z'.

Lemma SP_ver_eqb_eq : forall a b, ver_eqb a b = true <-> a = b.
Proof.
  intros [[x y] z] [[x' y'] z']. cbn. rewrite !andb_true_iff, !Z.eqb_eq. split.
  - intros [[-> ->] ->]. reflexivity.
  - intros [= -> -> ->]. auto.
Qed.

Definition ident_eqb (a b : ident) : bool :=
  name_eqb (d_task a) (d_task b) && name_eqb (d_alg a) (d_alg b)
  && ver_eqb (d_aver a) (d_aver b) && name_eqb (d_sv a) (d_sv b)
  && ver_eqb (d_sver a) (d_sver b) && name_eqb (d_vn a) (d_vn b)
  && ver_eqb (d_vver a) (d_vver b).

Lemma SP_ident_eqb_eq : forall a b, ident_eqb a b = true <-> a = b.
Proof.
  intros [a1 a2 a3 a4 a5 a6 a7] [b1 b2 b3 b4 b5 b6 b7]. unfold ident_eqb. cbn.
  rewrite !andb_true_iff, !CP_name_eqb_eq, !SP_ver_eqb_eq. split.
  - intros [[[[[[-> ->] ->] ->] ->] ->] ->]. reflexivity.
  - intros [= -> -> -> -> -> -> ->]. auto 10.
Qed.

Definition rkey := (name * ident * Z)%type.     (* target, identity, run *)

Definition rkey_eqb (a b : rkey) : bool :=
  let '(t, i, r) := a in let '(t', i', r') := b in
  name_eqb t t' && ident_eqb i i' && Z.eqb r r'.

Lemma SP_rkey_eqb_eq : forall a b, rkey_eqb a b = true <-> a = b.
Proof.
  intros [[t i] r] [[t' i'] r']. cbn.
  rewrite !andb_true_iff, CP_name_eqb_eq, SP_ident_eqb_eq, Z.eqb_eq. split.
  - intros [[-> ->] ->]. reflexivity.
  - intros [= -> -> ->]. auto.
Qed.

Definition refd := list (rkey * Z).

Fixpoint rget (k : rkey) (m : refd) : option Z :=
  match m with
  | [] => None
  | (k', c) :: m' => if rkey_eqb k k' then Some c else rget k m'
  end.

Definition rset (k : rkey) (c : Z) (m : refd) : refd := (k, c) :: m.

(* remove(run, target, task, alg, sv, value): every version of those names *)
Definition rmatch (r : Z) (tn task alg sv vn : name) (k : rkey) : bool :=
  let '(t, i, r') := k in
  Z.eqb r r' && name_eqb t tn && name_eqb (d_task i) task && name_eqb (d_alg i) alg
  && name_eqb (d_sv i) sv && name_eqb (d_vn i) vn.

Definition rdel (r : Z) (tn task alg sv vn : name) (m : refd) : refd :=
  filter (fun e => negb (rmatch r tn task alg sv vn (fst e))) m.

Definition completed (steps : option nat) : bool :=
  match steps with None => true | Some n => Nat.leb 6 n end.

Definition ref_step (m : refd) (o : op) : refd :=
  match o with
  | OUpd r tn id c steps => if completed steps then rset (tn, id, r) c m else m
  | ORemove r tn task alg sv vn => rdel r tn task alg sv vn m
  | _ => m
  end.

Definition refdict (ops : list op) : refd := fold_left ref_step ops [].

Lemma SP_rget_rset : forall k k' c m,
  rget k (rset k' c m) = if rkey_eqb k k' then Some c else rget k m.
Proof. reflexivity. Qed.

Lemma SP_rget_rdel : forall r tn task alg sv vn k m,
  rget k (rdel r tn task alg sv vn m)
  = if rmatch r tn task alg sv vn k then None else rget k m.
Proof.
  intros r tn task alg sv vn k m. unfold rdel. induction m as [|[k' c] m IH]; cbn.
  - now destruct (rmatch r tn task alg sv vn k).
  - destruct (rmatch r tn task alg sv vn k') eqn:M'; cbn.
    + rewrite IH. destruct (rkey_eqb k k') eqn:E; [|reflexivity].
      apply SP_rkey_eqb_eq in E. subst. now rewrite M'.
    + destruct (rkey_eqb k k') eqn:E.
      * apply SP_rkey_eqb_eq in E. subst. now rewrite M'.
      * exact IH.
Qed.

Lemma SP_rmatch_spec : forall r tn task alg sv vn t i r',
  rmatch r tn task alg sv vn (t, i, r') = true
  <-> r' = r /\ t = tn /\ d_task i = task /\ d_alg i = alg /\ d_sv i = sv /\ d_vn i = vn.
Proof.
  intros. cbn. rewrite !andb_true_iff, Z.eqb_eq, !CP_name_eqb_eq. intuition.
Qed.

Section Refine.
Variable digest : Z -> Z.
Hypothesis digest_inj : forall a b, digest a = digest b -> a = b.

Definition Rf (d : db) (m : refd) : Prop :=
  (forall tn id r c, rget (tn, id, r) m = Some c ->
     exists key, resolves (dcat d) key tn id /\ pk_run key = r /\
                 In (key, digest c) (prime (dcat d))) /\
  (forall key b, In (key, b) (prime (dcat d)) ->
     exists tn id c, resolves (dcat d) key tn id /\
                     rget (tn, id, pk_run key) m = Some c /\ b = digest c).

Lemma SP_Rf_ext : forall d d' m,
  ext (dcat d) (dcat d') -> prime (dcat d') = prime (dcat d) -> Rf d m -> Rf d' m.
Proof.
  intros d d' m X P [R1 R2]. split.
  - intros tn id r c H. destruct (R1 _ _ _ _ H) as (key & H1 & H2 & H3).
    exists key. rewrite P. split; [eapply SP_resolves_ext; eauto|auto].
  - intros key b H. rewrite P in H. destruct (R2 _ _ H) as (tn & id & c & H1 & H2 & H3).
    exists tn, id, c. split; [eapply SP_resolves_ext; eauto|auto].
Qed.

Lemma SP_key_eq : forall (k k' : pkey), pk_run k = pk_run k' -> pk_tail k = pk_tail k' -> k = k'.
Proof.
  intros [[[[[r t] k] a] s] v] [[[[[r' t'] k'] a'] s'] v']. cbn. intros -> [= -> -> -> -> ->].
  reflexivity.
Qed.

Lemma SP_has_names_resolves : forall c key tn task alg sv vn tn' id,
  has_names c key tn task alg sv vn -> resolves c key tn' id ->
  tn' = tn /\ d_task id = task /\ d_alg id = alg /\ d_sv id = sv /\ d_vn id = vn.
Proof.
  intros c [[[[[r t] k] a] s] v] tn task alg sv vn tn' id
         (H1 & H2 & (av & H3) & (sv' & H4) & (vv & H5)) (G1 & G2 & G3 & G4 & G5).
  rewrite H1 in G1. rewrite H2 in G2. rewrite H3 in G3. rewrite H4 in G4. rewrite H5 in G5.
  injection G1 as <-. injection G2 as <-. injection G3 as G3. injection G4 as G4.
  injection G5 as G5. apply CP_construct_inj in G3, G4, G5.
  destruct G3 as [<- _], G4 as [<- _], G5 as [<- _]. auto.
Qed.

Lemma SP_exec_Rf : forall d o m, Idb d -> plain_op o -> Rf d m ->
  Rf (fst (exec digest d o)) (ref_step m o).
Proof.
  intros d o m HI Hp HR. pose proof HI as (Hw & Hnd & Hch).
  destruct (SP_exec_Idb digest d o HI Hp) as [HI' X].
  destruct o; cbn [ref_step]; try (eapply SP_Rf_ext; [exact X| |exact HR]).
  - cbn. now rewrite SP_prime_cat_append.
  - cbn. now rewrite SP_prime_register.
  - (* update *)
    destruct Hp as [Htn Hid]. cbn [exec] in *. unfold update1 in *.
    destruct (to_key (dcat d) r tn id) as [c1 k] eqn:E. cbn [fst] in *.
    destruct (SP_to_key _ _ _ _ _ _ Hw Htn Hid E) as (W & P & X1 & Hr & Hres).
    set (d1 := mkdb c1 (store d) (stage d)) in *.
    destruct (SP_steps_cat digest steps k c d1) as [HT HP].
    set (d2 := run_steps steps (upd_steps digest k c) d1) in *.
    assert (X12 : ext c1 (dcat d2)).
    { intros y. destruct (HT y) as [_ ->]. cbn. exists []. now rewrite app_nil_r. }
    assert (Hres2 : resolves (dcat d2) k tn id) by (eapply SP_resolves_ext; eauto).
    assert (Xd2 : ext (dcat d) (dcat d2)) by (eapply CP_ext_trans; [exact X1|exact X12]).
    assert (Hcomp : completed steps = true ->
                    prime (dcat d2) = pset k (digest c) (prime (dcat d))).
    { intros Hc. unfold d2, run_steps, upd_steps. destruct steps as [n|].
      - unfold completed in Hc. apply Nat.leb_le in Hc.
        rewrite firstn_all2 by (cbn; lia). cbn. unfold st_record, st_move, st_sum. cbn.
        destruct (smem (digest c) (store d)); cbn; now rewrite P.
      - cbn. unfold st_record, st_move, st_sum. cbn.
        destruct (smem (digest c) (store d)); cbn; now rewrite P. }
    assert (Hncomp : completed steps = false -> prime (dcat d2) = prime (dcat d)).
    { intros Hc. unfold d2, run_steps, upd_steps. destruct steps as [n|]; [|discriminate].
      unfold completed in Hc. apply Nat.leb_gt in Hc.
      destruct n as [|[|[|[|[|[|n]]]]]]; try lia; cbn; unfold st_move, st_sum; cbn;
        try (destruct (smem (digest c) (store d)); cbn); now rewrite ?P. }
    destruct (completed steps) eqn:Hc.
    + specialize (Hcomp eq_refl). clear Hncomp.
      destruct (SP_pset_spec k (digest c) (prime (dcat d)) Hnd) as [_ N2].
      destruct HR as [R1 R2]. split.
      * intros tn' id' r' c' Hg. rewrite SP_rget_rset in Hg.
        destruct (rkey_eqb (tn', id', r') (tn, id, r)) eqn:Ek.
        -- apply SP_rkey_eqb_eq in Ek. injection Ek as -> -> ->. injection Hg as <-.
           exists k. split; [exact Hres2|]. split; [exact Hr|].
           rewrite Hcomp. apply N2. now left.
        -- destruct (R1 _ _ _ _ Hg) as (key & H1 & H2 & H3).
           assert (H1' : resolves (dcat d2) key tn' id') by (eapply SP_resolves_ext; [exact Xd2|exact H1]).
           exists key. split; [exact H1'|]. split; [exact H2|].
           rewrite Hcomp. apply N2. right. split; [exact H3|]. cbn. intros ->.
           destruct (SP_resolves_inj _ _ _ _ _ _ _ H1' Hres2 eq_refl) as [-> ->].
           rewrite Hr in H2. subst r'.
           rewrite (proj2 (SP_rkey_eqb_eq (tn, id, r) (tn, id, r)) eq_refl) in Ek. discriminate.
      * intros key b Hin. rewrite Hcomp in Hin. apply N2 in Hin.
        destruct Hin as [[= -> ->]|[Hin Hne]].
        -- exists tn, id, c. split; [exact Hres2|]. split; [|reflexivity].
           rewrite SP_rget_rset, Hr.
           now rewrite (proj2 (SP_rkey_eqb_eq (tn, id, r) (tn, id, r)) eq_refl).
        -- cbn in Hne. destruct (R2 _ _ Hin) as (tn0 & id0 & c0 & H1 & H2 & H3).
           assert (H1' : resolves (dcat d2) key tn0 id0) by (eapply SP_resolves_ext; [exact Xd2|exact H1]).
           exists tn0, id0, c0. split; [exact H1'|]. split; [|exact H3].
           rewrite SP_rget_rset.
           destruct (rkey_eqb (tn0, id0, pk_run key) (tn, id, r)) eqn:Ek; [|exact H2].
           apply SP_rkey_eqb_eq in Ek. injection Ek as -> -> Ek.
           exfalso. apply Hne. apply SP_key_eq; [congruence|].
           exact (SP_resolves_fun (dcat d2) key k tn id (proj1 HI') H1' Hres2).
    + specialize (Hncomp eq_refl). eapply SP_Rf_ext; [exact Xd2|exact Hncomp|exact HR].
  - (* load *)
    cbn [exec fst]. unfold load1. destruct (to_key (dcat d) r tn id) as [c1 k] eqn:E.
    cbn. pose proof (SP_prime_to_key (dcat d) r tn id) as Hp'. rewrite E in Hp'. exact Hp'.
  - (* remove *)
    destruct Hp as (Ha & Hs & Hv). cbn [exec] in *.
    destruct (remove (dcat d) r tn task alg sv vn) as [c'|] eqn:E; cbn [fst] in *.
    + destruct (CP_remove_exact _ _ _ _ _ _ _ _ HI Ha Hs Hv E) as (HT & _ & Hin).
      destruct HR as [R1 R2]. split.
      * intros tn' id' r' c0 Hg. rewrite SP_rget_rdel in Hg.
        destruct (rmatch r tn task alg sv vn (tn', id', r')) eqn:M; [discriminate|].
        destruct (R1 _ _ _ _ Hg) as (key & H1 & H2 & H3).
        exists key. split; [eapply SP_resolves_ext; eauto|]. split; [exact H2|].
        cbn. apply Hin. split; [exact H3|]. intros [Hr Hn].
        destruct (SP_has_names_resolves _ _ _ _ _ _ _ _ _ Hn H1) as (-> & <- & <- & <- & <-).
        assert (rmatch r tn (d_task id') (d_alg id') (d_sv id') (d_vn id') (tn, id', r') = true).
        { apply SP_rmatch_spec. repeat split; congruence. }
        congruence.
      * intros key b Hk. cbn in Hk. apply Hin in Hk. destruct Hk as [Hk Hnot].
        destruct (R2 _ _ Hk) as (tn0 & id0 & c0 & H1 & H2 & H3).
        exists tn0, id0, c0. split; [eapply SP_resolves_ext; eauto|]. split; [|exact H3].
        rewrite SP_rget_rdel.
        destruct (rmatch r tn task alg sv vn (tn0, id0, pk_run key)) eqn:M; [|exact H2].
        exfalso. apply Hnot. apply SP_rmatch_spec in M.
        destruct M as (M0 & -> & <- & <- & <- & <-). split; [exact M0|].
        now apply SP_resolves_names.
    + (* KeyError: nothing stored under that target / task *)
      destruct HR as [R1 R2]. split.
      * intros tn' id' r' c0 Hg. rewrite SP_rget_rdel in Hg.
        destruct (rmatch r tn task alg sv vn (tn', id', r')); [discriminate|]. eauto.
      * intros key b Hk. destruct (R2 _ _ Hk) as (tn0 & id0 & c0 & H1 & H2 & H3).
        exists tn0, id0, c0. split; [exact H1|]. split; [|exact H3].
        rewrite SP_rget_rdel.
        destruct (rmatch r tn task alg sv vn (tn0, id0, pk_run key)) eqn:M; [|exact H2].
        exfalso. apply SP_rmatch_spec in M. destruct M as (_ & -> & <- & _).
        destruct key as [[[[[r0 t0] k0] a0] s0] v0]. destruct H1 as (G1 & G2 & _).
        destruct (Hw Ttarget) as [Hit _], (Hw Ttask) as [Hik _].
        apply (CP_lookup_index _ _ _ _ Hit) in G1. apply (CP_lookup_index _ _ _ _ Hik) in G2.
        unfold remove in E. cbn [tb] in G1, G2. rewrite G1, G2 in E. discriminate.
  - cbn. reflexivity.
  - reflexivity.
  - reflexivity.
  - reflexivity.
  - reflexivity.
Qed.

Theorem SP_run_Rf : forall ops d m, Idb d -> Forall plain_op ops -> Rf d m ->
  Rf (run digest d ops) (fold_left ref_step ops m).
Proof.
  induction ops as [|o ops IH]; intros d m HI Hp HR; cbn; [exact HR|].
  inversion Hp as [|? ? Ho Hops]; subst.
  apply IH; [apply (SP_exec_Idb digest d o HI Ho)|exact Hops|].
  apply SP_exec_Rf; assumption.
Qed.

Lemma SP_Rf0 : Rf db0 [].
Proof. split; [intros tn id r c H; discriminate|intros key b []]. Qed.

End Refine.

Section LoadRef.
Variable digest : Z -> Z.
Hypothesis digest_inj : forall a b, digest a = digest b -> a = b.

Lemma SP_blob_content : forall d key c,
  Istore digest d -> In (key, digest c) (prime (dcat d)) ->
  slookup (digest c) (store d) = Some c.
Proof.
  intros d key c (Hn & _ & Hd) Hin. specialize (Hd _ _ Hin).
  apply SP_smem_in in Hd. unfold smem in Hd.
  destruct (slookup (digest c) (store d)) as [c'|] eqn:E; [|discriminate].
  apply SP_slookup_in in E. apply Hn in E. apply digest_inj in E. now subst.
Qed.

Theorem SP_load_ref : forall ops r tn id,
  Forall plain_op ops -> plain tn -> plain_id id ->
  let d := run digest db0 ops in
  let m := refdict ops in
  let rep := snd (load1 d r tn id) in
  (forall c, rget (tn, id, r) m = Some c -> rep = RLoaded (Some c)) /\
  (rget (tn, id, r) m = None ->
   forall r' c, rget (tn, id, r') m = Some c ->
     (forall r'' c'', rget (tn, id, r'') m = Some c'' -> (r'' <= r')%Z) ->
     rep = RLoaded (Some c)) /\
  ((forall r', rget (tn, id, r') m = None) -> rep = RLoaded None).
Proof.
  intros ops r tn id Hp Htn Hid d m rep.
  destruct (SP_run_Idb digest ops db0 SP_Idb0 Hp) as [HI _]. fold d in HI.
  pose proof (SP_run digest ops db0 (SP_init digest)) as HS. fold d in HS.
  pose proof (SP_run_Rf digest ops db0 [] SP_Idb0 Hp (SP_Rf0 digest)) as HR.
  fold d in HR. change (fold_left ref_step ops []) with m in HR.
  pose proof HI as (Hw & Hnd & _).
  unfold rep, load1. destruct (to_key (dcat d) r tn id) as [c1 pk] eqn:E. cbn [snd].
  destruct (SP_to_key _ _ _ _ _ _ Hw Htn Hid E) as (W & P & X & Hr & Hres).
  set (d1 := mkdb c1 (store d) (stage d)).
  assert (HR1 : Rf digest d1 m) by (eapply SP_Rf_ext; [exact X|exact P|exact HR]).
  destruct HR1 as [R1 R2]. cbn [d1 dcat] in R1, R2.
  assert (HS1 : Istore digest d1).
  { eapply SP_same_store; [| |exact HS]; cbn; [reflexivity|]. intros e. now rewrite P. }
  assert (Hnd1 : NoDup (map fst (prime c1))) by now rewrite P.
  assert (BC : forall key c, In (key, digest c) (prime c1) ->
                             slookup (digest c) (store d) = Some c).
  { intros key c Hin. exact (SP_blob_content d1 key c HS1 Hin). }
  assert (SAME : forall key tn' id', resolves c1 key tn' id' -> pk_tail key = pk_tail pk ->
                                     tn' = tn /\ id' = id).
  { intros key tn' id' H1 Ht. eapply SP_resolves_inj; eauto. }
  pose proof (SP_load_pick_spec (prime c1) pk) as SPEC.
  split; [|split].
  - intros c Hg. destruct (R1 _ _ _ _ Hg) as (key & H1 & H2 & H3).
    assert (key = pk) as ->.
    { apply SP_key_eq; [congruence|]. eapply SP_resolves_fun; eauto. }
    unfold load_pick. rewrite (SP_in_plookup _ _ _ Hnd1 H3). now rewrite (BC _ _ H3).
  - intros Hnone r' c Hg Hmax.
    assert (Hpl : plookup pk (prime c1) = None).
    { destruct (plookup pk (prime c1)) as [b|] eqn:El; [|reflexivity].
      apply SP_plookup_in in El. destruct (R2 _ _ El) as (tn0 & id0 & c0 & G1 & G2 & _).
      destruct (SAME _ _ _ G1 eq_refl) as [-> ->]. rewrite Hr in G2. congruence. }
    destruct (R1 _ _ _ _ Hg) as (key' & H1 & H2 & H3).
    assert (Ht' : pk_tail key' = pk_tail pk) by (eapply SP_resolves_fun; eauto).
    destruct (load_pick (prime c1) pk) as [b|] eqn:EL.
    + destruct SPEC as [Hin|(_ & key & Hin & Ht & Hmx)].
      { exfalso. eapply SP_plookup_none; eauto. }
      destruct (R2 _ _ Hin) as (tn0 & id0 & c0 & G1 & G2 & ->).
      destruct (SAME _ _ _ G1 Ht) as [-> ->].
      assert (pk_run key = r') as Hrr.
      { pose proof (Hmx _ _ H3 Ht'). pose proof (Hmax _ _ G2). lia. }
      rewrite Hrr in G2. assert (c0 = c) as -> by congruence.
      now rewrite (BC _ _ Hin).
    + exfalso. exact (SPEC _ _ H3 Ht').
  - intros Hall. destruct (load_pick (prime c1) pk) as [b|] eqn:EL; [|reflexivity].
    exfalso. destruct SPEC as [Hin|(_ & key & Hin & Ht & _)].
    + destruct (R2 _ _ Hin) as (tn0 & id0 & c0 & G1 & G2 & _).
      destruct (SAME _ _ _ G1 eq_refl) as [-> ->]. rewrite Hall in G2. discriminate.
    + destruct (R2 _ _ Hin) as (tn0 & id0 & c0 & G1 & G2 & _).
      destruct (SAME _ _ _ G1 Ht) as [-> ->]. rewrite Hall in G2. discriminate.
Qed.

(* what the reference dictionary holds was put there by an update of exactly
   that identity, target and run *)
Lemma SP_ref_origin : forall ops m0 tn id r c,
  rget (tn, id, r) (fold_left ref_step ops m0) = Some c ->
  rget (tn, id, r) m0 = Some c \/
  exists steps, In (OUpd r tn id c steps) ops /\ completed steps = true.
Proof.
  induction ops as [|o ops IH]; intros m0 tn id r c H; cbn in H; [now left|].
  apply IH in H. destruct H as [H|(steps & Hin & Hc)].
  - destruct o; cbn [ref_step] in H; try (now left).
    + destruct (completed steps) eqn:Hc; [|now left].
      rewrite SP_rget_rset in H.
      destruct (rkey_eqb (tn, id, r) (tn0, id0, r0)) eqn:Ek; [|now left].
      apply SP_rkey_eqb_eq in Ek. injection Ek as <- <- <-. injection H as <-.
      right. exists steps. split; [now left|exact Hc].
    + rewrite SP_rget_rdel in H.
      destruct (rmatch r0 tn0 task alg sv vn (tn, id, r)); [discriminate|now left].
  - right. exists steps. split; [now right|exact Hc].
Qed.

Lemma SP_isolation : forall ops r tn id rep,
  Forall plain_op ops -> plain tn -> plain_id id ->
  snd (load1 (run digest db0 ops) r tn id) = rep ->
  rep = RLoaded None \/
  exists c r' steps, rep = RLoaded (Some c) /\
                     In (OUpd r' tn id c steps) ops /\ completed steps = true.
Proof.
  intros ops r tn id rep Hp Htn Hid Hrep.
  destruct (SP_load_ref ops r tn id Hp Htn Hid) as (H1 & H2 & H3).
  cbv zeta in H1, H2, H3. rewrite Hrep in H1, H2, H3.
  assert (ORIG : forall r' c, rget (tn, id, r') (refdict ops) = Some c ->
                 exists steps, In (OUpd r' tn id c steps) ops /\ completed steps = true).
  { intros r' c Hg. apply SP_ref_origin in Hg. destruct Hg as [Hg|Hg]; [discriminate|exact Hg]. }
  destruct (rget (tn, id, r) (refdict ops)) as [c|] eqn:E.
  - right. destruct (ORIG _ _ E) as (steps & Hin & Hc). exists c, r, steps. auto.
  - (* highest run among the entries of (tn, id), if any *)
    assert (MAX : forall l : refd,
      (forall r', ~ exists c, In ((tn, id, r'), c) l /\ rget (tn, id, r') (refdict ops) = Some c)
      \/ exists r' c, rget (tn, id, r') (refdict ops) = Some c /\
                      forall r'' c'', In ((tn, id, r''), c'') l ->
                                      rget (tn, id, r'') (refdict ops) = Some c'' -> (r'' <= r')%Z).
    { induction l as [|[[[t i] r0] c0] l IH].
      - left. intros r' (c & [] & _).
      - destruct (rkey_eqb (t, i, r0) (tn, id, r0)) eqn:Ek.
        + apply SP_rkey_eqb_eq in Ek. injection Ek as -> ->.
          destruct (rget (tn, id, r0) (refdict ops)) as [c1|] eqn:G.
          * right. destruct IH as [IH|(r' & c' & G' & Hm)].
            -- exists r0, c1. split; [exact G|]. intros r'' c'' [[= <- <-]|Hin] Hg; [lia|].
               exfalso. apply (IH r''). eauto.
            -- destruct (Z.le_gt_cases r0 r').
               ++ exists r', c'. split; [exact G'|]. intros r'' c'' [[= <- <-]|Hin] Hg; [lia|eauto].
               ++ exists r0, c1. split; [exact G|]. intros r'' c'' [[= <- <-]|Hin] Hg; [lia|].
                  specialize (Hm _ _ Hin Hg). lia.
          * destruct IH as [IH|(r' & c' & G' & Hm)].
            -- left. intros r' (c & [[= <- <-]|Hin] & Hg); [congruence|]. apply (IH r'). eauto.
            -- right. exists r', c'. split; [exact G'|].
               intros r'' c'' [[= <- <-]|Hin] Hg; [congruence|eauto].
        + assert (Hne : (t, i) <> (tn, id)).
          { intros [= -> ->]. rewrite (proj2 (SP_rkey_eqb_eq _ _) eq_refl) in Ek. discriminate. }
          destruct IH as [IH|(r' & c' & G' & Hm)].
          * left. intros r' (c & [[= -> -> _ _]|Hin] & Hg); [congruence|]. apply (IH r'). eauto.
          * right. exists r', c'. split; [exact G'|].
            intros r'' c'' [[= -> -> _ _]|Hin] Hg; [congruence|eauto]. }
    assert (INL : forall k c, rget k (refdict ops) = Some c -> In (k, c) (refdict ops)).
    { intros k c. generalize (refdict ops). induction r0 as [|[k' c'] l IH]; cbn; [discriminate|].
      destruct (rkey_eqb k k') eqn:Ek.
      - apply SP_rkey_eqb_eq in Ek. subst. intros [= ->]. now left.
      - intros H. right. auto. }
    destruct (MAX (refdict ops)) as [Hnone|(r' & c & G & Hm)].
    + left. apply H3. intros r'. destruct (rget (tn, id, r') (refdict ops)) as [c|] eqn:G; [|reflexivity].
      exfalso. apply (Hnone r'). exists c. split; [now apply INL|exact G].
    + right. destruct (ORIG _ _ G) as (steps & Hin & Hc). exists c, r', steps.
      split; [|auto]. apply (H2 eq_refl r' c G). intros r'' c'' Hg. apply (Hm _ _ (INL _ _ Hg) Hg).
Qed.


End LoadRef.
