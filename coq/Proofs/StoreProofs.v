(* Proofs/StoreProofs.v -- invariants of the content-addressed store (C07)
   for every operation history and every crash point. *)
From Coq Require Import List Arith ZArith Bool Lia.
From DV Require Import Model.Catalogue Model.Store.
Import ListNotations.

(* ---- catalogue operations never touch the prime table -------------------- *)
Lemma SP_prime_set_tab : forall c x t i, prime (set_tab c x t i) = prime c.
Proof. intros c x t i; destruct x; reflexivity. Qed.

Lemma SP_prime_cat_append : forall c x n p v,
  prime (fst (cat_append c x n p v)) = prime c.
Proof.
  intros c x n p v. unfold cat_append.
  destruct (append n (tb c x) (ix c x) p v) as [[[t i] id] nm]. cbn [fst].
  apply SP_prime_set_tab.
Qed.

Lemma SP_prime_to_key : forall c r tn id, prime (fst (to_key c r tn id)) = prime c.
Proof.
  intros c r tn id. unfold to_key.
  destruct (cat_append c Ttarget tn None None) as [c1 trg] eqn:E1.
  destruct (cat_append c1 Ttask (d_task id) None None) as [c2 tid] eqn:E2.
  destruct (cat_append c2 Talg (d_alg id) (Some tid) (Some (d_aver id))) as [c3 aid] eqn:E3.
  destruct (cat_append c3 Tstate (d_sv id) (Some aid) (Some (d_sver id))) as [c4 sid] eqn:E4.
  destruct (cat_append c4 Tvalue (d_vn id) (Some sid) (Some (d_vver id))) as [c5 vid] eqn:E5.
  cbn [fst].
  pose proof (SP_prime_cat_append c Ttarget tn None None) as H1. rewrite E1 in H1.
  pose proof (SP_prime_cat_append c1 Ttask (d_task id) None None) as H2. rewrite E2 in H2.
  pose proof (SP_prime_cat_append c2 Talg (d_alg id) (Some tid) (Some (d_aver id))) as H3.
  rewrite E3 in H3.
  pose proof (SP_prime_cat_append c3 Tstate (d_sv id) (Some aid) (Some (d_sver id))) as H4.
  rewrite E4 in H4.
  pose proof (SP_prime_cat_append c4 Tvalue (d_vn id) (Some sid) (Some (d_vver id))) as H5.
  rewrite E5 in H5. cbn [fst] in *. congruence.
Qed.

Lemma SP_prime_register : forall c id, prime (register c id) = prime c.
Proof.
  intros c id. unfold register.
  destruct (cat_append c Ttask (d_task id) None None) as [c2 tid] eqn:E2.
  destruct (cat_append c2 Talg (d_alg id) (Some tid) (Some (d_aver id))) as [c3 aid] eqn:E3.
  destruct (cat_append c3 Tstate (d_sv id) (Some aid) (Some (d_sver id))) as [c4 sid] eqn:E4.
  destruct (cat_append c4 Tvalue (d_vn id) (Some sid) (Some (d_vver id))) as [c5 vid] eqn:E5.
  pose proof (SP_prime_cat_append c Ttask (d_task id) None None) as H2. rewrite E2 in H2.
  pose proof (SP_prime_cat_append c2 Talg (d_alg id) (Some tid) (Some (d_aver id))) as H3.
  rewrite E3 in H3.
  pose proof (SP_prime_cat_append c3 Tstate (d_sv id) (Some aid) (Some (d_sver id))) as H4.
  rewrite E4 in H4.
  pose proof (SP_prime_cat_append c4 Tvalue (d_vn id) (Some sid) (Some (d_vver id))) as H5.
  rewrite E5 in H5. cbn [fst] in *. congruence.
Qed.

(* ---- pdel / pset membership ---------------------------------------------- *)
Lemma SP_pdel_sub : forall k p e, In e (pdel k p) -> In e p.
Proof.
  intros k p e. induction p as [|[k' b'] p IH]; cbn; [tauto|].
  destruct (pkey_eqb k k'); cbn; intuition.
Qed.

Lemma SP_pset_in : forall k b p e, In e (pset k b p) -> e = (k, b) \/ In e p.
Proof.
  intros k b p e. induction p as [|[k' b'] p IH]; cbn.
  - intuition.
  - destruct (pkey_eqb k k'); cbn; intuition.
Qed.

Lemma SP_fold_sub : forall (A : Type) (f : ptbl -> A -> ptbl) l,
  (forall p x e, In e (f p x) -> In e p) ->
  forall p e, In e (fold_left f l p) -> In e p.
Proof.
  intros A f l Hf. induction l as [|x l IH]; cbn; [auto|].
  intros p e H. apply IH in H. eapply Hf; eauto.
Qed.

Lemma SP_remove_sub : forall c r tn taskn algn svn vn c' e,
  remove c r tn taskn algn svn vn = Some c' -> In e (prime c') -> In e (prime c).
Proof.
  intros c r tn taskn algn svn vn c' e H. unfold remove in H.
  destruct (alookup tn (t_target c)) as [tnid|]; [|discriminate].
  destruct (alookup taskn (t_task c)) as [tskid|]; [|discriminate].
  injection H as <-. cbn [prime set_prime].
  apply SP_fold_sub. intros p a e0. apply SP_fold_sub. intros p0 s e1.
  apply SP_fold_sub. intros p1 v e2. apply SP_pdel_sub.
Qed.

(* ---- store lookups --------------------------------------------------------- *)
Lemma SP_slookup_in : forall b s c, slookup b s = Some c -> In (b, c) s.
Proof.
  intros b s c. induction s as [|[b' c'] s IH]; cbn; [discriminate|].
  destruct (Z.eqb_spec b b').
  - intros [= ->]. subst. now left.
  - intros H. right. auto.
Qed.

Lemma SP_smem_in : forall b s, smem b s = true <-> In b (map fst s).
Proof.
  intros b s. unfold smem. induction s as [|[b' c'] s IH]; cbn.
  - split; [discriminate|tauto].
  - destruct (Z.eqb_spec b b').
    + subst. split; auto.
    + rewrite IH. split; [auto|]. intros [H|H]; [congruence|auto].
Qed.

Lemma SP_smem_app : forall b s1 s2, smem b (s1 ++ s2) = smem b s1 || smem b s2.
Proof.
  intros b s1 s2. apply eq_true_iff_eq. rewrite orb_true_iff, !SP_smem_in, map_app, in_app_iff.
  tauto.
Qed.

Section WithDigest.
Variable digest : Z -> Z.

(* ---- the invariants of C07 ------------------------------------------------- *)
Definition named (d : db) : Prop :=
  forall b c, In (b, c) (store d) -> b = digest c.
Definition single (d : db) : Prop := NoDup (map fst (store d)).
Definition nodangle (d : db) : Prop :=
  forall k b, In (k, b) (prime (dcat d)) -> In b (map fst (store d)).

Definition Istore (d : db) : Prop := named d /\ single d /\ nodangle d.

Lemma SP_init : Istore db0.
Proof.
  split; [|split].
  - intros b c H. destruct H.
  - constructor.
  - intros k b H. destruct H.
Qed.

(* a state that only differs in catalogue tables / staging *)
Lemma SP_same_store : forall d d',
  store d' = store d -> (forall e, In e (prime (dcat d')) -> In e (prime (dcat d))) ->
  Istore d -> Istore d'.
Proof.
  intros d d' Hs Hp (Hn & Hsi & Hd). repeat split.
  - intros b c. rewrite Hs. apply Hn.
  - unfold single. rewrite Hs. exact Hsi.
  - intros k b Hin. rewrite Hs. eapply Hd. apply Hp. exact Hin.
Qed.

Lemma SP_nodup_snoc : forall (A : Type) (l : list A) x,
  NoDup l -> ~ In x l -> NoDup (l ++ [x]).
Proof.
  intros A l x Hnd Hx. induction Hnd as [|y l Hy Hnd IH]; cbn.
  - constructor; [tauto|constructor].
  - constructor.
    + rewrite in_app_iff. cbn. intros [H|[H|[]]]; [tauto|]. subst. apply Hx. now left.
    + apply IH. intros H. apply Hx. now right.
Qed.

Lemma SP_move : forall c d, Istore d ->
  Istore (st_move digest c d) /\ In (digest c) (map fst (store (st_move digest c d))).
Proof.
  intros c d (Hn & Hsi & Hd). unfold st_move.
  destruct (smem (digest c) (store d)) eqn:E.
  - split.
    + split; [|split]; [intros b c0 Hin; cbn in Hin; auto | exact Hsi
                        | intros k b Hin; cbn in *; eapply Hd; eauto].
    + cbn. now apply SP_smem_in.
  - assert (~ In (digest c) (map fst (store d))) as Hnot.
    { rewrite <- SP_smem_in. congruence. }
    split.
    + split; [|split].
      * intros b c0 Hin. cbn in Hin. apply in_app_iff in Hin as [Hin|[Hin|[]]]; [auto|].
        injection Hin as <- <-. reflexivity.
      * unfold single. cbn. rewrite map_app. cbn. now apply SP_nodup_snoc.
      * intros k b Hin. cbn in *. rewrite map_app, in_app_iff. left. eapply Hd; eauto.
    + cbn. rewrite map_app, in_app_iff. right. now left.
Qed.

Lemma SP_record : forall k c d, Istore d -> In (digest c) (map fst (store d)) ->
  Istore (st_record digest k c d).
Proof.
  intros k c d (Hn & Hsi & Hd) Hin.
  split; [|split]; [intros b c0 H; cbn in H; auto | exact Hsi |].
  intros k' b Hp. unfold st_record in Hp. cbn in Hp. cbn.
  apply SP_pset_in in Hp as [Hp|Hp].
  - injection Hp as -> ->. exact Hin.
  - eapply Hd; eauto.
Qed.

Lemma SP_stage_only : forall d g, Istore d -> Istore (mkdb (dcat d) (store d) g).
Proof. intros d g H. eapply SP_same_store; [| |exact H]; cbn; auto. Qed.

(* every prefix of the six steps preserves the invariant: every crash point *)
Lemma SP_steps : forall n k c d, Istore d -> Istore (run_steps n (upd_steps digest k c) d).
Proof.
  intros n k c d H. unfold run_steps, upd_steps.
  assert (H1 : Istore (st_mkstemp d)) by (apply SP_stage_only; exact H).
  assert (H2 : Istore (st_dump c (st_mkstemp d))) by (apply SP_stage_only; exact H1).
  destruct (SP_move c (st_dump c (st_mkstemp d)) H2) as [H5 Hin].
  assert (H6 : Istore (st_record digest k c (st_move digest c (st_dump c (st_mkstemp d)))))
    by (apply SP_record; assumption).
  destruct n as [n|]; [|cbn; exact H6].
  destruct n as [|[|[|[|[|[|n]]]]]]; cbn; unfold st_sum; try assumption.
  destruct n; cbn; exact H6.
Qed.

Lemma SP_update1 : forall d r tn id c steps,
  Istore d -> Istore (fst (update1 digest d r tn id c steps)).
Proof.
  intros d r tn id c steps H. unfold update1.
  destruct (to_key (dcat d) r tn id) as [c1 k] eqn:E. cbn [fst].
  apply SP_steps. eapply SP_same_store; [| |exact H]; cbn; [reflexivity|].
  intros e. pose proof (SP_prime_to_key (dcat d) r tn id) as Hp. rewrite E in Hp.
  cbn in Hp. rewrite Hp. auto.
Qed.

Lemma SP_exec : forall d o, Istore d -> Istore (fst (exec digest d o)).
Proof.
  intros d o H. destruct o; cbn [exec].
  - cbn [fst]. eapply SP_same_store; [| |exact H]; cbn; [reflexivity|].
    intros e. rewrite SP_prime_cat_append. auto.
  - cbn [fst]. eapply SP_same_store; [| |exact H]; cbn; [reflexivity|].
    intros e. rewrite SP_prime_register. auto.
  - apply SP_update1. exact H.
  - unfold load1. destruct (to_key (dcat d) r tn id) as [c1 k] eqn:E. cbn [fst].
    eapply SP_same_store; [| |exact H]; cbn; [reflexivity|].
    intros e. pose proof (SP_prime_to_key (dcat d) r tn id) as Hp. rewrite E in Hp.
    cbn in Hp. rewrite Hp. auto.
  - destruct (remove (dcat d) r tn task alg sv vn) as [c'|] eqn:E; cbn [fst]; [|exact H].
    eapply SP_same_store; [| |exact H]; cbn; [reflexivity|].
    intros e. eapply SP_remove_sub; eauto.
  - cbn [fst]. eapply SP_same_store; [| |exact H]; cbn; auto.
  - exact H.
  - exact H.
  - exact H.
  - exact H.
Qed.

Theorem SP_run : forall ops d, Istore d -> Istore (run digest d ops).
Proof.
  induction ops as [|o ops IH]; intros d H; cbn; [exact H|].
  apply IH. apply SP_exec. exact H.
Qed.

(* ---- novelty flag ------------------------------------------------------------ *)
Lemma SP_store_to_key_steps : forall d r tn id c,
  update1 digest d r tn id c None
  = (fst (update1 digest d r tn id c None), RNew (negb (smem (digest c) (store d)))).
Proof.
  intros. unfold update1. destruct (to_key (dcat d) r tn id) as [c1 k]. cbn. reflexivity.
Qed.

Lemma SP_isnew_digest : forall d r tn id c d' b,
  update1 digest d r tn id c None = (d', RNew b) ->
  (b = true <-> ~ In (digest c) (map fst (store d))).
Proof.
  intros d r tn id c d' b H. rewrite SP_store_to_key_steps in H. injection H as _ <-.
  rewrite negb_true_iff, <- SP_smem_in. destruct (smem (digest c) (store d)); split; congruence.
Qed.

Lemma SP_isnew_content : forall d r tn id c d' b,
  named d ->
  (forall c', In c' (map snd (store d)) -> digest c' = digest c -> c' = c) ->
  update1 digest d r tn id c None = (d', RNew b) ->
  (b = true <-> ~ In c (map snd (store d))).
Proof.
  intros d r tn id c d' b Hn Hinj H. rewrite (SP_isnew_digest _ _ _ _ _ _ _ H).
  split; intros Hnot Hin; apply Hnot.
  - apply in_map_iff in Hin as [[b0 c0] [Hc Hin]]. cbn in Hc. subst c0.
    apply in_map_iff. exists (b0, c). split; [|exact Hin]. cbn. apply (Hn _ _ Hin).
  - apply in_map_iff in Hin as [[b0 c0] [Hb Hin]]. cbn in Hb. subst b0.
    pose proof (Hn _ _ Hin) as Hd.
    assert (c0 = c) as ->.
    { apply Hinj; [|congruence]. apply in_map_iff. exists (digest c, c0). auto. }
    apply in_map_iff. exists (digest c, c). auto.
Qed.

(* identical content a second time: store unchanged, staged file unlinked *)
Lemma SP_second_copy : forall d r tn id c,
  In (digest c) (map fst (store d)) ->
  store (fst (update1 digest d r tn id c None)) = store d /\
  stage (fst (update1 digest d r tn id c None)) = stage d.
Proof.
  intros d r tn id c Hin. unfold update1.
  destruct (to_key (dcat d) r tn id) as [c1 k]. cbn.
  unfold st_move, st_sum. cbn.
  apply SP_smem_in in Hin. rewrite Hin. cbn. split; [reflexivity|].
  rewrite !removelast_last. reflexivity.
Qed.

(* new content: exactly one file is added, named by the digest *)
Lemma SP_first_copy : forall d r tn id c,
  ~ In (digest c) (map fst (store d)) ->
  store (fst (update1 digest d r tn id c None)) = store d ++ [(digest c, c)] /\
  stage (fst (update1 digest d r tn id c None)) = stage d.
Proof.
  intros d r tn id c Hin. unfold update1.
  destruct (to_key (dcat d) r tn id) as [c1 k]. cbn.
  unfold st_move, st_sum. cbn.
  rewrite <- SP_smem_in in Hin. apply not_true_is_false in Hin. rewrite Hin. cbn.
  split; [reflexivity|]. rewrite !removelast_last. reflexivity.
Qed.

End WithDigest.
