(* Proofs/SubmitProofs.v -- C12: priority lattice (generated code), refusal when
   inactive, what a waiter saw when it fires, the repaired handle, witnesses of
   the two open findings. *)
From Coq Require Import List Bool Arith Lia.
From DV Require Import Gen.FsmTable Gen.PriorityGen Model.Fsm Model.Submit Proofs.FsmProofs.
Import ListNotations.

(* ---- Priority.max --------------------------------------------------------- *)
Definition dflt (a : option prio) : prio := match a with Some p => p | None => P_TODO end.

Lemma max_step_min : forall r a, prank (max_step r a) = Nat.min (prank r) (prank a).
Proof. intros r a. destruct r, a; reflexivity. Qed.

Lemma max_step_choice : forall r a, max_step r a = r \/ max_step r a = a.
Proof. intros r a. destruct r, a; auto. Qed.

Lemma prank_inj : forall a b, prank a = prank b -> a = b.
Proof. intros a b. destruct a, b; simpl; intro H; try reflexivity; discriminate H. Qed.

Lemma fold_max_rank : forall l r, prank (fold_left max_step l r) = fold_left Nat.min (map prank l) (prank r).
Proof. induction l as [|a l IH]; intro r; simpl; [reflexivity|]. rewrite IH, max_step_min. reflexivity. Qed.

Lemma fold_min_le : forall l n, fold_left Nat.min l n <= n /\ (forall x, In x l -> fold_left Nat.min l n <= x).
Proof.
  induction l as [|a l IH]; intro n; simpl; [split; [lia|intros x []]|].
  destruct (IH (Nat.min n a)) as [A B]. split; [lia|].
  intros x [->|I]; [lia|apply B; exact I].
Qed.

Definition somes (l : list (option prio)) : list prio :=
  flat_map (fun a => match a with Some p => [p] | None => [] end) l.

Lemma in_somes : forall l p, In (Some p) l <-> In p (somes l).
Proof.
  induction l as [|a l IH]; intro p; simpl; [tauto|].
  rewrite in_app_iff, <- IH. destruct a as [q|]; simpl; split; intro H.
  - destruct H as [E|I]; [inversion E; auto|auto].
  - destruct H as [[->|[]]|I]; auto.
  - destruct H as [E|I]; [discriminate E|auto].
  - destruct H as [[]|I]; auto.
Qed.

(* max of any argument list is at least as strong as every member ... *)
Lemma max_strongest : forall l p, In (Some p) l -> prank (prio_max l) <= prank p.
Proof.
  intros l p I. unfold prio_max. fold (somes l). rewrite fold_max_rank.
  apply fold_min_le. apply in_map. apply in_somes. exact I.
Qed.

(* ... and is a member, or TODO when nothing stronger was given *)
Lemma fold_max_member : forall l r, fold_left max_step l r = r \/ In (fold_left max_step l r) l.
Proof.
  induction l as [|a l IH]; intro r; simpl; [auto|].
  destruct (IH (max_step r a)) as [E|I]; [|auto].
  rewrite E. destruct (max_step_choice r a) as [->| ->]; auto.
Qed.

Lemma max_member : forall l, prio_max l = P_TODO \/ In (Some (prio_max l)) l.
Proof.
  intro l. unfold prio_max. fold (somes l).
  destruct (fold_max_member (somes l) P_TODO) as [E|I]; [auto|right; apply in_somes; exact I].
Qed.

Lemma max_lattice : forall a b c : option prio,
  prio_max [a; b] = prio_max [b; a] /\
  prio_max [Some (prio_max [a; b]); c] = prio_max [a; Some (prio_max [b; c])] /\
  prio_max [a; b; c] = prio_max [Some (prio_max [a; b]); c] /\
  prio_max [a; a] = dflt a /\
  prio_max [None; a] = dflt a /\ prio_max [a; None] = dflt a /\
  prank (prio_max [a; b]) = Nat.min (prank (dflt a)) (prank (dflt b)).
Proof. intros [[]|] [[]|] [[]|]; vm_compute; repeat split. Qed.

(* ---- refusal -------------------------------------------------------------- *)
Lemma crossroads_inactive : forall s, is_pipeline_active s = false -> submit_crossroads s = (s, Ok).
Proof. intros s H. unfold submit_crossroads. rewrite H. reflexivity. Qed.

Lemma substart_inactive : forall s p, is_pipeline_active s = false -> st s <> S_gitting ->
  fst (step s (ESubStart 0 p)) = s.
Proof.
  intros s p H N. simpl. destruct (insub (gh s)) as [|[|n] l]; try reflexivity.
  rewrite H. unfold proc_failure.
  destruct (state_eqb (st s) S_gitting) eqn:E; [|reflexivity].
  apply fsm_state_eqb_eq in E. contradiction.
Qed.

(* ---- what a waiter saw ----------------------------------------------------- *)
(* the poller returns while still the active wait only if it saw its condition *)
Lemma poll_saw : forall s k e,
  get3 k (handles (ws s)) = Some false -> get3 k (waits (ws s)) = true ->
  get3 k (handles (ws (fst (poll s k e)))) = Some true -> cond_holds k e = true.
Proof.
  intros s k e H W F. unfold poll in F. rewrite H, W in F.
  destruct (cond_holds k e); [reflexivity|]. simpl in F. rewrite H in F. discriminate F.
Qed.

Lemma get3_set3 : forall A k (v : A) t, get3 k (set3 k v t) = v.
Proof. intros A k v [[a b] c]. destruct k; reflexivity. Qed.

(* a callback fires update_trigger only as the finished poller of a wait that is still on,
   and it always gives its handle back (the repair of the stale handle) *)
Lemma done_cb_fires : forall s k e,
  ulog (gh (fst (done_cb s k e))) <> ulog (gh s) ->
  get3 k (handles (ws s)) = Some true /\ get3 k (waits (ws s)) = true.
Proof.
  intros s k e H. unfold done_cb in H.
  destruct (get3 k (handles (ws s))) as [[]|]; try (exfalso; apply H; reflexivity).
  split; [reflexivity|].
  simpl in H. destruct (get3 k (waits (ws s))); [reflexivity|exfalso; apply H; reflexivity].
Qed.

Lemma trigger_keeps_ws : forall fuel s t, 
  handles (ws (fst (fire fuel s t))) = handles (ws s).
Proof.
  induction fuel as [|f IH]; intros s t; simpl; [reflexivity|].
  destruct (find_edge t (st s)) as [e|]; [|reflexivity].
  assert (CB : forall c s, handles (ws (fst (run_cb (fire f) s c))) = handles (ws s)).
  { intros c s1. destruct c; simpl;
      unfold cb_start, cb_load, cb_navel_gaze, cb_save_prior_state, cb_reload, cb_reset, bind, set_tr;
      try (destruct (status_eqb (tr s1) Active); simpl; reflexivity); try apply IH.
    destruct (status_eqb (tr s1) Active); simpl; [|reflexivity].
    destruct (archive_flag s1); simpl; [reflexivity|].
    destruct (prior s1) as [p|]; [|reflexivity]. destruct (state_trigger p); [|reflexivity].
    rewrite IH. reflexivity. }
  assert (CBS : forall cs s, handles (ws (fst (run_cbs (fire f) s cs))) = handles (ws s)).
  { induction cs as [|c cs IHc]; intro s1; simpl; [reflexivity|].
    unfold bind. pose proof (CB c s1) as E. destruct (run_cb (fire f) s1 c) as [s2 o]. simpl in E.
    destruct o; simpl; try exact E. rewrite IHc. exact E. }
  unfold bind at 1. pose proof (CBS (e_before e) s) as E.
  destruct (run_cbs (fire f) s (e_before e)) as [s1 o]. simpl in E.
  destruct o; simpl; try exact E.
  rewrite CBS. destruct (trigger_eqb t T_update); simpl; exact E.
Qed.

Lemma done_cb_clears : forall s k e, get3 k (handles (ws s)) = Some true ->
  get3 k (handles (ws (fst (done_cb s k e)))) = None.
Proof.
  intros s k e H. unfold done_cb. rewrite H. simpl.
  destruct (get3 k (waits (ws s))).
  - unfold update_by. simpl. unfold trigger_. rewrite trigger_keeps_ws. simpl. apply get3_set3.
  - simpl. apply get3_set3.
Qed.

(* ---- a submission at an active pipeline arms its waiter / fires at once ------ *)
Lemma active_update_ok : forall s, is_pipeline_active s = true ->
  snd (trigger_ s T_update) = Ok /\ st (fst (trigger_ s T_update)) = S_updating.
Proof.
  intros s H. destruct s as [st0 tr0 pr0 pe0 af0 ws0 gh0].
  destruct st0, tr0; try discriminate H; vm_compute; split; reflexivity.
Qed.

Lemma update_only_from_running : forall s, snd (trigger_ s T_update) = Ok -> st s = S_running.
Proof.
  intros s H. destruct s as [st0 tr0 pr0 pe0 af0 ws0 gh0].
  destruct st0; try reflexivity; vm_compute in H; discriminate H.
Qed.

Lemma start_poller_live : forall s k, get3 k (handles (ws (start_poller s k))) <> None.
Proof.
  intros s k. unfold start_poller. destruct (get3 k (handles (ws s))) eqn:E.
  - rewrite E. discriminate.
  - simpl. rewrite get3_set3. discriminate.
Qed.

Lemma submit_arms : forall s p, is_pipeline_active s = true ->
  let q := prio_max [priority (ws s); Some (dflt p)] in
  let r := submit_crossroads (set_submit_info s p) in
  match pk_of q with
  | None => snd r = Ok /\ st (fst r) = S_updating
  | Some k => snd r = Ok /\ get3 k (waits (ws (fst r))) = true /\
              get3 k (handles (ws (fst r))) <> None /\ st (fst r) = st s
  end.
Proof.
  intros s p A q r. subst q r.
  unfold submit_crossroads, set_submit_info.
  assert (A' : is_pipeline_active (set_priority s (Some (prio_max [priority (ws s); Some (dflt p)]))) = true) by exact A.
  unfold dflt in *. rewrite A'. simpl negb. cbv iota.
  cbn [priority ws set_priority set_ws].
  destruct (prio_max [priority (ws s); Some match p with Some p0 => p0 | None => P_TODO end]); cbn [pk_of]; cbv iota.
  - unfold wait_for_nothing, update_by. cbn [fst snd].
    match goal with |- context [trigger_ ?x T_update] => destruct (active_update_ok x A) as [O S] end.
    rewrite O. split; [reflexivity|exact S].
  - split; [reflexivity|]. unfold wait_for_crew. split; [|split; [apply start_poller_live|]].
    + unfold start_poller. cbn [fst]. destruct (get3 _ (handles _)); reflexivity.
    + unfold start_poller. cbn [fst]. destruct (get3 _ (handles _)); reflexivity.
  - split; [reflexivity|]. unfold wait_for_doing. cbn [waits ws set_priority set_ws].
    destruct (waits (ws s)) as [[c d] t0]. split; [|split; [apply start_poller_live|]].
    + unfold start_poller. cbn [fst]. destruct (get3 _ (handles _)); reflexivity.
    + unfold start_poller. cbn [fst]. destruct (get3 _ (handles _)); reflexivity.
  - split; [reflexivity|]. unfold wait_for_todo. cbn [waits ws set_priority set_ws].
    destruct (waits (ws s)) as [[c d] t0]. split; [|split; [apply start_poller_live|]].
    + unfold start_poller. cbn [fst]. destruct (get3 _ (handles _)); reflexivity.
    + unfold start_poller. cbn [fst]. destruct (get3 _ (handles _)); reflexivity.
Qed.

(* ---- witnesses of the open findings ------------------------------------------ *)
Definition lost_witness : list event :=
  [EBoot; Done 0; Done 0;
   ESubStart 0 None; ESubDone 0 (Some P_CREW);   (* submitted: wait for the crew, which is busy *)
   ENewData; EIdleArchive;                       (* crew idle: the dispatcher starts an archive *)
   Poll KCrew (false, false, false);             (* the poller sees the idle crew *)
   DoneCb KCrew (false, false, false);           (* update_trigger while archiving: MachineError *)
   Done 0].                                      (* archive done: back in running *)
Definition lost_end : fstate := Eval vm_compute in (run init lost_witness).
Lemma lost_run : run init lost_witness = lost_end.
Proof. vm_compute. reflexivity. Qed.

Lemma lost_facts :
  forallb (fun e => is_env e && single_endpoint e) lost_witness = true /\
  let s := run init lost_witness in
  existsb lost (ulog (gh s)) = true /\ at_rest s = true /\ no_waiter s = true /\
  priority (ws s) = Some P_CREW /\ updates (gh s) = 0 /\ epoch (gh s) = 0.
Proof. split; [vm_compute; reflexivity|]. cbv zeta. rewrite lost_run. repeat split. Qed.

Definition race_witness : list event :=
  [EBoot; Done 0; Done 0;
   ESubStart 0 None; ESubDone 0 (Some P_CREW);
   Poll KCrew (false, false, false);             (* poller thread: crew idle, returns *)
   DoneCb KCrew (true, false, false)].           (* work dispatched before the reactor runs the callback *)
Definition race_end : fstate := Eval vm_compute in (run init race_witness).
Lemma race_run : run init race_witness = race_end.
Proof. vm_compute. reflexivity. Qed.

Lemma race_facts :
  forallb (fun e => is_env e && single_endpoint e) race_witness = true /\
  let s := run init race_witness in
  existsb raced (ulog (gh s)) = true /\ st s = S_updating.
Proof. split; [vm_compute; reflexivity|]. cbv zeta. rewrite race_run. repeat split. Qed.
