(* Proofs/UtilGenEq.v -- the functions regenerated from
   dawgie/db/shelve/util.py (Gen/UtilGen.v, by tools/translate/util2coq.py)
   are extensionally equal to the hand-written model functions of
   Model/Catalogue.v, for ALL arguments, without any well-formedness guard.

   Consequence: every theorem of Proofs/CatalogueProofs.v, DissectProofs.v,
   StoreProofs.v about Catalogue.construct / dissect / subset is a theorem
   about what the python source says today; a semantic edit of one of the
   python functions (separator, branch, order of concatenation, matching
   predicate of subset) changes Gen/UtilGen.v and breaks a lemma below. *)
From Coq Require Import List Arith ZArith Bool.
From DV Require Import Model.Catalogue Gen.UtilGen.
Import ListNotations.

(* Version.asstring  =  ver_str *)
Lemma asstring_gen_eq : forall v, UtilGen.asstring v = Catalogue.ver_str v.
Proof.
  intros [[d i] b]. unfold asstring, ver_str, v_design, v_implementation, v_bugfix.
  cbn [str_join]. reflexivity.
Qed.

(* util.construct *)
Theorem construct_gen_eq : forall n p v,
  UtilGen.construct n p v = Catalogue.construct n p v.
Proof.
  intros n p v. unfold UtilGen.construct, Catalogue.construct, SEP_P, SEP_V.
  destruct p as [p|], v as [v|]; rewrite ?asstring_gen_eq, <- ?app_assoc; reflexivity.
Qed.

(* util.dissect (None = the python raises) *)
Theorem dissect_gen_eq : forall s, UtilGen.dissect s = Catalogue.dissect s.
Proof.
  intro s. unfold UtilGen.dissect, Catalogue.dissect.
  change [58; 112; 97; 114; 101; 110; 116; 95; 95; 95] with SEP_P.
  change [95; 95; 95; 118; 101; 114; 115; 105; 111; 110; 58] with SEP_V.
  destruct (contains SEP_P s).
  - destruct (split2 SEP_P s) as [[p n]|]; [|reflexivity].
    destruct (int_nat p) as [p'|]; [|reflexivity].
    destruct (contains SEP_V n); [|reflexivity].
    destruct (split2 SEP_V n) as [[n' vs]|]; [|reflexivity].
    destruct (parse_ver vs); reflexivity.
  - destruct (contains SEP_V s); [|reflexivity].
    destruct (split2 SEP_V s) as [[n' vs]|]; [|reflexivity].
    destruct (parse_ver vs); reflexivity.
Qed.

(* util.subset, both branches (parents given / not given) *)
Lemma fold_left_ext_ {A B} (f g : A -> B -> A) :
  (forall a b, f a b = g a b) -> forall l a, fold_left f l a = fold_left g l a.
Proof.
  intros H l. induction l as [|x l IH]; intro a; cbn [fold_left]; [reflexivity|].
  rewrite H. apply IH.
Qed.

Theorem subset_gen_eq : forall t n ps, UtilGen.subset t n ps = Catalogue.subset t n ps.
Proof.
  intros t n ps. unfold UtilGen.subset, Catalogue.subset.
  destruct ps as [|p ps]; [reflexivity|].
  apply fold_left_ext_. intros res parent. rewrite construct_gen_eq.
  f_equal.
Qed.
