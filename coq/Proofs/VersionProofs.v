(* Order laws of dawgie.Version, proved over the definitions GENERATED from
   /repo/Python/dawgie/__init__.py (Gen/VersionGen.v).  Unbounded over Z. *)
From DV Require Import Gen.VersionGen.
From Coq Require Import ZArith Lia Bool ZifyBool.
Open Scope Z_scope.

Ltac crush := intros; repeat match goal with v : ver |- _ => destruct v as [[? ?] ?] end;
  unfold ver_newer, ver_lt, ver_gt, ver_le, ver_ge, ver_ne, ver_eq, dsg, imp, bug in *;
  repeat match goal with
         | |- context[if ?c then _ else _] => destruct c eqn:?
         | H : context[if ?c then _ else _] |- _ => destruct c eqn:?
         end; try discriminate; try lia.

(* the specification: lexicographic order on (design, implementation, bugfix) *)
Definition lex_le (a b : ver) : Prop :=
  dsg a < dsg b \/ (dsg a = dsg b /\ (imp a < imp b \/ (imp a = imp b /\ bug a <= bug b))).
Definition lex_lt (a b : ver) : Prop :=
  dsg a < dsg b \/ (dsg a = dsg b /\ (imp a < imp b \/ (imp a = imp b /\ bug a < bug b))).

Lemma V_le_lex a b : ver_le a b = true <-> lex_le a b.           Proof. unfold lex_le; crush. Qed.
Lemma V_lt_lex a b : ver_lt a b = true <-> lex_lt a b.           Proof. unfold lex_lt; crush. Qed.
Lemma V_ge_lex a b : ver_ge a b = true <-> lex_le b a.           Proof. unfold lex_le; crush. Qed.
Lemma V_gt_lex a b : ver_gt a b = true <-> lex_lt b a.           Proof. unfold lex_lt; crush. Qed.
Lemma V_le_refl a : ver_le a a = true.                           Proof. crush. Qed.
Lemma V_le_total a b : ver_le a b = true \/ ver_le b a = true.   Proof. crush. Qed.
Lemma V_le_trans a b c : ver_le a b = true -> ver_le b c = true -> ver_le a c = true. Proof. crush. Qed.
Lemma V_le_antisym a b : ver_le a b = true -> ver_le b a = true -> ver_eq a b = true. Proof. crush. Qed.
Lemma V_eq_iff a b : ver_eq a b = true <-> a = b.
Proof. split; [crush; f_equal; try f_equal; lia | intros ->; crush]. Qed.
Lemma V_ge_le a b : ver_ge a b = ver_le b a.                     Proof. crush. Qed.
Lemma V_gt_lt a b : ver_gt a b = ver_lt b a.                     Proof. crush. Qed.
Lemma V_ne_eq a b : ver_ne a b = negb (ver_eq a b).              Proof. crush. Qed.
Lemma V_gt_def a b : ver_gt a b = ver_ge a b && ver_ne a b.      Proof. crush. Qed.
Lemma V_lt_def a b : ver_lt a b = ver_le a b && ver_ne a b.      Proof. crush. Qed.
Lemma V_lt_not_ge a b : ver_lt a b = negb (ver_ge a b).          Proof. crush. Qed.
Lemma V_gt_not_le a b : ver_gt a b = negb (ver_le a b).          Proof. crush. Qed.
Lemma V_newer_lt a b : ver_newer a b = ver_lt b a.               Proof. crush. Qed.
Lemma V_trichotomy a b :
  (ver_lt a b = true /\ ver_eq a b = false /\ ver_gt a b = false) \/
  (ver_lt a b = false /\ ver_eq a b = true /\ ver_gt a b = false) \/
  (ver_lt a b = false /\ ver_eq a b = false /\ ver_gt a b = true).
Proof. crush. Qed.
