(* C05, worker side: every ending of a run that is not a normal return reaches
   the farm as a non-success response (unless the pipeline told the worker to
   stop), and a normal return as a success response. *)
From Coq Require Import List Bool.
From DV Require Import Model.WorkerReply.
Import ListNotations.

Lemma reply_is_response : forall e, exists s v, reply e false = Response s v.
Proof. intros e; destruct e; cbn; eauto. Qed.

Lemma reply_never_echo : forall e a, reply e a <> TaskEcho.
Proof. intros e a; destruct e, a; cbn; discriminate. Qed.

Lemma reply_failure_reported : forall e, e <> Returned ->
  outcome_of (reply e false) = Some WFailure \/ outcome_of (reply e false) = Some WInvalid.
Proof. intros e H; destruct e; cbn; auto; contradiction H; reflexivity. Qed.

Lemma reply_success_iff : forall e, outcome_of (reply e false) = Some WSuccess <-> e = Returned.
Proof. intros e; destruct e; cbn; split; intro H; try reflexivity; try discriminate. Qed.

Lemma reply_invalid_iff : forall e,
  outcome_of (reply e false) = Some WInvalid <-> (e = InvalidIn \/ e = InvalidOut).
Proof.
  intros e; destruct e; cbn; split; intro H; auto; try discriminate;
  destruct H as [H | H]; discriminate.
Qed.

Lemma reply_values_only_on_success : forall e s, reply e false = Response s true -> e = Returned.
Proof. intros e s; destruct e; cbn; intro H; try reflexivity; discriminate. Qed.

Lemma reply_abort_silent : forall e, reply e true = Silent.
Proof. reflexivity. Qed.
