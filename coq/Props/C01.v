(* C01 -- Upstream work always finishes before dependent work is released.
   Model: Sched.v.  "released to the worker farm" = a task message made by
   farm.dispatch/_put (it enters the cluster queue or is written to a worker);
   "pending" = in the node's todo, "executing" (bookkeeping) = in its doing set;
   "executing" (ghost truth) = a task message queued or handed to a worker and not
   yet answered.  anc = the node's ancestry attribute, shown by C09 to be the
   transitive closure of the declared inputs. *)
From Coq Require Import List Arith ZArith Bool Permutation.
From DV Require Import Model.Sched Proofs.SchedLib Proofs.SchedBatch Proofs.SchedExact.
Import ListNotations.

(* The headline, at the level of the scheduler's own bookkeeping, for EVERY engine
   graph, EVERY history of events from boot (any interleaving of requests, ticks,
   replies with any outcome, worker events, rebuilds), at every dispatch tick:
   the messages made by this tick (newms: the cluster queue afterwards plus what
   was handed out is a permutation of the queue before plus newms) are such that
   no ancestor has the same target or the all-targets marker pending or doing,
   and an all-targets unit has ancestors with nothing pending or doing at all. *)
Theorem C01_doing : forall c es,
  let s := fst (run c (init c) es) in
  active s = true ->
  exists newms cl k,
    Permutation cl (cluster s ++ newms) /\
    k = Nat.min (length cl) (length (workers_sort (workers s))) /\
    cluster (fst (dispatch c s)) = skipn k cl /\
    inflight (fst (dispatch c s)) =
      inflight s ++ combine (map fst (firstn k (workers_sort (workers s)))) (firstn k cl) /\
    forall m, In m newms -> forall a, In a (anc (gi c (m_job m))) ->
      let s' := fst (dispatch c s) in
      ~ In (m_tgt m) (todo (getn (ns s') a)) /\ ~ In (m_tgt m) (doing (getn (ns s') a)) /\
      ~ In ALL (todo (getn (ns s') a)) /\ ~ In ALL (doing (getn (ns s') a)) /\
      (m_tgt m = ALL -> todo (getn (ns s') a) = [] /\ doing (getn (ns s') a) = []).
Proof.
  intros c es s A. destruct (run_Inv c es (init c) (init_Inv c)) as (L & Q & D & Ia).
  apply tick_messages_safe; assumption.
Qed.
Print Assumptions C01_doing.

(* nothing but a dispatch tick releases work *)
Theorem C01_only_tick_releases : forall c s e m,
  In m (cluster (fst (step c s e))) -> In m (cluster s) \/ e = Tick.
Proof. exact step_cluster_grows_only_in_tick. Qed.
Print Assumptions C01_only_tick_releases.

(* Ghost level (the property as stated: "executing" = really in flight).
   PARTIAL: it holds for every ancestor whose doing set still covers everything it
   has in flight.  What is missing: that hypothesis is an invariant only as long as
   no failed run purges a target from the doing set of a descendant that is still
   executing (open known finding C01 release-while-ancestor-inflight; the full
   statement is refuted below). *)
Theorem C01_full_partial : forall c es,
  let s := fst (run c (init c) es) in
  active s = true ->
  exists newms cl k,
    Permutation cl (cluster s ++ newms) /\
    k = Nat.min (length cl) (length (workers_sort (workers s))) /\
    cluster (fst (dispatch c s)) = skipn k cl /\
    forall m, In m newms -> forall a, In a (anc (gi c (m_job m))) ->
      (forall u, executing s a u -> In u (doing (getn (ns s) a))) ->
      ~ executing s a (m_tgt m) /\ ~ executing s a ALL /\
      (m_tgt m = ALL -> forall u, ~ executing s a u).
Proof.
  intros c es s A. destruct (C01_doing c es A) as (newms & cl & k & P & Hk & C & _ & M).
  exists newms, cl, k. repeat (split; [assumption|]).
  intros m Hm a Ha Hex. destruct (M m Hm a Ha) as (_ & S2 & _ & S4 & S5). cbn zeta in *.
  split; [|split].
  - intros E. apply S2. apply dispatch_doing_mono. apply Hex. exact E.
  - intros E. apply S4. apply dispatch_doing_mono. apply Hex. exact E.
  - intros Et u E. destruct (S5 Et) as [_ Dg]. apply Hex in E.
    apply (dispatch_doing_mono c) in E. unfold s in *. rewrite Dg in E. contradiction.
Qed.
Print Assumptions C01_full_partial.

(* The property at FULL strength (ghost level), for clean histories
   (clean_run, Proofs/SchedExact.v: replies only for units in flight, no failed run
   overlapping an executing dependent on the same target, rebuilds with nothing
   executing): no unit is released while an ancestor has the same target or the
   all-targets marker REALLY executing, and an all-targets unit is released only
   when no ancestor executes anything. *)
Theorem C01_full_clean : forall c es, clean_run c (init c) es ->
  let s := fst (run c (init c) es) in
  active s = true ->
  exists newms cl k,
    Permutation cl (cluster s ++ newms) /\
    k = Nat.min (length cl) (length (workers_sort (workers s))) /\
    cluster (fst (dispatch c s)) = skipn k cl /\
    forall m, In m newms -> forall a, In a (anc (gi c (m_job m))) ->
      ~ executing s a (m_tgt m) /\ ~ executing s a ALL /\
      (m_tgt m = ALL -> forall u, ~ executing s a u).
Proof.
  intros c es Hc s A. destruct (C01_full_partial c es A) as (newms & cl & k & P & Hk & C & M).
  exists newms, cl, k. repeat (split; [assumption|]).
  intros m Hm a Ha. apply (M m Hm a Ha). intros u Hu.
  destruct (clean_boot c es Hc) as (_ & E & _). apply E. apply executing_units. exact Hu.
Qed.
Print Assumptions C01_full_clean.

(* REFUTED (open known finding): chain a0 -> a1 -> a2, one target.  a1 is handed to
   worker 1; a0 is requested, released to worker 2 and FAILS: purge removes the
   target from a1's doing although worker 1 still runs it; a2 is then requested and
   released while its ancestor a1 executes the same target. *)
Definition wit_c : cfg :=
  {| gnodes := [ {| kids := [1]; anc := []; gfac := Task; lvl := 0; ins := [] |};
                 {| kids := [2]; anc := [0]; gfac := Task; lvl := 1; ins := [0] |};
                 {| kids := []; anc := [0; 1]; gfac := Task; lvl := 2; ins := [1] |} ];
     gfb := []; gtargets := [1] |}.
Definition wit_es : list ev :=
  [Reg 1 0 true; Reg 2 0 true; Reg 3 0 true;
   Org [1] None [1]; Tick; Org [0] None [1]; Tick; Rep 2 0 1 1%Z Failure [];
   Org [2] None [1]].
Theorem C01_full_refuted :
  let s := fst (run wit_c (init wit_c) wit_es) in
  let s' := fst (dispatch wit_c s) in
  wf_graphb wit_c = true /\ active s = true /\
  (* a2 (node 2) is released for target 1 by this tick ... *)
  In (3, {| m_job := 2; m_tgt := 1; m_rid := 1%Z; m_fac := Task |}) (inflight s') /\
  ~ In (3, {| m_job := 2; m_tgt := 1; m_rid := 1%Z; m_fac := Task |}) (inflight s) /\
  (* ... while its ancestor a1 (node 1) is executing target 1 on worker 1 *)
  In 1 (anc (gi wit_c 2)) /\
  In (1, {| m_job := 1; m_tgt := 1; m_rid := 1%Z; m_fac := Task |}) (inflight s).
Proof.
  vm_compute. repeat split; auto.
  intros H. repeat (destruct H as [H|H]; [discriminate|]). exact H.
Qed.
Print Assumptions C01_full_refuted.

(* non-vacuity of C01_doing: in the diamond a0 -> {a1, a2} -> a3 a tick releases a0
   only; after a0's success with new values, a1 and a2; a3 only after both *)
Definition ex_diamond : cfg :=
  {| gnodes := [ {| kids := [1; 2]; anc := []; gfac := Task; lvl := 0; ins := [] |};
                 {| kids := [3]; anc := [0]; gfac := Task; lvl := 1; ins := [0] |};
                 {| kids := [3]; anc := [0]; gfac := Task; lvl := 1; ins := [0] |};
                 {| kids := []; anc := [0; 1; 2]; gfac := Analysis; lvl := 2; ins := [1; 2] |} ];
     gfb := []; gtargets := [1] |}.
Example C01_example :
  let r := run ex_diamond (init ex_diamond)
             [Org [0; 1; 2; 3] None [1]; Tick; Rep 9 0 1 1%Z Success [(1, 0, false)]; Tick;
              Rep 9 1 1 1%Z Success [(1, 1, false)]; Tick; Rep 9 2 1 1%Z Success [(1, 2, false)]; Tick] in
  map (fun m => (m_job m, m_tgt m)) (cluster (fst r)) = [(0, 1); (1, 1); (2, 1); (3, 0)] /\
  wf_graphb ex_diamond = true.
Proof. vm_compute. split; reflexivity. Qed.

(* ==== histories WITH refused run ids (Model/SchedFault.v: xrun over list xev;
   TickFault k = a dispatch in which the k-th db.next() raises; the jobs not yet
   turned into messages stay with the farm, `do` sets included) ==== *)
From DV Require Import Model.SchedFault Proofs.SchedFaultInv.

(* the release decision (todo -> doing), in EVERY history with or without
   refused requests, at every dispatch (ordinary or with a refused request): a
   unit is moved to executing only when no ancestor has its target or the
   all-targets marker pending or executing (all-targets unit: ancestors have
   nothing at all) *)
Theorem C01_release_faults : forall c xs e x t, is_tick e ->
  let s := xrun c (init c) xs in
  let s' := fst (xstep c s e) in
  In t (doing (getn (ns s') x)) -> ~ In t (doing (getn (ns s) x)) ->
  forall a, In a (anc (gi c x)) ->
    ~ In t (todo (getn (ns s') a)) /\ ~ In t (doing (getn (ns s') a)) /\
    ~ In ALL (todo (getn (ns s') a)) /\ ~ In ALL (doing (getn (ns s') a)) /\
    (t = ALL -> todo (getn (ns s') a) = [] /\ doing (getn (ns s') a) = []).
Proof. exact tick_release_safe_faults. Qed.
Print Assumptions C01_release_faults.

(* the task messages.  fresh c h x t (Proofs/SchedFaultInv.v) = the history h
   contains a dispatch (h = h1 ++ e :: h2, e a tick) that moved (x,t) from not
   executing to executing, and right after that dispatch every ancestor of x had
   neither t nor the all-targets marker pending or executing.
   In every history, every task message made by the dispatch that ends it is
   for a unit released under the C01 condition by THAT dispatch or by an EARLIER
   one of the same history (whose run-id request was refused: the message is
   then made from a job the farm kept).  PARTIAL with respect to C01_doing: the
   condition held when the unit was released, not necessarily when the message
   is made -- C01_doing_faults_refuted. *)
Theorem C01_doing_faults_partial : forall c xs e, is_tick e ->
  let s := xrun c (init c) xs in
  let s' := fst (xstep c s e) in
  active s = true ->
  exists newms cl k,
    Permutation cl (cluster s ++ newms) /\
    k = Nat.min (length cl) (length (workers_sort (workers s))) /\
    cluster s' = skipn k cl /\
    inflight s' = inflight s ++ combine (map fst (firstn k (workers_sort (workers s)))) (firstn k cl) /\
    forall m, In m newms ->
      exists h1 e1 h2, xs ++ [e] = h1 ++ e1 :: h2 /\ is_tick e1 /\
        let sb := xrun c (init c) h1 in
        let sa := fst (xstep c sb e1) in
        ~ In (m_tgt m) (doing (getn (ns sb) (m_job m))) /\ In (m_tgt m) (doing (getn (ns sa) (m_job m))) /\
        forall a, In a (anc (gi c (m_job m))) ->
          ~ In (m_tgt m) (todo (getn (ns sa) a)) /\ ~ In (m_tgt m) (doing (getn (ns sa) a)) /\
          ~ In ALL (todo (getn (ns sa) a)) /\ ~ In ALL (doing (getn (ns sa) a)) /\
          (m_tgt m = ALL -> todo (getn (ns sa) a) = [] /\ doing (getn (ns sa) a) = []).
Proof.
  intros c xs e T s s' A. destruct (tick_messages_fresh c xs e T A) as (newms & cl & k & P & Hk & C & F & M).
  exists newms, cl, k. repeat (split; [assumption|]).
  intros m Hm. destruct (M m Hm) as (_ & Fr & _). exact Fr.
Qed.
Print Assumptions C01_doing_faults_partial.

(* REFUTED as a statement about the moment the message is made (candidate
   finding, replayed on the real farm.dispatch by props/C04.py fault_witness):
   chain a0 -> a1.  a1 is released for target 1 (a0 idle), the run-id request is
   refused, a1 stays with the farm; a0 is requested for target 1; the next
   dispatch releases a0 AND turns the kept a1 into a task message without
   looking at its ancestors again: a1's message is handed to worker 1 while its
   ancestor a0 has target 1 pending (before) / executing (after). *)
Definition c01f_chain : cfg :=
  {| gnodes := [ {| kids := [1]; anc := []; gfac := Task; lvl := 0; ins := [] |};
                 {| kids := []; anc := [0]; gfac := Task; lvl := 1; ins := [0] |} ];
     gfb := []; gtargets := [1] |}.
Definition c01f_xs : list xev :=
  [Ev (Reg 1 0 true); Ev (Org [1] None [1]); TickFault 1; Ev (Org [0] None [1])].
Theorem C01_doing_faults_refuted :
  let s := xrun c01f_chain (init c01f_chain) c01f_xs in
  let s' := fst (xstep c01f_chain s (Ev Tick)) in
  wf_graphb c01f_chain = true /\ active s = true /\ jobs s = [1] /\ inflight s = [] /\ cluster s = [] /\
  inflight s' = [(1, {| m_job := 1; m_tgt := 1; m_rid := 1%Z; m_fac := Task |})] /\
  In 0 (anc (gi c01f_chain 1)) /\
  In 1 (todo (getn (ns s) 0)) /\ In 1 (doing (getn (ns s') 0)).
Proof. vm_compute. repeat split; auto. Qed.
Print Assumptions C01_doing_faults_refuted.

(* non-vacuity (a history containing a refused request; the dispatch after it
   makes the message of the kept job, which is fresh by the EARLIER dispatch) *)
Example C01_faults_example :
  let xs := [Ev (Reg 1 0 true); Ev (Org [1] None [1]); TickFault 1] in
  let s := xrun c01f_chain (init c01f_chain) xs in
  let s' := fst (xstep c01f_chain s (Ev Tick)) in
  is_tick (Ev Tick) /\ is_tick (TickFault 1) /\ active s = true /\ jobs s = [1] /\
  do_ (getn (ns s) 1) = [1] /\ doing (getn (ns s) 1) = [1] /\
  inflight s' = [(1, {| m_job := 1; m_tgt := 1; m_rid := 1%Z; m_fac := Task |})].
Proof. vm_compute. repeat split; auto. Qed.
