(* C02 -- Reprocessing after a change is complete and minimal (trigger level).
   Model: Sched.v (Hand._res -> complete -> update -> organize; dispatch).
   Every theorem: for EVERY engine c, EVERY state s with one attribute record per
   node (length (ns s) = nnodes c, an invariant: C02_len_invariant), every reply.
   The end-state clause of the property is treated in DESIGN.md (known finding
   C02 endstate-stale; C02_endstate_* live with the store model). *)
From Coq Require Import List Arith ZArith Bool.
From DV Require Import Model.Sched Proofs.SchedLib Proofs.SchedOrg Proofs.SchedC02.
Import ListNotations.

(* vocabulary (definitions in Proofs/SchedC02.v, Proofs/SchedOrg.v):
   new_names vs     value names flagged new in the report
   new_targets vs   targets of those values
   consumer c x vs y  :=  y is a child of x (y <> x) declaring one of the new
                          names as input, or the registered consumer of a fed-back new value
   tgt_added c y tg u :=  if y is an analysis then u = ALL
                          else if ALL in tg then u is any known target else u in tg *)

(* COMPLETE: after a success report with new values every consumer is pending for
   the affected targets and sits in the queue *)
Theorem C02_complete_step : forall c x t r vs s y u,
  mem x (que s) = true -> length (ns s) = nnodes c -> vs <> [] ->
  y < nnodes c -> consumer c x vs y -> tgt_added c y (new_targets vs) u ->
  let s' := fst (res c x t r Success vs s) in
  In u (todo (getn (ns s') y)) /\ In y (que s').
Proof.
  intros c x t r vs s y u Hq Hl Hv Hy Hc Ht s'. split.
  - apply (success_todo c x t r vs s Hq Hl Hv). right. auto.
  - apply (success_que c x t r vs s Hq Hl Hv). right. auto.
Qed.
Print Assumptions C02_complete_step.

(* MINIMAL: the report makes nothing else pending -- a node gains a target only if
   it is a consumer of a new value, and only the affected targets *)
Theorem C02_minimal_step : forall c x t r vs s y u,
  mem x (que s) = true -> length (ns s) = nnodes c -> vs <> [] ->
  let s' := fst (res c x t r Success vs s) in
  In u (todo (getn (ns s') y)) ->
  In u (todo (getn (ns s) y)) \/
  (y < nnodes c /\ consumer c x vs y /\ tgt_added c y (new_targets vs) u).
Proof.
  intros c x t r vs s y u Hq Hl Hv s' H. apply (success_todo c x t r vs s Hq Hl Hv). exact H.
Qed.
Print Assumptions C02_minimal_step.

(* nothing is reported new => nothing becomes pending (flags all false) *)
Theorem C02_nothing_new_nothing_runs : forall c x t r vs s y u,
  mem x (que s) = true -> length (ns s) = nnodes c -> vs <> [] -> new_names vs = [] ->
  In u (todo (getn (ns (fst (res c x t r Success vs s))) y)) -> In u (todo (getn (ns s) y)).
Proof.
  intros c x t r vs s y u Hq Hl Hv Hn H.
  apply (success_todo c x t r vs s Hq Hl Hv) in H. destruct H as [H|(_ & Hc & _)]; [exact H|].
  exfalso. destruct Hc as [(_ & _ & i & _ & Hi)|Hf].
  - rewrite Hn in Hi. contradiction.
  - unfold fb_consumers in Hf. rewrite Hn in Hf. contradiction.
Qed.
Print Assumptions C02_nothing_new_nothing_runs.

(* over whole histories: pending work disappears only by being released (it is then
   executing), by a failed/invalid run of an upstream algorithm on that target
   (C05), or by a rebuild; and it appears only by an explicit request, a success
   report carrying a new input, or a rebuild naming the node (new version).
   Hence "transitively, after that report": the consumer stays pending until it is
   released, and its own report triggers its consumers by the same theorem. *)
Theorem C02_pending_not_lost : forall c s e y u, length (ns s) = nnodes c ->
  In u (todo (getn (ns s) y)) -> ~ In u (todo (getn (ns (fst (step c s e))) y)) ->
  (e = Tick /\ In u (doing (getn (ns (fst (step c s e))) y))) \/
  (exists w x r o vs, e = Rep w x u r o vs /\ o <> Success /\ mem y (descend c (nnodes c) x) = true) \/
  (exists ch, e = Build ch).
Proof. exact step_pending_lost. Qed.
Print Assumptions C02_pending_not_lost.

Theorem C02_gain_has_cause : forall c s e y u, length (ns s) = nnodes c ->
  ~ In u (todo (getn (ns s) y)) -> In u (todo (getn (ns (fst (step c s e))) y)) ->
  (exists names r tg, e = Org names r tg /\ In y names /\ tgt_added c y tg u) \/
  (exists w x t r vs, e = Rep w x t r Success vs /\ consumer c x vs y /\ tgt_added c y (new_targets vs) u) \/
  (exists ch, e = Build ch /\ In y ch).
Proof. exact step_pending_gain. Qed.
Print Assumptions C02_gain_has_cause.

Theorem C02_len_invariant : forall c es, length (ns (fst (run c (init c) es))) = nnodes c.
Proof.
  intros c es. assert (G : forall s, length (ns s) = nnodes c -> length (ns (fst (run c s es))) = nnodes c).
  { induction es as [|e es IH]; intros s Hl; cbn [run]; [exact Hl|].
    pose proof (step_len c s e Hl) as L1. destruct (step c s e) as [s1 o]. cbn [fst] in L1.
    specialize (IH s1 L1). destruct (run c s1 es) as [s2 os]. exact IH. }
  apply G. cbn. apply repeat_length.
Qed.
Print Assumptions C02_len_invariant.

(* non-vacuity: a0 -> {a1 (reads v0), a2 (reads v1)}; a0 reports v0 new, v1 old:
   a1 becomes pending for the target, a2 does not *)
Definition ex_fan : cfg :=
  {| gnodes := [ {| kids := [1; 2]; anc := []; gfac := Task; lvl := 0; ins := [] |};
                 {| kids := []; anc := [0]; gfac := Task; lvl := 1; ins := [0] |};
                 {| kids := []; anc := [0]; gfac := Task; lvl := 1; ins := [1] |} ];
     gfb := []; gtargets := [1; 2] |}.
Example C02_example :
  let s := fst (run ex_fan (init ex_fan) [Reg 1 0 true; Org [0] None [1]; Tick]) in
  mem 0 (que s) = true /\ length (ns s) = nnodes ex_fan /\
  consumer ex_fan 0 [(1, 0, true); (1, 1, false)] 1 /\
  let s' := fst (res ex_fan 0 1 1%Z Success [(1, 0, true); (1, 1, false)] s) in
  todo (getn (ns s') 1) = [1] /\ todo (getn (ns s') 2) = [] /\ que s' = [1].
Proof.
  split; [reflexivity|]. split; [reflexivity|]. split.
  - left. unfold child_consumer. split; [left; reflexivity|]. split; [discriminate|].
    exists 0. split; left; reflexivity.
  - vm_compute. repeat split; reflexivity.
Qed.
