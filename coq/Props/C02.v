(* C02 -- Reprocessing after a change is complete and minimal (trigger level).
   Model: Sched.v (Hand._res -> complete -> update -> organize; dispatch).
   Every theorem: for EVERY engine c, EVERY state s with one attribute record per
   node (length (ns s) = nnodes c, an invariant: C02_len_invariant), every reply.
   The end-state clause of the property is treated in DESIGN.md (known finding
   C02 endstate-stale; C02_endstate_* live with the store model). *)
From Coq Require Import List Arith ZArith Bool.
From DV Require Import Model.Sched Proofs.SchedLib Proofs.SchedOrg Proofs.SchedC02.
Import ListNotations.

(* vocabulary (definitions in Proofs/SchedC02.v, Proofs/SchedOrg.v):
   new_names vs     value names flagged new in the report
   new_targets vs   targets of those values
   consumer c x vs y  :=  y is a child of x (y <> x) declaring one of the new
                          names as input, or the registered consumer of a fed-back new value
   tgt_added c y tg u :=  if y is an analysis then u = ALL
                          else if ALL in tg then u is any known target else u in tg *)

(* COMPLETE: after a success report with new values every consumer is pending for
   the affected targets and sits in the queue *)
Theorem C02_complete_step : forall c x t r vs s y u,
  mem x (que s) = true -> length (ns s) = nnodes c -> vs <> [] ->
  y < nnodes c -> consumer c x vs y -> tgt_added c y (new_targets vs) u ->
  let s' := fst (res c x t r Success vs s) in
  In u (todo (getn (ns s') y)) /\ In y (que s').
Proof.
  intros c x t r vs s y u Hq Hl Hv Hy Hc Ht s'. split.
  - apply (success_todo c x t r vs s Hq Hl Hv). right. auto.
  - apply (success_que c x t r vs s Hq Hl Hv). right. auto.
Qed.
Print Assumptions C02_complete_step.

(* MINIMAL: the report makes nothing else pending -- a node gains a target only if
   it is a consumer of a new value, and only the affected targets *)
Theorem C02_minimal_step : forall c x t r vs s y u,
  mem x (que s) = true -> length (ns s) = nnodes c -> vs <> [] ->
  let s' := fst (res c x t r Success vs s) in
  In u (todo (getn (ns s') y)) ->
  In u (todo (getn (ns s) y)) \/
  (y < nnodes c /\ consumer c x vs y /\ tgt_added c y (new_targets vs) u).
Proof.
  intros c x t r vs s y u Hq Hl Hv s' H. apply (success_todo c x t r vs s Hq Hl Hv). exact H.
Qed.
Print Assumptions C02_minimal_step.

(* nothing is reported new => nothing becomes pending (flags all false) *)
Theorem C02_nothing_new_nothing_runs : forall c x t r vs s y u,
  mem x (que s) = true -> length (ns s) = nnodes c -> vs <> [] -> new_names vs = [] ->
  In u (todo (getn (ns (fst (res c x t r Success vs s))) y)) -> In u (todo (getn (ns s) y)).
Proof.
  intros c x t r vs s y u Hq Hl Hv Hn H.
  apply (success_todo c x t r vs s Hq Hl Hv) in H. destruct H as [H|(_ & Hc & _)]; [exact H|].
  exfalso. destruct Hc as [(_ & _ & i & _ & Hi)|Hf].
  - rewrite Hn in Hi. contradiction.
  - unfold fb_consumers in Hf. rewrite Hn in Hf. contradiction.
Qed.
Print Assumptions C02_nothing_new_nothing_runs.

(* over whole histories: pending work disappears only by being released (it is then
   executing), by a failed/invalid run of an upstream algorithm on that target
   (C05), or by a rebuild; and it appears only by an explicit request, a success
   report carrying a new input, or a rebuild naming the node (new version).
   Hence "transitively, after that report": the consumer stays pending until it is
   released, and its own report triggers its consumers by the same theorem. *)
Theorem C02_pending_not_lost : forall c s e y u, length (ns s) = nnodes c ->
  In u (todo (getn (ns s) y)) -> ~ In u (todo (getn (ns (fst (step c s e))) y)) ->
  (e = Tick /\ In u (doing (getn (ns (fst (step c s e))) y))) \/
  (exists w x r o vs, e = Rep w x u r o vs /\ o <> Success /\ mem y (descend c (nnodes c) x) = true) \/
  (exists ch, e = Build ch).
Proof. exact step_pending_lost. Qed.
Print Assumptions C02_pending_not_lost.

Theorem C02_gain_has_cause : forall c s e y u, length (ns s) = nnodes c ->
  ~ In u (todo (getn (ns s) y)) -> In u (todo (getn (ns (fst (step c s e))) y)) ->
  (exists names r tg, e = Org names r tg /\ In y names /\ tgt_added c y tg u) \/
  (exists w x t r vs, e = Rep w x t r Success vs /\ consumer c x vs y /\ tgt_added c y (new_targets vs) u) \/
  (exists ch, e = Build ch /\ In y ch).
Proof. exact step_pending_gain. Qed.
Print Assumptions C02_gain_has_cause.

Theorem C02_len_invariant : forall c es, length (ns (fst (run c (init c) es))) = nnodes c.
Proof.
  intros c es. assert (G : forall s, length (ns s) = nnodes c -> length (ns (fst (run c s es))) = nnodes c).
  { induction es as [|e es IH]; intros s Hl; cbn [run]; [exact Hl|].
    pose proof (step_len c s e Hl) as L1. destruct (step c s e) as [s1 o]. cbn [fst] in L1.
    specialize (IH s1 L1). destruct (run c s1 es) as [s2 os]. exact IH. }
  apply G. cbn. apply repeat_length.
Qed.
Print Assumptions C02_len_invariant.

(* non-vacuity: a0 -> {a1 (reads v0), a2 (reads v1)}; a0 reports v0 new, v1 old:
   a1 becomes pending for the target, a2 does not *)
Definition ex_fan : cfg :=
  {| gnodes := [ {| kids := [1; 2]; anc := []; gfac := Task; lvl := 0; ins := [] |};
                 {| kids := []; anc := [0]; gfac := Task; lvl := 1; ins := [0] |};
                 {| kids := []; anc := [0]; gfac := Task; lvl := 1; ins := [1] |} ];
     gfb := []; gtargets := [1; 2] |}.
Example C02_example :
  let s := fst (run ex_fan (init ex_fan) [Reg 1 0 true; Org [0] None [1]; Tick]) in
  mem 0 (que s) = true /\ length (ns s) = nnodes ex_fan /\
  consumer ex_fan 0 [(1, 0, true); (1, 1, false)] 1 /\
  let s' := fst (res ex_fan 0 1 1%Z Success [(1, 0, true); (1, 1, false)] s) in
  todo (getn (ns s') 1) = [1] /\ todo (getn (ns s') 2) = [] /\ que s' = [1].
Proof.
  split; [reflexivity|]. split; [reflexivity|]. split.
  - left. unfold child_consumer. split; [left; reflexivity|]. split; [discriminate|].
    exists 0. split; left; reflexivity.
  - vm_compute. repeat split; reflexivity.
Qed.

(* ======================================================================
   END STATE (Model/Flow.v): the scheduler model composed with run ids as the
   code hands them out (one `runid` attribute per node, overwritten by every
   organize; db.next() at dispatch), the primary table with the load rule of
   shelve Interface._load (own run first, else highest run id) and
   deterministic algorithms whose output is an injective term of what they
   loaded; a value is new iff no blob with that content exists.

   vocabulary (Proofs/FlowInv.v, FlowSteps.v, FlowMain.v):
   flow_ok c      task-only engine, no feedback, one value per algorithm (value
                  id = node id), kids = the algorithms declaring the node's value,
                  levels increase along declared inputs, `ancestry` contains the
                  declared inputs and is transitive, ALL is not a target
   hist_ok c f es every change event FChg names tgts of es arrives at a QUIESCENT
                  pipeline (nothing pending, nothing executing: the change events
                  do not overlap), names algorithms without declared inputs and
                  known targets, and the first one names all of them for all
                  targets (nothing was computed before); ticks and runs (any
                  waiting message, any order) are unconstrained; every worker succeeds
   consistent c f the latest stored content (highest run id) of every known
                  target and value = eval_topo: the from-scratch run, every
                  algorithm once in level order reading what the earlier ones wrote
   ====================================================================== *)
From Coq Require Import Lia.
From DV Require Import Model.Flow Proofs.FlowProofs Proofs.FlowInv Proofs.FlowSteps Proofs.FlowMain.

(* PARTIAL: what is missing with respect to the property text
   - change events that overlap (refuted below: the open finding endstate-stale);
   - engines with several values per algorithm, value-level fan-out, feedback,
     analyses/regressions (flow_ok); failures of workers;
   - the freshness hypothesis of the property is discharged, not assumed: a
     changed external input gets a content never stored before (change counter),
     and the proof shows every re-run value is then new as well. *)
Theorem C02_endstate_partial : forall c, flow_ok c = true -> forall es,
  hist_ok c (finit c) es = true ->
  let f := frun_all c (finit c) es in
  0 < ctr f -> quiescent c f = true -> consistent c f = true.
Proof. exact endstate_nonoverlap. Qed.
Print Assumptions C02_endstate_partial.

(* the same, one event at a time: from ANY state satisfying the invariant FInv
   (every state reached by a non-overlapping history does: C02_endstate_invariant)
   one more change event followed by any ticks and runs ends consistent *)
Theorem C02_endstate_one_event : forall c, flow_ok c = true -> forall b f names tgts es,
  FInv c b f -> quiescent c f = true -> chg_ok c f names tgts = true ->
  hist_ok c (fchg c names tgts f) es = true ->
  let f' := frun_all c (fchg c names tgts f) es in
  quiescent c f' = true -> consistent c f' = true.
Proof. exact endstate_one_event. Qed.
Print Assumptions C02_endstate_one_event.

Theorem C02_endstate_invariant : forall c, flow_ok c = true -> forall es,
  hist_ok c (finit c) es = true -> exists b, FInv c b (frun_all c (finit c) es).
Proof. intros c OK es H. exact (hist_FInv c OK es (finit c) 0%Z (init_FInv c) H). Qed.
Print Assumptions C02_endstate_invariant.

(* hist_ok implies the model's own `nonoverlap` predicate *)
Theorem C02_hist_ok_nonoverlap : forall c es f, hist_ok c f es = true -> nonoverlap c f es = true.
Proof. intros c es f. exact (hist_ok_nonoverlap c es f). Qed.
Print Assumptions C02_hist_ok_nonoverlap.

(* the load rule: while the entries written since the last change event are
   unique per (target, value), a job of a run id issued since then loads the
   latest stored content, whether or not it finds an entry of its own run *)
Theorem C02_load_is_latest : forall st (b r : Z) t v,
  (forall e1 e2, In e1 st -> In e2 st -> same_key e1 t v = true -> same_key e2 t v = true ->
                 (b < e_rid e1)%Z -> (b < e_rid e2)%Z -> e1 = e2) ->
  (b < r)%Z -> sload st r t v = latest st t v.
Proof. exact sload_latest. Qed.
Print Assumptions C02_load_is_latest.

(* the reference: the fold in level order computes the recursion on declared inputs *)
Theorem C02_eval_topo_rec : forall c, flow_ok c = true -> forall l t v, v < nnodes (fc c) ->
  lookup (eval_topo c l t) v = eval_rec c l (S (lvl (gi (fc c) v))) t v.
Proof. intros c OK l t v Hv. exact (eval_topo_ev c OK l t v Hv). Qed.
Print Assumptions C02_eval_topo_rec.

(* REFUTED for overlapping change events -- the model image of the open known
   finding endstate-stale, replayed on the real scheduler + shelve store on every
   run of the check (props/c02_flow.py WITNESS).  Roots a (0) and b (1); c (2)
   reads b; d (3) reads a and c.  Both roots change (run 1); while c executes, a
   changes again (run 2) and its report marks d for run 2; then c's report (run
   1) overwrites d's single run id with 1; d runs once, under run 1, finds the
   exact-run entry a@1 although a@2 exists, and nothing triggers it again. *)
Definition ex_vee : fcfg :=
  {| fc := {| gnodes := [ {| kids := [3]; anc := []; gfac := Task; lvl := 0; ins := [] |};
                          {| kids := [2]; anc := []; gfac := Task; lvl := 0; ins := [] |};
                          {| kids := [3]; anc := [1]; gfac := Task; lvl := 1; ins := [1] |};
                          {| kids := []; anc := [0; 1; 2]; gfac := Task; lvl := 2; ins := [0; 2] |} ];
              gfb := []; gtargets := [1] |};
     fouts := [[0]; [1]; [2]; [3]] |}.
Definition ex_stale_hist : list fev :=
  [FChg [0; 1] [1]; FTick; FRun 0; FRun 0; FTick; FChg [0] [1]; FTick; FRun 1; FRun 0; FTick; FRun 0].

Theorem C02_endstate_refuted : exists c es,
  flow_ok c = true /\
  let f := frun_all c (finit c) es in
  0 < ctr f /\ quiescent c f = true /\ consistent c f = false /\
  nonoverlap c (finit c) es = false /\
  stale_values c f = [(1, 3)] /\
  latest (sto f) 1 3 = CVal 3 1 0 [CVal 0 1 1 []; CVal 2 1 0 [CVal 1 1 1 []]] /\
  lookup (eval_topo c (rin f) 1) 3 = CVal 3 1 0 [CVal 0 1 2 []; CVal 2 1 0 [CVal 1 1 1 []]].
Proof. exists ex_vee, ex_stale_hist. vm_compute. repeat split; try reflexivity. lia. Qed.
Print Assumptions C02_endstate_refuted.

(* non-vacuity: the hypotheses of C02_endstate_partial are satisfiable (diamond,
   two change events, the second after the first has settled; runs out of order)
   and its conclusion is what the model computes *)
Example C02_endstate_example :
  flow_ok ex_diamond = true /\ hist_ok ex_diamond (finit ex_diamond) ex_hist = true /\
  let f := frun_all ex_diamond (finit ex_diamond) ex_hist in
  0 < ctr f /\ quiescent ex_diamond f = true /\ consistent ex_diamond f = true /\
  latest (sto f) 1 3 = CVal 3 1 0 [CVal 1 1 0 [CVal 0 1 2 []]; CVal 2 1 0 [CVal 0 1 2 []]].
Proof. vm_compute. repeat split; try reflexivity. lia. Qed.

(* non-vacuity of C02_endstate_one_event: the same engine, the second event alone *)
Example C02_endstate_one_event_example :
  let f := frun_all ex_diamond (finit ex_diamond) (firstn 8 ex_hist) in
  quiescent ex_diamond f = true /\ chg_ok ex_diamond f [0] [1] = true /\
  hist_ok ex_diamond (fchg ex_diamond [0] [1] f) (skipn 9 ex_hist) = true /\
  quiescent ex_diamond (frun_all ex_diamond (fchg ex_diamond [0] [1] f) (skipn 9 ex_hist)) = true.
Proof. vm_compute. repeat split; reflexivity. Qed.

(* the witness engine is in the class of the theorem: only the overlap is outside *)
Example C02_refuted_in_class : flow_ok ex_vee = true /\ hist_ok ex_vee (finit ex_vee) ex_stale_hist = false.
Proof. vm_compute. split; reflexivity. Qed.

(* ======================================================================
   END STATE WITH WORKER FAILURES (Model/Flow2.v = Model/Flow.v + the event
   `FFail k`: the k-th waiting task message is executed, the algorithm raises
   after loading and before updating its data set, the worker answers
   suc=False; Hand._res -> complete -> purge).

   vocabulary (Model/Flow2.v, Proofs/Flow2Inv.v, Flow2Main.v):
   wd g           GHOST list of the WITHDRAWN units (algorithm, target, contents
                  held at that moment): a failed run of (x, T) records x and
                  every algorithm the purge recursion reaches from x (descend),
                  for target T, unless already recorded; a successful run of
                  (y, T) removes (y, T).  Written by the two run events only,
                  read by nothing.
   reach C a x    a is upstream of x along declared inputs (a = x included)
   lev c f t x v  the content x's algorithm computes for value v and target t
                  from the LATEST stored content of its declared inputs
   hist_ok2       as hist_ok: change events arrive at a quiescent pipeline, name
                  algorithms without declared inputs and known targets, the first
                  names all of them; ticks, successful and FAILED runs of any
                  waiting message are unconstrained
   ====================================================================== *)
From DV Require Import Model.Flow2 Proofs.Flow2Inv Proofs.Flow2Main.

(* PARTIAL: what is still missing with respect to the property text: change
   events that overlap (refuted above), several values per algorithm /
   value-level fan-out, feedback, analyses/regressions (flow_ok); a failure is an
   algorithm that raises BEFORE it updates its data set (nothing stored).
   At quiescence:
   (1) every (target, algorithm) with NO withdrawn unit upstream (itself
       included) -- every run it depends on succeeded since the last failure --
       holds the from-scratch value eval_topo;
   (2) every (target, algorithm) holds what its algorithm computes from the
       latest stored content of its inputs, or has a withdrawn unit upstream;
   (3) a withdrawn unit holds the content it held when it was withdrawn. *)
Theorem C02_endstate_failures_partial : forall c, flow_ok c = true -> forall es,
  hist_ok2 c (finit2 c) es = true ->
  let g := frun_all2 c (finit2 c) es in
  0 < ctr (fs g) -> quiescent c (fs g) = true ->
  (forall x t, x < nnodes (fc c) -> In t (gtargets (fc c)) ->
     (forall a, reach (fc c) a x -> wd_has (wd g) a t = false) ->
     latest (sto (fs g)) t x = lookup (eval_topo c (rin (fs g)) t) x) /\
  (forall x t, x < nnodes (fc c) -> In t (gtargets (fc c)) ->
     latest (sto (fs g)) t x = lev c (fs g) t x x \/
     exists a, reach (fc c) a x /\ wd_has (wd g) a t = true) /\
  (forall x t k, In (x, t, k) (wd g) -> k = map (latest (sto (fs g)) t) (outs c x)).
Proof. exact endstate_failures. Qed.
Print Assumptions C02_endstate_failures_partial.

(* the invariant behind it holds in every state of such a history *)
Theorem C02_endstate_failures_invariant : forall c, flow_ok c = true -> forall es,
  hist_ok2 c (finit2 c) es = true -> exists b, FInv2 c b (frun_all2 c (finit2 c) es).
Proof. intros c OK es H. exact (hist_FInv2 c OK es (finit2 c) 0%Z (init_FInv2 c) H). Qed.
Print Assumptions C02_endstate_failures_invariant.

(* specialisation: on a history of Flow.v (no failed run) the extended model IS
   Flow.v, nothing is withdrawn, and (1) is the conclusion of C02_endstate_partial *)
Theorem C02_failures_extend_flow : forall c, flow_ok c = true -> forall es,
  hist_ok c (finit c) es = true ->
  let g := frun_all2 c (finit2 c) (map F1 es) in
  0 < ctr (fs g) -> quiescent c (fs g) = true ->
  fs g = frun_all c (finit c) es /\ wd g = [] /\
  forall x t, x < nnodes (fc c) -> In t (gtargets (fc c)) ->
    latest (sto (fs g)) t x = lookup (eval_topo c (rin (fs g)) t) x.
Proof. exact endstate_failures_none. Qed.
Print Assumptions C02_failures_extend_flow.

(* a failed run stores nothing and creates no blob *)
Theorem C02_failed_run_stores_nothing : forall c k f,
  sto (ffail c k f) = sto f /\ blobs (ffail c k f) = blobs f /\ rin (ffail c k f) = rin f.
Proof. intros c k f. unfold ffail. destruct (nth_error (cluster (sch f)) k); cbn; auto. Qed.
Print Assumptions C02_failed_run_stores_nothing.

(* non-vacuity: diamond a -> {b, c} -> d; c fails in the first event: c and d are
   withdrawn (d although b reported a new value) and hold nothing; a and b have
   nothing withdrawn upstream and hold the from-scratch value; after a second
   event in which every run succeeds nothing is withdrawn and all is consistent *)
Example C02_endstate_failures_example :
  flow_ok ex_diamond = true /\
  hist_ok2 ex_diamond (finit2 ex_diamond) ex_fail_hist = true /\
  hist_ok2 ex_diamond (finit2 ex_diamond) ex_fail_hist2 = true /\
  let g := frun_all2 ex_diamond (finit2 ex_diamond) ex_fail_hist in
  0 < ctr (fs g) /\ quiescent ex_diamond (fs g) = true /\
  wd g = [(2, 1, [CNone]); (3, 1, [CNone])] /\
  latest (sto (fs g)) 1 1 = CVal 1 1 0 [CVal 0 1 1 []] /\
  lookup (eval_topo ex_diamond (rin (fs g)) 1) 1 = CVal 1 1 0 [CVal 0 1 1 []] /\
  consistent ex_diamond (fs g) = false /\
  let g2 := frun_all2 ex_diamond (finit2 ex_diamond) ex_fail_hist2 in
  quiescent ex_diamond (fs g2) = true /\ wd g2 = [] /\ consistent ex_diamond (fs g2) = true.
Proof. vm_compute. repeat split; try reflexivity; try lia. Qed.

(* upstream of b in the diamond: a and b only -- hypothesis (1) is satisfiable there *)
Example C02_endstate_failures_clean_unit :
  let g := frun_all2 ex_diamond (finit2 ex_diamond) ex_fail_hist in
  forall a, reach (fc ex_diamond) a 1 -> wd_has (wd g) a 1 = false.
Proof.
  intros g a R. assert (E : a = 1 \/ a = 0).
  { inversion R as [|a0 p x0 R1 Hp]; subst; [left; reflexivity|]. cbn in Hp. destruct Hp as [<-|[]].
    inversion R1 as [|a1 p1 x1 R2 Hp1]; subst; [right; reflexivity|]. cbn in Hp1. destruct Hp1. }
  destruct E as [->| ->]; vm_compute; reflexivity.
Qed.

(* ======================================================================
   WIDER CLASS OF ENGINES: algorithms with SEVERAL values, a child declaring
   only some of them (Proofs/Flow3Inv.v, Flow3Main.v; the model is Model/Flow2.v
   unchanged, failed runs included).

   flow_ok_mv c   task-only, no feedback; every algorithm produces >= 1 value, no
                  value twice, no value produced by two algorithms; a declared
                  input is a value of an algorithm of a lower level that is in the
                  `ancestry`; kids = the algorithms declaring ONE OR MORE of the
                  node's values; ancestry transitive; ALL is not a target
   reachv c a x   a is upstream of x: x declares a value of p, p one of q, ... (a = x included)
   ====================================================================== *)
From DV Require Import Proofs.Flow3Inv Proofs.Flow3Main.

(* PARTIAL: still missing: overlapping change events (refuted above), feedback,
   analyses/regressions.  In the model every value of an algorithm is computed
   from ALL its declared inputs, so a successful re-run reports all its values
   new: value-level fan-out is covered in the form "a child is re-run iff it
   declares one of the values of the re-run algorithm" (a report flagging only
   SOME values new is covered at trigger level by C02_complete_step /
   C02_minimal_step, not in the end-state theorem). *)
Theorem C02_endstate_mv_partial : forall c, flow_ok_mv c = true -> forall es,
  hist_ok2 c (finit2 c) es = true ->
  let g := frun_all2 c (finit2 c) es in
  0 < ctr (fs g) -> quiescent c (fs g) = true ->
  (forall x t v, x < nnodes (fc c) -> In t (gtargets (fc c)) -> In v (outs c x) ->
     (forall a, reachv c a x -> wd_has (wd g) a t = false) ->
     latest (sto (fs g)) t v = lookup (eval_topo c (rin (fs g)) t) v) /\
  (forall x t, x < nnodes (fc c) -> In t (gtargets (fc c)) ->
     (forall v, In v (outs c x) -> latest (sto (fs g)) t v = lev c (fs g) t x v) \/
     exists a, reachv c a x /\ wd_has (wd g) a t = true) /\
  (forall x t k, In (x, t, k) (wd g) -> k = map (latest (sto (fs g)) t) (outs c x)).
Proof. exact endstate_failures_mv. Qed.
Print Assumptions C02_endstate_mv_partial.

(* without failed runs: the full `consistent` predicate of Model/Flow.v *)
Theorem C02_endstate_mv_nofail_partial : forall c, flow_ok_mv c = true -> forall es,
  hist_ok2 c (finit2 c) (map F1 es) = true ->
  let f := frun_all c (finit c) es in
  0 < ctr f -> quiescent c f = true -> consistent c f = true.
Proof. exact endstate_mv_nofail. Qed.
Print Assumptions C02_endstate_mv_nofail_partial.

Theorem C02_endstate_mv_invariant : forall c, flow_ok_mv c = true -> forall es,
  hist_ok2 c (finit2 c) es = true -> exists b, FInv3 c b (frun_all2 c (finit2 c) es).
Proof. intros c OK es H. exact (hist_FInv3 c OK es (finit2 c) 0%Z (init_FInv3 c) H). Qed.
Print Assumptions C02_endstate_mv_invariant.

(* the class of C02_endstate_partial / C02_endstate_failures_partial is inside the wider one *)
Theorem C02_flow_ok_is_mv : forall c, flow_ok c = true -> flow_ok_mv c = true.
Proof. exact flow_ok_mv_of_flow_ok. Qed.
Print Assumptions C02_flow_ok_is_mv.

(* non-vacuity: a produces values 0 and 1; b declares value 0 (produces 2); c
   declares value 1 (produces 3 and 4); d declares 2 and 4 (produces 5).
   First event: c fails (c, d withdrawn); second event: all succeed. *)
Definition ex_mv : fcfg :=
  {| fc := {| gnodes := [ {| kids := [1; 2]; anc := []; gfac := Task; lvl := 0; ins := [] |};
                          {| kids := [3]; anc := [0]; gfac := Task; lvl := 1; ins := [0] |};
                          {| kids := [3]; anc := [0]; gfac := Task; lvl := 1; ins := [1] |};
                          {| kids := []; anc := [0; 1; 2]; gfac := Task; lvl := 2; ins := [2; 4] |} ];
              gfb := []; gtargets := [1] |};
     fouts := [[0; 1]; [2]; [3; 4]; [5]] |}.

Example C02_endstate_mv_example :
  flow_ok_mv ex_mv = true /\ flow_ok ex_mv = false /\
  hist_ok2 ex_mv (finit2 ex_mv) ex_fail_hist = true /\
  hist_ok2 ex_mv (finit2 ex_mv) ex_fail_hist2 = true /\
  let g := frun_all2 ex_mv (finit2 ex_mv) ex_fail_hist in
  0 < ctr (fs g) /\ quiescent ex_mv (fs g) = true /\
  wd g = [(2, 1, [CNone; CNone]); (3, 1, [CNone])] /\
  latest (sto (fs g)) 1 2 = CVal 2 1 0 [CVal 0 1 1 []] /\
  lookup (eval_topo ex_mv (rin (fs g)) 1) 2 = CVal 2 1 0 [CVal 0 1 1 []] /\
  let g2 := frun_all2 ex_mv (finit2 ex_mv) ex_fail_hist2 in
  quiescent ex_mv (fs g2) = true /\ wd g2 = [] /\ consistent ex_mv (fs g2) = true /\
  latest (sto (fs g2)) 1 5 = CVal 5 1 0 [CVal 2 1 0 [CVal 0 1 2 []]; CVal 4 1 0 [CVal 1 1 2 []]].
Proof. vm_compute. repeat split; try reflexivity; try lia. Qed.

(* MINIMAL over a whole propagation: after any prefix of a non-overlapping
   history (failed runs allowed), as long as no further change event arrives,
   every (algorithm, target) completes AT MOST ONE successful run -- nothing is
   recomputed twice for one change event (nruns counts the FRun events that
   execute a message of (x, t); Proofs/Flow3Min.v) *)
From DV Require Import Proofs.Flow3Min.
Theorem C02_one_run_per_event : forall c, flow_ok_mv c = true -> forall es1 es2 x t,
  hist_ok2 c (finit2 c) (es1 ++ es2) = true -> nochg es2 = true ->
  nruns c (frun_all2 c (finit2 c) es1) es2 x t <= 1.
Proof. intros c OK es1 es2 x t. exact (one_run_per_event_hist c OK es1 es2 x t). Qed.
Print Assumptions C02_one_run_per_event.

Example C02_one_run_per_event_example :
  let es1 := firstn 8 ex_fail_hist2 in let es2 := skipn 8 ex_fail_hist2 in
  hist_ok2 ex_mv (finit2 ex_mv) (es1 ++ es2) = true /\ nochg es2 = true /\ length es2 = 7 /\
  map (fun x => nruns ex_mv (frun_all2 ex_mv (finit2 ex_mv) es1) es2 x 1) [0; 1; 2; 3] = [1; 1; 1; 1].
Proof. vm_compute. repeat split; reflexivity. Qed.
