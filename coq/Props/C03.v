(* C03 -- Each released unit runs once at a time and its result is never dropped.
   Model: Sched.v.  Ghost state: inflight = task messages written to a worker and
   not yet answered; queued = the cluster queue. *)
From Coq Require Import List Arith ZArith Bool Permutation.
From DV Require Import Model.Sched Proofs.SchedLib Proofs.SchedC11 Proofs.SchedBatch Proofs.SchedC03 Proofs.SchedExact.
Import ListNotations.

(* a released unit is handed to at most one worker and otherwise stays queued:
   per tick, (messages handed out) ++ (queue afterwards) is a permutation of
   (queue before) ++ (messages made now); one message per worker *)
Theorem C03_one_worker_or_queued : forall c s, active s = true ->
  (exists newms,
     Permutation (map snd (skipn (length (inflight s)) (inflight (fst (dispatch c s))))
                  ++ cluster (fst (dispatch c s)))
                 (cluster s ++ newms)) /\
  (NoDup (map fst (workers s)) -> forall w m m',
     In (OTask w m) (snd (dispatch c s)) -> In (OTask w m') (snd (dispatch c s)) -> m' = m).
Proof.
  intros c s A. split.
  - destruct (dispatch_conservation c s A) as (newms & _ & P). exists newms. exact P.
  - intros N w m m' H H'. destruct (tasked_worker_leaves c s w m N H) as [_ U]. apply U. exact H'.
Qed.
Print Assumptions C03_one_worker_or_queued.

(* a dispatch never releases a target that the node itself is still doing (the
   re-request of an executing unit waits for the running one), in every history *)
Theorem C03_no_rerelease_while_doing : forall c es,
  let s := fst (run c (init c) es) in
  active s = true ->
  exists newms cl k,
    Permutation cl (cluster s ++ newms) /\
    cluster (fst (dispatch c s)) = skipn k cl /\
    forall m, In m newms -> ~ In (m_tgt m) (doing (getn (ns s) (m_job m))).
Proof.
  intros c es s A. destruct (run_Inv c es (init c) (init_Inv c)) as (_ & _ & D & Ia).
  apply no_rerelease_all; assumption.
Qed.
Print Assumptions C03_no_rerelease_while_doing.

(* every result whose unit the scheduler still counts as doing is applied exactly
   once: one history entry, then update (success) or purge (otherwise) -- in every
   history from boot *)
Theorem C03_applied_once : forall c es x t r o vs,
  let s := fst (run c (init c) es) in
  In t (doing (getn (ns s) x)) ->
  snd (res c x t r o vs s) = [OChron x t r o] /\
  fst (res c x t r o vs s) =
    let s1 := set_busy s (filter (fun u => negb (unit_eqb u (x, t))) (busy s)) in
    match o with
    | Success => update c vs x r (set_archive (complete c x t s1)
                   (archive (complete c x t s1) || match vs with [] => false | _ :: _ => true end))
    | _ => purge c x t (complete c x t s1)
    end.
Proof.
  intros c es x t r o vs s H. apply reply_applied.
  apply (doing_reply_found c s x t (run_Inv c es (init c) (init_Inv c)) H).
Qed.
Print Assumptions C03_applied_once.

(* the crew view equals the units in flight, step by step, as long as each reply
   comes from the only worker holding that unit *)
Theorem C03_crew_view : forall c s e,
  busy s = map (fun p => msg_unit (snd p)) (inflight s) ->
  (forall w x t r o vs, e = Rep w x t r o vs ->
     forall p, In p (inflight s) -> msg_unit (snd p) = (x, t) -> fst p = w) ->
  busy (fst (step c s e)) = map (fun p => msg_unit (snd p)) (inflight (fst (step c s e))).
Proof. exact step_crew_exact. Qed.
Print Assumptions C03_crew_view.

(* ---- the property at full strength, for CLEAN histories ----
   clean_run c (init c) es (Proofs/SchedExact.v): every reply is for a unit some
   worker holds; a failed / invalid run of X on T never arrives while a strict
   dependent of X is itself executing T (the overlap of the open known finding);
   an all-targets reply comes from an analysis; a rebuild happens with nothing
   executing.  units s = the (algorithm, target) pairs of all task messages queued
   for a worker or handed to one and not yet answered. *)

(* at most one execution of a given algorithm on a given target is in flight *)
Theorem C03_single_flight_clean : forall c es, clean_run c (init c) es ->
  NoDup (units (fst (run c (init c) es))).
Proof. intros c es H. apply (clean_boot c es H). Qed.
Print Assumptions C03_single_flight_clean.

(* the scheduler's doing sets are exactly the units in flight *)
Theorem C03_doing_is_in_flight_clean : forall c es x t, clean_run c (init c) es ->
  let s := fst (run c (init c) es) in
  In t (doing (getn (ns s) x)) <-> In (x, t) (units s).
Proof. intros c es x t H. apply (clean_boot c es H). Qed.
Print Assumptions C03_doing_is_in_flight_clean.

(* every result is applied exactly once and never dropped: the last event of a
   clean history being a reply, it writes exactly one history entry *)
Theorem C03_never_dropped_clean : forall c es w x t r o vs,
  clean_run c (init c) es ->
  clean c (fst (run c (init c) es)) (Rep w x t r o vs) ->
  snd (step c (fst (run c (init c) es)) (Rep w x t r o vs)) = [OChron x t r o].
Proof.
  intros c es w x t r o vs H Hc. destruct (clean_boot c es H) as (I & E & S & _).
  apply (rep_exact c _ w x t r o vs I E S Hc).
Qed.
Print Assumptions C03_never_dropped_clean.

(* the crew view of busy work equals the units in flight *)
Theorem C03_crew_view_clean : forall c es, clean_run c (init c) es ->
  let s := fst (run c (init c) es) in
  busy s = map (fun p => msg_unit (snd p)) (inflight s).
Proof.
  intros c es H. destruct (init_exact c) as (E & S & N).
  apply (run_crew c es (init c) (init_Inv c) E S N); [reflexivity|exact H].
Qed.
Print Assumptions C03_crew_view_clean.

(* REFUTED in general (open known finding C03 duplicate-flight): chain a0 -> a1.
   a1 runs on worker 1; a0 is re-run and fails: purge removes the target from a1's
   doing although worker 1 still executes it; a1 is requested again and released to
   worker 3: two executions of (a1, T) in flight; the first reply removes a1 from the
   queue, the second is dropped; the crew view loses both entries at the first reply. *)
Definition c03_chain : cfg :=
  {| gnodes := [ {| kids := [1]; anc := []; gfac := Task; lvl := 0; ins := [] |};
                 {| kids := []; anc := [0]; gfac := Task; lvl := 1; ins := [0] |} ];
     gfb := []; gtargets := [1] |}.
Definition c03_es : list ev :=
  [Reg 1 0 true; Reg 2 0 true; Reg 3 0 true;
   Org [1] None [1]; Tick; Org [0] None [1]; Tick; Rep 2 0 1 1%Z Failure [];
   Org [1] None [1]; Tick].
Theorem C03_single_flight_refuted :
  let s := fst (run c03_chain (init c03_chain) c03_es) in
  map (fun p => (fst p, msg_unit (snd p))) (inflight s) = [(1, (1, 1)); (3, (1, 1))] /\
  (let r1 := step c03_chain s (Rep 1 1 1 1%Z Success [(1, 1, false)]) in
   snd r1 = [OChron 1 1 1%Z Success] /\ busy (fst r1) = [] /\
   map (fun p => (fst p, msg_unit (snd p))) (inflight (fst r1)) = [(3, (1, 1))] /\
   snd (step c03_chain (fst r1) (Rep 3 1 1 1%Z Success [(1, 1, true)])) = [ODropped 1]).
Proof. vm_compute. repeat split; reflexivity. Qed.
Print Assumptions C03_single_flight_refuted.

(* non-vacuity: a re-request of an executing unit waits; after the first reply it is released *)
Example C03_rerequest_example :
  let es := [Reg 1 0 true; Reg 2 0 true; Org [0] None [1]; Tick; Org [0] None [1]; Tick] in
  let s := fst (run c03_chain (init c03_chain) es) in
  map (fun p => msg_unit (snd p)) (inflight s) = [(0, 1)] /\ todo (getn (ns s) 0) = [1] /\
  let s2 := fst (run c03_chain s [Rep 1 0 1 1%Z Success [(1, 0, false)]; Tick]) in
  map (fun p => (fst p, msg_unit (snd p))) (inflight s2) = [(2, (0, 1))].
Proof. vm_compute. repeat split; reflexivity. Qed.

(* non-vacuity of the clean-history theorems: a history with a request, a release
   and a FAILED reply (no dependent executing) is clean *)
Example C03_clean_example :
  clean_run c03_chain (init c03_chain)
    [Reg 1 0 true; Org [0; 1] None [1]; Tick; Rep 1 0 1 1%Z Failure []].
Proof.
  cbn [clean_run]. split; [exact I|]. split; [exact I|]. split; [exact I|]. split; [|exact I].
  unfold clean. split; [|split].
  - exists {| m_job := 0; m_tgt := 1; m_rid := 1%Z; m_fac := Task |}. vm_compute. auto.
  - intros _ y Ny _. vm_compute. intros [H|[]]. inversion H. congruence.
  - intros E. discriminate.
Qed.

(* ==== histories WITH refused run ids (Model/SchedFault.v: xrun over list xev) ==== *)
From DV Require Import Model.SchedFault Proofs.SchedFaultInv.

(* a released unit is handed to at most one worker and otherwise stays queued --
   for a dispatch with a refused k-th run-id request (k = 0: none), from ANY state
   satisfying the invariants that survive refused requests (GInv; every state of
   every history, C03_faults_reach): what is handed out plus the queue afterwards
   is a permutation of the queue before plus the messages made now; the workers
   that receive a message are pairwise distinct *)
Theorem C03_one_worker_or_queued_faults : forall c k s, GInv c s -> active s = true ->
  let s' := fst (dispatch_fault c k s) in
  exists newms cl n,
    Permutation cl (cluster s ++ newms) /\
    n = Nat.min (length cl) (length (workers_sort (workers s))) /\
    cluster s' = skipn n cl /\
    inflight s' = inflight s ++ combine (map fst (firstn n (workers_sort (workers s)))) (firstn n cl) /\
    (NoDup (map fst (workers s)) ->
     NoDup (map fst (combine (map fst (firstn n (workers_sort (workers s)))) (firstn n cl)))).
Proof.
  intros c k s G A. destruct (fault_messages c k s G A) as (newms & cl & n & P & Hn & C & F & _).
  exists newms, cl, n. repeat (split; [assumption|]). intros N. subst n. apply handed_workers_nodup. exact N.
Qed.
Print Assumptions C03_one_worker_or_queued_faults.

Theorem C03_faults_reach : forall c xs, GInv c (xrun c (init c) xs).
Proof. intros c xs. apply xrun_GInv. apply init_GInv. Qed.
Print Assumptions C03_faults_reach.

(* no re-release while doing, in every history with refused requests: a message
   made by a dispatch is either for a target the node was NOT doing when the
   dispatch began (released now), or it is made from what the farm kept after a
   refused request (kept: the target is in the job's `do` set, or the job is an
   analysis on the farm's list) -- a kept unit is in `doing` since its release
   and has not been sent yet.  PARTIAL: that a kept unit is not ALSO in flight
   (single flight with refused requests) is not proved. *)
Theorem C03_no_rerelease_faults_partial : forall c xs e, is_tick e ->
  let s := xrun c (init c) xs in
  let s' := fst (xstep c s e) in
  active s = true ->
  exists newms cl n,
    Permutation cl (cluster s ++ newms) /\
    cluster s' = skipn n cl /\
    forall m, In m newms ->
      kept c s m \/ ~ In (m_tgt m) (doing (getn (ns s) (m_job m))).
Proof.
  intros c xs e T s s' A. destruct (tick_messages_fresh c xs e T A) as (newms & cl & n & P & _ & C & _ & M).
  exists newms, cl, n. split; [exact P|]. split; [exact C|]. intros m Hm. apply (M m Hm).
Qed.
Print Assumptions C03_no_rerelease_faults_partial.

(* every result whose unit the scheduler still counts as doing is applied exactly
   once, in every history with refused requests *)
Theorem C03_applied_once_faults : forall c xs x t r o vs,
  let s := xrun c (init c) xs in
  In t (doing (getn (ns s) x)) ->
  snd (res c x t r o vs s) = [OChron x t r o] /\
  fst (res c x t r o vs s) =
    let s1 := set_busy s (filter (fun u => negb (unit_eqb u (x, t))) (busy s)) in
    match o with
    | Success => update c vs x r (set_archive (complete c x t s1)
                   (archive (complete c x t s1) || match vs with [] => false | _ :: _ => true end))
    | _ => purge c x t (complete c x t s1)
    end.
Proof.
  intros c xs x t r o vs s H. apply reply_applied.
  apply (doing_reply_found_G c s x t (C03_faults_reach c xs) H).
Qed.
Print Assumptions C03_applied_once_faults.

(* non-vacuity: two jobs released, the 2nd request refused: job 0 is sent, job 1 is
   kept; it is requested for a second target and released again before the retry:
   it sits on the farm's list twice; the retry sends each of its targets ONCE *)
Example C03_faults_example :
  let c := {| gnodes := [ {| kids := []; anc := []; gfac := Task; lvl := 0; ins := [] |};
                          {| kids := []; anc := []; gfac := Task; lvl := 0; ins := [] |} ];
              gfb := []; gtargets := [1; 2] |} in
  let xs := [Ev (Reg 1 0 true); Ev (Org [0; 1] None [1]); TickFault 2; Ev (Org [1] None [2]); TickFault 1] in
  let s := xrun c (init c) xs in
  let s' := fst (xstep c s (Ev Tick)) in
  active s = true /\ jobs s = [1; 1] /\ do_ (getn (ns s) 1) = [1; 2] /\
  map (fun m => (m_job m, m_tgt m)) (cluster s') = [(1, 1); (1, 2)] /\ jobs s' = [].
Proof. vm_compute. repeat split; reflexivity. Qed.

(* ---- the todo set of the model IS dawgie.util.fifo.Unique (translation + proof) -------
   Gen/FifoGen.v is regenerated on every run from dawgie/util/fifo.py (class
   Unique: the object is the pair (__order, __unique)) by the fail-closed
   translator tools/translate/fifo2coq.py.  The model keeps `todo` as a list
   handled with Sched.add / addl / rem / mem.  Under the class invariant
   FifoGenEq.uinv (both containers hold the same elements, no duplicates --
   established by the constructor, preserved by every method) the generated
   methods are those list functions; discard never raises.  (Qualified names
   on purpose: nothing is imported.) *)
From DV Require Gen.FifoGen Proofs.FifoGenEq.

Theorem C03_unique_new_is_source : forall it,
  fst (FifoGen.init it) = Sched.addl it [] /\ FifoGenEq.uinv (FifoGen.init it).
Proof. exact FifoGenEq.init_gen_eq. Qed.
Print Assumptions C03_unique_new_is_source.

Theorem C03_unique_add_is_source : forall st v, FifoGenEq.uinv st ->
  fst (FifoGen.add st v) = Sched.add v (fst st) /\ FifoGenEq.uinv (FifoGen.add st v).
Proof. exact FifoGenEq.add_gen_eq. Qed.
Print Assumptions C03_unique_add_is_source.

Theorem C03_unique_update_is_source : forall st it, FifoGenEq.uinv st ->
  fst (FifoGen.update st it) = Sched.addl it (fst st) /\ FifoGenEq.uinv (FifoGen.update st it).
Proof. exact FifoGenEq.update_gen_eq. Qed.
Print Assumptions C03_unique_update_is_source.

Theorem C03_unique_discard_is_source : forall st v, FifoGenEq.uinv st ->
  exists st', FifoGen.discard st v = Some st' /\
              fst st' = Sched.rem v (fst st) /\ FifoGenEq.uinv st'.
Proof. exact FifoGenEq.discard_gen_eq. Qed.
Print Assumptions C03_unique_discard_is_source.

Theorem C03_unique_observers_are_source : forall st v, FifoGenEq.uinv st ->
  FifoGen.contains st v = Sched.mem v (fst st) /\
  FifoGen.iter st = fst st /\
  FifoGen.len st = length (fst st) /\
  fst (FifoGen.copy st) = fst st /\
  (forall other x, In x (FifoGen.difference st other) <-> In x (fst st) /\ ~ In x other).
Proof.
  intros st v I. split; [now apply FifoGenEq.contains_gen_eq|].
  split; [apply FifoGenEq.iter_gen_eq|]. split; [now apply FifoGenEq.len_gen_eq|].
  split; [now apply FifoGenEq.copy_gen_eq|]. intros other x. now apply FifoGenEq.difference_gen_eq.
Qed.
Print Assumptions C03_unique_observers_are_source.

(* every object a program can build: constructor, then any sequence of
   add / discard / update -- no guard left *)
Theorem C03_unique_is_todo_list : forall it ops,
  exists st, fold_left FifoGenEq.uapply ops (Some (FifoGen.init it)) = Some st /\
             FifoGen.iter st = fold_left FifoGenEq.sapply ops (Sched.addl it []) /\
             FifoGenEq.uinv st.
Proof. exact FifoGenEq.unique_is_sched_lists. Qed.
Print Assumptions C03_unique_is_todo_list.

Example C03_unique_example :
  FifoGenEq.uinv (FifoGen.init [3; 1; 3]) /\
  FifoGen.iter (FifoGen.init [3; 1; 3]) = [3; 1] /\
  option_map FifoGen.iter (FifoGen.discard (FifoGen.add (FifoGen.init [3; 1; 3]) 2) 3) = Some [1; 2] /\
  FifoGen.discard ([3], []) 3 = Some ([3], []) /\        (* the invariant is needed: *)
  FifoGen.discard ([], [3]) 3 = None.                     (* out-of-sync containers raise *)
Proof.
  split; [apply FifoGenEq.init_gen_eq|]. vm_compute. repeat split; reflexivity.
Qed.

(* ---- every release produces AT MOST ONE task message, over the whole history,
   with refused run ids and jobs listed twice (Proofs/SchedFaultOnce.v) ----
   For a unit u = (x, t) and a history xs from boot:
     released c (init c) xs u = how often a dispatch of xs moved t from pending to
                                executing at x (not in `doing` before, in `doing` after)
     sent c (init c) xs u     = how many task messages for u the dispatches of xs made
                                (growth of the units queued for / handed to a worker)
     pk c s u                 = what the farm still holds for u at the end: 1 if t is
                                in the `do` set of x (tasks, regressions); the number
                                of copies of x on the job list (analyses, all-targets)
   NO hypothesis on the history (any replies, failures with purge, rebuilds, any
   number of refused requests, jobs released again while kept and listed twice):
   a kept unit has not been sent for its release, and whatever the retry does it
   makes at most one message per release.  What remains open for literal single
   flight with refused requests is exactly what is open without them: a purge or
   a foreign reply that clears `doing` of a unit whose message is still out
   (C03_single_flight_refuted; C03_single_flight_clean assumes it away). *)
From DV Require Proofs.SchedFaultOnce.

Theorem C03_each_release_sent_at_most_once_faults : forall c xs x t,
  SchedFaultOnce.sent c (init c) xs (x, t) + SchedFaultOnce.pk c (xrun c (init c) xs) (x, t)
  <= SchedFaultOnce.released c (init c) xs (x, t).
Proof. intros c xs x t. apply SchedFaultOnce.sent_le_released. Qed.
Print Assumptions C03_each_release_sent_at_most_once_faults.

(* the same from any state that satisfies the invariants (every state of every
   history does: SchedFaultOnce.init_once + xstep_once) *)
Theorem C03_each_release_sent_at_most_once_from : forall c s xs u, SchedFaultOnce.Once c s ->
  SchedFaultOnce.sent c s xs u + SchedFaultOnce.pk c (xrun c s xs) u
  <= SchedFaultOnce.released c s xs u + SchedFaultOnce.pk c s u.
Proof. intros c s xs u O. apply SchedFaultOnce.once_run. exact O. Qed.
Print Assumptions C03_each_release_sent_at_most_once_from.

(* a unit the farm keeps after a refused request has strictly fewer messages
   than releases: it was not sent for this release *)
Theorem C03_kept_unit_not_sent_yet : forall c xs x t,
  asp c x = false -> In t (do_ (getn (ns (xrun c (init c) xs)) x)) ->
  SchedFaultOnce.sent c (init c) xs (x, t) < SchedFaultOnce.released c (init c) xs (x, t).
Proof.
  intros c xs x t A H. pose proof (SchedFaultOnce.sent_le_released c xs (x, t)) as B.
  unfold SchedFaultOnce.pk, SchedFaultOnce.dpk in B. cbn [fst snd] in B. rewrite A in B.
  apply SchedLib.mem_In in H. rewrite H in B. apply Nat.lt_le_trans with (2 := B).
  rewrite Nat.add_assoc, Nat.add_1_r. apply Nat.lt_succ_r. apply Nat.le_add_r.
Qed.
Print Assumptions C03_kept_unit_not_sent_yet.

(* non-vacuity: the history of C03_faults_example (job 1 kept, released again for a
   second target, on the list twice), then the retry: each of its two units was
   released once and is sent once; before the retry it is held and not sent *)
Example C03_once_example :
  let c := {| gnodes := [ {| kids := []; anc := []; gfac := Task; lvl := 0; ins := [] |};
                          {| kids := []; anc := []; gfac := Task; lvl := 0; ins := [] |} ];
              gfb := []; gtargets := [1; 2] |} in
  let xs := [Ev (Reg 1 0 true); Ev (Org [0; 1] None [1]); TickFault 2; Ev (Org [1] None [2]); TickFault 1] in
  jobs (xrun c (init c) xs) = [1; 1] /\
  (SchedFaultOnce.sent c (init c) xs (1, 1), SchedFaultOnce.released c (init c) xs (1, 1),
   SchedFaultOnce.pk c (xrun c (init c) xs) (1, 1)) = (0, 1, 1) /\
  map (fun u => (SchedFaultOnce.sent c (init c) (xs ++ [Ev Tick]) u,
                 SchedFaultOnce.released c (init c) (xs ++ [Ev Tick]) u)) [(0, 1); (1, 1); (1, 2)]
    = [(1, 1); (1, 1); (1, 1)].
Proof. vm_compute. repeat split; reflexivity. Qed.
