(* C04 -- Idle means idle: runnable work is released and the pipeline quiesces.
   Model: Sched.v.  Inv is the conjunction of invariants proved for every history
   from boot (Proofs/SchedBatch.v: run_Inv). *)
From Coq Require Import List Arith ZArith Bool.
From DV Require Import Model.Sched Model.SchedFault Proofs.SchedLib Proofs.SchedBatch Proofs.SchedC04
  Proofs.SchedFaultProofs.
Import ListNotations.

(* PROGRESS (target units).  In every history from boot, when the pipeline is active
   and not paused: a pending unit (x,t) of a node that holds no all-targets marker,
   that is not itself executing, and whose upstream algorithms are all idle for t
   and for the all-targets marker (nothing pending, nothing doing), is released by the
   next dispatch: it leaves todo, enters doing, and a task message for it is queued
   for / handed to a worker. *)
Theorem C04_progress : forall c es x t,
  let s := fst (run c (init c) es) in
  active s = true -> paused s = false -> x < nnodes c ->
  In t (todo (getn (ns s) x)) -> ~ In t (doing (getn (ns s) x)) ->
  ~ In ALL (todo (getn (ns s) x)) ->
  (forall a, In a (anc (gi c x)) ->
     ~ In t (todo (getn (ns s) a)) /\ ~ In t (doing (getn (ns s) a)) /\
     ~ In ALL (todo (getn (ns s) a)) /\ ~ In ALL (doing (getn (ns s) a))) ->
  let s' := fst (dispatch c s) in
  ~ In t (todo (getn (ns s') x)) /\ In t (doing (getn (ns s') x)) /\
  exists m, In m (cluster s' ++ map snd (inflight s')) /\ m_job m = x /\ m_tgt m = t.
Proof.
  intros c es x t s A P Hx Ht Hd Hna Hanc.
  apply (dispatch_progress c s x t (run_Inv c es (init c) (init_Inv c)) A P Hx Ht Hd Hanc).
  intros H. contradiction.
Qed.
Print Assumptions C04_progress.

(* PROGRESS (all-targets units), PARTIAL: the unit is released when none of its
   upstream algorithms is in the queue.  What is missing with respect to the
   property ("all upstream algorithms idle"): an upstream node can sit in the queue
   with nothing pending or doing (stale entry, open known finding C04) and then
   blocks the analysis for ever -- C04_progress_all_refuted. *)
Theorem C04_progress_all_partial : forall c es x,
  let s := fst (run c (init c) es) in
  active s = true -> paused s = false -> x < nnodes c ->
  In ALL (todo (getn (ns s) x)) -> ~ In ALL (doing (getn (ns s) x)) ->
  (forall a, In a (anc (gi c x)) -> ~ In a (que s)) ->
  let s' := fst (dispatch c s) in
  ~ In ALL (todo (getn (ns s') x)) /\ In ALL (doing (getn (ns s') x)) /\
  exists m, In m (cluster s' ++ map snd (inflight s')) /\ m_job m = x /\ m_tgt m = ALL.
Proof.
  intros c es x s A P Hx Ht Hd Hq.
  pose proof (run_Inv c es (init c) (init_Inv c)) as I. fold s in I.
  apply (dispatch_progress c s x ALL I A P Hx Ht Hd); [|intros _; exact Hq].
  intros a Ha. destruct I as (_ & Iq & _).
  assert (E : todo (getn (ns s) a) = [] /\ doing (getn (ns s) a) = []).
  { split.
    - destruct (todo (getn (ns s) a)) eqn:E; [reflexivity|]. exfalso. apply (Hq a Ha). apply Iq. left. congruence.
    - destruct (doing (getn (ns s) a)) eqn:E; [reflexivity|]. exfalso. apply (Hq a Ha). apply Iq. right. congruence. }
  destruct E as [E1 E2]. rewrite E1, E2. repeat split; intros [].
Qed.
Print Assumptions C04_progress_all_partial.

(* IDLE => EMPTY, PARTIAL: for histories without failed/invalid replies and without
   requests carrying an empty target list (and at least one known target), whenever
   nothing is pending or doing the queue is empty and both waiter views are empty. *)
Theorem C04_idle_empty_partial : forall c es,
  gtargets c <> [] -> Forall (benign c) es ->
  let s := fst (run c (init c) es) in
  (forall x, todo (getn (ns s) x) = [] /\ doing (getn (ns s) x) = []) ->
  que s = [] /\ view_todo s = [] /\ view_doing s = [].
Proof.
  intros c es Hg HB s H. apply idle_empty; [|exact H].
  apply run_J; [cbn; apply repeat_length|exact Hg|exact HB|intros x []].
Qed.
Print Assumptions C04_idle_empty_partial.

(* REFUTED in general (open known findings C04 stale-queue-entry, two causes) *)
Definition c04_chain : cfg :=
  {| gnodes := [ {| kids := [1]; anc := []; gfac := Task; lvl := 0; ins := [] |};
                 {| kids := [2]; anc := [0]; gfac := Task; lvl := 1; ins := [0] |};
                 {| kids := []; anc := [0; 1]; gfac := Analysis; lvl := 2; ins := [1] |} ];
     gfb := []; gtargets := [1] |}.

(* cause 1: a failed run purges the dependents' todo; they stay queued for ever *)
Theorem C04_idle_empty_refuted_purge :
  let s := fst (run c04_chain (init c04_chain)
                  [Reg 1 0 true; Org [0; 1] None [1]; Tick; Rep 1 0 1 1%Z Failure []]) in
  (forall x, todo (getn (ns s) x) = [] /\ doing (getn (ns s) x) = []) /\
  inflight s = [] /\ cluster s = [] /\ que s = [1].
Proof.
  vm_compute. split; [|repeat split; reflexivity].
  intros x. do 4 (destruct x as [|x]; [split; reflexivity|]). split; reflexivity.
Qed.
Print Assumptions C04_idle_empty_refuted_purge.

(* cause 2: a request with an empty target list queues a task with nothing to do *)
Theorem C04_idle_empty_refuted_empty_targets :
  let s := fst (run c04_chain (init c04_chain) [Org [0] None []]) in
  (forall x, todo (getn (ns s) x) = [] /\ doing (getn (ns s) x) = []) /\ que s = [0].
Proof.
  vm_compute. split; [|reflexivity].
  intros x. do 4 (destruct x as [|x]; [split; reflexivity|]). split; reflexivity.
Qed.
Print Assumptions C04_idle_empty_refuted_empty_targets.

(* the stale entry blocks a downstream analysis although every upstream node is idle *)
Theorem C04_progress_all_refuted :
  let s := fst (run c04_chain (init c04_chain)
                  [Reg 1 0 true; Reg 2 0 true; Org [0; 1] None [1]; Tick; Rep 1 0 1 1%Z Failure [];
                   Org [2] None [0]]) in
  active s = true /\ paused s = false /\ In ALL (todo (getn (ns s) 2)) /\
  (forall a, In a (anc (gi c04_chain 2)) -> todo (getn (ns s) a) = [] /\ doing (getn (ns s) a) = []) /\
  inflight s = [] /\ cluster s = [] /\
  In ALL (todo (getn (ns (fst (dispatch c04_chain s))) 2)) /\ snd (dispatch c04_chain s) = [OWait 2].
Proof.
  cbv zeta. split; [reflexivity|]. split; [reflexivity|]. split; [vm_compute; auto|].
  split.
  - intros a Ha. vm_compute in Ha. destruct Ha as [H|[H|[]]]; subst a; vm_compute; split; reflexivity.
  - vm_compute. repeat split; auto.
Qed.
Print Assumptions C04_progress_all_refuted.

(* QUIESCENCE: not proved as a theorem.  With C04_progress (every runnable unit is
   released by the next tick), C03/C11 (released units are handed to workers or stay
   queued) and C02_pending_not_lost/C02_gain_has_cause (pending work only appears
   by a request or by a success report of a parent, i.e. strictly downstream in an
   acyclic graph) the well-founded argument on (pending work, level) is routine for
   engines without feedback loops; it is not machine-checked here and C04 is claimed
   as partial on that clause (see DESIGN.md). *)

(* non-vacuity of C04_progress: after a0's success, a1 is runnable and the tick releases it *)
Example C04_progress_example :
  let es := [Reg 1 0 true; Reg 2 0 true; Org [0; 1] None [1]; Tick; Rep 1 0 1 1%Z Success [(1, 0, false)]] in
  let s := fst (run c04_chain (init c04_chain) es) in
  In 1 (todo (getn (ns s) 1)) /\ todo (getn (ns s) 0) = [] /\ doing (getn (ns s) 0) = [] /\
  map (fun p => (fst p, m_job (snd p), m_tgt (snd p))) (inflight (fst (dispatch c04_chain s))) = [(2, 1, 1)].
Proof. vm_compute. repeat split; auto. Qed.

(* ---- a database that refuses a run id during a dispatch (Model/SchedFault.v:
   TickFault k; farm.dispatch keeps the jobs it could not turn into messages
   and the next dispatch takes them up again) ---- *)
(* a history without such a fault is a history of Sched.v: every theorem above
   speaks about it *)
Theorem C04_fault_free_is_sched : forall c xs es s,
  erase xs = Some es -> xrun c s xs = fst (run c s es).
Proof. exact xrun_erase. Qed.
Print Assumptions C04_fault_free_is_sched.

(* the refused request loses nothing: the job at which it happened and every
   later job of the batch are exactly as the release left them (their released
   targets still in do_) and are still held by the farm *)
Theorem C04_fault_keeps_jobs : forall c js k acc acc' raised,
  NoDup js ->
  put_jobs_fault c k js acc = (acc', raised) -> raised = true ->
  exists done kept x,
    js = done ++ x :: kept /\
    (forall y, In y (x :: kept) -> getn (ns (fst acc')) y = getn (ns (fst acc)) y) /\
    (forall y, In y (x :: kept) -> In y (jobs (fst acc)) -> In y (jobs (fst acc'))).
Proof. exact fault_keeps_jobs. Qed.
Print Assumptions C04_fault_keeps_jobs.

(* recovery: from ANY state (jobs kept by a refused run id included) an ordinary
   dispatch of an active pipeline leaves no job with the farm: all are turned
   into task messages.  PARTIAL: the invariants of C01/C04_progress are proved
   for fault-free histories only (they assume the farm holds no job between
   events); histories with faults are covered by the correspondence and the
   oracle, not by those theorems. *)
Theorem C04_dispatch_empties_jobs : forall c s, active s = true -> jobs (fst (dispatch c s)) = [].
Proof. exact dispatch_empties_jobs. Qed.
Print Assumptions C04_dispatch_empties_jobs.

Example C04_fault_example :
  let c := {| gnodes := [ {| kids := []; anc := []; gfac := Task; lvl := 0; ins := [] |};
                          {| kids := []; anc := []; gfac := Task; lvl := 0; ins := [] |} ];
              gfb := []; gtargets := [1] |} in
  let s1 := xrun c (init c) [Ev (Reg 1 0 true); Ev (Org [0; 1] None [1]); TickFault 2] in
  let s2 := xrun c s1 [Ev Tick] in
  jobs s1 = [1] /\ do_ (getn (ns s1) 1) = [1] /\ length (cluster s1) + length (inflight s1) = 1 /\
  jobs s2 = [] /\ length (cluster s2) + length (inflight s2) = 2.
Proof. vm_compute. repeat split; reflexivity. Qed.

(* ==== the invariant theorems for histories WITH refused run ids
   (Proofs/SchedFaultInv.v: the farm may hold jobs between events) ==== *)
From DV Require Import Proofs.SchedFaultInv.

(* PROGRESS with refused requests.  In every history (xrun over list xev), a
   runnable pending unit is released by the next dispatch even when that
   dispatch has a run-id request refused: it leaves todo, enters doing, and its
   task message is queued for / handed to a worker OR its job is held by the farm
   with the target in its `do` set (the next dispatch sends it:
   C04_progress_after_faults, C04_dispatch_empties_jobs). *)
Theorem C04_progress_faults : forall c xs k x t,
  let s := xrun c (init c) xs in
  active s = true -> paused s = false -> x < nnodes c ->
  In t (todo (getn (ns s) x)) -> ~ In t (doing (getn (ns s) x)) ->
  ~ In ALL (todo (getn (ns s) x)) ->
  (forall a, In a (anc (gi c x)) ->
     ~ In t (todo (getn (ns s) a)) /\ ~ In t (doing (getn (ns s) a)) /\
     ~ In ALL (todo (getn (ns s) a)) /\ ~ In ALL (doing (getn (ns s) a))) ->
  let s' := fst (xstep c s (TickFault k)) in
  ~ In t (todo (getn (ns s') x)) /\ In t (doing (getn (ns s') x)) /\
  ((exists m, In m (cluster s' ++ map snd (inflight s')) /\ m_job m = x /\ m_tgt m = t) \/
   (In x (jobs s') /\ In t (do_ (getn (ns s') x)))).
Proof.
  intros c xs k x t s A P Hx Ht Hd Hna Hanc. cbn [xstep].
  apply (fault_progress c k s x t (xrun_GInv c xs (init c) (init_GInv c)) A P Hx Ht Hd Hanc).
  intros H. contradiction.
Qed.
Print Assumptions C04_progress_faults.

(* the same for an ORDINARY dispatch at the end of a history with refused
   requests: full conclusion of C04_progress (the message is made) *)
Theorem C04_progress_after_faults : forall c xs x t,
  let s := xrun c (init c) xs in
  active s = true -> paused s = false -> x < nnodes c ->
  In t (todo (getn (ns s) x)) -> ~ In t (doing (getn (ns s) x)) ->
  ~ In ALL (todo (getn (ns s) x)) ->
  (forall a, In a (anc (gi c x)) ->
     ~ In t (todo (getn (ns s) a)) /\ ~ In t (doing (getn (ns s) a)) /\
     ~ In ALL (todo (getn (ns s) a)) /\ ~ In ALL (doing (getn (ns s) a))) ->
  let s' := fst (xstep c s (Ev Tick)) in
  ~ In t (todo (getn (ns s') x)) /\ In t (doing (getn (ns s') x)) /\
  exists m, In m (cluster s' ++ map snd (inflight s')) /\ m_job m = x /\ m_tgt m = t.
Proof.
  intros c xs x t s A P Hx Ht Hd Hna Hanc. rewrite xstep_ev. cbn [step].
  apply (tick_progress_G c s x t (xrun_GInv c xs (init c) (init_GInv c)) A P Hx Ht Hd Hanc).
  intros H. contradiction.
Qed.
Print Assumptions C04_progress_after_faults.

(* all-targets units with refused requests, PARTIAL as C04_progress_all_partial
   (no upstream node queued) *)
Theorem C04_progress_all_faults_partial : forall c xs k x,
  let s := xrun c (init c) xs in
  active s = true -> paused s = false -> x < nnodes c ->
  In ALL (todo (getn (ns s) x)) -> ~ In ALL (doing (getn (ns s) x)) ->
  (forall a, In a (anc (gi c x)) -> ~ In a (que s)) ->
  let s' := fst (xstep c s (TickFault k)) in
  ~ In ALL (todo (getn (ns s') x)) /\ In ALL (doing (getn (ns s') x)) /\
  ((exists m, In m (cluster s' ++ map snd (inflight s')) /\ m_job m = x /\ m_tgt m = ALL) \/
   (In x (jobs s') /\ In ALL (do_ (getn (ns s') x)))).
Proof.
  intros c xs k x s A P Hx Ht Hd Hq. cbn [xstep].
  pose proof (xrun_GInv c xs (init c) (init_GInv c)) as I. fold s in I.
  apply (fault_progress c k s x ALL I A P Hx Ht Hd); [|intros _; exact Hq].
  intros a Ha. destruct I as (_ & Iq & _).
  assert (E : todo (getn (ns s) a) = [] /\ doing (getn (ns s) a) = []).
  { split.
    - destruct (todo (getn (ns s) a)) eqn:E; [reflexivity|]. exfalso. apply (Hq a Ha). apply Iq. left. congruence.
    - destruct (doing (getn (ns s) a)) eqn:E; [reflexivity|]. exfalso. apply (Hq a Ha). apply Iq. right. congruence. }
  destruct E as [E1 E2]. rewrite E1, E2. repeat split; intros [].
Qed.
Print Assumptions C04_progress_all_faults_partial.

(* non-vacuity: after a refused request a1 is still held; a0 succeeds meanwhile
   ... here: two independent nodes, the 2nd request of the dispatch is refused:
   node 0 becomes a message, node 1 is held with its target in `do`; both were
   runnable and pending before *)
Example C04_progress_faults_example :
  let c := {| gnodes := [ {| kids := []; anc := []; gfac := Task; lvl := 0; ins := [] |};
                          {| kids := []; anc := []; gfac := Task; lvl := 0; ins := [] |} ];
              gfb := []; gtargets := [1] |} in
  let xs := [Ev (Reg 1 0 true); Ev (Org [0] None [1]); TickFault 1; Ev (Org [1] None [1])] in
  let s := xrun c (init c) xs in
  let s' := fst (xstep c s (TickFault 2)) in
  active s = true /\ paused s = false /\ jobs s = [0] /\
  In 1 (todo (getn (ns s) 1)) /\ ~ In 1 (doing (getn (ns s) 1)) /\
  map (fun p => (m_job (snd p), m_tgt (snd p))) (inflight s') = [(0, 1)] /\
  jobs s' = [1] /\ do_ (getn (ns s') 1) = [1] /\ doing (getn (ns s') 1) = [1] /\ todo (getn (ns s') 1) = [].
Proof. vm_compute. repeat split; auto. Qed.

(* ==== QUIESCENCE (liveness clause), machine-checked as a termination measure
   (Proofs/SchedQuiesce.v).
   Phi c U s = sum over nodes x of W(x) * (2 * |todo x| + |doing x|), target sets
   counted inside a finite universe U, W(x) = B ^ (H - depth x), depth x = the number of
   ancestors of x, B = 2 |U| N + 1, H = 1 + the largest depth.  quiet_run c U s xs: the continuation xs contains
   no request and no rebuild (Org / Build); every reply is for a unit (x,t) that
   the scheduler counts as executing when it arrives (t in doing x; for clean
   histories that is exactly "in flight", C03_doing_is_in_flight_clean) with t in
   U; dispatches may have run-id requests refused; worker registrations, polls,
   drops, flag changes are allowed.
   ASSUMED: (1) gfb c = [] -- the engine has no feedback edge (a success report
   then schedules children only; with feedback an upstream node is scheduled
   again and the pipeline legitimately iterates); (2) depth_okb c -- every child
   has more ancestors than its parent and every ancestor fewer than its
   descendant (true of a transitively closed acyclic ancestry; checked by
   props/C04.py on every graph the real dag.Construct produced.  The `level`
   attribute cannot be used: dag.Node.graph sets it at the FIRST visit, a node
   can carry the level of one of its ancestors); (3) the
   state is reachable (GInv; C04_quiesce_reach).
   PARTIAL with respect to "every waiter is eventually satisfied": the theorems
   bound the work and characterise the rest state; that workers answer and the
   dispatcher ticks (fairness of the environment) is the hypothesis "for workers
   that always answer" of the property, and the queue is empty at rest only
   under the no-stale-entry hypothesis J_que that the open known findings
   C04/stale-queue-entry violate (the C04_idle_empty_refuted theorems). ==== *)
From DV Require Import Proofs.SchedQuiesce.

(* (a) the measure strictly decreases with every reply and by at least the number
   of released units with every dispatch; hence, in any such continuation, the
   number of released units plus the number of replies is at most Phi at its
   start, which is at most N * B^H * 3|U| *)
Theorem C04_quiesce_partial : forall c U xs s,
  gfb c = [] -> depth_okb c = true -> GInv c s -> quiet_run c U s xs ->
  Phi c U (xrun c s xs) + releases c U s xs + replies xs <= Phi c U s /\
  Phi c U s <= nnodes c * (Bc c U ^ Hc c * (3 * length U)).
Proof.
  intros c U xs s Hfb Hlv G Q. split; [apply quiesce_bound; assumption|apply Phi_max].
Qed.
Print Assumptions C04_quiesce_partial.

(* one step: a reply costs at least 1, a dispatch at least the units it released *)
Theorem C04_quiesce_step : forall c U s x,
  gfb c = [] -> depth_okb c = true -> GInv c s -> quiet U s x ->
  let s' := fst (xstep c s x) in
  Phi c U s' + nrel c U s s' + (if is_rep x then 1 else 0) <= Phi c U s.
Proof. intros c U s x Hfb Hlv G Q. apply quiet_step; assumption. Qed.
Print Assumptions C04_quiesce_step.

Theorem C04_quiesce_reach : forall c xs, GInv c (xrun c (init c) xs).
Proof. intros c xs. apply xrun_GInv. apply init_GInv. Qed.
Print Assumptions C04_quiesce_reach.

(* (b) the rest state: when nothing is executing and a dispatch of the active,
   unpaused pipeline releases nothing, nothing is pending either; with no stale
   queue entry the queue and both waiter views are empty: idle *)
Theorem C04_quiesce_idle_partial : forall c s,
  GInv c s -> depth_okb c = true -> active s = true -> paused s = false ->
  (forall x, In x (que s) -> todo (getn (ns s) x) <> [] \/ doing (getn (ns s) x) <> []) ->
  (forall x, doing (getn (ns s) x) = []) ->
  (forall x, doing (getn (ns (fst (dispatch c s))) x) = []) ->
  (forall x, todo (getn (ns s) x) = []) /\ que s = [] /\ view_todo s = [] /\ view_doing s = [].
Proof. intros c s G Hlv A P J D0 D1. apply (quiesce_idle c s G Hlv A P J D0 D1). Qed.
Print Assumptions C04_quiesce_idle_partial.

(* without the no-stale-entry hypothesis the pending sets are still empty at rest *)
Theorem C04_quiesce_rest_refuted_queue :
  let s := fst (run c04_chain (init c04_chain)
                  [Reg 1 0 true; Org [0; 1] None [1]; Tick; Rep 1 0 1 1%Z Failure []]) in
  depth_okb c04_chain = true /\ active s = true /\ paused s = false /\
  (forall x, doing (getn (ns (fst (dispatch c04_chain s))) x) = []) /\ que s = [1].
Proof.
  vm_compute. repeat split; auto.
  intros x. do 4 (destruct x as [|x]; [reflexivity|]). reflexivity.
Qed.
Print Assumptions C04_quiesce_rest_refuted_queue.

(* non-vacuity: chain a0 -> a1 -> analysis a2, universe {ALL, 1}; after a request
   and a dispatch with a refused run id, the continuation tick / success with a
   new value / tick / success / tick / success is quiet, contains a TickFault, and
   ends at rest with an empty queue *)
Example C04_quiesce_example :
  let c := c04_chain in
  let s := xrun c (init c) [Ev (Reg 1 0 true); Ev (Reg 2 0 true); Ev (Reg 3 0 true); Ev (Org [0] None [1])] in
  let xs := [TickFault 1; Ev Tick; Ev (Rep 1 0 1 1%Z Success [(1, 0, true)]); Ev Tick;
             Ev (Rep 2 1 1 1%Z Success [(1, 1, true)]); Ev Tick; Ev (Rep 3 2 0 1%Z Success [(0, 2, false)])] in
  gfb c = [] /\ depth_okb c = true /\ quiet_run c [0; 1] s xs /\
  releases c [0; 1] s xs = 3 /\ replies xs = 3 /\
  que (xrun c s xs) = [] /\ inflight (xrun c s xs) = [].
Proof. vm_compute. repeat split; auto. Qed.
