(* C05 -- A failed run is contained to its own target and its dependents.
   All theorems: for EVERY engine graph c satisfying the boolean hypothesis
   wf_graphb (ancestry = what the purge recursion reaches; checked on every graph
   the real dag.Construct builds), EVERY scheduler/farm state s (reachable or
   not) in which the reply is applied (the job is in the queue), every failed or
   invalid outcome o.  s' = state after Hand._res. *)
From Coq Require Import List Arith ZArith Bool.
From DV Require Import Model.Sched Proofs.SchedLib Proofs.SchedWf Proofs.SchedC05.
Import ListNotations.

Section C05.
Variables (c : cfg) (x : node) (t : tgt) (r : Z) (o : outcome) (vs : list (tgt * vname * bool)) (s : state).
Hypothesis W : wf_graphb c = true.
Hypothesis Hx : x < nnodes c.
Hypothesis Ho : o <> Success.
Hypothesis Hq : mem x (que s) = true.
Let s' := fst (res c x t r o vs s).

(* T is withdrawn from the pending work of every transitive dependent of X *)
Theorem C05_withdrawn : forall y, y < nnodes c -> In x (anc (gi c y)) ->
  ~ In t (todo (getn (ns s') y)).
Proof.
  intros y Hy Ha. apply (withdrawn_desc c x t r o vs s Ho Hq).
  apply wf_dependent_reached; assumption.
Qed.

(* pending / executing work of every OTHER target is unchanged, in every node
   (for the failed node itself when the failed target is not the all-targets marker) *)
Theorem C05_frame_other_target : forall y u, u <> t -> (y <> x \/ t <> ALL) ->
  (In u (todo (getn (ns s') y)) <-> In u (todo (getn (ns s) y))) /\
  (In u (doing (getn (ns s') y)) <-> In u (doing (getn (ns s) y))) /\
  (In u (do_ (getn (ns s') y)) <-> In u (do_ (getn (ns s) y))).
Proof. exact (frame_other_target c x t r o vs s Ho Hq). Qed.

(* every algorithm that does not depend on X is unchanged altogether *)
Theorem C05_frame_independent : forall y, y < nnodes c -> y <> x -> ~ In x (anc (gi c y)) ->
  getn (ns s') y = getn (ns s) y.
Proof.
  intros y Hy N Ha. apply (frame_unrelated c x t r o vs s Ho Hq y N).
  apply wf_independent_not_reached; assumption.
Qed.

(* no dependent (no node at all) is triggered by the failed run *)
Theorem C05_no_trigger : forall y u, In u (todo (getn (ns s') y)) -> In u (todo (getn (ns s) y)).
Proof. exact (C05_no_trigger_l c x t r o vs s Ho Hq). Qed.

(* the queue changes at most by losing X; status and run id of other nodes,
   the cluster queue, the idle workers, flags are unchanged *)
Theorem C05_frame_rest :
  (forall z, (In z (que s') -> In z (que s)) /\ (In z (que s) -> z <> x -> In z (que s'))) /\
  (forall y, y <> x -> stat (getn (ns s') y) = stat (getn (ns s) y) /\
                       rid (getn (ns s') y) = rid (getn (ns s) y)) /\
  cluster s' = cluster s /\ workers s' = workers s /\ jobs s' = jobs s /\
  archive s' = archive s /\ active s' = active s /\ paused s' = paused s /\ stored s' = stored s.
Proof.
  split; [exact (frame_que c x t r o vs s Ho Hq)|].
  split; [exact (frame_status c x t r o vs s Ho Hq)|].
  destruct (frame_farm c x t r o vs s Ho Hq) as (A & B & C & D & E & F & G & _).
  repeat split; assumption.
Qed.

(* the outcome is recorded exactly once in the execution history *)
Theorem C05_recorded : snd (res c x t r o vs s) = [OChron x t r o].
Proof. exact (C05_recorded_l c x t r o vs s Ho Hq). Qed.
End C05.

Print Assumptions C05_withdrawn.
Print Assumptions C05_frame_other_target.
Print Assumptions C05_frame_independent.
Print Assumptions C05_no_trigger.
Print Assumptions C05_frame_rest.
Print Assumptions C05_recorded.

(* non-vacuity: a chain a0 -> a1 -> a2 satisfies wf_graphb, and a state where a0
   is queued with a1 pending meets the hypotheses *)
Definition ex_chain : cfg :=
  {| gnodes := [ {| kids := [1]; anc := []; gfac := Task; lvl := 0; ins := [] |};
                 {| kids := [2]; anc := [0]; gfac := Task; lvl := 1; ins := [0] |};
                 {| kids := []; anc := [0; 1]; gfac := Task; lvl := 2; ins := [1] |} ];
     gfb := []; gtargets := [1] |}.
Example C05_hyp_satisfiable :
  wf_graphb ex_chain = true /\
  let s := fst (dispatch ex_chain (organize ex_chain [0; 1; 2] None [1] (init ex_chain))) in
  mem 0 (que s) = true /\ In 1 (todo (getn (ns s) 2)) /\
  ~ In 1 (todo (getn (ns (fst (res ex_chain 0 1 1%Z Failure [] s))) 2)).
Proof. vm_compute. repeat split; auto; try (intros [H|[]]; discriminate); try tauto. Qed.

(* ---- worker side (dawgie/pl/worker/cluster.py::execute, Model/WorkerReply.v):
   whatever way a run ends other than a normal return -- an exception, invalid
   data, SystemExit, KeyboardInterrupt -- the farm receives a response that is
   not a success (so Hand._res runs and the theorems above apply to it); the task
   message is never sent back; values are reported only by a normal return; the
   only silent ending is the one the pipeline asked for (ctxt.abort()). ---- *)
From DV Require Model.WorkerReply Proofs.WorkerReplyProofs.

Theorem C05_worker_reports_every_failure : forall e,
  e <> DV.Model.WorkerReply.Returned ->
  (exists s v, DV.Model.WorkerReply.reply e false = DV.Model.WorkerReply.Response s v) /\
  (DV.Model.WorkerReply.outcome_of (DV.Model.WorkerReply.reply e false) = Some DV.Model.WorkerReply.WFailure \/
   DV.Model.WorkerReply.outcome_of (DV.Model.WorkerReply.reply e false) = Some DV.Model.WorkerReply.WInvalid).
Proof.
  intros e H. split; [apply DV.Proofs.WorkerReplyProofs.reply_is_response|].
  apply DV.Proofs.WorkerReplyProofs.reply_failure_reported; exact H.
Qed.
Print Assumptions C05_worker_reports_every_failure.

Theorem C05_worker_reply_exact : forall e a,
  DV.Model.WorkerReply.reply e a <> DV.Model.WorkerReply.TaskEcho /\
  (DV.Model.WorkerReply.outcome_of (DV.Model.WorkerReply.reply e false) = Some DV.Model.WorkerReply.WSuccess
     <-> e = DV.Model.WorkerReply.Returned) /\
  (DV.Model.WorkerReply.outcome_of (DV.Model.WorkerReply.reply e false) = Some DV.Model.WorkerReply.WInvalid
     <-> (e = DV.Model.WorkerReply.InvalidIn \/ e = DV.Model.WorkerReply.InvalidOut)) /\
  (forall s, DV.Model.WorkerReply.reply e false = DV.Model.WorkerReply.Response s true
     -> e = DV.Model.WorkerReply.Returned) /\
  DV.Model.WorkerReply.reply e true = DV.Model.WorkerReply.Silent.
Proof.
  intros e a. split; [apply DV.Proofs.WorkerReplyProofs.reply_never_echo|].
  split; [apply DV.Proofs.WorkerReplyProofs.reply_success_iff|].
  split; [apply DV.Proofs.WorkerReplyProofs.reply_invalid_iff|].
  split; [apply DV.Proofs.WorkerReplyProofs.reply_values_only_on_success|reflexivity].
Qed.
Print Assumptions C05_worker_reply_exact.

Example C05_worker_example :
  DV.Model.WorkerReply.outcome_of (DV.Model.WorkerReply.reply DV.Model.WorkerReply.Exited false)
  = Some DV.Model.WorkerReply.WFailure.
Proof. reflexivity. Qed.
