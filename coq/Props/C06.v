(* C06 -- Stored values come back intact, and only to their own identity.
   Property theorems only; proofs live in Proofs/StoreProofs.v.

   A history is any list of operations of Model/Store.v over plain names
   (updates incl. crashed ones, loads, removals, registrations = version
   bumps, target additions, close/reopen ...).  `refdict ops` is the reference
   dictionary of the history: (target, identity with every version, run) ->
   content of the last completed update, minus what remove() addressed by
   name.  Contents are compared byte for byte (content = Z code of the pickled
   bytes); `digest` is any injective function (collision freedom is this
   explicit hypothesis). *)
From Coq Require Import List ZArith Bool.
From DV Require Import Model.Catalogue Model.Store Proofs.CatalogueProofs Proofs.StoreProofs.
Import ListNotations.

Section C06.
Variable digest : Z -> Z.
Hypothesis digest_inj : forall a b, digest a = digest b -> a = b.

(* load returns the entry of the requested run when present, otherwise that
   of the highest run of the same identity and target, otherwise nothing *)
Theorem C06_roundtrip : forall ops r tn id,
  Forall plain_op ops -> plain tn -> plain_id id ->
  let m := refdict ops in
  let rep := snd (load1 (run digest db0 ops) r tn id) in
  (forall c, rget (tn, id, r) m = Some c -> rep = RLoaded (Some c)) /\
  (rget (tn, id, r) m = None ->
   forall r' c, rget (tn, id, r') m = Some c ->
     (forall r'' c'', rget (tn, id, r'') m = Some c'' -> (r'' <= r')%Z) ->
     rep = RLoaded (Some c)).
Proof.
  intros ops r tn id Hp Htn Hid m rep.
  destruct (SP_load_ref digest digest_inj ops r tn id Hp Htn Hid) as (H1 & H2 & _).
  split; assumption.
Qed.

Theorem C06_untouched : forall ops r tn id,
  Forall plain_op ops -> plain tn -> plain_id id ->
  (forall r', rget (tn, id, r') (refdict ops) = None) ->
  snd (load1 (run digest db0 ops) r tn id) = RLoaded None.
Proof.
  intros ops r tn id Hp Htn Hid.
  exact (proj2 (proj2 (SP_load_ref digest digest_inj ops r tn id Hp Htn Hid))).
Qed.

(* whatever a load returns was stored by a completed update of the SAME
   identity (task, algorithm, state vector, value and all three versions) on
   the SAME target; and a load never fails *)
Theorem C06_isolation : forall ops r tn id rep,
  Forall plain_op ops -> plain tn -> plain_id id ->
  snd (load1 (run digest db0 ops) r tn id) = rep ->
  rep = RLoaded None \/
  exists c r' steps, rep = RLoaded (Some c) /\
                     In (OUpd r' tn id c steps) ops /\ completed steps = true.
Proof. exact (SP_isolation digest digest_inj). Qed.

(* the primary key of an identity: one key per identity, one identity per key,
   stable for ever (this is what makes "own identity" meaningful) *)
Theorem C06_key_bijection : forall ops key key' tn tn' id id',
  Forall plain_op ops ->
  let c := dcat (run digest db0 ops) in
  resolves c key tn id -> resolves c key' tn' id' ->
  (pk_tail key = pk_tail key' <-> tn = tn' /\ id = id').
Proof.
  intros ops key key' tn tn' id id' Hp c H1 H2.
  destruct (SP_run_Idb digest ops db0 SP_Idb0 Hp) as [(Hw & _) _]. split.
  - intros E. eapply SP_resolves_inj; eauto.
  - intros [<- <-]. eapply SP_resolves_fun; eauto.
Qed.

Theorem C06_key_stable : forall ops ops' key tn id,
  Forall plain_op ops -> Forall plain_op ops' ->
  resolves (dcat (run digest db0 ops)) key tn id ->
  resolves (dcat (run digest db0 (ops ++ ops'))) key tn id.
Proof.
  intros ops ops' key tn id Hp Hp' H. unfold run. rewrite fold_left_app.
  destruct (SP_run_Idb digest ops db0 SP_Idb0 Hp) as [HI _].
  destruct (SP_run_Idb digest ops' _ HI Hp') as [_ X].
  eapply SP_resolves_ext; eauto.
Qed.

End C06.

Print Assumptions C06_roundtrip.
Print Assumptions C06_untouched.
Print Assumptions C06_isolation.
Print Assumptions C06_key_bijection.
Print Assumptions C06_key_stable.

(* ---- non-vacuity: versions that share digits, prefix names, two targets,
        a removal, a crashed update, close/reopen -------------------------------- *)
Definition id_v (alg : name) (av : ver) : ident :=
  mkid [116] alg av [115] (1, 0, 0)%Z [118] (1, 0, 0)%Z.

Definition c06_ops : list op :=
  [OUpd 1 [84] (id_v s_alg (1, 1, 0)%Z) 11 None;
   OUpd 2 [84] (id_v s_alg (1, 1, 0)%Z) 12 None;
   OUpd 2 [84] (id_v s_alg (1, 10, 0)%Z) 13 None;
   OUpd 2 [84] (id_v s_alg2 (1, 1, 0)%Z) 14 None;
   OUpd 5 [84; 84] (id_v s_alg (1, 1, 0)%Z) 15 None;
   OUpd 7 [84] (id_v s_alg (1, 1, 0)%Z) 16 (Some 5);
   OReopen;
   ORemove 2 [84] [116] s_alg2 [115] [118]].

Example C06_example_plain : Forall plain_op c06_ops.
Proof.
  unfold c06_ops. repeat (apply Forall_cons || apply Forall_nil);
    cbn; unfold plain_id, plain; cbn; intuition discriminate.
Qed.

Example C06_example :
  let d := run idig db0 c06_ops in
  (* exact run / highest run / other version / other target / removed / crashed *)
  snd (load1 d 1 [84] (id_v s_alg (1, 1, 0)%Z)) = RLoaded (Some 11%Z) /\
  snd (load1 d 9 [84] (id_v s_alg (1, 1, 0)%Z)) = RLoaded (Some 12%Z) /\
  snd (load1 d 9 [84] (id_v s_alg (1, 10, 0)%Z)) = RLoaded (Some 13%Z) /\
  snd (load1 d 9 [84; 84] (id_v s_alg (1, 1, 0)%Z)) = RLoaded (Some 15%Z) /\
  snd (load1 d 2 [84] (id_v s_alg2 (1, 1, 0)%Z)) = RLoaded None /\
  snd (load1 d 2 [84] (id_v s_alg (11, 0, 0)%Z)) = RLoaded None /\
  rget ([84], id_v s_alg (1, 1, 0)%Z, 2%Z) (refdict c06_ops) = Some 12%Z /\
  rget ([84], id_v s_alg (1, 1, 0)%Z, 7%Z) (refdict c06_ops) = None /\
  rget ([84], id_v s_alg2 (1, 1, 0)%Z, 2%Z) (refdict c06_ops) = None.
Proof. vm_compute. repeat split; reflexivity. Qed.

(* ---- histories with refused catalogue-table writes (Model/StoreFault.v) ----------------
   A history is a list of client calls `(w, ops)`; the w-th write of the call
   to one of the five name tables is refused (OSError), the call ends there,
   the database process carries on.  `refdict_f digest gs` is the reference
   dictionary carried along such a run: an update that answered records its
   content, the operation that raised and the ones the call never reached
   record nothing (with nothing armed it is `refdict`:
   C06_refdict_faults_conservative). *)
From DV Require Import Model.StoreFault Proofs.StoreFaultProofs Proofs.StoreFaultRef.

Theorem C06_roundtrip_faults : forall digest,
  (forall a b, digest a = digest b -> a = b) ->
  forall gs r tn id,
  Forall plain_group gs -> plain tn -> plain_id id ->
  let m := refdict_f digest gs in
  let rep := snd (load1 (run_f digest db0 gs) r tn id) in
  (forall c, rget (tn, id, r) m = Some c -> rep = RLoaded (Some c)) /\
  (rget (tn, id, r) m = None ->
   forall r' c, rget (tn, id, r') m = Some c ->
     (forall r'' c'', rget (tn, id, r'') m = Some c'' -> (r'' <= r')%Z) ->
     rep = RLoaded (Some c)) /\
  ((forall r', rget (tn, id, r') m = None) -> rep = RLoaded None).
Proof. intros digest Hinj gs r tn id. exact (SFR_load_ref digest Hinj gs r tn id). Qed.
Print Assumptions C06_roundtrip_faults.

Theorem C06_refdict_faults_conservative : forall digest gss,
  refdict_f digest (map (fun ops => (0, ops)) gss) = refdict (concat gss).
Proof. exact SFR_refdict_0. Qed.
Print Assumptions C06_refdict_faults_conservative.

(* the key of an identity is stable through refused writes as well *)
Theorem C06_key_stable_faults : forall digest gs gs' key tn id,
  Forall plain_group gs -> Forall plain_group gs' ->
  resolves (dcat (run_f digest db0 gs)) key tn id ->
  resolves (dcat (run_f digest db0 (gs ++ gs'))) key tn id.
Proof.
  intros digest gs gs' key tn id Hp Hp' H. unfold run_f, run_g. rewrite fold_left_app.
  destruct (SF_run digest gs db0 (SF_Iall0 digest) Hp) as [HA _].
  destruct (SF_run digest gs' _ HA Hp') as [_ X].
  eapply SP_resolves_ext; eauto.
Qed.
Print Assumptions C06_key_stable_faults.

(* non-vacuity: a two-value update whose sixth write (the row of the second
   value) is refused: the first value is stored and comes back, the second was
   never stored; after the retry both come back *)
Definition id_w (vn : name) : ident :=
  mkid [116] s_alg (1, 0, 0)%Z [115] (1, 0, 0)%Z vn (1, 0, 0)%Z.

Definition c06_faults : list fgroup :=
  [(6, [OUpd 1 [84] (id_w [118]) 21 None; OUpd 1 [84] (id_w [119]) 22 None])].

Example C06_example_faults :
  Forall plain_group c06_faults /\
  let d := run_f idig db0 c06_faults in
  snd (load1 d 1 [84] (id_w [118])) = RLoaded (Some 21%Z) /\
  snd (load1 d 1 [84] (id_w [119])) = RLoaded None /\
  rget ([84], id_w [118], 1%Z) (refdict_f idig c06_faults) = Some 21%Z /\
  rget ([84], id_w [119], 1%Z) (refdict_f idig c06_faults) = None /\
  let d' := run_f idig d [(0, [OUpd 1 [84] (id_w [118]) 21 None;
                               OUpd 1 [84] (id_w [119]) 22 None])] in
  snd (load1 d' 3 [84] (id_w [119])) = RLoaded (Some 22%Z).
Proof.
  split.
  - unfold c06_faults, plain_group. repeat (apply Forall_cons || apply Forall_nil);
      cbn; unfold plain_id, plain; cbn; intuition discriminate.
  - vm_compute. repeat split; reflexivity.
Qed.
