(* C07 -- Content-addressed store: novelty flag, single copy, digest names,
   no dangling catalogue entry at any crash point of an update.
   Property theorems only; proofs live in Proofs/StoreProofs.v.

   A history is any list of operations (Model/Store.v op); an update carries
   `steps : option nat` = the process dies after that many of its six atomic
   steps (mkstemp, dump, md5sum, sha1sum, unlink|rename, table write), so
   "for every history" already ranges over every crash point of every update
   and over everything that is done after the crash (reopen, retry, ...).
   `digest` is universally quantified: nothing is assumed about it except
   where injectivity is written as a hypothesis. *)
From Coq Require Import List ZArith Bool.
From DV Require Import Model.Catalogue Model.Store Proofs.StoreProofs.
Import ListNotations.

Theorem C07_named_by_digest : forall digest ops b c,
  In (b, c) (store (run digest db0 ops)) -> b = digest c.
Proof. intros digest ops. exact (proj1 (SP_run digest ops db0 (SP_init digest))). Qed.
Print Assumptions C07_named_by_digest.

Theorem C07_single_copy : forall digest ops,
  NoDup (map fst (store (run digest db0 ops))) /\
  (forall r tn id c,
     In (digest c) (map fst (store (run digest db0 ops))) ->
     store (fst (update1 digest (run digest db0 ops) r tn id c None))
       = store (run digest db0 ops) /\
     stage (fst (update1 digest (run digest db0 ops) r tn id c None))
       = stage (run digest db0 ops)) /\
  (forall r tn id c,
     ~ In (digest c) (map fst (store (run digest db0 ops))) ->
     store (fst (update1 digest (run digest db0 ops) r tn id c None))
       = store (run digest db0 ops) ++ [(digest c, c)]).
Proof.
  intros digest ops. split; [|split].
  - exact (proj1 (proj2 (SP_run digest ops db0 (SP_init digest)))).
  - intros. now apply SP_second_copy.
  - intros. now apply SP_first_copy.
Qed.
Print Assumptions C07_single_copy.

Theorem C07_isnew_iff : forall digest ops r tn id c d' isnew,
  update1 digest (run digest db0 ops) r tn id c None = (d', RNew isnew) ->
  (isnew = true <-> ~ In (digest c) (map fst (store (run digest db0 ops)))) /\
  ((forall c', In c' (map snd (store (run digest db0 ops))) ->
               digest c' = digest c -> c' = c) ->
   (isnew = true <-> ~ In c (map snd (store (run digest db0 ops))))).
Proof.
  intros digest ops r tn id c d' isnew H. split.
  - eapply SP_isnew_digest; eauto.
  - intros Hinj. eapply SP_isnew_content; eauto.
    exact (proj1 (SP_run digest ops db0 (SP_init digest))).
Qed.
Print Assumptions C07_isnew_iff.

(* a completed update always answers with the flag (never RCrash) *)
Theorem C07_isnew_reported : forall digest d r tn id c,
  snd (update1 digest d r tn id c None) = RNew (negb (smem (digest c) (store d))).
Proof. intros. rewrite SP_store_to_key_steps. reflexivity. Qed.
Print Assumptions C07_isnew_reported.

Theorem C07_no_dangling : forall digest ops k b,
  In (k, b) (prime (dcat (run digest db0 ops))) ->
  In b (map fst (store (run digest db0 ops))).
Proof.
  intros digest ops. exact (proj2 (proj2 (SP_run digest ops db0 (SP_init digest)))).
Qed.
Print Assumptions C07_no_dangling.

(* the crash clause spelled out: after ANY history, an update that dies after
   ANY number n of its atomic steps leaves no dangling entry, digest-named
   files and one copy per name *)
Theorem C07_no_dangling_at_every_crash_point : forall digest ops r tn id c n,
  let d := fst (update1 digest (run digest db0 ops) r tn id c (Some n)) in
  (forall k b, In (k, b) (prime (dcat d)) -> In b (map fst (store d))) /\
  (forall b c', In (b, c') (store d) -> b = digest c') /\
  NoDup (map fst (store d)).
Proof.
  intros digest ops r tn id c n d.
  pose proof (SP_update1 digest (run digest db0 ops) r tn id c (Some n)
                (SP_run digest ops db0 (SP_init digest))) as (Hn & Hs & Hd).
  split; [exact Hd|split; [exact Hn|exact Hs]].
Qed.
Print Assumptions C07_no_dangling_at_every_crash_point.

(* ---- non-vacuity ---------------------------------------------------------- *)
(* a history with a crash between rename and table write, a retry, repeated
   content: the store holds files, the prime table holds entries *)
Example C07_example :
  let ops := [OUpd 1 [84] (ex_id s_alg) 7 None;
              OUpd 2 [84] (ex_id s_alg) 7 None;
              OUpd 3 [84] (ex_id s_alg) 9 (Some 5); OReopen;
              OUpd 3 [84] (ex_id s_alg) 9 None] in
  let d := run idig db0 ops in
  map snd (prime (dcat d)) = [7; 7; 9]%Z /\ store d = [(7, 7); (9, 9)]%Z /\
  stage d = [] /\
  snd (update1 idig d 4 [84] (ex_id s_alg) 9 None) = RNew false /\
  snd (update1 idig d 4 [84] (ex_id s_alg) 5 None) = RNew true /\
  (* the state right after the crash: file stored, not yet recorded *)
  store (run idig db0 (firstn 3 ops)) = [(7, 7); (9, 9)]%Z /\
  map snd (prime (dcat (run idig db0 (firstn 3 ops)))) = [7; 7]%Z.
Proof. vm_compute. repeat split; reflexivity. Qed.

(* ---- faults the process SURVIVES ---------------------------------------------------------
   Model/StoreFault.v: a client call `(w, ops)` whose w-th write to one of the
   five name tables is refused by the file system (OSError) ends with that
   exception and the database process carries on; the updates of a history may
   in addition stop after any number of their six atomic steps (`steps`; a
   refused rename / primary-table write is such a stop).  The model keeps no
   state in memory besides the id->name indices, and those are a function of
   the persisted tables (C07_survivor_is_restart): a fault the process
   survives and a crash followed by a restart leave the same state.  The
   hypothesis `plain_group` (no ':' in a name) is the one of C08. *)
From DV Require Import Model.StoreFault Proofs.CatalogueProofs Proofs.StoreFaultProofs.

Theorem C07_no_dangling_faults : forall digest gs,
  Forall plain_group gs ->
  let d := run_f digest db0 gs in
  (forall k b, In (k, b) (prime (dcat d)) -> In b (map fst (store d))) /\
  (forall b c, In (b, c) (store d) -> b = digest c) /\
  NoDup (map fst (store d)).
Proof.
  intros digest gs Hp d.
  destruct (SF_run digest gs db0 (SF_Iall0 digest) Hp) as [[_ (Hn & Hs & Hd)] _].
  split; [exact Hd|split; [exact Hn|exact Hs]].
Qed.
Print Assumptions C07_no_dangling_faults.

(* novelty after a history with faults: the flag of a completed update is true
   exactly when the digest (with an injective digest: the content) was not in
   the store *)
Theorem C07_isnew_iff_faults : forall digest gs r tn id c d' isnew,
  Forall plain_group gs ->
  let d := run_f digest db0 gs in
  update1 digest d r tn id c None = (d', RNew isnew) ->
  (isnew = true <-> ~ In (digest c) (map fst (store d))) /\
  ((forall c', In c' (map snd (store d)) -> digest c' = digest c -> c' = c) ->
   (isnew = true <-> ~ In c (map snd (store d)))).
Proof.
  intros digest gs r tn id c d' isnew Hp d H. split.
  - eapply SP_isnew_digest; eauto.
  - intros Hinj. eapply SP_isnew_content; eauto.
    destruct (SF_run digest gs db0 (SF_Iall0 digest) Hp) as [[_ (Hn & _)] _]. exact Hn.
Qed.
Print Assumptions C07_isnew_iff_faults.

(* the refused call stores nothing and records nothing *)
Theorem C07_refused_call_stores_nothing : forall digest gs w o d' w',
  Forall plain_group gs -> plain_op o ->
  let d := run_f digest db0 gs in
  exec_g append_f digest w d o = (d', None, w') ->
  store d' = store d /\ stage d' = stage d /\ prime (dcat d') = prime (dcat d).
Proof.
  intros digest gs w o d' w' Hp Ho d H.
  destruct (SF_run digest gs db0 (SF_Iall0 digest) Hp) as [[HI _] _].
  destruct (SF_exec_cases digest _ _ _ _ _ _ HI Ho H) as [(rep & E & _)|(_ & S & G & _ & P & _)];
    [discriminate|auto].
Qed.
Print Assumptions C07_refused_call_stores_nothing.

(* close / reopen (= what a restart does) after any history with faults is the
   identity on the state *)
Theorem C07_survivor_is_restart : forall digest gs,
  Forall plain_group gs ->
  let d := run_f digest db0 gs in
  exec digest d OReopen = (d, RUnit).
Proof.
  intros digest gs Hp d.
  destruct (SF_run digest gs db0 (SF_Iall0 digest) Hp) as [[(Hw & _) _] _].
  cbn [exec]. rewrite SP_reopen_same by exact Hw. destruct d; reflexivity.
Qed.
Print Assumptions C07_survivor_is_restart.

(* non-vacuity: the fourth table write of the first update is refused (no
   file, no entry), the retry stops between rename and table write (file, no
   entry), the second retry completes; the same content is then not new *)
Example C07_example_faults :
  let gs := [(4, [OUpd 1 [84] (ex_id s_alg) 7 None]);
             (0, [OUpd 1 [84] (ex_id s_alg) 7 (Some 5)]);
             (0, [OUpd 1 [84] (ex_id s_alg) 7 None])] in
  Forall plain_group gs /\
  store (run_f idig db0 (firstn 1 gs)) = [] /\
  store (run_f idig db0 (firstn 2 gs)) = [(7, 7)]%Z /\
  prime (dcat (run_f idig db0 (firstn 2 gs))) = [] /\
  map snd (prime (dcat (run_f idig db0 gs))) = [7%Z] /\
  snd (update1 idig (run_f idig db0 gs) 2 [84] (ex_id s_alg) 7 None) = RNew false.
Proof.
  split.
  - unfold plain_group. repeat (apply Forall_cons || apply Forall_nil);
      cbn; unfold plain_id, plain; cbn; intuition discriminate.
  - vm_compute. repeat split; reflexivity.
Qed.
