(* C07 -- Content-addressed store: novelty flag, single copy, digest names,
   no dangling catalogue entry at any crash point of an update.
   Property theorems only; proofs live in Proofs/StoreProofs.v.

   A history is any list of operations (Model/Store.v op); an update carries
   `steps : option nat` = the process dies after that many of its six atomic
   steps (mkstemp, dump, md5sum, sha1sum, unlink|rename, table write), so
   "for every history" already ranges over every crash point of every update
   and over everything that is done after the crash (reopen, retry, ...).
   `digest` is universally quantified: nothing is assumed about it except
   where injectivity is written as a hypothesis. *)
From Coq Require Import List ZArith Bool.
From DV Require Import Model.Catalogue Model.Store Proofs.StoreProofs.
Import ListNotations.

Theorem C07_named_by_digest : forall digest ops b c,
  In (b, c) (store (run digest db0 ops)) -> b = digest c.
Proof. intros digest ops. exact (proj1 (SP_run digest ops db0 (SP_init digest))). Qed.
Print Assumptions C07_named_by_digest.

Theorem C07_single_copy : forall digest ops,
  NoDup (map fst (store (run digest db0 ops))) /\
  (forall r tn id c,
     In (digest c) (map fst (store (run digest db0 ops))) ->
     store (fst (update1 digest (run digest db0 ops) r tn id c None))
       = store (run digest db0 ops) /\
     stage (fst (update1 digest (run digest db0 ops) r tn id c None))
       = stage (run digest db0 ops)) /\
  (forall r tn id c,
     ~ In (digest c) (map fst (store (run digest db0 ops))) ->
     store (fst (update1 digest (run digest db0 ops) r tn id c None))
       = store (run digest db0 ops) ++ [(digest c, c)]).
Proof.
  intros digest ops. split; [|split].
  - exact (proj1 (proj2 (SP_run digest ops db0 (SP_init digest)))).
  - intros. now apply SP_second_copy.
  - intros. now apply SP_first_copy.
Qed.
Print Assumptions C07_single_copy.

Theorem C07_isnew_iff : forall digest ops r tn id c d' isnew,
  update1 digest (run digest db0 ops) r tn id c None = (d', RNew isnew) ->
  (isnew = true <-> ~ In (digest c) (map fst (store (run digest db0 ops)))) /\
  ((forall c', In c' (map snd (store (run digest db0 ops))) ->
               digest c' = digest c -> c' = c) ->
   (isnew = true <-> ~ In c (map snd (store (run digest db0 ops))))).
Proof.
  intros digest ops r tn id c d' isnew H. split.
  - eapply SP_isnew_digest; eauto.
  - intros Hinj. eapply SP_isnew_content; eauto.
    exact (proj1 (SP_run digest ops db0 (SP_init digest))).
Qed.
Print Assumptions C07_isnew_iff.

(* a completed update always answers with the flag (never RCrash) *)
Theorem C07_isnew_reported : forall digest d r tn id c,
  snd (update1 digest d r tn id c None) = RNew (negb (smem (digest c) (store d))).
Proof. intros. rewrite SP_store_to_key_steps. reflexivity. Qed.
Print Assumptions C07_isnew_reported.

Theorem C07_no_dangling : forall digest ops k b,
  In (k, b) (prime (dcat (run digest db0 ops))) ->
  In b (map fst (store (run digest db0 ops))).
Proof.
  intros digest ops. exact (proj2 (proj2 (SP_run digest ops db0 (SP_init digest)))).
Qed.
Print Assumptions C07_no_dangling.

(* the crash clause spelled out: after ANY history, an update that dies after
   ANY number n of its atomic steps leaves no dangling entry, digest-named
   files and one copy per name *)
Theorem C07_no_dangling_at_every_crash_point : forall digest ops r tn id c n,
  let d := fst (update1 digest (run digest db0 ops) r tn id c (Some n)) in
  (forall k b, In (k, b) (prime (dcat d)) -> In b (map fst (store d))) /\
  (forall b c', In (b, c') (store d) -> b = digest c') /\
  NoDup (map fst (store d)).
Proof.
  intros digest ops r tn id c n d.
  pose proof (SP_update1 digest (run digest db0 ops) r tn id c (Some n)
                (SP_run digest ops db0 (SP_init digest))) as (Hn & Hs & Hd).
  split; [exact Hd|split; [exact Hn|exact Hs]].
Qed.
Print Assumptions C07_no_dangling_at_every_crash_point.

(* ---- non-vacuity ---------------------------------------------------------- *)
(* a history with a crash between rename and table write, a retry, repeated
   content: the store holds files, the prime table holds entries *)
Example C07_example :
  let ops := [OUpd 1 [84] (ex_id s_alg) 7 None;
              OUpd 2 [84] (ex_id s_alg) 7 None;
              OUpd 3 [84] (ex_id s_alg) 9 (Some 5); OReopen;
              OUpd 3 [84] (ex_id s_alg) 9 None] in
  let d := run idig db0 ops in
  map snd (prime (dcat d)) = [7; 7; 9]%Z /\ store d = [(7, 7); (9, 9)]%Z /\
  stage d = [] /\
  snd (update1 idig d 4 [84] (ex_id s_alg) 9 None) = RNew false /\
  snd (update1 idig d 4 [84] (ex_id s_alg) 5 None) = RNew true /\
  (* the state right after the crash: file stored, not yet recorded *)
  store (run idig db0 (firstn 3 ops)) = [(7, 7); (9, 9)]%Z /\
  map snd (prime (dcat (run idig db0 (firstn 3 ops)))) = [7; 7]%Z.
Proof. vm_compute. repeat split; reflexivity. Qed.
