(* C08 -- Catalogue integrity and exact addressing.
   Property theorems only; proofs live in Proofs/CatalogueProofs.v and
   Proofs/StoreProofs.v.

   Names are lists of code points.  `plain n` = the name contains no ':'
   (what util.dissect needs; DESIGN asked for "contains neither separator",
   which is not enough: "x:parent" contains neither and still breaks dissect).
   A history is any list of operations of Model/Store.v (registrations,
   updates incl. crashed ones, loads, removals, close/reopen, ...), every name
   in it plain.  `digest` is arbitrary. *)
From Coq Require Import List ZArith Bool Arith Permutation.
From DV Require Import Model.Catalogue Model.Store Proofs.CatalogueProofs Proofs.StoreProofs.
Import ListNotations.

(* ---- names --------------------------------------------------------------- *)
Theorem C08_construct_injective : forall n p v n' p' v',
  construct n (Some p) (Some v) = construct n' (Some p') (Some v') ->
  n = n' /\ p = p' /\ v = v'.
Proof. exact CP_construct_inj. Qed.
Print Assumptions C08_construct_injective.

(* ---- bijection, gap-free, survives close/reopen, ids never reassigned ----- *)
Theorem C08_bijection : forall digest ops x,
  Forall plain_op ops ->
  let c := dcat (run digest db0 ops) in
  (forall nm i, alookup nm (tb c x) = Some i <-> nth_error (ix c x) i = Some nm) /\
  NoDup (ix c x) /\ NoDup (map fst (tb c x)) /\
  map snd (tb c x) = seq 0 (length (ix c x)) /\
  indexed (tb c x) = ix c x /\ reopen c = c.
Proof.
  intros digest ops x Hp c.
  destruct (SP_run_Idb digest ops db0 (SP_Idb0) Hp) as [(Hw & _) _].
  destruct (Hw x) as [Hi _]. fold c in Hw, Hi.
  split; [intros nm i; now apply CP_lookup_index|].
  split; [apply Hi|]. split; [eapply CP_keys_nodup; eauto|].
  split; [eapply CP_ids_gap_free; eauto|].
  split; [now apply CP_indexed|now apply SP_reopen_same].
Qed.
Print Assumptions C08_bijection.

Theorem C08_ids_never_reassigned : forall digest ops ops' x i nm,
  Forall plain_op ops -> Forall plain_op ops' ->
  nth_error (ix (dcat (run digest db0 ops)) x) i = Some nm ->
  nth_error (ix (dcat (run digest db0 (ops ++ ops'))) x) i = Some nm.
Proof.
  intros digest ops ops' x i nm Hp Hp' H. unfold run. rewrite fold_left_app.
  destruct (SP_run_Idb digest ops db0 (SP_Idb0) Hp) as [HI _].
  destruct (SP_run_Idb digest ops' _ HI Hp') as [_ X].
  eapply CP_ext_nth; eauto.
Qed.
Print Assumptions C08_ids_never_reassigned.

(* close/reopen rebuilds the index with sorted(table.items(), key=id): the
   result does not depend on the order in which the dbm file enumerates the
   table *)
Theorem C08_reopen_order_independent : forall digest ops x t',
  Forall plain_op ops ->
  let c := dcat (run digest db0 ops) in
  Permutation (tb c x) t' -> indexed t' = ix c x.
Proof.
  intros digest ops x t' Hp c P.
  destruct (SP_run_Idb digest ops db0 (SP_Idb0) Hp) as [(Hw & _) _].
  destruct (Hw x) as [Hi _]. eapply CP_indexed_any_order; eauto.
Qed.
Print Assumptions C08_reopen_order_independent.

(* ---- every primary entry resolves through task, alg, state vector, value -- *)
Theorem C08_chain : forall digest ops key b,
  Forall plain_op ops ->
  let c := dcat (run digest db0 ops) in
  In (key, b) (prime c) ->
  let '(_, t, k, a, s, v) := key in
  t < length (ix c Ttarget) /\ k < length (ix c Ttask) /\
  (exists an av, nth_error (ix c Talg) a = Some (construct an (Some k) (Some av))) /\
  (exists sn sv, nth_error (ix c Tstate) s = Some (construct sn (Some a) (Some sv))) /\
  (exists vn vv, nth_error (ix c Tvalue) v = Some (construct vn (Some s) (Some vv))).
Proof.
  intros digest ops key b Hp c Hin.
  destruct (SP_run_Idb digest ops db0 (SP_Idb0) Hp) as [(_ & _ & Hch) _].
  exact (Hch _ _ Hin).
Qed.
Print Assumptions C08_chain.

(* ---- next run id ------------------------------------------------------------ *)
Theorem C08_next : forall c key b,
  In (key, b) (prime c) -> (pk_run key < next_run c)%Z.
Proof. exact CP_next_greater. Qed.
Print Assumptions C08_next.

(* ---- exact addressing: subset (after commit 5adadeb) ------------------------ *)
Theorem C08_subset_exact : forall t n ps k x,
  functional t -> shaped t -> plain n -> ps <> [] ->
  (In (k, x) (subset t n ps)
   <-> In (k, x) t /\ exists p v, In p ps /\ k = construct n (Some p) (Some v)).
Proof. exact CP_subset_exact. Qed.
Print Assumptions C08_subset_exact.

Theorem C08_prime_prefix_exact : forall r t k a key,
  (prefixb (pfx3 r t k) (pkey_str key) = true
   <-> pk_run key = r /\ (let '(_, t', k', _, _, _) := key in t' = t /\ k' = k)) /\
  (prefixb (pfx4 r t k a) (pkey_str key) = true
   <-> pk_run key = r /\ (let '(_, t', k', a', _, _) := key in t' = t /\ k' = k /\ a' = a)).
Proof. intros. split; [apply CP_pfx3_exact|apply CP_pfx4_exact]. Qed.
Print Assumptions C08_prime_prefix_exact.

(* the pinned snapshot (prefix match) was not exact: alg also selects alg2 *)
Theorem C08_subset_prefix_refuted : exists t n ps k x,
  In (k, x) (subset_old t n ps) /\
  ~ exists p v, k = construct n (Some p) (Some v).
Proof.
  exists [(construct s_alg (Some 0) (Some (1, 0, 0)%Z), 0);
          (construct s_alg2 (Some 0) (Some (1, 0, 0)%Z), 1)], s_alg, [0],
         (construct s_alg2 (Some 0) (Some (1, 0, 0)%Z)), 1.
  split; [vm_compute; auto|].
  intros (p & v & E). apply CP_construct_inj in E. destruct E as [E _]. discriminate.
Qed.
Print Assumptions C08_subset_prefix_refuted.

(* ---- exact addressing: remove -------------------------------------------------- *)
Theorem C08_exact_remove : forall digest ops r tn taskn algn svn vn c',
  Forall plain_op ops -> plain algn -> plain svn -> plain vn ->
  let c := dcat (run digest db0 ops) in
  remove c r tn taskn algn svn vn = Some c' ->
  (forall x, tb c' x = tb c x /\ ix c' x = ix c x) /\
  forall key b, In (key, b) (prime c')
    <-> In (key, b) (prime c) /\
        ~ (pk_run key = r /\ has_names c key tn taskn algn svn vn).
Proof.
  intros digest ops r tn taskn algn svn vn c' Hp Ha Hs Hv c H.
  destruct (SP_run_Idb digest ops db0 (SP_Idb0) Hp) as [HI _].
  destruct (CP_remove_exact _ _ _ _ _ _ _ _ HI Ha Hs Hv H) as (H1 & _ & H2). auto.
Qed.
Print Assumptions C08_exact_remove.

Theorem C08_remove_prefix_refuted : exists ops key b c',
  let c := dcat (run idig db0 ops) in
  remove_old c 3 [84] [116] s_alg [115] [118] = Some c' /\
  In (key, b) (prime c) /\ ~ In (key, b) (prime c') /\
  ~ has_names c key [84] [116] s_alg [115] [118].
Proof.
  exists [OUpd 3 [84] (ex_id s_alg) 7 None; OUpd 3 [84] (ex_id s_alg2) 8 None],
         (3%Z, 0, 0, 1, 1, 1), 8%Z.
  eexists. split; [vm_compute; reflexivity|]. split; [vm_compute; auto|].
  split; [vm_compute; intuition discriminate|].
  intros (_ & _ & (av & H) & _). vm_compute in H. discriminate.
Qed.
Print Assumptions C08_remove_prefix_refuted.

(* ---- exact addressing: reset (after commit 4962e8d) ----------------------------- *)
Theorem C08_exact_reset : forall digest ops r tn tskn algn ptab,
  Forall plain_op ops -> plain algn ->
  let c := dcat (run digest db0 ops) in
  reset_ptab c r tn tskn algn = Some ptab ->
  forall key b, In (key, b) ptab ->
    In (key, b) (prime c) /\ pk_run key = r /\
    let '(_, t, k, a, _, _) := key in
    nth_error (ix c Ttarget) t = Some tn /\ nth_error (ix c Ttask) k = Some tskn /\
    exists av, nth_error (ix c Talg) a = Some (construct algn (Some k) (Some av)).
Proof.
  intros digest ops r tn tskn algn ptab Hp Ha c H.
  destruct (SP_run_Idb digest ops db0 (SP_Idb0) Hp) as [HI _].
  exact (CP_reset_exact _ _ _ _ _ _ HI Ha H).
Qed.
Print Assumptions C08_exact_reset.

(* before 4962e8d an algorithm with nothing stored read its sibling's entries *)
Theorem C08_reset_fallback_refuted : exists c r tn tskn algn ptab key b,
  reset_ptab_old c r tn tskn algn = Some ptab /\ In (key, b) ptab /\
  let '(_, _, k, a, _, _) := key in
  ~ exists av, nth_error (ix c Talg) a = Some (construct algn (Some k) (Some av)).
Proof.
  exists reset_old_witness, 3%Z, [84], [116], [109], [((3%Z, 0, 0, 0, 0, 0), 5%Z)],
         (3%Z, 0, 0, 0, 0, 0), 5%Z.
  split; [vm_compute; reflexivity|]. split; [now left|].
  intros (av & H). cbn in H. discriminate H.
Qed.
Print Assumptions C08_reset_fallback_refuted.

(* ---- exact addressing: trace --------------------------------------------------------
   partial: the only name-addressed step of trace() is the selection of the
   candidate algorithm entries; it is exact.  Not proved: that the newest
   version is picked among them and that the reported run is the maximum
   (checked by the oracle on the implementation). *)
Theorem C08_exact_trace_partial : forall digest ops algn tskid id,
  Forall plain_op ops -> plain algn ->
  let c := dcat (run digest db0 ops) in
  (In id (map snd (subset (t_alg c) algn [tskid]))
   <-> exists v, nth_error (ix c Talg) id = Some (construct algn (Some tskid) (Some v))).
Proof.
  intros digest ops algn tskid id Hp Ha c.
  destruct (SP_run_Idb digest ops db0 (SP_Idb0) Hp) as [(Hw & _) _].
  pose proof (CP_subset_ids c Talg algn [tskid] id Hw) as H. cbn [tb] in H.
  rewrite H; try discriminate; auto. split.
  - intros (p & v & [<-|[]] & Hn). eauto.
  - intros (v & Hn). exists tskid, v. split; [now left|exact Hn].
Qed.
Print Assumptions C08_exact_trace_partial.

(* ---- non-vacuity --------------------------------------------------------------------- *)
Definition ex_ops : list op :=
  [OUpd 3 [84] (ex_id s_alg) 7 None; OUpd 3 [84] (ex_id s_alg2) 8 None;
   OUpd 2 [84] (ex_id s_alg) 9 (Some 5); OReopen; OLoad 1 [84; 84] (ex_id s_alg2)].

Example C08_example_plain : Forall plain_op ex_ops.
Proof.
  unfold ex_ops. repeat (apply Forall_cons || apply Forall_nil);
    cbn; unfold plain_id, plain; cbn; intuition discriminate.
Qed.

(* a proper prefix pair is registered, remove addressed to the shorter name
   deletes one of two entries of run 3 and keeps alg2's *)
Example C08_example_remove :
  let c := dcat (run idig db0 ex_ops) in
  map fst (prime c) = [(3%Z, 0, 0, 0, 0, 0); (3%Z, 0, 0, 1, 1, 1)] /\
  option_map (fun c' => map fst (prime c')) (remove c 3 [84] [116] s_alg [115] [118])
    = Some [(3%Z, 0, 0, 1, 1, 1)] /\
  option_map (fun c' => map fst (prime c')) (remove_old c 3 [84] [116] s_alg [115] [118])
    = Some [] /\
  next_run c = 4%Z /\ length (ix c Ttarget) = 2 /\
  reset_ptab c 3 [84] [116] s_alg = Some [((3%Z, 0, 0, 0, 0, 0), 7%Z)].
Proof. vm_compute. repeat split; reflexivity. Qed.

(* ---- the model functions ARE the python source (translation + proof) ------------------
   Gen/UtilGen.v is regenerated on every run from dawgie/db/shelve/util.py
   (construct, dissect, subset) and dawgie.Version.asstring by the fail-closed
   translator tools/translate/util2coq.py.  The generated definitions are
   equal to the hand-written model functions for ALL arguments (no guard), so
   every theorem above about Catalogue.construct/dissect/subset is a theorem
   about the source text of today; a semantic edit of the python breaks one of
   these three obligations.  (Qualified names on purpose: nothing is imported.) *)
From DV Require Gen.UtilGen Proofs.UtilGenEq.

Theorem C08_construct_is_source : forall n p v,
  UtilGen.construct n p v = Catalogue.construct n p v.
Proof. exact UtilGenEq.construct_gen_eq. Qed.
Print Assumptions C08_construct_is_source.

Theorem C08_dissect_is_source : forall s, UtilGen.dissect s = Catalogue.dissect s.
Proof. exact UtilGenEq.dissect_gen_eq. Qed.
Print Assumptions C08_dissect_is_source.

Theorem C08_subset_is_source : forall t n parents,
  UtilGen.subset t n parents = Catalogue.subset t n parents.
Proof. exact UtilGenEq.subset_gen_eq. Qed.
Print Assumptions C08_subset_is_source.

(* a transfer: injectivity of the names, stated on the generated function *)
Theorem C08_construct_injective_source : forall n p v n' p' v',
  UtilGen.construct n (Some p) (Some v) = UtilGen.construct n' (Some p') (Some v') ->
  n = n' /\ p = p' /\ v = v'.
Proof.
  intros n p v n' p' v'. rewrite !UtilGenEq.construct_gen_eq. apply CP_construct_inj.
Qed.
Print Assumptions C08_construct_injective_source.

Example C08_source_example :
  UtilGen.dissect (UtilGen.construct s_alg2 (Some 3) (Some (1, 0, 2)%Z))
    = Some (Some 3, s_alg2, Some (1, 0, 2)%Z) /\
  UtilGen.construct s_alg (Some 12) (Some (1, 10, 0)%Z)
    <> UtilGen.construct s_alg (Some 1) (Some (1, 10, 0)%Z) /\
  map snd (UtilGen.subset [(UtilGen.construct s_alg (Some 0) (Some (1, 0, 0)%Z), 0);
                           (UtilGen.construct s_alg2 (Some 0) (Some (1, 0, 0)%Z), 1)]
                          s_alg [0]) = [0].
Proof. vm_compute. repeat split; try reflexivity. discriminate. Qed.

(* ---- histories with REFUSED catalogue-table writes ---------------------------------------
   Model/StoreFault.v: the file system refuses the k-th write to one of the
   five name tables during a client call (OSError), the database process
   carries on.  A history is a list of client calls `(w, ops)`: `ops` the
   operations of the call (one per value for an _update / _load), `w` the
   fault armed for it (0 = none, k = the k-th table write of the call raises;
   the call ends there).  util.append writes the table FIRST and extends the
   in-memory index afterwards; `run_f` is that order, `run_e` the order of
   seeded change C08-4 (index first).  `chained c key` (Proofs/CatalogueProofs.v)
   is the conclusion of C08_chain: every id of the key is in range and the
   rows are linked by their parent ids. *)
From DV Require Import Model.StoreFault Proofs.StoreFaultProofs.

Theorem C08_catalogue_inv_faults : forall digest gs x,
  Forall plain_group gs ->
  let c := dcat (run_f digest db0 gs) in
  (forall nm i, alookup nm (tb c x) = Some i <-> nth_error (ix c x) i = Some nm) /\
  NoDup (ix c x) /\ NoDup (map fst (tb c x)) /\
  map snd (tb c x) = seq 0 (length (ix c x)) /\
  indexed (tb c x) = ix c x /\ reopen c = c /\
  (forall key b, In (key, b) (prime c) -> chained c key).
Proof.
  intros digest gs x Hp c.
  destruct (SF_run digest gs db0 (SF_Iall0 digest) Hp) as [[(Hw & _ & Hch) _] _].
  destruct (Hw x) as [Hi _]. fold c in Hw, Hi, Hch.
  split; [intros nm i; now apply CP_lookup_index|].
  split; [apply Hi|]. split; [eapply CP_keys_nodup; eauto|].
  split; [eapply CP_ids_gap_free; eauto|].
  split; [now apply CP_indexed|]. split; [now apply SP_reopen_same|exact Hch].
Qed.
Print Assumptions C08_catalogue_inv_faults.

Theorem C08_ids_never_reassigned_faults : forall digest gs gs' x i nm,
  Forall plain_group gs -> Forall plain_group gs' ->
  nth_error (ix (dcat (run_f digest db0 gs)) x) i = Some nm ->
  nth_error (ix (dcat (run_f digest db0 (gs ++ gs'))) x) i = Some nm.
Proof.
  intros digest gs gs' x i nm Hp Hp' H. unfold run_f, run_g. rewrite fold_left_app.
  destruct (SF_run digest gs db0 (SF_Iall0 digest) Hp) as [HA _].
  destruct (SF_run digest gs' _ HA Hp') as [_ X].
  eapply CP_ext_nth; eauto.
Qed.
Print Assumptions C08_ids_never_reassigned_faults.

(* the refused call: it answers with the exception (reply None), the primary
   table, the store and the staging area are as before, every row that was
   registered keeps its id (the rows the call appended before the refused
   write stay as well) *)
Theorem C08_refused_call_keeps_registered : forall digest gs w o d' w',
  Forall plain_group gs -> plain_op o ->
  let d := run_f digest db0 gs in
  exec_g append_f digest w d o = (d', None, w') ->
  prime (dcat d') = prime (dcat d) /\ store d' = store d /\ stage d' = stage d /\
  forall x i nm, nth_error (ix (dcat d) x) i = Some nm ->
                 nth_error (ix (dcat d') x) i = Some nm.
Proof.
  intros digest gs w o d' w' Hp Ho d H.
  destruct (SF_run digest gs db0 (SF_Iall0 digest) Hp) as [[HI _] _].
  destruct (SF_exec_cases digest _ _ _ _ _ _ HI Ho H) as [(rep & E & _)|(_ & S & G & _ & P & X)];
    [discriminate|].
  split; [exact P|]. split; [exact S|]. split; [exact G|].
  intros x i nm Hn. eapply CP_ext_nth; eauto.
Qed.
Print Assumptions C08_refused_call_keeps_registered.

(* refused on the first new row: nothing at all changed (no id is burnt) *)
Theorem C08_refused_add_changes_nothing : forall digest d tn,
  alookup tn (t_target (dcat d)) = None ->
  exec_g append_f digest 1 d (OAdd tn) = (d, None, 0).
Proof. exact SF_refused_add. Qed.
Print Assumptions C08_refused_add_changes_nothing.

(* with nothing armed the extended model is the model of the theorems above *)
Theorem C08_faults_conservative : forall digest gss d,
  run_f digest d (map (fun ops => (0, ops)) gss) = run digest d (concat gss).
Proof. exact SF_run_0. Qed.
Print Assumptions C08_faults_conservative.

(* why the order matters: with the index extended BEFORE the table write
   (seeded change C08-4) a refused write followed by the retry of the same
   update leaves a duplicate in the index, a table whose ids are not 0..n-1, an
   index that close/reopen does not rebuild, and a primary key whose
   algorithm id is out of range after the reopen *)
Theorem C08_catalogue_inv_faults_refuted : exists gs x,
  Forall plain_group gs /\
  let c := dcat (run_e idig db0 gs) in
  ~ NoDup (ix c x) /\
  map snd (tb c x) <> seq 0 (length (tb c x)) /\
  indexed (tb c x) <> ix c x /\ reopen c <> c /\
  exists key b, In (key, b) (prime c) /\ ~ chained (reopen c) key.
Proof. exists early_witness, Talg. split; [exact SF_early_plain|exact SF_early_broken]. Qed.
Print Assumptions C08_catalogue_inv_faults_refuted.

(* non-vacuity: a plain history in which writes ARE refused (third write of an
   update, first write of an add, fourth write of a two-value update), retried,
   closed and reopened *)
Definition ex_faults : list fgroup :=
  [(3, [OUpd 3 [84] (ex_id s_alg) 7 None]);
   (1, [OAdd [85]]);
   (0, [OUpd 3 [84] (ex_id s_alg) 7 None]);
   (4, [OUpd 4 [85] (ex_id s_alg2) 8 None; OUpd 4 [85] (ex_id s_alg2) 9 None]);
   (0, [OReopen]); (0, [OAdd [85]])].

Example C08_example_faults :
  Forall plain_group ex_faults /\
  let c := dcat (run_f idig db0 ex_faults) in
  lens c = [2; 1; 2; 2; 1] /\ map fst (prime c) = [(3%Z, 0, 0, 0, 0, 0)] /\
  map (fun g => refused (snd (fst (exec_group_g append_f idig (fst g) db0 (snd g)))))
      (firstn 2 ex_faults) = [true; true].
Proof.
  split.
  - unfold ex_faults, plain_group. repeat (apply Forall_cons || apply Forall_nil);
      cbn; unfold plain_id, plain; cbn; intuition discriminate.
  - vm_compute. repeat split; reflexivity.
Qed.
