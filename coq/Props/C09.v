From DV Require Import Model.Dag Proofs.DagProofs.
From Coq Require Import List Arith Bool.
Import ListNotations.
Theorem C09_placeholder : t_nodes ex_dag 2 = [[1;2]; [1;4]; [1;3]].
Proof. vm_compute. reflexivity. Qed.
Print Assumptions C09_placeholder.
