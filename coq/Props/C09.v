(* C09 -- The derived task graph is faithful to the declared dependencies.
   Property theorems only; proofs live in Proofs/DagProofs.v.

   Setting.  [e] is an engine descriptor (DESIGN A.1), [construct e ro fo] the
   model of dag.Construct(factories) ([ro], [fo]: iteration orders of two
   python sets, any lists -- the theorems hold for every order).  The
   hypotheses are one boolean, [wf_engineb e rk = true]:
     - (package, algorithm) names are unique,
     - every reference (input or feedback) resolves to >= 1 existing value
       (compliance rule 11),
     - [rk] is a rank witness: every declared input has a strictly smaller rank
       than its consumer and ranks are < number of algorithms (acyclicity).
   A dotted name is the list of its components; [trim L] keeps the first L
   (Construct.trim).  L = 2: algorithm tree [at], 3: state vectors [svt],
   1: packages [tt], 4: values [vt].  [b_own b] are the value names algorithm
   [b] owns, [expands e (a_deps (b_alg b))] the value names it declares as input
   (as_vref of previous()/traits()/variables()). *)
From DV Require Import Model.Dag Proofs.DagProofs.
From Coq Require Import List Arith Bool Relations.
Import ListNotations.

(* the boolean hypothesis implies the logical one used in Proofs/ *)
Theorem C09_hypotheses : forall e rk, wf_engineb e rk = true -> wf_engine e (rank_of rk).
Proof. exact wf_engineb_spec. Qed.
Print Assumptions C09_hypotheses.

(* ---- nodes ------------------------------------------------------------- *)
(* the algorithm tree has exactly one node per algorithm that owns a value,
   and each hangs below a root of [at] (so locate()/iter() find it) *)
Theorem C09_nodes : forall e rk ro fo, wf_engineb e rk = true ->
  let d := construct e ro fo in
  NoDup (t_nodes d 2) /\
  (forall X, In X (t_nodes d 2) <->
             exists b, In b (build_order e) /\ b_own b <> [] /\ b_tag b = X) /\
  (forall X, In X (t_nodes d 2) ->
             exists r, In r (t_roots d 2) /\
                       clos_refl_trans name (fun x y => In y (t_kids d 2 x)) r X).
Proof.
  intros e rk ro fo H d. pose proof (wf_engineb_spec e rk H) as W. split; [|split].
  - apply (t_nodes_nodup e ro fo).
  - intro X. apply (t_nodes2_iff e (rank_of rk) ro fo X W).
  - intro X. apply (t_nodes_reach e (rank_of rk) W ro fo).
Qed.
Print Assumptions C09_nodes.

(* same at every granularity: one node per distinct L-prefix of an owned value *)
Theorem C09_nodes_levels : forall e rk ro fo L, wf_engineb e rk = true ->
  let d := construct e ro fo in
  NoDup (t_nodes d L) /\
  (forall X, In X (t_nodes d L) <->
             exists b v, In b (build_order e) /\ In v (b_own b) /\ trim L v = X) /\
  (forall X, In X (t_nodes d L) ->
             exists r, In r (t_roots d L) /\
                       clos_refl_trans name (fun x y => In y (t_kids d L x)) r X).
Proof.
  intros e rk ro fo L H d. pose proof (wf_engineb_spec e rk H) as W. split; [|split].
  - apply (t_nodes_nodup e ro fo).
  - intro X. unfold d. rewrite (t_nodes_iff e (rank_of rk) W). unfold owned. split.
    + intros [v [[b [Hb Hv]] E]]. exists b, v. auto.
    + intros [b [v [Hb [Hv E]]]]. exists v. split; [exists b; auto | exact E].
  - intro X. apply (t_nodes_reach e (rank_of rk) W ro fo).
Qed.
Print Assumptions C09_nodes_levels.

(* the entry points of every tree (Construct.at / svt / tt / vt) are the trimmed
   values of the algorithms that declare no input; no hypothesis needed *)
Theorem C09_roots : forall e ro fo L r,
  In r (t_roots (construct e ro fo) L) <->
  exists b v, In b (build_order e) /\ a_deps (b_alg b) = [] /\ In v (b_own b) /\ trim L v = r.
Proof. exact t_roots_iff. Qed.
Print Assumptions C09_roots.

(* ---- edges ------------------------------------------------------------- *)
(* Y is a child of X in the tree of granularity L exactly when some value of
   Y's L-prefix is owned by an algorithm that declares a value with L-prefix X
   as input; for every L (1 = tt, 2 = at, 3 = svt, 4 = vt) *)
Theorem C09_edges : forall e rk ro fo L X Y, wf_engineb e rk = true ->
  (In Y (t_kids (construct e ro fo) L X) <->
   exists b c p, In b (build_order e) /\ In c (b_own b) /\
                 In p (expands e (a_deps (b_alg b))) /\ trim L p = X /\ trim L c = Y).
Proof.
  intros e rk ro fo L X Y H. rewrite (t_kids_iff e (rank_of rk) (wf_engineb_spec e rk H)).
  apply ledge_descr.
Qed.
Print Assumptions C09_edges.

(* at most one edge between two nodes (Node.add), for any engine *)
Theorem C09_edges_nodup : forall e ro fo L X, NoDup (t_kids (construct e ro fo) L X).
Proof. intros. unfold t_kids, skids. apply NoDup_adds. constructor. Qed.
Print Assumptions C09_edges_nodup.

(* the value-level graph itself (Construct.vt / node children), no hypothesis *)
Theorem C09_edges_values : forall e ro fo p c,
  In c (kids (d_edges (construct e ro fo)) p) <->
  exists b, In b (build_order e) /\ In c (b_own b) /\ In p (expands e (a_deps (b_alg b))).
Proof. intros e ro fo p c. apply vedge_iff. Qed.
Print Assumptions C09_edges_values.

(* the scheduling relation is irreflexive and follows the rank: kids acyclic *)
Theorem C09_edges_acyclic : forall e rk ro fo X Y, wf_engineb e rk = true ->
  In Y (t_kids (construct e ro fo) 2 X) -> rank_of rk X < rank_of rk Y /\ X <> Y.
Proof.
  intros e rk ro fo X Y H Hk. pose proof (wf_engineb_spec e rk H) as W.
  apply (t_kids_iff e (rank_of rk) W) in Hk. apply (ledge2_rank e (rank_of rk) W) in Hk.
  split; [exact Hk | intro E; subst; apply (Nat.lt_irrefl _ Hk)].
Qed.
Print Assumptions C09_edges_acyclic.

(* ---- ancestry ---------------------------------------------------------- *)
(* the 'ancestry' attribute of an algorithm node is the transitive closure of
   the algorithm-level edges; 'parents' is their inverse.  (That the fuelled
   loops of the model terminate with the full closure is part of the
   statement: on a cyclic engine the python loops for ever.) *)
Theorem C09_ancestry : forall e rk ro fo X A, wf_engineb e rk = true ->
  let d := construct e ro fo in
  (In A (t_anc d X) <-> clos_trans name (fun a x => In x (t_kids d 2 a)) A X) /\
  (In A (t_par d X) <-> In X (t_kids d 2 A)).
Proof.
  intros e rk ro fo X A H d. pose proof (wf_engineb_spec e rk H) as W. split.
  - unfold d. rewrite (t_anc_iff e (rank_of rk) W).
    split; apply ct_incl; intros x y Hxy;
      [apply (t_kids_iff e (rank_of rk) W ro fo); exact Hxy
      | apply (t_kids_iff e (rank_of rk) W ro fo) in Hxy; exact Hxy].
  - unfold d. rewrite (t_par_iff e (rank_of rk) W), (t_kids_iff e (rank_of rk) W). reflexivity.
Qed.
Print Assumptions C09_ancestry.

(* value level: the ancestry set of every value node is the transitive closure
   of the value-level edges, and any larger fuel gives the same set *)
Theorem C09_ancestry_values : forall e rk ro fo n a, wf_engineb e rk = true ->
  let d := construct e ro fo in
  In n (d_flat d) ->
  (In a (d_anc d n) <-> clos_trans name (fun x y => In y (kids (d_edges d) x)) a n) /\
  (forall f, d_fuel d <= f -> (In a (ancestry (d_par d) f n) <-> In a (d_anc d n))).
Proof.
  intros e rk ro fo n a H d Hn. pose proof (wf_engineb_spec e rk H) as W.
  assert (Ho : owned e n) by (apply (flat_owned e (rank_of rk) W); exact Hn).
  split.
  - unfold d. rewrite (d_anc_iff e (rank_of rk) W ro fo n a Ho).
    split; apply ct_incl; intros x y Hxy; apply vedge_iff; exact Hxy.
  - intros f Hf. unfold d. rewrite (d_anc_eq e ro fo n). fold d.
    assert (Hdec : forall x y, pedge (d_par d) x y -> rvv (rank_of rk) x < rvv (rank_of rk) y).
    { intros x y Hxy. apply (d_par_iff e (rank_of rk) W) in Hxy. apply (vedge_rank e (rank_of rk) W). exact Hxy. }
    pose proof (owned_bound e (rank_of rk) W n Ho) as Hb.
    assert (Hfu : d_fuel d = dfuel e (flat_order (events e))) by reflexivity.
    rewrite (ancestry_spec (d_par d) (rvv (rank_of rk)) Hdec f n), (ancestry_spec (d_par d) (rvv (rank_of rk)) Hdec (d_fuel d) n).
    + reflexivity.
    + rewrite Hfu. unfold dfuel. apply Nat.lt_le_incl. eapply Nat.lt_trans; [exact Hb|]. apply Nat.lt_succ_r. apply Nat.le_add_r.
    + eapply Nat.le_trans; [|exact Hf]. rewrite Hfu. unfold dfuel. apply Nat.lt_le_incl. eapply Nat.lt_trans; [exact Hb|]. apply Nat.lt_succ_r. apply Nat.le_add_r.
Qed.
Print Assumptions C09_ancestry_values.

(* ---- feedback ---------------------------------------------------------- *)
(* removing every feedback reference from the engine changes no node, no edge
   (at any granularity) and no ancestry: feedback orders nothing *)
Theorem C09_feedback_no_order : forall e rk ro fo ro' fo', wf_engineb e rk = true ->
  (forall L X Y, In Y (t_kids (construct e ro fo) L X) <-> In Y (t_kids (construct (no_fb e) ro' fo') L X)) /\
  (forall X A, In A (t_anc (construct e ro fo) X) <-> In A (t_anc (construct (no_fb e) ro' fo') X)) /\
  (forall L X, In X (t_nodes (construct e ro fo) L) <-> In X (t_nodes (construct (no_fb e) ro' fo') L)).
Proof.
  intros e rk ro fo ro' fo' H. apply (feedback_orders_nothing e (rank_of rk)). apply wf_engineb_spec. exact H.
Qed.
Print Assumptions C09_feedback_no_order.

(* every fed-back value name is a key of Construct.feedbacks and is mapped to
   (the tag of a value of) a consumer that declares it; there is no other key;
   the 'feedback' attribute of a tree node holds exactly the trimmed names its
   values' algorithm declares *)
Theorem C09_feedback : forall e rk ro fo, wf_engineb e rk = true ->
  let d := construct e ro fo in
  (forall b f, In b (build_order e) -> b_own b <> [] -> In f (expands e (a_fb (b_alg b))) ->
     exists n b', dict_get (d_fbs d) f = Some n /\ In b' (build_order e) /\ In n (b_own b') /\
                  In f (expands e (a_fb (b_alg b')))) /\
  (forall f n, dict_get (d_fbs d) f = Some n ->
     exists b', In b' (build_order e) /\ In n (b_own b') /\ In f (expands e (a_fb (b_alg b')))) /\
  (forall L X Y, In Y (t_fb d L X) <->
     exists b v f, In b (build_order e) /\ In v (b_own b) /\ In f (expands e (a_fb (b_alg b))) /\
                   trim L v = X /\ trim L f = Y).
Proof.
  intros e rk ro fo H d. pose proof (wf_engineb_spec e rk H) as W.
  assert (S : forall f n, owned e n -> In f (fb_of e n) ->
              exists b', In b' (build_order e) /\ In n (b_own b') /\ In f (expands e (a_fb (b_alg b')))).
  { intros f n [b' [Hb' Hn]] Hf. exists b'. repeat split; auto.
    unfold fb_of in Hf. rewrite (owner_of e (rank_of rk) W b' n Hb' Hn) in Hf. exact Hf. }
  split; [|split].
  - intros b f Hb Hne Hf. destruct (fbs_complete e (rank_of rk) W ro fo b f Hb Hne Hf) as [n [Hd [Ho Hfn]]].
    destruct (S f n Ho Hfn) as [b' Hb']. exists n, b'. split; [exact Hd | exact Hb'].
  - intros f n Hd. destruct (fbs_sound e (rank_of rk) W ro fo f n Hd) as [Ho Hfn]. apply S; assumption.
  - intros L X Y. unfold d. rewrite (t_fb_iff e (rank_of rk) W). split.
    + intros [v [f [Ho [Hf [E1 E2]]]]]. destruct (S f v Ho Hf) as [b [Hb [Hv Hfb]]]. exists b, v, f. auto.
    + intros [b [v [f [Hb [Hv [Hf [E1 E2]]]]]]]. exists v, f. split; [exists b; auto|]. split; [|auto].
      unfold fb_of. rewrite (owner_of e (rank_of rk) W b v Hb Hv). exact Hf.
Qed.
Print Assumptions C09_feedback.

(* ---- the record consumed by the scheduler model ------------------------- *)
(* [graph_of] = one record per node of Construct.at.  Stated on plain lists:
   tags are unique; kids are nodes and have a larger rank (acyclic); anc is the
   transitive closure of the inverse of kids; outs are non-empty and belong to
   the node; Y is a kid of X exactly when Y declares an output of X as input;
   every input is an output of some node. *)
Theorem C09_wf : forall e rk ro fo, wf_engineb e rk = true ->
  let G := fst (graph_of e ro fo) in
  NoDup (map g_tag G) /\
  (forall g y, In g G -> In y (g_kids g) ->
               (exists g', In g' G /\ g_tag g' = y) /\ rank_of rk (g_tag g) < rank_of rk y) /\
  (forall g A, In g G ->
               (In A (g_anc g) <->
                clos_trans name (fun a x => exists ga, In ga G /\ g_tag ga = a /\ In x (g_kids ga)) A (g_tag g))) /\
  (forall g, In g G -> g_outs g <> [] /\ forall v, In v (g_outs g) -> trim 2 v = g_tag g) /\
  (forall g y, In g G ->
               (In y (g_kids g) <->
                exists g', In g' G /\ g_tag g' = y /\ exists p, In p (g_ins g') /\ In p (g_outs g))) /\
  (forall g p, In g G -> In p (g_ins g) -> exists g', In g' G /\ In p (g_outs g')).
Proof.
  intros e rk ro fo H. apply (graph_wf e (rank_of rk)). apply wf_engineb_spec. exact H.
Qed.
Print Assumptions C09_wf.

(* ---- non-vacuity -------------------------------------------------------- *)
(* a0 -> a1 -> a2, a0 -> a2 by a value reference, a0 consumes a value of a2 as
   feedback: the hypotheses hold and the conclusions are not empty *)
Example C09_example_hypotheses : wf_engineb ex_eng ex_rank = true.
Proof. vm_compute. reflexivity. Qed.
Example C09_example_graph :
  map (fun g => (g_tag g, g_kids g, g_anc g, g_lvl g)) (fst (graph_of ex_eng [] (fun _ => []))) =
  [([1;2], [[1;3]; [1;4]], [], 0); ([1;3], [[1;4]], [[1;2]], 1); ([1;4], [], [[1;3]; [1;2]], 2)]
  /\ snd (graph_of ex_eng [] (fun _ => [])) = [([1;4;10;20], [1;2;10;21])].
Proof. vm_compute. split; reflexivity. Qed.
