(* C10 -- Life-cycle follows the documented state machine and returns to rest.
   Property theorems only; proofs live in Proofs/FsmProofs.v, Proofs/FsmEnvProofs.v.
   The model (Model/Fsm.v) interprets the table generated from pl/state.dot. *)
From Coq Require Import List Bool Arith.
From DV Require Import Gen.FsmTable Gen.PriorityGen Gen.TriggerSites Model.Fsm
                       Proofs.FsmProofs Proofs.FsmEnvProofs.
Import ListNotations.

(* every change of `state`, in every run of any events (triggers fired by hand
   at arbitrary moments included, nested triggers included), is an edge of the
   generated table, and the changes form a path from the initial state *)
Theorem C10_edges : forall evs, chain0 initial_state (run init evs).
Proof. intros evs. apply chain_run. reflexivity. Qed.
Print Assumptions C10_edges.

Theorem C10_edges_meaning : forall a b, edge_ok a b = true ->
  exists e, In e edges /\ e_src e = a /\ e_dst e = b.
Proof. exact edge_ok_in. Qed.
Print Assumptions C10_edges_meaning.

(* a trigger without an edge from the current state is rejected and the whole
   model state (ghosts included) is unchanged *)
Theorem C10_reject_pure : forall s t,
  (forall e, In e edges -> ~ (e_trig e = t /\ e_src e = st s)) ->
  step s (Fire t) = (s, Rejected).
Proof. exact fsm_reject_pure. Qed.
Print Assumptions C10_reject_pure.

(* the fuel of the nested-trigger recursion is never exhausted *)
Theorem C10_fuel_enough : forall s t b,
  snd (trigger_ s t) <> OutOfFuel /\ snd (complete s b) <> OutOfFuel.
Proof. intros s t b. split; [apply fuel_enough_trigger | apply fuel_enough_complete]. Qed.
Print Assumptions C10_fuel_enough.

Theorem C10_active_iff : forall s,
  (is_pipeline_active s = true <-> st s = S_running /\ tr s = Active) /\
  (shape s = true -> is_pipeline_active s = true -> pending s = []).
Proof. intros s. split; [apply active_iff | apply shape_active_idle]. Qed.
Print Assumptions C10_active_iff.

(* every `*_trigger(` call site and every FSM method call found under Python/
   is one the model's environment accounts for *)
Theorem C10_sites_covered : forallb site_covered trigger_sites = true.
Proof. exact sites_covered. Qed.
Print Assumptions C10_sites_covered.

(* PARTIAL.  Return to rest for the single-endpoint environment, stated over
   the relation [envr] (guarded call-site triggers, completions, bookkeeping):
   every state the environment reaches from boot has the documented shape;
   while not at rest every environment trigger is rejected purely; every
   completion strictly lowers the rank; at most 6 completions reach rest.
   Missing for the full statement: (1) that each single-endpoint event of
   [step] is a sequence of [envr] moves is checked by evaluation on the
   correspondence cases, not proved (the case analysis exceeded the compile
   budget); (2) with both submit endpoints the statement is false, see
   C10_returns_to_rest_refuted. *)
Theorem C10_returns_to_rest_partial : forall s, envr_star init s ->
  shape s = true /\
  (st s <> S_starting ->
     at_rest (drain 6 s) = true /\
     (at_rest s = true <-> pending s = []) /\
     (at_rest s = false -> forall t, env_guard s t = true -> trigger_ s t = (s, Rejected)) /\
     (forall b, pending s = [b] -> rank (fst (step s (Done 0))) < rank s)).
Proof.
  intros s R. pose proof (shape_envr_star init s R shape_init) as H. split; [exact H|].
  intro N. split; [apply (drain_rest 6 s H N (rank_le_6 s))|].
  split; [apply (shape_rest_iff s H N)|].
  split; [intros A t G; apply busy_env_pure; assumption|].
  intros b P. rewrite (done0_complete s b P).
  apply (shape_complete s b (set_pending s []) H P eq_refl).
Qed.
Print Assumptions C10_returns_to_rest_partial.

(* REFUTED for the environment that exists (two submit endpoints): a submission
   refused on one endpoint fires running_trigger while the other endpoint's
   submission holds `gitting`; with an idle archive and a waiter firing in that
   window the machine ends in `updating` with nothing outstanding. *)
Theorem C10_returns_to_rest_refuted : exists evs,
  forallb is_env evs = true /\
  let s := run init evs in
  st s = S_updating /\ pending s = [] /\ at_rest s = false /\ (forall n, drain n s = s).
Proof. exists crosstalk_witness. exact crosstalk_stuck. Qed.
Print Assumptions C10_returns_to_rest_refuted.

(* the deprecated endpoint alone reaches the same dead end through its second
   step_3 (the chain step_1;step_2;step_3 runs at once, step_3 again when the
   compliance process ends) *)
Theorem C10_returns_to_rest_refuted_second_step3 : exists evs,
  forallb is_env evs = true /\
  let s := run init evs in
  st s = S_updating /\ pending s = [] /\ at_rest s = false /\ (forall n, drain n s = s).
Proof. exists second_step3_witness. exact second_step3_stuck. Qed.
Print Assumptions C10_returns_to_rest_refuted_second_step3.

(* non-vacuity *)
Example C10_reject_example :
  step (run init [EBoot]) (Fire T_gitting) = (run init [EBoot], Rejected).
Proof. vm_compute. reflexivity. Qed.
Example C10_rest_example :
  envr_star init (fst (trigger_ init T_starting)) /\
  st (fst (trigger_ init T_starting)) = S_loading /\
  at_rest (drain 6 (fst (trigger_ init T_starting))) = true.
Proof.
  split; [eapply es_step; [apply (er_fire init T_starting); reflexivity | apply es_refl]|].
  split; vm_compute; reflexivity.
Qed.
Example C10_edges_example :
  hops (gh (run init [EBoot; Done 0; Done 0; ECmdReset false; Done 0])) =
  [(S_updating, S_loading); (S_archiving, S_updating); (S_updating, S_archiving);
   (S_running, S_updating); (S_contemplation, S_running); (S_loading, S_contemplation);
   (S_starting, S_loading)].
Proof. vm_compute. reflexivity. Qed.

(* ---- SOURCE TIE (session 3): the life-cycle methods of class FSM as
   translated from pl/state.py of today (Gen/StateGen.v,
   tools/translate/state2coq.py) are the functions of Model/Fsm.v the theorems
   above speak about.  State abstraction: header of state2coq.py;
   self.X_trigger() is the machine's Event.trigger ([rec] inside a callback,
   [trigger_] from a thread); [epoch_counted] is the ghost counter of reset. *)
From DV Require Gen.StateGen Proofs.StateGenEq.

(* FSM.is_pipeline_active *)
Theorem C10_is_pipeline_active_is_source : forall s,
  StateGen.is_pipeline_active s = is_pipeline_active s.
Proof. exact StateGenEq.is_pipeline_active_eq. Qed.
Print Assumptions C10_is_pipeline_active_is_source.

(* the setter of FSM.transitioning (the guard of every callback) *)
Theorem C10_transitioning_setter_is_source : forall s v,
  StateGen.set_transitioning s v = set_tr s v.
Proof. exact StateGenEq.set_transitioning_eq. Qed.
Print Assumptions C10_transitioning_setter_is_source.

(* every callback named in state.dot: FSM.start / load / navel_gaze /
   save_prior_state / archive (+ _archive_done) / reload / reset *)
Theorem C10_callbacks_are_source : forall rec s c,
  run_cb rec s c =
  match c with
  | Cb_start => StateGen.start s
  | Cb_load => StateGen.load s
  | Cb_navel_gaze => StateGen.navel_gaze s
  | Cb_save_prior_state => StateGen.save_prior_state s
  | Cb_archive => StateGen.archive rec s
  | Cb_reload => StateGen.reload s
  | Cb_reset => StateGenEq.epoch_counted (StateGen.reset s)
  | Cb_fire t => rec s t
  end.
Proof. exact StateGenEq.callbacks_eq. Qed.
Print Assumptions C10_callbacks_are_source.

(* the completion of each background step: load.done, _navel_gaze,
   reload.done, _archive_done *)
Theorem C10_completions_are_source : forall s b,
  complete s b =
  match b with
  | BgPipeline => StateGen.load_done trigger_ s
  | BgNavel => StateGen.navel_gaze_body trigger_ s
  | BgReload => StateGen.reload_done trigger_ s
  | BgArchive => StateGen.archive_done trigger_ s
  end.
Proof. exact StateGenEq.complete_eq. Qed.
Print Assumptions C10_completions_are_source.

(* the whole machine: Event.trigger over the table generated from state.dot
   with every callback bound to the method body translated from state.py is
   the [trigger_] every theorem above speaks about (any state, any trigger,
   nested triggers included) *)
Theorem C10_machine_is_source : forall s t, StateGen.gen_trigger s t = trigger_ s t.
Proof. exact StateGenEq.gen_trigger_eq. Qed.
Print Assumptions C10_machine_is_source.
