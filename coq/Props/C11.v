(* C11 -- Work goes only to eligible workers, only while the pipeline is active.
   Model: Sched.v (farm.dispatch, _put, rerunid, Hand._reg/_process/connectionLost,
   notify_all).  Quantification: every engine c, every state s / every history es. *)
From Coq Require Import List Arith ZArith Bool Permutation.
From DV Require Import Model.Sched Proofs.SchedLib Proofs.SchedC11 Proofs.SchedSort.
Import ListNotations.

(* a task message is written only by a dispatch tick, only while active, only to a
   worker that is on the idle list at that moment *)
Theorem C11_eligible : forall c s e w m, In (OTask w m) (snd (step c s e)) ->
  e = Tick /\ active s = true /\ In w (map fst (workers s)).
Proof.
  intros c s e w m H. pose proof (only_tick_sends c s e w m H) as E. subst e. split; [reflexivity|].
  cbn [step] in H. apply task_recipient in H. tauto.
Qed.
Print Assumptions C11_eligible.

(* who is on the idle list, in every history from boot: exactly connections that
   registered with the current revision (Reg _ _ true) and did not disconnect since;
   a stale registration is answered with abort and never listed *)
Theorem C11_idle_list : forall c es w h,
  In (w, h) (workers (fst (run c (init c) es))) ->
  exists es1 es2, es = es1 ++ Reg w h true :: es2 /\ ~ In (Drop w) es2.
Proof.
  intros c es w h H. apply idle_origin in H. destruct H as [[H _]|H]; [contradiction|exact H].
Qed.
Print Assumptions C11_idle_list.

Theorem C11_stale_refused : forall c s w h, step c s (Reg w h false) = (s, [OAbort w]).
Proof. exact stale_refused. Qed.
Print Assumptions C11_stale_refused.

(* holds no task: with one registration per connection (NoDup), a worker that is
   handed a task gets exactly one and leaves the idle list in the same step *)
Theorem C11_one_task_then_busy : forall c s w m, NoDup (map fst (workers s)) ->
  In (OTask w m) (snd (dispatch c s)) ->
  ~ In w (map fst (workers (fst (dispatch c s)))) /\
  (forall m', In (OTask w m') (snd (dispatch c s)) -> m' = m).
Proof. exact tasked_worker_leaves. Qed.
Print Assumptions C11_one_task_then_busy.

(* while the pipeline is not active: dispatch does nothing at all, and no event
   writes a task / wait / proceed message to any worker (only abort answers) *)
Theorem C11_inactive : forall c s, active s = false ->
  dispatch c s = (s, []) /\
  (forall e o, In o (snd (step c s e)) ->
     match o with OTask _ _ | OWait _ | OProceed _ => False | _ => True end) /\
  (forall w ok, snd (step c s (Poll w ok)) = [OAbort w]).
Proof.
  intros c s A. split; [apply dispatch_inactive; exact A|]. split.
  - intros e o H. destruct e; cbn [step] in H.
    + cbn in H. contradiction.
    + rewrite dispatch_inactive in H by exact A. contradiction.
    + destruct (res c x t r o0 values s) as [s' outs] eqn:R. cbn [snd] in H.
      unfold res in R. destruct (mem x (que _)).
      * destruct o0; inversion R; subst; destruct H as [H|[]]; subst; exact I.
      * inversion R; subst. destruct H as [H|[]]; subst; exact I.
    + unfold reg in H. destruct rev_ok; cbn in H; [contradiction|]. destruct H as [H|[]]; subst; exact I.
    + unfold poll in H. rewrite A, andb_false_r in H. destruct H as [H|[]]; subst; exact I.
    + cbn in H. contradiction.
    + cbn in H. contradiction.
    + cbn in H. contradiction.
    + cbn in H. contradiction.
    + cbn in H. contradiction.
  - intros w ok. rewrite poll_answer, A, andb_false_r. reflexivity.
Qed.
Print Assumptions C11_inactive.

(* tasks that cannot be placed stay queued: the messages handed out in a tick plus
   the cluster queue afterwards are a permutation of the queue before plus the
   messages made in this tick *)
Theorem C11_conservation : forall c s, active s = true ->
  exists newms,
    (forall m, In m newms -> msg_ok c m) /\
    Permutation (map snd (skipn (length (inflight s)) (inflight (fst (dispatch c s))))
                 ++ cluster (fst (dispatch c s)))
                (cluster s ++ newms).
Proof. exact dispatch_conservation. Qed.
Print Assumptions C11_conservation.

(* fields of the messages made for one job: job, a target the scheduler released
   (the all-targets marker for analyses), factory of the job, run 0 for regressions,
   otherwise the run id the triggering event carried or, exactly when it carried
   none, db.next() = stored + 1 (strictly larger than every stored id) -- and
   db.next() is consulted iff the event carried none *)
Theorem C11_fields : forall c s o x s' o', put_job c (s, o) x = (s', o') ->
  exists ms, cluster s' = cluster s ++ ms /\
    (forall m, In m ms ->
       m_job m = x /\ m_fac m = gfac (gi c x) /\
       (m_fac m = Regress -> m_rid m = 0%Z) /\ (m_fac m = Analysis -> m_tgt m = ALL) /\
       (gfac (gi c x) <> Analysis -> In (m_tgt m) (do_ (getn (ns s) x))) /\
       (gfac (gi c x) <> Regress ->
          m_rid m = match rid (getn (ns s) x) with Some r => r | None => (stored s + 1)%Z end)) /\
    (exists extra, o' = o ++ extra /\
       (extra = [] \/ extra = [ONext (stored s + 1)%Z]) /\
       (extra = [] <-> rid (getn (ns s) x) <> None)) /\
    (stored s < stored s + 1)%Z.
Proof.
  intros c s o x s' o' H. apply put_job_cluster in H.
  destruct H as (ms & C & M & _ & _ & _ & _ & _ & X & _).
  exists ms. split; [exact C|]. split; [|split; [exact X|apply Z.lt_succ_diag_r]].
  intros m Hm. destruct (M m Hm) as (J & (F1 & F2 & F3) & T & R).
  rewrite J in F1. repeat split; assumption.
Qed.
Print Assumptions C11_fields.

(* every task message sent in any history from boot is well formed *)
Theorem C11_sent_well_formed : forall c es e w m,
  In (OTask w m) (snd (step c (fst (run c (init c) es)) e)) ->
  m_fac m = gfac (gi c (m_job m)) /\ (m_fac m = Regress -> m_rid m = 0%Z) /\
  (m_fac m = Analysis -> m_tgt m = ALL).
Proof.
  intros c es e w m H. pose proof (only_tick_sends _ _ _ _ _ H) as E. subst e. cbn [step] in H.
  eapply sent_ok; [|exact H]. apply run_cluster_ok. intros m0 [].
Qed.
Print Assumptions C11_sent_well_formed.

(* ---- "while the pipeline is not active ... waiting workers are told to leave":
   the dispatch that fires the archiving trigger (idle farm, new data) has taken
   the pipeline out of `running`; its closing notify_all() sends the abort
   response to every hand of the (sorted) idle list, empties the list, sends no
   task; the pipeline is inactive afterwards, so later ticks send nothing
   (C11_inactive); C11_archive_tick_all: with one registration per connection
   that is EVERY idle worker (workers_sort is a permutation, Proofs/SchedSort.v). ---- *)
Theorem C11_archive_tick : forall c s, In OArchive (snd (dispatch c s)) ->
  active s = true /\
  workers (fst (dispatch c s)) = [] /\ active (fst (dispatch c s)) = false /\
  (forall w, In w (map fst (workers_sort (workers s))) -> In (OAbort w) (snd (dispatch c s))) /\
  (forall w m, ~ In (OTask w m) (snd (dispatch c s))).
Proof. exact archive_tick. Qed.
Print Assumptions C11_archive_tick.


(* non-vacuity: two registered workers, one stale; a released unit is sent *)
Definition ex1 : cfg :=
  {| gnodes := [ {| kids := []; anc := []; gfac := Task; lvl := 0; ins := [] |} ];
     gfb := []; gtargets := [1] |}.
Example C11_nonvacuous :
  let r := run ex1 (init ex1) [Reg 1 0 true; Reg 2 0 false; Org [0] None [1]; Tick] in
  nth 3 (snd r) [] = [ONext 1%Z; OTask 1 {| m_job := 0; m_tgt := 1; m_rid := 1%Z; m_fac := Task |}] /\
  nth 1 (snd r) [] = [OAbort 2].
Proof. vm_compute. split; reflexivity. Qed.

Theorem C11_archive_tick_all : forall c s, NoDup (map fst (workers s)) ->
  In OArchive (snd (dispatch c s)) ->
  forall w, In w (map fst (workers s)) -> In (OAbort w) (snd (dispatch c s)).
Proof.
  intros c s N HA w Hw. destruct (archive_tick c s HA) as (_ & _ & _ & AB & _). apply AB.
  eapply Permutation.Permutation_in; [|exact Hw].
  apply Permutation.Permutation_map. apply Permutation.Permutation_sym. apply workers_sort_perm. exact N.
Qed.
Print Assumptions C11_archive_tick_all.

(* ---- the eligibility tests of the model ARE the python source (translation + proof) ----
   Gen/FarmGen.v is regenerated on every run from dawgie/pl/farm.py (Hand._reg,
   the status branch of Hand._process, something_to_do, _cluster_sort) by the
   fail-closed translator tools/translate/farm2coq.py.  A registration / a
   status poll of the model does exactly the effects the source lists; the
   dispatch guard is `is_pipeline_active()` alone (the waiting_on_crew conjunct
   is dead code: `_agency` is the non-empty list [None]); the queue order is the
   source's comparator.  (Qualified names on purpose: nothing is imported.) *)
From DV Require Gen.FarmGen Proofs.FarmGenEq.

Theorem C11_reg_is_source : forall w h rev_ok s,
  reg w h rev_ok s =
  if FarmGenEq.registers (FarmGen.hand_reg rev_ok)
  then (set_farm s (jobs s) (cluster s) (busy s) (workers s ++ [(w, h)]) (inflight s), [])
  else (s, match FarmGenEq.reply_of w (FarmGen.hand_reg rev_ok) with Some o => [o] | None => [] end).
Proof. exact FarmGenEq.reg_gen_eq. Qed.
Print Assumptions C11_reg_is_source.

Theorem C11_poll_is_source : forall w rev_ok s,
  exists o, FarmGenEq.reply_of w (FarmGen.hand_status rev_ok (active s)) = Some o /\
            poll w rev_ok s = (s, [o]).
Proof. exact FarmGenEq.poll_gen_eq. Qed.
Print Assumptions C11_poll_is_source.

Theorem C11_dispatch_guard_is_source : forall c s crew,
  FarmGen.something_to_do crew (active s) = active s /\
  (FarmGen.something_to_do crew (active s) = false -> dispatch c s = (s, [])).
Proof.
  intros c s crew. split; [apply FarmGenEq.something_to_do_gen_eq|apply FarmGenEq.dispatch_guard_gen_eq].
Qed.
Print Assumptions C11_dispatch_guard_is_source.

Theorem C11_cluster_sort_is_source : forall cpu l, (forall a b, cpu a = cpu b) ->
  FarmGen.cluster_sort cpu l = cluster_sort l.
Proof. exact FarmGenEq.cluster_sort_gen_eq. Qed.
Print Assumptions C11_cluster_sort_is_source.

Example C11_source_example :
  FarmGen.hand_reg false = [FarmGen.ESendAbort; FarmGen.EClose] /\
  FarmGen.hand_status true false = [FarmGen.ESendAbort; FarmGen.EClose] /\
  FarmGen.hand_status true true = [FarmGen.ESendProceed; FarmGen.EClose] /\
  FarmGen.something_to_do true true = true /\
  map m_rid (FarmGen.cluster_sort (fun _ => 0%Z)
               [ {| m_job := 0; m_tgt := 1; m_rid := 5%Z; m_fac := Task |};
                 {| m_job := 1; m_tgt := 1; m_rid := 2%Z; m_fac := Task |};
                 {| m_job := 2; m_tgt := 1; m_rid := 5%Z; m_fac := Task |} ]) = [2%Z; 5%Z; 5%Z] /\
  (* with insights the cheaper unit of the same run goes first *)
  map m_job (FarmGen.cluster_sort (fun m => if Nat.eqb (m_job m) 0 then 9%Z else 1%Z)
               [ {| m_job := 0; m_tgt := 1; m_rid := 5%Z; m_fac := Task |};
                 {| m_job := 2; m_tgt := 1; m_rid := 5%Z; m_fac := Task |} ]) = [2; 0].
Proof. vm_compute. repeat split; reflexivity. Qed.

(* _workers_sort, regenerated statement by statement (Gen/FarmGen.v workers_sort:
   the dictionary of per-host lists over the FIXED sorted keys seen at entry, the
   scan for `longest` over all keys, pop(0) from the aliased list; None = the
   python raises IndexError or the while loop does not end).  For EVERY pool with
   one registration per connection it returns, without raising, what the model's
   workers_sort returns (Proofs/FarmSortEq.v: loop invariant
   wg = [(k, of_host w k) | k <- keys]; the scan over all keys = pick_host over
   the hosts that still have a worker).  NoDup is needed (the model removes the
   chosen worker by id): FarmSortEq.workers_sort_gen_eq_needs_nodup. *)
From DV Require Proofs.FarmSortEq.
Theorem C11_workers_sort_is_source : forall w, NoDup (map fst w) ->
  FarmGen.workers_sort w = Some (workers_sort w).
Proof. exact FarmSortEq.workers_sort_gen_eq. Qed.
Print Assumptions C11_workers_sort_is_source.

Example C11_workers_sort_example :
  NoDup (map fst (FarmGenEq.pool [1; 1; 0; 2; 1])) /\
  FarmGen.workers_sort (FarmGenEq.pool [1; 1; 0; 2; 1])
    = Some [(0, 1); (1, 1); (2, 0); (4, 1); (3, 2)] /\
  workers_sort (FarmGenEq.pool [1; 1; 0; 2; 1]) = [(0, 1); (1, 1); (2, 0); (4, 1); (3, 2)].
Proof. split; [cbn; repeat constructor; cbn; intuition discriminate|split; vm_compute; reflexivity]. Qed.

(* the bounded statement of the previous round (every pool of at most 6 workers
   on 3 hosts, decided by evaluation inside Coq) is kept as a cross-check of the
   generated text that does not depend on the invariant proof *)
Example C11_workers_sort_bounded : forall hs,
  length hs <= 6 -> Forall (fun h => h < 3) hs ->
  FarmGen.workers_sort (FarmGenEq.pool hs) = Some (workers_sort (FarmGenEq.pool hs)).
Proof. exact FarmGenEq.workers_sort_gen_eq_partial. Qed.
