(* C12 -- A submitted update takes effect exactly when its priority allows.
   Property theorems only; proofs in Proofs/SubmitProofs.v.  Gen/PriorityGen.v
   is regenerated from tools/submit.py (Priority.max); the waiters are part of
   Model/Fsm.v (the model of the REPAIRED code: every done() gives its poller
   handle back). *)
From Coq Require Import List Bool Arith.
From DV Require Import Gen.FsmTable Gen.PriorityGen Model.Fsm Model.Submit
                       Proofs.FsmProofs Proofs.SubmitProofs.
Import ListNotations.

(* generated Priority.max: commutative, associative, idempotent, None neutral,
   and the order NOW > CREW > DOING > TODO *)
Theorem C12_lattice : forall a b c : option prio,
  prio_max [a; b] = prio_max [b; a] /\
  prio_max [Some (prio_max [a; b]); c] = prio_max [a; Some (prio_max [b; c])] /\
  prio_max [a; b; c] = prio_max [Some (prio_max [a; b]); c] /\
  prio_max [a; a] = dflt a /\
  prio_max [None; a] = dflt a /\ prio_max [a; None] = dflt a /\
  prank (prio_max [a; b]) = Nat.min (prank (dflt a)) (prank (dflt b)).
Proof. exact max_lattice. Qed.
Print Assumptions C12_lattice.

(* for argument lists of any length: the result is at least as strong as every
   member, and is a member (or TODO) *)
Theorem C12_max_strongest : forall l,
  (forall p, In (Some p) l -> prank (prio_max l) <= prank p) /\
  (prio_max l = P_TODO \/ In (Some (prio_max l)) l).
Proof. intro l. split; [intros p I; apply max_strongest; exact I | apply max_member]. Qed.
Print Assumptions C12_max_strongest.

(* a submission is refused unless the pipeline is active: nothing changes
   (st <> gitting: otherwise see the C10 cross-talk finding) and the crossroads
   starts no waiter and fires nothing *)
Theorem C12_refused_inactive : forall s p, is_pipeline_active s = false ->
  submit_crossroads s = (s, Ok) /\
  (st s <> S_gitting -> fst (step s (ESubStart 0 p)) = s).
Proof. intros s p H. split; [apply crossroads_inactive; exact H | apply substart_inactive; exact H]. Qed.
Print Assumptions C12_refused_inactive.

(* PARTIAL (at the poll, not at the callback): a poller that returns while it
   is still the active wait saw its condition hold at that poll; a callback
   fires update_trigger only as the returned poller of a wait still on.
   Missing: the condition may have changed between poll and callback
   (C12_refuted_race). *)
Theorem C12_only_when_allowed_at_poll_partial : forall s k e,
  (get3 k (handles (ws s)) = Some false -> get3 k (waits (ws s)) = true ->
   get3 k (handles (ws (fst (poll s k e)))) = Some true -> cond_holds k e = true) /\
  (ulog (gh (fst (done_cb s k e))) <> ulog (gh s) ->
   get3 k (handles (ws s)) = Some true /\ get3 k (waits (ws s)) = true).
Proof. intros s k e. split; [apply poll_saw | apply done_cb_fires]. Qed.
Print Assumptions C12_only_when_allowed_at_poll_partial.

(* the repaired handle: whatever happens in the callback (trigger accepted,
   rejected, wait cancelled) the poller handle is given back *)
Theorem C12_handle_cleared : forall s k e, get3 k (handles (ws s)) = Some true ->
  get3 k (handles (ws (fst (done_cb s k e)))) = None.
Proof. exact done_cb_clears. Qed.
Print Assumptions C12_handle_cleared.

(* PARTIAL (every submission, first half): a submission reaching the crossroads
   of an active pipeline either fires the reload at once (NOW: accepted) or
   leaves the wait of the strongest priority so far on with a live poller.
   Missing for the headline: that this poller's trigger is later accepted at a
   moment the condition holds (C12_refuted_rejected_trigger, C12_refuted_race). *)
Theorem C12_every_submission_arms_partial : forall s p, is_pipeline_active s = true ->
  let q := prio_max [priority (ws s); Some (dflt p)] in
  let r := submit_crossroads (set_submit_info s p) in
  match pk_of q with
  | None => snd r = Ok /\ st (fst r) = S_updating
  | Some k => snd r = Ok /\ get3 k (waits (ws (fst r))) = true /\
              get3 k (handles (ws (fst r))) <> None /\ st (fst r) = st s
  end.
Proof. exact submit_arms. Qed.
Print Assumptions C12_every_submission_arms_partial.

(* PARTIAL (at most once): update_trigger is accepted only in running and
   leaves it at once; a waiter that fires at an active pipeline is accepted.
   Missing: the induction that `running` is re-entered only through reset()
   (needs the shape invariant of C10 extended with the ghost counter). *)
Theorem C12_at_most_once_partial : forall s,
  (snd (trigger_ s T_update) = Ok -> st s = S_running) /\
  (is_pipeline_active s = true ->
   snd (trigger_ s T_update) = Ok /\ st (fst (trigger_ s T_update)) = S_updating).
Proof. intro s. split; [apply update_only_from_running | apply active_update_ok]. Qed.
Print Assumptions C12_at_most_once_partial.

(* REFUTED (open finding trigger-rejected-lost): in the single-endpoint
   environment a waiter's update_trigger is rejected (the condition became true
   while the dispatcher's idle archive was running); afterwards the pipeline is
   at rest with the CREW submission still recorded, no poller alive, no reload
   done and none to come *)
Theorem C12_refuted_rejected_trigger : exists evs,
  forallb (fun e => is_env e && single_endpoint e) evs = true /\
  let s := run init evs in
  existsb lost (ulog (gh s)) = true /\ at_rest s = true /\ no_waiter s = true /\
  priority (ws s) = Some P_CREW /\ updates (gh s) = 0 /\ epoch (gh s) = 0.
Proof. exists lost_witness. exact lost_facts. Qed.
Print Assumptions C12_refuted_rejected_trigger.

(* REFUTED (open finding poll-callback-race): update_trigger accepted at a
   moment the crew is busy again *)
Theorem C12_refuted_race : exists evs,
  forallb (fun e => is_env e && single_endpoint e) evs = true /\
  let s := run init evs in
  existsb raced (ulog (gh s)) = true /\ st s = S_updating.
Proof. exists race_witness. exact race_facts. Qed.
Print Assumptions C12_refuted_race.

(* hence the headline "every waiter fire is accepted at a moment its condition
   holds" is false *)
Theorem C12_every_submission_refuted : exists evs,
  forallb (fun e => is_env e && single_endpoint e) evs = true /\
  every_fire_good (run init evs) = false.
Proof. exists race_witness. split; vm_compute; reflexivity. Qed.
Print Assumptions C12_every_submission_refuted.

(* non-vacuity *)
Example C12_arms_example :
  let s := run init [EBoot; Done 0; Done 0; ESubStart 0 None; ESubDone 0 (Some P_TODO);
                     ESubStart 0 None; ESubDone 0 (Some P_CREW)] in
  is_pipeline_active s = true /\ priority (ws s) = Some P_CREW /\
  waits (ws s) = (true, false, false) /\ handles (ws s) = (Some false, None, Some false).
Proof. vm_compute. repeat split. Qed.
Example C12_poll_example :
  let s := run init [EBoot; Done 0; Done 0; ESubStart 0 None; ESubDone 0 (Some P_TODO)] in
  get3 KTodo (handles (ws s)) = Some false /\ get3 KTodo (waits (ws s)) = true /\
  get3 KTodo (handles (ws (fst (poll s KTodo (true, false, false))))) = Some true.
Proof. vm_compute. repeat split. Qed.
Example C12_refused_example :
  is_pipeline_active (run init [EBoot]) = false /\ st (run init [EBoot]) <> S_gitting.
Proof. split; [vm_compute; reflexivity | vm_compute; discriminate]. Qed.

(* ---- SOURCE TIE (session 3): the waiter methods of class FSM as translated
   from pl/state.py of today (Gen/StateGen.v, tools/translate/state2coq.py)
   are the hand-written functions of Model/Fsm.v used by every theorem above.
   State abstraction: header of state2coq.py; self.update_trigger() is
   [trigger_ _ T_update]; [logged] is the ghost log entry of the model. *)
From DV Require Gen.StateGen Proofs.StateGenEq.

(* FSM.set_submit_info: Priority(priority) or TODO, joined with self.priority *)
Theorem C12_set_submit_info_is_source : forall s p,
  StateGen.set_submit_info s p = set_submit_info s p.
Proof. exact StateGenEq.set_submit_info_eq. Qed.
Print Assumptions C12_set_submit_info_is_source.

(* FSM.submit_crossroads: which waiter is armed for which priority *)
Theorem C12_submit_crossroads_is_source : forall s,
  submit_crossroads s =
  (if StateGenEq.fires_now s
   then StateGenEq.logged None true (StateGen.submit_crossroads trigger_ s)
   else StateGen.submit_crossroads trigger_ s).
Proof. exact StateGenEq.submit_crossroads_eq. Qed.
Print Assumptions C12_submit_crossroads_is_source.

(* FSM.wait_for_crew / wait_for_doing / wait_for_todo / wait_for_nothing: which
   waits an arming releases, and that a poller is started only without a handle *)
Theorem C12_wait_for_is_source : forall s,
  StateGen.wait_for_crew s = wait_for_crew s /\
  StateGen.wait_for_doing s = wait_for_doing s /\
  StateGen.wait_for_todo s = wait_for_todo s /\
  wait_for_nothing s = StateGenEq.logged None true (StateGen.wait_for_nothing trigger_ s).
Proof.
  intro s. repeat split;
    [apply StateGenEq.wait_for_crew_eq | apply StateGenEq.wait_for_doing_eq
    | apply StateGenEq.wait_for_todo_eq | apply StateGenEq.wait_for_nothing_eq].
Qed.
Print Assumptions C12_wait_for_is_source.

(* wait_for_X.done: the guard `if self.waiting_on_X(): self.update_trigger()` *)
Theorem C12_done_is_source : forall k s e, get3 k (handles (ws s)) = Some true ->
  done_cb s k e =
  (if get3 k (waits (ws s))
   then StateGenEq.logged (Some k) (cond_holds k e) (StateGenEq.sg_done k trigger_ s)
   else StateGenEq.sg_done k trigger_ s).
Proof. exact StateGenEq.done_eq. Qed.
Print Assumptions C12_done_is_source.

(* ... and the handle is given back before the guard, whatever it says (repair
   86b21aa), for any machine whose triggers do not touch the handles *)
Theorem C12_done_gives_handle_back_is_source :
  forall k s (fire_ : fstate -> trigger -> fstate * outcome),
  (forall s' t, get3 k (handles (ws (fst (fire_ s' t)))) = get3 k (handles (ws s'))) ->
  get3 k (handles (ws (fst (StateGenEq.sg_done k fire_ s)))) = None.
Proof. exact StateGenEq.done_clears_handle_first. Qed.
Print Assumptions C12_done_gives_handle_back_is_source.

(* FSM.waiting_on_X and the loop test of is_X_done *)
Theorem C12_poll_is_source : forall k s e,
  StateGenEq.sg_waiting_on k s = get3 k (waits (ws s)) /\
  (get3 k (handles (ws s)) = Some false ->
   poll s k e = if StateGenEq.sg_continues k s e then (s, Ok)
                else (set_handle s k (Some true), Ok)).
Proof. intros k s e. split; [apply StateGenEq.waiting_on_eq | apply StateGenEq.poll_eq]. Qed.
Print Assumptions C12_poll_is_source.

(* non-vacuity of the three implications *)
Example C12_source_tie_example :
  let s := run init [EBoot; Done 0; Done 0; ESubStart 0 None; ESubDone 0 (Some P_TODO)] in
  get3 KTodo (handles (ws s)) = Some false /\
  get3 KTodo (handles (ws (fst (poll s KTodo (false, false, false))))) = Some true /\
  (forall s' t, get3 KTodo (handles (ws (fst ((fun x (_ : trigger) => (x, Ok)) s' t)))) =
                get3 KTodo (handles (ws s'))).
Proof. split; [vm_compute; reflexivity | split; [vm_compute; reflexivity | reflexivity]]. Qed.
