(* C13 -- The database lock is exclusive, survives client crashes, is granted.
   Property theorems only; proofs live in Proofs/LockProofs.v. *)
From Coq Require Import List ZArith Bool Arith.
From DV Require Import Model.Lock Proofs.LockProofs Model.Frame Model.Client Proofs.ClientProofs.
Import ListNotations.

(* After every history of acquire / poll / release / disconnect / timer events
   by any number of connections: at most one connection holds the lock, the lock
   bit is set exactly when somebody holds it, a lost connection holds nothing. *)
Theorem C13_mutex : forall n evs,
  let st := fst (run (linit n) evs) in
  (forall i j, has (get i (conns st)) = true -> has (get j (conns st)) = true -> i = j)
  /\ (lock st = true <-> exists i, has (get i (conns st)) = true)
  /\ (forall i, lost (get i (conns st)) = true -> has (get i (conns st)) = false).
Proof. intros n evs. apply (L_inv_run evs (linit n)), L_inv_init. Qed.
Print Assumptions C13_mutex.

(* "The lock is yours" is sent to c only in the step that gives c the lock
   (its own acquire or poll; c did not hold it before, holds it after, and the
   lock bit is set) ... *)
Theorem C13_told_truth : forall n evs e c,
  let st := fst (run (linit n) evs) in
  In (ToldYours c) (snd (step st e)) ->
  has (get c (conns st)) = false /\ has (get c (conns (fst (step st e)))) = true
  /\ lock (fst (step st e)) = true /\ (e = Acquire c \/ e = Poll c).
Proof.
  intros n evs e c st. apply L_told_truth. apply (L_inv_run evs (linit n)), L_inv_init.
Qed.
Print Assumptions C13_told_truth.

(* ... and c keeps it until its own release or its own disconnect (a second
   acquire on a connection whose poller still runs is a protocol error that
   disconnects it). No event of another connection takes it away. *)
Theorem C13_keeps : forall st e c,
  has (get c (conns st)) = true -> has (get c (conns (fst (step st e)))) = false ->
  e = Release c \/ e = Drop c \/ e = Acquire c.
Proof. exact L_keeps. Qed.
Print Assumptions C13_keeps.

(* A holder whose connection drops releases the lock ... *)
Theorem C13_crash_release : forall n evs c,
  let st := fst (run (linit n) evs) in
  has (get c (conns st)) = true ->
  lock (fst (step st (Drop c))) = false /\ has (get c (conns (fst (step st (Drop c))))) = false.
Proof.
  intros n evs c st. apply L_crash_release. apply (L_inv_run evs (linit n)), L_inv_init.
Qed.
Print Assumptions C13_crash_release.

(* ... and a dropped connection abandons its request: whatever happens later
   (its poller may still fire), it is told nothing and never takes the lock. *)
Theorem C13_crash_abandons : forall n evs c later,
  let st := fst (run (linit n) evs) in
  lost (get c (conns st)) = true ->
  ~ In (ToldYours c) (snd (run st later)) /\ ~ In (ToldBusy c) (snd (run st later))
  /\ has (get c (conns (fst (run st later)))) = false.
Proof.
  intros n evs c later st L.
  destruct (L_lost_forever later st c L) as (_ & NY & NB & H).
  split; [exact NY|]. split; [exact NB|]. rewrite H.
  pose proof (L_inv_run evs (linit n) (L_inv_init n)) as (_ & _ & Lo). apply Lo, L.
Qed.
Print Assumptions C13_crash_abandons.

(* Whenever the lock is free, a waiting connection (poller running, not yet
   served, not lost) is granted the lock at its next poll. *)
Theorem C13_granted : forall st c,
  lock st = false -> waiting (get c (conns st)) = true ->
  snd (step st (Poll c)) = [ToldYours c]
  /\ lock (fst (step st (Poll c))) = true
  /\ has (get c (conns (fst (step st (Poll c))))) = true.
Proof. exact L_granted. Qed.
Print Assumptions C13_granted.

(* A held lock has a holder, and that holder's disconnect -- or its release,
   while its connection is open -- frees it: with C13_granted, no waiter
   starves once holders release or die (progress for SOME waiter: the first
   one to poll; no per-client fairness is claimed). *)
Theorem C13_progress : forall n evs,
  let st := fst (run (linit n) evs) in
  lock st = true ->
  exists h, has (get h (conns st)) = true
    /\ lock (fst (step st (Drop h))) = false
    /\ (closed (get h (conns st)) = false -> lock (fst (step st (Release h))) = false).
Proof.
  intros n evs st. apply L_holder_frees. apply (L_inv_run evs (linit n)), L_inv_init.
Qed.
Print Assumptions C13_progress.

(* The blocking client (comms.acquire: send the request, then
   `while buf != Mutex.unlock: buf = message.receive(s)`): on a stream of busy
   statuses followed by "yours" -- what the server writes, C13_told_truth --
   it returns exactly at the first "yours", having consumed nothing behind it,
   for every fragmentation of the stream. *)
Theorem C13_client_acquire : forall yours bs y s rest (fuel : nat),
  Forall (fun c : list Z => c <> []) s ->
  Forall (fun m => (Z.of_nat (length m) < 4294967296)%Z) (bs ++ [y]) ->
  Forall (fun m => yours m = false) bs -> yours y = true -> (length bs < fuel)%nat ->
  concat s = concat (map send (bs ++ [y])) ++ rest ->
  exists s', acquire_wait fuel yours s = Some (bs ++ [y], s') /\ concat s' = rest.
Proof.
  intros yours bs y s rest fuel NE Hl Hb Hy Hf E.
  destruct (C_acquire_wait yours bs y s rest fuel NE Hl Hb Hy Hf E) as (s' & R & C & _).
  exists s'. auto.
Qed.
Print Assumptions C13_client_acquire.

Example C13_client_acquire_example :
  acquire_wait 5 (fun p => list_eqb p [1%Z]) [[0;0;0;1;0;0]; [0;0;1;0;0;0;0;1;1;0;0]]%Z
  = Some ([[0]; [0]; [1]], [[0;0]])%Z.
Proof. vm_compute. reflexivity. Qed.

(* ---- closing and reopening the database between lock events (a database
   copy or an archive does that while a client holds the lock) is invisible to
   the lock protocol: a history with Reopen events ends in the state, and tells
   every client exactly, what the history without them does.  Every theorem
   above therefore also holds of histories with reopens. ---- *)
Theorem C13_reopen_transparent : forall st xs, xrun st xs = run st (erase xs).
Proof. intros st xs. apply L_xrun_erase. Qed.
Print Assumptions C13_reopen_transparent.

Example C13_reopen_example :
  snd (xrun (linit 2) [Ev (Acquire 0); Reopen; Ev (Acquire 1); Ev (Release 0); Reopen; Ev (Poll 1)])
  = [ToldYours 0; ToldBusy 1; Released 0 true; Closed 0; ToldYours 1].
Proof. vm_compute. reflexivity. Qed.

(* non-vacuity: contention, a drop while holding, a drop while waiting *)
Example C13_example :
  let evs := [Acquire 0; Acquire 1; Acquire 2; Drop 2; Poll 2; Drop 0; Poll 1] in
  snd (run (linit 3) evs) = [ToldYours 0; ToldBusy 1; ToldBusy 2; ToldYours 1]
  /\ lock (fst (run (linit 3) evs)) = true
  /\ waiting (get 1 (conns (fst (run (linit 3) [Acquire 0; Acquire 1])))) = true.
Proof. vm_compute. auto. Qed.
Example C13_keeps_example :
  has (get 0 (conns (fst (run (linit 2) [Acquire 0; Acquire 1])))) = true
  /\ has (get 0 (conns (fst (step (fst (run (linit 2) [Acquire 0; Acquire 1])) (Release 0))))) = false.
Proof. vm_compute. auto. Qed.

(* ---- the tie to the source by translation (session 3, second wave): the
   lock handlers of comms.Worker (_lock_db, _unlock_db, _get_db_lock_status,
   _do_acquire, _do_release, connectionLost, the acquire / release branches of
   do, context.lock_db / unlock_db), regenerated from the python source on
   every run (Gen/LockGen.v, tools/translate/lock2coq.py), ARE the step
   function of Model/Lock.v: the model's event loop spelled with the generated
   handlers (LockGenEq.gstep; what stays hand-written there is Twisted's
   delivery discipline, listed in that file) equals Lock.step on every state
   and event, hence on every history.  Every theorem above is therefore about
   the handlers as they are in the source today. ---- *)
From DV Require Gen.LockGen Proofs.LockGenEq.

Theorem C13_step_is_source : forall st e, LockGenEq.gstep st e = step st e.
Proof. exact LockGenEq.step_gen_eq. Qed.
Print Assumptions C13_step_is_source.

Theorem C13_run_is_source : forall n evs, LockGenEq.grun (linit n) evs = run (linit n) evs.
Proof. intros n evs. apply LockGenEq.run_gen_eq. Qed.
Print Assumptions C13_run_is_source.

(* a new Worker object is the model's fresh connection *)
Theorem C13_fresh_is_source :
  mkCst LockGen.init_has false LockGen.init_stopped LockGen.init_lost false 0 = fresh.
Proof. exact LockGenEq.fresh_gen_eq. Qed.
Print Assumptions C13_fresh_is_source.

(* mutual exclusion restated on the generated handlers alone *)
Theorem C13_mutex_is_source : forall n evs,
  let st := fst (LockGenEq.grun (linit n) evs) in
  (forall i j, has (get i (conns st)) = true -> has (get j (conns st)) = true -> i = j)
  /\ (lock st = true <-> exists i, has (get i (conns st)) = true).
Proof.
  intros n evs. rewrite LockGenEq.run_gen_eq.
  destruct (C13_mutex n evs) as (A & B & _). split; assumption.
Qed.
Print Assumptions C13_mutex_is_source.

Example C13_source_example :
  snd (LockGenEq.grun (linit 2) [Acquire 0; Acquire 1; Poll 1; Release 0; Poll 1; Drop 0; Drop 1])
  = [ToldYours 0; ToldBusy 1; ToldBusy 1; Released 0 true; Closed 0; ToldYours 1]
  /\ LockGen.request_acquire (true, false, true, false, false, false, 0%nat, []) = None.
Proof. vm_compute. auto. Qed.
