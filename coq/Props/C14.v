(* C14 -- Message streams are fragmentation-proof and gated by the handshake.
   Property theorems only; proofs live in Proofs/FrameProofs.v, Proofs/ShakeProofs.v. *)
From Coq Require Import List ZArith Bool.
From DV Require Import Model.Frame Model.Shake Model.Client Proofs.ClientProofs Proofs.FrameProofs Proofs.ShakeProofs Proofs.ShakeAfter Proofs.ShakeChunk.
Import ListNotations.
Open Scope Z_scope.

(* ======================= framing (farm / database / log) ================== *)

(* Any way of cutting the byte stream into chunks gives the same payload
   sequence AND the same final reassembly state as delivering it whole.
   (finished s: the while condition is false in s -- true of the initial state
   and of every state a dataReceived call ends in, see C14_fuel.) *)
Theorem C14_chunking : forall s chunks,
  iter s = None -> feed_all s chunks = feed s (concat chunks).
Proof. exact F_chunking. Qed.
Print Assumptions C14_chunking.

Theorem C14_chunking_init : forall chunks,
  feed_all finit chunks = feed finit (concat chunks).
Proof. intros. apply F_chunking. reflexivity. Qed.
Print Assumptions C14_chunking_init.

(* The fuel 2*|buf|+2 of the model's loop is never exhausted: every call ends
   in a state whose loop condition is false. *)
Theorem C14_fuel : forall s data, iter (fst (feed s data)) = None.
Proof. exact F_feed_finished. Qed.
Print Assumptions C14_fuel.

(* struct.pack('>I') / unpack('>I') round trip *)
Theorem C14_header_roundtrip : forall n, 0 <= n < 4294967296 -> be32 (enc32 n) = n.
Proof. exact F_be32_enc32. Qed.
Print Assumptions C14_header_roundtrip.

(* Well-formed streams: the framed messages come back, exactly and in order,
   however the stream is cut, and the connection is back in its initial state. *)
Theorem C14_wellformed : forall ms chunks,
  Forall (fun m => Z.of_nat (length m) < 4294967296) ms ->
  concat chunks = concat (map frame ms) ->
  feed_all finit chunks = (finit, ms).
Proof.
  intros ms chunks H E. rewrite F_chunking by reflexivity. rewrite E. apply F_roundtrip, H.
Qed.
Print Assumptions C14_wellformed.

(* Connection level, any channel (farm Hand / shelve Worker / LogSink are the
   instances of [chan]): up to and including the first loseConnection or
   escaped exception the observable trace does not depend on the chunking. *)
Theorem C14_channel_prefix : forall ch chunks,
  cut (snd (conn_run ch cinit chunks)) = cut (whole ch finit (concat chunks)).
Proof. intros. apply (F_conn_cut ch chunks finit). reflexivity. Qed.
Print Assumptions C14_channel_prefix.

(* If whole delivery has no loseConnection/exception before its last event
   (farm and log channels with decodable payloads: never; database channel: the
   protocol-conformant streams, where only the last request closes) the trace is
   exactly that of whole delivery. *)
Theorem C14_channel : forall ch chunks,
  quiet (removelast (whole ch finit (concat chunks))) = true ->
  snd (conn_run ch cinit chunks) = whole ch finit (concat chunks).
Proof. intros ch chunks. apply (F_conn_full ch chunks finit). reflexivity. Qed.
Print Assumptions C14_channel.

(* ... and with no stop at all also the final state (buffer, expected length,
   connection still open). *)
Theorem C14_channel_state : forall ch chunks,
  quiet (whole ch finit (concat chunks)) = true ->
  conn_run ch cinit chunks
  = (mkC (fst (feed finit (concat chunks))) true, whole ch finit (concat chunks)).
Proof. intros ch chunks. apply (F_conn_state ch chunks finit). reflexivity. Qed.
Print Assumptions C14_channel_state.

(* farm and log channels (never close) on a stream of decodable messages: *)
Theorem C14_farm_log : forall ch ms chunks,
  (forall p, closing ch p = false) ->
  Forall (fun m => decodable ch m = true /\ Z.of_nat (length m) < 4294967296) ms ->
  concat chunks = concat (map frame ms) ->
  conn_run ch cinit chunks = (cinit, map Deliver ms).
Proof.
  intros ch ms chunks Hc Hm E.
  assert (W : whole ch finit (concat chunks) = map Deliver ms).
  { unfold whole. rewrite E, F_roundtrip.
    - cbn [snd]. apply F_emit_plain. intros p Hp. rewrite Forall_forall in Hm.
      split; [apply (Hm p Hp)|apply Hc].
    - eapply Forall_impl; [|exact Hm]. cbn. tauto. }
  rewrite C14_channel_state; rewrite W; [|apply F_quiet_map_deliver].
  rewrite E, F_roundtrip; [reflexivity|]. eapply Forall_impl; [|exact Hm]. cbn. tauto.
Qed.
Print Assumptions C14_farm_log.

(* The unrestricted statement is false on the database channel: a request
   that closes, coalesced with a following request, lets the second one through;
   cut apart, the transport delivers nothing after loseConnection.  Outside the
   client protocol (one closing request per connection); recorded, not hidden. *)
Theorem C14_db_pipelined_refuted : exists ch chunks,
  snd (conn_run ch cinit chunks) <> whole ch finit (concat chunks).
Proof.
  exists (chan_of [[1]] [[1]; [2]]), [[0; 0; 0; 1; 1]; [0; 0; 0; 1; 2]].
  vm_compute. discriminate.
Qed.
Print Assumptions C14_db_pipelined_refuted.

(* non-vacuity *)
Example C14_wellformed_example :
  feed_all finit [[0; 0]; [0; 2; 7]; [8; 0; 0; 0; 1; 9]] = (finit, [[7; 8]; [9]])
  /\ concat [[0; 0]; [0; 2; 7]; [8; 0; 0; 0; 1; 9]] = concat (map frame [[7; 8]; [9]]).
Proof. split; vm_compute; reflexivity. Qed.
Example C14_channel_example :
  let ch := chan_of [[1]] [[1]; [2]] in
  let chunks := [[0; 0; 0]; [1; 2; 0; 0]; [0; 1; 1]] in
  quiet (removelast (whole ch finit (concat chunks))) = true
  /\ snd (conn_run ch cinit chunks) = [Deliver [2]; Deliver [1]; Close].
Proof. split; vm_compute; reflexivity. Qed.

(* ======================= handshake gate (security.TwistedWrapper) ========== *)

(* No application message is delivered while the wrapper is in phases 1..5:
   for every oracle, channel and chunking, if the connection history ends with
   the wrapper not in phase 6, nothing was ever delivered. *)
Theorem C14_gate : forall O ch chunks c tr,
  sconn_run O ch sinit chunks = (c, tr) -> wphase (sw c) <> P6 -> deliveries tr = [].
Proof.
  intros O ch chunks c tr R Hp.
  destruct (S_run_locked O ch chunks sinit c tr S_sinit_locked R) as [(_ & P & _)|[[_ U] _]].
  - apply S_plain_deliveries, P.
  - contradiction.
Qed.
Print Assumptions C14_gate.

(* ... nor as long as dataReceived has not been handed back *)
Theorem C14_gate_restored : forall O ch chunks c tr,
  sconn_run O ch sinit chunks = (c, tr) -> wrestored (sw c) = false -> deliveries tr = [].
Proof.
  intros O ch chunks c tr R Hr.
  destruct (S_run_locked O ch chunks sinit c tr S_sinit_locked R) as [(_ & P & _)|[[U _] _]].
  - apply S_plain_deliveries, P.
  - rewrite U in Hr. discriminate.
Qed.
Print Assumptions C14_gate_restored.

(* A delivery implies that some blob passed the signature check AND the echo
   comparison: a peer that cannot produce such a blob never gets a message in. *)
Theorem C14_verified : forall O ch chunks c tr,
  sconn_run O ch sinit chunks = (c, tr) -> deliveries tr <> [] ->
  exists b, verify O b = true /\ echo_ok O b = true.
Proof.
  intros O ch chunks c tr R Hd.
  destruct (S_run_locked O ch chunks sinit c tr S_sinit_locked R) as [(_ & P & _)|[_ Pa]].
  - exfalso. apply Hd, S_plain_deliveries, P.
  - exact Pa.
Qed.
Print Assumptions C14_verified.

(* Fail closed: a connection that died before dataReceived was handed back
   (i.e. some phase failed) was closed by loseConnection, delivered nothing, and
   -- the transport delivering nothing after loseConnection -- never will. *)
Theorem C14_fail_closed : forall O ch chunks c tr,
  sconn_run O ch sinit chunks = (c, tr) -> slive c = false -> wrestored (sw c) = false ->
  In Close tr /\ deliveries tr = [] /\ forall later, sconn_run O ch c later = (c, []).
Proof.
  intros O ch chunks c tr R Hl Hr.
  destruct (S_run_locked O ch chunks sinit c tr S_sinit_locked R) as [(_ & P & C)|[[U _] _]].
  - split; [apply C; [reflexivity|exact Hl]|]. split; [apply S_plain_deliveries, P|].
    intros later. apply S_dead_run, Hl.
  - rewrite U in Hr. discriminate.
Qed.
Print Assumptions C14_fail_closed.

(* non-vacuity: a history that passes, one that is still in phase 4, one that fails *)
Example C14_gate_example :
  (exists c tr, sconn_run ex_O ex_ch sinit (split_lens [3; 7; 9] ex_stream) = (c, tr)
                /\ deliveries tr = [[5]] /\ wphase (sw c) = P6)
  /\ (exists c tr, sconn_run ex_O ex_ch sinit [firstn 12 ex_stream] = (c, tr)
                  /\ wphase (sw c) = P4 /\ tr <> [])
  /\ (exists c tr, sconn_run (oracle_of [[7]] [] [99]) ex_ch sinit [ex_stream] = (c, tr)
                  /\ slive c = false /\ wrestored (sw c) = false).
Proof.
  split; [|split]; eexists; eexists; (split; [vm_compute; reflexivity|]); split;
  try reflexivity; discriminate.
Qed.

(* ======================= at and after a successful phase 5 ================= *)

(* Bytes that arrive together with the final handshake packet are delivered
   afterwards, in order: when the chunk d completes a verified, correctly
   echoing reply (rlen > 0), the rest of d and all later chunks are handled
   exactly as a fresh wrapped protocol would handle rest, later_1, later_2 ...;
   hence (C14_channel_prefix / C14_channel) the trace depends only on the byte
   string rest ++ later_1 ++ later_2 ..., not on how it is cut. *)
Theorem C14_after : forall O ch w d reply rest later,
  wrestored w = false -> winner w = cinit -> wphase w = P5 ->
  wlen w = Z.of_nat (length reply) -> (0 < length reply)%nat ->
  wbuf w ++ d = reply ++ rest -> verify O reply = true -> echo_ok O reply = true ->
  let tr := snd (sconn_run O ch (mkS w true) (d :: later)) in
  tr = snd (conn_run ch cinit (rest :: later))
  /\ cut tr = cut (whole ch finit (rest ++ concat later))
  /\ (quiet (removelast (whole ch finit (rest ++ concat later))) = true ->
      tr = whole ch finit (rest ++ concat later)).
Proof.
  intros O ch w d reply rest later Hr Hi Hp Hl Hpos Hb Hv He tr.
  assert (E : tr = snd (conn_run ch cinit (rest :: later)))
    by (apply (S_after O ch w d reply rest later); auto; split; assumption).
  split; [exact E|]. rewrite E. split.
  - apply (C14_channel_prefix ch (rest :: later)).
  - apply (C14_channel ch (rest :: later)).
Qed.
Print Assumptions C14_after.

(* The hypothesis rlen > 0 is needed: an oracle that validated an EMPTY reply
   (real PGP cannot) would let phase 6 run in the same call and close the
   connection after the deliveries. *)
Theorem C14_after_empty_reply_refuted : exists O ch chunks,
  snd (sconn_run O ch sinit chunks) = [Sent [0;0;0;1;99]; Deliver [5]; Close].
Proof.
  exists (oracle_of [[7]; []] [[]] [99]), (chan_of [] [[5]]),
         [[0;0;0;4; 0;0;0;1; 7; 0;0;0;4; 0;0;0;0; 0;0;0;1;5]].
  vm_compute. reflexivity.
Qed.
Print Assumptions C14_after_empty_reply_refuted.

(* The handshake outcome does not depend on how the byte stream is cut, cuts
   inside the packets of phases 1-5 included.  For every oracle that does not
   validate-and-echo the EMPTY blob (real PGP cannot), every channel and every
   chunking: up to the first loseConnection/exception the trace (challenge sent,
   close, deliveries) is that of the stream delivered in one piece; it is equal
   to it when that has no stop before its last event (every failing handshake;
   every passing one on farm/log; protocol-conformant streams on the database
   channel); and with no stop at all the whole final state (wrapper buffer,
   length, phase, wrapped protocol) is equal too. *)
Theorem C14_shake_chunking : forall O ch chunks,
  (verify O [] && echo_ok O []) = false ->
  let W := snd (sconn_feed O ch sinit (concat chunks)) in
  cut (snd (sconn_run O ch sinit chunks)) = cut W
  /\ (quiet (removelast W) = true -> snd (sconn_run O ch sinit chunks) = W)
  /\ (quiet W = true -> sconn_run O ch sinit chunks = sconn_feed O ch sinit (concat chunks)).
Proof.
  intros O ch chunks NC. destruct chunks as [|d ds].
  - cbn [concat sconn_run]. rewrite S_feed_nil_sinit. cbn [snd]. auto.
  - change (concat (d :: ds)) with (d ++ concat ds). cbv zeta. split; [|split].
    + apply (S_conn_cut O ch NC ds d sinit eq_refl S_sinit_good).
    + apply (S_conn_full O ch NC ds d sinit eq_refl S_sinit_good).
    + apply (S_conn_state O ch NC ds d sinit eq_refl S_sinit_good).
Qed.
Print Assumptions C14_shake_chunking.

(* Without that hypothesis the statement is false (same corner as
   C14_after_empty_reply_refuted): with an oracle validating the empty reply,
   phase 5 fires as soon as its zero length has arrived and phase 6 closes. *)
Theorem C14_shake_chunking_any_oracle_refuted : exists O ch chunks,
  cut (snd (sconn_run O ch sinit chunks)) <> cut (snd (sconn_feed O ch sinit (concat chunks))).
Proof.
  exists (oracle_of [[7]; []] [[]] [99]), (chan_of [] [[5]]),
         [[0;0;0;4; 0;0;0;1; 7; 0;0;0;4; 0;0;0;0]; [0;0;0;1;5]].
  vm_compute. discriminate.
Qed.
Print Assumptions C14_shake_chunking_any_oracle_refuted.

Example C14_shake_chunking_example :
  (verify ex_O [] && echo_ok ex_O []) = false
  /\ snd (sconn_run ex_O ex_ch sinit (split_lens [2; 3; 6; 1; 5] ex_stream))
     = snd (sconn_feed ex_O ex_ch sinit ex_stream)
  /\ snd (sconn_feed ex_O ex_ch sinit ex_stream) = [Sent [0;0;0;2;99;100]; Deliver [5]].
Proof. vm_compute. auto. Qed.

Example C14_after_example :
  let w := sw (fst (sconn_run ex_O ex_ch sinit [firstn 17 ex_stream])) in
  wrestored w = false /\ winner w = cinit /\ wphase w = P5 /\ wlen w = 1 /\ wbuf w = []
  /\ snd (sconn_run ex_O ex_ch (mkS w true) [[8; 0;0]; [0;1]; [5]]) = [Deliver [5]].
Proof. vm_compute. repeat split; reflexivity. Qed.

(* ======================= client side (blocking sockets) ==================== *)
(* message.receive / Connector.__do / comms.release read with s.recv(k) loops.
   A socket = the chunks the kernel hands out (recv never crosses a chunk).  *)

(* One receive returns exactly the first framed message and leaves exactly the
   bytes behind it, whatever the chunking. *)
Theorem C14_client_receive : forall s p rest,
  Forall (fun c : list Z => c <> []) s -> Z.of_nat (length p) < 4294967296 ->
  concat s = frame p ++ rest ->
  exists s', receive s = Some (p, s') /\ concat s' = rest /\ Forall (fun c : list Z => c <> []) s'.
Proof. exact C_receive. Qed.
Print Assumptions C14_client_receive.

(* What one side writes with message.send / Worker._send (header + payload in
   one sendall) is read back by successive receives on the other side, in
   order, for every fragmentation of the stream. *)
Theorem C14_client_stream : forall ms s rest,
  Forall (fun c : list Z => c <> []) s ->
  Forall (fun m => Z.of_nat (length m) < 4294967296) ms ->
  concat s = concat (map send ms) ++ rest ->
  exists s', receive_n (length ms) s = Some (ms, s') /\ concat s' = rest.
Proof.
  intros ms s rest NE H E. destruct (C_receive_n ms s rest NE H E) as (s' & R & C & _).
  exists s'. auto.
Qed.
Print Assumptions C14_client_stream.

(* ... and the server loops read what the client sends (C14_wellformed with
   send = frame): both directions of every channel agree on message boundaries. *)
Theorem C14_send_feed : forall ms chunks,
  Forall (fun m => Z.of_nat (length m) < 4294967296) ms ->
  concat chunks = concat (map send ms) -> feed_all finit chunks = (finit, ms).
Proof. intros ms chunks H E. apply (C14_wellformed ms chunks H E). Qed.
Print Assumptions C14_send_feed.

Example C14_client_example :
  receive_n 2 [[0;0]; [0;2;7]; [8;0;0;0;1;9;5]] = Some ([[7;8]; [9]], [[5]])
  /\ concat [[0;0]; [0;2;7]; [8;0;0;0;1;9;5]] = concat (map send [[7;8]; [9]]) ++ [5].
Proof. split; vm_compute; reflexivity. Qed.
(* observation, not a claim of C14: if the peer goes away in mid-message the
   real loops spin on recv() == b'' for ever; the model runs out of fuel *)
Example C14_client_eof_observation : receive [[0;0;0;2;7]] = None /\ receive [] = None.
Proof. split; vm_compute; reflexivity. Qed.

(* ======================= sender side of the log channel ==================== *)
(* dawgie.pl.logger.TwistedHandler on logging.handlers.SocketHandler
   (Model/LogSend.v) composed with one LogSink (Model/Frame.v) per connection.
   pk r = the pickle of record r; ls_env / ls_sends / ls_ticks script what
   security.connect, sock.sendall and time.time do. *)
From DV Require Import Model.LogSend Proofs.LogSendProofs.

(* Round trip on a connection that stays up, unbounded: for every history of
   the handler (any records, any refused / broken / re-made connections before),
   the connection the handler still holds carries whole frames only, and a
   LogSink fed its bytes in ANY fragmentation handles exactly the records
   written to it, in order, and nothing else. *)
Theorem C14_log_roundtrip : forall pk, (forall r, Z.of_nat (length (pk r)) < 4294967296) ->
  forall within ticks env sends evs w chunks,
  ls_sock (ls_run pk within (ls_init ticks env sends) evs) = Some w ->
  concat chunks = ls_wbytes w ->
  ls_sink chunks = map Deliver (map pk (ls_wids w)).
Proof. exact LS_roundtrip_up. Qed.
Print Assumptions C14_log_roundtrip.

(* ... and when nothing ever fails these are all the records, in the order
   they were emitted: the first record connects, the others follow. *)
Theorem C14_log_stream : forall pk, (forall r, Z.of_nat (length (pk r)) < 4294967296) ->
  forall ticks fid env trs t0 r0 chunks,
  let evs := LEmit t0 r0 :: map (fun p => LEmit (fst p) (snd p)) trs in
  let s := ls_run pk false (ls_init ticks (mkLA [] 0 fid :: env) []) evs in
  exists w, ls_wires s = [w] /\ ls_sock s = Some w /\ ls_dropped s = [] /\ ls_q s = []
    /\ (concat chunks = ls_wbytes w -> ls_sink chunks = map Deliver (map pk (r0 :: map snd trs))).
Proof.
  intros pk Hpk ticks fid env trs t0 r0 chunks. cbv zeta.
  destruct (LS_history_up pk ticks fid env trs t0 r0) as (w & Hs & Hi & Hc & Hq & Hd & _). cbv zeta in *.
  exists w. unfold ls_wires. rewrite Hs, Hc. repeat split; auto.
  intros E. rewrite <- Hi. eapply LS_roundtrip_up; eauto.
Qed.
Print Assumptions C14_log_stream.

(* After a connection loss.  For every history and EVERY connection it made
   (lost, closed or still up): the bytes that arrive are a prefix of the bytes
   sendall accepted; whatever that prefix and however it is cut, the LogSink of
   that connection handles a prefix of the records written to it, each of them
   whole -- a record whose frame was cut short by the loss is never handled. *)
Theorem C14_log_lost_connection : forall pk, (forall r, Z.of_nat (length (pk r)) < 4294967296) ->
  forall within ticks env sends evs w pre suf chunks,
  In w (ls_wires (ls_run pk within (ls_init ticks env sends) evs)) ->
  ls_wbytes w = pre ++ suf -> concat chunks = pre ->
  exists ids1 ids2, ls_wids w = ids1 ++ ids2 /\ ls_sink chunks = map Deliver (map pk ids1).
Proof. exact LS_roundtrip_lost. Qed.
Print Assumptions C14_log_lost_connection.

(* At most once: when the records handed to the handler (and those
   security.connect logs) are pairwise different, no record is written twice --
   neither twice on one connection nor on two connections (the handler never
   re-sends: the record of a failed sendall is dropped).  With
   C14_log_lost_connection: every record is handled at most once by the sinks. *)
Theorem C14_log_at_most_once : forall pk within ticks env sends evs,
  NoDup (flat_map LS_ev_ids evs ++ LS_future env) ->
  NoDup (concat (map ls_wids (ls_wires (ls_run pk within (ls_init ticks env sends) evs)))).
Proof. exact LS_at_most_once. Qed.
Print Assumptions C14_log_at_most_once.

(* Where the records are: each record emitted or logged during a connect is, at
   the end, counted exactly once among: written whole to one connection /
   dropped / still in self.__q / handled locally / not logged yet. *)
Theorem C14_log_conservation : forall pk within ticks env sends evs x,
  let s := ls_run pk within (ls_init ticks env sends) evs in
  LS_cnt x (concat (map ls_wids (ls_wires s))) + LS_cnt x (ls_dropped s) + LS_cnt x (ls_q s)
  + LS_cnt x (ls_local s) + LS_cnt x (LS_future (ls_env s))
  = LS_cnt x (flat_map LS_ev_ids evs) + LS_cnt x (LS_future env).
Proof. exact LS_conservation. Qed.
Print Assumptions C14_log_conservation.

(* What the real handler does with records emitted while it is connected:
   the records queued during the handshake go out first, then the record. *)
Theorem C14_log_connected : forall pk s w r,
  ls_sock s = Some w -> ls_shaking s = false -> ls_sends s = [] ->
  ls_emit pk false s r =
  ls_set_q (ls_set_sock s (Some (mkLW (ls_wids w ++ ls_q s ++ [r])
       (ls_wbytes w ++ concat (map (ls_makePickle pk) (ls_q s)) ++ ls_makePickle pk r)))) [].
Proof. exact LS_emit_up. Qed.
Print Assumptions C14_log_connected.

(* ... and while it is NOT connected.  A record emitted when there is no
   connection triggers one connect; if that raises, the record is dropped, what
   security.connect logged is queued and TwistedHandler.makeSocket leaves
   __shaking set (no try/finally) ... *)
Theorem C14_log_failed_connect : forall pk s a env r,
  ls_sock s = None -> ls_shaking s = false -> ls_q s = [] -> ls_rtime s = None ->
  ls_env s = a :: env -> ls_res a <> 0 ->
  let s' := ls_emit pk false s r in
  ls_shaking s' = true /\ ls_sock s' = None /\ ls_dropped s' = ls_dropped s ++ [r]
  /\ ls_q s' = ls_logged a /\ ls_closed s' = ls_closed s /\ ls_env s' = env.
Proof. exact LS_failed_connect. Qed.
Print Assumptions C14_log_failed_connect.

(* ... and from then on, for ever: every record is appended to self.__q, no
   connection is tried again (the script of connects is not consumed: the
   back-off of SocketHandler never gets a second chance), no byte is written.
   NOT a claim of C14 -- it is what the code does (reported as a defect). *)
Theorem C14_log_sender_stuck : forall pk evs s,
  ls_shaking s = true -> ls_sock s = None ->
  let s' := ls_run pk false s evs in
  ls_shaking s' = true /\ ls_wires s' = ls_wires s /\ ls_env s' = ls_env s
  /\ ls_dropped s' = ls_dropped s /\ ls_q s' = ls_q s ++ flat_map LS_ev_ids evs.
Proof. exact LS_stuck_forever. Qed.
Print Assumptions C14_log_sender_stuck.

(* "after a refused connection the handler reconnects once the server is back"
   is false: one refusal, then a server that accepts -- nothing is ever sent,
   however many records follow. *)
Theorem C14_log_sender_recovers_refuted : exists pk env, In 0 (map ls_res env) /\ forall evs,
  ls_wires (ls_run pk false (ls_init [] env []) (LEmit 0 1 :: evs)) = []
  /\ ls_env (ls_run pk false (ls_init [] env []) (LEmit 0 1 :: evs)) = [mkLA [] 0 901].
Proof.
  exists ls_ex_pk, [mkLA [] 1 900; mkLA [] 0 901]. split; [right; left; reflexivity|]. intros evs.
  change (ls_run ls_ex_pk false (ls_init [] [mkLA [] 1 900; mkLA [] 0 901] []) (LEmit 0 1 :: evs))
    with (ls_run ls_ex_pk false (ls_emit ls_ex_pk false (ls_at (ls_init [] [mkLA [] 1 900; mkLA [] 0 901] []) 0) 1) evs).
  destruct (LS_stuck_forever ls_ex_pk evs
              (ls_emit ls_ex_pk false (ls_at (ls_init [] [mkLA [] 1 900; mkLA [] 0 901] []) 0) 1)
              eq_refl eq_refl) as (_ & W & E & _).
  cbv zeta in *. rewrite W, E. split; reflexivity.
Qed.
Print Assumptions C14_log_sender_recovers_refuted.

(* The model's loop over self.__q never runs out of fuel: it ends with the
   queue empty, which is the state "self.__q = []" leaves. *)
Theorem C14_log_flush_fuel : forall pk s, ls_q (ls_flush pk (ls_fuel s) s) = [].
Proof. exact LS_flush_done. Qed.
Print Assumptions C14_log_flush_fuel.

(* non-vacuity *)
Example C14_log_roundtrip_example :
  let s := ls_run ls_ex_pk false (ls_init [] [mkLA [50] 0 900] []) [LEmit 0 7; LEmit 1 8] in
  ls_sock s = Some (mkLW [7; 50; 8] [0;0;0;2;7;7; 0;0;0;2;50;50; 0;0;0;2;8;8])
  /\ ls_sink [[0;0]; [0;2;7;7;0]; [0;0;2;50;50;0;0;0;2]; [8;8]] = [Deliver [7;7]; Deliver [50;50]; Deliver [8;8]].
Proof. vm_compute. split; reflexivity. Qed.
(* a send that breaks after 3 bytes, a reconnect, a record dropped; the lost
   connection delivers its whole record only, whatever arrives of the torn one *)
Example C14_log_lost_connection_example :
  let s := ls_run ls_ex_pk false (ls_init [] [mkLA [] 0 900; mkLA [] 0 901] [-1; 3])
                  [LEmit 0 7; LEmit 1 8; LEmit 1 9] in
  ls_wires s = [mkLW [7] [0;0;0;2;7;7; 0;0;0]; mkLW [9] [0;0;0;2;9;9]] /\ ls_dropped s = [8]
  /\ ls_sink [[0;0;0]; [2;7;7;0;0]; [0]] = [Deliver [7;7]] /\ ls_sink [[0;0;0]; [2;7]] = []
  /\ NoDup (flat_map LS_ev_ids [LEmit 0 7; LEmit 1 8; LEmit 1 9] ++ LS_future [mkLA [] 0 900; mkLA [] 0 901]).
Proof.
  vm_compute. repeat split; try reflexivity. repeat constructor; cbn; intuition discriminate.
Qed.
Example C14_log_failed_connect_example :
  let s := ls_init [] [mkLA [50] 1 900; mkLA [] 0 901] [] in
  ls_sock s = None /\ ls_shaking s = false /\ ls_q s = [] /\ ls_rtime s = None
  /\ ls_res (mkLA [50] 1 900) <> 0
  /\ ls_q (ls_emit ls_ex_pk false s 7) = [50; 900] /\ ls_shaking (ls_emit ls_ex_pk false s 7) = true.
Proof. vm_compute. repeat split; try reflexivity. discriminate. Qed.

(* ---- source tie (session 3, second wave): the framing functions ARE the source ----
   Gen/FrameGen.v is regenerated on every run by tools/translate/frame2coq.py
   (fail closed) from dawgie/pl/message.py (send, receive),
   dawgie/db/shelve/comms.py (Worker._send, Worker.__init__/dataReceived),
   dawgie/pl/logger/__init__.py (LogSink.__init__/dataReceived) and
   dawgie/pl/farm.py (Hand.__init__/dataReceived); the generated encoders,
   receiver steps and the blocking receive are PROVED equal to frame / iter /
   feed / receive of the hand-written models, for every argument.  Not
   translated: what is done with a decoded message (`emit` and the
   closing/decodable oracles stand for it; correspondence of drive_frame.py). *)
From DV Require Gen.FrameGen Proofs.FrameGenEq.

Theorem C14_send_is_source : forall p,
  FrameGen.message_send p = frame p /\ FrameGen.worker_send p = frame p /\
  FrameGen.message_send p = send p.
Proof.
  intros. split; [apply FrameGenEq.message_send_eq|].
  split; [apply FrameGenEq.worker_send_eq|apply FrameGenEq.message_send_client].
Qed.
Print Assumptions C14_send_is_source.

Theorem C14_logsink_is_source : forall s d,
  FrameGen.logsink_init = finit /\ FrameGen.logsink_iter s = iter s /\
  FrameGen.logsink_feed s d = feed s d.
Proof.
  intros. split; [reflexivity|]. split; [apply FrameGenEq.logsink_iter_eq|apply FrameGenEq.logsink_feed_eq].
Qed.
Print Assumptions C14_logsink_is_source.

Theorem C14_worker_is_source : forall s d,
  FrameGen.worker_init = finit /\ FrameGen.worker_iter s = iter s /\
  FrameGen.worker_feed s d = feed s d.
Proof.
  intros. split; [reflexivity|]. split; [apply FrameGenEq.worker_iter_eq|apply FrameGenEq.worker_feed_eq].
Qed.
Print Assumptions C14_worker_is_source.

Theorem C14_hand_is_source : forall s d,
  FrameGen.hand_init = finit /\ FrameGen.hand_iter s = iter s /\
  FrameGen.hand_feed s d = feed s d.
Proof.
  intros. split; [reflexivity|]. split; [apply FrameGenEq.hand_iter_eq|apply FrameGenEq.hand_feed_eq].
Qed.
Print Assumptions C14_hand_is_source.

Theorem C14_receive_is_source : forall s, FrameGen.message_receive s = receive s.
Proof. exact FrameGenEq.message_receive_eq. Qed.
Print Assumptions C14_receive_is_source.

(* C14_chunking and C14_client_receive restated on the generated functions:
   any sequence of dataReceived calls of a fresh LogSink / Worker / Hand hands
   over what one call with the concatenation does; the generated receive
   returns the payload the generated send framed, whatever the recv pieces *)
Theorem C14_chunking_on_source : forall chunks,
  FrameGenEq.gfeed_all FrameGen.logsink_feed FrameGen.logsink_init chunks
    = FrameGen.logsink_feed FrameGen.logsink_init (concat chunks) /\
  FrameGenEq.gfeed_all FrameGen.worker_feed FrameGen.worker_init chunks
    = FrameGen.worker_feed FrameGen.worker_init (concat chunks) /\
  FrameGenEq.gfeed_all FrameGen.hand_feed FrameGen.hand_init chunks
    = FrameGen.hand_feed FrameGen.hand_init (concat chunks).
Proof.
  intros. split; [|split].
  - rewrite (FrameGenEq.gfeed_all_eq _ FrameGenEq.logsink_feed_eq), FrameGenEq.logsink_feed_eq.
    apply F_chunking. reflexivity.
  - rewrite (FrameGenEq.gfeed_all_eq _ FrameGenEq.worker_feed_eq), FrameGenEq.worker_feed_eq.
    apply F_chunking. reflexivity.
  - rewrite (FrameGenEq.gfeed_all_eq _ FrameGenEq.hand_feed_eq), FrameGenEq.hand_feed_eq.
    apply F_chunking. reflexivity.
Qed.
Print Assumptions C14_chunking_on_source.

Example C14_source_example :
  FrameGenEq.gfeed_all FrameGen.logsink_feed FrameGen.logsink_init [[0; 0]; [0; 2; 7]; [8; 0; 0; 0; 1; 9; 0]]
    = (mkF [0] None, [[7; 8]; [9]]) /\
  FrameGen.message_receive [[0; 0]; [0; 2; 7]; [8; 0; 0; 0; 1; 9; 0]] = Some ([7; 8], [[0; 0; 0; 1; 9; 0]]) /\
  FrameGen.worker_send [7; 8] = [0; 0; 0; 2; 7; 8].
Proof. vm_compute. split; [reflexivity|]. split; reflexivity. Qed.
