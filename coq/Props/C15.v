(* C15 -- Version order is total; a version change reschedules exactly its
   owner.  Property theorems only; proofs live in Proofs/. *)
From DV Require Import Gen.VersionGen Proofs.VersionProofs.
From DV Require Import Model.Sched Model.Build Gen.DiffGen Proofs.SchedBuild Proofs.SchedC15.
From Coq Require Import ZArith Bool List.
Import ListNotations.
Open Scope Z_scope.

(* ---- order half: over the definitions generated from dawgie.Version ---- *)

Theorem C15_le_is_lexicographic : forall a b, ver_le a b = true <-> lex_le a b.
Proof. exact V_le_lex. Qed.
Print Assumptions C15_le_is_lexicographic.

Theorem C15_lt_is_strict_lexicographic : forall a b, ver_lt a b = true <-> lex_lt a b.
Proof. exact V_lt_lex. Qed.
Print Assumptions C15_lt_is_strict_lexicographic.

Theorem C15_total_order : forall a b c,
  ver_le a a = true /\
  (ver_le a b = true \/ ver_le b a = true) /\
  (ver_le a b = true -> ver_le b c = true -> ver_le a c = true) /\
  (ver_le a b = true -> ver_le b a = true -> a = b).
Proof.
  intros a b c. split; [apply V_le_refl|]. split; [apply V_le_total|].
  split; [apply V_le_trans|]. intros H1 H2. apply V_eq_iff. apply V_le_antisym; assumption.
Qed.
Print Assumptions C15_total_order.

Theorem C15_operators_consistent : forall a b,
  ver_ge a b = ver_le b a /\ ver_gt a b = ver_lt b a /\
  ver_ne a b = negb (ver_eq a b) /\
  ver_lt a b = negb (ver_ge a b) /\ ver_gt a b = negb (ver_le a b) /\
  ver_gt a b = ver_ge a b && ver_ne a b /\ ver_lt a b = ver_le a b && ver_ne a b /\
  (ver_eq a b = true <-> a = b) /\
  ver_newer a b = ver_lt b a.
Proof.
  intros a b. repeat split;
  first [apply V_ge_le | apply V_gt_lt | apply V_ne_eq | apply V_lt_not_ge | apply V_gt_not_le
        | apply V_gt_def | apply V_lt_def | apply V_eq_iff | apply V_newer_lt].
Qed.
Print Assumptions C15_operators_consistent.

Theorem C15_trichotomy : forall a b,
  (ver_lt a b = true /\ ver_eq a b = false /\ ver_gt a b = false) \/
  (ver_lt a b = false /\ ver_eq a b = true /\ ver_gt a b = false) \/
  (ver_lt a b = false /\ ver_eq a b = false /\ ver_gt a b = true).
Proof. exact V_trichotomy. Qed.
Print Assumptions C15_trichotomy.

(* non-vacuity: the order distinguishes a non-leading component *)
Example C15_order_example :
  ver_lt (1, 1, 0) (1, 10, 0) = true /\ ver_newer (2, 0, 0) (1, 9, 9) = true.
Proof. split; reflexivity. Qed.

Open Scope nat_scope.
(* ---- build half: over the GENERATED _diff (Gen/DiffGen.v) and the scheduler
   model of build()/organize() (Model/Build.v, Model/Sched.v) ---- *)

(* what the generated _diff computes: the names of `curr` whose current version
   string is not among the persisted ones (unknown name = none persisted) *)
Theorem C15_diff_spec : forall curr prev k,
  In k (diff curr prev) <-> In k (map fst curr) /\ ~ In (dget k curr) (lget k prev).
Proof. intros. rewrite diff_spec, diff_test_spec. reflexivity. Qed.
Print Assumptions C15_diff_spec.

(* at every (re)load, for every engine c, every version tables T, any previous
   state s and any iteration order of python's set (hint): an algorithm is pending
   exactly when it changed, for exactly every known target (the all-targets marker
   for analyses); nothing is executing; the queue holds exactly the changed nodes *)
Theorem C15_build_exact : forall c T hint s,
  let s' := build_versions c T hint s in
  (forall y t, In t (todo (getn (ns s') y)) <->
     In y (changed_of T) /\ y < nnodes c /\ (if asp c y then t = ALL else In t (gtargets c))) /\
  (forall y, doing (getn (ns s') y) = [] /\ do_ (getn (ns s') y) = []) /\
  (forall z, In z (que s') <-> In z (changed_of T) /\ z < nnodes c).
Proof.
  intros c T hint s s'. unfold s', build_versions.
  destruct (build_exact c (reorder hint (changed_of T)) s) as (_ & A & B & C).
  split; [|split; [exact B|]].
  - intros y t. rewrite A, reorder_In. reflexivity.
  - intros z. rewrite C, reorder_In. reflexivity.
Qed.
Print Assumptions C15_build_exact.

(* an algorithm counts as changed exactly when its own version, or the version of
   one of its state vectors, or of one of its values, is not among the persisted *)
Theorem C15_changed_iff : forall T x,
  In x (changed_of T) <->
  (In x (map fst (cur_alg T)) /\ ~ In (dget x (cur_alg T)) (lget x (per_alg T))) \/
  (exists k, In k (map fst (cur_sv T)) /\ ~ In (dget k (cur_sv T)) (lget k (per_sv T)) /\ In x (owner (own_sv T) k)) \/
  (exists k, In k (map fst (cur_v T)) /\ ~ In (dget k (cur_v T)) (lget k (per_v T)) /\ In x (owner (own_v T) k)).
Proof. exact changed_spec. Qed.
Print Assumptions C15_changed_iff.

(* non-vacuity: two task algorithms, the state vector of the second was bumped *)
Example C15_build_example :
  let c := {| gnodes := [ {| kids := [1]; anc := []; gfac := Task; lvl := 0; ins := [] |};
                          {| kids := []; anc := [0]; gfac := Task; lvl := 1; ins := [0] |} ];
              gfb := []; gtargets := [1; 2] |} in
  let T := {| cur_alg := [(0, 7); (1, 7)]; cur_sv := [(10, 7); (11, 8)]; cur_v := [(20, 7); (21, 7)];
              per_alg := [(0, [7]); (1, [6; 7])]; per_sv := [(10, [7]); (11, [7])];
              per_v := [(20, [7]); (21, [7])];
              own_sv := [(10, 0); (11, 1)]; own_v := [(20, 0); (21, 1)] |} in
  let s' := build_versions c T [] (init c) in
  que s' = [1] /\ todo (getn (ns s') 1) = [1; 2] /\ todo (getn (ns s') 0) = [].
Proof. vm_compute. repeat split; reflexivity. Qed.

(* ---- the persisted side: what shelve.versions() hands to build.
   (Model/Catalogue.v: versions; names fully qualified, no Import: the order
   half above has its own `ver`.)  A value row of the catalogue whose chain of
   parent ids resolves -- value -> state vector -> algorithm -> task, as
   util.append writes it -- is listed with exactly the names and versions it was
   registered with: util.dissect inverts util.construct on names without ':' ---- *)
From DV Require Model.Catalogue Model.Store Proofs.CatalogueProofs Proofs.DissectProofs.

Theorem C15_dissect_inverts_construct : forall n p v,
  DV.Proofs.CatalogueProofs.plain n ->
  DV.Model.Catalogue.dissect (DV.Model.Catalogue.construct n (Some p) (Some v)) = Some (Some p, n, Some v).
Proof. exact DV.Proofs.DissectProofs.dissect_construct. Qed.
Print Assumptions C15_dissect_inverts_construct.

Theorem C15_persisted_listed : forall c vk x vn s vv sn a sv an k av tn,
  In (vk, x) (DV.Model.Catalogue.t_value c) ->
  vk = DV.Model.Catalogue.construct vn (Some s) (Some vv) ->
  DV.Proofs.CatalogueProofs.plain vn -> DV.Proofs.CatalogueProofs.plain sn ->
  DV.Proofs.CatalogueProofs.plain an -> DV.Proofs.CatalogueProofs.plain tn ->
  nth_error (DV.Model.Catalogue.i_state c) s = Some (DV.Model.Catalogue.construct sn (Some a) (Some sv)) ->
  nth_error (DV.Model.Catalogue.i_alg c) a = Some (DV.Model.Catalogue.construct an (Some k) (Some av)) ->
  nth_error (DV.Model.Catalogue.i_task c) k = Some tn ->
  In (Some (tn, an, sn, vn, av, sv, vv)) (DV.Model.Catalogue.versions c).
Proof. exact DV.Proofs.DissectProofs.versions_lists. Qed.
Print Assumptions C15_persisted_listed.

(* non-vacuity: after registering an identity its row is listed (names as code points) *)
Example C15_persisted_example :
  let id := DV.Model.Store.mkid [116] [97] (1, 2, 0)%Z [115] (1, 0, 0)%Z [118] (3, 0, 1)%Z in
  DV.Model.Catalogue.versions (DV.Model.Store.register DV.Model.Catalogue.cat0 id)
  = [Some ([116], [97], [115], [118], (1, 2, 0)%Z, (1, 0, 0)%Z, (3, 0, 1)%Z)].
Proof. vm_compute. reflexivity. Qed.

(* ---- end to end on NAMES: from the identities registered in the catalogue
   (what workers record before they run: pl.version.record -> shelve.update =
   Store.register) and the engine given by its names and versions, through
   shelve.versions() (Catalogue.versions + its collation loop), pl.version.current
   and the GENERATED name-level part of schedule.build (Gen/BuildNamesGen.v: _diff
   on names, the 'task.alg' prefix cut at the dots, the tag test of Node.locate),
   to the todo sets and the queue (Model/BuildNames.v: build_names).
   Names are lists of code points; `plain` = no ':' (catalogue separator),
   `nodot` = no '.' (compliance rule 9). ---- *)
From DV Require Gen.BuildNamesGen Model.BuildNames Proofs.BuildNamesProofs.
Module Names.
Import DV.Model.Catalogue DV.Model.Store DV.Gen.BuildNamesGen DV.Model.BuildNames.
Import DV.Proofs.CatalogueProofs DV.Proofs.BuildNamesProofs.

(* the meaning of "changed" on names: some version of the algorithm was never
   registered for exactly its (task, algorithm[, state vector[, value]]) name; a
   state vector without values has no version of its own (current() skips it) *)
Theorem C15_alg_changed_def : forall ids tk a,
  alg_changed ids tk a <->
  (~ exists id, In id ids /\ d_task id = t_name tk /\ d_alg id = a_name a /\ d_aver id = a_ver a) \/
  (exists s, In s (a_svs a) /\ sv_vals s <> [] /\
     ~ exists id, In id ids /\ d_task id = t_name tk /\ d_alg id = a_name a /\
                  d_sv id = sv_name s /\ d_sver id = sv_ver s) \/
  (exists s n v, In s (a_svs a) /\ In (n, v) (sv_vals s) /\
     ~ exists id, In id ids /\ d_task id = t_name tk /\ d_alg id = a_name a /\
                  d_sv id = sv_name s /\ d_vn id = n /\ d_vver id = v).
Proof. intros. reflexivity. Qed.
Print Assumptions C15_alg_changed_def.

(* for every list of registered identities (names without ':' and '.'), every
   engine without duplicate names (names without '.'), every graph c / tags (tag of
   node y = nth y tags), any previous state and any iteration order of python's set:
   versions() does not raise, and node y is pending (for exactly every known target,
   the all-targets marker for analyses) and queued IFF it is the node of an algorithm
   of the engine that changed in the sense above.  An algorithm that was never
   registered counts as changed (first disjunct); an algorithm whose name merely
   extends or is a prefix of a changed one is a different (task, algorithm) name *)
Theorem C15_end_to_end : forall ids e c tags hint s,
  Forall ok_ident ids -> Forall dotfree_ident ids -> wf_engine e ->
  exists s', build_names c tags e (registered ids) hint s = Some s' /\
    (forall y t, In t (todo (getn (ns s') y)) <->
       (exists tk a, In tk e /\ In a (t_algs tk) /\
                     nth_error tags y = Some (dots [t_name tk; a_name a]) /\ alg_changed ids tk a) /\
       y < nnodes c /\ (if asp c y then t = ALL else In t (gtargets c))) /\
    (forall y, doing (getn (ns s') y) = [] /\ do_ (getn (ns s') y) = []) /\
    (forall z, In z (que s') <->
       (exists tk a, In tk e /\ In a (t_algs tk) /\
                     nth_error tags z = Some (dots [t_name tk; a_name a]) /\ alg_changed ids tk a) /\
       z < nnodes c).
Proof. exact BN_end_to_end. Qed.
Print Assumptions C15_end_to_end.

(* whether an algorithm changed depends only on the registrations made under its
   own (task, algorithm) name: registrations under net.fit2 / cal.fit / cal.fitter
   never affect net.fit *)
Theorem C15_changed_depends_on_own_name : forall ids ids' tk a,
  (forall id, d_task id = t_name tk -> d_alg id = a_name a -> (In id ids <-> In id ids')) ->
  (alg_changed ids tk a <-> alg_changed ids' tk a).
Proof. exact BN_alg_changed_own. Qed.
Print Assumptions C15_changed_depends_on_own_name.

(* after every algorithm of the engine recorded its identities (every algorithm
   has a state vector with a value) a (re)load reschedules nothing ... *)
Theorem C15_register_then_unchanged : forall e c tags hint s,
  wf_engine e -> plain_engine e -> populated e ->
  exists s', build_names c tags e (registered (record_all e)) hint s = Some s' /\
    que s' = [] /\ forall y, todo (getn (ns s') y) = [].
Proof. exact BN_register_then_unchanged. Qed.
Print Assumptions C15_register_then_unchanged.

(* ... and a software change e -> e' that touches one algorithm (tk0, a0) only,
   giving it some version e never registered for that name (algorithm, state
   vector or value level), reschedules exactly the node of that algorithm *)
Theorem C15_bump_reschedules_exactly_owner : forall e e' tk0 a0 c tags hint s,
  wf_engine e -> plain_engine e -> populated e -> wf_engine e' ->
  In tk0 e' -> In a0 (t_algs tk0) ->
  (forall tk' a', In tk' e' -> In a' (t_algs tk') ->
     (tk' = tk0 /\ a' = a0) \/ exists tk, In tk e /\ t_name tk = t_name tk' /\ In a' (t_algs tk)) ->
  alg_changed (record_all e) tk0 a0 ->
  exists s', build_names c tags e' (registered (record_all e)) hint s = Some s' /\
    (forall z, In z (que s') <-> nth_error tags z = Some (dots [t_name tk0; a_name a0]) /\ z < nnodes c) /\
    (forall y t, In t (todo (getn (ns s') y)) <->
       nth_error tags y = Some (dots [t_name tk0; a_name a0]) /\ y < nnodes c /\
       (if asp c y then t = ALL else In t (gtargets c))).
Proof. exact BN_bump_reschedules_owner. Qed.
Print Assumptions C15_bump_reschedules_exactly_owner.

(* refinement: the name-level build selects the same nodes as the id-level version
   tables T of Model/Build.v computed from the names (tables_of: a name is numbered
   by its position among the names of its level, an algorithm by its node id, a
   version string by its position among the version strings; own_sv/own_v = node
   of the generated 'task.alg' prefix) -- so C15_build_exact / C15_changed_iff
   above speak about the same scheduling decision, for every engine and every
   persisted tables (no well-formedness of the persisted side needed) *)
Theorem C15_names_refine_tables : forall tags e p y,
  NoDup tags -> y < length tags ->
  (forall k, In k (map fst (fst (fst (current e)))) -> alg_of k = k) ->
  (In y (nodes_changed tags e p) <-> In y (changed_of (tables_of tags e p))).
Proof. exact BN_refines_tables. Qed.
Print Assumptions C15_names_refine_tables.

Theorem C15_names_refine_build : forall c tags e ct p hint s,
  persisted ct = Some p -> NoDup tags -> length tags = nnodes c ->
  (forall k, In k (map fst (fst (fst (current e)))) -> alg_of k = k) ->
  exists s', build_names c tags e ct hint s = Some s' /\
    let s2 := build_versions c (tables_of tags e p) hint s in
    (forall y t, In t (todo (getn (ns s') y)) <-> In t (todo (getn (ns s2) y))) /\
    (forall z, In z (que s') <-> In z (que s2)).
Proof. exact BN_refines_build. Qed.
Print Assumptions C15_names_refine_build.

(* the side condition of the refinement holds for every engine with dot-free names *)
Theorem C15_names_refine_side : forall e, wf_engine e ->
  forall k, In k (map fst (fst (fst (current e)))) -> alg_of k = k.
Proof. exact BN_alg_keys_own. Qed.
Print Assumptions C15_names_refine_side.

(* non-vacuity, with confusable names net.fit / net.fit2 / cal.fit / cal.fitter
   (nodes 2 / 3 / 0 / 1): the hypotheses hold for the example engine; the generated
   prefix function cuts at the dots; everything registered -> nothing changes; the
   state vector of net.fit2 bumped -> node 3 only, not net.fit *)
Example C15_names_example_wf : forall b,
  wf_engine (ex_engine b) /\ plain_engine (ex_engine b) /\ populated (ex_engine b).
Proof. exact BN_ex_wf. Qed.

Example C15_names_example :
  alg_of (dots [s_net; s_fit2; s_sv; s_v]) = dots [s_net; s_fit2]
  /\ alg_of (dots [s_net; s_fit]) = dots [s_net; s_fit]
  /\ option_map (nodes_changed ex_tags (ex_engine (1, 0, 0)%Z))
                (persisted (registered (record_all (ex_engine (1, 0, 0)%Z)))) = Some []
  /\ option_map (nodes_changed ex_tags (ex_engine (1, 1, 0)%Z))
                (persisted (registered (record_all (ex_engine (1, 0, 0)%Z)))) = Some [3]
  /\ option_map (fun p => changed_of (tables_of ex_tags (ex_engine (1, 1, 0)%Z) p))
                (persisted (registered (record_all (ex_engine (1, 0, 0)%Z)))) = Some [3].
Proof. vm_compute. repeat split; reflexivity. Qed.
End Names.
