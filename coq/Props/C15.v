(* C15 -- Version order is total; a version change reschedules exactly its
   owner.  Property theorems only; proofs live in Proofs/. *)
From DV Require Import Gen.VersionGen Proofs.VersionProofs.
From DV Require Import Model.Sched Model.Build Gen.DiffGen Proofs.SchedBuild Proofs.SchedC15.
From Coq Require Import ZArith Bool List.
Import ListNotations.
Open Scope Z_scope.

(* ---- order half: over the definitions generated from dawgie.Version ---- *)

Theorem C15_le_is_lexicographic : forall a b, ver_le a b = true <-> lex_le a b.
Proof. exact V_le_lex. Qed.
Print Assumptions C15_le_is_lexicographic.

Theorem C15_lt_is_strict_lexicographic : forall a b, ver_lt a b = true <-> lex_lt a b.
Proof. exact V_lt_lex. Qed.
Print Assumptions C15_lt_is_strict_lexicographic.

Theorem C15_total_order : forall a b c,
  ver_le a a = true /\
  (ver_le a b = true \/ ver_le b a = true) /\
  (ver_le a b = true -> ver_le b c = true -> ver_le a c = true) /\
  (ver_le a b = true -> ver_le b a = true -> a = b).
Proof.
  intros a b c. split; [apply V_le_refl|]. split; [apply V_le_total|].
  split; [apply V_le_trans|]. intros H1 H2. apply V_eq_iff. apply V_le_antisym; assumption.
Qed.
Print Assumptions C15_total_order.

Theorem C15_operators_consistent : forall a b,
  ver_ge a b = ver_le b a /\ ver_gt a b = ver_lt b a /\
  ver_ne a b = negb (ver_eq a b) /\
  ver_lt a b = negb (ver_ge a b) /\ ver_gt a b = negb (ver_le a b) /\
  ver_gt a b = ver_ge a b && ver_ne a b /\ ver_lt a b = ver_le a b && ver_ne a b /\
  (ver_eq a b = true <-> a = b) /\
  ver_newer a b = ver_lt b a.
Proof.
  intros a b. repeat split;
  first [apply V_ge_le | apply V_gt_lt | apply V_ne_eq | apply V_lt_not_ge | apply V_gt_not_le
        | apply V_gt_def | apply V_lt_def | apply V_eq_iff | apply V_newer_lt].
Qed.
Print Assumptions C15_operators_consistent.

Theorem C15_trichotomy : forall a b,
  (ver_lt a b = true /\ ver_eq a b = false /\ ver_gt a b = false) \/
  (ver_lt a b = false /\ ver_eq a b = true /\ ver_gt a b = false) \/
  (ver_lt a b = false /\ ver_eq a b = false /\ ver_gt a b = true).
Proof. exact V_trichotomy. Qed.
Print Assumptions C15_trichotomy.

(* non-vacuity: the order distinguishes a non-leading component *)
Example C15_order_example :
  ver_lt (1, 1, 0) (1, 10, 0) = true /\ ver_newer (2, 0, 0) (1, 9, 9) = true.
Proof. split; reflexivity. Qed.

Open Scope nat_scope.
(* ---- build half: over the GENERATED _diff (Gen/DiffGen.v) and the scheduler
   model of build()/organize() (Model/Build.v, Model/Sched.v) ---- *)

(* what the generated _diff computes: the names of `curr` whose current version
   string is not among the persisted ones (unknown name = none persisted) *)
Theorem C15_diff_spec : forall curr prev k,
  In k (diff curr prev) <-> In k (map fst curr) /\ ~ In (dget k curr) (lget k prev).
Proof. intros. rewrite diff_spec, diff_test_spec. reflexivity. Qed.
Print Assumptions C15_diff_spec.

(* at every (re)load, for every engine c, every version tables T, any previous
   state s and any iteration order of python's set (hint): an algorithm is pending
   exactly when it changed, for exactly every known target (the all-targets marker
   for analyses); nothing is executing; the queue holds exactly the changed nodes *)
Theorem C15_build_exact : forall c T hint s,
  let s' := build_versions c T hint s in
  (forall y t, In t (todo (getn (ns s') y)) <->
     In y (changed_of T) /\ y < nnodes c /\ (if asp c y then t = ALL else In t (gtargets c))) /\
  (forall y, doing (getn (ns s') y) = [] /\ do_ (getn (ns s') y) = []) /\
  (forall z, In z (que s') <-> In z (changed_of T) /\ z < nnodes c).
Proof.
  intros c T hint s s'. unfold s', build_versions.
  destruct (build_exact c (reorder hint (changed_of T)) s) as (_ & A & B & C).
  split; [|split; [exact B|]].
  - intros y t. rewrite A, reorder_In. reflexivity.
  - intros z. rewrite C, reorder_In. reflexivity.
Qed.
Print Assumptions C15_build_exact.

(* an algorithm counts as changed exactly when its own version, or the version of
   one of its state vectors, or of one of its values, is not among the persisted *)
Theorem C15_changed_iff : forall T x,
  In x (changed_of T) <->
  (In x (map fst (cur_alg T)) /\ ~ In (dget x (cur_alg T)) (lget x (per_alg T))) \/
  (exists k, In k (map fst (cur_sv T)) /\ ~ In (dget k (cur_sv T)) (lget k (per_sv T)) /\ In x (owner (own_sv T) k)) \/
  (exists k, In k (map fst (cur_v T)) /\ ~ In (dget k (cur_v T)) (lget k (per_v T)) /\ In x (owner (own_v T) k)).
Proof. exact changed_spec. Qed.
Print Assumptions C15_changed_iff.

(* non-vacuity: two task algorithms, the state vector of the second was bumped *)
Example C15_build_example :
  let c := {| gnodes := [ {| kids := [1]; anc := []; gfac := Task; lvl := 0; ins := [] |};
                          {| kids := []; anc := [0]; gfac := Task; lvl := 1; ins := [0] |} ];
              gfb := []; gtargets := [1; 2] |} in
  let T := {| cur_alg := [(0, 7); (1, 7)]; cur_sv := [(10, 7); (11, 8)]; cur_v := [(20, 7); (21, 7)];
              per_alg := [(0, [7]); (1, [6; 7])]; per_sv := [(10, [7]); (11, [7])];
              per_v := [(20, [7]); (21, [7])];
              own_sv := [(10, 0); (11, 1)]; own_v := [(20, 0); (21, 1)] |} in
  let s' := build_versions c T [] (init c) in
  que s' = [1] /\ todo (getn (ns s') 1) = [1; 2] /\ todo (getn (ns s') 0) = [].
Proof. vm_compute. repeat split; reflexivity. Qed.

(* ---- the persisted side: what shelve.versions() hands to build.
   (Model/Catalogue.v: versions; names fully qualified, no Import: the order
   half above has its own `ver`.)  A value row of the catalogue whose chain of
   parent ids resolves -- value -> state vector -> algorithm -> task, as
   util.append writes it -- is listed with exactly the names and versions it was
   registered with: util.dissect inverts util.construct on names without ':' ---- *)
From DV Require Model.Catalogue Model.Store Proofs.CatalogueProofs Proofs.DissectProofs.

Theorem C15_dissect_inverts_construct : forall n p v,
  DV.Proofs.CatalogueProofs.plain n ->
  DV.Model.Catalogue.dissect (DV.Model.Catalogue.construct n (Some p) (Some v)) = Some (Some p, n, Some v).
Proof. exact DV.Proofs.DissectProofs.dissect_construct. Qed.
Print Assumptions C15_dissect_inverts_construct.

Theorem C15_persisted_listed : forall c vk x vn s vv sn a sv an k av tn,
  In (vk, x) (DV.Model.Catalogue.t_value c) ->
  vk = DV.Model.Catalogue.construct vn (Some s) (Some vv) ->
  DV.Proofs.CatalogueProofs.plain vn -> DV.Proofs.CatalogueProofs.plain sn ->
  DV.Proofs.CatalogueProofs.plain an -> DV.Proofs.CatalogueProofs.plain tn ->
  nth_error (DV.Model.Catalogue.i_state c) s = Some (DV.Model.Catalogue.construct sn (Some a) (Some sv)) ->
  nth_error (DV.Model.Catalogue.i_alg c) a = Some (DV.Model.Catalogue.construct an (Some k) (Some av)) ->
  nth_error (DV.Model.Catalogue.i_task c) k = Some tn ->
  In (Some (tn, an, sn, vn, av, sv, vv)) (DV.Model.Catalogue.versions c).
Proof. exact DV.Proofs.DissectProofs.versions_lists. Qed.
Print Assumptions C15_persisted_listed.

(* non-vacuity: after registering an identity its row is listed (names as code points) *)
Example C15_persisted_example :
  let id := DV.Model.Store.mkid [116] [97] (1, 2, 0)%Z [115] (1, 0, 0)%Z [118] (3, 0, 1)%Z in
  DV.Model.Catalogue.versions (DV.Model.Store.register DV.Model.Catalogue.cat0 id)
  = [Some ([116], [97], [115], [118], (1, 2, 0)%Z, (1, 0, 0)%Z, (3, 0, 1)%Z)].
Proof. vm_compute. reflexivity. Qed.
