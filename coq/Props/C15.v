(* C15 -- Version order is total; a version change reschedules exactly its
   owner.  Property theorems only; proofs live in Proofs/. *)
From DV Require Import Gen.VersionGen Proofs.VersionProofs.
From Coq Require Import ZArith Bool.
Open Scope Z_scope.

(* ---- order half: over the definitions generated from dawgie.Version ---- *)

Theorem C15_le_is_lexicographic : forall a b, ver_le a b = true <-> lex_le a b.
Proof. exact V_le_lex. Qed.
Print Assumptions C15_le_is_lexicographic.

Theorem C15_lt_is_strict_lexicographic : forall a b, ver_lt a b = true <-> lex_lt a b.
Proof. exact V_lt_lex. Qed.
Print Assumptions C15_lt_is_strict_lexicographic.

Theorem C15_total_order : forall a b c,
  ver_le a a = true /\
  (ver_le a b = true \/ ver_le b a = true) /\
  (ver_le a b = true -> ver_le b c = true -> ver_le a c = true) /\
  (ver_le a b = true -> ver_le b a = true -> a = b).
Proof.
  intros a b c. split; [apply V_le_refl|]. split; [apply V_le_total|].
  split; [apply V_le_trans|]. intros H1 H2. apply V_eq_iff. apply V_le_antisym; assumption.
Qed.
Print Assumptions C15_total_order.

Theorem C15_operators_consistent : forall a b,
  ver_ge a b = ver_le b a /\ ver_gt a b = ver_lt b a /\
  ver_ne a b = negb (ver_eq a b) /\
  ver_lt a b = negb (ver_ge a b) /\ ver_gt a b = negb (ver_le a b) /\
  ver_gt a b = ver_ge a b && ver_ne a b /\ ver_lt a b = ver_le a b && ver_ne a b /\
  (ver_eq a b = true <-> a = b) /\
  ver_newer a b = ver_lt b a.
Proof.
  intros a b. repeat split;
  first [apply V_ge_le | apply V_gt_lt | apply V_ne_eq | apply V_lt_not_ge | apply V_gt_not_le
        | apply V_gt_def | apply V_lt_def | apply V_eq_iff | apply V_newer_lt].
Qed.
Print Assumptions C15_operators_consistent.

Theorem C15_trichotomy : forall a b,
  (ver_lt a b = true /\ ver_eq a b = false /\ ver_gt a b = false) \/
  (ver_lt a b = false /\ ver_eq a b = true /\ ver_gt a b = false) \/
  (ver_lt a b = false /\ ver_eq a b = false /\ ver_gt a b = true).
Proof. exact V_trichotomy. Qed.
Print Assumptions C15_trichotomy.

(* non-vacuity: the order distinguishes a non-leading component *)
Example C15_order_example :
  ver_lt (1, 1, 0) (1, 10, 0) = true /\ ver_newer (2, 0, 0) (1, 9, 9) = true.
Proof. split; reflexivity. Qed.
