(* C16 -- the compliance gate accepts exactly the engines that follow the
   rules.  Property theorems only; proofs live in Proofs/GateProofs.v.
   Model: Model/Gate.v ([gate] = compliant._verify over rule_01..rule_11 as the
   code is now; [follows] = the eleven rules read off their docstrings). *)
From DV Require Import Model.Gate Proofs.GateProofs.
From Coq Require Import List Bool.
Import ListNotations.

(* C16_sound_complete at full strength is FALSE on the code as it is: rule 3
   promises that every method raising NotImplementedError is checked, but
   run() / StateVector.view() / Value.features() are never looked at
   (open finding abstract-method-unchecked).  Witness: a regress-only package
   whose regression leaves run() abstract is accepted. *)
Theorem C16_sound_complete_refuted : exists E, gate E = true /\ ~ follows E.
Proof. exists GateWitness.E_norun. split; [exact GateWitness.accepted|exact GateWitness.not_follows]. Qed.
Print Assumptions C16_sound_complete_refuted.

(* strongest statement that holds: the gate accepts exactly the engines that
   follow the observable part of the rules ([follows] minus the three
   unchecked overrides), for every engine descriptor -- any number of
   packages, any subset of the four factory kinds per package.  Missing w.r.t.
   the full statement: the F03_unobserved clause; side conditions: names
   unique where the architecture needs them unique ([uniq]; _resolve's
   index bookkeeping is wrong on duplicates) and no package name a string
   prefix of another ([prefix_free]; rule_06 uses str.startswith). *)
Theorem C16_sound_complete_partial : forall E, uniq E -> prefix_free E ->
  (gate E = true <-> follows_obs E).
Proof. intros E U PF. split; [apply G_sound|apply G_complete]; assumption. Qed.
Print Assumptions C16_sound_complete_partial.

(* every engine that breaks a rule the gate can observe -- at any position of
   any package, in particular every single-rule fault injected into a
   compliant engine -- is rejected *)
Theorem C16_single_fault : forall E, uniq E -> prefix_free E ->
  (exists p, In p E /\ ~ follows_obs_pkg E p) -> gate E = false.
Proof. exact G_fault_rejected. Qed.
Print Assumptions C16_single_fault.

(* descriptor-level half of C16_schedulable: under an accepting gate every
   reference (feedback included, which is what the fix restored for
   regressions) denotes only value nodes that pl.dag.Construct._build_tree
   creates, so the _flat[...] lookup of Construct._feedback is total.
   Termination of _ancestry on acyclic engines and pl.schedule.build are left
   to the correspondence (accepted acyclic engines are run through the real
   Construct/build on every run). *)
Theorem C16_schedulable_partial : forall E, uniq E -> prefix_free E -> gate E = true ->
  forall p, In p E -> forall k f, fac_of p k = Some f -> forall a, In a (b_algs (f_bot f)) ->
  forall r, In r (refs_of a) -> forall it feat, In (it, feat) (expand r) ->
  exists i k' ft, r_fac r = Some (i, k') /\ feat = Some ft /\
                  flat_has E i k' (r_impl_name r) (i_name it) ft.
Proof. exact G_lookups_total. Qed.
Print Assumptions C16_schedulable_partial.

(* the repaired defect stays visible in the model: the pinned _walk (regress
   branch reading `a.feedback()`) rejects a package that follows every rule *)
Theorem C16_pinned_walk_defect : exists E,
  follows E /\ gate E = true /\ gate_pinned E = false.
Proof.
  exists GateExamples.E. split; [exact GateWitness.follows_E|].
  split; [exact GateExamples.now_accepts_regress_only
         |exact GateExamples.pinned_rejected_regress_only].
Qed.
Print Assumptions C16_pinned_walk_defect.

(* non-vacuity: the hypotheses of the theorems above are satisfiable by an
   engine with a regress-only package, and a faulty engine exists *)
Example C16_hypotheses_satisfiable :
  uniq GateExamples.E /\ prefix_free GateExamples.E /\ gate GateExamples.E = true /\
  follows_obs GateExamples.E.
Proof.
  split; [exact GateWitness.uniq_E|]. split; [exact GateWitness.prefix_free_E|].
  split; [exact GateExamples.now_accepts_regress_only|apply GateWitness.follows_E].
Qed.

Example C16_single_fault_example :
  uniq GateWitness.E_dot /\ prefix_free GateWitness.E_dot /\
  (exists p, In p GateWitness.E_dot /\ ~ follows_obs_pkg GateWitness.E_dot p) /\
  gate GateWitness.E_dot = false.
Proof.
  split; [exact GateWitness.uniq_E_dot|]. split; [exact GateWitness.prefix_free_E_dot|].
  split; [exact GateWitness.breaks_rule_E_dot|]. vm_compute. reflexivity.
Qed.
