(* C16 -- the compliance gate accepts exactly the engines that follow the
   rules.  Property theorems only; proofs live in Proofs/GateProofs.v. *)
From DV Require Import Model.Gate Proofs.GateProofs.
From Coq Require Import List Bool.
Import ListNotations.

Theorem C16_status : forall r, status r = true <-> r = Some true.
Proof. exact G_status_true. Qed.
Print Assumptions C16_status.
