(* C17 stub *)
From DV Require Import Gen.RangeGen Model.Search.
From Coq Require Import ZArith Bool List.
Theorem C17_stub : True. Proof. exact I. Qed.
Print Assumptions C17_stub.
