(* C17 -- Search returns exactly the matching entries, in order, page by page.
   Property theorems only; proofs live in Proofs/SearchProofs.v.
   rng_contains / scrub_covers come from Gen/RangeGen.v (regenerated from
   db/basis.py on every run); everything else from Model/Search.v. *)
From DV Require Import Gen.RangeGen Model.Search Proofs.SearchProofs.
From Coq Require Import List ZArith Bool Sorting.Sorted.
Import ListNotations.
Open Scope Z_scope.

(* ---- the generated membership test is the half-open interval ---- *)
Theorem C17_range_contains : forall (r : rng) z,
  rng_contains r z = true <->
  fst r <= z /\ match snd r with None => True | Some s => z < s end.
Proof. exact S_contains_iff. Qed.
Print Assumptions C17_range_contains.

(* the inline covered-index test of _scrub is that same membership test *)
Theorem C17_scrub_covers : forall (r : rng) i, scrub_covers r i = rng_contains r i.
Proof. exact S_covers_contains. Qed.
Print Assumptions C17_scrub_covers.

(* ---- normalising a run-ID expression never changes the set it denotes ----
   (for every z, -1 included: stronger than the DESIGN statement) *)
Theorem C17_scrub_denote : forall e z, denote (scrub e) z = denote e z.
Proof. exact S_scrub_denote. Qed.
Print Assumptions C17_scrub_denote.

(* ... nor the run-id filter that _prime_keys builds from it (there -1 is the
   "latest" marker and is discarded, so real run ids are z <> -1) *)
Theorem C17_scrub_constraint : forall e z, z <> -1 ->
  col_ok (run_constraint (Some (scrub e))) z = col_ok (run_constraint (Some e)) z.
Proof. exact S_scrub_constraint. Qed.
Print Assumptions C17_scrub_constraint.

(* ---- find(p) = the sorted duplicate-free 5-prefixes of the matching prime
   keys, ascending in run id.  `matches` is the declarative reading of the
   constraints on the RAW (un-normalised) parameters; key_ok: ids >= 0 and a
   run id other than the -1 marker (what the database writes) ---- *)
Theorem C17_exact : forall d p,
  Forall key_ok (prime d) ->
  StronglySorted lt5 (full_list d p) /\
  StronglySorted (fun a b => run5 a <= run5 b) (full_list d p) /\
  NoDup (full_list d p) /\
  (forall t, In t (full_list d p) <->
             exists k, In k (prime d) /\ pk_prefix k = t /\ matches d p k).
Proof. exact S_exact. Qed.
Print Assumptions C17_exact.

(* ... and it is the only such list *)
Theorem C17_exact_unique : forall d p l,
  Forall key_ok (prime d) ->
  StronglySorted lt5 l ->
  (forall t, In t l <-> exists k, In k (prime d) /\ pk_prefix k = t /\ matches d p k) ->
  l = full_list d p.
Proof. exact S_exact_unique. Qed.
Print Assumptions C17_exact_unique.

(* ---- total = the full match count, on every page (any integers) ---- *)
Theorem C17_total : forall d p i l,
  snd (search_find d p i l) = Z.of_nat (length (full_list d p)).
Proof. exact S_total. Qed.
Print Assumptions C17_total.

(* ---- a page is firstn limit (skipn index full) ---- *)
Theorem C17_pages : forall d p i l, 0 <= i -> 0 <= l ->
  fst (search_find d p i (Some l)) = firstn (Z.to_nat l) (skipn (Z.to_nat i) (full_list d p)).
Proof. exact S_pages. Qed.
Print Assumptions C17_pages.

Theorem C17_pages_unbounded : forall d p i, 0 <= i ->
  fst (search_find d p i None) = skipn (Z.to_nat i) (full_list d p).
Proof. exact S_pages_open. Qed.
Print Assumptions C17_pages_unbounded.

(* ---- consecutive pages concatenate to the full list: no gap, no repeat ---- *)
Theorem C17_pages_concat : forall d p (L n : nat),
  (length (full_list d p) <= n * L)%nat ->
  concat (map (fun k => fst (search_find d p (Z.of_nat (k * L)) (Some (Z.of_nat L)))) (seq 0 n))
  = full_list d p.
Proof. exact S_pages_cover. Qed.
Print Assumptions C17_pages_concat.

(* ---- facet: sorted duplicate-free names of the matching entries ---- *)
Theorem C17_facet : forall d p col,
  StronglySorted Z.lt (search_facet d p col) /\
  forall n, In n (search_facet d p col) <->
            exists k, In k (full_list d p) /\
                      nth (Z.to_nat (col5 col k)) (facet_table d col) (-1) = n.
Proof. exact S_facet. Qed.
Print Assumptions C17_facet.

(* ---- non-vacuity ---- *)
(* overlapping + open + adjacent ranges and a covered index are merged *)
Example C17_scrub_example :
  scrub [Idx 6; Rng (1, Some 3); Rng (2, Some 5); Rng (0, Some 1); Rng (9, None); Idx 4]
  = [Rng (0, Some 5); Rng (9, None); Idx 6].
Proof. vm_compute. reflexivity. Qed.

(* the hypothesis of C17_exact is satisfiable and the search is not trivial:
   a range expression selects runs 2 and 3; page (1,1) is the second entry *)
Example C17_exact_example :
  Forall key_ok (prime ex_db) /\
  full_list ex_db (mkP (Some [Rng (2, Some 4)]) None None None None None)
    = [(2,0,0,1,1); (3,1,0,2,2)] /\
  search_find ex_db (mkP None None None (Some [0]) None None) 1 (Some 1) = ([(3,1,0,2,2)], 3).
Proof.
  split; [|split; vm_compute; reflexivity].
  repeat constructor; cbn; try discriminate; try (intros H; discriminate H).
Qed.

(* pages of size 2 tile the unconstrained search of the example database *)
Example C17_pages_example :
  concat (map (fun k => fst (search_find ex_db no_params (Z.of_nat (k * 2)) (Some 2))) (seq 0 2))
  = full_list ex_db no_params /\ length (full_list ex_db no_params) = 4%nat.
Proof. split; vm_compute; reflexivity. Qed.
