(* C18 -- The execution history records every run once; queries return the
   window.  Property theorems only; proofs live in Proofs/ChronProofs.v. *)
From DV Require Import Model.Chron Proofs.ChronProofs Proofs.ChronStats.
From Coq Require Import List ZArith Bool Sorting.Sorted Sorting.Permutation.
Import ListNotations.
Open Scope Z_scope.

(* ---- an append adds exactly one copy of the entry, to its own file, at the
   end; every file keeps its earlier entries in order; no second file for the
   same (day, run id) appears ---- *)
Theorem C18_append_once : forall j e,
  (forall d r, lookup (append j e) d r
               = lookup j d r ++
                 (if (d =? day_of (e_completed e)) && (r =? e_runid e) then [e] else [])) /\
  Permutation (all_entries (append j e)) (e :: all_entries j) /\
  (NoDup (map fkey j) -> NoDup (map fkey (append j e))).
Proof.
  intros j e. split; [|split].
  - intros d r. apply C_lookup_append_to.
  - apply C_all_append_to.
  - apply C_nodup_append_to.
Qed.
Print Assumptions C18_append_once.

(* ---- schedule.complete records the reply exactly once with its data.
   PARTIAL: this is the chronicle step of complete(); that every reply leads
   to exactly one complete() call is C03_applied_once / C05_recorded of the
   scheduler model (section 7.0), not composed here ---- *)
Theorem C18_complete_once_partial : forall j now runid target task status id,
  let e := mkE now runid target task status id in
  Permutation (all_entries (complete j now runid target task status id)) (e :: all_entries j) /\
  lookup (complete j now runid target task status id) (day_of now) runid
  = lookup j (day_of now) runid ++ [e].
Proof.
  intros j now runid target task status id e. split.
  - apply C_all_append_to.
  - unfold complete, append. rewrite C_lookup_append_to. cbn [e_completed e_runid].
    rewrite !Z.eqb_refl. reflexivity.
Qed.
Print Assumptions C18_complete_once_partial.

(* ---- after a history of appends the journal holds exactly the appended
   entries, each in the file of its day ---- *)
Theorem C18_history : forall es,
  wf (fold_left append es []) /\ Permutation (all_entries (fold_left append es [])) es.
Proof. intros es. split; [apply C_wf_history|apply C_all_history]. Qed.
Print Assumptions C18_history.

(* ---- find(after, before): exactly the recorded entries of the requested
   status with after < completed < before, newest first (limit is ignored) ---- *)
Theorem C18_window : forall c j a b limit succ now,
  cal_ok c -> wf j ->
  exists l, Chron.find c j (Some a) (Some b) limit succ now = Ok l /\
            Permutation l (filter (in_window a b (status_code succ)) (all_entries j)) /\
            StronglySorted key_ge l.
Proof.
  intros c j a b limit succ now OK Hw. exists (full j a b (status_code succ)).
  split; [apply C_find_window; exact OK|]. split; [apply C_full_perm|apply C_full_sorted]; exact Hw.
Qed.
Print Assumptions C18_window.

(* the same, for the journal written by any history of appends and the
   calendar instance the model is evaluated with: no hypothesis left *)
Theorem C18_window_history : forall es a b limit succ now,
  exists l, Chron.find greg (fold_left append es []) (Some a) (Some b) limit succ now = Ok l /\
            Permutation l (filter (in_window a b (status_code succ)) es) /\
            StronglySorted key_ge l.
Proof.
  intros es a b limit succ now.
  destruct (C18_window greg (fold_left append es []) a b limit succ now C_greg_ok (C_wf_history es))
    as (l & F & P & S).
  exists l. split; [exact F|]. split; [|exact S].
  eapply Permutation_trans; [exact P|]. apply C_perm_filter. apply C_all_history.
Qed.
Print Assumptions C18_window_history.

(* ---- find(before=b, limit=n) and find(limit=n): the newest n entries of the
   window (1980-01-01, b) resp. (1980-01-01, now); without limit: all of it ---- *)
Theorem C18_newest : forall c j before limit succ now,
  cal_ok c -> wf j -> (before <> None \/ limit <> None) ->
  let b := match before with None => now | Some t => t end in
  exists l, Permutation l (filter (in_window 0 b (status_code succ)) (all_entries j)) /\
            StronglySorted key_ge l /\
            Chron.find c j None before limit succ now
            = Ok (match limit with None => l | Some n => firstn (Z.to_nat n) l end).
Proof.
  intros c j before limit succ now OK Hw Hs b. exists (full j 0 b (status_code succ)).
  split; [apply C_full_perm; exact Hw|]. split; [apply C_full_sorted; exact Hw|].
  apply C_find_upper; assumption.
Qed.
Print Assumptions C18_newest.

(* ---- find(after=a): everything after a, up to now ---- *)
Theorem C18_after : forall c j a succ now,
  cal_ok c -> wf j ->
  exists l, Chron.find c j (Some a) None None succ now = Ok l /\
            Permutation l (filter (in_window a now (status_code succ)) (all_entries j)) /\
            StronglySorted key_ge l.
Proof.
  intros c j a succ now OK Hw. exists (full j a now (status_code succ)).
  split; [apply C_find_lower; exact OK|]. split; [apply C_full_perm|apply C_full_sorted]; exact Hw.
Qed.
Print Assumptions C18_after.

(* ---- the front-end consumer of the history (fe/api: df_model_statistics for
   a node that is neither executing nor pending): of the recorded failed and
   succeeded entries of the node completed strictly between boot_time and now
   it reports the run with the highest id, that run's latest completion and
   whether that run failed (1), succeeded (0) or both (2); nothing recorded:
   the empty answer ---- *)
Theorem C18_stats : forall c j boot now task,
  cal_ok c -> wf j ->
  let F := node_window j boot now task 1 in
  let S := node_window j boot now task 0 in
  (F ++ S = [] -> stats c j boot now task = Some NoStat) /\
  (F ++ S <> [] ->
   exists d r st, stats c j boot now task = Some (Stat d r st) /\
     is_max r (map e_runid (F ++ S)) /\
     is_max d (map e_completed (of_run r (F ++ S))) /\
     (st = 0 <-> of_run r F = []) /\
     (st = 1 <-> of_run r F <> [] /\ of_run r S = []) /\
     (st = 2 <-> of_run r F <> [] /\ of_run r S <> [])).
Proof. exact C_stats. Qed.
Print Assumptions C18_stats.

(* ---- the day walk terminates within its fuel for every argument ---- *)
Theorem C18_walk_terminates : forall c j after before limit succ now,
  cal_ok c -> Chron.find c j after before limit succ now <> OutOfFuel.
Proof. intros. apply C_find_fuel. assumption. Qed.
Print Assumptions C18_walk_terminates.

(* ---- the calendar the model is evaluated with obeys the laws (Gregorian
   1980-01-01 .. 2100-12-31 by an exhaustive vm_compute check of every day,
   trivial outside) ---- *)
Theorem C18_calendar_ok : cal_ok greg.
Proof. exact C_greg_ok. Qed.
Print Assumptions C18_calendar_ok.

(* ---- non-vacuity ---- *)
(* the design-phase witness of the repaired defect: bounds at 10:00 and 09:00,
   entries at 15:00 the day before and 08:00 on the day: both are returned *)
Example C18_window_example :
  wf ex_journal /\
  ids (Chron.find greg ex_journal (Some (tick 2026 1 9 10 0)) (Some (tick 2026 1 10 9 0)) None true 0)
  = [2; 1] /\
  ids (Chron.find greg ex_journal None (Some (tick 2026 1 10 9 0)) (Some 3) true 0) = [2; 1; 3].
Proof. split; [apply C_wf_history|split; vm_compute; reflexivity]. Qed.

(* statistics of the witness journal: task 0 last ran as run 3 and succeeded *)
Example C18_stats_example :
  stats greg ex_journal (tick 2026 1 1 0 0) (tick 2026 2 1 0 0) 0 = Some (Stat (tick 2026 1 9 9 0) 3 0)
  /\ node_window ex_journal (tick 2026 1 1 0 0) (tick 2026 2 1 0 0) 0 0 <> [].
Proof. split; [vm_compute; reflexivity|vm_compute; discriminate]. Qed.

(* a second append to the same (day, run id) file keeps the first entry *)
Example C18_append_example :
  map (fun f => map e_id (f_entries f))
      (append (append [] (mkE (tick 2026 1 9 15 0) 1 0 0 0 1)) (mkE (tick 2026 1 9 16 0) 1 0 0 1 5))
  = [[1; 5]].
Proof. vm_compute. reflexivity. Qed.
