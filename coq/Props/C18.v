(* C18 -- The execution history records every run once; queries return the
   window.  Property theorems only; proofs live in Proofs/ChronProofs.v. *)
From DV Require Import Model.Chron Proofs.ChronProofs Proofs.ChronStats.
From Coq Require Import List ZArith Bool Sorting.Sorted Sorting.Permutation.
Import ListNotations.
Open Scope Z_scope.

(* ---- an append adds exactly one copy of the entry, to its own file, at the
   end; every file keeps its earlier entries in order; no second file for the
   same (day, run id) appears ---- *)
Theorem C18_append_once : forall j e,
  (forall d r, lookup (append j e) d r
               = lookup j d r ++
                 (if (d =? day_of (e_completed e)) && (r =? e_runid e) then [e] else [])) /\
  Permutation (all_entries (append j e)) (e :: all_entries j) /\
  (NoDup (map fkey j) -> NoDup (map fkey (append j e))).
Proof.
  intros j e. split; [|split].
  - intros d r. apply C_lookup_append_to.
  - apply C_all_append_to.
  - apply C_nodup_append_to.
Qed.
Print Assumptions C18_append_once.

(* ---- schedule.complete records the reply exactly once with its data.
   PARTIAL: this is the chronicle step of complete(); that every reply leads
   to exactly one complete() call is C03_applied_once / C05_recorded of the
   scheduler model (section 7.0), not composed here ---- *)
Theorem C18_complete_once_partial : forall j now runid target task status id,
  let e := mkE now runid target task status id in
  Permutation (all_entries (complete j now runid target task status id)) (e :: all_entries j) /\
  lookup (complete j now runid target task status id) (day_of now) runid
  = lookup j (day_of now) runid ++ [e].
Proof.
  intros j now runid target task status id e. split.
  - apply C_all_append_to.
  - unfold complete, append. rewrite C_lookup_append_to. cbn [e_completed e_runid].
    rewrite !Z.eqb_refl. reflexivity.
Qed.
Print Assumptions C18_complete_once_partial.

(* ---- after a history of appends the journal holds exactly the appended
   entries, each in the file of its day ---- *)
Theorem C18_history : forall es,
  wf (fold_left append es []) /\ Permutation (all_entries (fold_left append es [])) es.
Proof. intros es. split; [apply C_wf_history|apply C_all_history]. Qed.
Print Assumptions C18_history.

(* ---- find(after, before): exactly the recorded entries of the requested
   status with after < completed < before, newest first (limit is ignored) ---- *)
Theorem C18_window : forall c j a b limit succ now,
  cal_ok c -> wf j ->
  exists l, Chron.find c j (Some a) (Some b) limit succ now = Ok l /\
            Permutation l (filter (in_window a b (status_code succ)) (all_entries j)) /\
            StronglySorted key_ge l.
Proof.
  intros c j a b limit succ now OK Hw. exists (full j a b (status_code succ)).
  split; [apply C_find_window; exact OK|]. split; [apply C_full_perm|apply C_full_sorted]; exact Hw.
Qed.
Print Assumptions C18_window.

(* the same, for the journal written by any history of appends and the
   calendar instance the model is evaluated with: no hypothesis left *)
Theorem C18_window_history : forall es a b limit succ now,
  exists l, Chron.find greg (fold_left append es []) (Some a) (Some b) limit succ now = Ok l /\
            Permutation l (filter (in_window a b (status_code succ)) es) /\
            StronglySorted key_ge l.
Proof.
  intros es a b limit succ now.
  destruct (C18_window greg (fold_left append es []) a b limit succ now C_greg_ok (C_wf_history es))
    as (l & F & P & S).
  exists l. split; [exact F|]. split; [|exact S].
  eapply Permutation_trans; [exact P|]. apply C_perm_filter. apply C_all_history.
Qed.
Print Assumptions C18_window_history.

(* ---- find(before=b, limit=n) and find(limit=n): the newest n entries of the
   window (1980-01-01, b) resp. (1980-01-01, now); without limit: all of it ---- *)
Theorem C18_newest : forall c j before limit succ now,
  cal_ok c -> wf j -> (before <> None \/ limit <> None) ->
  let b := match before with None => now | Some t => t end in
  exists l, Permutation l (filter (in_window 0 b (status_code succ)) (all_entries j)) /\
            StronglySorted key_ge l /\
            Chron.find c j None before limit succ now
            = Ok (match limit with None => l | Some n => firstn (Z.to_nat n) l end).
Proof.
  intros c j before limit succ now OK Hw Hs b. exists (full j 0 b (status_code succ)).
  split; [apply C_full_perm; exact Hw|]. split; [apply C_full_sorted; exact Hw|].
  apply C_find_upper; assumption.
Qed.
Print Assumptions C18_newest.

(* ---- find(after=a): everything after a, up to now ---- *)
Theorem C18_after : forall c j a succ now,
  cal_ok c -> wf j ->
  exists l, Chron.find c j (Some a) None None succ now = Ok l /\
            Permutation l (filter (in_window a now (status_code succ)) (all_entries j)) /\
            StronglySorted key_ge l.
Proof.
  intros c j a succ now OK Hw. exists (full j a now (status_code succ)).
  split; [apply C_find_lower; exact OK|]. split; [apply C_full_perm|apply C_full_sorted]; exact Hw.
Qed.
Print Assumptions C18_after.

(* ---- the front-end consumer of the history (fe/api: df_model_statistics for
   a node that is neither executing nor pending): of the recorded failed and
   succeeded entries of the node completed strictly between boot_time and now
   it reports the run with the highest id, that run's latest completion and
   whether that run failed (1), succeeded (0) or both (2); nothing recorded:
   the empty answer ---- *)
Theorem C18_stats : forall c j boot now task,
  cal_ok c -> wf j ->
  let F := node_window j boot now task 1 in
  let S := node_window j boot now task 0 in
  (F ++ S = [] -> stats c j boot now task = Some NoStat) /\
  (F ++ S <> [] ->
   exists d r st, stats c j boot now task = Some (Stat d r st) /\
     is_max r (map e_runid (F ++ S)) /\
     is_max d (map e_completed (of_run r (F ++ S))) /\
     (st = 0 <-> of_run r F = []) /\
     (st = 1 <-> of_run r F <> [] /\ of_run r S = []) /\
     (st = 2 <-> of_run r F <> [] /\ of_run r S <> [])).
Proof. exact C_stats. Qed.
Print Assumptions C18_stats.

(* ---- the day walk terminates within its fuel for every argument ---- *)
Theorem C18_walk_terminates : forall c j after before limit succ now,
  cal_ok c -> Chron.find c j after before limit succ now <> OutOfFuel.
Proof. intros. apply C_find_fuel. assumption. Qed.
Print Assumptions C18_walk_terminates.

(* ---- the calendar the model is evaluated with obeys the laws (Gregorian
   1980-01-01 .. 2100-12-31 by an exhaustive vm_compute check of every day,
   trivial outside) ---- *)
Theorem C18_calendar_ok : cal_ok greg.
Proof. exact C_greg_ok. Qed.
Print Assumptions C18_calendar_ok.

(* ---- non-vacuity ---- *)
(* the design-phase witness of the repaired defect: bounds at 10:00 and 09:00,
   entries at 15:00 the day before and 08:00 on the day: both are returned *)
Example C18_window_example :
  wf ex_journal /\
  ids (Chron.find greg ex_journal (Some (tick 2026 1 9 10 0)) (Some (tick 2026 1 10 9 0)) None true 0)
  = [2; 1] /\
  ids (Chron.find greg ex_journal None (Some (tick 2026 1 10 9 0)) (Some 3) true 0) = [2; 1; 3].
Proof. split; [apply C_wf_history|split; vm_compute; reflexivity]. Qed.

(* statistics of the witness journal: task 0 last ran as run 3 and succeeded *)
Example C18_stats_example :
  stats greg ex_journal (tick 2026 1 1 0 0) (tick 2026 2 1 0 0) 0 = Some (Stat (tick 2026 1 9 9 0) 3 0)
  /\ node_window ex_journal (tick 2026 1 1 0 0) (tick 2026 2 1 0 0) 0 0 <> [].
Proof. split; [vm_compute; reflexivity|vm_compute; discriminate]. Qed.

(* a second append to the same (day, run id) file keeps the first entry *)
Example C18_append_example :
  map (fun f => map e_id (f_entries f))
      (append (append [] (mkE (tick 2026 1 9 15 0) 1 0 0 0 1)) (mkE (tick 2026 1 9 16 0) 1 0 0 1 5))
  = [[1; 5]].
Proof. vm_compute. reflexivity. Qed.

(* ====================================================================== *)
(* Composition with the scheduler (C03 / C05): Model/SchedChron.v runs a    *)
(* scheduler history -- Sched.step events, each with the reading of the     *)
(* wall clock -- and feeds every history-entry output of the scheduler      *)
(* (Hand._res -> schedule.complete -> chronicle.append) to Chron.complete.  *)
(* tc / kc: any coding of target / algorithm names; entry id = event index. *)
(* ====================================================================== *)
From DV Require Import Model.Sched Model.SchedChron Proofs.SchedLib Proofs.SchedBatch Proofs.SchedC03
     Proofs.SchedExact Proofs.SchedChronProofs.
Local Open Scope nat_scope.

(* ---- along EVERY scheduler history from boot the journal is, as a sequence,
   the journal of the replies the scheduler applied (a reply is applied iff its
   job is still queued when it arrives: `applied`), appended in completion
   order, each with the run id, target, task and status of its reply and the
   clock reading of its event:
   (1) the scheduler component is the plain scheduler run;
   (2) sequence equality; (3) file by file, in completion order; (4) as a
   multiset; (5) no entry is duplicated (ids are event indices);
   (6) event by event: a reply that finds its job writes exactly one entry --
       the only one with its id; EXCEPTION CLAUSE: a reply that does not find
       its job (output ODropped: IndexError in schedule.find, the open known
       finding C03 reply-dropped) leaves no entry, and these replies and the
       non-reply events are exactly the events without entry; a reply whose
       unit the scheduler still counts as doing always finds its job ---- *)
Theorem C18_every_run_recorded_once : forall tc kc c (tes : list tev),
  let sj := sc_boot tc kc c tes in
  let j := snd sj in
  let A := applied tc kc c (init c) 0%Z tes in
  fst sj = fst (run c (init c) (map snd tes)) /\
  j = fold_left append A [] /\
  (wf j /\ forall d r, lookup j d r = filter (in_file d r) A) /\
  Permutation (all_entries j) A /\
  NoDup (map e_id (all_entries j)) /\
  forall (pre : list tev) now e (post : list tev), tes = pre ++ (now, e) :: post ->
    let s := fst (run c (init c) (map snd pre)) in
    let i := Z.of_nat (length pre) in
    match e with
    | Rep w x t r o vs =>
        (mem x (que s) = true ->
           snd (step c s e) = [OChron x t r o] /\
           In (entry_of tc kc now i x t r o) (all_entries j) /\
           forall e', In e' (all_entries j) -> e_id e' = i -> e' = entry_of tc kc now i x t r o) /\
        (mem x (que s) = false ->
           snd (step c s e) = [ODropped x] /\ ~ In i (map e_id (all_entries j))) /\
        (In t (doing (getn (ns s) x)) -> mem x (que s) = true)
    | _ => ~ In i (map e_id (all_entries j))
    end.
Proof.
  intros tc kc c tes sj j A.
  assert (E : sj = (fst (run c (init c) (map snd tes)), fold_left append A [])) by apply SC_run_spec.
  assert (Ej : j = fold_left append A []) by (unfold j; rewrite E; reflexivity).
  assert (P : Permutation (all_entries j) A) by (rewrite Ej; apply C_all_history).
  assert (N : NoDup (map e_id (all_entries j))).
  { apply (Permutation_NoDup (Permutation_map e_id (Permutation_sym P))). apply SC_applied_nodup. }
  split; [rewrite E; reflexivity|]. split; [exact Ej|].
  split; [split; [rewrite Ej; apply C_wf_history|intros d r; rewrite Ej, SC_lookup_history; reflexivity]|].
  split; [exact P|]. split; [exact N|].
  intros pre now e post Et s i.
  destruct (SC_applied_at tc kc c pre now e post) as [Hin Hout]. fold s i in Hin, Hout. rewrite <- Et in Hin, Hout.
  fold A in Hin, Hout.
  assert (Out : applies s e = false -> ~ In i (map e_id (all_entries j))).
  { intros Ha Hi. apply (Hout Ha). apply (Permutation_in i (Permutation_map e_id P)). exact Hi. }
  destruct e; try (apply Out; reflexivity).
  cbn [applies reply_entry] in Hin, Out. split; [|split].
  - intros Hq. split; [rewrite SC_step_rep_outs; apply (reply_applied c x t r o values s Hq)|].
    assert (I1 : In (entry_of tc kc now i x t r o) (all_entries j)).
    { apply (Permutation_in _ (Permutation_sym P)). apply (Hin Hq). left. reflexivity. }
    split; [exact I1|]. intros e' He' Hid.
    apply (SC_nodup_map_inj e_id (all_entries j)); [exact N|exact He'|exact I1|exact Hid].
  - intros Hq. split; [rewrite SC_step_rep_outs; apply (reply_dropped c x t r o values s Hq)|apply Out; exact Hq].
  - intros Hd. apply (doing_reply_found c s x t); [|exact Hd]. apply run_Inv. apply init_Inv.
Qed.
Print Assumptions C18_every_run_recorded_once.

(* ---- in CLEAN histories (Proofs/SchedExact.v: every reply is for a unit some
   worker holds, no failed run of X arrives while a strict dependent of X
   executes the same target -- the overlap of the open known finding --, a
   rebuild happens with nothing executing) no reply is dropped: the journal is
   the journal of ALL replies of the history ---- *)
Theorem C18_every_reply_recorded_clean : forall tc kc c (tes : list tev),
  clean_run c (init c) (map snd tes) ->
  dropped c (init c) 0%Z tes = [] /\
  snd (sc_boot tc kc c tes) = fold_left append (replies tc kc 0%Z tes) [] /\
  Permutation (all_entries (snd (sc_boot tc kc c tes))) (replies tc kc 0%Z tes).
Proof.
  intros tc kc c tes Cr. destruct (init_exact c) as (Ex & Sg & Nq).
  destruct (SC_clean_applied tc kc c tes (init c) 0%Z (init_Inv c) Ex Sg Nq Cr) as [EA ED].
  destruct (C18_every_run_recorded_once tc kc c tes) as (_ & Ej & _ & P & _).
  rewrite EA in Ej, P. repeat split; assumption.
Qed.
Print Assumptions C18_every_reply_recorded_clean.

(* ---- REFUTED without the exception clause (the C18 face of the open known
   finding C03 reply-dropped, witness of C03_single_flight_refuted with a clock):
   worker 3 holds the unit (a1, T) and answers it (event 11); the job left the
   queue on the reply of worker 1 (event 10, the duplicate flight after purge):
   the completed run of worker 3 has no journal entry ---- *)
Theorem C18_dropped_reply_unrecorded :
  exists c (pre : list tev) now w x t r o vs,
    let tes := pre ++ [(now, Rep w x t r o vs)] in
    let s := fst (run c (init c) (map snd pre)) in
    (exists m, In (w, m) (inflight s) /\ msg_unit m = (x, t)) /\     (* the worker really ran the unit *)
    snd (step c s (Rep w x t r o vs)) = [ODropped x] /\
    ~ In (Z.of_nat (length pre)) (map e_id (all_entries (snd (sc_boot zc zc c tes)))) /\
    map e_id (all_entries (snd (sc_boot zc zc c tes))) = [7; 10]%Z.
Proof.
  exists sc_chain, (firstn 11 sc_witness), (nth 11 (map fst sc_witness) 0%Z), 3, 1, 1, 1%Z, Success, [(1, 1, true)].
  cbn zeta. split; [|split; [|split]].
  - exists {| m_job := 1; m_tgt := 1; m_rid := 1%Z; m_fac := Task |}. vm_compute. auto.
  - vm_compute. reflexivity.
  - vm_compute. intros [H|[H|[]]]; discriminate.
  - vm_compute. reflexivity.
Qed.
Print Assumptions C18_dropped_reply_unrecorded.

(* ---- find over the journal the scheduler wrote, for every history, window,
   limit, outcome and clock: exactly the applied replies of the requested
   outcome completed strictly inside the window, newest first; before / limit
   only: the newest `limit` of them (C18_window / C18_newest / C18_after
   composed with C18_every_run_recorded_once; no hypothesis left) ---- *)
Theorem C18_find_returns_applied : forall tc kc c (tes : list tev) succ now,
  let j := snd (sc_boot tc kc c tes) in
  let A := applied tc kc c (init c) 0%Z tes in
  (forall a b limit, exists l,
     Chron.find greg j (Some a) (Some b) limit succ now = Ok l /\
     Permutation l (filter (in_window a b (status_code succ)) A) /\ StronglySorted key_ge l) /\
  (forall before limit, before <> None \/ limit <> None ->
     let b := match before with None => now | Some t => t end in
     exists l, Permutation l (filter (in_window 0 b (status_code succ)) A) /\ StronglySorted key_ge l /\
       Chron.find greg j None before limit succ now
       = Ok (match limit with None => l | Some n => firstn (Z.to_nat n) l end)) /\
  (forall a, exists l,
     Chron.find greg j (Some a) None None succ now = Ok l /\
     Permutation l (filter (in_window a now (status_code succ)) A) /\ StronglySorted key_ge l).
Proof.
  intros tc kc c tes succ now j A.
  destruct (C18_every_run_recorded_once tc kc c tes) as (_ & _ & [W _] & P & _). fold j A in W, P.
  split; [|split].
  - intros a b limit. destruct (C18_window greg j a b limit succ now C_greg_ok W) as (l & F & Pl & S).
    exists l. split; [exact F|]. split; [|exact S].
    eapply Permutation_trans; [exact Pl|apply C_perm_filter; exact P].
  - intros before limit Hs b. destruct (C18_newest greg j before limit succ now C_greg_ok W Hs) as (l & Pl & S & F).
    exists l. split; [|split; [exact S|exact F]].
    eapply Permutation_trans; [exact Pl|apply C_perm_filter; exact P].
  - intros a. destruct (C18_after greg j a succ now C_greg_ok W) as (l & F & Pl & S).
    exists l. split; [exact F|]. split; [|exact S].
    eapply Permutation_trans; [exact Pl|apply C_perm_filter; exact P].
Qed.
Print Assumptions C18_find_returns_applied.

(* ---- with a strictly increasing clock (no two events read the same time) the
   answer is determined as a list: the applied replies of the window in
   REVERSE completion order; with a limit the first `limit` of that list ---- *)
Theorem C18_find_returns_applied_in_order : forall tc kc c (tes : list tev) succ now,
  StronglySorted Z.lt (map fst tes) ->
  let j := snd (sc_boot tc kc c tes) in
  let A := applied tc kc c (init c) 0%Z tes in
  let W a b := rev (filter (in_window a b (status_code succ)) A) in
  (forall a b limit, Chron.find greg j (Some a) (Some b) limit succ now = Ok (W a b)) /\
  (forall before limit, before <> None \/ limit <> None ->
     let b := match before with None => now | Some t => t end in
     Chron.find greg j None before limit succ now
     = Ok (match limit with None => W 0%Z b | Some n => firstn (Z.to_nat n) (W 0%Z b) end)) /\
  (forall a, Chron.find greg j (Some a) None None succ now = Ok (W a now)).
Proof.
  intros tc kc c tes succ now Hc j A W.
  pose proof (SC_applied_sorted tc kc c tes (init c) 0%Z Hc) as SA. fold A in SA.
  destruct (C18_find_returns_applied tc kc c tes succ now) as (F1 & F2 & F3). fold j A in F1, F2, F3.
  split; [|split].
  - intros a b limit. destruct (F1 a b limit) as (l & F & P & S).
    rewrite F. f_equal. apply (SC_newest_first_rev A l _ SA P S).
  - intros before limit Hs b. destruct (F2 before limit Hs) as (l & P & S & F).
    rewrite F. rewrite (SC_newest_first_rev A l _ SA P S). reflexivity.
  - intros a. destruct (F3 a) as (l & F & P & S).
    rewrite F. f_equal. apply (SC_newest_first_rev A l _ SA P S).
Qed.
Print Assumptions C18_find_returns_applied_in_order.

(* ---- non-vacuity ---- *)
(* the composed theorems speak about histories in which entries are written,
   on two days, and a reply is dropped: the witness history (12 events, clock
   crossing midnight): entries of events 7 (failure) and 10 (success), reply 11
   dropped; the window query over both days returns the success entry, the
   failure query the failed run; the clock of a clean prefix is increasing *)
Example C18_composition_example :
  let j := snd (sc_boot zc zc sc_chain sc_witness) in
  jfiles j = [ (day_of (tick 2026 1 9 0 0), 1, [7]); (day_of (tick 2026 1 10 0 0), 1, [10]) ]%Z /\
  map e_id (applied zc zc sc_chain (init sc_chain) 0%Z sc_witness) = [7; 10]%Z /\
  dropped sc_chain (init sc_chain) 0%Z sc_witness = [11]%Z /\
  ids (Chron.find greg j (Some (tick 2026 1 9 0 0)) (Some (tick 2026 1 11 0 0)) None true 0%Z) = [10]%Z /\
  ids (Chron.find greg j None None (Some 5%Z) false (tick 2026 1 11 0 0)) = [7]%Z.
Proof. vm_compute. repeat split; reflexivity. Qed.

(* a clean history with a strictly increasing clock and two replies: both recorded *)
Definition sc_clean_ex : list tev :=
  [ (10%Z, Reg 1 0 true); (15%Z, Reg 2 0 true); (20%Z, Org [0; 1] None [1]); (30%Z, Tick);
    (tick 2026 1 9 23 59, Rep 1 0 1 1%Z Success [(1, 0, true)]); (tick 2026 1 10 0 1, Tick);
    (tick 2026 1 10 0 2, Rep 2 1 1 1%Z Failure []) ].
Example C18_clean_example :
  clean_run sc_chain (init sc_chain) (map snd sc_clean_ex) /\
  StronglySorted Z.lt (map fst sc_clean_ex) /\
  map e_id (replies zc zc 0%Z sc_clean_ex) = [4; 6]%Z /\
  ids (Chron.find greg (snd (sc_boot zc zc sc_chain sc_clean_ex)) (Some 0%Z) (Some (tick 2026 1 11 0 0)) None false 0%Z)
  = [6]%Z.
Proof.
  split; [|split; [|split]].
  - cbn [clean_run map snd sc_clean_ex]. repeat (split; [exact I|]).
    split; [|split; [exact I|split; [|exact I]]].
    + unfold clean. split; [|split].
      * exists {| m_job := 0; m_tgt := 1; m_rid := 1%Z; m_fac := Task |}. vm_compute. auto.
      * intros H. exfalso. apply H. reflexivity.
      * intros E. discriminate.
    + unfold clean. split; [|split].
      * exists {| m_job := 1; m_tgt := 1; m_rid := 1%Z; m_fac := Task |}. vm_compute. auto.
      * intros _ y Ny _. vm_compute. intros [H|[]]. inversion H. congruence.
      * intros E. discriminate.
  - vm_compute. repeat constructor.
  - vm_compute. reflexivity.
  - vm_compute. reflexivity.
Qed.
