(* C18 stub *)
From DV Require Import Model.Chron.
Theorem C18_stub : True. Proof. exact I. Qed.
Print Assumptions C18_stub.
