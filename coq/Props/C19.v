(* C19 -- The front end never serves files outside its roots nor commands to
   strangers.  Property theorems only; proofs live in Proofs/. *)
From Coq Require Import List String Bool.
From DV Require Import Model.Static Proofs.StaticProofs.
From DV Require Import Gen.AccessTable Model.Access Proofs.AccessProofs.
Import ListNotations.
Local Open Scope string_scope.
Local Open Scope list_scope.

(* ---- static file service (fe._static), for ALL operating-system oracles,
   all request strings, all root directories ---- *)

(* whatever is served is the very path that was checked: it is a result of
   Path.resolve, lies (part by part) under one of the two resolved roots and
   is a regular file.  No assumption on resolve / is_dir / is_file. *)
Theorem C19_contained :
  forall (resolve : path -> option path) (is_dir is_file : path -> option bool)
         (fn : list nat) (fe_path bdir p : path),
    static resolve is_dir is_file fn fe_path bdir = Served p ->
    exists d, (resolve fe_path = Some d \/ resolve bdir = Some d) /\
              under d p = true /\ is_file p = Some true /\
              exists q, resolve q = Some p.
Proof. exact st_contained. Qed.
Print Assumptions C19_contained.

(* under is the prefix relation, so "under d p" is literally p = d ++ r *)
Theorem C19_under_is_prefix :
  forall d p, under d p = true <-> exists r, p = d ++ r.
Proof. exact st_under_prefix. Qed.
Print Assumptions C19_under_is_prefix.

(* the service is not vacuously safe: a regular file that resolves inside the
   first root is served; one inside the second root is served when the first
   root has no file of that name *)
Theorem C19_serves_inside :
  forall (resolve : path -> option path) (is_dir is_file : path -> option bool)
         (fn : list nat) (fe_path bdir d1 d2 p : path),
    resolve fe_path = Some d1 -> resolve bdir = Some d2 ->
    resolve (join d1 (lstrip_slash fn)) = Some p -> under d1 p = true ->
    is_dir p = Some false -> is_file p = Some true ->
    static resolve is_dir is_file fn fe_path bdir = Served p.
Proof. exact st_serves_first. Qed.
Print Assumptions C19_serves_inside.

Theorem C19_serves_second_root :
  forall (resolve : path -> option path) (is_dir is_file : path -> option bool)
         (fn : list nat) (fe_path bdir d1 d2 p1 p : path),
    resolve fe_path = Some d1 -> resolve bdir = Some d2 ->
    resolve (join d1 (lstrip_slash fn)) = Some p1 ->
    is_dir p1 = Some false -> is_file p1 = Some false ->
    resolve (join d2 (lstrip_slash fn)) = Some p -> under d2 p = true ->
    is_dir p = Some false -> is_file p = Some true ->
    static resolve is_dir is_file fn fe_path bdir = Served p.
Proof. exact st_serves_second. Qed.
Print Assumptions C19_serves_second_root.

(* non-vacuity of C19_contained / C19_serves_inside: a world where a file is
   served and a traversal to an existing outside file is refused *)
Example C19_static_example :
  static StaticExamples.res StaticExamples.isd StaticExamples.isf
         [47; 97] StaticExamples.R1 StaticExamples.R2
    = Served (StaticExamples.R1 ++ [StaticExamples.A]) /\
  static StaticExamples.res StaticExamples.isd StaticExamples.isf
         [47; 46; 46; 47; 115] StaticExamples.R1 StaticExamples.R2
    = NotFound [Jail; Jail] /\
  StaticExamples.isf StaticExamples.SECRET = Some true.
Proof. vm_compute. repeat split. Qed.

(* ---- access control (security.is_sanctioned generated from the source,
   sanctioned, DynamicContent.__render, twisted verb dispatch) ---- *)

(* client certificates configured, caller without certificate (or transport
   without getPeerCertificate): whatever uri/methods an endpoint is registered
   with and whatever the HTTP verb, the handler runs only for an endpoint of
   the generated allow-list *)
Theorem C19_anonymous :
  forall (A : Type) (has_gpc : bool) (tc : option A) (uri : string)
         (ms : list method) (v : verb),
    peer_cert has_gpc tc = None ->
    serve (default_hook true) has_gpc tc uri ms v = Invoked ->
    In uri all_access.
Proof. exact ac_anonymous. Qed.
Print Assumptions C19_anonymous.

(* the allow-list only names read-only endpoints: every registration whose
   uri is on it answers GET only, is not one of the command handlers
   (cmd_run/cmd_reset/cmd_snapshot/REV_SUBMIT/schedule_run/schedule_reset/
   start_submit/snapshot) and its body reaches no pipeline-changing call
   (generated effect markers); every command registration is off the list;
   no uri is registered twice; every allow-list entry and every command
   handler is actually registered (the table is not stale) *)
Theorem C19_allowlist_readonly :
  (forall r, In r registered -> In (r_uri r) all_access -> read_only r = true) /\
  (forall r, In r registered -> is_command r = true -> ~ In (r_uri r) all_access) /\
  nodup_str (map r_uri registered) = true /\
  (forall u, In u all_access -> In u (map r_uri registered)) /\
  (forall h, In h command_handlers -> In h (map r_handler registered)).
Proof.
  split; [exact ac_allowlist_readonly|]. split; [exact ac_commands_restricted|].
  split; [exact ac_uris_unique_b|]. split.
  - intros u I. apply ac_mem_str_In.
    pose proof ac_allowlist_registered_b as H. unfold allowlist_registered_b in H.
    rewrite forallb_forall in H. exact (H u I).
  - intros h I. apply ac_mem_str_In.
    pose proof ac_commands_present_b as H. unfold commands_present_b in H.
    rewrite forallb_forall in H. exact (H h I).
Qed.
Print Assumptions C19_allowlist_readonly.

(* end to end over the registered endpoints: an anonymous caller can only make
   a read-only, non-command handler run, and only with GET (or HEAD) *)
Theorem C19_anonymous_registered :
  forall (A : Type) (has_gpc : bool) (tc : option A) (r : reg) (v : verb),
    In r registered -> peer_cert has_gpc tc = None ->
    request (default_hook true) has_gpc tc r v = Invoked ->
    read_only r = true /\ is_command r = false /\ (v = V_GET \/ v = V_HEAD).
Proof. exact ac_anonymous_registered. Qed.
Print Assumptions C19_anonymous_registered.

(* an error while looking the hook up, or inside the hook, denies; a denied
   request never invokes the handler *)
Theorem C19_fail_closed :
  forall (A : Type) (h : hook A) (has_gpc : bool) (tc : option A) (uri : string)
         (ms : list method) (v : verb),
    ((h = None \/ exists f, h = Some f /\ f uri (peer_cert has_gpc tc) = None) ->
     serve h has_gpc tc uri ms v <> Invoked) /\
    (sanctioned h uri (peer_cert has_gpc tc) = false ->
     serve h has_gpc tc uri ms v <> Invoked).
Proof.
  intros A h has tc uri ms v. split.
  - intro H. destruct (ac_fail_closed A h has tc uri ms v H) as [E|E]; rewrite E; discriminate.
  - intros S K. apply ac_serve_invoked in K. destruct K as [m [_ K]].
    apply ac_invoked_sanctioned in K. destruct K as [K _]. rewrite S in K. discriminate.
Qed.
Print Assumptions C19_fail_closed.

(* non-vacuity: the hypotheses are satisfiable and the conclusions are not
   forced by a model that denies everything *)
Example C19_access_example :
  serve (A:=nat) (default_hook true) true None "/api/ae/name" [] V_GET = Invoked /\
  serve (A:=nat) (default_hook true) false (Some 3) "/api/cmd/run" [M_POST] V_POST = Denied /\
  serve (default_hook true) true (Some 3) "/api/cmd/run" [M_POST] V_POST = Invoked /\
  serve (A:=nat) (Some (fun _ _ => None)) true (Some 3) "/api/ae/name" [] V_GET = Denied /\
  existsb (fun r => public r) registered = true /\
  existsb (fun r => is_command r) registered = true.
Proof. vm_compute. repeat split. Qed.

(* ---- the tie to the source by translation (session 3, second wave): the
   access decision regenerated from dawgie/security.py and dawgie/fe/basis.py
   on every run (Gen/SecurityGen.v, tools/translate/security2coq.py) IS the
   model the theorems above are about, for all arguments ---- *)
From DV Require Gen.SecurityGen Proofs.SecurityGenEq.

(* security.is_sanctioned, translated a second time by an independent
   translator, is the decision function of Gen/AccessTable.v *)
Theorem C19_is_sanctioned_is_source : forall (A : Type) clients e (c : option A),
  SecurityGen.is_sanctioned clients e c = is_sanctioned clients e c.
Proof. exact SecurityGenEq.is_sanctioned_gen_eq. Qed.
Print Assumptions C19_is_sanctioned_is_source.

(* security.sanctioned: try / bare except / False *)
Theorem C19_sanctioned_is_source : forall (A : Type) (h : hook A) e c,
  SecurityGen.sanctioned h e c = sanctioned h e c.
Proof. exact SecurityGenEq.sanctioned_gen_eq. Qed.
Print Assumptions C19_sanctioned_is_source.

(* DynamicContent.__init__ (methods default) and DynamicContent.__render
   (certificate extraction, check BEFORE the handler, method test) *)
Theorem C19_render_is_source : forall (A : Type) (h : hook A) has_gpc tc uri ms m,
  SecurityGen.init_methods ms = eff_methods ms /\
  SecurityGenEq.to_outcome
    (SecurityGen.render h has_gpc tc uri (SecurityGen.init_methods ms) m)
  = render h has_gpc tc uri ms m.
Proof.
  intros. split; [apply SecurityGenEq.init_methods_gen_eq|apply SecurityGenEq.render_gen_eq].
Qed.
Print Assumptions C19_render_is_source.

(* on the generated function itself: the handler is reached only after the
   generated check answered yes for the certificate the transport gave *)
Theorem C19_render_checked_is_source : forall (A : Type) (h : SecurityGen.hook A) has_gpc tc uri ms m,
  SecurityGen.render h has_gpc tc uri ms m = SecurityGen.R_handler ->
  SecurityGen.sanctioned h uri (if has_gpc then tc else None) = true.
Proof. exact SecurityGenEq.render_gen_checked. Qed.
Print Assumptions C19_render_checked_is_source.

(* render_GET / render_POST / render_PUT / render_DELETE hand __render the
   method Access.dispatch gives the verb; DAWGIE defines no other render_* *)
Theorem C19_dispatch_is_source : forall v name,
  SecurityGenEq.verb_name v = Some name ->
  SecurityGenEq.assoc name SecurityGen.verb_table = dispatch v.
Proof. exact SecurityGenEq.verb_table_gen_eq. Qed.
Print Assumptions C19_dispatch_is_source.

Example C19_source_example :
  SecurityGen.render (A:=nat) (default_hook true) true None "/api/cmd/run"
    (SecurityGen.init_methods [M_POST]) M_POST = SecurityGen.R_denied /\
  SecurityGen.render (default_hook true) true (Some 3) "/api/cmd/run"
    (SecurityGen.init_methods [M_POST]) M_POST = SecurityGen.R_handler /\
  SecurityGen.render (A:=nat) (default_hook true) true None "/api/ae/name"
    (SecurityGen.init_methods []) M_GET = SecurityGen.R_handler /\
  SecurityGenEq.verb_name V_PUT = Some "PUT" /\
  SecurityGen.identity (A:=nat) None (Some 1) = "".
Proof. vm_compute. repeat split. Qed.

(* ---- fe._static by translation: the loop with its continue / break /
   raising OS calls and the `if found` exit, regenerated from the source on
   every run (Gen/StaticGen.v, tools/translate/static2coq.py), is the model
   above for ALL oracles, request strings and roots; containment therefore
   holds of the generated function itself ---- *)
From DV Require Gen.StaticGen Proofs.StaticGenEq.

Theorem C19_static_is_source :
  forall (resolve : path -> option path) (is_dir is_file : path -> option bool)
         (fn : list nat) (fe_path bdir : path),
    StaticGen.static resolve is_dir is_file fn fe_path bdir
    = static resolve is_dir is_file fn fe_path bdir.
Proof. exact StaticGenEq.static_gen_eq. Qed.
Print Assumptions C19_static_is_source.

Theorem C19_contained_is_source :
  forall (resolve : path -> option path) (is_dir is_file : path -> option bool)
         (fn : list nat) (fe_path bdir p : path),
    StaticGen.static resolve is_dir is_file fn fe_path bdir = Served p ->
    exists d, (resolve fe_path = Some d \/ resolve bdir = Some d) /\
              under d p = true /\ is_file p = Some true /\
              exists q, resolve q = Some p.
Proof.
  intros resolve is_dir is_file fn fe_path bdir p H.
  rewrite StaticGenEq.static_gen_eq in H. exact (C19_contained _ _ _ _ _ _ _ H).
Qed.
Print Assumptions C19_contained_is_source.

Example C19_static_source_example :
  StaticGen.static StaticExamples.res StaticExamples.isd StaticExamples.isf [47; 97]
    StaticExamples.R1 StaticExamples.R2 = Served (StaticExamples.R1 ++ [StaticExamples.A]) /\
  StaticGen.static StaticExamples.res StaticExamples.isd StaticExamples.isf [47; 46; 46; 47; 115]
    StaticExamples.R1 StaticExamples.R2 = NotFound [Jail; Jail].
Proof. vm_compute. split; reflexivity. Qed.
