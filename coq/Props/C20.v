(* C20 -- Timer events are computable, land on their moment, keep recurring.
   Property theorems only; proofs live in Proofs/DelayProofs.v.

   Domain of the theorems: every clock instant whose date is valid and whose
   year is <= 9998 (at the very end of year 9999 python's datetime overflows),
   every specification that dawgie.schedule / compliant.rule_10 accept with
   dow in 0..6, dom in 1..31, a valid date, or boot. *)
From Coq Require Import ZArith List Bool Lia.
From DV Require Import Model.Delay Proofs.DelayProofs Proofs.DelayTimerProofs.
Import ListNotations.
Local Open Scope Z_scope.

(* ---- day of week: computable, lands on the weekday and time asked for, within
   (-1 day, 7 days], and no matching moment between now and the designated one
   is skipped (the sharp form of "no further than one period ahead") ---- *)
Theorem C20_dow : forall (id : nat) dow t now booted,
  valid_clockb now = true -> n_y now <= 9998 -> 0 <= dow <= 6 -> valid_timeb t = true ->
  exists dd, 0 <= dd <= 6 /\
    let o := ord (n_y now) (n_m now) (n_d now) + dd in
    let then_ := mkI o (sod_of t) 0 in
    let delta := inst_us then_ - inst_us (now_inst now) in
    delay booted (id, dow_moment dow t) now = (Ok then_ delta, booted) /\
    weekday o = dow /\
    - DAYUS < delta <= 7 * DAYUS /\
    (forall o', weekday o' = dow ->
       ~ (inst_us (now_inst now) <= inst_us (mkI o' (sod_of t) 0) < inst_us then_)).
Proof. exact dl_dow. Qed.
Print Assumptions C20_dow.

Example C20_dow_example :
  valid_clockb DelayExamples.mon = true /\ valid_timeb (1, 0, 0) = true /\
  fst (delay [] (1%nat, dow_moment 0 (1, 0, 0)) DelayExamples.mon)
  = Ok (mkI 739677 3600 0) (120 * US).
Proof. vm_compute. repeat split. Qed.

(* ---- boot: the first evaluation is due at once, every later evaluation in
   the same process is not knowable (whatever else was evaluated meanwhile:
   booted only grows) ---- *)
Theorem C20_boot : forall e now booted, m_boot (snd e) <> None ->
  (is_booted e booted = false ->
   delay booted e now = (Ok (now_inst now) 0, booted ++ [e])) /\
  (is_booted e booted = true -> delay booted e now = (NotKnowable, booted)) /\
  is_booted e (snd (delay booted e now)) = true /\
  (forall b' now', is_booted e b' = true -> delay b' e now' = (NotKnowable, b')) /\
  (forall e' now', is_booted e booted = true ->
     is_booted e (snd (delay booted e' now')) = true).
Proof.
  intros e now booted H. destruct (dl_boot e now booted H) as [A [B [C D]]].
  repeat split; try assumption. intros e' now' X. apply dl_is_booted_grows. exact X.
Qed.
Print Assumptions C20_boot.

Example C20_boot_example :
  let e := (1%nat, boot_moment true) in
  let r1 := delay [] e DelayExamples.mon in
  fst r1 = Ok (now_inst DelayExamples.mon) 0 /\
  fst (delay (snd r1) e DelayExamples.mon) = NotKnowable.
Proof. vm_compute. split; reflexivity. Qed.

(* ---- date: designates exactly the given date and time ---- *)
Theorem C20_day : forall (id : nat) y m d t now booted,
  valid_dateb y m d = true -> valid_timeb t = true ->
  let then_ := mkI (ord y m d) (sod_of t) 0 in
  delay booted (id, day_moment (y, m, d) t) now
  = (Ok then_ (inst_us then_ - inst_us (now_inst now)), booted).
Proof. exact dl_day. Qed.
Print Assumptions C20_day.

Example C20_day_example : valid_dateb 2024 2 29 = true /\ valid_dateb 2023 2 29 = false.
Proof. vm_compute. split; reflexivity. Qed.

(* ---- day of month ----
   The full statement (for dom in 1..31: computable, designates a valid date
   with that day of month and the given time, and no matching moment between
   now and the designated one is skipped) is FALSE for the code as it is. *)
Definition dom_spec_holds (now : clock) (dom : Z) (t : Z * Z * Z) : Prop :=
  exists th delta,
    fst (delay [] (1%nat, dom_moment dom t) now) = Ok th delta /\
    (exists y m, valid_dateb y m dom = true /\ th = mkI (ord y m dom) (sod_of t) 0) /\
    (forall y m, valid_dateb y m dom = true ->
       ~ (inst_us (now_inst now) <= inst_us (mkI (ord y m dom) (sod_of t) 0) < inst_us th)).

(* witness 1 (finding dom-next-month-overflow): dom = 31 on 31 March 2026 ->
   datetime(2026, 4, 31) raises ValueError.
   witness 2 (finding dom-skips-current-month): dom = 20 on 15 March 2026
   01:00 -> 20 April, although 20 March 01:00 is still ahead. *)
Theorem C20_dom_refuted :
  (exists now dom t,
      valid_clockb now = true /\ n_y now <= 9998 /\ 1 <= dom <= 31 /\ valid_timeb t = true /\
      fst (delay [] (1%nat, dom_moment dom t) now) = Err ValueError /\
      ~ dom_spec_holds now dom t) /\
  (exists now dom t,
      valid_clockb now = true /\ n_y now <= 9998 /\ 1 <= dom <= 31 /\ valid_timeb t = true /\
      fst (delay [] (1%nat, dom_moment dom t) now)
      = Ok (mkI (ord 2026 4 20) 3600 0) (36 * DAYUS) /\
      ~ dom_spec_holds now dom t).
Proof.
  split.
  - exists (mkNow 2026 3 31 0 0), 31, (1, 0, 0).
    split; [vm_compute; reflexivity|]. split; [cbn; lia|]. split; [lia|].
    split; [vm_compute; reflexivity|]. split; [vm_compute; reflexivity|].
    intros [th [delta [E _]]]. vm_compute in E. discriminate.
  - exists (mkNow 2026 3 15 3600 0), 20, (1, 0, 0).
    split; [vm_compute; reflexivity|]. split; [cbn; lia|]. split; [lia|].
    split; [vm_compute; reflexivity|]. split; [vm_compute; reflexivity|].
    intros [th [delta [E [_ S]]]].
    assert (T : th = mkI (ord 2026 4 20) 3600 0) by (vm_compute in E; vm_compute; congruence).
    subst th. apply (S 2026 3); [vm_compute; reflexivity|]. vm_compute. split; congruence.
Qed.
Print Assumptions C20_dom_refuted.

(* what does hold: for dom <= 28 the delay is always computable, designates day
   dom of the NEXT month at the given time, and lies in the future *)
(* _partial: missing w.r.t. the full statement -- dom 29..31 (refuted above) and
   "this month's occurrence is not skipped" (refuted above) *)
Theorem C20_dom_partial : forall (id : nat) dom t now booted,
  valid_clockb now = true -> n_y now <= 9998 -> 1 <= dom <= 28 -> valid_timeb t = true ->
  let y' := next_y (n_y now) (n_m now) in
  let m' := next_m (n_m now) in
  let then_ := mkI (ord y' m' dom) (sod_of t) 0 in
  let delta := inst_us then_ - inst_us (now_inst now) in
  valid_dateb y' m' dom = true /\
  delay booted (id, dom_moment dom t) now = (Ok then_ delta, booted) /\
  0 < delta.
Proof. exact dl_dom_partial. Qed.
Print Assumptions C20_dom_partial.

(* the other half of finding dom-skips-current-month, as a theorem about the
   code: a computable day-of-month event with dom >= 2 is NEVER inside the
   300 s firing window, at any instant: defer() never queues it *)
Theorem C20_dom_never_due : forall (id : nat) dom t now booted th delta b',
  valid_clockb now = true -> 2 <= dom ->
  delay booted (id, dom_moment dom t) now = (Ok th delta, b') ->
  WINDOW_US < delta.
Proof. exact dl_dom_never_due. Qed.
Print Assumptions C20_dom_never_due.

Example C20_dom_example :
  valid_clockb (mkNow 2026 12 31 86399 999999) = true /\
  fst (delay [] (1%nat, dom_moment 1 (0, 4, 59)) (mkNow 2026 12 31 86399 999999))
  = Ok (mkI (ord 2027 1 1) 299 0) (299 * US + 1).
Proof. vm_compute. split; reflexivity. Qed.

(* ---- defer(): a due event queues its node ---- *)
(* pipeline not paused, defer() ends without exception; a node of `per` that is
   neither running nor waiting and has a due event -- a computable non-boot
   event with delay <= 300 s, or a boot event that has not fired yet (an event
   belongs to its own node only) -- ends up in que, waiting, with the
   all-targets marker (analysis) or every known target in todo *)
Definition due (now : clock) (st : sched) (id : nat) (p : event) : Prop :=
  (m_boot (snd p) = None /\
   exists th d, fst (delay [] p now) = Ok th d /\ d <= WINDOW_US) \/
  (m_boot (snd p) <> None /\ ~ In p (s_booted st) /\
   forall k, k <> id -> ~ In p (nd_period (s_node st k))).

Theorem C20_due_queues : forall now targets st st' id p,
  s_paused st = false ->
  defer now targets st = (st', None) ->
  In id (s_per st) -> skipped (nd_status (s_node st id)) = false ->
  In p (nd_period (s_node st id)) -> due now st id p ->
  In id (s_que st') /\ nd_status (s_node st' id) = St_waiting /\
  (nd_asp (s_node st' id) = true -> In ALL (nd_todo (s_node st' id))) /\
  (nd_asp (s_node st' id) = false -> incl targets (nd_todo (s_node st' id))).
Proof.
  intros now targets st st' id p Pz D I S P [[B [th [d [E W]]]]|[B [NB O]]].
  - exact (dl_due_queues now targets st st' id p th d Pz D I S P B E W).
  - exact (dl_due_queues_boot now targets st st' id p Pz D I S P B NB O).
Qed.
Print Assumptions C20_due_queues.

(* ... and it is there once (repair 399dc9a), whatever the multiplicity of the
   node in `per` / of the event in `period` and however many of its events are
   due together; an exception or a paused pipeline does not change that *)
Theorem C20_due_once : forall now targets st st' e,
  defer now targets st = (st', e) -> NoDup (s_que st) -> NoDup (s_que st').
Proof. exact dl_due_once. Qed.
Print Assumptions C20_due_once.

(* non-vacuity of both: analysis node 6 located twice (per = [6;6], period =
   [e;e]) with a due weekly event, task node 1 with a boot and a due weekly
   event: both queued, once, with ALL resp. the targets *)
Definition ex_nodes (k : nat) : node :=
  if Nat.eqb k 6 then init_node true 3 else init_node false 0.
Definition ex_weekly : event := (6%nat, dow_moment 0 (1, 0, 0)).
Definition ex_st0 : sched :=
  attach [(6%nat, ex_weekly); (6%nat, ex_weekly);
          (1%nat, (1%nat, boot_moment true)); (1%nat, (1%nat, dow_moment 0 (0, 4, 59)))]
         (init_sched ex_nodes false).
Example C20_due_example :
  let '(st', e) := defer DelayExamples.mon [1%nat; 2%nat] ex_st0 in
  e = None /\ s_que st' = [1%nat; 6%nat] /\
  nd_todo (s_node st' 6%nat) = [ALL] /\ nd_todo (s_node st' 1%nat) = [1%nat; 2%nat] /\
  s_per st' = [6%nat; 6%nat; 1%nat; 1%nat].
Proof. vm_compute. repeat split. Qed.

(* ---- recurrence ----
   "while the pipeline stays up a weekly event fires again each period" is
   FALSE for the code as it is (finding periodic-never-refires): after the
   first firing and its completion the node's status is `waiting`; defer()
   skips it at EVERY later instant, queues nothing and arms no timer. *)
Definition wk_event : event := (1%nat, dow_moment 0 (12, 0, 0)).
Definition wk_start : clock := mkNow 2026 3 2 (11 * 3600 + 58 * 60) 0.  (* Monday 11:58 *)
Definition wk_st0 : sched := attach [(1%nat, wk_event)] (init_sched ex_nodes false).
Definition wk_fired : sched := fst (defer wk_start [1%nat] wk_st0).
Definition wk_done : sched := fst (complete 1%nat 1%nat (dispatch wk_fired)).

Theorem C20_recurs_refuted :
  (* the event fires the first time ... *)
  s_que wk_fired = [1%nat] /\ nd_todo (s_node wk_fired 1%nat) = [1%nat] /\
  (* ... runs and completes ... *)
  s_que wk_done = [] /\ nd_status (s_node wk_done 1%nat) = St_waiting /\
  s_timers wk_done = [] /\
  (* ... and never again: at every later instant defer() changes nothing *)
  (forall now, defer now [1%nat] wk_done = (wk_done, None)) /\
  ~ (exists now, In 1%nat (s_que (fst (defer now [1%nat] wk_done)))).
Proof.
  assert (N : forall now, defer now [1%nat] wk_done = (wk_done, None)).
  { intro now. apply dl_defer_noop_b; vm_compute; reflexivity. }
  assert (Q : s_que wk_done = []) by (vm_compute; reflexivity).
  split; [vm_compute; reflexivity|]. split; [vm_compute; reflexivity|].
  split; [exact Q|]. split; [vm_compute; reflexivity|]. split; [vm_compute; reflexivity|].
  split; [exact N|].
  intros [now I]. rewrite N in I. cbn [fst] in I. rewrite Q in I. exact I.
Qed.
Print Assumptions C20_recurs_refuted.

(* what does hold about recurrence (_partial: only until the first firing):
   once every periodic node is waiting or running, defer() is the identity --
   the general form of the refutation above; and before the first firing a
   not-yet-due event arms exactly one timer (example below) *)
Theorem C20_recurs_partial : forall now targets st,
  s_paused st = false ->
  Forall (fun id => skipped (nd_status (s_node st id)) = true) (s_per st) ->
  defer now targets st = (st, None).
Proof. exact dl_defer_noop. Qed.
Print Assumptions C20_recurs_partial.

(* the re-arm half that does hold, for every state: when an examined event
   (node neither running nor waiting) is computable and not yet due, defer()
   arms exactly one timer, for the rounded smallest pending delay m, which is
   outside the window and not later than that event; a paused pipeline looks
   again in 10 s and touches nothing else *)
Theorem C20_rearm : forall now targets st st' id p th d,
  s_paused st = false ->
  defer now targets st = (st', None) ->
  In id (s_per st) -> skipped (nd_status (s_node st id)) = false ->
  In p (nd_period (s_node st id)) -> m_boot (snd p) = None ->
  fst (delay [] p now) = Ok th d -> WINDOW_US < d ->
  exists m, s_timers st' = s_timers st ++ [round_seconds m] /\ WINDOW_US < m <= d /\
            - US <= 2 * (round_seconds m * US - m) <= US.
Proof.
  intros now targets st st' id p th d Pz D I S P B E W.
  destruct (dt_rearm now targets st st' id p th d Pz D I S P B E W) as [m [T R]].
  exists m. split; [exact T|]. split; [exact R|apply dt_round_close].
Qed.
Print Assumptions C20_rearm.

Theorem C20_paused : forall now targets st,
  s_paused st = true -> defer now targets st = (add_timer 10 st, None).
Proof. exact dt_paused. Qed.
Print Assumptions C20_paused.

Example C20_rearm_example :
  (* Monday 00:58, weekly event Monday 12:00: not due, one timer of 39720 s *)
  let st' := fst (defer DelayExamples.mon [1%nat] wk_st0) in
  s_que st' = [] /\ s_timers st' = [39720] /\
  nd_status (s_node st' 1%nat) = St_delayed.
Proof. vm_compute. repeat split. Qed.

(* ---- source tie (session 3, second wave): the model function IS the source ----
   Gen/DelayGen.v is regenerated on every run from dawgie/pl/schedule.py
   (_delay statement by statement, the datetime operations mapped explicitly
   to the calendar of Model/Delay.v; the due test of defer) by
   tools/translate/delay2coq.py (fail closed) and PROVED equal to the
   hand-written model for every argument -- no well-formedness guard.  The
   recorded findings are properties of the generated definition as well
   (C20_dom_refuted_on_source). *)
From DV Require Gen.DelayGen Proofs.DelayGenEq.

Theorem C20_delay_is_source : forall booted when now,
  DelayGen.delay booted when now = delay booted when now.
Proof. exact DelayGenEq.delay_gen_eq. Qed.
Print Assumptions C20_delay_is_source.

Theorem C20_due_is_source : forall d, DelayGen.due d = (d <=? WINDOW_US).
Proof. exact DelayGenEq.due_gen_eq. Qed.
Print Assumptions C20_due_is_source.

(* the loop body of defer() over the generated functions *)
Theorem C20_run_period_is_source : forall now targets id p ps st delays,
  run_period now targets id (p :: ps) st delays
  = match DelayGen.delay (s_booted st) p now with
    | (Err e, _) => (st, delays, Some e)
    | (NotKnowable, _) => run_period now targets id ps st delays
    | (Ok _ d, b') =>
        let st1 := set_booted b' st in
        if DelayGen.due d then run_period now targets id ps (enqueue targets id st1) delays
        else run_period now targets id ps st1 (delays ++ [d])
    end.
Proof. exact DelayGenEq.run_period_is_source. Qed.
Print Assumptions C20_run_period_is_source.

(* the open findings, evaluated on the GENERATED definition: dom = 31 on 31
   March raises ValueError; dom = 20 on 15 March designates 20 April *)
Example C20_dom_refuted_on_source :
  fst (DelayGen.delay [] (1%nat, DelayExamples.monthly 31) (mkNow 2026 3 31 0 0)) = Err ValueError /\
  fst (DelayGen.delay [] (1%nat, DelayExamples.monthly 20) (mkNow 2026 3 15 3600 0))
  = Ok (mkI (ord 2026 4 20) 3600 0) (36 * DAYUS) /\
  DelayGen.due (300 * US) = true /\ DelayGen.due (300 * US + 1) = false.
Proof. vm_compute. repeat split. Qed.

(* ---- the set of known targets may change between steps: dawgie.db.targets()
   is asked again by every defer().  C20_due_queues above is quantified over the
   target list of the moment; scenarios pair every step with the list known when
   it happens (Model/DelayT.v), and with one list throughout they are the
   scenarios of Model/Delay.v ---- *)
From DV Require Model.DelayT Proofs.DelayTProofs.
Theorem C20_targets_of_the_moment : forall tg ids ss st,
  DV.Model.DelayT.run_steps_t ids st (map (fun s => (tg, s)) ss) = run_steps tg ids st ss.
Proof. exact DV.Proofs.DelayTProofs.run_steps_t_const. Qed.
Print Assumptions C20_targets_of_the_moment.
