(* C20 -- stub, replaced below *)
From DV Require Import Model.Delay.
From Coq Require Import ZArith.
Theorem C20_stub : DelayExamples.mon = DelayExamples.mon.
Proof. reflexivity. Qed.
Print Assumptions C20_stub.
