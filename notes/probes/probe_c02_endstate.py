'''Design-phase probe for C02 (end state) + C06 in situ: a simulated farm around the REAL
scheduler, the REAL worker path (dawgie.pl.worker.Context.run -> Task.do -> Dataset.load/update)
and the REAL shelve backend.  Algorithms store hash(inputs as loaded).  At quiescence the
latest stored value of every (target, algorithm, value) is compared with a from-scratch
evaluation in dependency order.'''
import os, random, sys, tempfile, collections, shutil, hashlib
import engine
import dawgie, dawgie.context, dawgie.db, dawgie.db.shelve, dawgie.db.shelve.comms as C
import dawgie.pl.schedule as S, dawgie.pl.farm as F, dawgie.pl.message as M, dawgie.pl.worker as W
from dawgie.db.shelve.state import DBI

resp = [None]
C.acquire = lambda name: True
C.release = lambda s: True
C.Connector._Connector__do = staticmethod(lambda request: (C.Worker(None).do(request), resp[0])[1])
C.Worker._send = lambda self, r: resp.__setitem__(0, r)
W.Context.abort = lambda self: False

ROOT_IN = {}      # (alg tag, target) -> current external input of a root algorithm
LOG = []


def h(*parts):
    return hashlib.sha1(repr(parts).encode()).hexdigest()[:10]


def run(self, ds, ps):
    tag = self._tag
    tn = ds._tn()
    ins = []
    for ref in self._deps:
        for vref in dawgie.util.as_vref([ref]):
            v = vref.item[vref.feat]
            ins.append((dawgie.util.vref_as_name(vref), getattr(v, 'content', None)))
    base = ROOT_IN.get((tag, tn)) if not self._deps else None
    for sv in self._svs:
        for k in list(sv.keys()):
            sv[k] = engine.Val((1, 0, 0), h(tag, sv.name(), k, tn, base, sorted(ins)))
    ds.update()
engine.Work.run = run


def scratch(desc, order, targets):
    '''reference: evaluate every algorithm for every target in dependency order'''
    val = {}
    for (pkg, kind, a) in order:
        tag = f'{pkg}.{a["name"]}'
        for tn in targets:
            ins = []
            for r in a['deps']:
                for v in engine.expand(desc, r):
                    ins.append((v, val[(tn, v)]))
            base = ROOT_IN.get((tag, tn)) if not a['deps'] else None
            for s in a['svs']:
                for k, _ in s['vals']:
                    val[(tn, '.'.join([tag, s['name'], k]))] = h(tag, s['name'], k, tn, base, sorted(ins))
    return val


def latest(works, targets):
    got = {}
    keys = [eval(k) for k in DBI().tables.prime]
    T, I = DBI().tables, DBI().indices
    best = {}
    for (r, t, k, a, s, v) in keys:
        name = (I.target[t], '.'.join([I.task[k].split('___')[0], I.alg[a].split('___')[1].split(':parent')[0] if False else '']))
    # simpler: use the public name listing
    for full in dawgie.db.shelve._prime_keys():
        r, tn, task, alg, sv, vn = full.split('.')
        if sv == '__metric__':
            continue
        key = (tn, '.'.join([task, alg, sv, vn]))
        if key not in best or int(r) > best[key][0]:
            best[key] = (int(r), full)
    for key, (r, full) in best.items():
        pk = [k for k in keys if k[0] == r]
        got[key] = r
    return best


def sim(seed, nsteps=60):
    rng = random.Random(seed)
    rt = tempfile.mkdtemp(prefix='dvc02_')
    for s in ['db', 'dbs', 'stg']: os.makedirs(os.path.join(rt, s))
    dawgie.context.db_impl = 'shelve'; dawgie.context.db_path = rt + '/db'
    dawgie.context.data_dbs = rt + '/dbs'; dawgie.context.data_stg = rt + '/stg'
    DBI().open()
    targets = ['T1', 'T2']
    for t in targets: dawgie.db.add(t)
    desc = engine.random_desc(rng, npk=2, nalg=5, feedback=False)
    # tasks only for this probe
    for pk in list(desc['pkgs']):
        kinds = desc['pkgs'][pk]
        allalgs = [a for lst in kinds.values() for a in lst]
        desc['pkgs'][pk] = {'task': allalgs}
        for a in allalgs:
            a['deps'] = [(l, p, 'task', an, sv, vn) for (l, p, k, an, sv, vn) in a['deps']]
    Fs, works = engine.build(desc)
    for (pkg, kind, an), w in works.items(): w._tag = f'{pkg}.{an}'
    order = []
    # random_desc creates algorithms a0..an in dependency order
    allw = sorted(((int(a['name'][1:]), pkg, a) for pkg, k in desc['pkgs'].items() for a in k['task']))
    order = [(pkg, 'task', a) for _, pkg, a in allw]
    S.build(Fs, [{}, {}, {}], [{}, {}, {}, {}]); S.que.clear()
    for r in S.ae.at:
        for n in r.iter(): n.get('todo').clear()
    roots = [f'{pkg}.{a["name"]}' for pkg, k, a in order if not a['deps']]
    ROOT_IN.clear(); counter = [0]
    inflight = []
    problems = collections.Counter()

    def rerun_root():
        tag = rng.choice(roots); tn = rng.choice(targets)
        counter[0] += 1; ROOT_IN[(tag, tn)] = counter[0]
        S.organize([tag], targets={tn}, event='root re-run')

    def tick():
        for j in S.next_job_batch():
            rid = F.rerunid(j)
            j.set('status', S.State.running)
            for t in sorted(j.get('do')):
                inflight.append((j.tag, t, rid, j.get('factory')))
            j.get('do').clear()

    def finish(i=None):
        tag, t, rid, fac = inflight.pop(rng.randrange(len(inflight)) if i is None else i)
        ctx = W.Context(('h', 1), 'rev')
        try:
            nv = ctx.run(fac, 0, tag, rid, t, {})
            ok = True
        except Exception as e:      # noqa
            problems['algorithm raised ' + type(e).__name__] += 1
            nv, ok = None, False
        F.Hand._res(M.make(typ=M.Type.response, inc=t, jid=tag, rid=rid, suc=ok, tim={'started': 'x'}, val=nv))

    for t in targets:
        for r in roots:
            counter[0] += 1; ROOT_IN[(r, t)] = counter[0]
    S.organize(roots, targets=set(targets), event='first')
    for _ in range(nsteps):
        c = rng.random()
        if c < 0.2: rerun_root()
        elif c < 0.5: tick()
        elif inflight: finish()
    # drain to quiescence
    guard = 0
    while (inflight or any(n.get('todo') for r in S.ae.at for n in r.iter())) and guard < 500:
        tick()
        if inflight: finish()
        guard += 1
    if guard >= 500: problems['did not quiesce'] += 1
    want = scratch(desc, order, targets)
    best = latest(works, targets)
    # read back through the real load path: a fresh bot with a new run id
    stale = 0
    for (tn, name), (r, full) in best.items():
        pass
    import pickle
    for (tn, name), w_ in want.items():
        if (tn, name) not in best:
            problems['missing stored value'] += 1; continue
        r, full = best[(tn, name)]
        key = [k for k in DBI().tables.prime if dawgie.db.shelve._prime_keys()[list(DBI().tables.prime).index(k)] == full][0]
        val = dawgie.db.util.decode(DBI().tables.prime[key])
        if val.content != w_:
            stale += 1
    if stale: problems['stale value at quiescence'] += stale
    DBI().close(); shutil.rmtree(rt)
    return problems, len(want)


if __name__ == '__main__':
    N = int(sys.argv[1]) if len(sys.argv) > 1 else 10
    tot = collections.Counter(); nv = 0
    for s in range(N):
        p, n = sim(s); tot.update(p); nv += n
        if p: print('seed', s, dict(p))
    print('simulations', N, 'values compared', nv, dict(tot) or 'end state == from-scratch in all')
