'''Design-phase probe for C09: real dag.Construct vs a reference closure on random engines.'''
import random, sys, itertools
import engine
import dawgie, dawgie.pl.dag


def reference(desc):
    edges = set()      # value-level parent -> child
    algs = {}
    for pkg, kinds in desc['pkgs'].items():
        for kind, lst in kinds.items():
            for a in lst:
                own = ['.'.join([pkg, a['name'], s['name'], n]) for s in a['svs'] for n, _ in s['vals']]
                algs[(pkg, a['name'])] = own
                for r in a['deps']:
                    for p in engine.expand(desc, r):
                        for c in own:
                            edges.add((p, c))
    return algs, edges


def trim(n, L):
    return '.'.join(n.split('.')[:L])


def closure(edges):
    anc = {}
    nodes = {x for e in edges for x in e}
    par = {n: {p for p, c in edges if c == n} for n in nodes}
    for n in nodes:
        seen, todo = set(), list(par[n])
        while todo:
            p = todo.pop()
            if p not in seen:
                seen.add(p); todo.extend(par.get(p, ()))
        anc[n] = seen
    return anc


def walk(roots):
    seen = {}
    todo = list(roots)
    while todo:
        n = todo.pop()
        if n.tag in seen:
            continue
        seen[n.tag] = n
        todo.extend(c for c in n if c.tag != n.tag)
    return seen


def check(seed):
    rng = random.Random(seed)
    desc = engine.random_desc(rng)
    F, works = engine.build(desc)
    C = dawgie.pl.dag.Construct(F)
    algs, vedges = reference(desc)
    problems = []
    for L, roots in [(4, C.vt), (3, C.svt), (2, C.at), (1, C.tt)]:
        got = walk(roots)
        ref_nodes = {trim(v, L) for vs in algs.values() for v in vs}
        if set(got) != ref_nodes:
            problems.append((L, 'nodes', sorted(set(got) ^ ref_nodes)))
        ref_edges = {(trim(p, L), trim(c, L)) for p, c in vedges}
        got_edges = {(n.tag, c.tag) for n in got.values() for c in n}
        if L > 1:
            ref_edges = {e for e in ref_edges}
        if got_edges != ref_edges:
            problems.append((L, 'edges', sorted(got_edges ^ ref_edges)))
    # ancestry at algorithm level
    aedges = {(trim(p, 2), trim(c, 2)) for p, c in vedges if trim(p, 2) != trim(c, 2)}
    anc = closure(aedges)
    for tag, n in walk(C.at).items():
        if set(n.get('ancestry')) != anc.get(tag, set()):
            problems.append(('anc', tag, sorted(set(n.get('ancestry')) ^ anc.get(tag, set()))))
    # feedback
    fb = {}
    for pkg, kinds in desc['pkgs'].items():
        for kind, lst in kinds.items():
            for a in lst:
                for r in a['fb']:
                    for v in engine.expand(desc, r):
                        fb.setdefault(v, set()).add('.'.join([pkg, a['name']]))
    for v, consumers in fb.items():
        if v not in C.feedbacks or trim(C.feedbacks[v], 2) not in consumers:
            problems.append(('fb', v, C.feedbacks.get(v)))
    return desc, problems


if __name__ == '__main__':
    n = int(sys.argv[1]) if len(sys.argv) > 1 else 40
    bad = 0
    for seed in range(n):
        desc, problems = check(seed)
        if problems:
            bad += 1
            print('seed', seed, problems[:3])
    print('checked', n, 'engines; with problems:', bad)
    # non-vacuity figures
    import collections
    st = collections.Counter()
    for seed in range(n):
        desc = engine.random_desc(random.Random(seed))
        algs, ve = reference(desc)
        st['algs'] += len(algs); st['vedges'] += len(ve)
        st['with_fb'] += any(a['fb'] for k in desc['pkgs'].values() for l in k.values() for a in l)
        ae = {(trim(p, 2), trim(c, 2)) for p, c in ve}
        anc = closure(ae)
        st['diamondish'] += any(len(v) >= 3 for v in anc.values())
    print(dict(st))
