'''Design-phase probe for C10: random trigger/completion interleavings on the real FSM (non-doctest mode).'''
import random, sys, collections
import engine
import dawgie, dawgie.context
import twisted.internet.threads as TT
import transitions

pending = []
class D:
    def __init__(s, f): s.f = f; s.cb = []; s.eb = []
    def addCallbacks(s, cb, eb=None): s.cb.append(cb); s.eb.append(eb); return s
    def addErrback(s, eb): s.eb.append(eb); return s
    def fire(s):
        try:
            r = s.f()
        except Exception as e:   # errback path = logged, machine stays
            return ('thread raised', type(e).__name__)
        for cb in s.cb:
            cb(r)
        return None
TT.deferToThread = lambda f, *a, **k: (pending.append(D(lambda: f(*a, **k))) or pending[-1])
import dawgie.pl.state as ST, dawgie.pl.farm as F, dawgie.pl.resources, dawgie.db
F.plow = lambda: None
class RI:
    def reload(self): pass
ST.RollbackImporter = RI
dawgie.db.metrics = lambda *a: []
dawgie.pl.resources.last_runid = lambda: 0
dawgie.pl.resources.distribution = lambda x: {}
dawgie.db.close = lambda: None
dawgie.db.reopen = lambda: False
dawgie.db.archive = lambda done: done()
dawgie.context._rev = lambda: 'rev'
import pydot, os
g = pydot.graph_from_dot_file(os.path.join(os.path.dirname(ST.__file__), 'state.dot'))[0]
EDGES = {(e.get_source(), e.get_destination()) for e in g.get_edges()}


def run(seed, nev=30):
    rng = random.Random(seed)
    pending.clear(); F.ARCHIVE = False
    fsm = ST.FSM(); dawgie.context.fsm = fsm
    fsm._security = fsm._gui = fsm._logging = lambda: None
    fsm._pipeline = lambda *a, **k: None
    V = collections.Counter()
    trace = []
    def obs(): return (fsm.state, fsm.transitioning)
    def watch(label, thunk):
        before = obs()
        try:
            thunk(); res = 'ok'
        except transitions.MachineError as e:
            res = 'rejected'
        after = obs()
        trace.append((label, before[0], after[0], res))
        if res == 'rejected' and before != after:
            V[f'rejected {label} changed state {before}->{after}'] += 1
        return res
    # track every state change through the machine
    hops = []
    orig = type(fsm).__setattr__
    last = [fsm.state]
    fsm.starting_trigger() if True else None
    for _ in range(nev):
        ev = rng.choice(['done', 'done', 'submit_begin', 'submit_end', 'reset_cmd', 'waiter_update', 'idle_archive'])
        s0 = fsm.state
        if ev == 'done' and pending:
            d = pending.pop(rng.randrange(len(pending)))
            watch('done', d.fire)
        elif ev == 'submit_begin' and fsm.is_pipeline_active():
            watch('gitting', fsm.gitting_trigger)
        elif ev == 'submit_end' and fsm.state == 'gitting':
            watch('running', fsm.running_trigger)
        elif ev == 'reset_cmd' and fsm.is_pipeline_active():
            watch('update(cmd)', fsm.wait_for_nothing)
        elif ev == 'waiter_update':
            watch('update(waiter)', fsm.update_trigger)
        elif ev == 'idle_archive' and fsm.is_pipeline_active():
            F.ARCHIVE = rng.random() < 0.5
            watch('archiving', fsm.archiving_trigger)
        else:
            continue
        if fsm.is_pipeline_active() != (fsm.state == 'running' and fsm.transitioning == ST.Status.active):
            V['active predicate'] += 1
    # drain
    guard = 0
    while pending and guard < 50:
        watch('done', pending.pop(0).fire); guard += 1
    if not (fsm.state in ('running', 'gitting') and fsm.transitioning == ST.Status.active):
        V[f'not at rest: {fsm.state}/{fsm.transitioning.name}'] += 1
        return V, trace
    return V, trace


tot = collections.Counter(); ex = {}
N = int(sys.argv[1]) if len(sys.argv) > 1 else 300
for s in range(N):
    V, tr = run(s)
    for k in V: ex.setdefault(k, (s, tr[-6:]))
    tot.update(V)
print('histories', N, dict(tot) or 'no violations')
for k, v in list(ex.items())[:3]:
    print(k, v)
