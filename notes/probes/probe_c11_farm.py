'''Design-phase probe for C11 (+C03 crew view): real farm.dispatch / Hand with fake transports.'''
import random, sys, collections, struct
import engine
import dawgie, dawgie.context, dawgie.db, dawgie.security, dawgie.pl.schedule as S, dawgie.pl.farm as F, dawgie.pl.message as M
dawgie.security._myself.clear(); dawgie.security._myself['x'] = 1
TARGETS = ['T1', 'T2']
dawgie.db.targets = lambda *a, **k: list(TARGETS)
stored = [3]
drawn = []
def _next():
    drawn.append(max(stored) + 1); return drawn[-1]
dawgie.db.next = _next
dawgie.context.git_rev = 'REV'


class FSM:
    active = True
    def is_pipeline_active(s): return s.active
    def waiting_on_crew(s): return False
    def archiving_trigger(s): pass
fsm = FSM(); dawgie.context.fsm = fsm


class Addr:
    def __init__(s, h): s.host = h
class T:
    def __init__(s): s.msgs = []; s.closed = False
    def write(s, b): s.msgs.append(M.loads(b[4:]))
    def loseConnection(s): s.closed = True


def frame(m):
    p = M.dumps(m); return struct.pack('>I', len(p)) + p


def run(seed, nev=40):
    rng = random.Random(seed)
    desc = engine.random_desc(rng, feedback=False)
    Fs, works = engine.build(desc)
    S.build(Fs, [{}, {}, {}], [{}, {}, {}, {}]); S.que.clear(); F.clear(); F.ARCHIVE = False
    tags = sorted({n.tag for r in S.ae.at for n in r.iter()})
    for r in S.ae.at:
        for n in r.iter(): n.get('todo').clear()
    fsm.active = True; drawn.clear()
    V = collections.Counter()
    hands = []     # (hand, state) state: reg-ok / reg-stale / lost / tasked
    kinds = {t: S.ae.at and [n for r in S.ae.at for n in r.locate(t)][0].get('factory').__name__ for t in tags}
    for _ in range(nev):
        ev = rng.choice(['org', 'reg', 'reg', 'stale', 'drop', 'tick', 'tick', 'act', 'poll'])
        if ev == 'org':
            rid = rng.choice([None, None, 9])
            S.organize(rng.sample(tags, 1), rid, set(rng.sample(TARGETS, 1)), 'probe')
        elif ev in ('reg', 'stale'):
            h = F.Hand(Addr(rng.choice(['hA', 'hB']))); h.transport = T()
            h.dataReceived(frame(M.make(typ=M.Type.register, inc=1, rev='REV' if ev == 'reg' else 'OLD')))
            hands.append([h, 'ok' if ev == 'reg' else 'stale'])
            V['_' + ev] += 1
            if ev == 'stale' and (h in F._workers or not h.transport.closed): V['stale worker admitted'] += 1
        elif ev == 'drop' and hands:
            x = rng.choice(hands); x[0].connectionLost(None)
            if x[1] == 'ok': x[1] = 'lost'
        elif ev == 'act':
            fsm.active = not fsm.active
        elif ev == 'poll':
            h = F.Hand(Addr('hC')); h.transport = T()
            h.dataReceived(frame(M.make(typ=M.Type.status, rev=rng.choice(['REV', 'OLD']))))
        elif ev == 'tick':
            before = {id(x[0]): len(x[0].transport.msgs) for x in hands}
            cl_before = [(m.jobid, m.target) for m in F._cluster]
            pend = {(j.tag, t, j.get('runid')) for j in S.que for t in j.get('todo')}
            F.dispatch()
            for x in hands:
                new = x[0].transport.msgs[before[id(x[0])]:]
                tasks = [m for m in new if m.type == M.Type.task]
                if tasks:
                    if not fsm.active: V['task sent while inactive'] += 1
                    if x[1] != 'ok': V[f'task sent to {x[1]} worker'] += 1
                    if len(tasks) > 1: V['two tasks to one worker'] += 1
                    x[1] = 'tasked'; V['_tasks_sent'] += len(tasks)
                    for m in tasks:
                        k = kinds[m.jobid]
                        if k == 'regress' and m.runid != 0: V['regress runid != 0'] += 1
                        if k == 'analysis' and m.target is not None: V['analysis with target'] += 1
                        if m.factory != ('vae.' + m.jobid.split('.')[0], k): V['factory field wrong'] += 1
                        if k != 'regress' and m.runid != 9 and m.runid <= max(stored): V['runid not greater than stored'] += 1
                if not fsm.active and any(m.type != M.Type.response for m in new): V['non-abort message while inactive'] += 1
            busy_now = sorted(F._busy)
            tasked = sorted(m.jobid + '[' + (m.target or '__all__') + ']' for x in hands for m in x[0].transport.msgs if m.type == M.Type.task)
            if busy_now != tasked: V['crew busy != units handed out (no replies in this probe)'] += 1
            for w in F._workers:
                st = [x[1] for x in hands if x[0] is w][0]
                if st != 'ok': V[f'idle list holds {st} worker'] += 1
    return V


tot = collections.Counter()
N = int(sys.argv[1]) if len(sys.argv) > 1 else 40
for s in range(N):
    tot.update(run(s))
print('histories', N, dict(tot) or 'no violations')
