'''Design-phase probe for C13: random interleavings of acquire/poll/release/drop on real comms.Worker.'''
import os, random, sys, pickle, struct, tempfile, collections
import engine
import dawgie, dawgie.context, dawgie.security
import twisted.internet.task, twisted.internet.reactor
dawgie.security._myself.clear(); dawgie.security._myself['x'] = 1   # no PGP wrapper

later = []
class LC:
    def __init__(s, f): s.f = f; s.running = False
    def start(s, interval): s.running = True; s.f()
    def stop(s): s.running = False
    def tick(s):
        if s.running: s.f()
twisted.internet.task.LoopingCall = LC
twisted.internet.reactor.callLater = lambda t, f, *a: later.append(lambda: f(*a))
import dawgie.db.shelve.comms as C
from dawgie.db.shelve.state import DBI
root = tempfile.mkdtemp(); os.makedirs(root + '/db')
dawgie.context.db_path = root + '/db'
DBI().open()


class T:
    def __init__(s): s.out = []; s.closed = False
    def write(s, b): s.out.append(pickle.loads(b[4:]))
    def loseConnection(s): s.closed = True


def frame(cmd):
    p = pickle.dumps(cmd); return struct.pack('>I', len(p)) + p


def run(seed, ncl=4, nev=40):
    rng = random.Random(seed)
    dawgie.context.db_lock = False
    later.clear()
    W = []
    for i in range(ncl):
        w = C.Worker(('h', i)); w.transport = T(); W.append(w)
    st = ['new'] * ncl     # new / waiting / holding / released / dropped
    V = collections.Counter()
    for _ in range(nev):
        i = rng.randrange(ncl); w = W[i]
        ev = rng.choice(['acq', 'poll', 'poll', 'rel', 'drop', 'timer'])
        nout = len(w.transport.out)
        if ev == 'acq' and st[i] == 'new':
            w.dataReceived(frame(C.COMMAND(C.Func.acquire, None, None, f'c{i}'))); st[i] = 'waiting'
        elif ev == 'poll' and st[i] in ('waiting', 'holding', 'dropped'):
            w._Worker__looping_call.tick()
        elif ev == 'rel' and st[i] in ('holding',):
            w.dataReceived(frame(C.COMMAND(C.Func.release, None, None, None)))
            st[i] = 'released'
            if w.transport.out[-1] is not True: V['release of holder not acknowledged True'] += 1
        elif ev == 'drop' and st[i] not in ('dropped', 'released'):
            w.connectionLost(None); st[i] = 'dropped'
        elif ev == 'timer' and later:
            later.pop(0)()
        new = w.transport.out[nout:]
        if st[i] == 'dropped' and new:
            V['wrote to a dropped connection'] += 1
        for m in new:
            if isinstance(m, C.Mutex) and m == C.Mutex.unlock:      # "it is yours" (True == Mutex.unlock, so test the type)
                if not w._Worker__has_lock: V['told yours without holding'] += 1
                if st[i] == 'waiting': st[i] = 'holding'
        holders = [k for k, x in enumerate(W) if x._Worker__has_lock]
        if len(holders) > 1: V['two holders'] += 1
        if bool(holders) != bool(dawgie.context.db_lock): V['lock bit != exists holder'] += 1
        for k in holders:
            if st[k] != 'holding': V[f'holder in state {st[k]}'] += 1
        # progress: lock free and someone waiting -> its poll grants
        if not dawgie.context.db_lock:
            ws = [k for k in range(ncl) if st[k] == 'waiting']
            if ws:
                k = ws[0]; n0 = len(W[k].transport.out)
                W[k]._Worker__looping_call.tick()
                if W[k]._Worker__has_lock and [type(x) for x in W[k].transport.out[n0:]] == [C.Mutex] and W[k].transport.out[n0] == C.Mutex.unlock:
                    st[k] = 'holding'
                else:
                    V['free lock not granted at poll'] += 1
    return V


tot = collections.Counter()
N = int(sys.argv[1]) if len(sys.argv) > 1 else 300
for s in range(N):
    tot.update(run(s))
print('histories', N, dict(tot) or 'no violations')
