'''Design-phase probe for C14: every chunking of short streams through the real
Hand / comms.Worker / LogSink dataReceived and through security.TwistedWrapper.'''
import itertools, pickle, struct, sys, random, logging
import engine  # path + logging setup
import dawgie, dawgie.security, dawgie.pl.farm as F, dawgie.pl.message as M
import dawgie.db.shelve.comms as C, dawgie.pl.logger as L

dawgie.security._myself.clear(); dawgie.security._myself['x'] = 1   # use_tls() True => no wrapper


class T:
    def __init__(s): s.out = []; s.closed = False
    def write(s, b): s.out.append(b)
    def loseConnection(s): s.closed = True


def chunkings(b, limit=None, rng=None):
    n = len(b)
    if limit is None or 2 ** (n - 1) <= limit:
        for mask in range(2 ** (n - 1)):
            cuts = [i + 1 for i in range(n - 1) if mask >> i & 1]
            yield [b[i:j] for i, j in zip([0] + cuts, cuts + [n])]
    else:
        for _ in range(limit):
            cuts = sorted(rng.sample(range(1, n), rng.randint(0, min(n - 1, 12))))
            yield [b[i:j] for i, j in zip([0] + cuts, cuts + [n])]


def frame(p):
    return struct.pack('>I', len(p)) + p


def hand_sink():
    h = F.Hand(('h', 1)); got = []
    h._process = got.append; h.transport = T()
    return h, got


def worker_sink():
    w = C.Worker(('h', 1)); got = []
    w.do = got.append; w.transport = T()
    return w, got


class Actual:
    def __init__(s): s.got = []
    def handle(s, r): s.got.append(r.getMessage())
    def flush(s): pass


def log_sink():
    a = Actual(); s = L.LogSink(a, ('h', 1)); s.transport = T()
    return s, a.got


def main():
    rng = random.Random(1)
    bad = 0; total = 0
    msgs = [M.make(typ=M.Type.register, inc=1, rev='r'), M.make(typ=M.Type.status, rev='q')]
    cmds = [C.COMMAND(C.Func.release, None, None, None), C.COMMAND(C.Func.get, (1, 2, 3, 4, 5, 6), C.Table.prime, None)]
    recs = [{'msg': 'a', 'args': None, 'levelno': 20}, {'msg': 'bb', 'args': None, 'levelno': 30}]
    for mk, payloads, norm in [(hand_sink, [M.dumps(m) for m in msgs], lambda x: x),
                               (worker_sink, [pickle.dumps(c) for c in cmds], lambda x: x),
                               (log_sink, [pickle.dumps(r) for r in recs], lambda x: x)]:
        stream = b''.join(frame(p) for p in payloads)
        p0, g0 = mk(); p0.dataReceived(stream); whole = list(g0)
        assert len(whole) == len(payloads), (mk.__name__, len(whole))
        # exhaustive on a short prefix window is impossible for long pickles: sample + all 1-cut and 2-cut positions
        cases = [[stream[:i], stream[i:]] for i in range(1, len(stream))]
        cases += [[stream[:i], stream[i:j], stream[j:]] for i in range(1, 12) for j in range(i + 1, len(stream), 7)]
        cases += list(chunkings(stream, 3000, rng))
        cases += [[bytes([x]) for x in stream]]
        for ch in cases:
            p, g = mk()
            for c in ch:
                p.dataReceived(c)
            total += 1
            if g != whole:
                bad += 1
                if bad < 4:
                    print('MISMATCH', mk.__name__, [len(c) for c in ch])
    print('framing cases', total, 'mismatches', bad)

    # handshake with a stub PGP
    dawgie.security._myself.clear()  # use_tls() False => wrapper installed

    class R:
        def __init__(s, valid, data=b''): s.valid = valid; s.data = data

    class PGP:
        def __init__(s, ok3, ok5, echo): s.ok3, s.ok5, s.echo, s.n = ok3, ok5, echo, 0
        def verify(s, b): s.n += 1; return R(s.ok3 if s.n == 1 else s.ok5)
        def decrypt(s, b):
            return R(True, b if s.n == 1 else (s.w._TwistedWrapper__msg.encode() if s.echo else b'nope'))

    def run(ch, ok3, ok5, echo, first=4):
        pgp = PGP(ok3, ok5, echo); dawgie.security._PGP = pgp
        h = F.Hand(('h', 1)); got = []; h._process = got.append; h.transport = T()
        pgp.w = h._Hand__handshake
        delivered_before_ok = False
        for c in ch:
            h.dataReceived(c)
            if h.transport.closed:
                break      # Twisted contract: no data after loseConnection
        return got, h.transport.closed

    ident = b'IDENT'; reply = b'REPLY'; app = frame(M.dumps(msgs[0])) + frame(M.dumps(msgs[1]))
    hs = struct.pack('>I', 4) + struct.pack('>I', len(ident)) + ident + struct.pack('>II', 4, len(reply)) + reply
    tot = bad = 0
    for ok3, ok5, echo in itertools.product([True, False], repeat=3):
        good = ok3 and ok5 and echo
        stream = hs + app
        cases = [[stream]] + [[stream[:i], stream[i:]] for i in range(1, len(stream))]
        cases += [[stream[:i], stream[i:j], stream[j:]] for i in range(1, len(hs) + 2) for j in range(i + 1, len(hs) + 12)]
        cases += [[bytes([x]) for x in stream]]
        for ch in cases:
            got, closed = run(ch, ok3, ok5, echo)
            tot += 1
            want = msgs if good else []
            if [g for g in got] != want or closed != (not good):
                bad += 1
                if bad < 4:
                    print('HS MISMATCH', ok3, ok5, echo, [len(c) for c in ch][:4], len(got), closed)
    # wrong first word
    stream = struct.pack('>I', 5) + hs[4:] + app
    got, closed = run([stream], True, True, True)
    print('handshake cases', tot, 'mismatches', bad, '| wrong first word -> delivered', len(got), 'closed', closed)


main()
