'''Design-phase probe for C16: generated on-disk AE packages (every mix of factory kinds,
single-rule faults at each applicable kind) through the real tools.compliant._verify.'''
import os, sys, itertools, tempfile, textwrap, collections, importlib, shutil
import engine   # sys.path + logging
import dawgie, dawgie.context, dawgie.tools.compliant as C

COMMON = '''
import dawgie, datetime
class V(dawgie.Value):
    def __init__(self):
        dawgie.Value.__init__(self); self._version_ = dawgie.VERSION(1,0,0)
    def features(self): return []
class BadV(dawgie.Value):
    def __init__(self):
        dawgie.Value.__init__(self); self._version_ = dawgie.VERSION(1,0,0); self.f = lambda x: x
    def features(self): return []
class NotV:
    pass
def mk_sv(name, keys=('v',), val=V, base=dawgie.StateVector):
    class SV(base):
        def __init__(self):
            base.__init__(self); self._version_ = dawgie.VERSION(1,0,0)
            for k in keys: self[k] = val()
        def name(self): return name
        def view(self, c, v): pass
    return SV()
class PlainDict(dict):
    def __init__(self): dict.__init__(self); self._version_ = dawgie.VERSION(1,0,0)
    def name(self): return 'sv'
'''

UP = '''
import dawgie
from {base}.common import *
class Alg(dawgie.Algorithm):
    def __init__(self):
        dawgie.Algorithm.__init__(self); self._version_ = dawgie.VERSION(1,0,0); self._sv = mk_sv('sv', ('v', 'w'))
    def name(self): return 'up'
    def previous(self): return []
    def feedback(self): return []
    def run(self, ds, ps): pass
    def state_vectors(self): return [self._sv]
class Bot(dawgie.Task):
    def list(self): return [Alg()]
def task(prefix:str, ps_hint:int=0, runid:int=-1, target:str='__none__'):
    return Bot(prefix, ps_hint, runid, target)
'''

KIND = {
 'task': dict(base='dawgie.Algorithm', bot='dawgie.Task', dep='previous', run='def run(self, ds, ps): pass',
              fac="def task(prefix:str, ps_hint:int=0, runid:int=-1, target:str='__none__'):\n    return TBot(prefix, ps_hint, runid, target)", cls='TAlg', botc='TBot'),
 'analysis': dict(base='dawgie.Analyzer', bot='dawgie.Analysis', dep='traits', run='def run(self, aspects): pass',
              fac="def analysis(prefix:str, ps_hint:int=0, runid:int=-1):\n    return ABot(prefix, ps_hint, runid)", cls='AAlg', botc='ABot'),
 'regress': dict(base='dawgie.Regression', bot='dawgie.Regress', dep='variables', run='def run(self, ps, timeline): pass',
              fac="def regress(prefix:str, ps_hint:int=0, target:str='__none__'):\n    return RBot(prefix, ps_hint, target)", cls='RAlg', botc='RBot'),
}

FAULTS = ['arity', 'default', 'annotation', 'bot_type', 'alg_type', 'sv_type', 'value_type', 'abstract',
          'dot_alg', 'dot_sv', 'dot_val', 'empty_sv', 'unpicklable', 'ref_item_type', 'ref_feat_type',
          'unresolvable_val', 'unresolvable_fb', 'no_sv']


def kind_src(base, kind, fault):
    k = dict(KIND[kind])
    name = "'x.y'" if fault == 'dot_alg' else "'" + kind[0] + "alg'"
    svname = "'s.v'" if fault == 'dot_sv' else "'sv'"
    keys = "('v.w',)" if fault == 'dot_val' else ("()" if fault == 'empty_sv' else "('v',)")
    val = {'unpicklable': 'BadV', 'value_type': 'NotV'}.get(fault, 'V')
    svbase = 'PlainDict' if fault == 'sv_type' else None
    sv = f"PlainDict()" if svbase else f"mk_sv({svname}, {keys}, {val})"
    svs = '[]' if fault == 'no_sv' else '[self._sv]'
    up = f"{base}.up"
    ref = "dawgie.SV_REF(UP.task, UP.Alg(), UP.Alg().state_vectors()[0])"
    if fault == 'ref_item_type': ref = "dawgie.SV_REF(UP.task, UP.Alg(), 'not a state vector')"
    if fault == 'ref_feat_type': ref = "dawgie.V_REF(UP.task, UP.Alg(), UP.Alg().state_vectors()[0], 7)"
    if fault == 'unresolvable_val': ref = "dawgie.V_REF(UP.task, UP.Alg(), UP.Alg().state_vectors()[0], 'nope')"
    fb = "[dawgie.V_REF(UP.task, UP.Alg(), UP.Alg().state_vectors()[0], 'nope')]" if fault == 'unresolvable_fb' else '[]'
    algbase = 'object' if fault == 'alg_type' else k['base']
    namedef = '' if fault == 'abstract' else f"    def name(self): return {name}\n"
    init = f"{k['base']}.__init__(self); " if fault != 'alg_type' else ''
    fac = k['fac']
    if fault == 'arity': fac = fac.replace("prefix:str, ", "prefix:str, extra:int, ")
    if fault == 'default': fac = fac.replace("ps_hint:int=0", "ps_hint:int=5")
    if fault == 'annotation': fac = fac.replace("prefix:str", "prefix")
    botbase = 'object' if fault == 'bot_type' else k['bot']
    if fault == 'bot_type':
        botsrc = f"class {k['botc']}:\n    def __init__(self, *a): pass\n    def routines(self): return [{k['cls']}()]\n    def list(self): return [{k['cls']}()]\n"
    else:
        botsrc = f"class {k['botc']}({botbase}):\n    def list(self): return [{k['cls']}()]\n"
    extra = ''
    if fault == 'alg_type':
        extra = "    def _get_ver(self): return self._version_\n    def _set_ver(self, v): self._version_ = v\n    def design(self): return self._version_.design\n    def implementation(self): return self._version_.impl\n    def bugfix(self): return self._version_.bugfix\n"
    return f'''
class {k['cls']}({algbase}):
    def __init__(self):
        {init}self._version_ = dawgie.VERSION(1,0,0); self._sv = {sv}
{namedef}    def {k['dep']}(self): return [{ref}]
    def feedback(self): return {fb}
    {k['run']}
    def state_vectors(self): return {svs}
{extra}{botsrc}{fac}
'''


EVENTS = {
 None: "def events():\n    return [dawgie.schedule({f}, {c}(), dow=2, time=datetime.time(1,0,0)), dawgie.schedule({f}, {c}(), boot=True)]\n",
 'moment_two': "def events():\n    return [dawgie.EVENT(dawgie.ALG_REF({f}, {c}()), dawgie.MOMENT(True, None, None, 3, datetime.time(1,0,0)))]\n",
 'moment_notime': "def events():\n    return [dawgie.EVENT(dawgie.ALG_REF({f}, {c}()), dawgie.MOMENT(None, None, 12, None, None))]\n",
 'moment_type': "def events():\n    return [dawgie.EVENT(dawgie.ALG_REF({f}, {c}()), dawgie.MOMENT(None, None, 'x', None, datetime.time(1,0,0)))]\n",
}

counter = [0]


def make(root, kinds, fault=None, fkind=None, evfault=None):
    counter[0] += 1
    base = f'vae{counter[0]}'
    d = os.path.join(root, base)
    os.makedirs(os.path.join(d, 'up')); os.makedirs(os.path.join(d, 'pk'))
    open(os.path.join(d, '__init__.py'), 'w').write('')
    open(os.path.join(d, 'common.py'), 'w').write(COMMON)
    open(os.path.join(d, 'up', '__init__.py'), 'w').write(UP.format(base=base))
    src = f"import dawgie, datetime\nimport {base}.up as UP\nfrom {base}.common import *\n"
    for k in ['task', 'analysis', 'regress']:
        if k in kinds:
            src += kind_src(base, k, fault if k == fkind else None)
    if 'events' in kinds:
        owner = [k for k in ['task', 'analysis', 'regress'] if k in kinds]
        if owner:
            src += EVENTS[evfault].format(f=owner[0], c=KIND[owner[0]]['cls'])
        else:
            src += EVENTS[evfault].format(f='UP.task', c='UP.Alg')
    open(os.path.join(d, 'pk', '__init__.py'), 'w').write(src)
    return base


def verdict(root, base):
    dawgie.context.ae_base_path = os.path.join(root, base)
    dawgie.context.ae_base_package = base
    per = {}
    for r in C._get_rules():
        try: per[r] = bool(getattr(C, r)(f'{base}.pk'))
        except Exception as e: per[r] = 'EXC:' + type(e).__name__
    return all(v is True for v in per.values()), per


def main():
    root = tempfile.mkdtemp(prefix='dvc16_'); sys.path.insert(0, root)
    res = collections.Counter(); notes = []
    allk = ['task', 'analysis', 'regress', 'events']
    subsets = [set(c) for n in range(1, 5) for c in itertools.combinations(allk, n)]
    for ks in subsets:
        ok, per = verdict(root, make(root, ks))
        res['compliant accepted' if ok else 'compliant REJECTED'] += 1
        if not ok: notes.append(('compliant rejected', sorted(ks), {k: v for k, v in per.items() if v is not True}))
    for ks in [s for s in subsets if s & {'task', 'analysis', 'regress'}]:
        for fk in sorted(ks & {'task', 'analysis', 'regress'}):
            for f in FAULTS:
                ok, per = verdict(root, make(root, ks, f, fk))
                res['fault rejected' if not ok else 'fault ACCEPTED'] += 1
                if ok: notes.append(('fault accepted', f, fk, sorted(ks)))
    for ks in [s for s in subsets if 'events' in s]:
        for ef in ['moment_two', 'moment_notime', 'moment_type']:
            ok, per = verdict(root, make(root, ks, evfault=ef))
            res['fault rejected' if not ok else 'fault ACCEPTED'] += 1
            if ok: notes.append(('fault accepted', ef, sorted(ks)))
    print(dict(res))
    agg = collections.Counter()
    for n in notes:
        agg[(n[0], n[1] if n[0] == 'fault accepted' else tuple(n[1]), n[2] if n[0] == 'fault accepted' and len(n) > 3 else '')] += 1
    for k, v in sorted(agg.items(), key=str): print(v, k)
    for n in notes:
        if n[0] == 'compliant rejected': print(n); break
    shutil.rmtree(root)


main()
