'''Design-phase probe for C19 (access half): every registered endpoint x method x certificate
situation through the real DynamicContent render path; handlers replaced by recorders.'''
import sys, collections, json
import engine
import dawgie, dawgie.context, dawgie.security
import dawgie.fe.basis as B
import dawgie.fe.api, dawgie.fe.app      # registers the endpoints

COMMANDS = {'/api/cmd/run', '/api/cmd/reset', '/api/cmd/snapshot', '/api/rev/submit',
            '/app/run', '/app/reset', '/app/submit', '/app/snapshot'}


def walk(node, prefix=''):
    for name, child in node.children.items():
        p = prefix + '/' + name.decode()
        if isinstance(child, B.DynamicContent):
            yield p, child
        else:
            yield from walk(child, p)


class Tr:
    def __init__(s, cert): s.cert = cert
    def getPeerCertificate(s): return s.cert
class Req:
    def __init__(s, cert, has): s.transport = Tr(cert) if has else object(); s.args = {}


def main():
    eps = dict(walk(B._root))
    ran = []
    V = collections.Counter()
    for uri, dc in eps.items():
        dc._DynamicContent__fnc = (lambda u: (lambda **k: ran.append(u) or b'ok'))(uri)
    for certs in (False, True):
        dawgie.security._certs.clear()
        if certs: dawgie.security._certs.append('client-cert')
        for hook in ('default', 'raises'):
            dawgie.context.sanction_override = 'dawgie.security.is_sanctioned' if hook == 'default' else 'no.such.module.fn'
            for uri, dc in eps.items():
                for meth in ('render_GET', 'render_POST', 'render_PUT', 'render_DELETE'):
                    for cert, has in ((None, True), (None, False), ('c', True)):
                        ran.clear()
                        getattr(dc, meth)(Req(cert, has))
                        invoked = bool(ran)
                        V['requests'] += 1
                        if hook == 'raises' and invoked: V['handler ran although the hook raised'] += 1
                        if hook == 'default' and certs and cert is None and invoked and uri in COMMANDS:
                            V[f'anonymous ran command {uri}'] += 1
                        if hook == 'default' and certs and cert is None and invoked:
                            V['_anonymous allowed (read-only endpoints)'] += 1
                        if hook == 'default' and certs and cert is None and not invoked and meth == 'render_GET' and uri not in COMMANDS:
                            V['_anonymous denied non-command GET: ' + uri] += 1
    print('endpoints', len(eps), dict(V))


main()
