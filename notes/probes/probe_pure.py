'''Design-phase probe for the pure parts: C15 version order laws, C17 run-id normalisation, C20 dow/day delays.'''
import itertools, random, datetime, sys
import engine
import dawgie, dawgie.pl.schedule as S
from dawgie.db.basis import SearchFacade, Params, Range

# ---- C15 order laws on {-1..2}^3
class V(dawgie.Version):
    def __init__(s, t): s._version_ = dawgie.VERSION(*t)
vs = [V(t) for t in itertools.product(range(-1, 3), repeat=3)]
bad = 0
for a in vs:
    for b in vs:
        ta, tb = tuple(a._version_), tuple(b._version_)
        exp = dict(eq=ta == tb, ne=ta != tb, ge=ta >= tb, gt=ta > tb, le=ta <= tb, lt=ta < tb, newer=ta > tb)
        got = dict(eq=a == b, ne=a != b, ge=a >= b, gt=a > b, le=a <= b, lt=a < b, newer=a.newer(b._version_))
        bad += exp != got
print('C15 version pairs', len(vs) ** 2, 'law violations', bad)

# ---- C17 scrub preserves denotation
rng = random.Random(3)
def denote(items, z):
    for it in items:
        if isinstance(it, Range):
            if z in it: return True
        elif it == z: return True
    return False
bad = tot = 0
for _ in range(20000):
    toks = []
    for _ in range(rng.randint(1, 5)):
        r = rng.random()
        if r < 0.35: toks.append(str(rng.randint(0, 12)))
        elif r < 0.7:
            a, b = rng.randint(0, 12), rng.randint(0, 12); toks.append(f'{a}:{b}')
        elif r < 0.85: toks.append(f'{rng.randint(0, 12)}:')
        else: toks.append(f':{rng.randint(0, 12)}')
    expr = ','.join(toks)
    idx, rgs = SearchFacade._divide(expr)
    raw = list(idx) + rgs
    scr = SearchFacade._scrub(Params(runids=expr)).runids
    tot += 1
    if any(denote(raw, z) != denote(scr, z) for z in range(0, 16)):
        bad += 1
        if bad < 4: print('  C17 scrub changed denotation:', expr, '->', scr)
print('C17 expressions', tot, 'denotation changes', bad)

# ---- C20 dow/day: every hour of 3 years
class FD(datetime.datetime):
    _now = None
    @classmethod
    def now(cls, tz=None): return cls._now
real = datetime.datetime
S.datetime.datetime = FD
try:
    bad = tot = 0
    t = real(2027, 12, 1, 0, 30, tzinfo=datetime.UTC)
    end = real(2029, 3, 2, tzinfo=datetime.UTC)
    evs = [(dow, dawgie.schedule(None, None, dow=dow, time=datetime.time(h, m, 0))) for dow in range(7) for (h, m) in [(0, 0), (12, 0), (23, 59)]]
    while t < end:
        FD._now = t
        for dow, ev in evs:
            tot += 1
            try:
                d = S._delay(ev)
            except Exception as e:
                bad += 1; continue
            then = t + d
            ok = then.isoweekday() - 1 == dow and then.time().replace(tzinfo=None) == ev.moment.time and datetime.timedelta(days=-1) < d <= datetime.timedelta(days=7)
            bad += not ok
        t += datetime.timedelta(hours=7)
    print('C20 dow evaluations', tot, 'violations', bad)
    # dom failures by month
    fails = late = tot = 0
    t = real(2027, 1, 1, 6, 0, tzinfo=datetime.UTC)
    while t < real(2029, 1, 1, tzinfo=datetime.UTC):
        FD._now = t
        for dom in range(1, 32):
            tot += 1
            try:
                d = S._delay(dawgie.schedule(None, None, dom=dom, time=datetime.time(1, 0, 0)))
                late += d > datetime.timedelta(days=31)
            except ValueError:
                fails += 1
        t += datetime.timedelta(days=1)
    print('C20 dom evaluations', tot, 'ValueError', fails, 'further than 31 days ahead', late)
finally:
    S.datetime.datetime = real
