'''Design-phase probe for C01-C05: random histories on the real scheduler with independent oracles.'''
import random, sys, collections, copy
import engine
import dawgie, dawgie.db, dawgie.pl.schedule as S, dawgie.pl.farm as F, dawgie.pl.message as M

TARGETS = ['T1', 'T2']
dawgie.db.targets = lambda *a, **k: list(TARGETS)


def nodes():
    seen = {}
    todo = list(S.ae.at)
    while todo:
        n = todo.pop()
        if n.tag not in seen:
            seen[n.tag] = n
            todo.extend(c for c in n if c.tag != n.tag)
    return seen


def snap(N):
    return {t: (list(n.get('todo')), sorted(n.get('doing')), sorted(n.get('do'))) for t, n in N.items()}


def run(seed, nev=40, verbose=False, feedback=False):
    rng = random.Random(seed)
    desc = engine.random_desc(rng, feedback=feedback)
    Fs, works = engine.build(desc)
    S.build(Fs, [{}, {}, {}], [{}, {}, {}, {}])
    S.que.clear()
    N = nodes()
    for n in N.values():
        n.get('todo').clear()
    ins = {}
    for pkg, kinds in desc['pkgs'].items():
        for kind, lst in kinds.items():
            for a in lst:
                ins['.'.join([pkg, a['name']])] = {v for r in a['deps'] for v in engine.expand(desc, r)}
    outs = {t: ['.'.join([t, s.name(), k]) for s in n.get('alg').state_vectors() for k in s] for t, n in N.items()}
    asp = {t: S._is_asp(n) for t, n in N.items()}
    desc_of = {t: {d for d, m in N.items() if t in m.get('ancestry')} for t in N}
    inflight = []
    V = collections.Counter()
    hist = []
    for step in range(nev):
        kind = rng.choice(['org', 'tick', 'tick', 'rep', 'rep', 'rep'])
        if kind == 'org':
            names = rng.sample(sorted(N), rng.randint(1, 2))
            tg = set(rng.sample(TARGETS, rng.randint(1, 2)))
            before = snap(N)
            S.organize(names, targets=tg, event='probe')
            hist.append(('org', names, sorted(tg)))
            after = snap(N)
            for t in N:
                gained = set(after[t][0]) - set(before[t][0])
                allowed = ({'__all__'} if asp[t] else tg) if t in names else set()
                if not gained <= allowed:
                    V['C02 org gained unexpected'] += 1
        elif kind == 'tick':
            jobs = S.next_job_batch()
            hist.append(('tick', [(j.tag, sorted(j.get('do'))) for j in jobs]))
            for j in jobs:
                for t in sorted(j.get('do')):
                    # C01 oracles at release
                    for a in j.get('ancestry'):
                        an = N[a]
                        pend = set(an.get('todo')) | set(an.get('doing'))
                        if t in pend or '__all__' in pend or (t == '__all__' and pend):
                            V['C01 doing-level'] += 1
                        fl = {x for (m, x) in inflight if m == a}
                        if t in fl or '__all__' in fl or (t == '__all__' and fl):
                            V['C01 ghost-level (known #9)'] += 1
                    if (j.tag, t) in inflight:
                        V['C03 double flight (known #8/#9)'] += 1
                    inflight.append((j.tag, t))
                j.get('do').clear()
                j.set('status', S.State.running)
        elif inflight:
            tag, t = inflight.pop(rng.randrange(len(inflight)))
            outcome = rng.choice([True, True, False, None])
            vals = [('.'.join(['7', t, v]), rng.random() < 0.5) for v in outs[tag]] if outcome else None
            before = snap(N)
            qbefore = [j.tag for j in S.que]
            nchron = len(S.suc) + len(S.err)
            F.Hand._res(M.make(typ=M.Type.response, inc=(None if t == '__all__' else t), jid=tag, rid=7,
                               suc=outcome, tim={'started': 'x'}, val=vals))
            hist.append(('rep', tag, t, outcome, vals))
            after = snap(N)
            if tag not in qbefore:
                V['C03 reply dropped (job not in que) (known #8/#9)'] += 1
                continue
            if len(S.suc) + len(S.err) != nchron + 1:
                V['C05/C03 history not appended once'] += 1
            if outcome is True:
                new = {'.'.join(v.split('.')[2:]) for v, isn in vals if isn}
                exp_t = set(TARGETS) if t == '__all__' else {t}
                for c in N[tag]:
                    if c.tag == tag:
                        continue
                    consumes = bool(ins[c.tag] & new)
                    gained = set(after[c.tag][0]) - set(before[c.tag][0])
                    want = ({'__all__'} if asp[c.tag] else exp_t) if consumes else set()
                    have = set(after[c.tag][0])
                    if consumes and not want <= have:
                        V['C02 incomplete: consumer not queued'] += 1
                    if not gained <= want:
                        V['C02 not minimal: gained without new input'] += 1
                    if consumes and c.tag not in [j.tag for j in S.que]:
                        V['C02 consumer not in que'] += 1
                fbc = {S.ae.feedbacks[v].rsplit('.', 2)[0] for v in new if v in S.ae.feedbacks}
                for o in N:
                    if o not in [c.tag for c in N[tag]]:
                        gained = set(after[o][0]) - set(before[o][0])
                        if gained and o not in fbc:
                            V['C02 not minimal: non-child gained'] += 1
                for o in fbc:
                    want = {'__all__'} if asp[o] else exp_t
                    if not want <= set(after[o][0]):
                        V['C02 incomplete: feedback consumer not queued'] += 1
                    V['_feedback reports'] += 1
            else:
                for o in N:
                    b, a = before[o], after[o]
                    if o in desc_of[tag]:
                        if t in a[0]:
                            V['C05 not withdrawn'] += 1
                        chg = [set(b[i]) ^ set(a[i]) for i in range(3)]
                        if any(c - {t} for c in chg):
                            V['C05 frame: other target changed in dependent'] += 1
                    elif o == tag:
                        if any((set(b[i]) ^ set(a[i])) - {t} for i in range(3)) and t != '__all__':
                            V['C05 frame: other target changed in failed node'] += 1
                    else:
                        if b != a:
                            V['C05 frame: unrelated node changed'] += 1
                    if set(a[0]) - set(b[0]):
                        V['C05 dependent triggered'] += 1
        # C04 idle check
        if not inflight and all(not n.get('todo') and not n.get('doing') for n in N.values()):
            if S.que:
                V['C04 idle but que non-empty (known #10)'] += 1
    return V, hist


if __name__ == '__main__':
    n = int(sys.argv[1]) if len(sys.argv) > 1 else 30
    tot = collections.Counter()
    first = {}
    for seed in range(n):
        V, hist = run(seed, feedback=len(sys.argv) > 2)
        for k in V:
            first.setdefault(k, seed)
        tot.update(V)
    print('histories', n)
    for k, v in sorted(tot.items()):
        print(f'{v:6d}  {k}   (first seed {first[k]})')
