'''Design-phase probe for C06/C07/C08: random histories on the real shelve backend
(socket layer bypassed exactly as Test/test_07 does).'''
import os, random, sys, tempfile, hashlib, collections, shutil
import engine
import dawgie, dawgie.context, dawgie.db, dawgie.db.shelve, dawgie.db.shelve.comms as C
from dawgie.db.shelve.state import DBI
from dawgie.db.shelve import util

resp = [None]
C.acquire = lambda name: True
C.release = lambda s: True
def _do(self_or_req, request=None):
    req = request if request is not None else self_or_req
    C.Worker(None).do(req); return resp[0]
C.Connector._Connector__do = staticmethod(lambda request: _do(request))
C.Worker._send = lambda self, r: resp.__setitem__(0, r)


def engine_key(*a): return a


class Bot(dawgie.Task):
    def list(self): return []


def mk_alg(name, aver, sver, vver, contents=None):
    d = {'name': name, 'ver': aver, 'svs': [{'name': 'sv', 'ver': sver, 'vals': [('x', vver), ('y', vver)]}]}
    w = engine.Work(d)
    if contents:
        for k, c in contents.items():
            w.state_vectors()[0][k].content = c
    return w


def run(seed, nops=30):
    rng = random.Random(seed)
    root = tempfile.mkdtemp(prefix='dvstore_')
    for s in ['db', 'dbs', 'stg']: os.makedirs(os.path.join(root, s))
    dawgie.context.db_impl = 'shelve'; dawgie.context.db_path = root + '/db'
    dawgie.context.data_dbs = root + '/dbs'; dawgie.context.data_stg = root + '/stg'
    DBI().open()
    V = collections.Counter()
    ref = {}          # (task, alg, aver, sver, vver, target, run, vname) -> content
    seen_digest = set()
    vers = {}         # alg -> (aver, sver, vver)
    names = ['a', 'ab', 'abc', 'b']
    for _ in range(nops):
        op = rng.choice(['upd', 'upd', 'load', 'load', 'bump', 'reopen'])
        an = rng.choice(names); tn = rng.choice(['T', 'TT', 'U']); run_ = rng.randint(1, 4)
        av, sv_, vv = vers.setdefault(an, ((1, 0, 0), (1, 0, 0), (1, 0, 0)))
        if op == 'upd':
            cont = {'x': rng.randint(0, 3), 'y': rng.randint(0, 3)}
            w = mk_alg(an, av, sv_, vv, cont)
            bot = Bot('tsk', 0, run_, tn)
            ds = dawgie.db.connect(w, bot, tn)
            import pickle
            before = set(os.listdir(dawgie.context.data_dbs))
            digests = {}
            for k in cont:
                b = pickle.dumps(w.state_vectors()[0][k], pickle.HIGHEST_PROTOCOL)
                digests[k] = hashlib.md5(b).hexdigest() + '_' + hashlib.sha1(b).hexdigest()
            ds._update()
            nv = dict(bot.new_values())
            for k, c in cont.items():   # state vector iteration order x, y
                ref[('tsk', an, av, sv_, vv, tn, run_, k)] = c
                name = '.'.join([str(run_), tn, 'tsk', an, 'sv', k])
                if nv[name] != (digests[k] not in before):
                    V['C07 isnew flag != (digest absent from store before)'] += 1
                before.add(digests[k])
                key = str(engine_key(run_, tn, an, k))
        elif op == 'load':
            w = mk_alg(an, av, sv_, vv, {'x': 'untouched', 'y': 'untouched'})
            bot = Bot('tsk', 0, run_, tn)
            ds = dawgie.db.connect(w, bot, tn)
            ds._load()
            for k in ['x', 'y']:
                got = w.state_vectors()[0][k].content
                cands = {r: c for (t, a, x1, x2, x3, tt, r, kk), c in ref.items()
                         if (t, a, x1, x2, x3, tt, kk) == ('tsk', an, av, sv_, vv, tn, k)}
                want = cands.get(run_, cands[max(cands)] if cands else 'untouched')
                if got != want:
                    V[f'C06 load returned {got!r} expected {want!r}'] += 1
        elif op == 'bump':
            i = rng.randrange(3); v = list(vers[an]); x = list(v[i]); x[rng.randrange(3)] += 1; v[i] = tuple(x); vers[an] = tuple(v)
        else:
            DBI().close(); DBI().open()
        # invariants C07/C08
        T, I = DBI().tables, DBI().indices
        for tb, ix in zip(T, I):
            if tb is T.prime: continue
            ids = sorted(tb.values())
            if ids != list(range(len(ids))): V['C08 ids not gap free'] += 1
            if [tb[n] for n in ix] != list(range(len(ix))): V['C08 index != inverse of table'] += 1
        files = set(os.listdir(dawgie.context.data_dbs))
        for fn in files:
            b = open(os.path.join(dawgie.context.data_dbs, fn), 'rb').read()
            if fn != hashlib.md5(b).hexdigest() + '_' + hashlib.sha1(b).hexdigest(): V['C07 file name != digest'] += 1
        for k, blob in T.prime.items():
            if blob not in files: V['C07 dangling catalogue entry'] += 1
        rids = [eval(k)[0] for k in T.prime]
        if rids and dawgie.db.shelve.next() <= max(rids): V['C08 next not greater'] += 1
    if os.listdir(dawgie.context.data_stg): V['staging not emptied'] += 1
    DBI().close(); shutil.rmtree(root)
    return V


tot = collections.Counter()
N = int(sys.argv[1]) if len(sys.argv) > 1 else 20
for s in range(N):
    tot.update(run(s))
print('histories', N, dict(tot) or 'no violations')
