# usage: python witness_c12.py [/repo]   -- witness for finding #11 (C12 stale poller handle)
import sys, os, tempfile
ROOT=sys.argv[1] if len(sys.argv)>1 else '/repo'; sys.path.insert(0,ROOT+'/Python')
import logging; logging.disable(logging.CRITICAL)
import dawgie, dawgie.context
tmp=tempfile.mkdtemp(); dawgie.context.fe_path=tmp
import twisted.internet.threads as TT
class FakeD:
    def __init__(s,f): s.f=f; s.cbs=[]
    def addCallbacks(s,cb,eb=None): s.cbs.append(cb)
    def addErrback(s,eb): pass
pend=[]
TT.deferToThread=lambda f,*a,**k: (pend.append(FakeD(lambda: f(*a,**k))) or pend[-1])
import dawgie.pl.state as ST, dawgie.pl.farm as F, dawgie.pl.schedule as S
fsm=ST.FSM(initial_state='running'); dawgie.context.fsm=fsm
trig=[]; fsm.update_trigger=lambda: trig.append('update')
S.que.append('stuck'); F._busy.append('x[T]')
fsm.set_submit_info('c1','todo_empty'); fsm.submit_crossroads()
fsm.set_submit_info('c2','crew_idle'); fsm.submit_crossroads()
d=pend[0]; d.f(); [cb(None) for cb in d.cbs]
F._busy.clear(); d=pend[1]; d.f(); [cb(None) for cb in d.cbs]
fsm.reset(); n=len(pend)
fsm.set_submit_info('c3','todo_empty'); fsm.submit_crossroads()
print('C12 new-cycle pollers started:', len(pend)-n, 'triggers so far', trig)
S.que.clear(); d=pend[-1]; d.f(); [cb(None) for cb in d.cbs]; print('C12 triggers', trig)
