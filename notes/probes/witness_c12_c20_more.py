'''Witnesses for findings #12, #13 (C12) and #14.3 (C20 recurrence) on the real modules.
usage: python witness_c12_c20_more.py [/repo]'''
import sys, os, tempfile, logging, datetime
ROOT = sys.argv[1] if len(sys.argv) > 1 else '/repo'
sys.path.insert(0, ROOT + '/Test'); sys.path.insert(0, ROOT + '/Python')
logging.disable(logging.CRITICAL)
import dawgie, dawgie.context
assert dawgie.__file__.startswith(ROOT)
tmp = tempfile.mkdtemp(); dawgie.context.fe_path = tmp; dawgie.context.data_dbs = tmp
import twisted.internet.threads as TT, twisted.internet.reactor as R
import transitions
class FakeD:
    def __init__(s, f): s.f = f; s.cbs = []
    def addCallbacks(s, cb, eb=None): s.cbs.append(cb)
    def addErrback(s, eb): pass
pend = []
TT.deferToThread = lambda f, *a, **k: (pend.append(FakeD(lambda: f(*a, **k))) or pend[-1])
import dawgie.pl.state as ST, dawgie.pl.farm as F, dawgie.pl.schedule as S

print('#12 C12: waiter condition becomes true while the FSM is gitting')
fsm = ST.FSM(initial_state='running'); dawgie.context.fsm = fsm
S.que.clear(); S.que.append('work'); F._busy.clear()
fsm.set_submit_info('c1', 'todo_empty'); fsm.submit_crossroads()
fsm.gitting_trigger()                       # a second submission begins
S.que.clear()                               # queue drains
d = pend.pop(0); d.f()
try:
    [cb(None) for cb in d.cbs]
except transitions.MachineError as e:
    print('   done() raised MachineError:', str(e)[:60])
fsm.running_trigger()                       # second submission finishes
n = len(pend)
fsm.set_submit_info('c2', 'todo_empty'); fsm.submit_crossroads()
print('   state', fsm.state, '; pollers started for the new TODO submission:', len(pend) - n,
      '; todo_thread is None:', fsm.todo_thread is None, ' => update never triggered')

print('#13 C12: poll-then-callback race (CREW)')
pend.clear(); fsm = ST.FSM(initial_state='running'); dawgie.context.fsm = fsm
fired = []
orig = fsm.update_trigger
fsm.update_trigger = lambda: fired.append(list(F._busy))
F._busy.clear(); F._busy.append('a.b[T]')
fsm.set_submit_info('c', 'crew_idle'); fsm.submit_crossroads()
F._busy.clear()
d = pend.pop(0); d.f()                      # poller thread sees an idle crew and returns
F._busy.append('x.y[T]')                    # a dispatch tick hands out new work before the callback runs
[cb(None) for cb in d.cbs]
print('   update_trigger fired with busy =', fired)

print('#14.3 C20: weekly event does not fire again')
import test_15 as t, dawgie.db, dawgie.util, dawgie.util.names
timers = []
R.callLater = lambda delay, f, *a: timers.append((delay, f, a))
dawgie.db.targets = lambda *a: ['T']
dawgie.util.task_name = t._mock_task_name; dawgie.util.names.task_name = t._mock_task_name
real = datetime.datetime
class FD(datetime.datetime):
    _now = real(2026, 3, 2, 0, 58, tzinfo=datetime.UTC)     # a Monday
    @classmethod
    def now(cls, tz=None): return cls._now
S.datetime.datetime = FD
try:
    def events():
        return [dawgie.schedule(t.task, t._root, dow=0, time=datetime.time(1, 0, 0))]
    Fs = {dawgie.Factories.analysis: [t.analysis], dawgie.Factories.events: [events],
          dawgie.Factories.regress: [t.regress], dawgie.Factories.task: [t.task]}
    S.build(Fs, [{}, {}, {}], [{}, {}, {}, {}]); S.per.clear(); S.booted.clear()
    S.periodics(Fs[dawgie.Factories.events])
    print('   monday 00:58: que =', [j.tag for j in S.que], 'timers armed:', len(timers))
    jobs = S.next_job_batch()
    for j in jobs: j.get('do').clear(); j.set('status', S.State.running)
    S.complete(S.find('test_15.root'), 1, 'T', {}, S.State.success)
    print('   after completion status =', S.per[0].get('status').name, '; que =', [j.tag for j in S.que])
    FD._now = real(2026, 3, 9, 0, 58, tzinfo=datetime.UTC)  # next Monday
    for delay, f, a in list(timers): f(*a)
    S.defer()
    print('   next monday 00:58 after defer(): que =', [j.tag for j in S.que], ' => did not fire again')
finally:
    S.datetime.datetime = real
