'''Witness for finding #7 (C16): a package that only offers a regression is rejected with
UnboundLocalError inside tools.compliant._walk.  usage: python witness_c16.py [/repo]'''
import sys, os, tempfile, logging, textwrap
ROOT = sys.argv[1] if len(sys.argv) > 1 else '/repo'
sys.path.insert(0, ROOT + '/Python')
logging.disable(logging.CRITICAL)
tmp = tempfile.mkdtemp(); os.makedirs(tmp + '/vae/tk'); os.makedirs(tmp + '/vae/ronly')
open(tmp + '/vae/__init__.py', 'w').write('')
open(tmp + '/vae/common.py', 'w').write(textwrap.dedent("""
    import dawgie
    class V(dawgie.Value):
        def __init__(self): dawgie.Value.__init__(self); self._version_=dawgie.VERSION(1,0,0)
        def features(self): return []
    class SV(dawgie.StateVector):
        def __init__(self): dawgie.StateVector.__init__(self); self._version_=dawgie.VERSION(1,0,0); self['v']=V()
        def name(self): return 'sv'
        def view(self,c,v): pass
    """))
open(tmp + '/vae/tk/__init__.py', 'w').write(textwrap.dedent("""
    import dawgie
    from vae.common import SV
    class Alg(dawgie.Algorithm):
        def __init__(self): dawgie.Algorithm.__init__(self); self._version_=dawgie.VERSION(1,0,0); self._sv=SV()
        def name(self): return 'a'
        def previous(self): return []
        def feedback(self): return []
        def run(self,ds,ps): pass
        def state_vectors(self): return [self._sv]
    class Bot(dawgie.Task):
        def list(self): return [Alg()]
    def task(prefix:str, ps_hint:int=0, runid:int=-1, target:str='__none__'):
        return Bot(prefix,ps_hint,runid,target)
    """))
open(tmp + '/vae/ronly/__init__.py', 'w').write(textwrap.dedent("""
    import dawgie
    import vae.tk
    from vae.common import SV
    class Reg(dawgie.Regression):
        def __init__(self): dawgie.Regression.__init__(self); self._version_=dawgie.VERSION(1,0,0); self._sv=SV()
        def name(self): return 'r'
        def variables(self): return [dawgie.SV_REF(vae.tk.task, vae.tk.Alg(), vae.tk.Alg().state_vectors()[0])]
        def feedback(self): return []
        def run(self,ps,tl): pass
        def state_vectors(self): return [self._sv]
    class Bot(dawgie.Regress):
        def list(self): return [Reg()]
    def regress(prefix:str, ps_hint:int=0, target:str='__none__'):
        return Bot(prefix,ps_hint,target)
    """))
sys.path.insert(0, tmp)
import dawgie, dawgie.context
dawgie.context.ae_base_path = tmp + '/vae'; dawgie.context.ae_base_package = 'vae'
import dawgie.tools.compliant as C
for t in ['vae.tk', 'vae.ronly']:
    res = {}
    for r in C._get_rules():
        try: res[r] = getattr(C, r)(t)
        except Exception as e: res[r] = 'EXC ' + type(e).__name__
    print(t, res)
print('C16 gate verdict for both packages:', C._verify(['vae.tk', 'vae.ronly'], True, False))
