# usage: python witness_fixable.py [/repo]   -- witnesses for findings #1-#8 (C19 C17 C08 C18 C03) on the real modules
import sys, os, tempfile, datetime
ROOT=sys.argv[1] if len(sys.argv)>1 else '/repo'
sys.path.insert(0,ROOT+'/Test'); sys.path.insert(0,ROOT+'/Python')
import logging; logging.disable(logging.CRITICAL)
import dawgie, dawgie.context
tmp=tempfile.mkdtemp()
for s in ['db','dbs','stg','fe','r1/d','r2']: os.makedirs(os.path.join(tmp,s))
dawgie.context.db_impl='shelve'; dawgie.context.db_path=tmp+'/db'; dawgie.context.data_dbs=tmp+'/dbs'; dawgie.context.data_stg=tmp+'/stg'; dawgie.context.fe_path=tmp+'/r1'
import dawgie.fe
open(tmp+'/secret.txt','w').write('secret'); os.symlink(tmp+'/secret.txt', tmp+'/r1/d/index.html'); open(tmp+'/r2/ok.html','w').write('ok')
print('C19 traversal:', dawgie.fe._static('/../secret.txt', tmp+'/r2', False)[:30])
print('C19 symlink idx:', dawgie.fe._static('/d', tmp+'/r2', False)[:30])
print('C19 normal:', dawgie.fe._static('/ok.html', tmp+'/r2', False))
dawgie.context.fe_path=tmp+'/fe'
import dawgie.db, dawgie.db.shelve
from dawgie.db.shelve.state import DBI
from dawgie.db.shelve import util
from dawgie.db.basis import Params
DBI().open(); T=DBI().tables; I=DBI().indices
class V(dawgie.Version):
    def __init__(s,v): s._version_=dawgie.VERSION(*v)
def reg(run,tn,task,alg,sv,val):
    tid=util.append(tn,T.target,I.target)[1]; k=util.append(task,T.task,I.task)[1]
    a=util.append(alg,T.alg,I.alg,k,V((1,0,0)))[1]; s=util.append(sv,T.state,I.state,a,V((1,0,0)))[1]
    v=util.append(val,T.value,I.value,s,V((1,0,0)))[1]; T.prime[str((run,tid,k,a,s,v))]='x'
for run in range(1,8): reg(run,'T','tsk','alg','sv','v'); reg(run,'T','tsk','alg2','sv','v')
S=dawgie.db.shelve.search()
print('C17 page(2,2):',S.find(Params(),2,2).items,' range 2:4:',S.find(Params(runids='2:4')).items, ' mixed 6,1:3:', S.find(Params(runids='6,1:3')).total)
dawgie.db.shelve.remove(3,'T','tsk','alg','sv','v')
print('C08 after remove alg run3:',[k for k in dawgie.db.shelve._prime_keys() if k.startswith('3.')])
import dawgie.pl.logger.chronicle as C
U=datetime.UTC
def app(ts,rid): C.append({'changeset':'c','runid':rid,'status':'success','target':'T','task':'t.a','timing':{'completed':ts},'version':'1.0.0'})
app(datetime.datetime(2026,1,9,15,0,tzinfo=U),1); app(datetime.datetime(2026,1,10,8,0,tzinfo=U),2); app(datetime.datetime(2026,1,9,9,0,tzinfo=U),3); app(datetime.datetime(2025,12,31,23,59,tzinfo=U),4)
print('C18 window (9th 10:00, 10th 09:00) expect [2,1]:',[e['runid'] for e in C.find(after=datetime.datetime(2026,1,9,10,0,tzinfo=U),before=datetime.datetime(2026,1,10,9,0,tzinfo=U))])
print('C18 before-only limit 3 expect [2,1,3]:',[e['runid'] for e in C.find(before=datetime.datetime(2026,1,10,9,0,tzinfo=U),limit=3)])
print('C18 before-only expect [2,1,3,4]:',[e['runid'] for e in C.find(before=datetime.datetime(2026,1,10,9,0,tzinfo=U),limit=10)])
# C03
import test_15 as t, dawgie.pl.schedule as Sc, dawgie.util, dawgie.util.names
dawgie.db.targets=lambda *a: ['T1','T2']
dawgie.util.task_name=t._mock_task_name; dawgie.util.names.task_name=t._mock_task_name
F={dawgie.Factories.analysis:[t.analysis],dawgie.Factories.events:[t.events],dawgie.Factories.regress:[t.regress],dawgie.Factories.task:[t.task]}
Sc.build(F,[{},{},{}],[{},{},{},{}])
Sc.organize(['test_15.root'],targets={'T1'},event='x'); b=Sc.next_job_batch()
for j in b: j.get('do').clear()
Sc.organize(['test_15.root'],targets={'T1'},event='x'); b2=Sc.next_job_batch()
print('C03 second batch releases:',[(j.tag,sorted(j.get('do'))) for j in b2], 'todo kept:', list(Sc.find('test_15.root').get('todo')))
Sc.complete(Sc.find('test_15.root'),1,'T1',{},Sc.State.success); b3=Sc.next_job_batch()
print('C03 after completion re-released:',[(j.tag,sorted(j.get('do'))) for j in b3])
