'''Witnesses for the scheduler findings (#8 C03 double release, #9 C01 purge clears doing of
in-flight dependent, #10 C04 stale queue entry) on the real dawgie.pl.schedule.
usage: python witness_sched.py [/repo]'''
import sys, os, tempfile, logging
ROOT = sys.argv[1] if len(sys.argv) > 1 else '/repo'
sys.path.insert(0, ROOT + '/Test'); sys.path.insert(0, ROOT + '/Python')
logging.disable(logging.CRITICAL)
import test_15 as t
import dawgie, dawgie.context, dawgie.db, dawgie.pl.schedule as S, dawgie.util, dawgie.util.names
assert dawgie.__file__.startswith(ROOT)
d = tempfile.mkdtemp(); dawgie.context.data_dbs = d; dawgie.context.fe_path = d
dawgie.db.targets = lambda *a: ['T']
dawgie.util.task_name = t._mock_task_name; dawgie.util.names.task_name = t._mock_task_name
F = {dawgie.Factories.analysis: [t.analysis], dawgie.Factories.events: [t.events],
     dawgie.Factories.regress: [t.regress], dawgie.Factories.task: [t.task]}
S.build(F, [{}, {}, {}], [{}, {}, {}, {}])
inflight = []
def batch():
    out = []
    for j in S.next_job_batch():
        for tg in sorted(j.get('do')):
            out.append((j.tag, tg)); inflight.append((j.tag, tg))
        j.get('do').clear()
    return out
def reply(tag, tg, ok, vals=()):
    inflight.remove((tag, tg))
    try:
        j = S.find(tag)
    except IndexError:
        print('   reply for', tag, tg, 'DROPPED: job not in que'); return
    S.complete(j, 1, tg, {}, S.State.success if ok else S.State.failure)
    S.update(list(vals), j, 1) if ok else S.purge(j, tg)
print('#8 C03: request, release, request again, release')
S.organize(['test_15.root'], targets={'T'}, event='e'); print('  ', batch())
S.organize(['test_15.root'], targets={'T'}, event='e'); print('  ', batch(), 'in flight:', inflight)
reply('test_15.root', 'T', True, [('1.T.test_15.root.sv.goat', False)])
reply('test_15.root', 'T', True, [('1.T.test_15.root.sv.goat', False)])
print('#9 C01: root->B->C ; B in flight, root re-run fails, C requested')
S.organize(['test_15.B'], targets={'T'}, event='e'); print('  ', batch())
S.organize(['test_15.root'], targets={'T'}, event='e'); print('  ', batch())
reply('test_15.root', 'T', False)
print('   B.doing =', S.find('test_15.B').get('doing'), '; B really in flight:', ('test_15.B', 'T') in inflight)
S.organize(['test_15.C'], targets={'T'}, event='e')
print('   released', batch(), 'while ancestor B in flight:', ('test_15.B', 'T') in inflight)
print('#10 C04: failure leaves dependents queued with nothing to do')
S.que.clear(); inflight.clear()
for n in S.ae.at:
    for m in n.iter():
        m.get('todo').clear(); m.get('doing').clear()
S.organize(['test_15.root', 'test_15.A'], targets={'T'}, event='e'); batch()
reply('test_15.root', 'T', False)
print('   que =', [j.tag for j in S.que], ' view_todo =', S.view_todo(), ' next batch =', batch())
