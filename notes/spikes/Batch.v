(* Spike: release safety of one next_job_batch (closed-form filter), C01_doing core. *)
From Coq Require Import List Arith Lia Bool.
Import ListNotations.

Definition node := nat.
Definition tgt := nat.           (* 0 = __all__ *)
Definition ALL : tgt := 0.

Record nst := { todo : list tgt; doing : list tgt; do_ : list tgt }.
Definition smap := node -> nst.
Definition upd (m : smap) (k : node) (v : nst) : smap := fun x => if Nat.eqb x k then v else m x.

Definition mem (t : tgt) (l : list tgt) : bool := existsb (Nat.eqb t) l.
Definition pend (m : smap) (a : node) (t : tgt) : bool := mem t (todo (m a)) || mem t (doing (m a)).

Section G.
Variable anc : node -> list node.

Definition deps (que : list node) (x : node) : list node :=
  filter (fun d => existsb (Nat.eqb d) (anc x)) que.

(* closed form of the nested loops *)
Definition blocked_all (m : smap) (que : list node) (x : node) : bool :=
  existsb (fun d => existsb (fun t => Nat.eqb t ALL || pend m d ALL) (todo (m x))) (deps que x).
Definition avail (m : smap) (que : list node) (x : node) : list tgt :=
  if blocked_all m que x then []
  else filter (fun t => negb (existsb (fun d => pend m d t) (deps que x))) (todo (m x)).

Definition release (m : smap) (que : list node) (x : node) : smap * list (node * tgt) :=
  let av := avail m que x in
  let s := m x in
  (upd m x {| todo := filter (fun t => negb (mem t av)) (todo s);
              doing := doing s ++ av; do_ := do_ s ++ av |},
   map (fun t => (x, t)) av).

Fixpoint batch (m : smap) (que todoq : list node) : smap * list (node * tgt) :=
  match todoq with
  | [] => (m, [])
  | x :: xs => let '(m1, r1) := release m que x in
               let '(m2, r2) := batch m1 que xs in (m2, r1 ++ r2)
  end.

Lemma mem_app t a b : mem t (a ++ b) = mem t a || mem t b.
Proof. unfold mem. apply existsb_app. Qed.

Lemma mem_cons t u l : mem t (u :: l) = Nat.eqb t u || mem t l.
Proof. reflexivity. Qed.

Lemma mem_filter_out t av l : mem t (filter (fun u => negb (mem u av)) l) = mem t l && negb (mem t av).
Proof.
  induction l as [|u l IH]; [reflexivity|].
  cbn [filter]. rewrite (mem_cons t u l). destruct (mem u av) eqn:E; cbn [negb].
  - rewrite IH. destruct (Nat.eqb t u) eqn:Q; cbn [orb]; [|reflexivity].
    apply Nat.eqb_eq in Q. subst. rewrite E. cbn. rewrite andb_false_r. reflexivity.
  - rewrite mem_cons, IH. destruct (Nat.eqb t u) eqn:Q; cbn [orb]; [|reflexivity].
    apply Nat.eqb_eq in Q. subst. rewrite E. reflexivity.
Qed.

Lemma avail_sub m que x t : mem t (avail m que x) = true -> mem t (todo (m x)) = true.
Proof.
  unfold avail. destruct (blocked_all m que x); [discriminate|].
  unfold mem. rewrite !existsb_exists. intros [u [Hu E]]. apply filter_In in Hu. exists u. tauto.
Qed.

(* pend (as a set) is invariant under release *)
Lemma release_pend m que x a t : pend (fst (release m que x)) a t = pend m a t.
Proof.
  unfold release, pend, upd. cbn [fst]. destruct (Nat.eqb a x) eqn:E; [|reflexivity].
  apply Nat.eqb_eq in E. subst a. cbn [todo doing].
  rewrite mem_filter_out, mem_app.
  destruct (mem t (avail m que x)) eqn:A.
  - rewrite (avail_sub _ _ _ _ A). cbn. rewrite orb_true_r. reflexivity.
  - cbn. rewrite andb_true_r, orb_false_r. reflexivity.
Qed.

Lemma batch_pend xs : forall m que a t, pend (fst (batch m que xs)) a t = pend m a t.
Proof.
  induction xs as [|x xs IH]; intros; cbn [batch]; [reflexivity|].
  destruct (release m que x) as [m1 r1] eqn:R. destruct (batch m1 que xs) as [m2 r2] eqn:B. cbn [fst].
  replace m2 with (fst (batch m1 que xs)) by (rewrite B; reflexivity). rewrite IH.
  replace m1 with (fst (release m que x)) by (rewrite R; reflexivity). apply release_pend.
Qed.

(* what release hands out is safe w.r.t. the state it was computed in *)
Lemma release_safe m que x t a :
  In (x, t) (snd (release m que x)) -> In a (anc x) -> In a que ->
  pend m a t = false /\ pend m a ALL = false /\ (t = ALL -> False).
Proof.
  unfold release. cbn [snd]. rewrite in_map_iff. intros [u [E Hu]] Ha Hq. inversion E; subst u; clear E.
  unfold avail in Hu. destruct (blocked_all m que x) eqn:B; [contradiction|].
  apply filter_In in Hu. destruct Hu as [Ht Hf].
  assert (Hd : In a (deps que x)).
  { unfold deps. apply filter_In. split; [exact Hq|]. apply existsb_exists. exists a. split; [exact Ha|apply Nat.eqb_refl]. }
  repeat split.
  - apply negb_true_iff in Hf. destruct (pend m a t) eqn:P; [|reflexivity].
    exfalso. rewrite <- not_true_iff_false in Hf. apply Hf. apply existsb_exists. exists a. tauto.
  - unfold blocked_all in B. destruct (pend m a ALL) eqn:P; [|reflexivity]. exfalso.
    rewrite <- not_true_iff_false in B. apply B. apply existsb_exists. exists a. split; [exact Hd|].
    apply existsb_exists. exists t. split; [exact Ht|]. rewrite P. apply orb_true_r.
  - intros ->. unfold blocked_all in B. rewrite <- not_true_iff_false in B. apply B.
    apply existsb_exists. exists a. split; [exact Hd|]. apply existsb_exists. exists ALL. split; [exact Ht|reflexivity].
Qed.

(* C01_doing for one batch: everything released is safe in the FINAL state, for ancestors in the queue *)
Theorem batch_safe xs : forall m que x t a,
  In (x, t) (snd (batch m que xs)) -> In a (anc x) -> In a que ->
  let m' := fst (batch m que xs) in
  pend m' a t = false /\ pend m' a ALL = false /\ t <> ALL.
Proof.
  induction xs as [|y ys IH]; intros m que x t a Hin Ha Hq; cbn [batch] in *; [contradiction|].
  destruct (release m que y) as [m1 r1] eqn:R. destruct (batch m1 que ys) as [m2 r2] eqn:B.
  cbn [fst snd] in *. apply in_app_or in Hin. destruct Hin as [H1|H2].
  - assert (y = x) as ->.
    { replace r1 with (snd (release m que y)) in H1 by (rewrite R; reflexivity).
      unfold release in H1. cbn [snd] in H1. apply in_map_iff in H1. destruct H1 as [u [E _]]. congruence. }
    replace r1 with (snd (release m que x)) in H1 by (rewrite R; reflexivity).
    destruct (release_safe _ _ _ _ _ H1 Ha Hq) as [P1 [P2 P3]].
    replace m2 with (fst (batch m1 que ys)) by (rewrite B; reflexivity).
    rewrite !batch_pend. replace m1 with (fst (release m que x)) by (rewrite R; reflexivity).
    rewrite !release_pend. auto.
  - replace r2 with (snd (batch m1 que ys)) in H2 by (rewrite B; reflexivity).
    specialize (IH m1 que x t a H2 Ha Hq). rewrite B in IH. exact IH.
Qed.
End G.
Print Assumptions batch_safe.
