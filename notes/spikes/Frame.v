From Coq Require Import List Arith Lia Bool.
Import ListNotations.

Section Frame.
Variable byte : Type.
Variable be32 : list byte -> nat.   (* big-endian decode of the header *)
Variable hlen : nat.                (* header length; 4 in the code *)
Hypothesis hlen_pos : 0 < hlen.

Record st := { buf : list byte; len : option nat }.

Definition need (s : st) : nat := match len s with None => hlen | Some n => n end.

(* one iteration of the while loop; None = loop condition false *)
Definition iter (s : st) : option (st * list (list byte)) :=
  if need s <=? length (buf s) then
    match len s with
    | None   => Some ({| buf := skipn hlen (buf s); len := Some (be32 (firstn hlen (buf s))) |}, [])
    | Some n => Some ({| buf := skipn n (buf s); len := None |}, [firstn n (buf s)])
    end
  else None.

Fixpoint drain (fuel : nat) (s : st) : st * list (list byte) :=
  match fuel with
  | 0 => (s, [])
  | S f => match iter s with
           | None => (s, [])
           | Some (s', out) => let '(s'', out') := drain f s' in (s'', out ++ out')
           end
  end.

Definition fuel_for (s : st) : nat := 2 * length (buf s) + 2.
Definition feed (s : st) (data : list byte) : st * list (list byte) :=
  let s0 := {| buf := buf s ++ data; len := len s |} in drain (fuel_for s0) s0.

(* a run is finished when the loop condition is false in its final state *)
Definition finished (s : st) : Prop := iter s = None.

(* measure: a None->Some step consumes hlen>0 bytes; a Some->None step may consume 0 *)
Definition mu (s : st) : nat := 2 * length (buf s) + match len s with None => 0 | Some _ => 1 end.

Lemma iter_mu s s' o : iter s = Some (s', o) -> mu s' < mu s.
Proof.
  unfold iter, mu, need. destruct (len s) as [n|] eqn:E; destruct (_ <=? _) eqn:L; try discriminate;
  intros H; inversion H; subst; clear H; cbn [buf len]; apply Nat.leb_le in L; rewrite skipn_length; lia.
Qed.

Lemma drain_finished f s : mu s < f -> finished (fst (drain f s)).
Proof.
  revert s. induction f as [|f IH]; intros s Hm; [lia|].
  simpl. destruct (iter s) as [[s' o]|] eqn:E.
  - pose proof (iter_mu _ _ _ E). specialize (IH s' ltac:(lia)).
    destruct (drain f s') as [s'' o'] eqn:D. simpl in *. exact IH.
  - simpl. exact E.
Qed.

Lemma drain_more f g s : mu s < f -> f <= g -> drain g s = drain f s.
Proof.
  revert g s. induction f as [|f IH]; intros g s Hm Hg; [lia|].
  destruct g as [|g]; [lia|]. simpl.
  destruct (iter s) as [[s' o]|] eqn:E; [|reflexivity].
  pose proof (iter_mu _ _ _ E). rewrite (IH g s') by lia. reflexivity.
Qed.

(* appending bytes to the buffer of a state *)
Definition app_buf (s : st) (d : list byte) : st := {| buf := buf s ++ d; len := len s |}.

Lemma iter_app s s' o d : iter s = Some (s', o) -> iter (app_buf s d) = Some (app_buf s' d, o).
Proof.
  unfold iter, need, app_buf. simpl. destruct (len s) as [n|] eqn:E; destruct (_ <=? length (buf s)) eqn:L; try discriminate;
  apply Nat.leb_le in L; intros H; inversion H; subst; clear H; cbn [buf len];
  rewrite app_length; (destruct (_ <=? _) eqn:L2; [|apply Nat.leb_gt in L2; lia]);
  rewrite firstn_app, skipn_app; 
  replace (_ - length (buf s)) with 0 by lia; simpl; rewrite app_nil_r; reflexivity.
Qed.

Definition run (s : st) : st * list (list byte) := drain (S (mu s)) s.

Lemma drain_run f s : mu s < f -> drain f s = run s.
Proof. intros H. unfold run. apply drain_more; lia. Qed.

Lemma run_stop s : iter s = None -> run s = (s, []).
Proof. intros H. unfold run. cbn [drain]. rewrite H. reflexivity. Qed.

Lemma run_step s s' o : iter s = Some (s', o) ->
  run s = (fst (run s'), o ++ snd (run s')).
Proof.
  intros H. pose proof (iter_mu _ _ _ H) as Hlt. unfold run at 1. cbn [drain]. rewrite H.
  rewrite (drain_run (mu s) s') by lia. destruct (run s'); reflexivity.
Qed.

(* key lemma: a run on b1 that has stopped, continued with b2, equals the run on b1++b2 *)
Lemma run_app d : forall s,
  run (app_buf s d) = (fst (run (app_buf (fst (run s)) d)), snd (run s) ++ snd (run (app_buf (fst (run s)) d))).
Proof.
  intros s. remember (mu s) as m eqn:Hm. revert s Hm.
  induction m as [m IH] using lt_wf_ind. intros s Hm.
  destruct (iter s) as [[s' o]|] eqn:E.
  - pose proof (iter_mu _ _ _ E) as Hlt.
    rewrite (run_step _ _ _ (iter_app _ _ _ d E)).
    rewrite (run_step _ _ _ E). cbn [fst snd].
    rewrite (IH (mu s') ltac:(lia) s' eq_refl). cbn [fst snd].
    rewrite app_assoc. reflexivity.
  - rewrite (run_stop _ E). cbn [fst snd]. destruct (run (app_buf s d)); reflexivity.
Qed.

(* feed = run after appending; chunking theorem *)
Definition feed' (s : st) (data : list byte) := run (app_buf s data).

Lemma feed_feed s a b :
  feed' s (a ++ b) = (fst (feed' (fst (feed' s a)) b), snd (feed' s a) ++ snd (feed' (fst (feed' s a)) b)).
Proof.
  unfold feed'. 
  replace (app_buf s (a ++ b)) with (app_buf (app_buf s a) b)
    by (unfold app_buf; cbn [buf len]; rewrite app_assoc; reflexivity).
  apply run_app.
Qed.

Fixpoint feed_all (s : st) (chunks : list (list byte)) : st * list (list byte) :=
  match chunks with
  | [] => (s, [])
  | c :: cs => let '(s1, o1) := feed' s c in let '(s2, o2) := feed_all s1 cs in (s2, o1 ++ o2)
  end.

Lemma run_idem s : run (fst (run s)) = (fst (run s), []).
Proof.
  apply run_stop. unfold run. apply drain_finished. lia.
Qed.

Theorem chunking s chunks :
  iter s = None ->
  feed_all s chunks = feed' s (concat chunks).
Proof.
  revert s. induction chunks as [|c cs IH]; intros s Hs; cbn [feed_all concat].
  - unfold feed'. replace (app_buf s []) with s by (destruct s; unfold app_buf; cbn; rewrite app_nil_r; reflexivity).
    rewrite (run_stop _ Hs). reflexivity.
  - rewrite feed_feed. destruct (feed' s c) as [s1 o1] eqn:F. cbn [fst snd].
    assert (H1 : iter s1 = None).
    { unfold feed' in F. pose proof (drain_finished (S (mu (app_buf s c))) (app_buf s c) ltac:(lia)) as Hf.
      unfold run in F. rewrite F in Hf. exact Hf. }
    rewrite (IH s1 H1). destruct (feed' s1 (concat cs)); reflexivity.
Qed.
End Frame.
Check chunking.
Print Assumptions chunking.
