(* Spike: C17 run-id range merging preserves the denoted set. *)
From Coq Require Import List ZArith Lia Bool ZifyBool Sorting.Sorted.
Import ListNotations. Open Scope Z_scope.

Definition rng := (Z * option Z)%type.
Definition inr (z : Z) (r : rng) : bool :=
  match r with (a, None) => a <=? z | (a, Some b) => (a <=? z) && (z <? b) end.
Definition den (l : list rng) (z : Z) : bool := existsb (inr z) l.

(* merged kept reversed: head = merged[-1] *)
Definition step (acc : list rng) (r : rng) : list rng :=
  match acc with
  | [] => [r]
  | (a, None) :: _ => acc
  | (a, Some b) :: tl =>
      if fst r >? b then r :: acc
      else match snd r with
           | None => (a, None) :: tl
           | Some rb => if rb >? b then (a, Some rb) :: tl else acc
           end
  end.
Definition merge (l : list rng) : list rng :=
  match l with [] => [] | r :: rs => rev (fold_left step rs [r]) end.

Definition starts_ge (a : Z) (l : list rng) : Prop := Forall (fun r => a <= fst r) l.

Lemma den_app l1 l2 z : den (l1 ++ l2) z = den l1 z || den l2 z.
Proof. apply existsb_app. Qed.

(* one step preserves the union, provided the new range starts at or after the head's start *)
Lemma step_den acc r z :
  (match acc with [] => True | h :: _ => fst h <= fst r end) ->
  den (step acc r) z = den acc z || inr z r.
Proof.
  destruct acc as [|[a [b|]] tl]; cbn [step]; intros H.
  - cbn. rewrite orb_false_r. reflexivity.
  - cbn [fst] in H. destruct r as [ra rb]. cbn [fst snd] in *.
    destruct (ra >? b) eqn:E1.
    + cbn [den existsb]. rewrite orb_comm. reflexivity.
    + destruct rb as [rb|].
      * destruct (rb >? b) eqn:E2; cbn [den existsb inr]; 
        destruct (den tl z); rewrite ?orb_true_r, ?orb_false_r; try reflexivity;
        unfold den; cbn [existsb inr]; lia.
      * cbn [den existsb inr]. destruct (existsb (inr z) tl); rewrite ?orb_true_r, ?orb_false_r; try reflexivity; lia.
  - cbn [fst] in H. destruct r as [ra rb]. cbn [fst snd] in *.
    cbn [den existsb inr]. destruct rb as [rb|]; cbn [inr];
    destruct (existsb (inr z) tl); rewrite ?orb_true_r, ?orb_false_r; try reflexivity; lia.
Qed.

(* the head's start never exceeds the start it had or the start of the range just appended *)
Lemma step_head acc r x :
  (match acc with [] => True | h :: _ => fst h <= x end) -> fst r <= x ->
  match step acc r with [] => True | h :: _ => fst h <= x end.
Proof.
  destruct acc as [|[a [b|]] tl]; cbn [step]; intros H Hr; cbn [fst] in *; auto.
  destruct (fst r >? b); cbn [fst]; auto.
  destruct (snd r) as [rb|]; cbn [fst]; auto.
  destruct (rb >? b); cbn [fst]; auto.
Qed.

Lemma fold_den rs : forall acc z,
  Sorted (fun p q => fst p <= fst q) rs ->
  (match acc with [] => True | h :: _ => Forall (fun r => fst h <= fst r) rs end) ->
  den (fold_left step rs acc) z = den acc z || den rs z.
Proof.
  induction rs as [|r rs IH]; intros acc z Hs Hh; cbn [fold_left].
  - cbn. rewrite orb_false_r. reflexivity.
  - assert (Hr : match acc with [] => True | h :: _ => fst h <= fst r end).
    { destruct acc; auto. inversion Hh; auto. }
    inversion Hs as [|? ? Hs' Hhd]; subst.
    assert (Hall : Forall (fun q => fst r <= fst q) rs).
    { clear - Hs. apply Sorted_StronglySorted in Hs.
      - inversion Hs; auto.
      - intros p q s; lia. }
    rewrite IH; [|exact Hs'|].
    + rewrite (step_den _ _ _ Hr). cbn [den existsb]. rewrite orb_assoc. reflexivity.
    + pose proof (step_head acc r) as SH.
      destruct (step acc r) as [|h tl] eqn:S; [exact I|].
      apply Forall_forall. intros q Hq. 
      specialize (SH (fst q)). apply SH.
      * destruct acc as [|h0 tl0]; auto. inversion Hh as [|? ? H0 H1]; subst.
        rewrite Forall_forall in H1. apply H1. exact Hq.
      * rewrite Forall_forall in Hall. apply Hall. exact Hq.
Qed.

Lemma den_rev l z : den (rev l) z = den l z.
Proof.
  induction l as [|a l IH]; [reflexivity|]. cbn [rev]. rewrite den_app, IH. cbn. 
  rewrite orb_false_r. apply orb_comm.
Qed.

Theorem merge_den l z : Sorted (fun p q => fst p <= fst q) l -> den (merge l) z = den l z.
Proof.
  destruct l as [|r rs]; [reflexivity|]. intros Hs. unfold merge. rewrite den_rev.
  inversion Hs as [|? ? Hs' Hhd]; subst.
  rewrite fold_den; [cbn; rewrite orb_false_r; reflexivity|exact Hs'|].
  apply Sorted_StronglySorted in Hs; [inversion Hs; auto|intros p q s; lia].
Qed.
Print Assumptions merge_den.
